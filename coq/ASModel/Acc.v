(** * ASModel.Acc — exact accounting of reference counts (C15): the invariant of [AccDefs]
    holds in every reachable state.

    Scope (hypotheses, see the definitions below): no fault in the state after the step
    ([NoFault]), programs without [Cache] commands ([NoCacheP]), destination handles are free
    ([DstFresh]), [Quiet], and the envelope facts [EnvFree], [EnvA] of [EnvDefs]. *)
From Coq Require Import Lia.
From ASModel Require Import Base State Orderings_gen Step Run Progress Hist Inv InvTl InvProto InvStep Sum StepCases.
From ASModel Require Import GenDefs Gen1 Gen2 Gen EnvDefs.
From ASModel Require Import AccDefs Acc1 Acc2 Acc3 Acc4 Acc5 Acc6 Acc7.

(** ** The invariant *)
Definition FreshNodes (s : state) : Prop := fresh_sh (sh s).
Definition Typed (s : state) : Prop := forall t, typed (t_stack (thr s t)).

Record AccInv (s : state) : Prop := {
  ai_acc : Acc s;
  ai_alive : Alive s;
  ai_fresh : FreshNodes s;
  ai_typed : Typed s;
  ai_nocache : NoCacheH s;
}.

(** ** Hypotheses on the programs *)
Definition NoCacheP (s : state) : Prop := forall t c, In c (t_prog (thr s t)) -> cmd_nocache c.

(** A command writes its result into a handle; if that handle is not empty the model
    overwrites it (a leak of the test program).  [DstFresh]: the destination of a command in
    progress is empty, and a command that writes its result at once ([CMove], [CClone] of
    null, [CGuardInto] of a guard without debt) starts with an empty destination or with the
    handle it consumes as destination. *)
Definition DstFresh (s : state) : Prop :=
  (forall t h, In (KDone (Some h)) (t_stack (thr s t)) -> hnd s h = HEmpty) /\
  (forall t c, t_status (thr s t) = Running -> t_stack (thr s t) = [] ->
               nth_error (t_prog (thr s t)) (N.to_nat (t_cmdi (thr s t))) = Some c ->
               cmd_enabled s c = true -> cmd_dst_ok s c).

Definition ProgHyp (s : state) : Prop := NoCacheP s /\ DstFresh s.

(** ** Facts about the acting thread *)
Lemma acting_xhyp s t p rest :
  WF2 s -> EnvA s -> AccInv s -> t_status (thr s t) = Running -> t_stack (thr s t) = p :: rest ->
  xhyp (sh s) (t_loc (thr s t)) p /\
  (in_with p = true -> own_node (t_loc (thr s t)) < mem (sh s) LHead) /\
  all_waiting rest.
Proof.
  intros W EA AI Hr Hs. destruct (w_thr _ W t Hr) as [Htl Hnodes]. rewrite Hs in Htl, Hnodes.
  destruct Htl as (_ & Hw & _ & Hn & _ & Hg). inversion Hnodes as [|? ? Hp _]; subst.
  assert (Htop : in_with p = true -> exists n, tl_node (t_loc (thr s t)) = Some n /\
                   top_ok (mem (sh s) LHead) (mem (sh s)) (t_loc (thr s t)) n (Some p) /\ n < mem (sh s) LHead).
  { intros Hi. destruct (tl_node (t_loc (thr s t))) as [n|] eqn:Hnode.
    - exists n. split; [reflexivity|].
      assert (Hh : holder (thr s t) = Some n) by (unfold holder; rewrite Hnode; reflexivity).
      pose proof (w_top _ W t n Hr Hh) as Ht. rewrite Hs in Ht. split; [exact Ht|exact (w_lt _ W t n Hh)].
    - exfalso. apply Hn; [|reflexivity]. cbn. rewrite (in_with_not_bottom _ Hi), Hi. lia. }
  split; [|split; [|exact Hw]].
  - constructor.
    + exact (ai_alive _ AI).
    + intros Hi. destruct (Htop Hi) as (n & H1 & H2 & _). eauto.
    + exact Hp.
    + pose proof (ai_typed _ AI t) as Ht. rewrite Hs in Ht. exact (proj1 Ht).
    + exact Hg.
    + intros c old w ctl r their mine ->. exact (EA t _ _ _ _ _ _ _ _ Hs).
    + exact (ai_fresh _ AI).
  - intros Hi. destruct (Htop Hi) as (n & H1 & _ & H3). unfold own_node. rewrite H1. exact H3.
Qed.

(** ** A frame step *)
Lemma step_exec_AccInv cf s t x p rest s1 l1 evs nx :
  WF2 s -> Quiet s -> EnvFree s -> EnvA s -> ProgHyp s -> AccInv s ->
  t_status (thr s t) = Running -> t_stack (thr s t) = p :: rest ->
  exec cf (sh s) (t_loc (thr s t)) p x = (s1, l1, evs, nx) ->
  t_status (thread_after cf (thr s t) l1 rest nx) <> Faulted ->
  AccInv (mkState s1 (upd (thr s) t (thread_after cf (thr s t) l1 rest nx)) (hnd_after cf (hnd s) l1 rest nx)).
Proof.
  intros W Q EF EA [PC DF] AI Hr Hs He Hnf.
  destruct (acting_xhyp s t p rest W EA AI Hr Hs) as (Hx & Hown & Hw).
  destruct (exec_step_no_panic _ _ _ _ _ _ _ _ _ _ W Hr Hs He) as [Hp Hup].
  destruct (thread_after_nofault _ _ _ _ _ Hnf) as [Hnf1 Hnf2].
  assert (Hns : ~ nx_stops nx).
  { destruct nx as [?|? ?|?|ps|f]; cbn; try (intros []; fail); intros _; [eapply (Hp ps)|eapply (Hnf1 f)]; reflexivity. }
  pose proof (ai_typed _ AI t) as Ht. rewrite Hs in Ht.
  assert (Hb : is_bottom_frame p = false).
  { destruct (is_bottom_frame p) eqn:Hb; [|reflexivity]. exfalso. apply Hns.
    destruct p; try discriminate Hb; cbn in He; injection He as <- <- <- <-; exact I. }
  pose proof (exec_typed _ _ _ _ _ _ _ _ _ He (proj1 Ht)) as Hnt.
  set (th' := thread_after cf (thr s t) l1 rest nx).
  set (s' := mkState s1 (upd (thr s) t th') (hnd_after cf (hnd s) l1 rest nx)).
  assert (Hdst : forall k hv, after_dst cf l1 rest nx = Some (k, hv) ->
                              hnd s k = HEmpty /\ forall c a, hv <> HCache c a).
  { intros k hv Hd. unfold after_dst in Hd. destruct nx as [| |v| |]; try discriminate Hd.
    destruct (unwind cf l1 rest v) as [| l2 d v2 | | |] eqn:Hu; try discriminate Hd. subst d.
    destruct (unwind_dst cf rest l1 v l2 k hv v2 (proj2 (proj2 Ht)) Hu) as [Hin Hnc].
    split; [|exact Hnc]. apply (proj1 DF t). rewrite Hs. right. exact Hin. }
  constructor.
  - (* the accounting equation *)
    intros a Ha. pose proof (exec_acc a _ _ _ _ _ _ _ _ _ Ha He Hns Hx) as [Hfr Hbal].
    destruct (after_refs a (mem s1) cf (thr s t) l1 p rest nx Ha Hns Hup Hnf2 Ht Hb Hnt) as [Er Ep].
    fold th' in Er, Ep.
    set (hs := match after_dst cf l1 rest nx with Some (k, _) => [k] | None => [] end).
    assert (Hrest : srefs a (mem s1) rest = srefs a (mem (sh s)) rest).
    { apply srefs_env. intros cand e Hin. exfalso. exact (waiting_no_LH7 _ _ _ Hw Hin). }
    assert (Hspend : spend a rest = 0).
    { clear -Hw. induction Hw as [|q rest Hq _ IH]; [reflexivity|]. cbn. rewrite (waiting_fpend a q Hq), IH. reflexivity. }
    apply (Acc_at_update a s s' t (kloc (t_loc (thr s t)) p) hs (ai_acc _ AI a Ha)).
    + unfold hs. destruct (after_dst cf l1 rest nx) as [[k ?]|]; [constructor; [intros []|constructor]|constructor].
    + intros t' Hne. cbn. apply upd_other. exact Hne.
    + intros h Hh. cbn. rewrite hnd_after_dst. unfold hs in Hh.
      destruct (after_dst cf l1 rest nx) as [[k hv]|]; [|reflexivity]. apply upd_other. intros ->. apply Hh. left. reflexivity.
    + exact Hfr.
    + (* an envelope is written: nobody refers to it *)
      intros e Hk. destruct p; try discriminate Hk; cbn [kloc] in Hk; injection Hk as Hk.
      * (* GPush *)
        destruct (exec_gpush_env _ _ _ _ _ _ _ _ _ He) as [Hsame|Hhead]; [left; subst; exact Hsame|right].
        intros w Ht1 He1. subst e.
        destruct (N.lt_ge_cases w (nn s)) as [Hlt|Hge].
        -- destruct (w_ctl _ W w Hlt) as [Hc|[Hc|(e' & He' & Hc)]].
           ++ rewrite Hc in Ht1. discriminate Ht1.
           ++ exact (gen_not_repl _ Hc Ht1).
           ++ rewrite Hc in He1. rewrite (repl_tag _ _ (ex_intro _ e' (conj He' eq_refl))) in He1.
              unfold REPLACEMENT_TAG in He1. rewrite N.add_sub in He1. unfold env_of, env_val in He1.
              replace (4 * (e' + 1) / 4) with (e' + 1) in He1 by (rewrite N.mul_comm, N.div_mul; [reflexivity|discriminate]).
              unfold nn in He'. lia.
        -- destruct (ai_fresh _ AI w Hge) as [_ Hc]. rewrite Hc in Ht1. discriminate Ht1.
      * (* PE6 *)
        right. subst e. exact (proj1 (EF t _ _ _ _ _ _ _ _ Hr Hs)).
    + (* the frames of the other threads *)
      intros t' Hne. apply srefs_env. intros cand e Hin.
      destruct (LH7_top s t' cand e W Q Hin) as (Hr' & (rest' & Hs') & He').
      destruct (decide (LEnv e = kloc (t_loc (thr s t)) p)) as [Hk|Hk]; [|apply Hfr; [exact I|exact Hk]].
      destruct p; try discriminate Hk; cbn [kloc] in Hk; injection Hk as Hk; subst e.
      * destruct (exec_gpush_env _ _ _ _ _ _ _ _ _ He) as [Hsame|Hhead]; [exact Hsame|]. unfold nn in He'. lia.
      * exfalso. exact (proj1 (proj2 (EF t _ _ _ _ _ _ _ _ Hr Hs)) t' cand _ rest' Hs' eq_refl).
    + (* balance *)
      cbn [sh thr hnd s']. rewrite upd_same, Hs. cbn [srefs spend]. rewrite Ep, Hspend.
      assert (Eh : fsum hs (fun h => href a (hnd s h)) = 0 /\
                   fsum hs (fun h => href a (hnd_after cf (hnd s) l1 rest nx h)) = dst_refs a (after_dst cf l1 rest nx)).
      { rewrite hnd_after_dst. unfold hs. destruct (after_dst cf l1 rest nx) as [[k hv]|] eqn:Hd; [|split; reflexivity].
        cbn. rewrite (proj1 (Hdst k hv eq_refl)), upd_same. cbn. split; lia. }
      destruct Eh as [Eh1 Eh2]. rewrite Eh1, Eh2. lia.
  - (* alive *)
    exact (exec_alive _ _ _ _ _ _ _ _ _ (ai_alive _ AI) He).
  - exact (exec_fresh _ _ _ _ _ _ _ _ _ (ai_fresh _ AI) He Hown (xh_nodes _ _ _ Hx)).
  - intros t'. cbn. unfold upd. destruct (decide (t' = t)) as [->|Hne]; [|apply (ai_typed _ AI)].
    exact (exec_thread_typed _ _ _ _ _ _ _ _ _ (thr s t) rest He Ht).
  - intros h c a. cbn. rewrite hnd_after_dst.
    destruct (after_dst cf l1 rest nx) as [[k hv]|] eqn:Hd; [|apply (ai_nocache _ AI)].
    unfold upd. destruct (decide (h = k)); [apply (proj2 (Hdst k hv eq_refl))|apply (ai_nocache _ AI)].
Qed.

(** ** A thread-only change (the thread function returns) *)
Lemma thread_only_AccInv s t th' :
  AccInv s -> t_stack (thr s t) = [] -> typed (t_stack th') ->
  (forall a, srefs a (mem (sh s)) (t_stack th') = 0 /\ spend a (t_stack th') = 0) ->
  AccInv (set_thread s t th').
Proof.
  intros AI Hs Ht Hz. constructor.
  - intros a Ha. apply (Acc_at_update a s (set_thread s t th') t LHead [] (ai_acc _ AI a Ha)).
    + constructor.
    + intros t' Hne. cbn. apply upd_other. exact Hne.
    + reflexivity.
    + reflexivity.
    + discriminate.
    + reflexivity.
    + cbn. rewrite upd_same, Hs. destruct (Hz a) as [-> ->]. cbn. lia.
  - exact (ai_alive _ AI).
  - exact (ai_fresh _ AI).
  - intros t'. cbn. unfold upd. destruct (decide (t' = t)); [exact Ht|apply (ai_typed _ AI)].
  - exact (ai_nocache _ AI).
Qed.

(** ** A command starts *)
Lemma step_cmd_AccInv cf s t c s1 l1 stk r :
  ProgHyp s -> AccInv s ->
  t_status (thr s t) = Running -> t_stack (thr s t) = [] ->
  nth_error (t_prog (thr s t)) (N.to_nat (t_cmdi (thr s t))) = Some c ->
  cmd_enabled s c = true ->
  cmd_start cf s (t_loc (thr s t)) c = inl (s1, l1, stk, r) ->
  AccInv (set_thread s1 t (start_thread (thr s t) l1 stk)).
Proof.
  intros [PC DF] AI Hr Hs Hc Hen Hcs.
  assert (Hnc : cmd_nocache c) by (apply (PC t); eapply nth_error_In; exact Hc).
  pose proof (proj2 DF t c Hr Hs Hc Hen) as Hd.
  destruct (cmd_start_frame _ _ _ _ _ _ _ _ Hcs) as (Hthr & Hhnd & Hmem).
  destruct (start_thread_fields (thr s t) l1 stk) as (F1 & _).
  destruct (cmd_start_effect _ _ _ _ _ _ _ _ Hcs) as (_ & _ & Hmem2 & _).
  constructor.
  - intros a Ha.
    destruct (cmd_start_bal a _ _ _ _ _ _ _ _ Ha Hcs Hnc (ai_nocache _ AI) Hd) as (Ec & Ep & Eb).
    apply (Acc_at_update a s _ t (cmd_k s c) (cmd_hs c) (ai_acc _ AI a Ha)).
    + apply cmd_hs_nodup.
    + intros t' Hne. cbn. rewrite upd_other by exact Hne. rewrite Hthr. reflexivity.
    + exact Hhnd.
    + intros l0 _ Hl0. cbn. apply Hmem. exact Hl0.
    + intros e Hk. destruct c; discriminate Hk.
    + intros t' Hne. apply srefs_env. intros cand e _. cbn. apply Hmem. destruct c; cbn; discriminate.
    + cbn [sh thr hnd set_thread]. rewrite upd_same, F1, Hs, Ec, Ep. cbn [srefs spend].
      assert (Ew : forall m, wL a m (cmd_k s c) = 0) by (intros m; destruct c; reflexivity).
      rewrite !Ew. lia.
  - apply (alive_same_count (sh s)); [exact (cmd_start_heap _ _ _ _ _ _ _ _ Hcs)| |exact (ai_alive _ AI)].
    intros b. apply Hmem2. discriminate.
  - intros n Hn. cbn in *. rewrite Hmem2 in Hn by discriminate.
    destruct (ai_fresh _ AI n Hn) as [H1 H2]. split.
    + intros j. rewrite Hmem2 by discriminate. apply H1.
    + rewrite Hmem2 by discriminate. exact H2.
  - intros t'. cbn. unfold upd. destruct (decide (t' = t)) as [->|Hne].
    + rewrite F1. exact (cmd_start_typed _ _ _ _ _ _ _ _ Hcs Hnc).
    + rewrite Hthr. apply (ai_typed _ AI).
  - exact (cmd_start_nocacheH _ _ _ _ _ _ _ _ Hcs (ai_nocache _ AI)).
Qed.

(** ** Every step preserves the invariant *)
Theorem step_AccInv cf s t x :
  WF2 s -> Quiet s -> EnvFree s -> EnvA s -> ProgHyp s -> AccInv s ->
  NoFault (fst (step cf s t x)) -> AccInv (fst (step cf s t x)).
Proof.
  intros W Q EF EA PH AI NF.
  destruct (step_cases cf s t x) as [E|c s1 l1 stk r Hr Hs Hc Hen Hcs E|n Hr Hs Hn E|Hr Hs Hn E|p rest s1 l1 evs nx Hr Hs He E].
  - rewrite E. exact AI.
  - rewrite E. eapply step_cmd_AccInv; eassumption.
  - rewrite E. apply thread_only_AccInv; [exact AI|exact Hs| |].
    + cbn. repeat split; discriminate || reflexivity.
    + intros a. cbn. auto.
  - rewrite E. apply thread_only_AccInv; [exact AI|exact Hs|exact I|]. intros a. cbn. auto.
  - pose proof (NF t) as Hf. rewrite E in Hf |- *. cbn in Hf. rewrite upd_same in Hf.
    eapply step_exec_AccInv; eassumption.
Qed.

(** ** The initial state *)
Lemma init_stores_acc a th hn : valid a -> forall inits c s0,
  alive_sh s0 -> (forall c', c <= c' -> mem s0 (LStore c') = 0) ->
  Acc_at a (mkState s0 th hn) ->
  Acc_at a (mkState (init_stores inits c s0) th hn) /\ alive_sh (init_stores inits c s0).
Proof.
  intros Ha. induction inits as [|a0 inits IH]; intros c s0 Hal Hz HA; [split; assumption|].
  cbn [init_stores].
  set (s1 := m_set s0 (LStore c) a0).
  set (s2 := if a0 =? 0 then s1 else
             match heap s1 a0 with
             | Some _ => m_set s1 (LCount a0) (mem s1 (LCount a0) + 1)
             | None => mkShared (upd (mem s1) (LCount a0) 1) (upd (heap s1) a0 (Some (next_oid s1))) (next_oid s1 + 1)
             end).
  assert (Hal1 : alive_sh s1) by (apply alive_m_set; [intros b; discriminate|exact Hal]).
  assert (Hm2 : forall l0, (forall b, l0 <> LCount b) -> mem s2 l0 = mem s1 l0).
  { intros l0 Hl0. unfold s2. destruct (a0 =? 0); [reflexivity|]. destruct (heap s1 a0); cbn;
      apply upd_other; apply Hl0. }
  assert (Hc2 : mem s2 (LCount a) = mem s1 (LCount a) + (if a0 =? 0 then 0 else is a a0)).
  { unfold s2. destruct (N.eqb_spec a0 0) as [E0|E0]; [lia|].
    destruct (heap s1 a0) eqn:Hh.
    - cbn [mem m_set]. unfold upd, is, ind.
      destruct (decide (LCount a = LCount a0)) as [[= ->]|Hne]; [rewrite N.eqb_refl; lia|].
      destruct (N.eqb_spec a0 a); [congruence|lia].
    - apply Hal1 in Hh. cbn [mem]. unfold upd, is, ind.
      destruct (decide (LCount a = LCount a0)) as [[= ->]|Hne]; [rewrite N.eqb_refl, Hh; lia|].
      destruct (N.eqb_spec a0 a); [congruence|lia]. }
  assert (Hal2 : alive_sh s2).
  { unfold s2. destruct (a0 =? 0); [exact Hal1|]. destruct (heap s1 a0) eqn:Hh.
    - intros b. cbn. unfold upd. destruct (decide (LCount b = LCount a0)) as [[= ->]|Hne]; [|apply Hal1].
      cbn in Hh. rewrite Hh. split; [discriminate|lia].
    - intros b. cbn. unfold upd. destruct (decide (LCount b = LCount a0)) as [[= ->]|Hne].
      + destruct (decide (a0 = a0)); [|congruence]. split; discriminate.
      + destruct (decide (b = a0)) as [->|Hb]; [congruence|]. apply Hal1. }
  apply IH; [exact Hal2| |].
  - intros c' Hc'. rewrite Hm2 by discriminate. unfold s1. cbn. rewrite upd_other by (intros [= E]; lia). apply Hz. lia.
  - apply (Acc_at_update a (mkState s0 th hn) (mkState s2 th hn) 0 (LStore c) [] HA).
    + constructor.
    + reflexivity.
    + reflexivity.
    + intros l0 Hrel Hne. cbn. rewrite Hm2 by (destruct l0; try contradiction Hrel; discriminate).
      unfold s1. cbn. apply upd_other. exact Hne.
    + discriminate.
    + intros t' _. apply srefs_env. intros cand e _. cbn. rewrite Hm2 by discriminate. unfold s1. cbn. apply upd_other. discriminate.
    + cbn [sh thr hnd wL wR fsum]. rewrite Hc2, (Hm2 (LStore c)) by discriminate. unfold s1 at 2. cbn [mem m_set].
      rewrite upd_same, (Hz c) by lia. rewrite (is_valid_0 a Ha).
      replace (srefs a (mem s2) (t_stack (th 0))) with (srefs a (mem s0) (t_stack (th 0))).
      * unfold s1. cbn [mem m_set]. rewrite upd_other by discriminate.
        destruct (N.eqb_spec a0 0) as [->|]; [rewrite (is_valid_0 a Ha)|]; lia.
      * symmetry. apply srefs_env. intros cand e _. rewrite Hm2 by discriminate. unfold s1. cbn. apply upd_other. discriminate.
Qed.

Lemma init_threads_empty progs t0 : t_stack (init_threads progs 0 (fun _ => no_thread) t0) = [].
Proof. apply (init_threads_stack progs 0 (fun _ => no_thread) t0). cbn. auto. Qed.

Theorem AccInv_init' inits progs : AccInv (init_state inits progs).
Proof.
  constructor.
  - intros a Ha. unfold init_state.
    apply (init_stores_acc a _ _ Ha inits 0 (mkShared init_mem (fun _ => None) 0)).
    + intros b. cbn. split; reflexivity.
    + reflexivity.
    + exists 0, 0. split; [|split; [|reflexivity]]; apply Total_zero_iff; intros [n j|c|w|t0|h]; cbn; try reflexivity.
      * apply (is_valid_NONE a Ha).
      * rewrite init_threads_empty. reflexivity.
      * apply (is_valid_0 a Ha).
      * rewrite init_threads_empty. reflexivity.
  - intros b. unfold init_state. cbn [sh].
    assert (Hv : valid 1) by (split; discriminate).
    refine (proj2 (init_stores_acc 1 (fun _ => no_thread) (fun _ => HEmpty) Hv inits 0 (mkShared init_mem (fun _ => None) 0) _ _ _) b).
    + intros b0. cbn. split; reflexivity.
    + reflexivity.
    + exists 0, 0. split; [|split; [|reflexivity]]; apply Total_zero_iff; intros [n j|c|w|t0|h]; reflexivity.
  - intros n _. unfold init_state. cbn [sh]. split; [intros j|]; rewrite init_stores_other by discriminate; reflexivity.
  - intros t0. cbn. rewrite init_threads_empty. exact I.
  - intros h c a. discriminate.
Qed.

Definition progs_nocache (progs : list (list cmd)) : Prop :=
  forall p c, In p progs -> In c p -> cmd_nocache c.

Theorem AccInv_init inits progs :
  (forall a, In a inits -> a = 0 \/ valid a) -> progs_nocache progs -> AccInv (init_state inits progs).
Proof. intros _ _. apply AccInv_init'. Qed.

(** ** Runs *)
(** What is assumed of every state of a run (besides [WF2], which is inductive). *)
Definition RunHyp (s : state) : Prop := Quiet s /\ EnvFree s /\ EnvA s /\ ProgHyp s.

Theorem run_AccInv cf : forall sched s,
  WF2 s -> AccInv s ->
  (forall k, RunHyp (run_state cf s (firstn k sched))) ->
  NoFault (run_state cf s sched) ->
  AccInv (run_state cf s sched).
Proof.
  induction sched as [|[t x] sched IH]; intros s W AI Hh Hnf; [exact AI|].
  rewrite run_state_cons in *. destruct (Hh 0%nat) as (Q & EF & EA & PH). cbn in Q, EF, EA, PH.
  apply IH.
  - apply step_WF2. exact W.
  - apply step_AccInv; try assumption. eapply NoFault_run_back. exact Hnf.
  - intros k. exact (Hh (S k)).
  - exact Hnf.
Qed.

(** The same with the hypotheses stated for every state separately, [WF2] included. *)
Theorem run_AccInv_all cf sched s :
  AccInv s ->
  (forall k, let sk := run_state cf s (firstn k sched) in
             WF2 sk /\ Quiet sk /\ EnvFree sk /\ EnvA sk /\ ProgHyp sk) ->
  NoFault (run_state cf s sched) ->
  AccInv (run_state cf s sched).
Proof.
  intros AI Hh Hnf. apply run_AccInv; [exact (proj1 (Hh 0%nat))|exact AI| |exact Hnf].
  intros k. exact (proj2 (Hh k)).
Qed.

(** Programs never change: the absence of [Cache] commands is a property of the initial state. *)
Lemma NoCacheP_init inits progs : progs_nocache progs -> NoCacheP (init_state inits progs).
Proof.
  intros Hp t c. cbn [init_state thr].
  apply (init_threads_prog (fun pr => In c pr -> cmd_nocache c)); [intros []|intros p Hin Hc; exact (Hp p c Hin Hc)].
Qed.

Lemma NoCacheP_run cf : forall sched s, NoCacheP s -> NoCacheP (run_state cf s sched).
Proof.
  induction sched as [|[t x] sched IH]; intros s H; [exact H|].
  rewrite run_state_cons. apply IH. intros t' c. rewrite step_prog. apply H.
Qed.

Theorem run_AccInv_init cf inits progs sched :
  (forall a, In a inits -> a = 0 \/ valid a) -> progs_nocache progs ->
  (forall k, let sk := run_state cf (init_state inits progs) (firstn k sched) in
             Quiet sk /\ EnvFree sk /\ EnvA sk /\ DstFresh sk) ->
  NoFault (run_state cf (init_state inits progs) sched) ->
  AccInv (run_state cf (init_state inits progs) sched).
Proof.
  intros Hi Hp Hh Hnf. apply run_AccInv; [apply WF2_init|apply AccInv_init; assumption| |exact Hnf].
  intros k. destruct (Hh k) as (Q & EF & EA & DF).
  split; [exact Q|]. split; [exact EF|]. split; [exact EA|]. split; [|exact DF].
  apply NoCacheP_run. apply NoCacheP_init. exact Hp.
Qed.

(** ** Consequences for quiescent states *)
Definition Quiescent (s : state) : Prop := forall t, t_stack (thr s t) = [].

Lemma quiescent_ctrl s : WF2 s -> Quiet s -> FreshNodes s -> Quiescent s -> forall w, mem (sh s) (LCtrl w) = IDLE.
Proof.
  intros W Q F Hq w. destruct (N.lt_ge_cases w (nn s)) as [Hlt|Hge]; [|exact (proj2 (F w Hge))].
  assert (Hidle : node_idle (mem (sh s)) w); [|exact (proj1 Hidle)].
  destruct (N.eq_dec (mem (sh s) (LInUse w)) NODE_USED) as [Hu|Hu].
  - apply (w_inuse _ W w Hlt) in Hu as (t & Hh).
    destruct (status_running_dec (t_status (thr s t))) as [Hr|Hr].
    + pose proof (w_top _ W t w Hr Hh) as Ht. rewrite (Hq t) in Ht. exact Ht.
    + destruct (q_stop _ Q t Hr) as [Hs Hn]. unfold holder in Hh. rewrite Hn, Hs in Hh. discriminate Hh.
  - apply (w_unowned _ W w Hlt). intros t Hh. apply Hu. apply (w_inuse _ W w Hlt). eauto.
Qed.

Theorem quiescent_counts s a :
  WF2 s -> Quiet s -> AccInv s -> Quiescent s -> valid a ->
  exists nS nC nH,
    Total (fun ij : N * N => is a (mem (sh s) (LSlot (fst ij) (snd ij)))) nS /\
    Total (fun c : N => is a (mem (sh s) (LStore c))) nC /\
    Total (fun h : N => href a (hnd s h)) nH /\
    mem (sh s) (LCount a) + nS = nC + nH.
Proof.
  intros W Q AI Hq Ha. destruct (ai_acc _ AI a Ha) as (nL & nR & TL & TR & E).
  pose proof (quiescent_ctrl s W Q (ai_fresh _ AI) Hq) as Hc.
  set (P := fun i : idx => match i with IStore _ => true | _ => false end).
  destruct (Total_restr P _ _ TR) as (m1 & T1).
  destruct (Total_restr (fun i => negb (P i)) _ _ TR) as (m2 & T2).
  pose proof (Total_split P _ _ _ _ TR T1 T2) as Es.
  exists nL, m1, m2. split; [|split; [|split; [|lia]]].
  - apply (Total_reindex (Lw a s) (fun ij : N * N => ISlot (fst ij) (snd ij))
             (fun i => match i with ISlot n j => Some (n, j) | _ => None end)); [| | |exact TL].
    + intros [n j]. reflexivity.
    + intros [n j|c|w|t|h] [n' j']; try discriminate. intros [= <- <-]. reflexivity.
    + intros [n j|c|w|t|h]; try discriminate; intros _; cbn; try reflexivity. rewrite (Hq t). reflexivity.
  - apply (Total_reindex (restr P (Rw a s)) IStore (fun i => match i with IStore c => Some c | _ => None end)); [| | |exact T1].
    + reflexivity.
    + intros [n j|c|w|t|h] c'; try discriminate. intros [= <-]. reflexivity.
    + intros [n j|c|w|t|h]; try discriminate; intros _; reflexivity.
  - apply (Total_reindex (restr (fun i => negb (P i)) (Rw a s)) IHandle
             (fun i => match i with IHandle h => Some h | _ => None end)); [| | |exact T2].
    + reflexivity.
    + intros [n j|c|w|t|h] h'; try discriminate. intros [= <-]. reflexivity.
    + intros [n j|c|w|t|h]; try discriminate; intros _; cbn; try reflexivity.
      * apply env_cnt_idle. apply Hc.
      * rewrite (Hq t). reflexivity.
Qed.

Theorem no_owner_destroyed s a :
  WF2 s -> Quiet s -> AccInv s -> Quiescent s -> valid a ->
  (forall c, mem (sh s) (LStore c) <> a) ->
  (forall h, href a (hnd s h) = 0) ->
  mem (sh s) (LCount a) = 0 /\ heap (sh s) a = None /\ forall n j, mem (sh s) (LSlot n j) <> a.
Proof.
  intros W Q AI Hq Ha Hst Hh.
  destruct (quiescent_counts s a W Q AI Hq Ha) as (nS & nC & nH & TS & TC & TH & E).
  assert (EC : nC = 0).
  { apply (Total_unique _ _ _ TC). apply Total_zero_iff. intros c. unfold is, ind.
    destruct (N.eqb_spec (mem (sh s) (LStore c)) a) as [Ec|]; [elim (Hst c Ec)|reflexivity]. }
  assert (EH : nH = 0) by (apply (Total_unique _ _ _ TH); apply Total_zero_iff; exact Hh).
  assert (E0 : mem (sh s) (LCount a) = 0) by lia.
  split; [exact E0|]. split; [apply (ai_alive _ AI); exact E0|].
  intros n j Hs. pose proof (Total_ge _ _ (n, j) TS) as Hge. cbn in Hge. rewrite Hs, is_same in Hge. lia.
Qed.

(** A handle refers to [a] iff it is an owned pointer or a guard on [a]. *)
Lemma href_zero a h : href a h = 0 <-> forall x, (h = HOwned x \/ (exists d, h = HGuard x d) \/ (exists c, h = HCache c x)) -> x <> a.
Proof.
  split.
  - intros H x [->|[[d ->]|[c ->]]] ->; cbn in H; rewrite is_same in H; discriminate.
  - intros H. destruct h as [|x|x d|c x]; cbn; try reflexivity; unfold is, ind;
      (destruct (N.eqb_spec x a) as [E|]; [|reflexivity]); exfalso; eapply (H x); eauto.
Qed.

Print Assumptions AccInv_init.
Print Assumptions step_AccInv.
Print Assumptions run_AccInv.
Print Assumptions run_AccInv_all.
Print Assumptions run_AccInv_init.
Print Assumptions quiescent_counts.
Print Assumptions no_owner_destroyed.
