(** * ASModel.Acc2 — typed stacks.

    Several waiting frames (and the bottom frame [KDone None]) discard the value their callee
    returns.  The accounting needs that such a value carries no reference: the frame above a
    discarding frame eventually returns a value without references ([runit]).  [typed] also
    says: no frame of the [Cache] commands, a [K1] frame holds a guard on the value it
    compares with, and a stack ends with exactly one bottom frame. *)
From Coq Require Import Lia.
From ASModel Require Import Base State Orderings_gen Step Run Progress Hist Inv InvTl InvProto InvStep Sum StepCases.
From ASModel Require Import GenDefs Gen1.
From ASModel Require Import AccDefs Acc1.

Definition noref (v : retval) : bool :=
  match v with ROwned _ | RGuard _ _ => false | _ => true end.

(** Frames that discard the value returned to them. *)
Definition ign (w : pc) : bool :=
  match w with
  | WExit _ | WSwap _ | WCasPaid _ _ | WCasRetry _ _ _ | WRcuRet _ | WRcuNext _ _ _ _ | WRcuPanic
  | WInto _ | WDropStore _ | KDone None | WThreadExit => true
  | _ => false
  end.

(** Frames whose call eventually returns a value without references. *)
Definition runit (p : pc) : bool :=
  match p with
  | C1 _ | C2 _ | C3 _
  | P1 _ _ | P2 _ _ | P3 _ _ _ | PE0d _ _ _ | PE0e _ _ _ | PE1 _ _ _ | PE2 _ _ _ _ | PE3 _ _ _ _
  | PE4 _ _ _ _ _ | PE5 _ _ _ _ _ _ | PE6 _ _ _ _ _ _ _ | PE7 _ _ _ _ _ _ _ | PE8 _ _ _ _ | PE9 _ _ _ _ _
  | PS _ _ _ _ | PSi _ _ _ _ | P5 _ _ _ | P6 _ _ | WGetPay _ _ | WHelpRepl _ _ _ _
  | GD1 _ _ | WDropOld | WDropStore _ | WGetSetGen _ => true
  | PDec _ r | WExit r => noref r
  | _ => false
  end.

(** Admissible frames. *)
Definition fokb (p : pc) : bool :=
  match p with
  | K1 _ cur _ v _ => v =? cur
  | Q1 _ _ _ | WCacheReload _ _ _ | KCacheDone _ _ => false
  | _ => true
  end.

Definition link (p : pc) (rest : list pc) : Prop :=
  match rest with
  | [] => is_bottom_frame p = true
  | w :: _ => is_bottom_frame p = false /\ (ign w = true -> runit p = true)
  end.

Fixpoint typed (stk : list pc) : Prop :=
  match stk with
  | [] => True
  | p :: rest => fokb p = true /\ link p rest /\ typed rest
  end.

(** A segment of pushed frames [fs] followed by the frame [w]. *)
Fixpoint segok (fs : list pc) (w : pc) : bool :=
  match fs with
  | [] => true
  | f :: fs' => fokb f && negb (is_bottom_frame f) && implb (ign (hd w fs')) (runit f) && segok fs' w
  end.

Definition next_typed (u : bool) (nx : next) : bool :=
  match nx with
  | NGoto p' => fokb p' && negb (is_bottom_frame p') && implb u (runit p')
  | NPush fs w => segok fs w && fokb w && negb (is_bottom_frame w) && implb u (runit w)
  | NRet v => implb u (noref v)
  | _ => true
  end.

Lemma segok_app fs gs w : segok fs (hd w gs) = true -> segok gs w = true -> segok (fs ++ gs) w = true.
Proof.
  induction fs as [|f fs IH]; intros H1 H2; [exact H2|]. cbn in *.
  apply andb_prop in H1 as [H1 H1d]. apply andb_prop in H1 as [H1 H1c].
  rewrite (IH H1d H2), Bool.andb_true_r.
  replace (hd w (fs ++ gs)) with (hd (hd w gs) fs) by (destruct fs; reflexivity).
  rewrite H1, H1c. reflexivity.
Qed.

Lemma typed_push fs w rest : segok fs w = true -> typed (w :: rest) -> typed (fs ++ w :: rest).
Proof.
  induction fs as [|f fs IH]; intros H1 H2; [exact H2|]. cbn [segok] in H1.
  apply andb_prop in H1 as [H1 H1d]. apply andb_prop in H1 as [H1 H1c]. apply andb_prop in H1 as [H1a H1b].
  cbn [app typed]. split; [exact H1a|]. split; [|apply IH; assumption].
  apply Bool.negb_true_iff in H1b.
  destruct fs as [|g fs]; cbn in *; (split; [exact H1b|]); intros Hi; rewrite Hi in H1c; exact H1c.
Qed.

Lemma next_typed_weaken u nx : next_typed u nx = true -> next_typed false nx = true.
Proof.
  destruct nx; cbn; try reflexivity; intros H.
  - apply andb_prop in H as [H _]. rewrite H. reflexivity.
  - apply andb_prop in H as [H _]. rewrite H. reflexivity.
Qed.

(** ** Helper functions *)
Lemma with_exit_typed l r l' nx u :
  with_exit l r = (l', nx) -> implb u (noref r) = true -> next_typed u nx = true.
Proof.
  unfold with_exit. intros H Hu. destr_in H; injection H as <- <-; cbn; try exact Hu.
  destruct u; cbn in *; [rewrite Hu|]; reflexivity.
Qed.

Lemma fallback_entry_typed cf l c l' nx : fallback_entry cf l c = (l', nx) -> next_typed false nx = true.
Proof. unfold fallback_entry. intros H. destr_in H; injection H as <- <-; reflexivity. Qed.
Lemma gen_step_typed cf l c l' nx : gen_step cf l c = (l', nx) -> next_typed false nx = true.
Proof. unfold gen_step. intros H. destr_in H; injection H as <- <-; reflexivity. Qed.
Lemma load_body_typed cf l c l' nx : load_body cf l c = (l', nx) -> next_typed false nx = true.
Proof. unfold load_body. destruct (cf_use_fast cf); [intros [= <- <-]; reflexivity|apply fallback_entry_typed]. Qed.

Lemma enter_load_typed cf l c l' fs w : enter_load cf l c = inl (l', fs) -> ign w = false -> segok fs w = true.
Proof.
  unfold enter_load. intros H Hw. destruct (tl_node l).
  - destruct (load_body cf (tl_set_depth l (tl_depth l + 1)) c) as [l2 nx] eqn:Hb.
    apply load_body_typed in Hb. destruct nx; try discriminate. injection H as <- <-.
    cbn in *. rewrite Hw. apply andb_prop in Hb as [Hb _]. rewrite Hb. reflexivity.
  - injection H as <- <-. cbn. rewrite Hw. reflexivity.
Qed.

Lemma enter_pay_typed l c old l' fs w : enter_pay l c old = (l', fs) -> segok fs w = true.
Proof.
  unfold enter_pay, pay_body. intros H. destr_in H; injection H as <- <-; cbn; rewrite ?Bool.implb_true_r; reflexivity.
Qed.

Lemma guard_drop_typed p d w : segok (guard_drop_frames p d) w = true.
Proof. unfold guard_drop_frames. destruct d; [|destruct (p =? 0)]; cbn; rewrite ?Bool.implb_true_r; reflexivity. Qed.
Lemma guard_into_typed p d w : ign w = false -> segok (guard_into_frames p d) w = true.
Proof. unfold guard_into_frames. intros Hw. destruct d; [destruct (p =? 0)|]; cbn; rewrite ?Hw; reflexivity. Qed.

Lemma help_dispatch_typed cf l c old w ctl u : next_typed u (help_dispatch cf l c old w ctl) = true.
Proof.
  unfold help_dispatch.
  repeat match goal with |- context [if ?b then _ else _] => destruct b end; cbn; rewrite ?Bool.implb_true_r; reflexivity.
Qed.
Lemma after_slot_typed c old w j u : next_typed u (after_slot c old w j) = true.
Proof. unfold after_slot. destruct (j =? HSLOT); cbn; rewrite ?Bool.implb_true_r; reflexivity. Qed.
Lemma dec_then_typed a r u : implb u (noref r) = true -> next_typed u (dec_then a r) = true.
Proof. unfold dec_then. intros H. destruct (a =? 0); cbn; exact H. Qed.
