(** * ASModel.Acc3 — conservation of references by one frame step ([exec_acc]). *)
From Coq Require Import Lia.
From ASModel Require Import Base State Orderings_gen Step Run Progress Hist Inv InvTl InvProto InvStep Sum StepCases.
From ASModel Require Import GenDefs Gen1.
From ASModel Require Import AccDefs Acc1 Acc2.

Definition refs (a : N) (m : loc -> N) (nx : next) : N :=
  match nx with
  | NGoto p' => fr a m p'
  | NPush fs w => srefs a m fs + fr a m w
  | NRet v => ret_refs a v
  | _ => 0
  end.

Definition pend (a : N) (nx : next) : N :=
  match nx with
  | NGoto p' => fpend a p'
  | NPush fs w => spend a fs + fpend a w
  | _ => 0
  end.

Lemma srefs_app a m fs gs : srefs a m (fs ++ gs) = srefs a m fs + srefs a m gs.
Proof. induction fs as [|f fs IH]; cbn; [reflexivity|rewrite IH; lia]. Qed.
Lemma spend_app a fs gs : spend a (fs ++ gs) = spend a fs + spend a gs.
Proof. induction fs as [|f fs IH]; cbn; [reflexivity|rewrite IH; lia]. Qed.

Section Helpers.
Variable a : N.
Hypothesis Ha : valid a.
Variable m : loc -> N.

Lemma with_exit_refs l r l' nx : with_exit l r = (l', nx) -> refs a m nx = ret_refs a r /\ pend a nx = 0.
Proof. unfold with_exit. intros H. destr_in H; injection H as <- <-; cbn; split; lia. Qed.

Lemma fallback_entry_refs cf l c l' nx : fallback_entry cf l c = (l', nx) -> refs a m nx = 0 /\ pend a nx = 0.
Proof. unfold fallback_entry. intros H. destr_in H; injection H as <- <-; cbn; split; reflexivity. Qed.
Lemma gen_step_refs cf l c l' nx : gen_step cf l c = (l', nx) -> refs a m nx = 0 /\ pend a nx = 0.
Proof. unfold gen_step. intros H. destr_in H; injection H as <- <-; cbn; split; reflexivity. Qed.
Lemma load_body_refs cf l c l' nx : load_body cf l c = (l', nx) -> refs a m nx = 0 /\ pend a nx = 0.
Proof. unfold load_body. destruct (cf_use_fast cf); [intros [= <- <-]; split; reflexivity|apply fallback_entry_refs]. Qed.

Lemma enter_load_refs cf l c l' fs : enter_load cf l c = inl (l', fs) -> srefs a m fs = 0 /\ spend a fs = 0.
Proof.
  unfold enter_load. intros H. destruct (tl_node l).
  - destruct (load_body cf (tl_set_depth l (tl_depth l + 1)) c) as [l2 nx] eqn:Hb.
    apply load_body_refs in Hb. destruct nx; try discriminate. injection H as <- <-. cbn in *. lia.
  - injection H as <- <-. cbn. split; reflexivity.
Qed.

Lemma enter_pay_refs l c old l' fs : enter_pay l c old = (l', fs) -> srefs a m fs = 0 /\ spend a fs = 0.
Proof.
  unfold enter_pay, pay_body. intros H. destr_in H; injection H as <- <-; cbn; split; try reflexivity.
  all: apply N.eqb_eq in Heqb; subst; rewrite (is_valid_0 a Ha); reflexivity.
Qed.

Lemma guard_drop_refs p d : srefs a m (guard_drop_frames p d) = is a p /\ spend a (guard_drop_frames p d) = 0.
Proof.
  unfold guard_drop_frames. destruct d; [cbn; split; lia|]. destruct (N.eqb_spec p 0) as [->|]; cbn; [|split; lia].
  rewrite (is_valid_0 a Ha). split; reflexivity.
Qed.

Lemma guard_into_refs p d :
  srefs a m (guard_into_frames p d) = match d with Some _ => is a p | None => 0 end /\
  spend a (guard_into_frames p d) = 0.
Proof.
  unfold guard_into_frames. destruct d; [|split; reflexivity]. destruct (N.eqb_spec p 0) as [->|]; cbn; [|split; lia].
  rewrite (is_valid_0 a Ha). split; reflexivity.
Qed.

Lemma help_dispatch_refs cf l c old w ctl :
  nx_stops (help_dispatch cf l c old w ctl) \/
  (refs a m (help_dispatch cf l c old w ctl) = is a old /\ pend a (help_dispatch cf l c old w ctl) = 0).
Proof.
  destruct (help_dispatch_cases cf l c old w ctl) as [H|[H|[_ H]]]; [left; exact H|right; rewrite H; cbn; auto..].
Qed.

Lemma after_slot_refs c old w j : refs a m (after_slot c old w j) = is a old /\ pend a (after_slot c old w j) = 0.
Proof. unfold after_slot. destruct (j =? HSLOT); cbn; auto. Qed.

Lemma dec_then_refs v r : refs a m (dec_then v r) = is a v + ret_refs a r /\ pend a (dec_then v r) = 0.
Proof.
  unfold dec_then. destruct (N.eqb_spec v 0) as [->|]; cbn; [|auto]. rewrite (is_valid_0 a Ha). auto.
Qed.
End Helpers.

(** ** Reference counts *)
Definition alive_sh (s : shared) : Prop := forall b, heap s b = None <-> mem s (LCount b) = 0.

Lemma rc_inc_count a s v s' evs : rc_inc s v = Some (s', evs) -> mem s' (LCount a) = mem s (LCount a) + is a v.
Proof.
  unfold rc_inc. destruct (heap s v); [|discriminate]. intros [= <- _]. cbn. unfold upd, is, ind.
  destruct (decide (LCount a = LCount v)) as [[= ->]|Hne]; [rewrite N.eqb_refl; reflexivity|].
  destruct (N.eqb_spec v a); [congruence|lia].
Qed.

Lemma rc_dec_count a s v s' evs : alive_sh s -> rc_dec s v = Some (s', evs) ->
  mem s' (LCount a) + is a v = mem s (LCount a).
Proof.
  intros Hal. unfold rc_dec. destruct (heap s v) eqn:Hh; [|discriminate].
  assert (Hc : mem s (LCount v) <> 0). { intros E. apply Hal in E. congruence. }
  destruct (N.eqb_spec (mem s (LCount v)) 1) as [E1|E1]; intros [= <- _]; cbn; unfold upd, is, ind.
  all: destruct (decide (LCount a = LCount v)) as [[= ->]|Hne]; [rewrite N.eqb_refl; lia|].
  all: destruct (N.eqb_spec v a); [congruence|lia].
Qed.

Lemma rc_alloc_count a s v s' evs : alive_sh s -> rc_alloc s v = Some (s', evs) ->
  mem s' (LCount a) = mem s (LCount a) + is a v.
Proof.
  intros Hal. unfold rc_alloc. destruct (heap s v) eqn:Hh; [discriminate|]. apply Hal in Hh.
  destruct (valid_addr v); [|discriminate]. intros [= <- _]. cbn. unfold upd, is, ind.
  destruct (decide (LCount a = LCount v)) as [[= ->]|Hne]; [rewrite N.eqb_refl; lia|].
  destruct (N.eqb_spec v a); [congruence|lia].
Qed.
