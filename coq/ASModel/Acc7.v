(** * ASModel.Acc7 — restricting and re-indexing finitely supported sums. *)
From Coq Require Import Lia.
From ASModel Require Import Base State Sum Progress.

Section Restrict.
Context {A : Type} `{EqDecision A}.

Definition restr (P : A -> bool) (f : A -> N) : A -> N := fun i => if P i then f i else 0.

Lemma Total_restr (P : A -> bool) f n : Total f n -> exists m, Total (restr P f) m.
Proof.
  intros (d & [Nd C] & _). exists (fsum d (restr P f)). exists d. split; [|reflexivity].
  split; [exact Nd|]. intros k Hk. apply C. unfold restr in Hk. destruct (P k); congruence.
Qed.

Lemma Total_split (P : A -> bool) f n m1 m2 :
  Total f n -> Total (restr P f) m1 -> Total (restr (fun i => negb (P i)) f) m2 -> n = m1 + m2.
Proof.
  intros T T1 T2. pose proof (Total_add _ _ _ _ T1 T2) as T12.
  apply (Total_unique f); [exact T|]. eapply Total_ext; [|exact T12].
  intros k. unfold restr. destruct (P k); cbn; lia.
Qed.
End Restrict.

Section Reindex.
Context {A B : Type} `{EqDecision A} `{EqDecision B}.

Lemma Total_reindex (f : A -> N) (inj : B -> A) (proj : A -> option B) n :
  (forall b, proj (inj b) = Some b) -> (forall i b, proj i = Some b -> inj b = i) ->
  (forall i, proj i = None -> f i = 0) ->
  Total f n -> Total (fun b => f (inj b)) n.
Proof.
  intros H1 H2 H3 (d & [Nd C] & <-).
  assert (Hgen : forall d0, List.NoDup d0 ->
            exists d', List.NoDup d' /\ (forall b, In b d' <-> In (inj b) d0) /\
                       fsum d' (fun b => f (inj b)) = fsum d0 f).
  { induction d0 as [|i d0 IH]; intros Nd0.
    - exists []. split; [constructor|]. split; [intros b; split; intros []|reflexivity].
    - inversion Nd0 as [|? ? Hi Nd1]; subst. destruct (IH Nd1) as (d' & Nd' & Hin & Hs).
      destruct (proj i) as [b|] eqn:Hp.
      + pose proof (H2 i b Hp) as Hb. exists (b :: d'). split; [|split].
        * constructor; [|exact Nd']. intros Hb'. apply Hin in Hb'. rewrite Hb in Hb'. contradiction.
        * intros b0. cbn. rewrite Hin. split; intros [E|E]; auto.
          -- left. subst b0. symmetry. exact Hb.
          -- left. rewrite <- Hb in E. apply (f_equal proj) in E. rewrite !H1 in E. congruence.
        * cbn. rewrite Hs, Hb. reflexivity.
      + exists d'. split; [exact Nd'|]. split.
        * intros b0. rewrite Hin. cbn. split; [auto|]. intros [E|E]; [|exact E].
          rewrite E, H1 in Hp. discriminate.
        * cbn. rewrite (H3 i Hp), Hs. reflexivity. }
  destruct (Hgen d Nd) as (d' & Nd' & Hin & Hs). exists d'. split; [|exact Hs].
  split; [exact Nd'|]. intros b Hb. apply Hin. apply C. exact Hb.
Qed.
End Reindex.
