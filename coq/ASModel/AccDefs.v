(** * ASModel.AccDefs — exact accounting of reference counts: definitions.

    For every address [a] of a value (not null, not the empty-slot marker):

      count(a) + #slots holding a + #increments a writer still owes
        = #containers storing a + #hand-over envelopes holding a
          + #handles referring to a + #references held by frames

    where a guard (handle or frame) counts once whether its debt is still in its slot or was
    paid — a paid debt is a reference, an unpaid one is cancelled by its slot on the left.
    [fr] is the table of references held by each program point. *)
From Coq Require Import Lia.
From ASModel Require Import Base State Orderings_gen Step Run Sum.

Definition ind (b : bool) : N := if b then 1 else 0.

Inductive idx := ISlot (n j : N) | IStore (c : N) | ICtrl (w : N) | IThread (t : N) | IHandle (h : N).
Global Instance idx_eq_dec : EqDecision idx.
Proof. solve_decision. Defined.

Definition valid (a : N) : Prop := a <> 0 /\ a <> NONE.

Section Acc.
Variable a : N.

Definition is (x : N) : N := ind (x =? a).

Definition ret_refs (v : retval) : N :=
  match v with ROwned q => is q | RGuard q _ => is q | _ => 0 end.

(** References (owned counts and debt claims alike) held by a frame. Only [LH7] depends on
    the memory: it is about to read the envelope it was handed. *)
Definition fr (m : loc -> N) (p : pc) : N :=
  match p with
  | LA4 _ v _ | LA5 _ v _ | LA6 _ v => is v
  | LH5 _ _ cand | LH6a cand => is cand
  | LH6b cand | LH6c cand => 2 * is cand
  | LH7 cand e => is cand + is (m (LEnv e))
  | LH8 cand _ r | LH9 cand r | LH10 cand r => is cand + is r
  | PDec x r => is x + ret_refs r
  | GD1 v _ | GI1 v _ => is v
  | GI2 v _ => 2 * is v
  | P2 _ old | P3 _ old _ | PE0d _ old _ | PE0e _ old _ | PE1 _ old _ | PE2 _ old _ _ | PE3 _ old _ _
  | PE8 _ old _ _ | PS _ old _ _ | PSi _ old _ _ | P5 _ old _ | P6 _ old | WHelpRepl _ old _ _ => is old
  | PE4 _ old _ _ r | PE5 _ old _ _ r _ | PE6 _ old _ _ r _ _ | PE7 _ old _ _ r _ _ | PE9 _ old _ _ r => is old + is r
  | S1 _ new => is new
  | K1 _ _ new v _ => is new + is v
  | RAlloc _ _ v _ | RInc _ _ v _ => is v
  | WExit r => ret_refs r
  | WSwap old => is old
  | WCasLoad _ _ new | WCasRetry _ _ new => is new
  | WCasPaid p _ => 2 * is p
  | WRcuCas _ _ p _ | WRcuInto p _ | WRcuRet p | WRcuNext _ _ p _ => is p
  | WInto p | WDropStore p => is p
  | _ => 0
  end.

(** Increments a writer still owes: it removed a debt from a slot and has not yet added the
    reference that replaces it. *)
Definition fpend (p : pc) : N := match p with PSi _ old _ _ => is old | _ => 0 end.

Fixpoint srefs (m : loc -> N) (stk : list pc) : N :=
  match stk with [] => 0 | p :: rest => fr m p + srefs m rest end.
Fixpoint spend (stk : list pc) : N :=
  match stk with [] => 0 | p :: rest => fpend p + spend rest end.

Definition href (h : handle) : N :=
  match h with HOwned x | HGuard x _ | HCache _ x => is x | HEmpty => 0 end.

(** A control word carrying a replacement owns what its envelope holds. *)
Definition env_cnt (m : loc -> N) (w : N) : N :=
  let v := m (LCtrl w) in
  if N.land v TAG_MASK =? REPLACEMENT_TAG then is (m (LEnv (env_of (v - N.land v TAG_MASK)))) else 0.

Definition Lw (s : state) (i : idx) : N :=
  match i with
  | ISlot n j => is (mem (sh s) (LSlot n j))
  | IThread t => spend (t_stack (thr s t))
  | _ => 0
  end.

Definition Rw (s : state) (i : idx) : N :=
  match i with
  | IStore c => is (mem (sh s) (LStore c))
  | ICtrl w => env_cnt (mem (sh s)) w
  | IThread t => srefs (mem (sh s)) (t_stack (thr s t))
  | IHandle h => href (hnd s h)
  | ISlot _ _ => 0
  end.

Definition Acc_at (s : state) : Prop :=
  exists nL nR, Total (Lw s) nL /\ Total (Rw s) nR /\ mem (sh s) (LCount a) + nL = nR.

(** Executable version over explicit index lists (used by the model driver to test the
    table on every state of the correspondence runs; not used in proofs). *)
Definition acc_check (s : state) (nodes conts thrs hnds : list N) : bool :=
  let slots := flat_map (fun n => map (fun j => ISlot n j) [0;1;2;3;4;5;6;7;8]) nodes in
  let l := fsum (slots ++ map IThread thrs) (Lw s) in
  let r := fsum (map IStore conts ++ map ICtrl nodes ++ map IThread thrs ++ map IHandle hnds) (Rw s) in
  mem (sh s) (LCount a) + l =? r.
End Acc.

Definition Acc (s : state) : Prop := forall a, valid a -> Acc_at a s.

(** A value is alive exactly while its count is positive. *)
Definition Alive (s : state) : Prop := forall a, heap (sh s) a = None <-> mem (sh s) (LCount a) = 0.

Definition acc_check_all (s : state) (addrs nodes conts thrs hnds : list N) : option N :=
  find (fun a => negb (acc_check a s nodes conts thrs hnds)) addrs.
