(** * ASModel.Alive — C05: a FRAME that holds a guard keeps its value alive (and the value keeps
    its identity), so that address equality in [compare_and_swap] / [rcu] is identity equality.

    [Main.C10_guard_keeps_value] is about guards stored in HANDLES.  Here the same statement is
    proved for the frames of [compare_and_swap] and [rcu] (and of the guard operations) that
    carry a guard [(v, d)] returned by a completed load: [guard_frame]. *)
From Coq Require Import Lia.
From ASModel Require Import Base State Orderings_gen Step Run Progress Hist Inv InvTl InvProto InvStep Sum StepCases.
From ASModel Require Import GenDefs Gen1 Gen2 Gen EnvDefs Env4 Env.
From ASModel Require Import AccDefs Acc1 Acc2 Acc3 Acc4 Acc5 Acc6 Acc7 Acc.
From ASModel Require Import ProtDefs Prot1 Prot11 Prot16 Prot Typed LinDefs Lin2 Lin.
From ASModel Require Import Safe1 Safe2 Safe3 Safe4 Safe5 Safe6 Safe7 Safe8 Safe Main.

(** ** Frames that hold a guard *)
Definition guard_frame (p : pc) : option (N * option slot) :=
  match p with
  | K1 _ _ _ v d | RAlloc _ _ v d | RInc _ _ v d | WCasPaid v d | WRcuCas _ _ v d | WRcuInto v d
  | WRcuNext _ _ v d => Some (v, d)
  | GD1 v sl | GI1 v sl | GI2 v sl => Some (v, Some sl)
  | PDec _ (RGuard v d) | WExit (RGuard v d) => Some (v, d)
  | _ => None
  end.

(** The claim of a guard frame is the claim of its guard. *)
Lemma guard_frame_claims l p v d :
  guard_frame p = Some (v, d) -> frame_claims l p = claim_of_guard v d.
Proof.
  destruct p; try discriminate; cbn [guard_frame frame_claims].
  all: try (intros [= <- <-]; reflexivity).
  all: destruct r; try discriminate; intros [= <- <-]; reflexivity.
Qed.

(** ** Guards with a debt: the claim keeps the count positive *)
Lemma hit_in_list a (cl : list (slot * N)) sl : In (sl, a) cl -> 1 <= fsum cl (hit a sl).
Proof.
  intros H. etransitivity; [|apply (fsum_in_le cl (hit a sl) (sl, a) H)]. unfold hit. cbn.
  rewrite (proj2 (slot_eqb_eq sl sl) eq_refl), N.eqb_refl. cbn. lia.
Qed.

(** An unconfirmed publication is the claim of the TOP frame. *)
Lemma unconfirmed_top_claim n j a th q rest :
  t_stack th = q :: rest -> unconfirmed_top n j a th = true ->
  In ((n, j), a) (frame_claims (t_loc th) q).
Proof.
  unfold unconfirmed_top. intros ->. destruct (tl_node (t_loc th)) as [n'|] eqn:Hn; [|discriminate].
  intros H. apply andb_prop in H as [H1 H2]. apply N.eqb_eq in H1. subst n'.
  assert (Ho : own_node (t_loc th) = n) by (unfold own_node; rewrite Hn; reflexivity).
  destruct q; try discriminate H2; apply andb_prop in H2 as [Ha Hj]; apply N.eqb_eq in Ha, Hj; subst;
    cbn [frame_claims]; left; reflexivity.
Qed.

Section FrameAlive.
Variable s : state.
Hypothesis AI : AccInv s.
Hypothesis PI : ProtInv' s.

(** The frame may be anywhere in the stack.  If the top of the same stack is a load that has
    just published the same address in the same slot (the slot was paid in between and the
    container holds the address again: A-B-A), the slot is claimed twice by one thread. *)
Lemma guard_claim_alive a t p n j :
  valid a -> In p (t_stack (thr s t)) -> guard_frame p = Some (a, Some (n, j)) ->
  1 <= mem (sh s) (LCount a).
Proof.
  intros Ha Hin Hg.
  assert (Hc : In ((n, j), a) (frame_claims (t_loc (thr s t)) p))
    by (rewrite (guard_frame_claims _ _ _ _ Hg); left; reflexivity).
  assert (Hcs : In ((n, j), a) (cls s (IThread t))).
  { cbn [cls]. unfold stack_claims. apply in_flat_map. exists p. split; assumption. }
  destruct (unconfirmed_top n j a (thr s t)) eqn:Hu.
  2:{ apply (claim_alive s AI PI a (IThread t) n j Ha Hcs). intros t' [= <-]. exact Hu. }
  destruct (t_stack (thr s t)) as [|q rest] eqn:Hst; [destruct Hin|].
  pose proof (unconfirmed_top_frame n j a (thr s t) q rest Hst Hu) as Hq.
  pose proof (unconfirmed_top_claim n j a (thr s t) q rest Hst Hu) as Hcq.
  destruct Hin as [->|Hin]. { destruct p; try contradiction; discriminate Hg. }
  apply (count_surplus a Ha s (ai_acc _ AI a Ha) (q_shape _ PI) (q_claimed _ PI) [IThread t] n j).
  intros d Nd Hex Hcov.
  pose proof (is_le1 a (mem (sh s) (slot_loc (n, j)))) as Hle. unfold isat.
  enough (2 <= occ a s d (n, j)) by lia.
  unfold occ. etransitivity;
    [|apply (fsum_in_le d (fun i => fsum (cls s i) (hit a (n, j))) (IThread t)); apply Hex; left; reflexivity].
  cbn [cls]. unfold stack_claims. rewrite Hst. cbn [flat_map]. rewrite fsum_app.
  pose proof (hit_in_list a _ (n, j) Hcq) as H1.
  assert (Hr : In ((n, j), a) (flat_map (frame_claims (t_loc (thr s t))) rest))
    by (apply in_flat_map; exists p; split; assumption).
  pose proof (hit_in_list a _ (n, j) Hr) as H2. lia.
Qed.
End FrameAlive.

(** ** Guards without a debt: the frame owns a reference *)
Lemma guard_own a m l p : guard_frame p = Some (a, None) -> 1 <= own a m l p.
Proof.
  intros Hg. unfold own, claimsA, payb, hbf, pay_frame_of.
  destruct p; try discriminate Hg; cbn [guard_frame] in Hg;
    repeat match goal with r : retval |- _ => destruct r; try discriminate Hg end;
    injection Hg as -> ->;
    cbn [frame_claims claim_of_guard fpend owns_old pay_old fr fsum ret_refs isc snd ind];
    rewrite ?is_same; rewrite ?N.eqb_refl; cbn [ind]; unfold is, ind;
    repeat match goal with |- context [N.eqb ?x ?y] => destruct (N.eqb x y) end; lia.
Qed.

(** ** The theorems *)
Lemma frame_guard_count s t p v d :
  AccInv s -> ProtInv' s -> In p (t_stack (thr s t)) -> guard_frame p = Some (v, d) -> valid v ->
  1 <= mem (sh s) (LCount v).
Proof.
  intros AI PI Hin Hg Hv. destruct d as [[n j]|].
  - exact (guard_claim_alive s AI PI v t p n j Hv Hin Hg).
  - apply (frame_owner_alive s AI PI v t p Hv Hin). apply guard_own. exact Hg.
Qed.

Theorem frame_guard_alive s t p v d :
  Master s -> In p (t_stack (thr s t)) -> guard_frame p = Some (v, d) -> valid v ->
  heap (sh s) v <> None.
Proof.
  intros M Hin Hg Hv Hn. apply (ai_alive _ (m_acc _ M)) in Hn.
  pose proof (frame_guard_count s t p v d (m_acc _ M) (m_prot _ M) Hin Hg Hv). lia.
Qed.

Theorem frame_guard_identity cf s t t' x p v d :
  GenBound s -> ProgOK s -> alloc_ok s t' x -> Master s ->
  In p (t_stack (thr s t)) -> In p (t_stack (thr (fst (step cf s t' x)) t)) ->
  guard_frame p = Some (v, d) -> valid v ->
  heap (sh (fst (step cf s t' x))) v = heap (sh s) v /\ heap (sh s) v <> None.
Proof.
  intros GB PO AO M Hin Hin' Hg Hv.
  pose proof (step_Master cf s t' x GB PO AO M) as M'.
  pose proof (frame_guard_alive s t p v d M Hin Hg Hv) as H1.
  pose proof (frame_guard_alive _ t p v d M' Hin' Hg Hv) as H2.
  split; [|exact H1].
  destruct (heap (sh s) v) as [o|] eqn:E1; [|congruence].
  destruct (heap (sh (fst (step cf s t' x))) v) as [o'|] eqn:E2; [|congruence].
  f_equal. symmetry. exact (step_heap cf s t' x v o o' E1 E2).
Qed.

(** ** compare_and_swap: the value the exchange compares with is the guarded one *)
Lemma gtyped_fok stk p : gtyped stk -> In p stk -> fok p = true.
Proof.
  induction stk as [|q stk IH]; intros Ht Hin; [destruct Hin|].
  destruct Ht as (Hq & _ & Ht). destruct Hin as [<-|Hin]; [exact Hq|exact (IH Ht Hin)].
Qed.

Lemma cas_frame_current s t c cur new p d :
  ProtInv' s -> In (K1 c cur new p d) (t_stack (thr s t)) -> p = cur.
Proof.
  intros PI Hin. pose proof (gtyped_fok _ _ (q_typed _ PI t) Hin) as H. cbn [fok] in H.
  apply N.eqb_eq. exact H.
Qed.

(** C05.  While [compare_and_swap] is about to exchange ([K1]: its load has returned the
    guard [(p, d)] and [p] was found equal to [cur]), the address [cur] that the exchange
    compares the storage with is the address of a LIVE object — the one the guard protects —
    and that object stays the same object over every step (of any thread) that leaves the
    frame in place: the address cannot have been freed and reused (A-B-A), so equality of
    addresses is equality of objects. *)
Theorem cas_current_identity cf s t t' x c cur new p d :
  GenBound s -> ProgOK s -> alloc_ok s t' x -> Master s ->
  In (K1 c cur new p d) (t_stack (thr s t)) -> valid cur ->
  p = cur /\ heap (sh s) cur <> None /\
  (In (K1 c cur new p d) (t_stack (thr (fst (step cf s t' x)) t)) ->
   heap (sh (fst (step cf s t' x))) cur = heap (sh s) cur).
Proof.
  intros GB PO AO M Hin Hv.
  pose proof (cas_frame_current s t c cur new p d (m_prot _ M) Hin) as ->.
  split; [reflexivity|]. split.
  - exact (frame_guard_alive s t _ cur d M Hin eq_refl Hv).
  - intros Hin'. exact (proj1 (frame_guard_identity cf s t t' x _ cur d GB PO AO M Hin Hin' eq_refl Hv)).
Qed.

Print Assumptions frame_guard_alive.
Print Assumptions frame_guard_identity.
Print Assumptions cas_current_identity.
