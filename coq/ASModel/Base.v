(** * ASModel.Base — words, locations, orderings, events.

    Everything is first-order and computable; numbers are [N]. *)
From Coq Require Export NArith List Bool.
From stdpp Require Export base decidable numbers option.
Export ListNotations.
Open Scope N_scope.

(** ** Constants of the crate (src/debt/mod.rs, helping.rs, list.rs, fast.rs) *)
Definition NONE : N := 3.          (* Debt::NONE *)
Definition IDLE : N := 0.
Definition REPLACEMENT_TAG : N := 1.
Definition GEN_TAG : N := 2.
Definition TAG_MASK : N := 3.
Definition NODE_UNUSED : N := 0.
Definition NODE_USED : N := 1.
Definition NODE_COOLDOWN : N := 2.
Definition SLOT_CNT : N := 8.      (* DEBT_SLOT_CNT; slot index 8 is the helping slot *)
Definition HSLOT : N := 8.
Definition WORD : N := 18446744073709551616. (* 2^64: generation arithmetic is wrapping_add *)

(** ** Memory orderings *)
Inductive ord := Relaxed | Acquire | Release | AcqRel | SeqCst.
Global Instance ord_eq_dec : EqDecision ord. Proof. solve_decision. Defined.

(** ** Atomic locations.  Node [n] is the [n]-th node ever prepended to the list;
    envelope [e] is the [Handover] cell embedded in node [e]. *)
Inductive loc :=
| LStore (c : N)              (* ArcSwapAny::ptr of container c *)
| LHead                       (* LIST_HEAD *)
| LSlot (n i : N)             (* i < 8: fast slot i of node n; i = 8: helping slot *)
| LCtrl (n : N)               (* helping.control *)
| LAddr (n : N)               (* helping.active_addr *)
| LOffer (n : N)              (* helping.space_offer *)
| LEnv (e : N)                (* helping.handover.0 of node e *)
| LInUse (n : N)
| LWriters (n : N)            (* active_writers *)
| LCount (a : N).             (* strong count of the object at address a *)
Global Instance loc_eq_dec : EqDecision loc. Proof. solve_decision. Defined.

(** Canonical encodings of pointers that are stored in memory words. *)
Definition env_val (e : N) : N := 4 * (e + 1).      (* address of envelope e, 4-aligned, non-null *)
Definition env_of (v : N) : N := v / 4 - 1.
Definition store_val (c : N) : N := 8 * (c + 1).    (* address of the storage of container c *)
Definition node_val (n : N) : N := n + 1.           (* LIST_HEAD value: pointer to node n; 0 = null *)

Global Arguments env_val : simpl never.
Global Arguments env_of : simpl never.
Global Arguments store_val : simpl never.
Global Arguments node_val : simpl never.

(** A debt slot: node and index (index 8 = helping slot). *)
Definition slot : Type := (N * N)%type.
Definition slot_loc (sl : slot) : loc := LSlot (fst sl) (snd sl).

(** ** Operations and events *)
Inductive aop := OLoad | OStore | OSwap | OCas | OCasWeak | OFetchAdd | OFetchSub.
Global Instance aop_eq_dec : EqDecision aop. Proof. solve_decision. Defined.

(** What an API call hands back to the program. *)
Inductive retval :=
| RUnit
| RNode (n : N)
| RGuard (p : N) (d : option slot)    (* pointer and the debt slot it still owes, if any *)
| ROwned (p : N)
| RPanic.                             (* the user's closure panicked; the harness caught the unwind *)

Inductive panic_site :=
| PExpectNode          (* "LocalNode::with ensures it is set" *)
| PSlotNotNone         (* debug_assert_eq!(Debt::NONE, old/prev) *)
| PCtrlNotIdle         (* debug_assert_eq!(IDLE, prev, "Left control in wrong state") *)
| POwnCtrlNotIdle      (* debug_assert_eq!(IDLE, self.control.load(Relaxed)) in help *)
| PInUseNotUsed        (* debug_assert_eq!(node.in_use.load(Relaxed), NODE_USED) *)
| PHelpMyself          (* "Refusing to help myself" *)
| PInvalidControl      (* unreachable!("Invalid control value") *)
| PNotReplacement      (* debug_assert_eq!(control & TAG_MASK, REPLACEMENT_TAG) *)
| PCooldownNotUsed     (* assert_eq!(NODE_USED, in_use.swap(NODE_COOLDOWN)) *)
| PGenTagged           (* debug_assert_eq!(gen & GEN_TAG, 0) *)
| PSpaceUnaligned.     (* assert_eq!(my_space & TAG_MASK, 0) *)

Inductive fault :=
| FDeadInc (a : N) | FDeadDec (a : N)       (* count touched after destruction *)
| FBadAlloc (a : N)                         (* scheduler offered a live/reserved address *)
| FBadHandle (h : N)                        (* program used a handle it does not have *)
| FBadChoice.

Inductive event :=
| EvCmd (k : N)
| EvAcc (l : loc) (op : aop) (o fo : ord) (old new : N) (ok : bool)
| EvRc (a : N) (inc : bool) (old : N)
| EvAlloc (a oid : N)
| EvDestroy (a oid : N)
| EvRet (k : N) (r : retval)
| EvPanic (s : panic_site)
| EvFault (f : fault)
| EvExit.
