(** * ASModel.CchAcc — exact accounting of reference counts WITH the [Cache] commands: the
    invariant of [CchDefs] holds in every reachable state (adaptation of [Acc]).

    Hypotheses (see the definitions below): no fault in the state after the step ([NoFault]),
    destination handles are free ([DstFresh]; for [CCacheNew c k] the handle [k], for
    [CCacheLoad k] nothing), nobody else writes the handle of a cache command in progress
    ([CacheExclS]), [Quiet], the kind typing [Typed.Typed], and the envelope facts [EnvFree],
    [EnvA] of [EnvDefs]. *)
From Coq Require Import Lia.
From ASModel Require Import Base State Orderings_gen Step Run Progress Hist Inv InvTl InvProto InvStep Sum StepCases.
From ASModel Require Import GenDefs Gen1 Gen2 Gen EnvDefs Typed1.
From ASModel Require Import CchDefs CchAcc1 CchAcc2 CchAcc3 CchAcc4 CchAcc5 CchAcc6 CchOwn.

(** ** The invariant *)
Definition FreshNodes (s : state) : Prop := fresh_sh (sh s).
Definition Typed (s : state) : Prop := forall t, typed (t_stack (thr s t)).
Definition OTyped (s : state) : Prop := forall t, otyped (t_stack (thr s t)).

Record AccInv (s : state) : Prop := {
  ai_acc : Acc s;
  ai_alive : Alive s;
  ai_fresh : FreshNodes s;
  ai_typed : Typed s;
  ai_otyped : OTyped s;
}.

(** ** Hypotheses on the programs *)
(** [DstFresh] as in [Acc] ([cmd_dst_ok] of [CchAcc4] also asks that the handle of a
    [CCacheNew] is empty). *)
Definition DstFresh (s : state) : Prop :=
  (forall t h, In (KDone (Some h)) (t_stack (thr s t)) -> hnd s h = HEmpty) /\
  (forall t c, t_status (thr s t) = Running -> t_stack (thr s t) = [] ->
               nth_error (t_prog (thr s t)) (N.to_nat (t_cmdi (thr s t))) = Some c ->
               cmd_enabled s c = true -> cmd_dst_ok s c).

(** The handle a bottom frame writes. *)
Definition bdst (p : pc) : option N :=
  match p with KDone (Some h) => Some h | KCacheDone _ k => Some k | _ => None end.

(** While a cache command on handle [k] is in progress in thread [t'], no other thread has a
    command in progress that writes [k] when it completes, and no other thread starts a command
    that consumes or overwrites [k].  (In Rust [Cache::load] takes [&mut self].)  Stack form;
    [CchMain] derives it from a statement about the current commands. *)
Definition CacheExclS (s : state) : Prop :=
  forall t t' c k, t <> t' -> In (KCacheDone c k) (t_stack (thr s t')) ->
    (forall f, In f (t_stack (thr s t)) -> bdst f <> Some k) /\
    (forall cm, t_status (thr s t) = Running -> t_stack (thr s t) = [] ->
                nth_error (t_prog (thr s t)) (N.to_nat (t_cmdi (thr s t))) = Some cm -> ~ In k (cmd_hs cm)).

Definition ProgHyp (s : state) : Prop := DstFresh s /\ CacheExclS s.

(** [skd] only looks at the handles of the [KCacheDone] frames. *)
Lemma skd_hnd_eq a hn hn' stk :
  (forall c k, In (KCacheDone c k) stk -> hn' k = hn k) -> skd a hn' stk = skd a hn stk.
Proof.
  induction stk as [|p stk IH]; intros H; [reflexivity|]. cbn [skd].
  rewrite IH by (intros c k Hin; apply (H c k); right; exact Hin). f_equal.
  destruct p; try reflexivity. cbn. rewrite (H c k) by (left; reflexivity). reflexivity.
Qed.

Lemma after_dst_stack cf th l1 rest nx d :
  after_dst cf l1 rest nx = Some d -> t_stack (thread_after cf th l1 rest nx) = [].
Proof.
  unfold after_dst, thread_after. destruct nx; try discriminate.
  destruct (unwind cf l1 rest v); try discriminate. reflexivity.
Qed.

(** ** Facts about the acting thread *)
Lemma acting_xhyp s t p rest :
  WF2 s -> EnvA s -> AccInv s -> t_status (thr s t) = Running -> t_stack (thr s t) = p :: rest ->
  xhyp (sh s) (t_loc (thr s t)) p /\
  (in_with p = true -> own_node (t_loc (thr s t)) < mem (sh s) LHead) /\
  all_waiting rest.
Proof.
  intros W EA AI Hr Hs. destruct (w_thr _ W t Hr) as [Htl Hnodes]. rewrite Hs in Htl, Hnodes.
  destruct Htl as (_ & Hw & _ & Hn & _ & Hg). inversion Hnodes as [|? ? Hp _]; subst.
  assert (Htop : in_with p = true -> exists n, tl_node (t_loc (thr s t)) = Some n /\
                   top_ok (mem (sh s) LHead) (mem (sh s)) (t_loc (thr s t)) n (Some p) /\ n < mem (sh s) LHead).
  { intros Hi. destruct (tl_node (t_loc (thr s t))) as [n|] eqn:Hnode.
    - exists n. split; [reflexivity|].
      assert (Hh : holder (thr s t) = Some n) by (unfold holder; rewrite Hnode; reflexivity).
      pose proof (w_top _ W t n Hr Hh) as Ht. rewrite Hs in Ht. split; [exact Ht|exact (w_lt _ W t n Hh)].
    - exfalso. apply Hn; [|reflexivity]. cbn. rewrite (in_with_not_bottom _ Hi), Hi. lia. }
  split; [|split; [|exact Hw]].
  - constructor.
    + exact (ai_alive _ AI).
    + intros Hi. destruct (Htop Hi) as (n & H1 & H2 & _). eauto.
    + exact Hp.
    + pose proof (ai_typed _ AI t) as Ht. rewrite Hs in Ht. exact (proj1 Ht).
    + exact Hg.
    + intros c old w ctl r their mine ->. exact (EA t _ _ _ _ _ _ _ _ Hs).
    + exact (ai_fresh _ AI).
  - intros Hi. destruct (Htop Hi) as (n & H1 & _ & H3). unfold own_node. rewrite H1. exact H3.
Qed.

(** The kind typing of [Typed] (stated here to keep the name [Typed] for the reference typing). *)
Definition KTyped (s : state) : Prop :=
  forall t, t_status (thr s t) = Running -> typed_stack (t_stack (thr s t)) = true.

(** ** A frame step *)
Lemma step_exec_AccInv cf s t x p rest s1 l1 evs nx :
  WF2 s -> Quiet s -> EnvFree s -> EnvA s -> ProgHyp s -> KTyped s -> AccInv s ->
  t_status (thr s t) = Running -> t_stack (thr s t) = p :: rest ->
  exec cf (sh s) (t_loc (thr s t)) p x = (s1, l1, evs, nx) ->
  t_status (thread_after cf (thr s t) l1 rest nx) <> Faulted ->
  AccInv (mkState s1 (upd (thr s) t (thread_after cf (thr s t) l1 rest nx)) (hnd_after cf (hnd s) l1 rest nx)).
Proof.
  intros W Q EF EA [DF CX] KT AI Hr Hs He Hnf.
  destruct (acting_xhyp s t p rest W EA AI Hr Hs) as (Hx & Hown & Hw).
  destruct (exec_step_no_panic _ _ _ _ _ _ _ _ _ _ W Hr Hs He) as [Hp Hup].
  destruct (thread_after_nofault _ _ _ _ _ Hnf) as [Hnf1 Hnf2].
  assert (Hns : ~ nx_stops nx).
  { destruct nx as [?|? ?|?|ps|f]; cbn; try (intros []; fail); intros _; [eapply (Hp ps)|eapply (Hnf1 f)]; reflexivity. }
  pose proof (ai_typed _ AI t) as Ht. rewrite Hs in Ht.
  assert (Hb : is_bottom_frame p = false).
  { destruct (is_bottom_frame p) eqn:Hb; [|reflexivity]. exfalso. apply Hns.
    destruct p; try discriminate Hb; cbn in He; injection He as <- <- <- <-; exact I. }
  pose proof (exec_typed _ _ _ _ _ _ _ _ _ He (proj1 Ht)) as Hnt.
  pose proof (KT t Hr) as Hk. rewrite Hs in Hk.
  pose proof (exec_ok _ _ _ _ _ _ _ _ _ (typed_top _ _ Hk) He) as Hok.
  pose proof (typed_chain _ _ Hk) as Hch.
  pose proof (ai_otyped _ AI t) as Hot. rewrite Hs in Hot.
  assert (Hownd : forall v l' dst v' c k, nx = NRet v -> unwind cf l1 rest v = UDone l' dst v' ->
                    In (KCacheDone c k) rest -> exists a', v' = ROwned a').
  { intros v l' dst v' c k -> Hu Hin. cbn in Hok.
    exact (unwind_owned cf rest l1 v (out_kinds p) Hok Hch Hot (proj2 (proj2 Ht)) l' dst v' c k Hu Hin). }
  set (th' := thread_after cf (thr s t) l1 rest nx).
  set (s' := mkState s1 (upd (thr s) t th') (hnd_after cf (hnd s) l1 rest nx)).
  assert (Hdst : forall k hv, after_dst cf l1 rest nx = Some (k, hv) ->
                   (exists f, In f rest /\ bdst f = Some k) /\
                   forall a, href a (hnd s k) = dst_old a (hnd s) (Some (k, hv))).
  { intros k hv Hd. unfold after_dst in Hd. destruct nx as [| |v| |]; try discriminate Hd.
    destruct (unwind cf l1 rest v) as [| l2 d v2 | | |] eqn:Hu; try discriminate Hd. subst d.
    destruct (unwind_dst cf rest l1 v l2 k hv v2 (proj2 (proj2 Ht)) Hu) as [[Hin Hnc]|(c & a0 & Hin & ->)].
    - split; [exists (KDone (Some k)); split; [exact Hin|reflexivity]|]. intros a.
      rewrite (proj1 DF t k) by (rewrite Hs; right; exact Hin). cbn.
      destruct hv; try reflexivity. elim (Hnc c a0 eq_refl).
    - split; [exists (KCacheDone c k); split; [exact Hin|reflexivity]|]. intros a. reflexivity. }
  constructor.
  - (* the accounting equation *)
    intros a Ha. pose proof (exec_acc a _ _ _ _ _ _ _ _ _ Ha He Hns Hx) as [Hfr Hbal].
    destruct (after_refs a (mem s1) (hnd s) cf (thr s t) l1 p rest nx Ha Hns Hup Hnf2 Ht Hb Hnt Hownd) as (Er & Ep & Ek).
    fold th' in Er, Ep, Ek.
    set (hs := match after_dst cf l1 rest nx with Some (k, _) => [k] | None => [] end).
    assert (Hrest : srefs a (mem s1) rest = srefs a (mem (sh s)) rest).
    { apply srefs_env. intros cand e Hin. exfalso. exact (waiting_no_LH7 _ _ _ Hw Hin). }
    assert (Hspend : spend a rest = 0).
    { clear -Hw. induction Hw as [|q rest Hq _ IH]; [reflexivity|]. cbn. rewrite (waiting_fpend a q Hq), IH. reflexivity. }
    assert (Hkd' : skd a (hnd_after cf (hnd s) l1 rest nx) (t_stack th') = skd a (hnd s) (t_stack th')).
    { rewrite hnd_after_dst. destruct (after_dst cf l1 rest nx) as [[k hv]|] eqn:Hd; [|reflexivity].
      unfold th'. rewrite (after_dst_stack cf (thr s t) l1 rest nx _ Hd). reflexivity. }
    apply (Acc_at_update a s s' t (kloc (t_loc (thr s t)) p) hs (ai_acc _ AI a Ha)).
    + unfold hs. destruct (after_dst cf l1 rest nx) as [[k ?]|]; [constructor; [intros []|constructor]|constructor].
    + intros t' Hne. cbn. apply upd_other. exact Hne.
    + intros h Hh. cbn. rewrite hnd_after_dst. unfold hs in Hh.
      destruct (after_dst cf l1 rest nx) as [[k hv]|]; [|reflexivity]. apply upd_other. intros ->. apply Hh. left. reflexivity.
    + exact Hfr.
    + (* an envelope is written: nobody refers to it *)
      intros e Hk0. destruct p; try discriminate Hk0; cbn [kloc] in Hk0; injection Hk0 as Hk0.
      * (* GPush *)
        destruct (exec_gpush_env _ _ _ _ _ _ _ _ _ He) as [Hsame|Hhead]; [left; subst; exact Hsame|right].
        intros w Ht1 He1. subst e.
        destruct (N.lt_ge_cases w (nn s)) as [Hlt|Hge].
        -- destruct (w_ctl _ W w Hlt) as [Hc|[Hc|(e' & He' & Hc)]].
           ++ rewrite Hc in Ht1. discriminate Ht1.
           ++ exact (gen_not_repl _ Hc Ht1).
           ++ rewrite Hc in He1. rewrite (repl_tag _ _ (ex_intro _ e' (conj He' eq_refl))) in He1.
              unfold REPLACEMENT_TAG in He1. rewrite N.add_sub in He1. unfold env_of, env_val in He1.
              replace (4 * (e' + 1) / 4) with (e' + 1) in He1 by (rewrite N.mul_comm, N.div_mul; [reflexivity|discriminate]).
              unfold nn in He'. lia.
        -- destruct (ai_fresh _ AI w Hge) as [_ Hc]. rewrite Hc in Ht1. discriminate Ht1.
      * (* PE6 *)
        right. subst e. exact (proj1 (EF t _ _ _ _ _ _ _ _ Hr Hs)).
    + (* the frames of the other threads *)
      intros t' Hne. apply srefs_env. intros cand e Hin.
      destruct (LH7_top s t' cand e W Q Hin) as (Hr' & (rest' & Hs') & He').
      destruct (decide (LEnv e = kloc (t_loc (thr s t)) p)) as [Hk0|Hk0]; [|apply Hfr; [exact I|exact Hk0]].
      destruct p; try discriminate Hk0; cbn [kloc] in Hk0; injection Hk0 as Hk0; subst e.
      * destruct (exec_gpush_env _ _ _ _ _ _ _ _ _ He) as [Hsame|Hhead]; [exact Hsame|]. unfold nn in He'. lia.
      * exfalso. exact (proj1 (proj2 (EF t _ _ _ _ _ _ _ _ Hr Hs)) t' cand _ rest' Hs' eq_refl).
    + (* the cache handles of the other threads are not written *)
      intros t' Hne. cbn [hnd s']. rewrite hnd_after_dst.
      destruct (after_dst cf l1 rest nx) as [[k hv]|] eqn:Hd; [|reflexivity].
      apply skd_hnd_eq. intros c k' Hin. apply upd_other. intros ->.
      destruct (proj1 (Hdst k hv eq_refl)) as (f & Hf & Hfk).
      destruct (CX t t' c k (fun E => Hne (eq_sym E)) Hin) as [H1 _].
      apply (H1 f); [rewrite Hs; right; exact Hf|exact Hfk].
    + (* balance *)
      cbn [sh thr hnd s']. rewrite upd_same, Hs. cbn [srefs spend skd]. rewrite Hkd', Ep, Hspend.
      rewrite (nonbottom_kd a (hnd s) p Hb).
      assert (Eh : fsum hs (fun h => href a (hnd s h)) = dst_old a (hnd s) (after_dst cf l1 rest nx) /\
                   fsum hs (fun h => href a (hnd_after cf (hnd s) l1 rest nx h)) = dst_refs a (after_dst cf l1 rest nx)).
      { rewrite hnd_after_dst. unfold hs. destruct (after_dst cf l1 rest nx) as [[k hv]|] eqn:Hd; [|split; reflexivity].
        cbn [fsum]. rewrite (proj2 (Hdst k hv eq_refl) a), upd_same. cbn [dst_refs]. split; lia. }
      destruct Eh as [Eh1 Eh2]. rewrite Eh1, Eh2. lia.
  - (* alive *)
    exact (exec_alive _ _ _ _ _ _ _ _ _ (ai_alive _ AI) He).
  - exact (exec_fresh _ _ _ _ _ _ _ _ _ (ai_fresh _ AI) He Hown (xh_nodes _ _ _ Hx)).
  - intros t'. cbn. unfold upd. destruct (decide (t' = t)) as [->|Hne]; [|apply (ai_typed _ AI)].
    exact (exec_thread_typed _ _ _ _ _ _ _ _ _ (thr s t) rest He Ht).
  - intros t'. cbn. unfold upd. destruct (decide (t' = t)) as [->|Hne]; [|apply (ai_otyped _ AI)].
    exact (thread_after_otyped cf (thr s t) l1 p rest nx Hok Hch Hot Ht Hb Hnt).
Qed.

(** ** A thread-only change (the thread function returns) *)
Lemma thread_only_AccInv s t th' :
  AccInv s -> t_stack (thr s t) = [] -> typed (t_stack th') -> otyped (t_stack th') ->
  (forall a, srefs a (mem (sh s)) (t_stack th') = 0 /\ spend a (t_stack th') = 0 /\ skd a (hnd s) (t_stack th') = 0) ->
  AccInv (set_thread s t th').
Proof.
  intros AI Hs Ht Hot Hz. constructor.
  - intros a Ha. apply (Acc_at_update a s (set_thread s t th') t LHead [] (ai_acc _ AI a Ha)).
    + constructor.
    + intros t' Hne. cbn. apply upd_other. exact Hne.
    + reflexivity.
    + reflexivity.
    + discriminate.
    + reflexivity.
    + reflexivity.
    + cbn. rewrite upd_same, Hs. destruct (Hz a) as (-> & -> & ->). cbn. lia.
  - exact (ai_alive _ AI).
  - exact (ai_fresh _ AI).
  - intros t'. cbn. unfold upd. destruct (decide (t' = t)); [exact Ht|apply (ai_typed _ AI)].
  - intros t'. cbn. unfold upd. destruct (decide (t' = t)); [exact Hot|apply (ai_otyped _ AI)].
Qed.

(** ** A command starts *)
Lemma step_cmd_AccInv cf s t c s1 l1 stk r :
  ProgHyp s -> AccInv s ->
  t_status (thr s t) = Running -> t_stack (thr s t) = [] ->
  nth_error (t_prog (thr s t)) (N.to_nat (t_cmdi (thr s t))) = Some c ->
  cmd_enabled s c = true ->
  cmd_start cf s (t_loc (thr s t)) c = inl (s1, l1, stk, r) ->
  AccInv (set_thread s1 t (start_thread (thr s t) l1 stk)).
Proof.
  intros [DF CX] AI Hr Hs Hc Hen Hcs.
  pose proof (proj2 DF t c Hr Hs Hc Hen) as Hd.
  destruct (cmd_start_frame _ _ _ _ _ _ _ _ Hcs) as (Hthr & Hhnd & Hmem).
  destruct (start_thread_fields (thr s t) l1 stk) as (F1 & _).
  destruct (cmd_start_effect _ _ _ _ _ _ _ _ Hcs) as (_ & _ & Hmem2 & _).
  constructor.
  - intros a Ha.
    destruct (cmd_start_bal a _ _ _ _ _ _ _ _ Ha Hcs Hd) as (Ec & Ep & Eb).
    apply (Acc_at_update a s _ t (cmd_k s c) (cmd_hs c) (ai_acc _ AI a Ha)).
    + apply cmd_hs_nodup.
    + intros t' Hne. cbn. rewrite upd_other by exact Hne. rewrite Hthr. reflexivity.
    + exact Hhnd.
    + intros l0 _ Hl0. cbn. apply Hmem. exact Hl0.
    + intros e Hk. destruct c; discriminate Hk.
    + intros t' Hne. apply srefs_env. intros cand e _. cbn. apply Hmem. destruct c; cbn; discriminate.
    + intros t' Hne. cbn [hnd set_thread]. apply skd_hnd_eq. intros c0 k Hin. apply Hhnd.
      exact (proj2 (CX t t' c0 k (fun E => Hne (eq_sym E)) Hin) c Hr Hs Hc).
    + cbn [sh thr hnd set_thread]. rewrite upd_same, F1, Hs, Ec, Ep. cbn [srefs spend skd].
      assert (Ew : forall m, wL a m (cmd_k s c) = 0) by (intros m; destruct c; reflexivity).
      rewrite !Ew. lia.
  - apply (alive_same_count (sh s)); [exact (cmd_start_heap _ _ _ _ _ _ _ _ Hcs)| |exact (ai_alive _ AI)].
    intros b. apply Hmem2. discriminate.
  - intros n Hn. cbn in *. rewrite Hmem2 in Hn by discriminate.
    destruct (ai_fresh _ AI n Hn) as [H1 H2]. split.
    + intros j. rewrite Hmem2 by discriminate. apply H1.
    + rewrite Hmem2 by discriminate. exact H2.
  - intros t'. cbn. unfold upd. destruct (decide (t' = t)) as [->|Hne].
    + rewrite F1. exact (cmd_start_typed _ _ _ _ _ _ _ _ Hcs).
    + rewrite Hthr. apply (ai_typed _ AI).
  - intros t'. cbn. unfold upd. destruct (decide (t' = t)) as [->|Hne].
    + rewrite F1. exact (cmd_start_otyped _ _ _ _ _ _ _ _ Hcs).
    + rewrite Hthr. apply (ai_otyped _ AI).
Qed.

(** ** Every step preserves the invariant *)
Theorem step_AccInv cf s t x :
  WF2 s -> Quiet s -> EnvFree s -> EnvA s -> ProgHyp s -> KTyped s -> AccInv s ->
  NoFault (fst (step cf s t x)) -> AccInv (fst (step cf s t x)).
Proof.
  intros W Q EF EA PH KT AI NF.
  destruct (step_cases cf s t x) as [E|c s1 l1 stk r Hr Hs Hc Hen Hcs E|n Hr Hs Hn E|Hr Hs Hn E|p rest s1 l1 evs nx Hr Hs He E].
  - rewrite E. exact AI.
  - rewrite E. eapply step_cmd_AccInv; eassumption.
  - rewrite E. apply thread_only_AccInv; [exact AI|exact Hs| | |].
    + cbn. repeat split; discriminate || reflexivity.
    + cbn. repeat split; discriminate.
    + intros a. cbn. auto.
  - rewrite E. apply thread_only_AccInv; [exact AI|exact Hs|exact I|exact I|]. intros a. cbn. auto.
  - pose proof (NF t) as Hf. rewrite E in Hf |- *. cbn in Hf. rewrite upd_same in Hf.
    eapply step_exec_AccInv; eassumption.
Qed.

(** ** The initial state *)
Lemma init_stores_acc a th hn : valid a -> forall inits c s0,
  alive_sh s0 -> (forall c', c <= c' -> mem s0 (LStore c') = 0) ->
  Acc_at a (mkState s0 th hn) ->
  Acc_at a (mkState (init_stores inits c s0) th hn) /\ alive_sh (init_stores inits c s0).
Proof.
  intros Ha. induction inits as [|a0 inits IH]; intros c s0 Hal Hz HA; [split; assumption|].
  cbn [init_stores].
  set (s1 := m_set s0 (LStore c) a0).
  set (s2 := if a0 =? 0 then s1 else
             match heap s1 a0 with
             | Some _ => m_set s1 (LCount a0) (mem s1 (LCount a0) + 1)
             | None => mkShared (upd (mem s1) (LCount a0) 1) (upd (heap s1) a0 (Some (next_oid s1))) (next_oid s1 + 1)
             end).
  assert (Hal1 : alive_sh s1) by (apply alive_m_set; [intros b; discriminate|exact Hal]).
  assert (Hm2 : forall l0, (forall b, l0 <> LCount b) -> mem s2 l0 = mem s1 l0).
  { intros l0 Hl0. unfold s2. destruct (a0 =? 0); [reflexivity|]. destruct (heap s1 a0); cbn;
      apply upd_other; apply Hl0. }
  assert (Hc2 : mem s2 (LCount a) = mem s1 (LCount a) + (if a0 =? 0 then 0 else is a a0)).
  { unfold s2. destruct (N.eqb_spec a0 0) as [E0|E0]; [lia|].
    destruct (heap s1 a0) eqn:Hh.
    - cbn [mem m_set]. unfold upd, is, ind.
      destruct (decide (LCount a = LCount a0)) as [[= ->]|Hne]; [rewrite N.eqb_refl; lia|].
      destruct (N.eqb_spec a0 a); [congruence|lia].
    - apply Hal1 in Hh. cbn [mem]. unfold upd, is, ind.
      destruct (decide (LCount a = LCount a0)) as [[= ->]|Hne]; [rewrite N.eqb_refl, Hh; lia|].
      destruct (N.eqb_spec a0 a); [congruence|lia]. }
  assert (Hal2 : alive_sh s2).
  { unfold s2. destruct (a0 =? 0); [exact Hal1|]. destruct (heap s1 a0) eqn:Hh.
    - intros b. cbn. unfold upd. destruct (decide (LCount b = LCount a0)) as [[= ->]|Hne]; [|apply Hal1].
      cbn in Hh. rewrite Hh. split; [discriminate|lia].
    - intros b. cbn. unfold upd. destruct (decide (LCount b = LCount a0)) as [[= ->]|Hne].
      + destruct (decide (a0 = a0)); [|congruence]. split; discriminate.
      + destruct (decide (b = a0)) as [->|Hb]; [congruence|]. apply Hal1. }
  apply IH; [exact Hal2| |].
  - intros c' Hc'. rewrite Hm2 by discriminate. unfold s1. cbn. rewrite upd_other by (intros [= E]; lia). apply Hz. lia.
  - apply (Acc_at_update a (mkState s0 th hn) (mkState s2 th hn) 0 (LStore c) [] HA).
    + constructor.
    + reflexivity.
    + reflexivity.
    + intros l0 Hrel Hne. cbn. rewrite Hm2 by (destruct l0; try contradiction Hrel; discriminate).
      unfold s1. cbn. apply upd_other. exact Hne.
    + discriminate.
    + intros t' _. apply srefs_env. intros cand e _. cbn. rewrite Hm2 by discriminate. unfold s1. cbn. apply upd_other. discriminate.
    + reflexivity.
    + cbn [sh thr hnd wL wR fsum]. rewrite Hc2, (Hm2 (LStore c)) by discriminate. unfold s1 at 2. cbn [mem m_set].
      rewrite upd_same, (Hz c) by lia. rewrite (is_valid_0 a Ha).
      replace (srefs a (mem s2) (t_stack (th 0))) with (srefs a (mem s0) (t_stack (th 0))).
      * unfold s1. cbn [mem m_set]. rewrite upd_other by discriminate.
        destruct (N.eqb_spec a0 0) as [->|]; [rewrite (is_valid_0 a Ha)|]; lia.
      * symmetry. apply srefs_env. intros cand e _. rewrite Hm2 by discriminate. unfold s1. cbn. apply upd_other. discriminate.
Qed.

Lemma init_threads_empty progs t0 : t_stack (init_threads progs 0 (fun _ => no_thread) t0) = [].
Proof. apply (init_threads_stack progs 0 (fun _ => no_thread) t0). cbn. auto. Qed.

Theorem AccInv_init' inits progs : AccInv (init_state inits progs).
Proof.
  constructor.
  - intros a Ha. unfold init_state.
    apply (init_stores_acc a _ _ Ha inits 0 (mkShared init_mem (fun _ => None) 0)).
    + intros b. cbn. split; reflexivity.
    + reflexivity.
    + exists 0, 0. split; [|split; [|reflexivity]]; apply Total_zero_iff; intros [n j|c|w|t0|h]; cbn; try reflexivity.
      * apply (is_valid_NONE a Ha).
      * rewrite init_threads_empty. reflexivity.
      * apply (is_valid_0 a Ha).
      * rewrite init_threads_empty. reflexivity.
  - intros b. unfold init_state. cbn [sh].
    assert (Hv : valid 1) by (split; discriminate).
    refine (proj2 (init_stores_acc 1 (fun _ => no_thread) (fun _ => HEmpty) Hv inits 0 (mkShared init_mem (fun _ => None) 0) _ _ _) b).
    + intros b0. cbn. split; reflexivity.
    + reflexivity.
    + exists 0, 0. split; [|split; [|reflexivity]]; apply Total_zero_iff; intros [n j|c|w|t0|h]; reflexivity.
  - intros n _. unfold init_state. cbn [sh]. split; [intros j|]; rewrite init_stores_other by discriminate; reflexivity.
  - intros t0. cbn. rewrite init_threads_empty. exact I.
  - intros t0. cbn. rewrite init_threads_empty. exact I.
Qed.


Print Assumptions step_AccInv.
Print Assumptions AccInv_init'.
