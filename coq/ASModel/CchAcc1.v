(** * ASModel.CchAcc1 (copy of Acc1 for the extended table of CchDefs) — accounting of reference counts: sums that change at finitely many
    indices, the weights [Lw]/[Rw] of [AccDefs] as functions of the memory, and the generic
    transfer lemma [Acc_at_update]. *)
From Coq Require Import Lia.
From ASModel Require Import Base State Orderings_gen Step Run Progress Hist Inv InvTl InvProto InvStep Sum StepCases.
From ASModel Require Import CchDefs.

(** ** Sums *)
Section Change.
Context {A : Type} `{EqDecision A}.

Lemma fsum_upd_notin (ks : list A) (f : A -> N) k v : ~ In k ks -> fsum ks (upd f k v) = fsum ks f.
Proof.
  intros H. apply fsum_ext. intros j Hj. apply upd_other. intros ->. contradiction.
Qed.

(** A function that changes at the indices [ks] only. *)
Lemma Total_change (ks : list A) : forall (f f' : A -> N) n,
  List.NoDup ks -> Total f n -> (forall i, ~ In i ks -> f' i = f i) ->
  exists n', Total f' n' /\ n' + fsum ks f = n + fsum ks f'.
Proof.
  induction ks as [|k ks IH]; intros f f' n Hnd T Hoff.
  - exists n. split; [|cbn; lia]. eapply Total_ext; [|exact T]. intros i. symmetry. apply Hoff. intros [].
  - inversion Hnd as [|? ? Hk Hnd']; subst.
    destruct (Total_upd f n k (f' k) T) as (m & Tm & Em).
    destruct (IH (upd f k (f' k)) f' m Hnd' Tm) as (n' & Tn & En).
    { intros i Hi. destruct (decide (i = k)) as [->|Hne]; [rewrite upd_same; reflexivity|].
      rewrite upd_other by exact Hne. apply Hoff. intros [E|E]; [congruence|contradiction]. }
    exists n'. split; [exact Tn|]. rewrite fsum_upd_notin in En by exact Hk. cbn. lia.
Qed.
End Change.

(** ** Local arithmetic *)
Lemma is_valid_0 a : valid a -> is a 0 = 0.
Proof. intros [H _]. unfold is, ind. destruct (N.eqb_spec 0 a); [congruence|reflexivity]. Qed.
Lemma is_valid_NONE a : valid a -> is a NONE = 0.
Proof. intros [_ H]. unfold is, ind. destruct (N.eqb_spec NONE a); [congruence|reflexivity]. Qed.
Lemma is_same a : is a a = 1.
Proof. unfold is, ind. rewrite N.eqb_refl. reflexivity. Qed.
Lemma is_le1 a x : is a x <= 1.
Proof. unfold is, ind. destruct (x =? a); lia. Qed.

(** Decide every equality test against [a] (and other [=?] tests) and finish by [lia]. *)
Ltac is_lia :=
  unfold is, ind in *;
  repeat match goal with
         | |- context [N.eqb ?x ?y] => destruct (N.eqb_spec x y)
         | H : context [N.eqb ?x ?y] |- _ => destruct (N.eqb_spec x y)
         end;
  subst; try congruence; try lia.

(** ** The accounting equation under a change at finitely many indices *)
Lemma acc_change a s s' (ks : list idx) :
  Acc_at a s -> List.NoDup ks ->
  (forall i, ~ In i ks -> Lw a s' i = Lw a s i /\ Rw a s' i = Rw a s i) ->
  mem (sh s') (LCount a) + fsum ks (Lw a s') + fsum ks (Rw a s)
    = mem (sh s) (LCount a) + fsum ks (Lw a s) + fsum ks (Rw a s') ->
  Acc_at a s'.
Proof.
  intros (nL & nR & TL & TR & E) Hnd Hoff Hbal.
  destruct (Total_change ks (Lw a s) (Lw a s') nL Hnd TL) as (nL' & TL' & EL); [intros i Hi; apply Hoff; exact Hi|].
  destruct (Total_change ks (Rw a s) (Rw a s') nR Hnd TR) as (nR' & TR' & ER); [intros i Hi; apply Hoff; exact Hi|].
  exists nL', nR'. split; [exact TL'|]. split; [exact TR'|]. lia.
Qed.

(** ** Weights as functions of the memory *)
Definition mrel (l0 : loc) : Prop :=
  match l0 with LSlot _ _ | LStore _ | LCtrl _ | LEnv _ => True | _ => False end.

Definition wL (a : N) (m : loc -> N) (k : loc) : N :=
  match k with LSlot n j => is a (m (LSlot n j)) | _ => 0 end.
Definition wR (a : N) (m : loc -> N) (k : loc) : N :=
  match k with LStore c => is a (m (LStore c)) | LCtrl w => env_cnt a m w | _ => 0 end.

Definition idx_of_loc (k : loc) : list idx :=
  match k with LSlot n j => [ISlot n j] | LStore c => [IStore c] | LCtrl w => [ICtrl w] | _ => [] end.

(** No control word carries envelope [e]. *)
Definition env_unused (m : loc -> N) (e : N) : Prop :=
  forall w, N.land (m (LCtrl w)) TAG_MASK = REPLACEMENT_TAG ->
            env_of (m (LCtrl w) - N.land (m (LCtrl w)) TAG_MASK) <> e.

Lemma fsum_idx_L a s k : fsum (idx_of_loc k) (Lw a s) = wL a (mem (sh s)) k.
Proof. destruct k; cbn; lia. Qed.
Lemma fsum_idx_R a s k : fsum (idx_of_loc k) (Rw a s) = wR a (mem (sh s)) k.
Proof. destruct k; cbn; lia. Qed.
Lemma fsum_hnd_L a s hs : fsum (map IHandle hs) (Lw a s) = 0.
Proof. induction hs as [|h hs IH]; cbn; [reflexivity|exact IH]. Qed.
Lemma fsum_hnd_R a s hs : fsum (map IHandle hs) (Rw a s) = fsum hs (fun h => href a (hnd s h)).
Proof. induction hs as [|h hs IH]; cbn; [reflexivity|rewrite IH; reflexivity]. Qed.

Lemma env_cnt_frame a m m' w :
  m' (LCtrl w) = m (LCtrl w) ->
  (forall e, N.land (m (LCtrl w)) TAG_MASK = REPLACEMENT_TAG ->
             e = env_of (m (LCtrl w) - N.land (m (LCtrl w)) TAG_MASK) -> m' (LEnv e) = m (LEnv e)) ->
  env_cnt a m' w = env_cnt a m w.
Proof.
  intros E1 E2. unfold env_cnt. rewrite E1.
  destruct (N.eqb_spec (N.land (m (LCtrl w)) TAG_MASK) REPLACEMENT_TAG) as [Ht|Ht]; [|reflexivity].
  rewrite (E2 _ Ht eq_refl). reflexivity.
Qed.

Lemma NoDup_app_intro {A} (l1 l2 : list A) :
  List.NoDup l1 -> List.NoDup l2 -> (forall x, In x l1 -> ~ In x l2) -> List.NoDup (l1 ++ l2).
Proof.
  induction l1 as [|x l1 IH]; intros H1 H2 H; [exact H2|]. inversion H1; subst. cbn. constructor.
  - intros Hin. apply in_app_or in Hin as [Hin|Hin]; [contradiction|]. exact (H x (or_introl eq_refl) Hin).
  - apply IH; auto. intros y Hy. apply H. right. exact Hy.
Qed.

Lemma Acc_at_update a s s' t k hs :
  Acc_at a s -> List.NoDup hs ->
  (forall t', t' <> t -> thr s' t' = thr s t') ->
  (forall h, ~ In h hs -> hnd s' h = hnd s h) ->
  (forall l0, mrel l0 -> l0 <> k -> mem (sh s') l0 = mem (sh s) l0) ->
  (forall e, k = LEnv e -> mem (sh s') (LEnv e) = mem (sh s) (LEnv e) \/ env_unused (mem (sh s)) e) ->
  (forall t', t' <> t -> srefs a (mem (sh s')) (t_stack (thr s t')) = srefs a (mem (sh s)) (t_stack (thr s t'))) ->
  (forall t', t' <> t -> skd a (hnd s') (t_stack (thr s t')) = skd a (hnd s) (t_stack (thr s t'))) ->
  mem (sh s') (LCount a) + wL a (mem (sh s')) k + (spend a (t_stack (thr s' t)) + skd a (hnd s') (t_stack (thr s' t)))
     + (wR a (mem (sh s)) k + srefs a (mem (sh s)) (t_stack (thr s t)) + fsum hs (fun h => href a (hnd s h)))
  = mem (sh s) (LCount a) + wL a (mem (sh s)) k + (spend a (t_stack (thr s t)) + skd a (hnd s) (t_stack (thr s t)))
     + (wR a (mem (sh s')) k + srefs a (mem (sh s')) (t_stack (thr s' t)) + fsum hs (fun h => href a (hnd s' h))) ->
  Acc_at a s'.
Proof.
  intros HA Hnd Hthr Hhnd Hmem Henv Hoth Hkd Hbal.
  apply (acc_change a s s' (idx_of_loc k ++ IThread t :: map IHandle hs) HA).
  - apply NoDup_app_intro.
    + destruct k; cbn; repeat constructor; intros [].
    + constructor.
      * intros Hin. apply in_map_iff in Hin as (h & E & _). discriminate.
      * apply FinFun.Injective_map_NoDup; [intros x y [= ->]; reflexivity|exact Hnd].
    + intros i Hi [E|Hin]; [subst i; destruct k; cbn in Hi; intuition discriminate|].
      apply in_map_iff in Hin as (h & <- & _). destruct k; cbn in Hi; intuition discriminate.
  - intros i Hi.
    assert (Hk : forall l0, idx_of_loc l0 = [i] -> l0 <> k).
    { intros l0 E ->. apply Hi. apply in_or_app. left. rewrite E. left. reflexivity. }
    destruct i as [n j|c|w|t'|h]; cbn [Lw Rw].
    + rewrite (Hmem (LSlot n j) I (Hk (LSlot n j) eq_refl)). auto.
    + rewrite (Hmem (LStore c) I (Hk (LStore c) eq_refl)). auto.
    + split; [reflexivity|]. apply env_cnt_frame; [apply (Hmem (LCtrl w) I (Hk (LCtrl w) eq_refl))|].
      intros e Ht ->. destruct (decide (LEnv (env_of (mem (sh s) (LCtrl w) - N.land (mem (sh s) (LCtrl w)) TAG_MASK)) = k)) as [E|E].
      * symmetry in E. destruct (Henv _ E) as [Hs|Hu]; [exact Hs|]. exfalso. exact (Hu w Ht eq_refl).
      * apply Hmem; [exact I|exact E].
    + assert (Hne : t' <> t). { intros ->. apply Hi. apply in_or_app. right. left. reflexivity. }
      rewrite (Hthr t' Hne), (Hoth t' Hne), (Hkd t' Hne). auto.
    + rewrite Hhnd; [auto|]. intros Hin. apply Hi. apply in_or_app. right. right. apply in_map. exact Hin.
  - rewrite !fsum_app. cbn [fsum]. rewrite !fsum_idx_L, !fsum_idx_R, !fsum_hnd_L, !fsum_hnd_R. cbn [Lw Rw]. lia.
Qed.
