(** * ASModel.CchAcc2 — typed stacks (copy of Acc2 that admits the frames of the [Cache] commands).

    Several waiting frames (and the bottom frame [KDone None]) discard the value their callee
    returns.  The accounting needs that such a value carries no reference: the frame above a
    discarding frame eventually returns a value without references ([runit]).  [typed] also
    says: no frame of the [Cache] commands, a [K1] frame holds a guard on the value it
    compares with, and a stack ends with exactly one bottom frame. *)
From Coq Require Import Lia.
From ASModel Require Import Base State Orderings_gen Step Run Progress Hist Inv InvTl InvProto InvStep Sum StepCases.
From ASModel Require Import GenDefs Gen1.
From ASModel Require Import CchDefs CchAcc1.

Definition noref (v : retval) : bool :=
  match v with ROwned _ | RGuard _ _ => false | _ => true end.

(** Frames that discard the value returned to them. *)
Definition ign (w : pc) : bool :=
  match w with
  | WExit _ | WSwap _ | WCasPaid _ _ | WCasRetry _ _ _ | WRcuRet _ | WRcuNext _ _ _ _ | WRcuPanic
  | WInto _ | WDropStore _ | KDone None | WThreadExit => true
  | _ => false
  end.

(** Frames whose call eventually returns a value without references. *)
Definition runit (p : pc) : bool :=
  match p with
  | C1 _ | C2 _ | C3 _
  | P1 _ _ | P2 _ _ | P3 _ _ _ | PE0d _ _ _ | PE0e _ _ _ | PE1 _ _ _ | PE2 _ _ _ _ | PE3 _ _ _ _
  | PE4 _ _ _ _ _ | PE5 _ _ _ _ _ _ | PE6 _ _ _ _ _ _ _ | PE7 _ _ _ _ _ _ _ | PE8 _ _ _ _ | PE9 _ _ _ _ _
  | PS _ _ _ _ | PSi _ _ _ _ | P5 _ _ _ | P6 _ _ | WGetPay _ _ | WHelpRepl _ _ _ _
  | GD1 _ _ | WDropOld | WDropStore _ | WGetSetGen _ => true
  | PDec _ r | WExit r => noref r
  | _ => false
  end.

(** Admissible frames. *)
Definition fokb (p : pc) : bool :=
  match p with
  | K1 _ cur _ v _ => v =? cur
  | _ => true
  end.

Definition link (p : pc) (rest : list pc) : Prop :=
  match rest with
  | [] => is_bottom_frame p = true
  | w :: _ => is_bottom_frame p = false /\ (ign w = true -> runit p = true)
  end.

Fixpoint typed (stk : list pc) : Prop :=
  match stk with
  | [] => True
  | p :: rest => fokb p = true /\ link p rest /\ typed rest
  end.

(** A segment of pushed frames [fs] followed by the frame [w]. *)
Fixpoint segok (fs : list pc) (w : pc) : bool :=
  match fs with
  | [] => true
  | f :: fs' => fokb f && negb (is_bottom_frame f) && implb (ign (hd w fs')) (runit f) && segok fs' w
  end.

Definition next_typed (u : bool) (nx : next) : bool :=
  match nx with
  | NGoto p' => fokb p' && negb (is_bottom_frame p') && implb u (runit p')
  | NPush fs w => segok fs w && fokb w && negb (is_bottom_frame w) && implb u (runit w)
  | NRet v => implb u (noref v)
  | _ => true
  end.

Lemma segok_app fs gs w : segok fs (hd w gs) = true -> segok gs w = true -> segok (fs ++ gs) w = true.
Proof.
  induction fs as [|f fs IH]; intros H1 H2; [exact H2|]. cbn in *.
  apply andb_prop in H1 as [H1 H1d]. apply andb_prop in H1 as [H1 H1c].
  rewrite (IH H1d H2), Bool.andb_true_r.
  replace (hd w (fs ++ gs)) with (hd (hd w gs) fs) by (destruct fs; reflexivity).
  rewrite H1, H1c. reflexivity.
Qed.

Lemma typed_push fs w rest : segok fs w = true -> typed (w :: rest) -> typed (fs ++ w :: rest).
Proof.
  induction fs as [|f fs IH]; intros H1 H2; [exact H2|]. cbn [segok] in H1.
  apply andb_prop in H1 as [H1 H1d]. apply andb_prop in H1 as [H1 H1c]. apply andb_prop in H1 as [H1a H1b].
  cbn [app typed]. split; [exact H1a|]. split; [|apply IH; assumption].
  apply Bool.negb_true_iff in H1b.
  destruct fs as [|g fs]; cbn in *; (split; [exact H1b|]); intros Hi; rewrite Hi in H1c; exact H1c.
Qed.

Lemma next_typed_weaken u nx : next_typed u nx = true -> next_typed false nx = true.
Proof.
  destruct nx; cbn; try reflexivity; intros H.
  - apply andb_prop in H as [H _]. rewrite H. reflexivity.
  - apply andb_prop in H as [H _]. rewrite H. reflexivity.
Qed.

(** ** Helper functions *)
Lemma with_exit_typed l r l' nx u :
  with_exit l r = (l', nx) -> implb u (noref r) = true -> next_typed u nx = true.
Proof.
  unfold with_exit. intros H Hu. destr_in H; injection H as <- <-; cbn; exact Hu.
Qed.

Lemma fallback_entry_typed cf l c l' nx : fallback_entry cf l c = (l', nx) -> next_typed false nx = true.
Proof. unfold fallback_entry. intros H. destr_in H; injection H as <- <-; reflexivity. Qed.
Lemma gen_step_typed cf l c l' nx : gen_step cf l c = (l', nx) -> next_typed false nx = true.
Proof. unfold gen_step. intros H. destr_in H; injection H as <- <-; reflexivity. Qed.
Lemma load_body_typed cf l c l' nx : load_body cf l c = (l', nx) -> next_typed false nx = true.
Proof. unfold load_body. destruct (cf_use_fast cf); [intros [= <- <-]; reflexivity|apply fallback_entry_typed]. Qed.

Lemma enter_load_typed cf l c l' fs w : enter_load cf l c = inl (l', fs) -> ign w = false -> segok fs w = true.
Proof.
  unfold enter_load. intros H Hw. destruct (tl_node l).
  - destruct (load_body cf (tl_set_depth l (tl_depth l + 1)) c) as [l2 nx] eqn:Hb.
    apply load_body_typed in Hb. destruct nx; try discriminate. injection H as <- <-.
    cbn in *. rewrite Hw. apply andb_prop in Hb as [Hb _]. rewrite Hb. reflexivity.
  - injection H as <- <-. cbn. rewrite Hw. reflexivity.
Qed.

Lemma enter_pay_typed l c old l' fs w : enter_pay l c old = (l', fs) -> segok fs w = true.
Proof.
  unfold enter_pay, pay_body. intros H. destr_in H; injection H as <- <-; cbn; rewrite ?Bool.implb_true_r; reflexivity.
Qed.

Lemma guard_drop_typed p d w : segok (guard_drop_frames p d) w = true.
Proof. unfold guard_drop_frames. destruct d; [|destruct (p =? 0)]; cbn; rewrite ?Bool.implb_true_r; reflexivity. Qed.
Lemma guard_into_typed p d w : ign w = false -> segok (guard_into_frames p d) w = true.
Proof. unfold guard_into_frames. intros Hw. destruct d; [destruct (p =? 0)|]; cbn; rewrite ?Hw; reflexivity. Qed.

Lemma help_dispatch_typed cf l c old w ctl u : next_typed u (help_dispatch cf l c old w ctl) = true.
Proof.
  unfold help_dispatch.
  repeat match goal with |- context [if ?b then _ else _] => destruct b end; cbn; rewrite ?Bool.implb_true_r; reflexivity.
Qed.
Lemma after_slot_typed c old w j u : next_typed u (after_slot c old w j) = true.
Proof. unfold after_slot. destruct (j =? HSLOT); cbn; rewrite ?Bool.implb_true_r; reflexivity. Qed.
Lemma dec_then_typed a r u : implb u (noref r) = true -> next_typed u (dec_then a r) = true.
Proof. unfold dec_then. intros H. destruct (a =? 0); cbn; exact H. Qed.

(** ** The frame step *)
Ltac typed_push :=
  cbn [next_typed];
  repeat match goal with
  | H : enter_load _ _ _ = inl (_, ?fs) |- context [segok (?fs ++ ?gs) ?w] =>
      rewrite (segok_app fs gs w) by (first [apply (enter_load_typed _ _ _ _ _ _ H); reflexivity | reflexivity])
  | H : enter_load _ _ _ = inl (_, ?fs) |- context [segok ?fs ?w] =>
      rewrite (enter_load_typed _ _ _ _ _ w H) by reflexivity
  | H : enter_pay _ _ _ = (_, ?fs) |- context [segok (?fs ++ ?gs) ?w] =>
      rewrite (segok_app fs gs w) by (first [apply (enter_pay_typed _ _ _ _ _ _ H) | reflexivity])
  | H : enter_pay _ _ _ = (_, ?fs) |- context [segok ?fs ?w] =>
      rewrite (enter_pay_typed _ _ _ _ _ w H)
  | H : guard_drop_frames ?p ?d = ?fs |- context [segok ?fs ?w] =>
      rewrite <- H; rewrite (guard_drop_typed p d w)
  | H : guard_into_frames ?p ?d = ?fs |- context [segok ?fs ?w] =>
      rewrite <- H; rewrite (guard_into_typed p d w) by reflexivity
  end;
  cbn; rewrite ?Bool.implb_true_r; try reflexivity.

Ltac typed_fin :=
  first
    [ reflexivity
    | match goal with
      | H : with_exit _ _ = (_, ?nx) |- next_typed _ ?nx = true => apply (with_exit_typed _ _ _ _ _ H); reflexivity
      | H : fallback_entry _ _ _ = (_, ?nx) |- next_typed _ ?nx = true => exact (fallback_entry_typed _ _ _ _ _ H)
      | H : gen_step _ _ _ = (_, ?nx) |- next_typed _ ?nx = true => exact (gen_step_typed _ _ _ _ _ H)
      | H : load_body _ _ _ = (_, ?nx) |- next_typed _ ?nx = true => exact (load_body_typed _ _ _ _ _ H)
      | |- next_typed _ (help_dispatch _ _ _ _ _ _) = true => apply help_dispatch_typed
      | |- next_typed _ (after_slot _ _ _ _) = true => apply after_slot_typed
      | |- next_typed _ (dec_then _ _) = true => apply dec_then_typed; reflexivity
      end
    | typed_push ].

Lemma exec_typed cf s l p x s' l' evs nx :
  exec cf s l p x = (s', l', evs, nx) -> fokb p = true -> next_typed (runit p) nx = true.
Proof.
  intros He Hf. destruct p; try discriminate Hf; exec_norm He; cbn [runit]; try typed_fin.
  all: destruct r; cbn; reflexivity.
Qed.

(** ** Resuming a waiting frame *)
Lemma rcu_attempt_typed cf l c m p d l' nx : rcu_attempt cf l c m p d = (l', nx) -> next_typed false nx = true.
Proof.
  intros He. unfold rcu_attempt in He. destr_in He; try discriminate; injection He as <- <-; try typed_fin.
Qed.

Lemma resume_typed cf l w v l' nx :
  resume cf l w v = (l', nx) -> fokb w = true -> next_typed (runit w) nx = true.
Proof.
  intros He Hf. destruct w; try discriminate Hf; unfold resume in He; destr_in He; try discriminate.
  all: try (match type of He with rcu_attempt _ _ _ _ _ _ = _ => exact (rcu_attempt_typed _ _ _ _ _ _ _ _ He) end).
  all: try (injection He as <- <-); cbn [runit]; try typed_fin.
  - unfold pay_body. destruct (old =? 0); reflexivity.
  - destruct r; reflexivity.
  - pose proof (guard_into_typed p d WLoadFull eq_refl) as HG.
    match goal with H : guard_into_frames p d = _ |- _ => rewrite H in HG end.
    cbn [segok] in HG. apply andb_prop in HG as [HG _]. apply andb_prop in HG as [HG _].
    rewrite HG. reflexivity.
  - match goal with H : (_ =? _) = true |- _ => rewrite H end. reflexivity.
Qed.

(** ** Replacing the top frame; unwinding *)
Definition vok (v : retval) (rest : list pc) : Prop :=
  match rest with w :: _ => ign w = true -> noref v = true | [] => False end.

Lemma typed_next w rest nx :
  typed (w :: rest) -> is_bottom_frame w = false -> next_typed (runit w) nx = true ->
  match nx with
  | NGoto p' => typed (p' :: rest)
  | NPush fs w0 => typed (fs ++ w0 :: rest)
  | NRet v => typed rest /\ vok v rest
  | _ => True
  end.
Proof.
  intros (Hf & Hl & Ht) Hb Hn.
  assert (Hlink : forall q, is_bottom_frame q = false -> implb (runit w) (runit q) = true -> link q rest).
  { intros q Hq Hi. destruct rest as [|w' rest']; cbn in *; [congruence|].
    split; [exact Hq|]. intros Hw. destruct Hl as [_ Hl]. rewrite (Hl Hw) in Hi. exact Hi. }
  destruct nx as [p'|fs w0|v|?|?]; cbn in Hn; try exact I.
  - apply andb_prop in Hn as [Hn H3]. apply andb_prop in Hn as [H1 H2]. apply Bool.negb_true_iff in H2.
    cbn. auto.
  - apply andb_prop in Hn as [Hn H4]. apply andb_prop in Hn as [Hn H3]. apply andb_prop in Hn as [H1 H2].
    apply Bool.negb_true_iff in H3. apply typed_push; [exact H1|]. cbn. auto.
  - split; [exact Ht|]. destruct rest as [|w' rest']; cbn in *; [congruence|].
    intros Hw. destruct Hl as [_ Hl]. rewrite (Hl Hw) in Hn. exact Hn.
Qed.

Lemma unwind_typed cf : forall rest l v,
  typed rest -> match unwind cf l rest v with UStack _ stk => typed stk | _ => True end.
Proof.
  induction rest as [|w rest IH]; intros l v Ht; [exact I|].
  destruct w; cbn [unwind]; try exact I.
  all: match goal with |- context [resume ?cf0 ?l0 ?w0 ?v0] =>
         destruct (resume cf0 l0 w0 v0) as [l' nx] eqn:Hr end.
  all: pose proof (typed_next _ _ _ Ht eq_refl (resume_typed _ _ _ _ _ _ Hr (proj1 Ht))) as Hn.
  all: destruct nx as [p'|fs w'|v'|ps|f]; try exact I; try exact Hn.
  all: apply IH; exact (proj1 Hn).
Qed.

Lemma exec_thread_typed cf s l p x s' l' evs nx th rest :
  exec cf s l p x = (s', l', evs, nx) -> typed (p :: rest) ->
  typed (t_stack (thread_after cf th l' rest nx)).
Proof.
  intros He Ht. destruct (is_bottom_frame p) eqn:Hb.
  - destruct p; try discriminate Hb; cbn in He; injection He as <- <- <- <-; cbn; exact (proj2 (proj2 Ht)).
  - pose proof (typed_next _ _ _ Ht Hb (exec_typed _ _ _ _ _ _ _ _ _ He (proj1 Ht))) as Hn.
    destruct nx as [p'|fs w'|v'|ps|f]; cbn; try exact Hn; try exact (proj2 (proj2 Ht)).
    pose proof (unwind_typed cf rest l' v' (proj1 Hn)) as Hu.
    destruct (unwind cf l' rest v'); cbn; exact Hu || exact I.
Qed.

(** ** Starting a command *)
Definition cmd_nocache (c : cmd) : Prop :=
  match c with CCacheNew _ _ | CCacheLoad _ => False | _ => True end.

Ltac typed_seg :=
  repeat match goal with
  | H : enter_load _ _ _ = inl (_, ?fs) |- segok ?fs ?w = true => apply (enter_load_typed _ _ _ _ _ _ H); reflexivity
  | H : enter_pay _ _ _ = (_, ?fs) |- segok ?fs ?w = true => apply (enter_pay_typed _ _ _ _ _ _ H)
  | H : guard_drop_frames ?p ?d = ?fs |- segok ?fs ?w = true => rewrite <- H; apply guard_drop_typed
  | H : guard_into_frames ?p ?d = ?fs |- segok ?fs ?w = true => rewrite <- H; apply guard_into_typed; reflexivity
  end.

Lemma cmd_start_typed cf s l c s' l' stk r :
  cmd_start cf s l c = inl (s', l', stk, r) -> typed stk.
Proof.
  intros Hc. destruct c; cbn in Hc; destr_in Hc; try discriminate; injection Hc as <- <- <- <-.
  all: try (cbn; intuition (reflexivity || discriminate); fail).
  all: try (apply typed_push; [typed_seg|cbn; intuition (reflexivity || discriminate)]; fail).
  all: match goal with |- typed (?p :: ?l0 ++ ?bs) => change (typed ((p :: l0) ++ bs)) end.
  all: apply typed_push; [typed_seg|cbn; intuition (reflexivity || discriminate)].
Qed.
