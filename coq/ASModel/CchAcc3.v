(** * ASModel.CchAcc3 (copy of Acc3 for the extended table) — conservation of references by one frame step ([exec_acc]). *)
From Coq Require Import Lia.
From ASModel Require Import Base State Orderings_gen Step Run Progress Hist Inv InvTl InvProto InvStep Sum StepCases.
From ASModel Require Import GenDefs Gen1.
From ASModel Require Import CchDefs CchAcc1 CchAcc2.

Definition refs (a : N) (m : loc -> N) (nx : next) : N :=
  match nx with
  | NGoto p' => fr a m p'
  | NPush fs w => srefs a m fs + fr a m w
  | NRet v => ret_refs a v
  | _ => 0
  end.

Definition pend (a : N) (nx : next) : N :=
  match nx with
  | NGoto p' => fpend a p'
  | NPush fs w => spend a fs + fpend a w
  | _ => 0
  end.

Lemma srefs_app a m fs gs : srefs a m (fs ++ gs) = srefs a m fs + srefs a m gs.
Proof. induction fs as [|f fs IH]; cbn; [reflexivity|rewrite IH; lia]. Qed.
Lemma spend_app a fs gs : spend a (fs ++ gs) = spend a fs + spend a gs.
Proof. induction fs as [|f fs IH]; cbn; [reflexivity|rewrite IH; lia]. Qed.

Section Helpers.
Variable a : N.
Hypothesis Ha : valid a.
Variable m : loc -> N.

Lemma with_exit_refs l r l' nx : with_exit l r = (l', nx) -> refs a m nx = ret_refs a r /\ pend a nx = 0.
Proof. unfold with_exit. intros H. destr_in H; injection H as <- <-; cbn; split; lia. Qed.

Lemma fallback_entry_refs cf l c l' nx : fallback_entry cf l c = (l', nx) -> refs a m nx = 0 /\ pend a nx = 0.
Proof. unfold fallback_entry. intros H. destr_in H; injection H as <- <-; cbn; split; reflexivity. Qed.
Lemma gen_step_refs cf l c l' nx : gen_step cf l c = (l', nx) -> refs a m nx = 0 /\ pend a nx = 0.
Proof. unfold gen_step. intros H. destr_in H; injection H as <- <-; cbn; split; reflexivity. Qed.
Lemma load_body_refs cf l c l' nx : load_body cf l c = (l', nx) -> refs a m nx = 0 /\ pend a nx = 0.
Proof. unfold load_body. destruct (cf_use_fast cf); [intros [= <- <-]; split; reflexivity|apply fallback_entry_refs]. Qed.

Lemma enter_load_refs cf l c l' fs : enter_load cf l c = inl (l', fs) -> srefs a m fs = 0 /\ spend a fs = 0.
Proof.
  unfold enter_load. intros H. destruct (tl_node l).
  - destruct (load_body cf (tl_set_depth l (tl_depth l + 1)) c) as [l2 nx] eqn:Hb.
    apply load_body_refs in Hb. destruct nx; try discriminate. injection H as <- <-. cbn in *. lia.
  - injection H as <- <-. cbn. split; reflexivity.
Qed.

Lemma enter_pay_refs l c old l' fs : enter_pay l c old = (l', fs) -> srefs a m fs = 0 /\ spend a fs = 0.
Proof.
  unfold enter_pay, pay_body. intros H. destr_in H; injection H as <- <-; cbn; split; try reflexivity.
  all: apply N.eqb_eq in Heqb; subst; rewrite (is_valid_0 a Ha); reflexivity.
Qed.

Lemma guard_drop_refs p d : srefs a m (guard_drop_frames p d) = is a p /\ spend a (guard_drop_frames p d) = 0.
Proof.
  unfold guard_drop_frames. destruct d; [cbn; split; lia|]. destruct (N.eqb_spec p 0) as [->|]; cbn; [|split; lia].
  rewrite (is_valid_0 a Ha). split; reflexivity.
Qed.

Lemma guard_into_refs p d :
  srefs a m (guard_into_frames p d) = match d with Some _ => is a p | None => 0 end /\
  spend a (guard_into_frames p d) = 0.
Proof.
  unfold guard_into_frames. destruct d; [|split; reflexivity]. destruct (N.eqb_spec p 0) as [->|]; cbn; [|split; lia].
  rewrite (is_valid_0 a Ha). split; reflexivity.
Qed.

Lemma help_dispatch_refs cf l c old w ctl :
  nx_stops (help_dispatch cf l c old w ctl) \/
  (refs a m (help_dispatch cf l c old w ctl) = is a old /\ pend a (help_dispatch cf l c old w ctl) = 0).
Proof.
  destruct (help_dispatch_cases cf l c old w ctl) as [H|[H|[_ H]]]; [left; exact H|right; rewrite H; cbn; auto..].
Qed.

Lemma after_slot_refs c old w j : refs a m (after_slot c old w j) = is a old /\ pend a (after_slot c old w j) = 0.
Proof. unfold after_slot. destruct (j =? HSLOT); cbn; auto. Qed.

Lemma dec_then_refs v r : refs a m (dec_then v r) = is a v + ret_refs a r /\ pend a (dec_then v r) = 0.
Proof.
  unfold dec_then. destruct (N.eqb_spec v 0) as [->|]; cbn; [|auto]. rewrite (is_valid_0 a Ha). auto.
Qed.
End Helpers.

(** ** Reference counts *)
Definition alive_sh (s : shared) : Prop := forall b, heap s b = None <-> mem s (LCount b) = 0.

Lemma rc_inc_count a s v s' evs : rc_inc s v = Some (s', evs) -> mem s' (LCount a) = mem s (LCount a) + is a v.
Proof.
  unfold rc_inc. destruct (heap s v); [|discriminate]. intros [= <- _]. cbn. unfold upd, is, ind.
  destruct (decide (LCount a = LCount v)) as [[= ->]|Hne]; [rewrite N.eqb_refl; reflexivity|].
  destruct (N.eqb_spec v a); [congruence|lia].
Qed.

Lemma rc_dec_count a s v s' evs : alive_sh s -> rc_dec s v = Some (s', evs) ->
  mem s' (LCount a) + is a v = mem s (LCount a).
Proof.
  intros Hal. unfold rc_dec. destruct (heap s v) eqn:Hh; [|discriminate].
  assert (Hc : mem s (LCount v) <> 0). { intros E. apply Hal in E. congruence. }
  destruct (N.eqb_spec (mem s (LCount v)) 1) as [E1|E1]; intros [= <- _]; cbn; unfold upd, is, ind.
  all: destruct (decide (LCount a = LCount v)) as [[= ->]|Hne]; [rewrite N.eqb_refl; lia|].
  all: destruct (N.eqb_spec v a); [congruence|lia].
Qed.

Lemma rc_alloc_count a s v s' evs : alive_sh s -> rc_alloc s v = Some (s', evs) ->
  mem s' (LCount a) = mem s (LCount a) + is a v.
Proof.
  intros Hal. unfold rc_alloc. destruct (heap s v) eqn:Hh; [discriminate|]. apply Hal in Hh.
  destruct (valid_addr v); [|discriminate]. intros [= <- _]. cbn. unfold upd, is, ind.
  destruct (decide (LCount a = LCount v)) as [[= ->]|Hne]; [rewrite N.eqb_refl; lia|].
  destruct (N.eqb_spec v a); [congruence|lia].
Qed.

(** ** Control words *)
Lemma env_cnt_idle a m w : m (LCtrl w) = IDLE -> env_cnt a m w = 0.
Proof. intros E. unfold env_cnt. rewrite E. reflexivity. Qed.

Lemma env_cnt_gen a m w : is_gen (m (LCtrl w)) -> env_cnt a m w = 0.
Proof. unfold is_gen, env_cnt. intros E. rewrite E. reflexivity. Qed.

Lemma env_cnt_repl a m w v : m (LCtrl w) = v -> N.land v TAG_MASK = REPLACEMENT_TAG ->
  env_cnt a m w = is a (m (LEnv (env_of (v - N.land v TAG_MASK)))).
Proof. intros E1 E2. unfold env_cnt. rewrite E1, E2. reflexivity. Qed.

Lemma lor_gen_tag g : N.land g TAG_MASK = 0 -> is_gen (N.lor g GEN_TAG).
Proof.
  intros H. unfold is_gen. rewrite N.land_lor_distr_l, H. reflexivity.
Qed.

Lemma repl_tag v b : is_repl v b -> N.land v TAG_MASK = REPLACEMENT_TAG.
Proof.
  intros (e & _ & ->). rewrite land3_mod4. unfold env_val, REPLACEMENT_TAG.
  replace (4 * (e + 1) + 1) with (1 + (e + 1) * 4) by lia. rewrite N.mod_add by discriminate. reflexivity.
Qed.

Lemma env_lor_tag v b : is_env v b -> N.lor v REPLACEMENT_TAG = v + 1 /\ N.land (v + 1) TAG_MASK = REPLACEMENT_TAG.
Proof.
  intros (e & _ & ->). unfold env_val, REPLACEMENT_TAG.
  assert (E : N.lor (4 * (e + 1)) 1 = 4 * (e + 1) + 1).
  { assert (Hl : N.land (4 * (e + 1)) 1 = 0).
    { change (N.land (4 * (e + 1)) 1) with (N.land (4 * (e + 1)) (N.ones 1)). rewrite N.land_ones. change (2 ^ 1) with 2.
      replace (4 * (e + 1)) with ((2 * (e + 1)) * 2) by lia. apply N.mod_mul. discriminate. }
    rewrite <- N.lxor_lor by exact Hl. symmetry. apply N.add_nocarry_lxor. exact Hl. }
  split; [exact E|]. apply (repl_tag _ (e + 1)). exists e. split; [lia|reflexivity].
Qed.

Lemma gen_not_repl v : is_gen v -> N.land v TAG_MASK <> REPLACEMENT_TAG.
Proof. unfold is_gen. intros ->. discriminate. Qed.

(** ** One frame step *)
(** The location (among slots, storages, control words, envelopes) a program point writes. *)
Definition kloc (l : tlocal) (p : pc) : loc :=
  let n := own_node l in
  match p with
  | LA3 _ _ j | LA5 _ _ j => LSlot n j
  | LH2 _ _ | LH5 _ _ _ => LCtrl n
  | LH4 _ _ _ | LH6b _ | LH9 _ _ => LSlot n HSLOT
  | GD1 _ sl | GI2 _ sl => slot_loc sl
  | PE6 _ _ _ _ _ _ mine => LEnv (env_of mine)
  | PE7 _ _ w _ _ _ _ => LCtrl w
  | PS _ _ w j => LSlot w j
  | S1 c _ | K1 c _ _ _ _ => LStore c
  | GPush h => LEnv h
  | _ => LHead
  end.

Definition fresh_sh (s : shared) : Prop :=
  forall n, mem s LHead <= n -> (forall j, mem s (LSlot n j) = NONE) /\ mem s (LCtrl n) = IDLE.

Record xhyp (s : shared) (l : tlocal) (p : pc) : Prop := {
  xh_alive : alive_sh s;
  xh_top : in_with p = true -> exists n, tl_node l = Some n /\ top_ok (mem s LHead) (mem s) l n (Some p);
  xh_nodes : pc_nodes_ok (mem s LHead) p;
  xh_fok : fokb p = true;
  xh_gen : gen_ok l;
  xh_enva : forall c old w ctl r their mine, p = PE7 c old w ctl r their mine -> mem s (LEnv (env_of mine)) = r;
  xh_fresh : fresh_sh s;
}.

Definition xconc (a : N) (s : shared) (l : tlocal) (p : pc) (s' : shared) (nx : next) : Prop :=
  (forall l0, mrel l0 -> l0 <> kloc l p -> mem s' l0 = mem s l0) /\
  mem s' (LCount a) + wL a (mem s') (kloc l p) + pend a nx + wR a (mem s) (kloc l p) + fr a (mem s) p
  = mem s (LCount a) + wL a (mem s) (kloc l p) + fpend a p + wR a (mem s') (kloc l p) + refs a (mem s') nx.

Ltac xframe :=
  let l0 := fresh "l0" in let Hrel := fresh "Hrel" in let Hne := fresh "Hne" in
  intros l0 Hrel Hne; cbn [kloc] in Hne; unfold slot_loc in Hne; destruct l0; try contradiction Hrel; mem_simp; try reflexivity;
  rewrite ?upd_other by congruence; reflexivity.

Ltac xrefs Ha :=
  repeat match goal with
  | H : with_exit _ _ = (_, ?nx) |- context [refs ?a ?m ?nx] =>
      let E1 := fresh in let E2 := fresh in
      destruct (with_exit_refs a m _ _ _ _ H) as [E1 E2]; rewrite E1, E2; clear E1 E2
  | H : fallback_entry _ _ _ = (_, ?nx) |- context [refs ?a ?m ?nx] =>
      let E1 := fresh in let E2 := fresh in
      destruct (fallback_entry_refs a m _ _ _ _ _ H) as [E1 E2]; rewrite E1, E2; clear E1 E2
  | H : gen_step _ _ _ = (_, ?nx) |- context [refs ?a ?m ?nx] =>
      let E1 := fresh in let E2 := fresh in
      destruct (gen_step_refs a m _ _ _ _ _ H) as [E1 E2]; rewrite E1, E2; clear E1 E2
  | H : enter_load _ _ _ = inl (_, ?fs) |- context [srefs ?a ?m ?fs] =>
      let E1 := fresh in let E2 := fresh in
      destruct (enter_load_refs a m _ _ _ _ _ H) as [E1 E2]; rewrite E1, E2; clear E1 E2
  | H : enter_pay _ _ _ = (_, ?fs) |- context [srefs ?a ?m ?fs] =>
      let E1 := fresh in let E2 := fresh in
      destruct (enter_pay_refs a Ha m _ _ _ _ _ H) as [E1 E2]; rewrite E1, E2; clear E1 E2
  | H : guard_drop_frames ?p ?d = ?fs |- context [srefs ?a ?m ?fs] =>
      let E1 := fresh in let E2 := fresh in
      destruct (guard_drop_refs a Ha m p d) as [E1 E2]; rewrite H in E1, E2; rewrite E1, E2; clear E1 E2
  | |- context [refs ?a ?m (after_slot ?c ?old ?w ?j)] =>
      let E1 := fresh in let E2 := fresh in
      destruct (after_slot_refs a m c old w j) as [E1 E2]; rewrite E1, E2; clear E1 E2
  | |- context [refs ?a ?m (dec_then ?v ?r)] =>
      let E1 := fresh in let E2 := fresh in
      destruct (dec_then_refs a Ha m v r) as [E1 E2]; rewrite E1, E2; clear E1 E2
  | Hns : ~ nx_stops (help_dispatch ?cf ?l ?c ?old ?w ?ctl) |- context [refs ?a ?m (help_dispatch ?cf ?l ?c ?old ?w ?ctl)] =>
      let E1 := fresh in let E2 := fresh in
      destruct (help_dispatch_refs a m cf l c old w ctl) as [E1|[E1 E2]]; [contradiction|rewrite E1, E2; clear E1 E2]
  end.

Ltac xcount :=
  repeat match goal with
  | H : rc_inc _ _ = Some (?s0, _) |- context [mem ?s0 (LCount ?a)] => rewrite (rc_inc_count a _ _ _ _ H)
  | Hal : alive_sh ?s, H : rc_alloc ?s _ = Some (?s0, _) |- context [mem ?s0 (LCount ?a)] => rewrite (rc_alloc_count a _ _ _ _ Hal H)
  | Hal : alive_sh ?s, H : rc_dec ?s _ = Some (?s0, _) |- context [mem ?s0 (LCount ?a)] =>
      let E := fresh "Ec" in pose proof (rc_dec_count a _ _ _ _ Hal H) as E; revert E; generalize (mem s0 (LCount a)); intros ? E
  end.

(** Slot, storage and control word locations written by [node_init] keep their values when
    the node is fresh. *)
Lemma node_init_mrel s n :
  (forall j, mem s (LSlot n j) = NONE) -> mem s (LCtrl n) = IDLE ->
  forall l0, mrel l0 -> l0 <> LEnv n -> mem (node_init s n) l0 = mem s l0.
Proof.
  intros Hs Hc l0 Hrel Hne. destruct l0; try contradiction Hrel.
  - apply node_init_store.
  - unfold node_init. cbn. repeat (rewrite upd_other by discriminate).
    unfold upd.
    repeat match goal with |- context [decide (?x = ?y)] =>
             destruct (decide (x = y)) as [E|?]; [injection E as -> ->; symmetry; apply Hs|] end.
    reflexivity.
  - rewrite node_init_ctrl. destruct (decide (n0 = n)) as [->|?]; [symmetry; exact Hc|reflexivity].
  - unfold node_init. cbn. repeat (rewrite upd_other by (discriminate || congruence)). reflexivity.
Qed.

Lemma node_init_count s n b : mem (node_init s n) (LCount b) = mem s (LCount b).
Proof. unfold node_init. cbn. repeat (rewrite upd_other by discriminate). reflexivity. Qed.

Ltac is_lia2 Ha :=
  let Ha0 := fresh "Ha0" in let Ha3 := fresh "Ha3" in
  pose proof Ha as [Ha0 Ha3]; unfold NONE, IDLE in *;
  unfold is, ind in *;
  repeat match goal with
         | |- context [N.eqb ?x ?y] => destruct (N.eqb_spec x y)
         | H : context [N.eqb ?x ?y] |- _ => destruct (N.eqb_spec x y)
         end;
  cbn [andb orb negb] in *; subst; try discriminate; try congruence; try lia.

Ltac xbal Ha :=
  unfold slot_loc in *; cbn [kloc wL wR fr fpend refs pend srefs spend ret_refs app slot_loc fst snd];
  rewrite ?srefs_app, ?spend_app; cbn [srefs spend fr fpend]; xrefs Ha; cbn [ret_refs]; mem_simp; xcount;
  rewrite ?upd_same.

Lemma exec_acc a cf s l p x s' l' evs nx :
  valid a -> exec cf s l p x = (s', l', evs, nx) -> ~ nx_stops nx -> xhyp s l p -> xconc a s l p s' nx.
Proof.
  intros Ha He Hns Hx. pose proof (xh_alive _ _ _ Hx) as Hal.
  destruct p; exec_norm He; try (exfalso; apply Hns; exact I).
  all: try (split; [xframe|]; xbal Ha; is_lia2 Ha; fail).
  all: try (pose proof (xh_fok _ _ _ Hx) as Hfk; cbn in Hfk; try discriminate Hfk;
            apply N.eqb_eq in Hfk; subst; split; [xframe|]; xbal Ha; is_lia2 Ha; fail).
  all: try (destruct (xh_top _ _ _ Hx eq_refl) as (n0 & Hnode & Htop);
            assert (Hown : own_node l = n0) by (unfold own_node; rewrite Hnode; reflexivity);
            rewrite Hown in *; cbn [top_ok] in Htop).
  - (* GPush *)
    apply andb_prop in Heqb as [Hh _]. apply N.eqb_eq in Hh.
    destruct (xh_fresh _ _ _ Hx head) as [Hs Hc]; [lia|]. split.
    + intros l0 Hrel Hne. cbn [kloc] in Hne.
      transitivity (mem (m_set s LHead (node_val head)) l0).
      * apply node_init_mrel; [| |exact Hrel|exact Hne].
        -- intros j. cbn. rewrite upd_other by discriminate. apply Hs.
        -- cbn. rewrite upd_other by discriminate. exact Hc.
      * cbn. apply upd_other. destruct l0; try contradiction Hrel; discriminate.
    + cbn [kloc wL wR fr fpend refs pend ret_refs]. rewrite node_init_count. cbn. rewrite upd_other by discriminate. lia.
  - (* LA3 *)
    destruct Htop as (_ & Hslot & _). split; [xframe|]. xbal Ha. rewrite ?Hown, ?upd_same, Hslot. is_lia2 Ha.
  - (* LH2 *)
    destruct Htop as ([Hc _] & Hgt & _). split; [xframe|]. xbal Ha. rewrite ?Hown.
    rewrite (env_cnt_idle a (mem s) n0 Hc), (env_cnt_gen a _ n0); [lia|].
    rewrite upd_same. subst gt. apply lor_gen_tag. apply (xh_gen _ _ _ Hx).
  - destruct Htop as ([Hc _] & Hgt & _). split; [xframe|]. xbal Ha. rewrite ?Hown.
    rewrite (env_cnt_idle a (mem s) n0 Hc), (env_cnt_gen a _ n0); [lia|].
    rewrite upd_same. subst gt. apply lor_gen_tag. apply (xh_gen _ _ _ Hx).
  - (* LH4 *)
    destruct Htop as (_ & Hslot & _). split; [xframe|]. xbal Ha. rewrite ?Hown, ?upd_same, Hslot. is_lia2 Ha.
  - (* LH5, the request is still there *)
    destruct Htop as (_ & _ & _ & Hg). apply N.eqb_eq in Heqb. split; [xframe|]. xbal Ha. rewrite ?Hown.
    rewrite (env_cnt_gen a (mem s) n0) by (rewrite Heqb; exact Hg).
    rewrite (env_cnt_idle a _ n0) by apply upd_same. is_lia2 Ha.
  - destruct Htop as (_ & _ & _ & Hg). apply N.eqb_eq in Heqb. split; [xframe|]. xbal Ha. rewrite ?Hown.
    rewrite (env_cnt_gen a (mem s) n0) by (rewrite Heqb; exact Hg).
    rewrite (env_cnt_idle a _ n0) by apply upd_same. is_lia2 Ha.
  - (* LH5, a replacement arrived *)
    destruct Htop as ([Hc|Hc] & _); [apply N.eqb_neq in Heqb; contradiction|].
    apply repl_tag in Hc. split; [xframe|]. xbal Ha. rewrite ?Hown.
    rewrite (env_cnt_repl a (mem s) n0 _ eq_refl Hc).
    rewrite (env_cnt_idle a _ n0) by apply upd_same. lia.
  - (* PE7: the replacement is handed over *)
    pose proof (xh_nodes _ _ _ Hx) as (_ & Hg & _ & Hmine). cbn in Hg, Hmine.
    pose proof (xh_enva _ _ _ Hx _ _ _ _ _ _ _ eq_refl) as Henv.
    destruct (env_lor_tag mine _ Hmine) as [El Et].
    apply andb_prop in Heqb as [Heqb _]. apply N.eqb_eq in Heqb.
    split; [xframe|]. xbal Ha.
    rewrite (env_cnt_gen a (mem s) w) by (rewrite Heqb; exact Hg).
    rewrite (env_cnt_repl a _ w (mine + 1)) by (rewrite ?upd_same; assumption).
    rewrite Et. unfold REPLACEMENT_TAG. rewrite N.add_sub, upd_other by discriminate. rewrite Henv. lia.
  - (* K1 failed, nothing to drop *)
    pose proof (guard_drop_refs a Ha (mem s) p d) as [E _]. rewrite Heql0 in E. cbn in E.
    split; [xframe|]. xbal Ha. is_lia2 Ha.
  - pose proof (guard_drop_refs a Ha (mem s) p d) as [E _]. rewrite Heql0 in E.
    split; [xframe|]. cbn [kloc wL wR refs pend fr fpend]. rewrite E.
    pose proof (guard_drop_refs a Ha (mem s) p d) as [_ E2]. rewrite Heql0 in E2. rewrite E2. cbn [fr]. lia.
Qed.
