(** * ASModel.CchAcc4 (copy of Acc4 for the extended table; [skd] added) — conservation of references by [resume], [unwind] and [cmd_start]. *)
From Coq Require Import Lia.
From ASModel Require Import Base State Orderings_gen Step Run Progress Hist Inv InvTl InvProto InvStep Sum StepCases.
From ASModel Require Import GenDefs Gen1.
From ASModel Require Import CchDefs CchAcc1 CchAcc2 CchAcc3.

(** Collect what the pushed frames hold. *)
Ltac gather a Ha m :=
  repeat match goal with
  | H : guard_drop_frames ?p ?d = _ |- _ =>
      let E := fresh "Eg" in pose proof (guard_drop_refs a Ha m p d) as E; rewrite H in E; cbn [srefs spend] in E;
      destruct E as [? ?]; clear H
  | H : guard_into_frames ?p ?d = _ |- _ =>
      let E := fresh "Eg" in pose proof (guard_into_refs a Ha m p d) as E; rewrite H in E; cbn [srefs spend] in E;
      destruct E as [? ?]; destruct d; [|try discriminate H]; clear H
  | H : enter_load _ _ _ = inl (_, ?fs) |- _ =>
      let E := fresh "Eg" in pose proof (enter_load_refs a m _ _ _ _ _ H) as E; destruct E as [? ?]; clear H
  | H : load_body _ _ _ = (_, ?nx) |- _ =>
      let E := fresh "Eg" in pose proof (load_body_refs a m _ _ _ _ _ H) as E; destruct E as [? ?]; clear H
  end.

Lemma rcu_attempt_refs a m cf l c md p d l' nx : valid a ->
  rcu_attempt cf l c md p d = (l', nx) -> ~ nx_stops nx -> refs a m nx = is a p /\ pend a nx = 0.
Proof.
  intros Ha He Hns. unfold rcu_attempt in He. destr_in He; try discriminate; injection He as <- <-.
  all: try (exfalso; apply Hns; exact I).
  all: gather a Ha m; cbn [refs pend fr fpend ret_refs srefs spend]; rewrite ?srefs_app, ?spend_app;
       cbn [srefs spend fr fpend]; split; is_lia2 Ha.
Qed.

Lemma resume_refs a m cf l w v l' nx : valid a ->
  resume cf l w v = (l', nx) -> ~ nx_stops nx -> fokb w = true -> (ign w = true -> noref v = true) ->
  refs a m nx = ret_refs a v + fr a m w /\ pend a nx = 0.
Proof.
  intros Ha He Hns Hf Hi.
  destruct w; try discriminate Hf; unfold resume in He; destr_in He; try discriminate.
  all: try (match type of He with rcu_attempt _ _ _ _ _ _ = _ =>
              destruct (rcu_attempt_refs a m _ _ _ _ _ _ _ _ Ha He Hns) as [E1 E2]; rewrite E1, E2 end).
  all: try (injection He as <- <-); try (exfalso; apply Hns; exact I).
  all: cbn [ign] in Hi; first [specialize (Hi eq_refl); destruct v; try discriminate Hi; clear Hi|clear Hi].
  all: try (match goal with H : guard_into_frames _ _ = ?f :: _ |- context [NGoto ?f] =>
              unfold guard_into_frames in H; destr_in H; try discriminate H; injection H as <- <- end).
  all: gather a Ha m; cbn [refs pend fr fpend ret_refs srefs spend]; rewrite ?srefs_app, ?spend_app;
       cbn [srefs spend fr fpend]; xrefs Ha; cbn [ret_refs].
  all: try (split; is_lia2 Ha; fail).
  unfold pay_body. destruct (N.eqb_spec old 0); cbn; split; is_lia2 Ha.
Qed.

(** ** Unwinding *)
Lemma waiting_fpend a w : is_waiting w = true -> fpend a w = 0.
Proof. destruct w; cbn; congruence. Qed.

Lemma href_handle_of a v : href a (handle_of v) = ret_refs a v.
Proof. destruct v; reflexivity. Qed.

Lemma noref_refs a v : noref v = true -> ret_refs a v = 0.
Proof. destruct v; cbn; congruence. Qed.

Definition dst_refs (a : N) (dst : option (N * handle)) : N :=
  match dst with Some (_, hv) => href a hv | None => 0 end.

(** What the handle written at the end of a cache command held before. *)
Definition dst_old (a : N) (hn : N -> handle) (dst : option (N * handle)) : N :=
  match dst with Some (k, HCache _ _) => href a (hn k) | _ => 0 end.

Lemma nonbottom_kd a hn p : is_bottom_frame p = false -> kd a hn p = 0.
Proof. destruct p; cbn; congruence. Qed.

Lemma segok_skd a hn w : forall fs, segok fs w = true -> skd a hn fs = 0.
Proof.
  induction fs as [|f fs IH]; intros H; [reflexivity|]. cbn [segok] in H.
  apply andb_prop in H as [H Hd]. apply andb_prop in H as [H _]. apply andb_prop in H as [_ Hb].
  apply Bool.negb_true_iff in Hb. cbn [skd]. rewrite (nonbottom_kd a hn f Hb), (IH Hd). reflexivity.
Qed.

Lemma skd_app a hn fs gs : skd a hn (fs ++ gs) = skd a hn fs + skd a hn gs.
Proof. induction fs as [|f fs IH]; cbn; [reflexivity|rewrite IH; lia]. Qed.

(** [Hown]: a value handed to the bottom frame of a cache command is an owned pointer
    (discharged from the kind typing [Typed], see [CchOwn]). *)
Lemma unwind_refs a m hn cf : valid a -> forall rest l v, typed rest -> vok v rest ->
  (forall l' dst v' c k, unwind cf l rest v = UDone l' dst v' -> In (KCacheDone c k) rest -> exists a', v' = ROwned a') ->
  match unwind cf l rest v with
  | UStack _ stk => srefs a m stk = ret_refs a v + srefs a m rest /\ spend a stk = spend a rest /\
                    skd a hn stk = skd a hn rest
  | UDone _ dst _ => dst_refs a dst = ret_refs a v + srefs a m rest /\ spend a rest = 0 /\
                     skd a hn rest = dst_old a hn dst
  | UExit _ => 0 = ret_refs a v + srefs a m rest /\ spend a rest = 0 /\ skd a hn rest = 0
  | _ => True
  end.
Proof.
  intros Ha. induction rest as [|w rest IH]; intros l v Ht Hv Hown; [contradiction|].
  destruct Ht as (Hf & Hl & Ht). cbn [vok] in Hv.
  assert (Hbot : is_bottom_frame w = true -> rest = []).
  { intros Hb. destruct rest; [reflexivity|]. cbn in Hl. destruct Hl as [Hl _]. congruence. }
  destruct (is_bottom_frame w) eqn:Hb.
  - rewrite (Hbot eq_refl) in *. destruct w; try discriminate Hb; cbn [unwind dst_refs dst_old srefs spend skd kd fr fpend].
    + rewrite (noref_refs a v (Hv eq_refl)). repeat split; reflexivity.
    + destruct dst as [h|]; cbn [dst_refs dst_old].
      * rewrite href_handle_of. repeat split; try lia. destruct v; reflexivity.
      * rewrite (noref_refs a v (Hv eq_refl)). repeat split; reflexivity.
    + destruct (Hown l _ v c k eq_refl (or_introl eq_refl)) as (a' & ->).
      cbn [dst_refs dst_old href ret_refs]. repeat split; lia.
  - assert (Hun : unwind cf l (w :: rest) v =
                  match resume cf l w v with
                  | (l', NGoto p) => UStack l' (p :: rest)
                  | (l', NPush frames wait) => UStack l' (frames ++ wait :: rest)
                  | (l', NRet v') => unwind cf l' rest v'
                  | (l', NPanic s) => UPanic l' s
                  | (l', NFault f) => UFault l' f
                  end).
    { destruct w; try discriminate Hb; reflexivity. }
    rewrite Hun in Hown |- *. destruct (resume cf l w v) as [l' nx] eqn:Hr.
    assert (Hcase : nx_stops nx \/ ~ nx_stops nx) by (destruct nx; cbn; auto).
    destruct Hcase as [Hs|Hns]; [destruct nx; try contradiction; exact I|].
    destruct (resume_refs a m _ _ _ _ _ _ Ha Hr Hns Hf Hv) as [E1 E2].
    pose proof (waiting_fpend a w (resume_waiting _ _ _ _ _ _ Hr Hns)) as Ew.
    pose proof (nonbottom_kd a hn w Hb) as Ek.
    pose proof (resume_typed _ _ _ _ _ _ Hr Hf) as Hnt.
    pose proof (typed_next w rest nx (conj Hf (conj Hl Ht)) Hb Hnt) as Hn.
    destruct nx as [p'|fs w'|v'|ps|f]; cbn [refs pend] in *; try exact I.
    + cbn [next_typed] in Hnt. apply andb_prop in Hnt as [Hnt _]. apply andb_prop in Hnt as [_ Hnb].
      apply Bool.negb_true_iff in Hnb. cbn [srefs spend skd]. rewrite (nonbottom_kd a hn p' Hnb). repeat split; lia.
    + cbn [next_typed] in Hnt. apply andb_prop in Hnt as [Hnt _]. apply andb_prop in Hnt as [Hnt Hnb].
      apply andb_prop in Hnt as [Hseg _]. apply Bool.negb_true_iff in Hnb.
      rewrite srefs_app, spend_app, skd_app. cbn [srefs spend skd].
      rewrite (segok_skd a hn w' fs Hseg), (nonbottom_kd a hn w' Hnb). repeat split; lia.
    + destruct Hn as [_ Hv']. specialize (IH l' v' Ht Hv').
      assert (Hown' : forall l'0 dst v'0 c k, unwind cf l' rest v' = UDone l'0 dst v'0 ->
                        In (KCacheDone c k) rest -> exists a', v'0 = ROwned a').
      { intros l'0 dst v'0 c k Hu Hin. exact (Hown l'0 dst v'0 c k Hu (or_intror Hin)). }
      specialize (IH Hown').
      destruct (unwind cf l' rest v'); try exact I; cbn [srefs spend skd]; (repeat split; lia).
Qed.

(** ** The acting thread after a frame step *)
Definition after_dst (cf : config) (l1 : tlocal) (rest : list pc) (nx : next) : option (N * handle) :=
  match nx with
  | NRet v => match unwind cf l1 rest v with UDone _ d _ => d | _ => None end
  | _ => None
  end.

Lemma hnd_after_dst cf h l1 rest nx :
  hnd_after cf h l1 rest nx = match after_dst cf l1 rest nx with Some (k, hv) => upd h k hv | None => h end.
Proof.
  unfold hnd_after, after_dst. destruct nx; try reflexivity.
  destruct (unwind cf l1 rest v) as [| ? [[? ?]|] ? | | |]; reflexivity.
Qed.

Lemma after_refs a m hn cf th l1 p rest nx : valid a ->
  ~ nx_stops nx ->
  (forall v, nx = NRet v -> forall l2 ps, unwind cf l1 rest v <> UPanic l2 ps) ->
  (forall v, nx = NRet v -> forall l2 f, unwind cf l1 rest v <> UFault l2 f) ->
  typed (p :: rest) -> is_bottom_frame p = false -> next_typed (runit p) nx = true ->
  (forall v l' dst v' c k, nx = NRet v -> unwind cf l1 rest v = UDone l' dst v' ->
     In (KCacheDone c k) rest -> exists a', v' = ROwned a') ->
  srefs a m (t_stack (thread_after cf th l1 rest nx)) + dst_refs a (after_dst cf l1 rest nx)
    = refs a m nx + srefs a m rest /\
  spend a (t_stack (thread_after cf th l1 rest nx)) = pend a nx + spend a rest /\
  skd a hn (t_stack (thread_after cf th l1 rest nx)) + dst_old a hn (after_dst cf l1 rest nx) = skd a hn rest.
Proof.
  intros Ha Hns Hup Huf Ht Hb Hn Hown. pose proof (typed_next p rest nx Ht Hb Hn) as Hn'.
  destruct nx as [p'|fs w'|v'|ps|f]; cbn [thread_after after_dst refs pend t_stack dst_refs dst_old];
    try (exfalso; apply Hns; exact I).
  - cbn [next_typed] in Hn. apply andb_prop in Hn as [Hn _]. apply andb_prop in Hn as [_ Hnb].
    apply Bool.negb_true_iff in Hnb. cbn [srefs spend skd]. rewrite (nonbottom_kd a hn p' Hnb). repeat split; lia.
  - cbn [next_typed] in Hn. apply andb_prop in Hn as [Hn _]. apply andb_prop in Hn as [Hn Hnb].
    apply andb_prop in Hn as [Hseg _]. apply Bool.negb_true_iff in Hnb.
    rewrite srefs_app, spend_app, skd_app. cbn [srefs spend skd].
    rewrite (segok_skd a hn w' fs Hseg), (nonbottom_kd a hn w' Hnb). repeat split; lia.
  - destruct Hn' as [Ht' Hv'].
    pose proof (unwind_refs a m hn cf Ha rest l1 v' Ht' Hv' (fun l' dst v'0 c k => Hown v' l' dst v'0 c k eq_refl)) as Hu.
    specialize (Hup v' eq_refl). specialize (Huf v' eq_refl).
    destruct (unwind cf l1 rest v'); cbn [t_stack dst_refs dst_old srefs spend skd]; try (repeat split; lia).
    + exfalso. eapply Hup; reflexivity.
    + exfalso. eapply Huf; reflexivity.
Qed.

(** ** Starting a command *)
Definition cmd_k (s : state) (c : cmd) : loc :=
  match c with CIntoInner c _ | CDropStore c => LStore c | _ => LHead end.

Definition src_hs (v : src) : list N := match v with SNull => [] | SHandle h => [h] end.

Definition cmd_hs (c : cmd) : list N :=
  match c with
  | CClone _ h2 => [h2]
  | CDrop h => [h]
  | CGuardInto h h2 | CMove h h2 => if decide (h = h2) then [h] else [h; h2]
  | CStore _ v | CSwap _ v _ | CCas _ _ v _ => src_hs v
  | _ => []
  end.

(** Commands that write their result at once need a free destination handle (or the one
    they consume). *)
Definition cmd_dst_ok (s : state) (c : cmd) : Prop :=
  match c with
  | CClone h h2 | CGuardInto h h2 | CMove h h2 => hnd s h2 = HEmpty \/ h2 = h
  | CCacheNew _ k => hnd s k = HEmpty
  | _ => True
  end.

Definition NoCacheH (s : state) : Prop := forall h c a, hnd s h <> HCache c a.

Lemma cmd_hs_nodup c : List.NoDup (cmd_hs c).
Proof.
  destruct c; cbn;
    repeat match goal with
           | |- context [decide (?x = ?y)] => destruct (decide (x = y))
           | |- context [src_hs ?v] => destruct v; cbn
           end;
    repeat constructor; cbn; intuition congruence.
Qed.

Lemma cmd_start_frame cf s l c s1 l1 stk r :
  cmd_start cf s l c = inl (s1, l1, stk, r) ->
  thr s1 = thr s /\
  (forall h, ~ In h (cmd_hs c) -> hnd s1 h = hnd s h) /\
  (forall l0, l0 <> cmd_k s c -> mem (sh s1) l0 = mem (sh s) l0).
Proof.
  intros Hc. destruct c; cbn in Hc; destr_in Hc; try discriminate; injection Hc as <- <- <- <-; cbn [cmd_hs cmd_k].
  all: repeat match goal with |- context [consume _ ?v] => is_var v; destruct v; cbn [consume] end; cbn.
  all: repeat match goal with |- context [decide (?h = ?h2)] => destruct (decide (h = h2)) end; cbn.
  all: split; [reflexivity|]; split; try (intros; reflexivity).
  all: try (intros h0 Hh0; rewrite ?upd_other by (intros ->; apply Hh0; cbn; auto); reflexivity).
  all: intros l0 Hl0; apply upd_other; exact Hl0.
Qed.

Ltac src_cases :=
  repeat match goal with
  | H : src_val _ ?v = Some _ |- _ =>
      is_var v; destruct v; cbn [src_val] in H; destr_in H; try discriminate H; injection H as <-
  | H : src_val _ ?v = None |- _ =>
      is_var v; destruct v; cbn [src_val] in H; destr_in H; try discriminate H
  end.

Lemma guard_drop_skd a hn p d : skd a hn (guard_drop_frames p d) = 0.
Proof. apply (segok_skd a hn WLoadFull). apply guard_drop_typed. Qed.
Lemma guard_into_skd a hn p d : skd a hn (guard_into_frames p d) = 0.
Proof. apply (segok_skd a hn WLoadFull). apply guard_into_typed. reflexivity. Qed.
Lemma enter_load_skd a hn cf l c l' fs : enter_load cf l c = inl (l', fs) -> skd a hn fs = 0.
Proof. intros H. apply (segok_skd a hn WLoadFull). apply (enter_load_typed _ _ _ _ _ _ H). reflexivity. Qed.
Lemma enter_pay_skd a hn l c old l' fs : enter_pay l c old = (l', fs) -> skd a hn fs = 0.
Proof. intros H. apply (segok_skd a hn WLoadFull). apply (enter_pay_typed _ _ _ _ _ _ H). Qed.
Lemma skd_cons0 a hn f fs : skd a hn (f :: fs) = 0 -> kd a hn f = 0 /\ skd a hn fs = 0.
Proof. cbn. lia. Qed.

(** Record that the pushed frames cancel nothing, before [gather] consumes the equations. *)
Ltac note_skd a :=
  repeat match goal with
  | H : guard_drop_frames ?p ?d = ?f :: ?fs |- _ =>
      lazymatch goal with
      | K : forall hn, kd a hn f = 0 /\ skd a hn fs = 0 |- _ => fail
      | _ => assert (forall hn, kd a hn f = 0 /\ skd a hn fs = 0)
               by (intros hn; apply skd_cons0; rewrite <- H; apply guard_drop_skd)
      end
  | H : guard_into_frames ?p ?d = ?f :: ?fs |- _ =>
      lazymatch goal with
      | K : forall hn, kd a hn f = 0 /\ skd a hn fs = 0 |- _ => fail
      | _ => assert (forall hn, kd a hn f = 0 /\ skd a hn fs = 0)
               by (intros hn; apply skd_cons0; rewrite <- H; apply guard_into_skd)
      end
  | H : enter_load _ _ _ = inl (_, ?fs) |- _ =>
      lazymatch goal with
      | K : forall hn, skd a hn fs = 0 |- _ => fail
      | _ => assert (forall hn, skd a hn fs = 0) by (intros hn; exact (enter_load_skd a hn _ _ _ _ _ H))
      end
  | H : enter_pay _ _ _ = (_, ?fs) |- _ =>
      lazymatch goal with
      | K : forall hn, skd a hn fs = 0 |- _ => fail
      | _ => assert (forall hn, skd a hn fs = 0) by (intros hn; exact (enter_pay_skd a hn _ _ _ _ _ H))
      end
  end.

Ltac use_skd a :=
  repeat match goal with
  | K : forall hn, kd a hn ?f = 0 /\ _ |- context [kd a ?hn0 ?f] => rewrite (proj1 (K hn0))
  | K : forall hn, _ /\ skd a hn ?fs = 0 |- context [skd a ?hn0 ?fs] => rewrite (proj2 (K hn0))
  | K : forall hn, skd a hn ?fs = 0 |- context [skd a ?hn0 ?fs] => rewrite (K hn0)
  end.

Lemma cmd_start_bal a cf s l c s1 l1 stk r : valid a ->
  cmd_start cf s l c = inl (s1, l1, stk, r) -> cmd_dst_ok s c ->
  mem (sh s1) (LCount a) = mem (sh s) (LCount a) /\ spend a stk = 0 /\
  wR a (mem (sh s)) (cmd_k s c) + fsum (cmd_hs c) (fun h => href a (hnd s h)) + skd a (hnd s1) stk
  = wR a (mem (sh s1)) (cmd_k s c) + srefs a (mem (sh s1)) stk + fsum (cmd_hs c) (fun h => href a (hnd s1 h)).
Proof.
  intros Ha Hc Hd.
  destruct c; cbn in Hc; destr_in Hc; try discriminate;
    injection Hc as E1 E2 E3 E4; subst s1 l1 stk r.
  all: src_cases.
  all: cbn [cmd_hs cmd_k cmd_dst_ok src_hs consume sh hnd mem m_set] in *.
  all: note_skd a.
  all: repeat match goal with
       | H : enter_pay _ _ _ = (_, ?fs) |- _ =>
           let E := fresh "Eg" in pose proof (enter_pay_refs a Ha (upd (mem (sh s)) (LStore c) 0) _ _ _ _ _ H) as E;
           destruct E as [? ?]; clear H
       end.
  all: gather a Ha (mem (sh s)).
  all: repeat match goal with |- context [decide (?h = ?h2)] => destruct (decide (h = h2)); [subst|] end.
  all: cbn [fsum wR srefs spend skd kd fr fpend app]; rewrite ?srefs_app, ?spend_app, ?skd_app; cbn [srefs spend skd kd fr fpend].
  all: use_skd a.
  all: repeat match goal with H : hnd _ _ = _ |- _ => rewrite H end.
  all: rewrite ?upd_same; cbn [href ret_refs].
  all: try (split; [reflexivity|]; split; is_lia2 Ha; fail).
  all: match goal with
       | Hd : _ \/ _ |- _ => destruct Hd as [Hd|Hd]; [rewrite ?Hd|subst; try congruence]
       | Hd : hnd _ _ = HEmpty |- _ => rewrite ?Hd
       end.
  all: repeat match goal with H : hnd _ _ = _ |- _ => rewrite H end.
  all: rewrite ?upd_same; repeat (rewrite upd_other by congruence); rewrite ?upd_same, ?Hd; cbn [href].
  all: split; [reflexivity|]; split; is_lia2 Ha.
Qed.
