(** * ASModel.CchAcc5 (copy of Acc5 over CchAcc3) — a frame step preserves [alive_sh] (a value is alive iff its count is
    positive) and [fresh_sh] (nodes that are not yet in the list have empty slots and an
    idle control word). *)
From Coq Require Import Lia.
From ASModel Require Import Base State Orderings_gen Step Run Progress Hist Inv InvTl InvProto InvStep Sum StepCases.
From ASModel Require Import GenDefs Gen1.
From ASModel Require Import CchDefs CchAcc1 CchAcc2 CchAcc3.

(** ** Alive *)
Lemma alive_m_set s l0 v : (forall b, l0 <> LCount b) -> alive_sh s -> alive_sh (m_set s l0 v).
Proof. intros Hl Hal b. cbn. rewrite upd_other by (intros E; symmetry in E; exact (Hl b E)). apply Hal. Qed.

Lemma alive_same_count s s' :
  heap s' = heap s -> (forall b, mem s' (LCount b) = mem s (LCount b)) -> alive_sh s -> alive_sh s'.
Proof. intros Hh Hc Hal b. rewrite Hh, Hc. apply Hal. Qed.

Lemma rc_inc_alive s v s' evs : alive_sh s -> rc_inc s v = Some (s', evs) -> alive_sh s'.
Proof.
  intros Hal. unfold rc_inc. destruct (heap s v) eqn:Hh; [|discriminate]. intros [= <- _] b. cbn.
  unfold upd. destruct (decide (LCount b = LCount v)) as [[= ->]|Hne]; [|apply Hal].
  rewrite Hh. split; [discriminate|lia].
Qed.

Lemma rc_dec_alive s v s' evs : alive_sh s -> rc_dec s v = Some (s', evs) -> alive_sh s'.
Proof.
  intros Hal. unfold rc_dec. destruct (heap s v) eqn:Hh; [|discriminate].
  assert (Hc : mem s (LCount v) <> 0). { intros E. apply Hal in E. congruence. }
  destruct (N.eqb_spec (mem s (LCount v)) 1) as [E1|E1]; intros [= <- _] b; cbn; unfold upd.
  - destruct (decide (LCount b = LCount v)) as [[= ->]|Hne].
    + destruct (decide (v = v)); [|congruence]. split; reflexivity.
    + destruct (decide (b = v)) as [->|Hb]; [congruence|]. apply Hal.
  - destruct (decide (LCount b = LCount v)) as [[= ->]|Hne]; [|apply Hal].
    rewrite Hh. split; [discriminate|lia].
Qed.

Lemma rc_alloc_alive s v s' evs : alive_sh s -> rc_alloc s v = Some (s', evs) -> alive_sh s'.
Proof.
  intros Hal. unfold rc_alloc. destruct (heap s v) eqn:Hh; [discriminate|].
  destruct (valid_addr v); [|discriminate]. intros [= <- _] b. cbn. unfold upd.
  destruct (decide (LCount b = LCount v)) as [[= ->]|Hne].
  - destruct (decide (v = v)); [|congruence]. split; discriminate.
  - destruct (decide (b = v)) as [->|Hb]; [congruence|]. apply Hal.
Qed.

Lemma node_init_alive s n : alive_sh s -> alive_sh (node_init s n).
Proof. apply alive_same_count; [reflexivity|intros b; apply node_init_count]. Qed.

Lemma exec_alive cf s l p x s' l' evs nx :
  alive_sh s -> exec cf s l p x = (s', l', evs, nx) -> alive_sh s'.
Proof.
  intros Hal He. destruct p; exec_norm He; try exact Hal.
  all: try (apply alive_m_set; [unfold slot_loc; intros b; discriminate|exact Hal]).
  all: try (eapply rc_inc_alive; eassumption).
  all: try (eapply rc_dec_alive; eassumption).
  all: try (eapply rc_alloc_alive; eassumption).
Qed.

(** ** Fresh nodes *)
Lemma fresh_m_set s l0 v :
  fresh_sh s -> l0 <> LHead ->
  match l0 with
  | LSlot n _ => v = NONE \/ n < mem s LHead
  | LCtrl n => v = IDLE \/ n < mem s LHead
  | _ => True
  end -> fresh_sh (m_set s l0 v).
Proof.
  intros Hf Hne Hv n Hn. cbn in *. rewrite upd_other in Hn by congruence. destruct (Hf n Hn) as [Hs Hc]. split.
  - intros j. unfold upd. destruct (decide (LSlot n j = l0)) as [<-|?]; [|apply Hs]. destruct Hv as [->|Hv]; [reflexivity|lia].
  - unfold upd. destruct (decide (LCtrl n = l0)) as [<-|?]; [|apply Hc]. destruct Hv as [->|Hv]; [reflexivity|lia].
Qed.

Lemma fresh_same s s' :
  (forall l0, (forall b, l0 <> LCount b) -> mem s' l0 = mem s l0) -> fresh_sh s -> fresh_sh s'.
Proof.
  intros Hm Hf n Hn. rewrite Hm in Hn by discriminate. destruct (Hf n Hn) as [Hs Hc]. split.
  - intros j. rewrite Hm by discriminate. apply Hs.
  - rewrite Hm by discriminate. exact Hc.
Qed.

Lemma fresh_node_init s h : fresh_sh s -> mem s LHead = h -> fresh_sh (node_init (m_set s LHead (node_val h)) h).
Proof.
  intros Hf Hh n Hn. rewrite node_init_head in Hn. cbn in Hn. rewrite upd_same in Hn. unfold node_val in Hn.
  destruct (Hf n) as [Hs Hc]; [lia|]. split.
  - intros j. rewrite node_init_mrel; try exact I; try discriminate.
    + cbn. rewrite upd_other by discriminate. apply Hs.
    + intros j0. cbn. rewrite upd_other by discriminate. apply (Hf h). lia.
    + cbn. rewrite upd_other by discriminate. apply (Hf h). lia.
  - rewrite node_init_ctrl. destruct (decide (n = h)); [lia|]. cbn. rewrite upd_other by discriminate. exact Hc.
Qed.

Lemma exec_fresh cf s l p x s' l' evs nx :
  fresh_sh s -> exec cf s l p x = (s', l', evs, nx) ->
  (in_with p = true -> own_node l < mem s LHead) -> pc_nodes_ok (mem s LHead) p ->
  fresh_sh s'.
Proof.
  intros Hf He Hown Hp. destruct p; exec_norm He; try exact Hf.
  all: try (apply fresh_m_set; [exact Hf|unfold slot_loc; discriminate|]; cbn;
            first [exact I | left; reflexivity | right; apply Hown; reflexivity | right; cbn in Hp; apply Hp]).
  all: try (eapply fresh_same; [|exact Hf]; intros lx Hlx;
            first [eapply rc_inc_other; eassumption | eapply rc_dec_other; eassumption | eapply rc_alloc_other; eassumption]).
  apply fresh_node_init; [exact Hf|]. apply andb_prop in Heqb as [Hh _]. apply N.eqb_eq in Hh. exact Hh.
Qed.
