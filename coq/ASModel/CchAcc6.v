(** * ASModel.CchAcc6 (copy of Acc6 for the extended table) — auxiliary facts for the global step of the accounting invariant. *)
From Coq Require Import Lia.
From ASModel Require Import Base State Orderings_gen Step Run Progress Hist Inv InvTl InvProto InvStep Sum StepCases.
From ASModel Require Import GenDefs Gen1 Gen2.
From ASModel Require Import CchDefs CchAcc1 CchAcc2 CchAcc3 CchAcc4 CchAcc5.

(** Only [LH7] frames look at the memory. *)
Lemma srefs_env a m m' stk :
  (forall cand e, In (LH7 cand e) stk -> m' (LEnv e) = m (LEnv e)) -> srefs a m' stk = srefs a m stk.
Proof.
  induction stk as [|p stk IH]; intros H; [reflexivity|]. cbn [srefs].
  rewrite IH by (intros cand e Hin; apply (H cand e); right; exact Hin). f_equal.
  destruct p; try reflexivity. cbn. rewrite (H cand e) by (left; reflexivity). reflexivity.
Qed.

Lemma waiting_no_LH7 stk cand e : all_waiting stk -> ~ In (LH7 cand e) stk.
Proof. intros Hw Hin. apply (proj1 (Forall_forall _ _) Hw) in Hin. discriminate Hin. Qed.

(** An [LH7] frame is the top frame of a running thread that holds a node, and the envelope it
    is about to read belongs to a node of the list. *)
Lemma LH7_top s t cand e :
  WF2 s -> Quiet s -> In (LH7 cand e) (t_stack (thr s t)) ->
  t_status (thr s t) = Running /\ (exists rest, t_stack (thr s t) = LH7 cand e :: rest) /\ e < nn s.
Proof.
  intros W Q Hin. destruct (status_running_dec (t_status (thr s t))) as [Hr|Hr].
  2: { destruct (q_stop _ Q t Hr) as [E _]. rewrite E in Hin. destruct Hin. }
  split; [exact Hr|]. destruct (w_thr _ W t Hr) as [Htl _].
  destruct (t_stack (thr s t)) as [|p rest] eqn:Hs; [destruct Hin|].
  destruct Htl as (_ & Hw & _ & Hn & _).
  destruct Hin as [->|Hin]; [|exfalso; exact (waiting_no_LH7 _ _ _ Hw Hin)].
  split; [eauto|].
  destruct (tl_node (t_loc (thr s t))) as [n|] eqn:Hnode; [|exfalso; apply Hn; [cbn; lia|reflexivity]].
  assert (Hh : holder (thr s t) = Some n) by (unfold holder; rewrite Hnode; reflexivity).
  pose proof (w_top _ W t n Hr Hh) as Ht. rewrite Hs in Ht. cbn in Ht. apply Ht.
Qed.

(** The handle written when a command completes. *)
Lemma unwind_dst cf : forall rest l v l' k hv v',
  typed rest -> unwind cf l rest v = UDone l' (Some (k, hv)) v' ->
  (In (KDone (Some k)) rest /\ (forall c a, hv <> HCache c a)) \/
  (exists c a, In (KCacheDone c k) rest /\ hv = HCache c a).
Proof.
  induction rest as [|w rest IH]; intros l v l' k hv v' Ht Hu; [discriminate Hu|].
  destruct Ht as (Hf & _ & Ht).
  destruct w; try discriminate Hf; cbn [unwind] in Hu; try discriminate Hu.
  all: try (match type of Hu with context [resume ?cf0 ?l0 ?w0 ?v0] =>
              destruct (resume cf0 l0 w0 v0) as [l2 nx] eqn:Hr; destruct nx; try discriminate Hu;
              destruct (IH _ _ _ _ _ _ Ht Hu) as [[H1 H2]|(c0 & a0 & H1 & H2)];
              [left; split; [right; exact H1|exact H2]|right; exists c0, a0; split; [right; exact H1|exact H2]] end).
  - destruct dst as [h|]; [|discriminate Hu]. injection Hu as _ <- <- _. left. split; [left; reflexivity|].
    intros c a. destruct v; discriminate.
  - destruct v; try discriminate Hu. injection Hu as _ <- <- _. right. exists c, p. split; [left; reflexivity|reflexivity].
Qed.

(** The envelope of the pushed node. *)
Lemma exec_gpush_env cf s l h x s' l' evs nx :
  exec cf s l (GPush h) x = (s', l', evs, nx) ->
  mem s' (LEnv h) = mem s (LEnv h) \/ mem s LHead = h.
Proof.
  intros He. exec_norm He; [right|left; reflexivity].
  apply andb_prop in Heqb as [Hh _]. apply N.eqb_eq in Hh. exact Hh.
Qed.

(** Starting a command: heap and handles. *)
Lemma cmd_start_heap cf s l c s1 l1 stk r :
  cmd_start cf s l c = inl (s1, l1, stk, r) -> heap (sh s1) = heap (sh s).
Proof.
  intros Hc. destruct c; cbn in Hc; destr_in Hc; try discriminate; injection Hc as <- <- <- <-; try reflexivity.
  all: repeat match goal with |- context [consume _ ?v] => is_var v; destruct v; cbn [consume] end; reflexivity.
Qed.

