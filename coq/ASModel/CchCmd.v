(** * ASModel.CchCmd — the bottom frame [KCacheDone c k] and the commands that create it.

    [CacheCmd]: a thread whose stack contains [KCacheDone c k] is running [CCacheNew c k] or
    [CCacheLoad k] (as [CloneCmd] of Safe8 for [CloneInc]).
    [CacheH]: the handle [k] of such a thread is empty ([CCacheNew]) or a cache ([CCacheLoad]).
    Both are invariants; [CacheH] under the program hypotheses [DstFresh] and [CacheExclS]. *)
From Coq Require Import Lia.
From ASModel Require Import Base State Orderings_gen Step Run Progress Hist Inv InvTl InvProto InvStep Sum StepCases.
From ASModel Require Import GenDefs Gen1 Gen2 Gen EnvDefs Typed1.
From ASModel Require Import CchDefs CchAcc1 CchAcc2 CchAcc3 CchAcc4 CchAcc5 CchAcc6 CchOwn CchAcc.

Definition cache_on (c k : N) (cm : cmd) : Prop := cm = CCacheNew c k \/ cm = CCacheLoad k.
Definition is_cache (cm : cmd) : bool := match cm with CCacheNew _ _ | CCacheLoad _ => true | _ => false end.

(** The bottom frame fits the command: [KCacheDone] for the cache commands, [KDone] for the others. *)
Definition cmd_bot (cm : cmd) (b : pc) : Prop :=
  match b with
  | KCacheDone c k => cache_on c k cm
  | KDone _ => is_cache cm = false
  | _ => False
  end.

Definition BotCmd (s : state) : Prop :=
  forall t b, In b (t_stack (thr s t)) -> is_bottom_frame b = true ->
    b = WThreadExit \/
    exists cm, nth_error (t_prog (thr s t)) (N.to_nat (t_cmdi (thr s t))) = Some cm /\ cmd_bot cm b.

Definition CacheCmd (s : state) : Prop :=
  forall t c k, In (KCacheDone c k) (t_stack (thr s t)) ->
    exists cm, nth_error (t_prog (thr s t)) (N.to_nat (t_cmdi (thr s t))) = Some cm /\ cache_on c k cm.

Lemma BotCmd_CacheCmd s : BotCmd s -> CacheCmd s.
Proof. intros H t c k Hin. destruct (H t _ Hin eq_refl) as [E|E]; [discriminate E|exact E]. Qed.

Definition CacheH (s : state) : Prop :=
  forall t c k, In (KCacheDone c k) (t_stack (thr s t)) ->
    hnd s k = HEmpty \/ exists c' a, hnd s k = HCache c' a.

(** ** Frames pushed by [exec] and [resume] are never bottom frames *)
Lemma nocbt_in fs c k : Forall (fun f => cbt f = false) fs -> ~ In (KCacheDone c k) fs.
Proof. intros H Hin. apply (proj1 (Forall_forall _ _) H) in Hin. discriminate Hin. Qed.

Lemma segok_nobot w : forall fs, segok fs w = true -> Forall (fun f => is_bottom_frame f = false) fs.
Proof.
  induction fs as [|f fs IH]; intros H; [constructor|]. cbn [segok] in H.
  apply andb_prop in H as [H Hd]. apply andb_prop in H as [H _]. apply andb_prop in H as [_ Hb].
  apply Bool.negb_true_iff in Hb. constructor; [exact Hb|exact (IH Hd)].
Qed.

Lemma nobot_in fs b : Forall (fun f => is_bottom_frame f = false) fs -> is_bottom_frame b = true -> ~ In b fs.
Proof. intros H Hb Hin. apply (proj1 (Forall_forall _ _) H) in Hin. congruence. Qed.

Section Bottom.
Variable b : pc.
Hypothesis Hbb : is_bottom_frame b = true.

Lemma next_bot w rest nx :
  next_typed (runit w) nx = true ->
  match nx with
  | NGoto p' => In b (p' :: rest) -> In b rest
  | NPush fs w0 => In b (fs ++ w0 :: rest) -> In b rest
  | _ => True
  end.
Proof.
  intros Hnt. destruct nx as [p'|fs w0|v|ps|f]; try exact I; cbn [next_typed] in Hnt.
  - apply andb_prop in Hnt as [Hnt _]. apply andb_prop in Hnt as [_ Hnb]. apply Bool.negb_true_iff in Hnb.
    intros [E|Hin]; [congruence|exact Hin].
  - apply andb_prop in Hnt as [Hnt _]. apply andb_prop in Hnt as [Hnt Hnb].
    apply andb_prop in Hnt as [Hseg _]. apply Bool.negb_true_iff in Hnb.
    intros Hin. apply in_app_or in Hin as [Hin|[E|Hin]]; [|congruence|exact Hin].
    elim (nobot_in fs b (segok_nobot w0 fs Hseg) Hbb Hin).
Qed.

Lemma unwind_bot cf : forall rest l v l' stk,
  typed rest -> unwind cf l rest v = UStack l' stk -> In b stk -> In b rest.
Proof.
  induction rest as [|w rest IH]; intros l v l' stk Ht Hu Hin; [discriminate Hu|].
  destruct (is_bottom_frame w) eqn:Hb.
  - destruct w; try discriminate Hb; cbn in Hu; try discriminate Hu.
  - rewrite unwind_cons in Hu by (destruct w; try discriminate Hb; reflexivity).
    destruct (resume cf l w v) as [l2 nx] eqn:Hr.
    pose proof (next_bot w rest nx (resume_typed _ _ _ _ _ _ Hr (proj1 Ht))) as Hn.
    destruct nx as [p'|fs w0|v2|ps|f]; try discriminate Hu.
    + injection Hu as _ <-. right. exact (Hn Hin).
    + injection Hu as _ <-. right. exact (Hn Hin).
    + right. exact (IH _ _ _ _ (proj2 (proj2 Ht)) Hu Hin).
Qed.

Lemma thread_after_bot cf th l1 p rest nx :
  typed (p :: rest) -> is_bottom_frame p = false -> next_typed (runit p) nx = true ->
  In b (t_stack (thread_after cf th l1 rest nx)) ->
  In b rest /\ after_dst cf l1 rest nx = None.
Proof.
  intros Ht Hb Hnt. pose proof (next_bot p rest nx Hnt) as Hn.
  unfold thread_after, after_dst. destruct nx as [p'|fs w0|v|ps|f]; cbn [t_stack]; auto.
  destruct (unwind cf l1 rest v) as [l2 stk| | | |] eqn:Hu; cbn [t_stack]; try (intros []; fail).
  intros Hin. split; [|reflexivity]. exact (unwind_bot cf rest l1 v l2 stk (proj2 (proj2 Ht)) Hu Hin).
Qed.
End Bottom.

Lemma thread_after_kcd cf th l1 p rest nx c k :
  typed (p :: rest) -> is_bottom_frame p = false -> next_typed (runit p) nx = true ->
  In (KCacheDone c k) (t_stack (thread_after cf th l1 rest nx)) ->
  In (KCacheDone c k) rest /\ after_dst cf l1 rest nx = None.
Proof. apply thread_after_bot. reflexivity. Qed.

(** ** Starting a command *)
Lemma cmd_start_kcd cf s l cm s1 l1 stk r c k :
  cmd_start cf s l cm = inl (s1, l1, stk, r) -> In (KCacheDone c k) stk ->
  hnd s1 = hnd s /\ (cm = CCacheNew c k \/ (cm = CCacheLoad k /\ exists a, hnd s k = HCache c a)).
Proof.
  intros Hc Hin. destruct cm; cbn in Hc; destr_in Hc; try discriminate; injection Hc as <- <- <- <-.
  all: try (exfalso; cbn in Hin; intuition discriminate; fail).
  all: try (exfalso; apply in_app_or in Hin as [Hin|Hin];
            [eapply nocbt_in; [|exact Hin]; otyped_seg | cbn in Hin; intuition discriminate]; fail).
  all: try (exfalso;
            match type of Hin with In _ (?p :: ?l0 ++ ?bs) => change (In (KCacheDone c k) ((p :: l0) ++ bs)) in Hin end;
            apply in_app_or in Hin as [Hin|Hin];
            [eapply nocbt_in; [|exact Hin]; otyped_seg | cbn in Hin; intuition discriminate]; fail).
  - (* CCacheNew *)
    apply in_app_or in Hin as [Hin|Hin]; [exfalso; eapply nocbt_in; [|exact Hin]; otyped_seg|].
    cbn in Hin. destruct Hin as [Hin|[Hin|[]]]; [discriminate Hin|]. injection Hin as <- <-.
    split; [reflexivity|left; reflexivity].
  - (* CCacheLoad *)
    cbn in Hin. destruct Hin as [Hin|[Hin|[]]]; [discriminate Hin|]. injection Hin as <- <-.
    split; [reflexivity|right]. split; [reflexivity|]. eauto.
Qed.

Ltac nobot_seg :=
  repeat match goal with
  | H : enter_load _ _ _ = inl (_, ?fs) |- Forall _ ?fs =>
      apply (segok_nobot WLoadFull); apply (enter_load_typed _ _ _ _ _ _ H); reflexivity
  | H : enter_pay _ _ _ = (_, ?fs) |- Forall _ ?fs =>
      apply (segok_nobot WLoadFull); apply (enter_pay_typed _ _ _ _ _ _ H)
  | H : guard_drop_frames ?p ?d = ?fs |- Forall _ ?fs =>
      rewrite <- H; apply (segok_nobot WLoadFull); apply guard_drop_typed
  | H : guard_into_frames ?p ?d = ?fs |- Forall _ ?fs =>
      rewrite <- H; apply (segok_nobot WLoadFull); apply guard_into_typed; reflexivity
  end.

Ltac bot_tail Hin Hb :=
  cbn in Hin;
  repeat match type of Hin with
         | _ \/ _ => destruct Hin as [Hin|Hin]
         | False => destruct Hin
         end;
  subst; try discriminate Hb; cbn; unfold cache_on; try reflexivity; auto.

Lemma cmd_start_bot cf s l cm s1 l1 stk r b :
  cmd_start cf s l cm = inl (s1, l1, stk, r) -> In b stk -> is_bottom_frame b = true -> cmd_bot cm b.
Proof.
  intros Hc Hin Hb. destruct cm; cbn in Hc; destr_in Hc; try discriminate; injection Hc as <- <- <- <-.
  all: try (bot_tail Hin Hb; fail).
  all: try (apply in_app_or in Hin as [Hin|Hin];
            [exfalso; eapply nobot_in; [|exact Hb|exact Hin]; nobot_seg | bot_tail Hin Hb]; fail).
  all: match type of Hin with In _ (?p :: ?l0 ++ ?bs) => change (In b ((p :: l0) ++ bs)) in Hin end.
  all: apply in_app_or in Hin as [Hin|Hin];
       [exfalso; eapply nobot_in; [|exact Hb|exact Hin]; nobot_seg | bot_tail Hin Hb].
Qed.

(** ** [BotCmd] is an invariant *)
Theorem BotCmd_init inits progs : BotCmd (init_state inits progs).
Proof.
  intros t b Hin. cbn in Hin.
  destruct (init_threads_stack progs 0 (fun _ => no_thread) t) as (Hs & _); [cbn; auto|].
  rewrite Hs in Hin. destruct Hin.
Qed.

Theorem step_BotCmd cf s t x : Typed s -> BotCmd s -> BotCmd (fst (step cf s t x)).
Proof.
  intros TY CC t' b.
  destruct (N.eq_dec t' t) as [->|Hne]; [|rewrite step_status_other by exact Hne; apply CC].
  destruct (step_cases cf s t x) as [E|cm s1 l1 stk r Hr Hst Hc Hen Hcs E|n Hr Hst Hn E|Hr Hst Hn E|p rest s1 l1 evs nx Hr Hst He E];
    rewrite E.
  - apply CC.
  - cbn. rewrite upd_same. unfold start_thread. destruct stk as [|f stk]; [intros []|]. cbn [t_stack t_prog t_cmdi].
    intros Hin Hb. right. exists cm. split; [exact Hc|]. exact (cmd_start_bot _ _ _ _ _ _ _ _ b Hcs Hin Hb).
  - cbn. rewrite upd_same. cbn. intros [H|[H|[]]] Hb; [subst b; discriminate Hb|left; symmetry; exact H].
  - cbn. rewrite upd_same. intros [].
  - cbn [thr]. rewrite upd_same. pose proof (TY t) as Ht. rewrite Hst in Ht.
    assert (Hrest : In b rest -> is_bottom_frame b = true -> b = WThreadExit \/
                    exists cm, nth_error (t_prog (thr s t)) (N.to_nat (t_cmdi (thr s t))) = Some cm /\ cmd_bot cm b).
    { intros Hin. apply (CC t b). rewrite Hst. right. exact Hin. }
    destruct (is_bottom_frame p) eqn:Hb.
    + destruct p; try discriminate Hb; cbn in He; injection He as <- <- <- <-; cbn; exact Hrest.
    + intros Hin Hbb. pose proof (exec_typed _ _ _ _ _ _ _ _ _ He (proj1 Ht)) as Hnt.
      destruct (thread_after_bot b Hbb cf (thr s t) l1 p rest nx Ht Hb Hnt Hin) as [Hin' Hd].
      assert (E1 : t_prog (thread_after cf (thr s t) l1 rest nx) = t_prog (thr s t)).
      { unfold thread_after. destruct nx; try reflexivity. destruct (unwind cf l1 rest v); reflexivity. }
      assert (E2 : t_cmdi (thread_after cf (thr s t) l1 rest nx) = t_cmdi (thr s t)).
      { unfold thread_after, after_dst in *. destruct nx; try reflexivity.
        destruct (unwind cf l1 rest v); try reflexivity. destruct Hin. }
      rewrite E1, E2. exact (Hrest Hin' Hbb).
Qed.

(** ** [CacheH] is an invariant *)
Lemma after_dst_bdst cf l1 rest nx k hv :
  typed rest -> after_dst cf l1 rest nx = Some (k, hv) -> exists f, In f rest /\ bdst f = Some k.
Proof.
  intros Ht Hd. unfold after_dst in Hd. destruct nx as [| |v| |]; try discriminate Hd.
  destruct (unwind cf l1 rest v) as [| l2 d v2 | | |] eqn:Hu; try discriminate Hd. subst d.
  destruct (unwind_dst cf rest l1 v l2 k hv v2 Ht Hu) as [[Hin _]|(c & a0 & Hin & _)].
  - exists (KDone (Some k)). split; [exact Hin|reflexivity].
  - exists (KCacheDone c k). split; [exact Hin|reflexivity].
Qed.

Theorem CacheH_init inits progs : CacheH (init_state inits progs).
Proof.
  intros t c k Hin. cbn in Hin.
  destruct (init_threads_stack progs 0 (fun _ => no_thread) t) as (Hs & _); [cbn; auto|].
  rewrite Hs in Hin. destruct Hin.
Qed.

Theorem step_CacheH cf s t x : Typed s -> ProgHyp s -> CacheH s -> CacheH (fst (step cf s t x)).
Proof.
  intros TY [DF CX] CH.
  destruct (step_cases cf s t x) as [E|cm s1 l1 stk r Hr Hst Hc Hen Hcs E|n Hr Hst Hn E|Hr Hst Hn E|p rest s1 l1 evs nx Hr Hst He E];
    rewrite E.
  - exact CH.
  - destruct (cmd_start_frame _ _ _ _ _ _ _ _ Hcs) as (Hthr & Hhnd & _).
    intros t' c k. cbn [thr hnd set_thread]. unfold upd. destruct (decide (t' = t)) as [->|Hne].
    + unfold start_thread. destruct stk as [|f stk]; [intros []|]. cbn [t_stack]. intros Hin.
      destruct (cmd_start_kcd _ _ _ _ _ _ _ _ c k Hcs Hin) as [Eh [->|[-> (a & Ha)]]]; rewrite Eh.
      * left. exact (proj2 DF t _ Hr Hst Hc Hen).
      * right. eauto.
    + rewrite Hthr. intros Hin. rewrite Hhnd; [exact (CH t' c k Hin)|].
      exact (proj2 (CX t t' c k (fun E0 => Hne (eq_sym E0)) Hin) cm Hr Hst Hc).
  - intros t' c k. cbn [thr hnd set_thread]. unfold upd. destruct (decide (t' = t)) as [->|Hne]; [|apply CH].
    cbn. intros [H|[H|[]]]; discriminate H.
  - intros t' c k. cbn [thr hnd set_thread]. unfold upd. destruct (decide (t' = t)) as [->|Hne]; [|apply CH].
    cbn. intros [].
  - pose proof (TY t) as Ht. rewrite Hst in Ht.
    intros t' c k. cbn [thr hnd]. unfold upd. destruct (decide (t' = t)) as [->|Hne].
    + destruct (is_bottom_frame p) eqn:Hb.
      * destruct p; try discriminate Hb; cbn in He; injection He as <- <- <- <-; cbn;
          intros Hin; apply (CH t c k); rewrite Hst; right; exact Hin.
      * intros Hin. pose proof (exec_typed _ _ _ _ _ _ _ _ _ He (proj1 Ht)) as Hnt.
        destruct (thread_after_kcd cf (thr s t) l1 p rest nx c k Ht Hb Hnt Hin) as [Hin' Hd].
        rewrite hnd_after_dst, Hd. apply (CH t c k). rewrite Hst. right. exact Hin'.
    + intros Hin. rewrite hnd_after_dst.
      destruct (after_dst cf l1 rest nx) as [[k0 hv]|] eqn:Hd; [|exact (CH t' c k Hin)].
      rewrite upd_other; [exact (CH t' c k Hin)|]. intros ->.
      destruct (after_dst_bdst cf l1 rest nx k0 hv (proj2 (proj2 Ht)) Hd) as (f & Hf & Hfk).
      apply (proj1 (CX t t' c k0 (fun E0 => Hne (eq_sym E0)) Hin) f); [rewrite Hst; right; exact Hf|exact Hfk].
Qed.

Print Assumptions step_BotCmd.
Print Assumptions step_CacheH.
