(** * ASModel.CchDefs — exact accounting of reference counts WITH the [Cache] commands.

    Extension of [AccDefs].  While [Cache::load] (command [CCacheLoad k]) runs, the one
    reference that the cache owns is visible twice: in the handle [HCache c a] (which stays
    in place during the command) and in the frames of the command ([Q1 c a k] returns it on a
    hit, [WCacheReload c a k] / [PDec a _] release it on a miss).  The table counts it in the
    FRAMES ([fr] below: [Q1], [WCacheReload] hold [a]) and cancels the handle: the bottom
    frame [KCacheDone c k] owes, on the left-hand side of the equation, what the handle [k]
    holds ([kd]).  For [CCacheNew c k] the handle is empty and the debt is zero.

      count(a) + #slots holding a + #increments owed + #cache handles under a running cache command
        = #containers storing a + #envelopes holding a + #handles referring to a
          + #references held by frames

    The unchanged definitions ([ind], [idx], [valid], [is], [ret_refs], [fpend], [spend],
    [href], [env_cnt], [Alive]) are those of [AccDefs]; [fr], [srefs], [Lw], [Rw], [Acc_at],
    [Acc] are redefined here under the same names. *)
From Coq Require Import Lia.
From ASModel Require Import Base State Orderings_gen Step Run Sum.
From ASModel Require Export AccDefs.

Section Acc.
Variable a : N.

(** References (owned counts and debt claims alike) held by a frame. *)
Definition fr (m : loc -> N) (p : pc) : N :=
  match p with
  | LA4 _ v _ | LA5 _ v _ | LA6 _ v => is a v
  | LH5 _ _ cand | LH6a cand => is a cand
  | LH6b cand | LH6c cand => 2 * is a cand
  | LH7 cand e => is a cand + is a (m (LEnv e))
  | LH8 cand _ r | LH9 cand r | LH10 cand r => is a cand + is a r
  | PDec x r => is a x + ret_refs a r
  | GD1 v _ | GI1 v _ => is a v
  | GI2 v _ => 2 * is a v
  | P2 _ old | P3 _ old _ | PE0d _ old _ | PE0e _ old _ | PE1 _ old _ | PE2 _ old _ _ | PE3 _ old _ _
  | PE8 _ old _ _ | PS _ old _ _ | PSi _ old _ _ | P5 _ old _ | P6 _ old | WHelpRepl _ old _ _ => is a old
  | PE4 _ old _ _ r | PE5 _ old _ _ r _ | PE6 _ old _ _ r _ _ | PE7 _ old _ _ r _ _ | PE9 _ old _ _ r => is a old + is a r
  | S1 _ new => is a new
  | K1 _ _ new v _ => is a new + is a v
  | RAlloc _ _ v _ | RInc _ _ v _ => is a v
  | WExit r => ret_refs a r
  | WSwap old => is a old
  | WCasLoad _ _ new | WCasRetry _ _ new => is a new
  | WCasPaid p _ => 2 * is a p
  | WRcuCas _ _ p _ | WRcuInto p _ | WRcuRet p | WRcuNext _ _ p _ => is a p
  | WInto p | WDropStore p => is a p
  (* the cached value travels with the frames of [Cache::load] *)
  | Q1 _ x _ | WCacheReload _ x _ => is a x
  | _ => 0
  end.

Fixpoint srefs (m : loc -> N) (stk : list pc) : N :=
  match stk with [] => 0 | p :: rest => fr m p + srefs m rest end.

(** What the bottom frame of a cache command cancels: the reference of its handle. *)
Definition kd (hn : N -> handle) (p : pc) : N :=
  match p with KCacheDone _ k => href a (hn k) | _ => 0 end.

Fixpoint skd (hn : N -> handle) (stk : list pc) : N :=
  match stk with [] => 0 | p :: rest => kd hn p + skd hn rest end.

Definition Lw (s : state) (i : idx) : N :=
  match i with
  | ISlot n j => is a (mem (sh s) (LSlot n j))
  | IThread t => spend a (t_stack (thr s t)) + skd (hnd s) (t_stack (thr s t))
  | _ => 0
  end.

Definition Rw (s : state) (i : idx) : N :=
  match i with
  | IStore c => is a (mem (sh s) (LStore c))
  | ICtrl w => env_cnt a (mem (sh s)) w
  | IThread t => srefs (mem (sh s)) (t_stack (thr s t))
  | IHandle h => href a (hnd s h)
  | ISlot _ _ => 0
  end.

Definition Acc_at (s : state) : Prop :=
  exists nL nR, Total (Lw s) nL /\ Total (Rw s) nR /\ mem (sh s) (LCount a) + nL = nR.
End Acc.

Definition Acc (s : state) : Prop := forall a, valid a -> Acc_at a s.

(** ** Bridge to [AccDefs]: on frames other than the three cache frames the tables agree. *)
Definition cache_frame (p : pc) : bool :=
  match p with Q1 _ _ _ | WCacheReload _ _ _ | KCacheDone _ _ => true | _ => false end.

Lemma fr_old a m p : cache_frame p = false -> fr a m p = AccDefs.fr a m p.
Proof. destruct p; cbn; congruence. Qed.

Lemma srefs_old a m stk : forallb (fun p => negb (cache_frame p)) stk = true -> srefs a m stk = AccDefs.srefs a m stk.
Proof.
  induction stk as [|p stk IH]; [reflexivity|]. cbn. intros H. apply andb_prop in H as [H1 H2].
  apply Bool.negb_true_iff in H1. rewrite (fr_old a m p H1), (IH H2). reflexivity.
Qed.

Lemma skd_old a hn stk : forallb (fun p => negb (cache_frame p)) stk = true -> skd a hn stk = 0.
Proof.
  induction stk as [|p stk IH]; [reflexivity|]. cbn. intros H. apply andb_prop in H as [H1 H2].
  rewrite (IH H2). destruct p; try reflexivity. discriminate H1.
Qed.
