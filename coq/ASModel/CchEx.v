(** * ASModel.CchEx — non-vacuity of [CchMain.RunOKC]: a concrete concurrent run WITH the
    [Cache] commands satisfies the hypotheses of [CchC01_no_fault] / [CchC16_cache_linearizable].

    An executable mirror of the per-state hypotheses ([GenBound], [DstEmptyC], [CloneSrcCmd];
    infrastructure of [RunOKEx]) is proven sound and run ([vm_compute]) along the schedule;
    [CacheExcl] comes from the static [handles_disjoint] ([CchWF]). *)
From Coq Require Import Lia.
From ASModel Require Import Base State Orderings_gen Step Run Progress Hist Inv InvTl InvProto InvStep Sum StepCases.
From ASModel Require Import GenDefs Gen1 Gen2 Gen Prot11 Safe2 Safe8 Safe Scope Main RunOKEx ProgWF1 LinCache.
From ASModel Require Import CchDefs CchAcc1 CchAcc2 CchAcc3 CchAcc4 CchAcc CchMain CchWF.

Definition is_guard_h (h : handle) : bool := match h with HGuard _ _ => true | _ => false end.

Definition scopeC_thread (s : state) (t : N) : bool :=
  let th := thr s t in
  (tl_gen (t_loc th) + 4 <? WORD) &&
  match t_status th with
  | Running =>
      match nth_error (t_prog th) (N.to_nat (t_cmdi th)) with
      | Some c =>
          (match cmd_dst c with
           | Some h =>
               match c with
               | CCacheLoad _ => negb (is_guard_h (hnd s h))
               | _ => handle_empty (hnd s h) ||
                      (match t_stack th with [] => true | _ => false end &&
                       match cmd_src c with Some h' => h' =? h | None => false end)
               end
           | None => true
           end) &&
          (match c, t_stack th with
           | CClone h _, CloneInc a :: _ =>
               match hnd s h with HOwned a' | HGuard a' _ => a' =? a | _ => false end
           | _, _ => true
           end)
      | None => true
      end
  | _ => true
  end.

Definition DstEmptyC_at (s : state) (t : N) : Prop :=
  forall c h, t_status (thr s t) = Running ->
    nth_error (t_prog (thr s t)) (N.to_nat (t_cmdi (thr s t))) = Some c -> cmd_dst c = Some h ->
    match c with
    | CCacheLoad _ => forall a d, hnd s h <> HGuard a d
    | _ => hnd s h = HEmpty \/ (t_stack (thr s t) = [] /\ cmd_src c = Some h)
    end.

Definition ScopeC_at (s : state) (t : N) : Prop := GenBound_at s t /\ DstEmptyC_at s t /\ CloneSrcCmd_at s t.

Theorem scopeC_thread_sound s t : scopeC_thread s t = true -> ScopeC_at s t.
Proof.
  unfold scopeC_thread. intros H. apply andb_true_iff in H as [Hg H].
  split; [apply N.ltb_lt; exact Hg|]. split.
  - intros c h Hr Hc Hd. rewrite Hr, Hc in H. apply andb_true_iff in H as [H _]. rewrite Hd in H.
    assert (G : handle_empty (hnd s h) ||
                (match t_stack (thr s t) with [] => true | _ => false end &&
                 match cmd_src c with Some h' => h' =? h | None => false end) = true ->
                hnd s h = HEmpty \/ (t_stack (thr s t) = [] /\ cmd_src c = Some h)).
    { intros G. apply orb_true_iff in G as [G|G]; [left; apply handle_empty_true; exact G|right].
      apply andb_true_iff in G as [H1 H2]. split.
      - destruct (t_stack (thr s t)); [reflexivity|discriminate H1].
      - destruct (cmd_src c) as [h'|]; [|discriminate H2]. apply N.eqb_eq in H2. subst h'. reflexivity. }
    destruct c; try exact (G H).
    intros a d E. rewrite E in H. discriminate H.
  - intros h h2 a rest Hr Hc Hst. rewrite Hr, Hc, Hst in H. apply andb_true_iff in H as [_ H].
    destruct (hnd s h) as [|a'|a' d|]; try discriminate H; apply N.eqb_eq in H; subst a'.
    + left. reflexivity.
    + right. exists d. reflexivity.
Qed.

Lemma no_thread_scopeC s t : thr s t = no_thread -> ScopeC_at s t.
Proof.
  intros H. unfold ScopeC_at, GenBound_at, DstEmptyC_at, CloneSrcCmd_at. rewrite H. cbn.
  split; [reflexivity|]. split; intros; discriminate.
Qed.

Definition scopeC_state (n : nat) (s : state) : bool := forallb (scopeC_thread s) (thread_list n).

Theorem scopeC_state_sound n s :
  Beyond n s -> scopeC_state n s = true -> GenBound s /\ DstEmptyC s /\ CloneSrcCmd s.
Proof.
  intros B H.
  assert (A : forall t, ScopeC_at s t).
  { intros t. destruct (N.lt_ge_cases t (N.of_nat n)) as [Hlt|Hge].
    - apply scopeC_thread_sound. apply (proj1 (forallb_forall _ _) H). apply thread_list_in. exact Hlt.
    - apply no_thread_scopeC. apply B. exact Hge. }
  split; [|split].
  - intros t. apply (A t).
  - intros t c h. apply (A t).
  - intros t. apply (A t).
Qed.

Fixpoint runC_b (cf : config) (n : nat) (s : state) (sched : list (N * N)) : bool :=
  scopeC_state n s &&
  match sched with
  | [] => true
  | (t, x) :: rest => scope_alloc s t x && runC_b cf n (fst (step cf s t x)) rest
  end.

Theorem runC_b_sound cf n : forall sched s, Beyond n s -> runC_b cf n s sched = true ->
  (forall k, GenBound (St cf s sched k) /\ DstEmptyC (St cf s sched k) /\ CloneSrcCmd (St cf s sched k)) /\
  (forall k t x, nth_error sched k = Some (t, x) -> alloc_ok (St cf s sched k) t x).
Proof.
  induction sched as [|[t x] sched IH]; intros s B H; cbn [runC_b] in H; apply andb_true_iff in H as [Hs H].
  - split.
    + intros k. rewrite St_nil. apply (scopeC_state_sound n); assumption.
    + intros [|k] t x Hk; discriminate Hk.
  - apply andb_true_iff in H as [Ha H].
    destruct (IH _ (Beyond_step cf n s t x B) H) as [IH1 IH2]. split.
    + intros [|k]; [rewrite St_0; apply (scopeC_state_sound n); assumption|].
      rewrite St_cons. apply IH1.
    + intros [|k] t' x' Hk.
      * injection Hk as <- <-. rewrite St_0. apply scope_alloc_sound. exact Ha.
      * rewrite St_cons. apply IH2. exact Hk.
Qed.

Definition nosetgen_b (progs : list (list cmd)) : bool :=
  forallb (forallb (fun c => match c with CSetGen _ => false | _ => true end)) progs.

Lemma nosetgen_b_sound progs : nosetgen_b progs = true -> progs_nosetgen progs.
Proof.
  intros H p Hp g Hin. apply (proj1 (forallb_forall _ _) H) in Hp.
  pose proof (proj1 (forallb_forall _ _) Hp _ Hin) as A. discriminate A.
Qed.

Definition runokC_b (cf : config) (inits : list N) (progs : list (list cmd)) (sched : list (N * N)) : bool :=
  inits_b inits && nosetgen_b progs && runC_b cf (length progs) (init_state inits progs) sched.

Theorem runokC_b_sound cf inits progs sched :
  handles_disjoint progs -> runokC_b cf inits progs sched = true -> RunOKC cf inits progs sched.
Proof.
  intros HD H. apply andb_true_iff in H as [H Hr]. apply andb_true_iff in H as [Hi Hp].
  destruct (runC_b_sound cf (length progs) sched _ (Beyond_init inits progs) Hr) as [H1 H2].
  constructor; [apply inits_b_sound; exact Hi|apply nosetgen_b_sound; exact Hp| |exact H2].
  intros k. cbn zeta. destruct (H1 k) as (G & D & C). repeat split; try assumption.
  unfold St. apply handles_disjoint_CacheExcl. exact HD.
Qed.

(** ** The example run *)
(** Fast path with debug assertions; container 0 holds the value at 4096.
    Thread 0: [Cache::new] into handle 1, [Cache::load] (a hit), [Cache::load] again, drop.
    Thread 1: allocates a value (at 4112, the scheduler's choice) and stores it.
    Schedule: thread 0 creates the cache and loads once (13 steps, a hit); thread 1 runs to
    completion (45 steps): the old value 4096 now only lives in the cache; thread 0 loads again
    (a miss: it reloads, DROPS 4096 — which is destroyed — and caches 4112), drops the cache
    and exits (16 steps). *)
Definition cx_cf : config := mkConfig true true.
Definition cx_inits : list N := [4096].
Definition cx_progs : list (list cmd) :=
  [[CCacheNew 0 1; CCacheLoad 1; CCacheLoad 1; CDrop 1]; [CNew 2; CStore 0 (SHandle 2)]].
Definition cx_sched : list (N * N) := repeat (0, 0) 13 ++ repeat (1, 4112) 45 ++ repeat (0, 0) 16.
Definition cx_s0 : state := init_state cx_inits cx_progs.
Definition cx_St (k : nat) : state := St cx_cf cx_s0 cx_sched k.
Definition cx_final : state := run_state cx_cf cx_s0 cx_sched.

Lemma cx_disjoint : handles_disjoint cx_progs.
Proof.
  intros t1 t2 h Hne H1 H2.
  destruct t1 as [|[|[|t1]]], t2 as [|[|[|t2]]]; cbn in H1, H2; try contradiction; try congruence;
    intuition congruence.
Qed.

Example runokC_b_example : runokC_b cx_cf cx_inits cx_progs cx_sched = true.
Proof. vm_compute. reflexivity. Qed.

Example RunOKC_example : RunOKC cx_cf cx_inits cx_progs cx_sched.
Proof. apply runokC_b_sound; [exact cx_disjoint|exact runokC_b_example]. Qed.

(** The run is the intended one: the first load is a hit on 4096 ... *)
Example cx_first_load :
  t_cmdi (thr (cx_St 13) 0) = 2 /\ hnd (cx_St 13) 1 = HCache 0 4096 /\ mem (sh (cx_St 13)) (LCount 4096) = 2.
Proof. vm_compute. repeat split; reflexivity. Qed.

(** ... after the store the cache holds the last reference of 4096 ... *)
Example cx_after_store :
  t_status (thr (cx_St 58) 1) = Exited /\ mem (sh (cx_St 58)) (LStore 0) = 4112 /\
  hnd (cx_St 58) 1 = HCache 0 4096 /\ mem (sh (cx_St 58)) (LCount 4096) = 1.
Proof. vm_compute. repeat split; reflexivity. Qed.

(** ... the second load is a miss: while it runs, the handle still shows 4096 and the frames
    carry its reference (this is the state that the table of [AccDefs] cannot account for) ... *)
Example cx_second_load_running :
  hnd (cx_St 67) 1 = HCache 0 4096 /\
  t_stack (thr (cx_St 67) 0) = [PDec 4096 (ROwned 4112); KCacheDone 0 1] /\
  hnd (cx_St 68) 1 = HCache 0 4112 /\ heap (sh (cx_St 68)) 4096 = None.
Proof. vm_compute. repeat split; reflexivity. Qed.

(** ... and in the end everything is released. *)
Example cx_final_values :
  t_status (thr cx_final 0) = Exited /\ t_status (thr cx_final 1) = Exited /\
  hnd cx_final 1 = HEmpty /\ mem (sh cx_final) (LStore 0) = 4112 /\
  mem (sh cx_final) (LCount 4112) = 1 /\ heap (sh cx_final) 4096 = None.
Proof. vm_compute. repeat split; reflexivity. Qed.

(** ** The end-to-end theorems on this run *)
Example cx_NoFault : NoFault cx_final.
Proof. exact (proj1 (CchC01_no_fault _ _ _ _ RunOKC_example)). Qed.

Example cx_MasterC : MasterC cx_final.
Proof. exact (RunOKC_MasterC_end _ _ _ _ RunOKC_example). Qed.

Example cx_Acc : Acc cx_final.
Proof. exact (ai_acc _ (mc_acc _ cx_MasterC)). Qed.

(** C16 on the second [Cache::load]: it starts with step 58 and completes with step 67; the
    cache then holds a value that the container held in between. *)
Example cx_cache_linearizable :
  exists v, hnd (cx_St 68) 1 = HCache 0 v /\
    exists j, (58 + 1 <= j <= 67 + 1)%nat /\ mem (sh (cx_St j)) (LStore 0) = v.
Proof.
  apply (CchC16_cache_linearizable cx_cf cx_inits cx_progs cx_sched 0 2 (CCacheLoad 1) 0 1 58%nat 67%nat 0 0 0
           RunOKC_example).
  all: try (vm_compute; reflexivity).
  - right. split; [reflexivity|]. exists 4096. vm_compute. reflexivity.
  - lia.
Qed.

Print Assumptions runokC_b_sound.
Print Assumptions RunOKC_example.
Print Assumptions cx_NoFault.
Print Assumptions cx_cache_linearizable.
