(** * ASModel.CchMain — the master invariant and C01 / C16 for programs WITH [Cache] commands.

    [MasterC] is [Main.Master] with the extended accounting invariant ([CchAcc.AccInv], table
    of [CchDefs]) and two small invariants about the bottom frame of the cache commands
    ([BotCmd], [CacheH] of [CchCmd]).  It is inductive under hypotheses on the test program
    and the scheduler only:
    - [GenBound] (or a bound on the length of the run),
    - [DstEmptyC]: the destination handle of the current command is empty (for
      [CCacheLoad k], whose destination is the cache it reads: [k] is not a guard),
    - [CloneSrcCmd] (as in Main),
    - [CacheExcl]: while a cache command on handle [k] is in progress in one thread, the
      current command of no other running thread consumes or overwrites [k]
      ([Cache::load] takes [&mut self]),
    - [alloc_ok]. *)
From Coq Require Import Lia.
From ASModel Require Import Base State Orderings_gen Step Run Progress Hist Inv InvTl InvProto InvStep Sum StepCases.
From ASModel Require Import GenDefs Gen1 Gen2 Gen EnvDefs Env4 Env.
From ASModel Require Import ProtDefs Prot1 Prot11 Prot16 Prot Typed LinDefs Lin2 Lin.
From ASModel Require Import Safe1 Safe2 Safe7 Safe8 Safe.
(* generic run lemmas ([St], [run_events], [step_fault_event]), the length bound, and [LinCache] *)
From ASModel Require Import Main GenLen LinCache.
From ASModel Require Import CchDefs CchAcc1 CchAcc2 CchAcc3 CchAcc4 CchAcc5 CchAcc6 CchOwn CchAcc CchCmd.
From ASModel Require Import CchSafe5 CchSafe6 CchSafe7 CchSafe.

(** ** Hypotheses on the program *)
Definition DstEmptyC (s : state) : Prop :=
  forall t c h, t_status (thr s t) = Running ->
    nth_error (t_prog (thr s t)) (N.to_nat (t_cmdi (thr s t))) = Some c -> cmd_dst c = Some h ->
    match c with
    | CCacheLoad _ => forall a d, hnd s h <> HGuard a d
    | _ => hnd s h = HEmpty \/ (t_stack (thr s t) = [] /\ cmd_src c = Some h)
    end.

(** The handles a command consumes or overwrites. *)
Definition cmd_mods (cm : cmd) : list N :=
  cmd_hs cm ++ match cmd_dst cm with Some h => [h] | None => [] end.

Definition cache_cmd_on (k : N) (cm : cmd) : Prop := (exists c, cm = CCacheNew c k) \/ cm = CCacheLoad k.

Definition CacheExcl (s : state) : Prop :=
  forall t t' cm cm' k, t <> t' ->
    t_stack (thr s t') <> [] ->
    nth_error (t_prog (thr s t')) (N.to_nat (t_cmdi (thr s t'))) = Some cm' -> cache_cmd_on k cm' ->
    t_status (thr s t) = Running ->
    nth_error (t_prog (thr s t)) (N.to_nat (t_cmdi (thr s t))) = Some cm ->
    ~ In k (cmd_mods cm).

Definition ProgOKC (s : state) : Prop :=
  NoSetGen s /\ DstEmptyC s /\ CloneSrcCmd s /\ CacheExcl s.

(** ** From the command level to the stack level *)
Lemma DstEmptyC_DestFree s : DstEmptyC s -> DestFree s.
Proof.
  intros H t c h Hr Hc Hd. specialize (H t c h Hr Hc Hd).
  destruct c; try (destruct H as [E|E]; [left; rewrite E; reflexivity|right; exact E]).
  left. destruct (hnd s h) as [| |a d|]; try reflexivity. elim (H a d eq_refl).
Qed.

Lemma bdst_bottom_dst f : bdst f = bottom_dst f.
Proof. reflexivity. Qed.

Lemma DstEmptyC_DstFresh s : Quiet s -> ProtInv' s -> BotCmd s -> DstEmptyC s -> DstFresh s.
Proof.
  intros Q PI BC H. split.
  - intros t h Hin.
    destruct (status_running_dec (t_status (thr s t))) as [Hr|Hr].
    2:{ destruct (q_stop _ Q t Hr) as [Hs _]. rewrite Hs in Hin. destruct Hin. }
    destruct (BC t _ Hin eq_refl) as [E|(c & Hc & Hb)]; [discriminate E|]. cbn in Hb.
    destruct (q_dst _ PI t (KDone (Some h)) h Hin eq_refl) as (c' & Hc' & Hd).
    rewrite Hc in Hc'. injection Hc' as <-.
    specialize (H t c h Hr Hc Hd). destruct c; try discriminate Hb; try discriminate Hd;
      (destruct H as [E|[Hs _]]; [exact E|rewrite Hs in Hin; destruct Hin]).
  - intros t c Hr Hs Hc _. destruct c; try exact I; cbn [cmd_dst_ok].
    + destruct (H t _ h2 Hr Hc eq_refl) as [E|[_ E]]; [left; exact E|discriminate E].
    + destruct (H t _ h2 Hr Hc eq_refl) as [E|[_ E]]; [left; exact E|]. injection E as ->. right. reflexivity.
    + destruct (H t _ k Hr Hc eq_refl) as [E|[_ E]]; [exact E|discriminate E].
    + destruct (H t _ h2 Hr Hc eq_refl) as [E|[_ E]]; [left; exact E|]. injection E as ->. right. reflexivity.
Qed.

Lemma CacheExcl_CacheExclS s : Quiet s -> ProtInv' s -> BotCmd s -> CacheExcl s -> CacheExclS s.
Proof.
  intros Q PI BC H t t' c k Hne Hin.
  destruct (BC t' _ Hin eq_refl) as [E|(cm' & Hc' & Hb)]; [discriminate E|]. cbn in Hb.
  assert (Hon : cache_cmd_on k cm') by (destruct Hb as [->| ->]; [left; eauto|right; reflexivity]).
  assert (Hst' : t_stack (thr s t') <> []) by (intros E; rewrite E in Hin; destruct Hin).
  split.
  - intros f Hf Hfk.
    destruct (status_running_dec (t_status (thr s t))) as [Hr|Hr].
    2:{ destruct (q_stop _ Q t Hr) as [Hs _]. rewrite Hs in Hf. destruct Hf. }
    destruct (q_dst _ PI t f k Hf Hfk) as (cm & Hc & Hd).
    apply (H t t' cm cm' k Hne Hst' Hc' Hon Hr Hc). unfold cmd_mods. rewrite Hd.
    apply in_or_app. right. left. reflexivity.
  - intros cm Hr _ Hc Hk. apply (H t t' cm cm' k Hne Hst' Hc' Hon Hr Hc). unfold cmd_mods.
    apply in_or_app. left. exact Hk.
Qed.

(** ** The master invariant *)
Record MasterC (s : state) : Prop := {
  mc_wf : WF2 s;
  mc_quiet : Quiet s;
  mc_gen : GenInv s;
  mc_env : EnvInv s;
  mc_ctl : CtlFresh s;
  mc_acc : AccInv s;                       (* CchAcc: the extended accounting *)
  mc_prot : ProtInv' s;
  mc_typed : ASModel.Typed.Typed s;
  mc_val : ValOK s;
  mc_clone : CloneCmd s;
  mc_bot : BotCmd s;
  mc_cacheh : CacheH s;
  mc_nofault : NoFault s;
}.

Lemma MasterC_CloneSrc s : MasterC s -> ProgOKC s -> CloneSrc s.
Proof. intros M (_ & _ & CS & _). apply CloneSrcCmd_CloneSrc; [apply M|exact CS]. Qed.

Lemma MasterC_EnvInvQ s : MasterC s -> EnvInvQ s.
Proof. intros M. constructor; [constructor|..]; apply M. Qed.

Lemma MasterC_ProgHyp s : MasterC s -> ProgOKC s -> ProgHyp s.
Proof.
  intros M (_ & DE & _ & CE). split.
  - apply DstEmptyC_DstFresh; [apply M|apply M|apply M|exact DE].
  - apply CacheExcl_CacheExclS; [apply M|apply M|apply M|exact CE].
Qed.

Definition progs_nosetgen (progs : list (list cmd)) : Prop :=
  forall p, In p progs -> forall g, ~ In (CSetGen g) p.

Theorem MasterC_init inits progs : inits_ok inits -> progs_nosetgen progs -> MasterC (init_state inits progs).
Proof.
  intros Hi Hg. destruct (EnvInvQ_init inits progs Hg) as [[W Q GI] EI CF].
  constructor; try assumption.
  - apply AccInv_init'.
  - apply ProtInv'_init.
  - apply Typed_init.
  - apply ValOK_init. exact Hi.
  - apply CloneCmd_init.
  - apply BotCmd_init.
  - apply CacheH_init.
  - intros t. cbn. destruct (init_threads_stack progs 0 (fun _ => no_thread) t) as (_ & _ & [-> | ->]); [cbn; auto|discriminate..].
Qed.

Theorem step_MasterC cf s t x :
  GenBound s -> ProgOKC s -> alloc_ok s t x -> MasterC s -> MasterC (fst (step cf s t x)).
Proof.
  intros GB PO AO M. pose proof (MasterC_CloneSrc s M PO) as CS. pose proof (MasterC_ProgHyp s M PO) as PH.
  destruct PO as (NS & DE & _ & _).
  pose proof (step_NoFault cf s t x (mc_acc _ M) (mc_prot _ M) (mc_cacheh _ M) (proj2 PH) (mc_val _ M) (mc_typed _ M) CS
                (mc_nofault _ M) AO) as NF.
  assert (Hcalm : Calm s) by (apply Calm_split; split; assumption).
  pose proof (MasterC_EnvInvQ s M) as EQ.
  destruct (step_EnvInvQ cf s t x Hcalm EQ NF) as [[W' Q' GI'] EI' CF'].
  constructor; try assumption.
  - apply step_AccInv; [apply M|apply M|apply EnvInvQ_EnvFree; exact EQ|apply EnvInvQ_EnvA; exact EQ|exact PH| |apply M|exact NF].
    exact (mc_typed _ M).
  - apply step_ProtInv'; [apply M|apply M|apply DstEmptyC_DestFree; exact DE|apply M|exact NF].
  - apply step_Typed0. apply M.
  - apply step_ValOK. apply M.
  - apply step_CloneCmd. apply M.
  - apply step_BotCmd; [apply (ai_typed _ (mc_acc _ M))|apply M].
  - apply step_CacheH; [apply (ai_typed _ (mc_acc _ M))|exact PH|apply M].
Qed.


(** ** Runs *)
Theorem run_MasterC cf s0 sched :
  MasterC s0 ->
  (forall k, GenBound (St cf s0 sched k) /\ ProgOKC (St cf s0 sched k)) ->
  (forall k t x, nth_error sched k = Some (t, x) -> alloc_ok (St cf s0 sched k) t x) ->
  forall k, MasterC (St cf s0 sched k).
Proof.
  intros M0 Hh Ha. induction k as [|k IH]; [exact M0|].
  destruct (nth_error sched k) as [[t x]|] eqn:Hk.
  - rewrite (St_step _ _ _ _ _ _ Hk). destruct (Hh k) as [GB PO].
    apply step_MasterC; [exact GB|exact PO|exact (Ha k t x Hk)|exact IH].
  - rewrite (St_end _ _ _ _ Hk). exact IH.
Qed.

(** ** Runs from an initial state *)
Record RunOKC (cf : config) (inits : list N) (progs : list (list cmd)) (sched : list (N * N)) : Prop := {
  rc_inits : inits_ok inits;
  rc_progs : progs_nosetgen progs;
  rc_state : forall k, let s := St cf (init_state inits progs) sched k in
                       GenBound s /\ DstEmptyC s /\ CloneSrcCmd s /\ CacheExcl s;
  rc_alloc : forall k t x, nth_error sched k = Some (t, x) ->
                           alloc_ok (St cf (init_state inits progs) sched k) t x;
}.

Lemma RunOKC_ProgOKC cf inits progs sched :
  RunOKC cf inits progs sched -> forall k, ProgOKC (St cf (init_state inits progs) sched k).
Proof.
  intros [Hi Hg Hs _] k. destruct (Hs k) as (_ & DE & CS & CE). split; [|split; [|split]]; try assumption.
  apply NoSetGen_run. apply NoSetGen_init. exact Hg.
Qed.

Theorem RunOKC_MasterC cf inits progs sched :
  RunOKC cf inits progs sched -> forall k, MasterC (St cf (init_state inits progs) sched k).
Proof.
  intros R. apply run_MasterC.
  - apply MasterC_init; apply R.
  - intros k. split; [apply (rc_state _ _ _ _ R k)|apply RunOKC_ProgOKC; exact R].
  - apply R.
Qed.

Corollary RunOKC_MasterC_end cf inits progs sched :
  RunOKC cf inits progs sched -> MasterC (run_state cf (init_state inits progs) sched).
Proof. intros R. rewrite <- St_all. apply RunOKC_MasterC. exact R. Qed.

(** ** C01 with Cache commands: no thread ever faults, no step touches a destroyed value *)
Theorem step_no_dead_eventC cf s t x f :
  MasterC s -> ProgOKC s -> dead_fault f -> ~ In (EvFault f) (snd (step cf s t x)).
Proof.
  intros M PO (a & Hf) Hin. pose proof (MasterC_CloneSrc s M PO) as CS. pose proof (MasterC_ProgHyp s M PO) as PH.
  destruct (step_fault_event _ _ _ _ _ Hin) as [->|(p & rest & s1 & l1 & evs & Hr & Hst & He)].
  - destruct Hf; discriminate.
  - destruct (no_dead_access cf s t x p rest s1 l1 evs _ (mc_acc _ M) (mc_prot _ M) (mc_cacheh _ M) (proj2 PH)
                (mc_val _ M) CS Hr Hst He a) as [H1 H2].
    destruct Hf as [->| ->]; [apply H1|apply H2]; reflexivity.
Qed.

Theorem CchC01_no_fault cf inits progs sched :
  RunOKC cf inits progs sched ->
  NoFault (run_state cf (init_state inits progs) sched) /\
  forall te, In te (snd (run cf (init_state inits progs) sched)) ->
    forall a, ~ In (EvFault (FDeadInc a)) (snd te) /\ ~ In (EvFault (FDeadDec a)) (snd te).
Proof.
  intros R. split; [apply (RunOKC_MasterC_end _ _ _ _ R)|].
  apply (run_events cf (fun evs => forall a, ~ In (EvFault (FDeadInc a)) evs /\ ~ In (EvFault (FDeadDec a)) evs)).
  intros k t x Hk a.
  pose proof (RunOKC_MasterC _ _ _ _ R k) as M. pose proof (RunOKC_ProgOKC _ _ _ _ R k) as PO.
  split; apply step_no_dead_eventC; try assumption; exists a; auto.
Qed.

(** ** [RunOKC] with the length of the run in place of [GenBound] *)
Lemma GenBound_lenC cf inits progs sched :
  progs_nosetgen progs -> 4 * N.of_nat (length sched) + 4 < WORD ->
  forall k, GenBound (run_state cf (init_state inits progs) (firstn k sched)).
Proof.
  intros Hp Hlen k t.
  destruct (run_gen cf (firstn k sched) _ (NoSetGen_init inits progs Hp) (NoSGF_init inits progs)) as [H _].
  specialize (H t). rewrite (proj2 (init_thread_facts inits progs t)) in H. cbn [tl_init tl_gen] in H.
  rewrite firstn_length in H. lia.
Qed.

Record RunOKLenC (cf : config) (inits : list N) (progs : list (list cmd)) (sched : list (N * N)) : Prop := {
  rlc_inits : inits_ok inits;
  rlc_progs : progs_nosetgen progs;
  rlc_len : 4 * N.of_nat (length sched) + 4 < WORD;
  rlc_state : forall k, let s := St cf (init_state inits progs) sched k in
                        DstEmptyC s /\ CloneSrcCmd s /\ CacheExcl s;
  rlc_alloc : forall k t x, nth_error sched k = Some (t, x) ->
                            alloc_ok (St cf (init_state inits progs) sched k) t x;
}.

Theorem RunOKLenC_RunOKC cf inits progs sched :
  RunOKLenC cf inits progs sched -> RunOKC cf inits progs sched.
Proof.
  intros [Hi Hp Hl Hs Ha]. constructor; [exact Hi|exact Hp| |exact Ha].
  intros k. cbn zeta. split; [|exact (Hs k)].
  unfold St. apply GenBound_lenC; assumption.
Qed.

Corollary CchC01_no_fault_len cf inits progs sched :
  RunOKLenC cf inits progs sched ->
  NoFault (run_state cf (init_state inits progs) sched) /\
  forall te, In te (snd (run cf (init_state inits progs) sched)) ->
    forall a, ~ In (EvFault (FDeadInc a)) (snd te) /\ ~ In (EvFault (FDeadDec a)) (snd te).
Proof. intros R. apply CchC01_no_fault. apply RunOKLenC_RunOKC. exact R. Qed.

(** ** C16: [Cache::load] is linearizable — [LinCache.cache_linearizable_bound] with its
    [NoFault] hypothesis discharged by [CchC01_no_fault]. *)
Theorem CchC16_cache_linearizable cf inits progs sched t i cm c k pa pb xa tb xb :
  let s0 := init_state inits progs in
  RunOKC cf inits progs sched ->
  nth_error (t_prog (thr s0 t)) (N.to_nat i) = Some cm ->
  cache_cmd_of (run_state cf s0 (firstn pa sched)) cm c k ->
  (pa <= pb)%nat ->
  nth_error sched pa = Some (t, xa) ->
  t_status (thr (run_state cf s0 (firstn pa sched)) t) = Running ->
  t_stack (thr (run_state cf s0 (firstn pa sched)) t) = [] ->
  t_cmdi (thr (run_state cf s0 (firstn pa sched)) t) = i ->
  nth_error sched pb = Some (tb, xb) ->
  t_cmdi (thr (run_state cf s0 (firstn pb sched)) t) = i ->
  t_cmdi (thr (run_state cf s0 (firstn (S pb) sched)) t) = i + 1 ->
  exists v, hnd (run_state cf s0 (firstn (S pb) sched)) k = HCache c v /\
    exists j, (pa + 1 <= j <= pb + 1)%nat /\ mem (sh (run_state cf s0 (firstn j sched))) (LStore c) = v.
Proof.
  intros s0 R. subst s0.
  apply (cache_linearizable_bound cf inits progs sched t i cm c k pa pb xa tb xb).
  - exact (rc_progs _ _ _ _ R).
  - intros j. exact (proj1 (rc_state _ _ _ _ R j)).
  - exact (proj1 (CchC01_no_fault cf inits progs sched R)).
Qed.

Corollary CchC16_cache_linearizable_len cf inits progs sched t i cm c k pa pb xa tb xb :
  let s0 := init_state inits progs in
  RunOKLenC cf inits progs sched ->
  nth_error (t_prog (thr s0 t)) (N.to_nat i) = Some cm ->
  cache_cmd_of (run_state cf s0 (firstn pa sched)) cm c k ->
  (pa <= pb)%nat ->
  nth_error sched pa = Some (t, xa) ->
  t_status (thr (run_state cf s0 (firstn pa sched)) t) = Running ->
  t_stack (thr (run_state cf s0 (firstn pa sched)) t) = [] ->
  t_cmdi (thr (run_state cf s0 (firstn pa sched)) t) = i ->
  nth_error sched pb = Some (tb, xb) ->
  t_cmdi (thr (run_state cf s0 (firstn pb sched)) t) = i ->
  t_cmdi (thr (run_state cf s0 (firstn (S pb) sched)) t) = i + 1 ->
  exists v, hnd (run_state cf s0 (firstn (S pb) sched)) k = HCache c v /\
    exists j, (pa + 1 <= j <= pb + 1)%nat /\ mem (sh (run_state cf s0 (firstn j sched))) (LStore c) = v.
Proof.
  intros s0 R. apply CchC16_cache_linearizable. apply RunOKLenC_RunOKC. exact R.
Qed.

Print Assumptions step_MasterC.
Print Assumptions CchC01_no_fault.
Print Assumptions CchC01_no_fault_len.
Print Assumptions CchC16_cache_linearizable.
Print Assumptions CchC16_cache_linearizable_len.
