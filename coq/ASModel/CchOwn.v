(** * ASModel.CchOwn — the bottom frame of a cache command only ever receives an owned pointer.

    [KCacheDone c k] stores [HCache c a] when it is handed [ROwned a] and DISCARDS every other
    value; a discarded guard would lose a reference.  With the kinds of [Typed1]: the frame
    directly above a [KCacheDone] only returns values of kind [KOwned] ([ochain]); [exec] and
    [resume] never enlarge the set of result kinds ([exec_ok], [resume_ok] of Typed1), so the
    property is an invariant of the stacks ([otyped]) and [unwind_owned] follows. *)
From Coq Require Import Lia.
From ASModel Require Import Base State Orderings_gen Step Run Progress Hist Inv InvTl InvProto InvStep Sum StepCases.
From ASModel Require Import Typed1.
From ASModel Require Import CchDefs CchAcc1 CchAcc2.

Definition cbt (w : pc) : bool := match w with KCacheDone _ _ => true | _ => false end.

Fixpoint ochain (outs : list kind) (stk : list pc) : Prop :=
  match stk with
  | [] => True
  | w :: rest => (cbt w = true -> forallb is_owned outs = true) /\ ochain (out_kinds w) rest
  end.

Definition otyped (stk : list pc) : Prop :=
  match stk with [] => True | p :: rest => ochain (out_kinds p) rest end.

Lemma ochain_mono outs outs' stk : incl outs' outs -> ochain outs stk -> ochain outs' stk.
Proof.
  destruct stk as [|w rest]; [intros; exact I|]. cbn. intros Hi [H1 H2]. split; [|exact H2].
  intros Hc. eapply forallb_incl; [exact Hi|exact (H1 Hc)].
Qed.

Lemma ochain_tail outs w rest : ochain outs (w :: rest) -> otyped (w :: rest).
Proof. cbn. intros [_ H]. exact H. Qed.

Lemma bottom_cbt w : is_bottom_frame w = false -> cbt w = false.
Proof. destruct w; cbn; congruence. Qed.

Lemma segok_nocbt w : forall fs, segok fs w = true -> Forall (fun f => cbt f = false) fs.
Proof.
  induction fs as [|f fs IH]; intros H; [constructor|]. cbn [segok] in H.
  apply andb_prop in H as [H Hd]. apply andb_prop in H as [H _]. apply andb_prop in H as [_ Hb].
  apply Bool.negb_true_iff in Hb. constructor; [exact (bottom_cbt f Hb)|exact (IH Hd)].
Qed.

Lemma ochain_push : forall fs w rest outs,
  Forall (fun f => cbt f = false) fs -> cbt w = false -> ochain (out_kinds w) rest ->
  ochain outs (fs ++ w :: rest).
Proof.
  induction fs as [|f fs IH]; intros w rest outs Hf Hw Hr; cbn.
  - split; [rewrite Hw; discriminate|exact Hr].
  - inversion Hf as [|? ? Hf1 Hf2]; subst. split; [rewrite Hf1; discriminate|]. apply IH; assumption.
Qed.

Lemma otyped_push fs w rest :
  Forall (fun f => cbt f = false) fs -> cbt w = false -> otyped (w :: rest) -> otyped (fs ++ w :: rest).
Proof.
  intros Hf Hw Hr. destruct fs as [|f fs]; [exact Hr|]. cbn [app otyped].
  inversion Hf; subst. apply ochain_push; assumption.
Qed.

Lemma owned_kind v : forallb is_owned [ret_kind v] = true -> exists a, v = ROwned a.
Proof. destruct v; cbn; try discriminate. eauto. Qed.

Lemma in_owned outs k : forallb is_owned outs = true -> In k outs -> k = KOwned.
Proof.
  intros H Hin. pose proof (proj1 (forallb_forall _ _) H k Hin) as Hk. destruct k; try discriminate Hk. reflexivity.
Qed.

(** ** Handing a value down the stack *)
Lemma unwind_owned cf : forall rest l v outs,
  In (ret_kind v) outs -> chain outs rest = true -> ochain outs rest -> typed rest ->
  forall l' dst v' c k, unwind cf l rest v = UDone l' dst v' -> In (KCacheDone c k) rest ->
  exists a', v' = ROwned a'.
Proof.
  induction rest as [|w rest IH]; intros l v outs Hin Hc Ho Ht l' dst v' c k Hu Hk; [destruct Hk|].
  destruct Ht as (_ & Hl & Ht).
  destruct (is_bottom_frame w) eqn:Hb.
  - assert (rest = []) by (destruct rest; [reflexivity|]; cbn in Hl; destruct Hl as [Hl _]; congruence). subst rest.
    destruct Hk as [->|[]]. cbn in Hu. injection Hu as _ _ <-.
    destruct Ho as [Ho _]. specialize (Ho eq_refl).
    pose proof (in_owned _ _ Ho Hin) as Ek. destruct v; try discriminate Ek. eauto.
  - rewrite unwind_cons in Hu by (destruct w; try discriminate Hb; reflexivity).
    destruct (resume cf l w v) as [l2 nx] eqn:Hr.
    assert (Hb' : is_bottom w = false) by (destruct w; try discriminate Hb; reflexivity).
    pose proof (resume_ok cf l w v l2 nx Hb' (chain_accepts _ _ _ _ Hc Hin) Hr) as Hn.
    destruct nx as [p|fs w'|v2|ps|f]; try discriminate Hu. cbn in Hn.
    destruct Hk as [->|Hk]; [discriminate Hb|].
    exact (IH l2 v2 (out_kinds w) Hn (chain_tail _ _ _ Hc) (proj2 Ho) Ht l' dst v' c k Hu Hk).
Qed.

Lemma unwind_otyped cf : forall rest l v outs,
  In (ret_kind v) outs -> chain outs rest = true -> ochain outs rest -> typed rest ->
  match unwind cf l rest v with UStack _ stk => otyped stk | _ => True end.
Proof.
  induction rest as [|w rest IH]; intros l v outs Hin Hc Ho Ht; [exact I|].
  destruct (is_bottom_frame w) eqn:Hb.
  - destruct w; try discriminate Hb; cbn; try exact I; destruct dst; exact I.
  - rewrite unwind_cons by (destruct w; try discriminate Hb; reflexivity).
    destruct (resume cf l w v) as [l2 nx] eqn:Hr.
    assert (Hb' : is_bottom w = false) by (destruct w; try discriminate Hb; reflexivity).
    pose proof (resume_ok cf l w v l2 nx Hb' (chain_accepts _ _ _ _ Hc Hin) Hr) as Hn.
    pose proof (resume_typed _ _ _ _ _ _ Hr (proj1 Ht)) as Hnt.
    destruct Ho as [_ Ho]. destruct Ht as (_ & _ & Ht).
    destruct nx as [p|fs w'|v2|ps|f]; try exact I; cbn in Hn.
    + cbn [otyped]. eapply ochain_mono; [exact (proj2 Hn)|exact Ho].
    + cbn [next_typed] in Hnt. apply andb_prop in Hnt as [Hnt _]. apply andb_prop in Hnt as [Hnt Hnb].
      apply andb_prop in Hnt as [Hseg _]. apply Bool.negb_true_iff in Hnb.
      apply otyped_push; [exact (segok_nocbt w' fs Hseg)|exact (bottom_cbt w' Hnb)|].
      cbn [otyped]. eapply ochain_mono; [exact (proj2 (proj2 Hn))|exact Ho].
    + exact (IH l2 v2 (out_kinds w) Hn (chain_tail _ _ _ Hc) Ho Ht).
Qed.

(** ** The acting thread after a frame step *)
Lemma thread_after_otyped cf th l1 p rest nx :
  next_ok (out_kinds p) nx -> chain (out_kinds p) rest = true -> otyped (p :: rest) ->
  typed (p :: rest) -> is_bottom_frame p = false -> next_typed (runit p) nx = true ->
  otyped (t_stack (thread_after cf th l1 rest nx)).
Proof.
  intros Hn Hc Ho Ht Hb Hnt. cbn [otyped] in Ho.
  assert (Hrest : otyped rest).
  { destruct rest as [|w rest']; [exact I|]. exact (ochain_tail _ _ _ Ho). }
  unfold thread_after. destruct nx as [p'|fs w|v|ps|f]; cbn [t_stack]; try exact Hrest; cbn in Hn.
  - cbn [otyped]. eapply ochain_mono; [exact (proj2 Hn)|exact Ho].
  - cbn [next_typed] in Hnt. apply andb_prop in Hnt as [Hnt _]. apply andb_prop in Hnt as [Hnt Hnb].
    apply andb_prop in Hnt as [Hseg _]. apply Bool.negb_true_iff in Hnb.
    apply otyped_push; [exact (segok_nocbt w fs Hseg)|exact (bottom_cbt w Hnb)|].
    cbn [otyped]. eapply ochain_mono; [exact (proj2 (proj2 Hn))|exact Ho].
  - pose proof (unwind_otyped cf rest l1 v (out_kinds p) Hn Hc Ho (proj2 (proj2 Ht))) as Hu.
    destruct (unwind cf l1 rest v); cbn [t_stack]; exact Hu || exact I.
Qed.

(** ** Starting a command *)
Ltac otyped_seg :=
  repeat match goal with
  | H : enter_load _ _ _ = inl (_, ?fs) |- Forall _ ?fs =>
      apply (segok_nocbt WLoadFull); apply (enter_load_typed _ _ _ _ _ _ H); reflexivity
  | H : enter_pay _ _ _ = (_, ?fs) |- Forall _ ?fs =>
      apply (segok_nocbt WLoadFull); apply (enter_pay_typed _ _ _ _ _ _ H)
  | H : guard_drop_frames ?p ?d = ?fs |- Forall _ ?fs =>
      rewrite <- H; apply (segok_nocbt WLoadFull); apply guard_drop_typed
  | H : guard_into_frames ?p ?d = ?fs |- Forall _ ?fs =>
      rewrite <- H; apply (segok_nocbt WLoadFull); apply guard_into_typed; reflexivity
  end.

Lemma cmd_start_otyped cf s l c s' l' stk r :
  cmd_start cf s l c = inl (s', l', stk, r) -> otyped stk.
Proof.
  intros Hc. destruct c; cbn in Hc; destr_in Hc; try discriminate; injection Hc as <- <- <- <-.
  all: try (cbn; intuition (reflexivity || discriminate); fail).
  all: try (apply otyped_push; [otyped_seg|reflexivity|cbn; intuition (reflexivity || discriminate)]; fail).
  all: match goal with |- otyped (?p :: ?l0 ++ ?bs) => change (otyped ((p :: l0) ++ bs)) end.
  all: apply otyped_push; [otyped_seg|reflexivity|cbn; intuition (reflexivity || discriminate)].
Qed.
