(** * ASModel.CchSafe (adaptation of Safe; Cache commands allowed) — C01: no step touches the count of a destroyed value, and no step faults.

    [no_dead_access]: in a state satisfying the accounting invariant [AccInv] (Acc), the
    protection invariant [ProtInv'] (Prot), [ValOK] (Safe1) and the program hypothesis
    [CloneSrc] (Safe7), the step of any frame of any running thread never answers
    [FDeadInc]/[FDeadDec]; handing a value down the stack ([unwind]) touches no count at all.
    [step_NoFault]: with the typing invariant ([Typed.Typed]: no [FBadChoice]) and a scheduler
    that offers fresh valid addresses to allocations ([alloc_ok]: no [FBadAlloc]), a state
    without faulted thread steps to a state without faulted thread.  This is the fact that all
    the step theorems of the other invariants assume ([NoFault] of the next state). *)
From Coq Require Import Lia.
From ASModel Require Import Base State Orderings_gen Step Run Progress Hist Inv InvTl InvProto InvStep Sum StepCases.
From ASModel Require Import GenDefs Gen1 Gen2.
From ASModel Require Import ProtDefs Prot1 Typed Safe1 Safe2 Safe3 Safe4 Safe7 Safe.
From ASModel Require Import CchDefs CchAcc1 CchAcc2 CchAcc3 CchAcc4 CchAcc5 CchAcc6 CchOwn CchAcc CchCmd CchSafe5 CchSafe6 CchSafe7.
From ASModel Require Prot11.

Theorem no_dead_access cf s t x p rest s1 l1 evs nx :
  AccInv s -> Prot11.ProtInv' s -> CacheH s -> CacheExclS s -> ValOK s -> CloneSrc s ->
  t_status (thr s t) = Running -> t_stack (thr s t) = p :: rest ->
  exec cf (sh s) (t_loc (thr s t)) p x = (s1, l1, evs, nx) ->
  forall a, nx <> NFault (FDeadInc a) /\ nx <> NFault (FDeadDec a).
Proof.
  intros AI PI CH CX VO CS Hr Hst He a.
  assert (H : ~ (nx = NFault (FDeadInc a) \/ nx = NFault (FDeadDec a))); [|tauto].
  intros Hn. destruct (exec_dead _ _ _ _ _ _ _ _ _ a He Hn) as [Hsite Hheap].
  pose proof (site_alive s t p rest a AI PI CH CX VO CS Hr Hst Hsite) as Hc.
  apply (ai_alive _ AI) in Hheap. lia.
Qed.

(** [unwind_fault], [alloc_ok], [rc_alloc_some] are those of Safe. *)
Theorem step_NoFault cf s t x :
  AccInv s -> Prot11.ProtInv' s -> CacheH s -> CacheExclS s -> ValOK s -> ASModel.Typed.Typed s -> CloneSrc s ->
  NoFault s -> alloc_ok s t x -> NoFault (fst (step cf s t x)).
Proof.
  intros AI PI CH CX VO TY CS NF AO t'.
  destruct (N.eq_dec t' t) as [->|Hne]; [|rewrite step_status_other by exact Hne; apply NF].
  destruct (step_cases cf s t x) as [E|c s1 l1 stk r Hr Hst Hc Hen Hcs E|n Hr Hst Hn E|Hr Hst Hn E|p rest s1 l1 evs nx Hr Hst He E];
    rewrite E.
  - apply NF.
  - cbn. rewrite upd_same. unfold start_thread. destruct stk; discriminate.
  - cbn. rewrite upd_same. discriminate.
  - cbn. rewrite upd_same. discriminate.
  - cbn [thr]. rewrite upd_same.
    destruct (no_bad_choice0 cf s t x p rest s1 l1 evs nx TY Hr Hst He) as [Hb1 Hb2].
    unfold thread_after. destruct nx as [p'|fs w|v|ps|f]; cbn [t_status]; try discriminate.
    + specialize (Hb2 v eq_refl). destruct (unwind cf l1 rest v) as [| | | |l2 f] eqn:Hu; cbn [t_status]; try discriminate.
      exfalso. apply (Hb2 l2). rewrite (unwind_fault cf rest l1 v l2 f Hu). reflexivity.
    + exfalso. destruct (exec_fault _ _ _ _ _ _ _ _ _ f He eq_refl) as [(a & Hd)|[(-> & Hp & Hnone)| ->]].
      * destruct (no_dead_access cf s t x p rest s1 l1 evs _ AI PI CH CX VO CS Hr Hst He a) as [H1 H2].
        destruct Hd as [->| ->]; [apply H1|apply H2]; reflexivity.
      * unfold alloc_ok in AO. rewrite Hst in AO.
        destruct Hp as [->|(c & m & v & d & ->)]; destruct AO as [A1 A2]; exact (rc_alloc_some _ _ A1 A2 Hnone).
      * apply Hb1. reflexivity.
Qed.

Print Assumptions no_dead_access.
Print Assumptions step_NoFault.
