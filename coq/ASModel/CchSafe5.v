(** * ASModel.CchSafe5 (copy of Safe5 for the extended table) — what a stack owns.

    Per frame: the references of the table [fr] (AccDefs) cover the frame's debt claims
    ([frame_claims], ProtDefs), the increment it owes ([fpend]) and — for the frame below a
    walk of [pay_all] — the reference of the removed value that the walk relies on
    ([PayShape]).  What is left over is OWNED by the frame: [own].  Summed over a stack:
    claims + owed + owned <= references. *)
From Coq Require Import Lia.
From ASModel Require Import Base State Orderings_gen Step Run Inv Sum.
From ASModel Require Import ProtDefs Safe3 Safe4 CchDefs CchAcc1.

Section Own.
Variable a : N.
Hypothesis Ha : valid a.

Definition claimsA (l : tlocal) (p : pc) : N := fsum (frame_claims l p) (isc a).
Definition payb (p : pc) : N := ind (pay_frame_of a p).
Definition hbf (p : pc) : N := ind (owns_old a p).
Definition own (m : loc -> N) (l : tlocal) (p : pc) : N :=
  fr a m p + payb p - (claimsA l p + fpend a p + hbf p).

Lemma frame_bal m l p : claimsA l p + fpend a p + hbf p <= fr a m p + payb p.
Proof.
  unfold claimsA, payb, hbf, pay_frame_of.
  destruct p; cbn [frame_claims claim_of_guard fpend owns_old pay_old fr fsum ret_refs isc snd ind];
    repeat match goal with
           | d : option slot |- _ => destruct d; cbn [frame_claims claim_of_guard fsum isc snd]
           | r : retval |- _ => destruct r; cbn [frame_claims claim_of_guard fsum isc snd ret_refs]
           end;
    unfold isc; cbn [snd]; unfold is, ind;
    repeat match goal with |- context [N.eqb ?x ?y] => destruct (N.eqb x y) end; lia.
Qed.

Lemma own_eq m l p : claimsA l p + fpend a p + hbf p + own m l p = fr a m p + payb p.
Proof. unfold own. pose proof (frame_bal m l p). lia. Qed.

Definition hbh (stk : list pc) : N := match stk with q :: _ => hbf q | [] => 0 end.

Lemma pay_below stk : pay_shape stk = true -> fsum stk payb + hbh stk <= fsum stk hbf.
Proof.
  induction stk as [|q rest IH]; intros Hs; [cbn; lia|].
  cbn [pay_shape] in Hs. apply andb_prop in Hs as [Hq Hr]. specialize (IH Hr). cbn [fsum hbh].
  enough (payb q + fsum rest payb <= fsum rest hbf) by lia.
  unfold payb at 1. unfold pay_frame_of. destruct (pay_old q) as [o|]; [|cbn [ind]; lia].
  destruct (N.eqb_spec o a) as [->|]; [|cbn [ind]; lia]. cbn [ind].
  assert (E0 : (a =? 0) = false) by (apply N.eqb_neq; apply Ha). rewrite E0 in Hq. cbn in Hq.
  destruct rest as [|q' rest']; [discriminate Hq|]. cbn [hbh] in IH. unfold hbf at 1 in IH. rewrite Hq in IH. cbn [ind] in IH. lia.
Qed.

Lemma srefs_fsum m stk : srefs a m stk = fsum stk (fr a m).
Proof. induction stk as [|p stk IH]; cbn; [reflexivity|]. rewrite IH. reflexivity. Qed.
Lemma spend_fsum stk : spend a stk = fsum stk (fpend a).
Proof. induction stk as [|p stk IH]; cbn; [reflexivity|]. rewrite IH. reflexivity. Qed.

(** The claims on [a] listed by a thread, the increment it owes and what its frames own are
    covered by the references of its frames. *)
Lemma stack_bal m l stk : pay_shape stk = true ->
  fsum (flat_map (frame_claims l) stk) (isc a) + spend a stk + fsum stk (own m l) <= srefs a m stk.
Proof.
  intros Hs. rewrite fsum_flat_map, srefs_fsum, spend_fsum. fold (claimsA l).
  assert (E : fsum stk (claimsA l) + fsum stk (fpend a) + fsum stk hbf + fsum stk (own m l)
              = fsum stk (fr a m) + fsum stk payb).
  { rewrite <- !fsum_add. apply fsum_ext. intros p _. apply own_eq. }
  pose proof (pay_below stk Hs). lia.
Qed.

Lemma own_in m l stk p : In p stk -> own m l p <= fsum stk (own m l).
Proof. apply fsum_in_le. Qed.
End Own.
