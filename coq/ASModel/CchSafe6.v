(** * ASModel.CchSafe6 — a lower bound for the count of a value (adaptation of Safe6 to the
    extended table of CchDefs).

    The new left-hand term — the handle [k] of a cache command in progress, cancelled by the
    bottom frame [KCacheDone c k] of the thread that runs it ([skd]) — is covered by the
    reference of that very handle: a cache handle never OWNS its reference for the purpose of
    this bound ([Ow] of a handle subtracts [hc]), and different threads run their cache
    commands on different handles ([Hinj]), so the sum of the cancelled references is at most
    the sum of what the cache handles hold ([LK_le]). *)
From Coq Require Import Lia.
From ASModel Require Import Base State Orderings_gen Step Run Inv Sum.
From ASModel Require Import ProtDefs Safe3 Safe4 CchDefs CchAcc1 CchSafe5.

(** A duplicate-free list inside another one sums to at most as much. *)
Lemma fsum_incl_le {A} (f : A -> N) : forall (M d : list A),
  List.NoDup M -> incl M d -> fsum M f <= fsum d f.
Proof.
  induction M as [|x M IH]; intros d Nd Hi; [cbn; lia|].
  inversion Nd as [|? ? Hx Nd']; subst.
  destruct (in_split x d (Hi x (or_introl eq_refl))) as (d1 & d2 & ->).
  assert (Hi' : incl M (d1 ++ d2)).
  { intros y Hy. specialize (Hi y (or_intror Hy)). apply in_app_or in Hi as [Hi|[Hi|Hi]].
    - apply in_or_app. left. exact Hi.
    - subst y. contradiction.
    - apply in_or_app. right. exact Hi. }
  specialize (IH (d1 ++ d2) Nd' Hi'). rewrite fsum_app in *. cbn [fsum]. lia.
Qed.

Section Lower.
Variable a : N.
Hypothesis Ha : valid a.
Variable s : state.
Hypothesis HA : Acc_at a s.
Hypothesis HS : PayShape s.
Hypothesis HC : SlotClaimed s.

(** What a cache handle holds. *)
Definition hc (h : handle) : N := match h with HCache _ x => is a x | _ => 0 end.

(** [ck t]: the handle of the cache command that thread [t] runs. *)
Variable ck : N -> option N.
Hypothesis Hck : forall t, skd a (hnd s) (t_stack (thr s t)) =
                           match ck t with Some k => hc (hnd s k) | None => 0 end.
Hypothesis Hinj : forall t t' k, ck t = Some k -> ck t' = Some k -> t = t'.

Definition isat (sl : slot) : N := is a (mem (sh s) (slot_loc sl)).

Definition LS (i : idx) : N := match i with ISlot n j => isat (n, j) | _ => 0 end.
Definition LP (i : idx) : N := match i with IThread t => spend a (t_stack (thr s t)) | _ => 0 end.
Definition LK (i : idx) : N := match i with IThread t => skd a (hnd s) (t_stack (thr s t)) | _ => 0 end.
Definition HK (i : idx) : N := match i with IHandle h => hc (hnd s h) | _ => 0 end.

(** What index [i] owns. *)
Definition Ow (i : idx) : N :=
  match i with
  | IThread t => fsum (t_stack (thr s t)) (own a (mem (sh s)) (t_loc (thr s t)))
  | IHandle h => href a (hnd s h) - Cw a s i - hc (hnd s h)
  | _ => Rw a s i
  end.

Lemma handle_claims_le h : fsum (handle_claims h) (isc a) + hc h <= href a h.
Proof.
  destruct h as [|x|x d|c x]; cbn; try lia. destruct d; cbn; unfold isc; cbn; lia.
Qed.

Lemma idx_bal i : Cw a s i + LP i + HK i + Ow i <= Rw a s i.
Proof.
  destruct i as [n j|c|w|t|h]; cbn [Cw cls LP HK Ow Rw fsum]; try lia.
  - unfold Cw. cbn [cls]. unfold stack_claims.
    pose proof (stack_bal a Ha (mem (sh s)) (t_loc (thr s t)) (t_stack (thr s t)) (HS t)). lia.
  - unfold Cw. cbn [cls]. pose proof (handle_claims_le (hnd s h)) as H. lia.
Qed.

Lemma Lw_split i : Lw a s i = LS i + LP i + LK i.
Proof. destruct i; cbn [Lw LS LP LK]; unfold isat, slot_loc; cbn [fst snd]; lia. Qed.

(** The cancelled references, as a sum over distinct cache handles. *)
Lemma LK_handles : forall dl, List.NoDup dl ->
  exists M, List.NoDup M /\
            (forall k, In k M -> hc (hnd s k) <> 0 /\ exists t, In (IThread t) dl /\ ck t = Some k) /\
            fsum dl LK = fsum M (fun k => hc (hnd s k)).
Proof.
  induction dl as [|i dl IH]; intros Nd.
  - exists []. split; [constructor|]. split; [intros k []|reflexivity].
  - inversion Nd as [|? ? Hi Nd']; subst. destruct (IH Nd') as (M & NM & HM & EM).
    assert (Hskip : LK i = 0 -> exists M0, List.NoDup M0 /\
              (forall k, In k M0 -> hc (hnd s k) <> 0 /\ exists t, In (IThread t) (i :: dl) /\ ck t = Some k) /\
              fsum (i :: dl) LK = fsum M0 (fun k => hc (hnd s k))).
    { intros E0. exists M. split; [exact NM|]. split.
      - intros k Hk. destruct (HM k Hk) as (H1 & t & H2 & H3). split; [exact H1|]. exists t. split; [right; exact H2|exact H3].
      - cbn [fsum]. rewrite E0, EM. reflexivity. }
    destruct i as [n j|c|w|t|h]; try (apply Hskip; reflexivity).
    destruct (ck t) as [k|] eqn:Ek; [|apply Hskip; cbn [LK]; rewrite Hck, Ek; reflexivity].
    destruct (N.eq_dec (hc (hnd s k)) 0) as [E0|E0]; [apply Hskip; cbn [LK]; rewrite Hck, Ek; exact E0|].
    exists (k :: M). split; [|split].
    + constructor; [|exact NM]. intros Hk. destruct (HM k Hk) as (_ & t' & H2 & H3).
      rewrite (Hinj t t' k Ek H3) in Hi. contradiction.
    + intros k' [<-|Hk'].
      * split; [exact E0|]. exists t. split; [left; reflexivity|exact Ek].
      * destruct (HM k' Hk') as (H1 & t' & H2 & H3). split; [exact H1|]. exists t'. split; [right; exact H2|exact H3].
    + cbn [fsum LK]. rewrite Hck, Ek, EM. reflexivity.
Qed.

Lemma hc_le_href h : hc h <= href a h.
Proof. destruct h; cbn; lia. Qed.

Lemma LK_le d : List.NoDup d -> (forall k, Rw a s k <> 0 -> In k d) -> fsum d LK <= fsum d HK.
Proof.
  intros Nd Hcov. destruct (LK_handles d Nd) as (M & NM & HM & EM). rewrite EM.
  assert (E : fsum M (fun k => hc (hnd s k)) = fsum (map IHandle M) HK).
  { clear. induction M as [|k M IH]; cbn; [reflexivity|]. rewrite IH. reflexivity. }
  rewrite E. apply fsum_incl_le.
  - apply FinFun.Injective_map_NoDup; [intros x y [= ->]; reflexivity|exact NM].
  - intros i Hi. apply in_map_iff in Hi as (k & <- & Hk). apply Hcov. cbn [Rw].
    destruct (HM k Hk) as [H1 _]. pose proof (hc_le_href (hnd s k)). lia.
Qed.
Lemma claimant_in d i sl : (forall k, Rw a s k <> 0 -> In k d) -> In (sl, a) (cls s i) -> In i d.
Proof.
  intros Hd Hc. apply Hd. pose proof (Cw_in a s i sl Hc). pose proof (idx_bal i). lia.
Qed.

(** Every slot that holds [a] is hit by a claim of the domain. *)
Lemma isat_occ d sl : (forall k, Rw a s k <> 0 -> In k d) -> isat sl <= occ a s d sl.
Proof.
  intros Hd. unfold isat, is, ind, slot_loc. destruct sl as [n j]. cbn [fst snd].
  destruct (N.eqb_spec (mem (sh s) (LSlot n j)) a) as [E|]; [|lia].
  destruct (HC n j a Ha E) as [(t & Hin)|(h & Hin)].
  - apply (occ_one a s d (IThread t) (n, j)); [|exact Hin]. eapply claimant_in; [exact Hd|exact Hin].
  - apply (occ_one a s d (IHandle h) (n, j)); [|exact Hin]. eapply claimant_in; [exact Hd|exact Hin].
Qed.

Theorem count_ge (extra : list idx) (e : slot -> N) :
  (forall d, List.NoDup d -> (forall k, In k extra -> In k d) -> (forall k, Rw a s k <> 0 -> In k d) ->
             forall sl, In sl (slots_of d) -> isat sl + e sl <= occ a s d sl) ->
  exists d, (forall k, In k extra -> In k d) /\
            fsum (slots_of d) e + fsum d Ow <= mem (sh s) (LCount a).
Proof.
  intros He. destruct HA as (nL & nR & TL & TR & E).
  destruct (Total_common (Lw a s) (Rw a s) nL nR extra TL TR) as (d & Nd & Hex & _ & Hcov & EL & ER).
  exists d. split; [exact Hex|]. specialize (He d Nd Hex Hcov).
  assert (E1 : fsum d (Lw a s) = fsum (slots_of d) isat + fsum d LP + fsum d LK).
  { rewrite (fsum_ext d (Lw a s) (fun i => LS i + LP i + LK i)) by (intros; apply Lw_split).
    rewrite !fsum_add. f_equal. f_equal. unfold LS. apply fsum_slots. }
  assert (E2 : fsum d (Cw a s) + fsum d LP + fsum d HK + fsum d Ow <= fsum d (Rw a s)).
  { rewrite <- !fsum_add. apply fsum_le. intros i _. apply idx_bal. }
  pose proof (LK_le d Nd Hcov) as E4.
  assert (E3 : fsum (slots_of d) (fun sl => isat sl + e sl) <= fsum d (Cw a s)).
  { etransitivity; [|apply (occ_le a s d (slots_of d)); apply slots_of_nodup; exact Nd].
    apply fsum_le. exact He. }
  rewrite fsum_add in E3. lia.
Qed.

(** (A) Somebody owns a reference. *)
Theorem count_owner i : 1 <= Ow i -> 1 <= mem (sh s) (LCount a).
Proof.
  intros Hi. destruct (count_ge [i] (fun _ => 0)) as (d & Hex & Hle).
  - intros d Nd Hex Hcov sl _. rewrite N.add_0_r. apply isat_occ. exact Hcov.
  - pose proof (fsum_in_le d Ow i (Hex i (or_introl eq_refl))). lia.
Qed.

(** (B) A claim on a slot that does not hold the value, or that somebody else claims too. *)
Lemma count_surplus (extra : list idx) n j :
  (forall d, List.NoDup d -> (forall k, In k extra -> In k d) -> (forall k, Rw a s k <> 0 -> In k d) ->
             isat (n, j) + 1 <= occ a s d (n, j)) ->
  1 <= mem (sh s) (LCount a).
Proof.
  intros Hs.
  set (e := fun sl : slot => ind (slot_eqb sl (n, j))).
  destruct (count_ge (ISlot n j :: extra) e) as (d & Hex & Hle).
  - intros d Nd Hex Hcov sl _. unfold e. destruct (slot_eqb sl (n, j)) eqn:Esl; cbn [ind].
    + apply slot_eqb_eq in Esl. subst sl. apply Hs; [exact Nd| |exact Hcov]. intros k Hk. apply Hex. right. exact Hk.
    + rewrite N.add_0_r. apply isat_occ. exact Hcov.
  - assert (Hin : In (n, j) (slots_of d)) by (apply in_slots_of; apply Hex; left; reflexivity).
    pose proof (fsum_in_le (slots_of d) e (n, j) Hin) as H. unfold e at 1 in H.
    rewrite (proj2 (slot_eqb_eq (n, j) (n, j)) eq_refl) in H. cbn [ind] in H. lia.
Qed.

Theorem count_claim_free i0 n j :
  In ((n, j), a) (cls s i0) -> mem (sh s) (LSlot n j) <> a -> 1 <= mem (sh s) (LCount a).
Proof.
  intros Hc Hne. apply (count_surplus [i0] n j). intros d Nd Hex Hcov.
  assert (Hi0 : In i0 d) by (apply Hex; left; reflexivity).
  unfold isat, is, ind, slot_loc. cbn [fst snd]. destruct (N.eqb_spec (mem (sh s) (LSlot n j)) a); [contradiction|].
  pose proof (occ_one a s d i0 (n, j) Hi0 Hc). lia.
Qed.

Theorem count_claim_two i0 i1 n j :
  In ((n, j), a) (cls s i0) -> In ((n, j), a) (cls s i1) -> i1 <> i0 -> 1 <= mem (sh s) (LCount a).
Proof.
  intros Hc Hc1 Hne. apply (count_surplus [i0; i1] n j). intros d Nd Hex Hcov.
  assert (Hi0 : In i0 d) by (apply Hex; left; reflexivity).
  assert (Hi1 : In i1 d) by (apply Hex; right; left; reflexivity).
  pose proof (occ_two a s d i1 i0 (n, j) Nd Hi1 Hi0 Hne Hc1 Hc).
  pose proof (is_le1 a (mem (sh s) (slot_loc (n, j)))). unfold isat. lia.
Qed.
End Lower.
