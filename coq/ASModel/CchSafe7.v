(** * ASModel.CchSafe7 (adaptation of Safe7 to the extended accounting; Cache commands allowed) — no count access meets a destroyed value (C01).

    [site p]: the address whose count the frame [p] is about to touch.  In a state that
    satisfies the accounting invariant ([AccInv]), the protection invariant ([ProtInv']) and
    [ValOK], the count of that address is positive, hence ([Alive]) the value is alive. *)
From Coq Require Import Lia.
From ASModel Require Import Base State Orderings_gen Step Run Progress Hist Inv InvTl InvProto InvStep Sum StepCases.
From ASModel Require Import GenDefs Gen1 Gen2.
From ASModel Require Import ProtDefs Prot1 Safe1 Safe2 Safe3 Safe4.
(* [site], [exec_dead], [exec_fault], [CloneSrc], [unconfirmed_claim], [site_valid], [top_claim] are those of Safe7 *)
From ASModel Require Import Safe7.
From ASModel Require Import CchDefs CchAcc1 CchAcc2 CchAcc3 CchAcc4 CchAcc5 CchAcc6 CchOwn CchAcc CchCmd CchSafe5 CchSafe6.
(** ** What the frames at the count sites own *)
Definition osite (p : pc) : option N :=
  match p with
  | LA6 _ v | LH6c v | LH10 v _ | PDec v _ | P1 _ v | PSi _ v _ _ | P6 _ v | PE9 _ _ _ _ v
  | RInc _ _ v None => Some v
  | _ => None
  end.

Lemma own_site a m l p : valid a -> osite p = Some a -> 1 <= own a m l p.
Proof.
  intros Ha Hs. unfold own, claimsA, payb, hbf, pay_frame_of.
  destruct p; try discriminate Hs;
    repeat match goal with d : option slot |- _ => destruct d; try discriminate Hs end;
    injection Hs as ->;
    cbn [frame_claims claim_of_guard fpend owns_old pay_old fr fsum ret_refs isc snd ind];
    repeat match goal with
           | r : retval |- _ => destruct r; cbn [frame_claims claim_of_guard fsum isc snd ret_refs]
           | d : option slot |- _ => destruct d; cbn [frame_claims claim_of_guard fsum isc snd ret_refs]
           end;
    unfold isc; cbn [snd]; rewrite ?is_same; rewrite ?N.eqb_refl; cbn [ind]; unfold is, ind;
    repeat match goal with |- context [N.eqb ?x ?y] => destruct (N.eqb x y) end; lia.
Qed.

Lemma own_pay a m l q : pay_frame_of a q = true -> 1 <= own a m l q.
Proof.
  intros Hq. unfold own, claimsA, payb, hbf. rewrite Hq. unfold pay_frame_of in Hq.
  destruct q; try discriminate Hq; cbn [pay_old] in Hq; apply N.eqb_eq in Hq; subst;
    cbn [frame_claims claim_of_guard fpend owns_old fr fsum ind]; rewrite ?is_same; unfold is, ind;
    repeat match goal with |- context [N.eqb ?x ?y] => destruct (N.eqb x y) end; lia.
Qed.

(** ** The cache command of a thread *)
Definition ckf (s : state) (t : N) : option N :=
  match last (t_stack (thr s t)) GHead with KCacheDone _ k => Some k | _ => None end.

Lemma skd_last a hn stk : typed stk -> skd a hn stk = kd a hn (last stk GHead).
Proof.
  induction stk as [|p rest IH]; intros Ht; [reflexivity|]. destruct Ht as (_ & Hl & Ht).
  destruct rest as [|w rest']; [cbn; lia|]. cbn in Hl. destruct Hl as [Hb _].
  change (skd a hn (p :: w :: rest')) with (kd a hn p + skd a hn (w :: rest')).
  change (last (p :: w :: rest') GHead) with (last (w :: rest') GHead).
  rewrite (nonbottom_kd a hn p Hb), (IH Ht). reflexivity.
Qed.

Lemma last_in {A} (d : A) : forall l, l <> [] -> In (last l d) l.
Proof.
  induction l as [|x l IH]; intros H; [congruence|]. destruct l as [|y l']; [left; reflexivity|].
  right. apply IH. discriminate.
Qed.

Lemma ckf_in s t k : ckf s t = Some k -> exists c, In (KCacheDone c k) (t_stack (thr s t)).
Proof.
  unfold ckf. intros H. destruct (t_stack (thr s t)) as [|p rest] eqn:Hs; [discriminate H|].
  pose proof (last_in GHead (p :: rest) ltac:(discriminate)) as Hin.
  destruct (last (p :: rest) GHead); try discriminate H. injection H as ->. eauto.
Qed.

Lemma ckf_skd a s : Typed s -> CacheH s -> forall t,
  skd a (hnd s) (t_stack (thr s t)) = match ckf s t with Some k => hc a (hnd s k) | None => 0 end.
Proof.
  intros TY CH t. rewrite (skd_last a (hnd s) _ (TY t)).
  destruct (ckf s t) as [k|] eqn:Ek.
  - destruct (ckf_in s t k Ek) as (c & Hin). unfold ckf in Ek.
    destruct (last (t_stack (thr s t)) GHead); try discriminate Ek. injection Ek as ->. cbn [kd].
    destruct (CH t c k Hin) as [->|(c' & a' & ->)]; reflexivity.
  - unfold ckf in Ek. destruct (last (t_stack (thr s t)) GHead); try reflexivity. discriminate Ek.
Qed.

Lemma ckf_inj s : CacheExclS s -> forall t t' k, ckf s t = Some k -> ckf s t' = Some k -> t = t'.
Proof.
  intros CX t t' k H1 H2. destruct (N.eq_dec t t') as [E|Hne]; [exact E|exfalso].
  destruct (ckf_in s t k H1) as (c & Hin). destruct (ckf_in s t' k H2) as (c' & Hin').
  exact (proj1 (CX t t' c' k Hne Hin') _ Hin eq_refl).
Qed.

(** ** The count of a claimed value is positive *)
Section Alive.
Variable s : state.
Hypothesis AI : AccInv s.
Hypothesis PI : Prot11.ProtInv' s.
Hypothesis CH : CacheH s.
Hypothesis CX : CacheExclS s.

Lemma owner_alive a i : valid a -> 1 <= Ow a s i -> 1 <= mem (sh s) (LCount a).
Proof.
  intros Ha. apply (count_owner a Ha s (ai_acc _ AI a Ha) (Prot11.q_shape _ PI) (Prot11.q_claimed _ PI)
                      (ckf s) (ckf_skd a s (ai_typed _ AI) CH) (ckf_inj s CX)).
Qed.

Lemma frame_owner_alive a t q : valid a -> In q (t_stack (thr s t)) ->
  1 <= own a (mem (sh s)) (t_loc (thr s t)) q -> 1 <= mem (sh s) (LCount a).
Proof.
  intros Ha Hin Hq. apply (owner_alive a (IThread t) Ha). cbn [Ow].
  etransitivity; [exact Hq|]. apply own_in. exact Hin.
Qed.

Lemma claim_alive a i0 n j : valid a ->
  In ((n, j), a) (cls s i0) ->
  (forall t', i0 = IThread t' -> unconfirmed_top n j a (thr s t') = false) ->
  1 <= mem (sh s) (LCount a).
Proof.
  intros Ha Hc Hun.
  pose proof (ai_acc _ AI a Ha) as HA. pose proof (Prot11.q_shape _ PI) as HS. pose proof (Prot11.q_claimed _ PI) as HC.
  pose proof (ckf_skd a s (ai_typed _ AI) CH) as K1. pose proof (ckf_inj s CX) as K2.
  destruct (N.eq_dec (mem (sh s) (LSlot n j)) a) as [E|E].
  2:{ exact (count_claim_free a Ha s HA HS HC (ckf s) K1 K2 i0 n j Hc E). }
  destruct (Prot11.q_prot _ PI n j a Ha E) as [(t' & Hu)|[(c & Hst)|(t' & q & Hin & Hq & _)]].
  - apply (count_claim_two a Ha s HA HS HC (ckf s) K1 K2 i0 (IThread t') n j Hc).
    + cbn [cls]. apply unconfirmed_claim. exact Hu.
    + intros <-. rewrite (Hun t' eq_refl) in Hu. discriminate Hu.
  - apply (owner_alive a (IStore c) Ha). cbn [Ow Rw]. rewrite Hst, is_same. lia.
  - apply (frame_owner_alive a t' q Ha Hin). apply own_pay. exact Hq.
Qed.
End Alive.

Theorem site_alive s t p rest a :
  AccInv s -> Prot11.ProtInv' s -> CacheH s -> CacheExclS s -> ValOK s -> CloneSrc s ->
  t_status (thr s t) = Running -> t_stack (thr s t) = p :: rest -> site p = Some a ->
  1 <= mem (sh s) (LCount a).
Proof.
  intros AI PI CH CX VO CS Hr Hst Hsite.
  assert (Hp : pc_vok p = true).
  { pose proof (v_stk _ VO t) as H. rewrite Hst in H. cbn in H. apply andb_prop in H as [H _]. exact H. }
  pose proof (site_valid p a Hp Hsite) as Ha.
  assert (Hnu : forall n j, match p with LA4 _ _ _ | LA5 _ _ _ | LH5 _ _ _ | LH7 _ _ | LH8 _ _ _ | LH9 _ _ => False | _ => True end ->
                forall t', IThread t = IThread t' -> unconfirmed_top n j a (thr s t') = false).
  { intros n j Hnp t' [= <-]. destruct (unconfirmed_top n j a (thr s t)) eqn:Hu; [|reflexivity].
    pose proof (unconfirmed_top_frame _ _ _ _ _ _ Hst Hu) as H. destruct p; try contradiction; destruct Hnp. }
  destruct (osite p) as [a'|] eqn:Hos.
  - assert (a' = a) by (destruct p; try discriminate Hos; cbn in Hsite, Hos; destr_in Hos; congruence). subst a'.
    apply (frame_owner_alive s AI PI CH CX a t p Ha); [rewrite Hst; left; reflexivity|]. apply own_site; assumption.
  - destruct p; try discriminate Hsite; try discriminate Hos; injection Hsite as ->.
    + (* LH6a *)
      apply (claim_alive s AI PI CH CX a (IThread t) (own_node (t_loc (thr s t))) HSLOT Ha).
      * cbn [cls]. eapply top_claim; [exact Hst|]. left. reflexivity.
      * apply Hnu. exact I.
    + (* GI1 *)
      destruct sl as [n j]. apply (claim_alive s AI PI CH CX a (IThread t) n j Ha).
      * cbn [cls]. eapply top_claim; [exact Hst|]. left. reflexivity.
      * apply Hnu. exact I.
    + (* RInc with a debt *)
      destruct d as [[n j]|]; [|discriminate Hos].
      apply (claim_alive s AI PI CH CX a (IThread t) n j Ha).
      * cbn [cls]. eapply top_claim; [exact Hst|]. left. reflexivity.
      * apply Hnu. exact I.
    + (* CloneInc *)
      destruct (CS t a rest Hr Hst) as (h & [Hh|([[n j]|] & Hh)]).
      * apply (owner_alive s AI PI CH CX a (IHandle h) Ha). cbn [Ow]. unfold Cw. cbn [cls]. rewrite Hh. cbn. rewrite is_same. lia.
      * apply (claim_alive s AI PI CH CX a (IHandle h) n j Ha); [|discriminate]. cbn [cls]. rewrite Hh. left. reflexivity.
      * apply (owner_alive s AI PI CH CX a (IHandle h) Ha). cbn [Ow]. unfold Cw. cbn [cls]. rewrite Hh. cbn. rewrite is_same. lia.
Qed.
