(** * ASModel.CchWF — the static condition [handles_disjoint] of ProgWF1 (every handle is used by
    the commands of one thread only) gives the cache-handle hypothesis [CacheExcl] of CchMain in
    every state of every run. *)
From Coq Require Import Lia.
From ASModel Require Import Base State Orderings_gen Step Run Progress Hist Inv InvTl InvProto InvStep Sum StepCases.
From ASModel Require Import GenDefs Gen1 Gen2 Gen Prot11 Lin2 ProgWF1 ProgWF2.
From ASModel Require Import CchDefs CchAcc1 CchAcc2 CchAcc3 CchAcc4 CchMain.

Lemma run_prog cf inits progs : forall sched t,
  t_prog (thr (run_state cf (init_state inits progs) sched) t) = nth (N.to_nat t) progs [].
Proof.
  intros sched. induction sched as [|[t0 x] sched IH] using rev_ind; intros t.
  - apply init_state_prog.
  - rewrite run_state_snoc. cbn [fst snd]. rewrite step_prog. apply IH.
Qed.

Lemma mods_in_uses cm k : In k (cmd_mods cm) -> In k (cmd_uses cm).
Proof.
  unfold cmd_mods, cmd_uses, dst_hs. intros H. apply in_app_or in H as [H|H].
  - destruct cm; cbn [cmd_hs] in H; try (destruct H; fail); cbn [cmd_reads cmd_kills cmd_dst sv_hs app].
    + destruct H as [<-|[]]. right. left. reflexivity.
    + destruct H as [<-|[]]. left. reflexivity.
    + destruct (decide (h = h2)) as [->|?]; cbn in H; intuition (subst; cbn; auto).
    + destruct v; cbn in H |- *; intuition.
    + destruct v; cbn in H |- *; intuition.
    + destruct new; cbn in H; [destruct H|]. destruct H as [<-|[]].
      apply in_or_app. right. apply in_or_app. left. left. reflexivity.
    + destruct (decide (h = h2)) as [->|?]; cbn in H; intuition (subst; cbn; auto).
  - apply in_or_app. right. apply in_or_app. right. exact H.
Qed.

Theorem handles_disjoint_CacheExcl cf inits progs sched :
  handles_disjoint progs -> CacheExcl (run_state cf (init_state inits progs) sched).
Proof.
  intros HD t t' cm cm' k Hne _ Hc' Hon _ Hc Hk.
  rewrite run_prog in Hc, Hc'.
  apply (HD (N.to_nat t) (N.to_nat t') k); [lia| |].
  - eapply uses_in_prog; [exact Hc|]. apply mods_in_uses. exact Hk.
  - eapply uses_in_prog; [exact Hc'|]. apply dst_in_uses.
    destruct Hon as [(c & ->)| ->]; reflexivity.
Qed.

Print Assumptions handles_disjoint_CacheExcl.
