(** * ASModel.Env — [EnvInv] (EnvDefs) is an inductive invariant: every hand-over envelope is in
    exactly one place ([EX]), a helper between reading its offer and the exchange still owns
    the envelope it fills ([MineA]) and the envelope keeps the replacement ([EnvA]).

    [EnvInv] is preserved by every step of a state that satisfies [GenInvQ] (Gen) and [Calm].
    Its consequence [EnvFree] needs one more fact that neither [WF2] nor [EnvInv] provide:
    the control words of nodes that do not exist yet are still zero ([CtlFresh], Env4);
    [EnvFree] quantifies over the control words of all node indices. *)
From Coq Require Import Lia ZArith.
From ASModel Require Import Base State Orderings_gen Step Run Progress Hist Inv InvTl InvProto InvStep Sum StepCases GenDefs Gen1 Gen2 Gen3 Gen EnvDefs Env1 Env2 Env3 Env4 Env5 Env6.

(** ** The initial state *)
Theorem EnvInv_init inits progs : EnvInv (init_state inits progs).
Proof.
  assert (Hth : forall t0, t_stack (thr (init_state inits progs) t0) = []).
  { intros t0. cbn. apply init_threads_stack. cbn. auto. }
  assert (Hnn : nn (init_state inits progs) = 0).
  { unfold nn. cbn. rewrite init_stores_other by discriminate. reflexivity. }
  constructor.
  - intros e k1 k2 T1 _. exfalso. destruct k1 as [n|w|t|t].
    + destruct T1 as (H & _). rewrite Hnn in H. lia.
    + destruct T1 as (H & _). rewrite Hnn in H. lia.
    + apply tok_read_iff in T1. rewrite Hth in T1. discriminate.
    + apply tok_help_iff in T1. rewrite Hth in T1. discriminate.
  - apply MineA_iff. intros t n mine _ H. rewrite Hth in H. discriminate.
  - apply EnvA_iff. intros t r mine H. rewrite Hth in H. discriminate.
Qed.

(** ** One step *)
Theorem step_EnvInv cf s t x :
  Calm s -> GenInvQ s -> EnvInv s -> NoFault (fst (step cf s t x)) -> EnvInv (fst (step cf s t x)).
Proof.
  intros Hcalm [W Q GI] EI Hnf.
  destruct (step_cases cf s t x) as [E|c s1 l1 stk r Hr Hs Hc Hen Hcs E|n Hr Hs Hn E|Hr Hs Hn E|p rest s1 l1 evs nx Hr Hs He E].
  - rewrite E. exact EI.
  - (* a command starts *)
    rewrite E. destruct (cmd_start_effect _ _ _ _ _ _ _ _ Hcs) as (Hthr & Hnode & Hmem & _).
    destruct (start_thread_fields (thr s t) l1 stk) as (F1 & _).
    apply (quiet_step s _ t W EI).
    + intros t' Hne. cbn. rewrite upd_other by exact Hne. rewrite Hthr. reflexivity.
    + unfold nn. cbn. apply Hmem. discriminate.
    + intros k _. cbn. apply Hmem. discriminate.
    + intros k _. left. cbn. apply Hmem. discriminate.
    + intros k. cbn. apply Hmem. discriminate.
    + rewrite Hs. reflexivity.
    + cbn. rewrite upd_same, F1. eapply cmd_start_hdq. exact Hcs.
  - (* the thread function returns, the node is given up *)
    rewrite E. apply (quiet_step s _ t W EI); try reflexivity; auto.
    + intros t' Hne. cbn. apply upd_other. exact Hne.
    + rewrite Hs. reflexivity.
    + cbn. rewrite upd_same. reflexivity.
  - rewrite E. apply (quiet_step s _ t W EI); try reflexivity; auto.
    + intros t' Hne. cbn. apply upd_other. exact Hne.
    + rewrite Hs. reflexivity.
    + cbn. rewrite upd_same. exact I.
  - (* a frame step *)
    rewrite E. eapply exec_EnvInv; eassumption.
Qed.

(** ** Control words of future nodes stay zero *)
Theorem step_CtlFresh cf s t x :
  WF2 s -> Quiet s -> CtlFresh s -> CtlFresh (fst (step cf s t x)).
Proof.
  intros W Q F.
  destruct (step_cases cf s t x) as [E|c s1 l1 stk r Hr Hs Hc Hen Hcs E|n Hr Hs Hn E|Hr Hs Hn E|p rest s1 l1 evs nx Hr Hs He E].
  - rewrite E. exact F.
  - rewrite E. destruct (cmd_start_effect _ _ _ _ _ _ _ _ Hcs) as (_ & _ & Hmem & _).
    intros w. unfold nn. cbn. rewrite !Hmem by discriminate. apply F.
  - rewrite E. exact F.
  - rewrite E. exact F.
  - rewrite E. intros w. unfold nn. cbn. intros Hw.
    pose proof (exec_head _ _ _ _ _ _ _ _ _ He) as H4. pose proof (exec_ctrl _ _ _ _ _ _ _ _ _ He) as H2.
    assert (Hin : In p (t_stack (thr s t))) by (rewrite Hs; left; reflexivity).
    pose proof (all_frames_ok s t p W Q Hin) as Hok.
    assert (Hown : in_with p = true -> own_node (t_loc (thr s t)) < nn s).
    { intros Hi. destruct (top_owner s t p rest W Q Hs Hi) as (_ & n & Ho & Hlt & _).
      rewrite (own_node_owner _ _ Ho). exact Hlt. }
    assert (Hsame : mem s1 LHead = mem (sh s) LHead -> mem s1 (LCtrl w) = mem (sh s) (LCtrl w) -> mem s1 (LCtrl w) = IDLE).
    { intros A B. rewrite B. apply F. unfold nn. rewrite <- A. exact Hw. }
    destruct p; try (apply Hsame; [exact H4|apply H2]; fail).
    + (* GPush *)
      destruct (exec_GPush _ _ _ _ _ _ _ _ _ He) as [(E1 & _)|(Hh & E1 & _)].
      * rewrite E1 in *. apply F. exact Hw.
      * rewrite E1 in *. rewrite node_init_head in Hw. cbn in Hw. rewrite upd_same in Hw. unfold node_val in Hw.
        rewrite node_init_ctrl. destruct (decide (w = head)); [reflexivity|]. cbn. rewrite upd_other by discriminate.
        apply F. unfold nn. lia.
    + apply Hsame; [exact H4|]. apply H2. specialize (Hown eq_refl). unfold nn in Hown. lia.
    + apply Hsame; [exact H4|]. apply H2. specialize (Hown eq_refl). unfold nn in Hown. lia.
    + apply Hsame; [exact H4|]. apply H2. cbn in Hok. unfold nn in Hok. lia.
Qed.

(** ** The invariant with everything it rests on *)
Record EnvInvQ (s : state) : Prop := {
  eq_gen : GenInvQ s;
  eq_env : EnvInv s;
  eq_fresh : CtlFresh s;
}.

Theorem EnvInvQ_init inits progs :
  (forall p, In p progs -> forall g, ~ In (CSetGen g) p) -> EnvInvQ (init_state inits progs).
Proof. intros H. constructor; [apply GenInvQ_init; exact H|apply EnvInv_init|apply CtlFresh_init]. Qed.

Theorem step_EnvInvQ cf s t x :
  Calm s -> EnvInvQ s -> NoFault (fst (step cf s t x)) -> EnvInvQ (fst (step cf s t x)).
Proof.
  intros Hc [G EI F] Hnf. constructor.
  - apply step_GenInvQ; assumption.
  - apply step_EnvInv; assumption.
  - apply step_CtlFresh; [apply G|apply G|exact F].
Qed.

(** The consequences used by the accounting proof. *)
Theorem EnvInv_EnvFree s : WF2 s -> Quiet s -> CtlFresh s -> EnvInv s -> EnvFree s.
Proof. exact (EnvInv_EnvFree_fresh s). Qed.

Theorem EnvInvQ_EnvFree s : EnvInvQ s -> EnvFree s.
Proof. intros [[W Q _] EI F]. apply EnvInv_EnvFree; assumption. Qed.

Theorem EnvInvQ_EnvA s : EnvInvQ s -> EnvA s.
Proof. intros [_ EI _]. apply EI. Qed.

(** ** Runs *)
Theorem run_EnvInvQ cf : forall sched s,
  EnvInvQ s ->
  (forall k, Calm (run_state cf s (firstn k sched))) ->
  NoFault (run_state cf s sched) ->
  EnvInvQ (run_state cf s sched).
Proof.
  induction sched as [|[t x] sched IH]; intros s EQ Hc Hnf; [exact EQ|].
  rewrite run_state_cons in *. apply IH.
  - apply step_EnvInvQ; [exact (Hc 0%nat)|exact EQ|]. eapply NoFault_run_back. exact Hnf.
  - intros k. exact (Hc (S k)).
  - exact Hnf.
Qed.

(** In every run from an initial state in which no thread faults and every state is [Calm],
    [EnvInv] holds at the end (hence, applying the theorem to prefixes, in every state). *)
Theorem run_EnvInv cf inits progs sched :
  (forall p, In p progs -> forall g, ~ In (CSetGen g) p) ->
  (forall k, Calm (run_state cf (init_state inits progs) (firstn k sched))) ->
  NoFault (run_state cf (init_state inits progs) sched) ->
  EnvInv (run_state cf (init_state inits progs) sched).
Proof.
  intros Hp Hc Hnf. apply eq_env. apply run_EnvInvQ; [apply EnvInvQ_init; exact Hp|exact Hc|exact Hnf].
Qed.

(** The same with [GenBound] (no generation counter within one step of wrapping) in place of
    [Calm]: its other half is a property of the programs. *)
Theorem run_EnvInv_bound cf inits progs sched :
  (forall p, In p progs -> forall g, ~ In (CSetGen g) p) ->
  (forall k, GenBound (run_state cf (init_state inits progs) (firstn k sched))) ->
  NoFault (run_state cf (init_state inits progs) sched) ->
  EnvInvQ (run_state cf (init_state inits progs) sched).
Proof.
  intros Hp Hb Hnf. apply run_EnvInvQ; [apply EnvInvQ_init; exact Hp| |exact Hnf].
  intros k. apply Calm_split. split; [apply Hb|]. apply NoSetGen_run. apply NoSetGen_init. exact Hp.
Qed.

Theorem run_EnvInv_run cf inits progs sched :
  (forall p, In p progs -> forall g, ~ In (CSetGen g) p) ->
  (forall k, Calm (fst (run cf (init_state inits progs) (firstn k sched)))) ->
  NoFault (fst (run cf (init_state inits progs) sched)) ->
  EnvInvQ (fst (run cf (init_state inits progs) sched)).
Proof.
  intros Hp Hc Hnf. rewrite run_fst in *. apply run_EnvInvQ; [apply EnvInvQ_init; exact Hp| |exact Hnf].
  intros k. rewrite <- run_fst. apply Hc.
Qed.

Theorem run_EnvFree cf inits progs sched :
  (forall p, In p progs -> forall g, ~ In (CSetGen g) p) ->
  (forall k, GenBound (run_state cf (init_state inits progs) (firstn k sched))) ->
  NoFault (run_state cf (init_state inits progs) sched) ->
  EnvFree (run_state cf (init_state inits progs) sched) /\ EnvA (run_state cf (init_state inits progs) sched).
Proof.
  intros Hp Hb Hnf. pose proof (run_EnvInv_bound cf inits progs sched Hp Hb Hnf) as H.
  split; [apply EnvInvQ_EnvFree; exact H|apply EnvInvQ_EnvA; exact H].
Qed.

Print Assumptions EnvInv_init.
Print Assumptions step_EnvInv.
Print Assumptions step_CtlFresh.
Print Assumptions step_EnvInvQ.
Print Assumptions run_EnvInvQ.
Print Assumptions run_EnvInv.
Print Assumptions run_EnvInv_bound.
Print Assumptions run_EnvInv_run.
Print Assumptions EnvInv_EnvFree.
Print Assumptions EnvInvQ_EnvFree.
Print Assumptions run_EnvFree.
