(** * ASModel.Env1 — tools for the envelope invariant of [EnvDefs]: which frames can be on
    top of a stack after a step (the frames that matter for envelopes — [LH7], [LH8], [PE6],
    [PE7], [PE8] — are entered from their predecessor only), and the effect of a frame step
    on control words and envelopes. *)
From Coq Require Import Lia ZArith Zify ZifyClasses ZifyBool ZifyN.
From ASModel Require Import Base State Orderings_gen Step Run Progress Hist Inv InvTl InvProto InvStep Sum StepCases GenDefs Gen1 Gen2 Gen3 Gen EnvDefs.

(** ** Frames that hold no envelope and make no claim about one *)
Definition eq_pc (p : pc) : bool :=
  match p with
  | LH7 _ _ | LH8 _ _ _ | PE6 _ _ _ _ _ _ _ | PE7 _ _ _ _ _ _ _ | PE8 _ _ _ _ => false
  | _ => true
  end.

Definition hdq (fs : list pc) : Prop := match fs with p :: _ => eq_pc p = true | [] => True end.

Lemma hdq_app fs ws : hdq fs -> hdq ws -> hdq (fs ++ ws).
Proof. destruct fs; cbn; auto. Qed.

Lemma with_exit_hdq l r l' nx : with_exit l r = (l', nx) -> hdq (nx_frames nx).
Proof. unfold with_exit. intros H. destr_in H; injection H as <- <-; cbn; auto. Qed.

Lemma fallback_entry_hdq cf l c l' nx : fallback_entry cf l c = (l', nx) -> hdq (nx_frames nx).
Proof. unfold fallback_entry. intros H. destr_in H; injection H as <- <-; cbn; auto. Qed.

Lemma gen_step_hdq cf l c l' nx : gen_step cf l c = (l', nx) -> hdq (nx_frames nx).
Proof. unfold gen_step. intros H. destr_in H; injection H as <- <-; cbn; auto. Qed.

Lemma load_body_hdq cf l c l' nx : load_body cf l c = (l', nx) -> hdq (nx_frames nx).
Proof.
  unfold load_body. destruct (cf_use_fast cf); [|apply fallback_entry_hdq].
  intros [= <- <-]. reflexivity.
Qed.

Lemma enter_load_hdq cf l c l' fs : enter_load cf l c = inl (l', fs) -> hdq fs.
Proof.
  unfold enter_load. intros H. destruct (tl_node l).
  - destruct (load_body cf (tl_set_depth l (tl_depth l + 1)) c) as [l2 nx] eqn:Hb.
    apply load_body_hdq in Hb. destruct nx; try discriminate. injection H as <- <-. exact Hb.
  - injection H as <- <-. reflexivity.
Qed.

Lemma enter_pay_hdq l c old l' fs : enter_pay l c old = (l', fs) -> hdq fs.
Proof. unfold enter_pay, pay_body. intros H. destr_in H; injection H as <- <-; reflexivity. Qed.

Lemma guard_drop_hdq p d : hdq (guard_drop_frames p d).
Proof. unfold guard_drop_frames. destruct d; [|destruct (p =? 0)]; cbn; auto. Qed.
Lemma guard_into_hdq p d : hdq (guard_into_frames p d).
Proof. unfold guard_into_frames. destruct d; [destruct (p =? 0)|]; cbn; auto. Qed.

Lemma dec_then_hdq a r : hdq (nx_frames (dec_then a r)).
Proof. unfold dec_then. destruct (a =? 0); cbn; auto. Qed.

Lemma help_dispatch_hdq cf l c old w ctl : hdq (nx_frames (help_dispatch cf l c old w ctl)).
Proof.
  destruct (help_dispatch_cases cf l c old w ctl) as [H|[->|[_ ->]]]; [|reflexivity..].
  destruct (help_dispatch cf l c old w ctl); try contradiction; exact I.
Qed.

Lemma after_slot_hdq c old w j : hdq (nx_frames (after_slot c old w j)).
Proof. destruct (after_slot_cases c old w j) as [->| ->]; reflexivity. Qed.

Lemma rcu_attempt_hdq cf l c m p d l' nx : rcu_attempt cf l c m p d = (l', nx) -> hdq (nx_frames nx).
Proof.
  intros He. unfold rcu_attempt in He. destr_in He; try discriminate; injection He as <- <-; cbn [nx_frames].
  all: try reflexivity; try exact I.
  all: try (match goal with
            | H : enter_load _ _ _ = inl (_, ?fs) |- hdq ((?fs ++ _) ++ _) =>
                apply enter_load_hdq in H; apply hdq_app; [apply hdq_app; [exact H|reflexivity]|reflexivity]
            | H : guard_drop_frames ?v ?d = ?fs |- hdq (?fs ++ _) =>
                apply hdq_app; [rewrite <- H; apply guard_drop_hdq|reflexivity]
            end).
Qed.

(** ** The frames on top after a frame step, a resume, a command start *)
Definition estep_pc (p : pc) : bool :=
  match p with
  | LH5 _ _ _ | LH7 _ _ | PE5 _ _ _ _ _ _ | PE6 _ _ _ _ _ _ _ | PE7 _ _ _ _ _ _ _ => true
  | _ => false
  end.

Ltac hdq_close :=
  match goal with
  | H : with_exit _ _ = (_, ?n) |- hdq (nx_frames ?n) => exact (with_exit_hdq _ _ _ _ H)
  | H : fallback_entry _ _ _ = (_, ?n) |- hdq (nx_frames ?n) => exact (fallback_entry_hdq _ _ _ _ _ H)
  | H : gen_step _ _ _ = (_, ?n) |- hdq (nx_frames ?n) => exact (gen_step_hdq _ _ _ _ _ H)
  | H : load_body _ _ _ = (_, ?n) |- hdq (nx_frames ?n) => exact (load_body_hdq _ _ _ _ _ H)
  | H : rcu_attempt _ _ _ _ _ _ = (_, ?n) |- hdq (nx_frames ?n) => exact (rcu_attempt_hdq _ _ _ _ _ _ _ _ H)
  | |- hdq (nx_frames (help_dispatch _ _ _ _ _ _)) => apply help_dispatch_hdq
  | |- hdq (nx_frames (after_slot _ _ _ _)) => apply after_slot_hdq
  | |- hdq (nx_frames (dec_then _ _)) => apply dec_then_hdq
  | H : enter_load _ _ _ = inl (_, ?fs) |- hdq (nx_frames (NPush (?fs ++ _) _)) =>
      apply enter_load_hdq in H; cbn [nx_frames]; apply hdq_app; [apply hdq_app; [exact H|reflexivity]|reflexivity]
  | H : enter_load _ _ _ = inl (_, ?fs) |- hdq (nx_frames (NPush ?fs _)) =>
      apply enter_load_hdq in H; cbn [nx_frames]; apply hdq_app; [exact H|reflexivity]
  | H : enter_pay _ _ _ = (_, ?fs) |- hdq (nx_frames (NPush ?fs _)) =>
      apply enter_pay_hdq in H; cbn [nx_frames]; apply hdq_app; [exact H|reflexivity]
  | H : guard_drop_frames ?v ?d = ?fs |- hdq (nx_frames (NPush ?fs _)) =>
      cbn [nx_frames]; apply hdq_app; [rewrite <- H; apply guard_drop_hdq|reflexivity]
  | H : guard_into_frames ?v ?d = ?fs |- hdq (nx_frames (NPush ?fs _)) =>
      cbn [nx_frames]; apply hdq_app; [rewrite <- H; apply guard_into_hdq|reflexivity]
  end.

Lemma exec_hdq cf s l p x s' l' evs nx :
  estep_pc p = false -> exec cf s l p x = (s', l', evs, nx) -> hdq (nx_frames nx).
Proof.
  intros Hsp He. destruct p; try discriminate Hsp; clear Hsp; exec_norm He.
  all: try hdq_close.
  all: try (cbn; reflexivity || exact I).
Qed.

Lemma resume_hdq cf l w v l' nx : resume cf l w v = (l', nx) -> hdq (nx_frames nx).
Proof.
  intros He. destruct w; unfold resume in He; destr_in He; try discriminate.
  all: try hdq_close.
  all: try (injection He as <- <-).
  all: try hdq_close.
  all: try (cbn; unfold pay_body; try destruct (_ =? 0); reflexivity || exact I).
  pose proof (guard_into_hdq p d) as HG. rewrite Heql0 in HG. exact HG.
Qed.

Lemma cmd_start_hdq cf s l c s' l' stk r : cmd_start cf s l c = inl (s', l', stk, r) -> hdq stk.
Proof.
  intros Hc. destruct c; cbn in Hc; destr_in Hc; try discriminate; injection Hc as <- <- <- <-.
  all: repeat match goal with
         | H : enter_load _ _ _ = inl (_, _) |- _ => apply enter_load_hdq in H
         | H : enter_pay _ _ _ = (_, _) |- _ => apply enter_pay_hdq in H
         end.
  all: try (cbn; reflexivity || exact I).
  all: try (apply hdq_app; [assumption|reflexivity]).
  all: try (match goal with
            | H : guard_drop_frames ?v ?d = ?fs |- hdq (?f :: ?fs' ++ _) =>
                pose proof (guard_drop_hdq v d) as HG; rewrite H in HG; exact HG
            | H : guard_into_frames ?v ?d = ?fs |- hdq (?f :: ?fs' ++ _) =>
                pose proof (guard_into_hdq v d) as HG; rewrite H in HG; exact HG
            end).
Qed.

Lemma settle_hdq cf l rest nx l2 stk st :
  settle cf l rest nx l2 stk st -> hdq (nx_frames nx) -> hdq stk.
Proof.
  induction 1 as [l rest p|l rest fs w|l v|l v b post Hb Hne|l v post|l v w rest l' nx l'' stk st Hb Hr Hs IH];
    intros Hq; try exact I.
  - exact Hq.
  - cbn [nx_frames] in Hq. destruct fs; exact Hq.
  - apply IH. eapply resume_hdq. exact Hr.
Qed.

(** A stack with a quiet top holds nothing. *)
Definition busy_s (stk : list pc) : bool :=
  match stk with LH7 _ _ :: _ | LH8 _ _ _ :: _ | PE8 _ _ _ _ :: _ => true | _ => false end.
Definition reads_s (stk : list pc) : option N :=
  match stk with LH7 _ e :: _ | LH8 _ e _ :: _ => Some e | _ => None end.
Definition helps_s (stk : list pc) : option N :=
  match stk with PE8 _ _ _ v :: _ => Some v | _ => None end.
Definition pe67_s (stk : list pc) : option N :=
  match stk with PE6 _ _ _ _ _ _ mine :: _ | PE7 _ _ _ _ _ _ mine :: _ => Some mine | _ => None end.
Definition pe7_s (stk : list pc) : option (N * N) :=
  match stk with PE7 _ _ _ _ r _ mine :: _ => Some (r, mine) | _ => None end.

Lemma hdq_none stk : hdq stk ->
  busy_s stk = false /\ reads_s stk = None /\ helps_s stk = None /\ pe67_s stk = None /\ pe7_s stk = None.
Proof. destruct stk as [|p rest]; [cbn; auto|]. destruct p; cbn; intros H; try discriminate H; auto. Qed.

Lemma busy_none stk : busy_s stk = false -> reads_s stk = None /\ helps_s stk = None.
Proof. destruct stk as [|p rest]; [cbn; auto|]. destruct p; cbn; intros H; try discriminate H; auto. Qed.

(** ** Memory effects on control words and envelopes *)
Lemma node_init_env s n k : mem (node_init s n) (LEnv k) = if decide (k = n) then 0 else mem s (LEnv k).
Proof.
  unfold node_init. cbn. destruct (decide (k = n)) as [->|Hne].
  - repeat (rewrite upd_other by discriminate). rewrite upd_same. reflexivity.
  - repeat (rewrite upd_other by (discriminate || congruence)). reflexivity.
Qed.

Lemma exec_ctrl cf s l p x s' l' evs nx :
  exec cf s l p x = (s', l', evs, nx) ->
  match p with
  | LH2 _ _ | LH5 _ _ _ => forall k, k <> own_node l -> mem s' (LCtrl k) = mem s (LCtrl k)
  | PE7 _ _ w _ _ _ _ => forall k, k <> w -> mem s' (LCtrl k) = mem s (LCtrl k)
  | GPush h => forall k, mem s' (LCtrl k) = mem s (LCtrl k) \/ (mem s LHead = h /\ k = h)
  | _ => forall k, mem s' (LCtrl k) = mem s (LCtrl k)
  end.
Proof.
  intros He. destruct p; exec_norm He; intros k0; mem_simp; try reflexivity.
  all: try (intros Hne; rewrite upd_other by congruence; reflexivity).
  - rewrite node_init_ctrl. destruct (decide (k0 = head)) as [->|Hne].
    + right. apply andb_prop in Heqb as [Hh _]. apply N.eqb_eq in Hh. auto.
    + left. mem_simp. reflexivity.
  - left. reflexivity.
Qed.

Lemma exec_env cf s l p x s' l' evs nx :
  exec cf s l p x = (s', l', evs, nx) ->
  match p with
  | PE6 _ _ _ _ _ _ mine => forall k, k <> env_of mine -> mem s' (LEnv k) = mem s (LEnv k)
  | GPush h => forall k, mem s' (LEnv k) = mem s (LEnv k) \/ (mem s LHead = h /\ k = h)
  | _ => forall k, mem s' (LEnv k) = mem s (LEnv k)
  end.
Proof.
  intros He. destruct p; exec_norm He; intros k0; mem_simp; try reflexivity.
  all: try (intros Hne; rewrite upd_other by congruence; reflexivity).
  - rewrite node_init_env. destruct (decide (k0 = head)) as [->|Hne].
    + right. apply andb_prop in Heqb as [Hh _]. apply N.eqb_eq in Hh. auto.
    + left. mem_simp. reflexivity.
  - left. reflexivity.
Qed.

Lemma exec_head cf s l p x s' l' evs nx :
  exec cf s l p x = (s', l', evs, nx) ->
  match p with
  | GPush h => mem s' LHead = mem s LHead \/ (mem s LHead = h /\ mem s' LHead = h + 1)
  | _ => mem s' LHead = mem s LHead
  end.
Proof.
  intros He. destruct p; exec_norm He; mem_simp; try reflexivity.
  - right. rewrite node_init_head. cbn. rewrite upd_same.
    apply andb_prop in Heqb as [Hh _]. apply N.eqb_eq in Hh. unfold node_val. auto.
  - left. reflexivity.
Qed.
