(** * ASModel.Env2 — the tokens of [EnvDefs] in terms of the top frame; moving tokens between
    two states ([EX_move], [tok_back], [tok_frame]); frame lemmas for [MineA], [EnvA]. *)
From Coq Require Import Lia ZArith Zify ZifyClasses ZifyBool ZifyN.
From ASModel Require Import Base State Orderings_gen Step Run Progress Hist Inv InvTl InvProto InvStep Sum StepCases GenDefs Gen1 Gen2 Gen3 Gen EnvDefs Env1.

Global Instance etok_eq_dec : EqDecision etok.
Proof. solve_decision. Defined.

Definition nrepl (v : N) : Prop := N.land v TAG_MASK <> REPLACEMENT_TAG.

Lemma env_val_inj e e' : env_val e = env_val e' -> e = e'.
Proof. unfold env_val. lia. Qed.

Lemma env_of_env_val e : env_of (env_val e) = e.
Proof. unfold env_of, env_val. rewrite N.mul_comm, N.div_mul by discriminate. lia. Qed.

Lemma repl_not_nrepl e : ~ nrepl (env_val e + 1).
Proof. unfold nrepl. rewrite env_val_land. auto. Qed.

Lemma nrepl_idle : nrepl IDLE.
Proof. unfold nrepl. cbn. discriminate. Qed.

Lemma nrepl_gen v : is_gen v -> nrepl v.
Proof. unfold nrepl, is_gen. intros ->. discriminate. Qed.

(** ** Tokens and the top frame *)
Lemma offer_valid_iff s n :
  offer_valid s n <->
  nrepl (mem (sh s) (LCtrl n)) /\ forall t, owner (thr s t) = Some n -> busy_s (t_stack (thr s t)) = false.
Proof.
  unfold offer_valid, nrepl. split; intros [H1 H2]; (split; [exact H1|]); intros t Ho; specialize (H2 t Ho).
  - destruct (t_stack (thr s t)) as [|p rest]; [reflexivity|]. destruct p; try reflexivity; contradiction.
  - destruct (t_stack (thr s t)) as [|p rest]; [exact I|]. destruct p; try exact I; discriminate.
Qed.

Lemma tok_read_iff s e t : tok_holds s e (TRead t) <-> reads_s (t_stack (thr s t)) = Some e.
Proof.
  cbn. split.
  - intros (cand & rest & [H|(r & H)]); rewrite H; reflexivity.
  - destruct (t_stack (thr s t)) as [|p rest]; [discriminate|].
    destruct p; cbn; try discriminate; intros [= ->]; eexists _, _; eauto.
Qed.

Lemma tok_help_iff s e t : tok_holds s e (THelp t) <-> helps_s (t_stack (thr s t)) = Some (env_val e).
Proof.
  cbn. split.
  - intros (c & old & w & rest & H); rewrite H; reflexivity.
  - destruct (t_stack (thr s t)) as [|p rest]; [discriminate|].
    destruct p; cbn; try discriminate; intros [= ->]; eexists _, _, _, _; eauto.
Qed.

Lemma tok_offer_iff s e n :
  tok_holds s e (TOffer n) <->
  n < nn s /\ mem (sh s) (LOffer n) = env_val e /\ nrepl (mem (sh s) (LCtrl n)) /\
  forall t, owner (thr s t) = Some n -> busy_s (t_stack (thr s t)) = false.
Proof. cbn. rewrite offer_valid_iff. tauto. Qed.

Lemma MineA_iff s :
  MineA s <-> forall t n mine, owner (thr s t) = Some n -> pe67_s (t_stack (thr s t)) = Some mine ->
                               mem (sh s) (LOffer n) = mine.
Proof.
  unfold MineA. split.
  - intros H t n mine Ho Hp. destruct (t_stack (thr s t)) as [|p rest] eqn:Hs; [discriminate|].
    destruct p; cbn in Hp; try discriminate; injection Hp as ->; eapply H; eauto.
  - intros H t n c old w ctl r their mine rest Ho [Hs|Hs]; apply (H t n mine Ho); rewrite Hs; reflexivity.
Qed.

Lemma EnvA_iff s :
  EnvA s <-> forall t r mine, pe7_s (t_stack (thr s t)) = Some (r, mine) -> mem (sh s) (LEnv (env_of mine)) = r.
Proof.
  unfold EnvA. split.
  - intros H t r mine Hp. destruct (t_stack (thr s t)) as [|p rest] eqn:Hs; [discriminate|].
    destruct p; cbn in Hp; try discriminate; injection Hp as -> ->; eapply H; eauto.
  - intros H t c old w ctl r their mine rest Hs. apply (H t r mine). rewrite Hs. reflexivity.
Qed.

(** ** Moving tokens *)
Lemma EX_move s s' (f : etok -> etok) :
  EX s ->
  (forall e k, tok_holds s' e k -> tok_holds s e (f k)) ->
  (forall e k1 k2, tok_holds s' e k1 -> tok_holds s' e k2 -> f k1 = f k2 -> k1 = k2) ->
  EX s'.
Proof.
  intros X H1 H2 e k1 k2 T1 T2. apply (H2 e); [exact T1|exact T2|].
  apply (X e); apply H1; assumption.
Qed.

Lemma tok_back s s' t e k :
  (forall t', t' <> t -> thr s' t' = thr s t') ->
  match k with
  | TOffer m => m < nn s /\ mem (sh s') (LOffer m) = mem (sh s) (LOffer m) /\
                (nrepl (mem (sh s') (LCtrl m)) -> nrepl (mem (sh s) (LCtrl m))) /\
                (owner (thr s t) = Some m -> busy_s (t_stack (thr s t)) = false)
  | TCtl w => w < nn s /\ mem (sh s') (LCtrl w) = mem (sh s) (LCtrl w)
  | TRead t0 | THelp t0 => t0 <> t
  end ->
  tok_holds s' e k -> tok_holds s e k.
Proof.
  intros Hoth Hk T. destruct k as [m|w|t0|t0].
  - destruct Hk as (Hlt & Hoff & Hnr & Hown). apply tok_offer_iff in T as (_ & T1 & T2 & T3).
    apply tok_offer_iff. split; [exact Hlt|]. split; [congruence|]. split; [auto|].
    intros t1 Ho. destruct (N.eq_dec t1 t) as [->|Hne]; [auto|].
    rewrite <- (Hoth t1 Hne) in *. auto.
  - destruct Hk as (Hlt & Hc). destruct T as (_ & T). split; [exact Hlt|congruence].
  - apply tok_read_iff in T. apply tok_read_iff. rewrite <- (Hoth t0 Hk). exact T.
  - apply tok_help_iff in T. apply tok_help_iff. rewrite <- (Hoth t0 Hk). exact T.
Qed.

(** ** Facts from [WF2] *)
Lemma top_owner s t p rest :
  WF2 s -> Quiet s -> t_stack (thr s t) = p :: rest -> in_with p = true ->
  t_status (thr s t) = Running /\
  exists n, owner (thr s t) = Some n /\ n < nn s /\
            top_ok (nn s) (mem (sh s)) (t_loc (thr s t)) n (Some p).
Proof.
  intros W Q Hs Hi.
  assert (Hr : t_status (thr s t) = Running) by (eapply in_running; [exact Q|rewrite Hs; left; reflexivity]).
  split; [exact Hr|].
  destruct (running_stk_ok s t W Hr) as [Htl _]. rewrite Hs in Htl. destruct Htl as (_ & _ & _ & Hnn & _).
  unfold owner. destruct (tl_node (t_loc (thr s t))) as [n|] eqn:Hn.
  - exists n. split; [reflexivity|].
    assert (Hh : holder (thr s t) = Some n) by (unfold holder; rewrite Hn; reflexivity).
    split; [exact (w_lt _ W _ _ Hh)|]. pose proof (w_top _ W t n Hr Hh) as Ht. rewrite Hs in Ht. exact Ht.
  - exfalso. apply Hnn; [|reflexivity]. cbn. rewrite (in_with_not_bottom _ Hi), Hi. lia.
Qed.

Lemma tok_bound s e k : WF2 s -> Quiet s -> tok_holds s e k -> e < nn s.
Proof.
  intros W Q T. destruct k as [n|w|t|t].
  - destruct T as (Hlt & Hoff & _). destruct (w_off _ W n Hlt) as (e' & He' & Hv).
    rewrite Hoff in Hv. apply env_val_inj in Hv. subst. exact He'.
  - destruct T as (Hlt & Hc). destruct (w_ctl _ W w Hlt) as [Hi|[Hg|(e' & He' & Hv)]].
    + rewrite Hc in Hi. unfold env_val, IDLE in Hi. lia.
    + unfold is_gen in Hg. rewrite Hc, env_val_land in Hg. discriminate.
    + rewrite Hc in Hv. assert (e = e') by (apply env_val_inj; lia). subst. exact He'.
  - apply tok_read_iff in T. destruct (t_stack (thr s t)) as [|p rest] eqn:Hs; [discriminate|].
    destruct p; cbn in T; try discriminate; injection T as ->.
    + destruct (top_owner s t _ _ W Q Hs eq_refl) as (_ & n & _ & _ & Ht). cbn in Ht. tauto.
    + destruct (top_owner s t _ _ W Q Hs eq_refl) as (_ & n & _ & _ & Ht). cbn in Ht. tauto.
  - apply tok_help_iff in T. destruct (t_stack (thr s t)) as [|p rest] eqn:Hs; [discriminate|].
    destruct p; cbn in T; try discriminate; injection T as ->.
    assert (Hin : In (PE8 c old w (env_val e)) (t_stack (thr s t))) by (rewrite Hs; left; reflexivity).
    pose proof (all_frames_ok s t _ W Q Hin) as Hok. cbn in Hok. destruct Hok as (_ & e' & He' & Hv).
    apply env_val_inj in Hv. subst. exact He'.
Qed.

(** ** A step that moves no token *)
Lemma tok_frame s s' t :
  (forall t', t' <> t -> thr s' t' = thr s t') ->
  nn s' = nn s ->
  (forall k, k < nn s -> mem (sh s') (LOffer k) = mem (sh s) (LOffer k)) ->
  (forall k, k < nn s -> mem (sh s') (LCtrl k) = mem (sh s) (LCtrl k) \/
                         (nrepl (mem (sh s') (LCtrl k)) /\ nrepl (mem (sh s) (LCtrl k)))) ->
  reads_s (t_stack (thr s' t)) = reads_s (t_stack (thr s t)) ->
  helps_s (t_stack (thr s' t)) = helps_s (t_stack (thr s t)) ->
  busy_s (t_stack (thr s' t)) = busy_s (t_stack (thr s t)) ->
  (busy_s (t_stack (thr s t)) = false \/ owner (thr s' t) = owner (thr s t)) ->
  forall e k, tok_holds s' e k -> tok_holds s e k.
Proof.
  intros Hoth Hnn Hoff Hctl Hrd Hhp Hbz Hown e k T. destruct k as [m|w|t0|t0].
  - pose proof T as T0. apply tok_offer_iff in T0 as (Hlt & _ & _ & Hb). rewrite Hnn in Hlt.
    apply (tok_back s s' t e (TOffer m) Hoth); [|exact T].
    split; [exact Hlt|]. split; [apply Hoff; exact Hlt|]. split.
    + destruct (Hctl m Hlt) as [-> |[_ H]]; auto.
    + intros Ho. destruct Hown as [H|H]; [exact H|]. rewrite <- Hbz. apply Hb. rewrite H. exact Ho.
  - pose proof T as (Hlt & Hc). rewrite Hnn in Hlt.
    apply (tok_back s s' t e (TCtl w) Hoth); [|exact T]. split; [exact Hlt|].
    destruct (Hctl w Hlt) as [H|[H _]]; [exact H|]. rewrite Hc in H. exfalso. exact (repl_not_nrepl _ H).
  - destruct (N.eq_dec t0 t) as [->|Hne]; [|apply (tok_back s s' t e (TRead t0) Hoth); assumption].
    apply tok_read_iff. apply tok_read_iff in T. congruence.
  - destruct (N.eq_dec t0 t) as [->|Hne]; [|apply (tok_back s s' t e (THelp t0) Hoth); assumption].
    apply tok_help_iff. apply tok_help_iff in T. congruence.
Qed.

Lemma EX_frame s s' : EX s -> (forall e k, tok_holds s' e k -> tok_holds s e k) -> EX s'.
Proof. intros X H. apply (EX_move s s' (fun k => k) X H). auto. Qed.

(** ** Frame lemmas for the helper's assertions *)
Lemma MineA_upd s s' t :
  MineA s -> (forall t', t' <> t -> thr s' t' = thr s t') ->
  (forall t' n, t' <> t -> owner (thr s t') = Some n -> mem (sh s') (LOffer n) = mem (sh s) (LOffer n)) ->
  (forall n mine, owner (thr s' t) = Some n -> pe67_s (t_stack (thr s' t)) = Some mine ->
                  mem (sh s') (LOffer n) = mine) ->
  MineA s'.
Proof.
  intros M Hoth Hoff Ht. apply MineA_iff. intros t0 n mine Ho Hp.
  destruct (N.eq_dec t0 t) as [->|Hne]; [apply Ht; assumption|].
  rewrite (Hoth t0 Hne) in Ho, Hp. rewrite (Hoff t0 n Hne Ho). exact (proj1 (MineA_iff s) M t0 n mine Ho Hp).
Qed.

Lemma EnvA_upd s s' t :
  EnvA s -> (forall t', t' <> t -> thr s' t' = thr s t') ->
  (forall t' r mine, t' <> t -> pe7_s (t_stack (thr s t')) = Some (r, mine) ->
                     mem (sh s') (LEnv (env_of mine)) = mem (sh s) (LEnv (env_of mine))) ->
  (forall r mine, pe7_s (t_stack (thr s' t)) = Some (r, mine) -> mem (sh s') (LEnv (env_of mine)) = r) ->
  EnvA s'.
Proof.
  intros A Hoth Henv Ht. apply EnvA_iff. intros t0 r mine Hp.
  destruct (N.eq_dec t0 t) as [->|Hne]; [apply Ht; assumption|].
  rewrite (Hoth t0 Hne) in Hp. rewrite (Henv t0 r mine Hne Hp). exact (proj1 (EnvA_iff s) A t0 r mine Hp).
Qed.

(** A helper between [PE6] and [PE7] holds the token of the envelope it fills. *)
Lemma pe67_token s t mine :
  WF2 s -> Quiet s -> MineA s -> pe67_s (t_stack (thr s t)) = Some mine ->
  exists n e, owner (thr s t) = Some n /\ mine = env_val e /\ tok_holds s e (TOffer n).
Proof.
  intros W Q M Hp. destruct (t_stack (thr s t)) as [|p rest] eqn:Hs; [discriminate|].
  assert (Hin : In p (t_stack (thr s t))) by (rewrite Hs; left; reflexivity).
  pose proof (all_frames_ok s t _ W Q Hin) as Hok.
  assert (Hi : in_with p = true) by (destruct p; try discriminate Hp; reflexivity).
  destruct (top_owner s t p rest W Q Hs Hi) as (Hr & n & Ho & Hlt & Ht).
  assert (Hidle : node_idle (mem (sh s)) n) by (destruct p; try discriminate Hp; exact Ht).
  assert (Hm : exists e, e < nn s /\ mine = env_val e).
  { destruct p; try discriminate Hp; cbn in Hp, Hok; injection Hp as ->; tauto. }
  destruct Hm as (e & _ & ->). exists n, e. split; [exact Ho|]. split; [reflexivity|].
  apply tok_offer_iff. split; [exact Hlt|]. split.
  - apply (proj1 (MineA_iff s) M t n _ Ho). rewrite Hs. exact Hp.
  - split; [rewrite (proj1 Hidle); apply nrepl_idle|].
    intros t1 Ho1. assert (t1 = t) as -> by (eapply owner_unique; eassumption).
    rewrite Hs. destruct p; try discriminate Hp; reflexivity.
Qed.

Lemma pe67_distinct s t t' mine mine' :
  WF2 s -> Quiet s -> EX s -> MineA s ->
  pe67_s (t_stack (thr s t)) = Some mine -> pe67_s (t_stack (thr s t')) = Some mine' ->
  env_of mine' = env_of mine -> t' = t.
Proof.
  intros W Q X M H1 H2 He.
  destruct (pe67_token s t mine W Q M H1) as (n & e & Ho & -> & T).
  destruct (pe67_token s t' mine' W Q M H2) as (n' & e' & Ho' & -> & T').
  rewrite !env_of_env_val in He. subst e'.
  pose proof (X e _ _ T T') as E. injection E as <-. eapply owner_unique; eassumption.
Qed.
