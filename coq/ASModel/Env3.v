(** * ASModel.Env3 — the five ways a token moves (a reader takes the envelope named by its
    control word; a reader or a helper adopts an envelope as its new offer; a helper publishes
    its envelope and takes the reader's; a new node brings a new envelope), stated for abstract
    pairs of states. *)
From Coq Require Import Lia ZArith Zify ZifyClasses ZifyBool ZifyN.
From ASModel Require Import Base State Orderings_gen Step Run Progress Hist Inv InvTl InvProto InvStep Sum StepCases GenDefs Gen1 Gen2 Gen3 Gen EnvDefs Env1 Env2.

Lemma reads_busy stk e : reads_s stk = Some e -> busy_s stk = true.
Proof. destruct stk as [|p rest]; [discriminate|]. destruct p; cbn; try discriminate; reflexivity. Qed.
Lemma helps_busy stk v : helps_s stk = Some v -> busy_s stk = true.
Proof. destruct stk as [|p rest]; [discriminate|]. destruct p; cbn; try discriminate; reflexivity. Qed.

Section Moves.
  Variables (s s' : state) (t : N).
  Hypothesis Hoth : forall t', t' <> t -> thr s' t' = thr s t'.
  Hypothesis X : EX s.

  (** In [s'] the acting thread holds no token of its own. *)
  Lemma no_read e : reads_s (t_stack (thr s' t)) = None -> ~ tok_holds s' e (TRead t).
  Proof. intros H T. apply tok_read_iff in T. congruence. Qed.
  Lemma no_help e : helps_s (t_stack (thr s' t)) = None -> ~ tok_holds s' e (THelp t).
  Proof. intros H T. apply tok_help_iff in T. congruence. Qed.
  Lemma no_offer e n : owner (thr s' t) = Some n -> busy_s (t_stack (thr s' t)) = true -> ~ tok_holds s' e (TOffer n).
  Proof. intros Ho Hb T. apply tok_offer_iff in T as (_ & _ & _ & H). rewrite (H t Ho) in Hb. discriminate. Qed.

  (** [LH5] finds a replacement: [TCtl n] becomes [TRead t]. *)
  Lemma EX_take n e :
    nn s' = nn s -> owner (thr s t) = Some n -> owner (thr s' t) = Some n -> n < nn s ->
    reads_s (t_stack (thr s' t)) = Some e -> helps_s (t_stack (thr s' t)) = None ->
    mem (sh s) (LCtrl n) = env_val e + 1 -> mem (sh s') (LCtrl n) = IDLE ->
    (forall k, k <> n -> mem (sh s') (LCtrl k) = mem (sh s) (LCtrl k)) ->
    (forall k, mem (sh s') (LOffer k) = mem (sh s) (LOffer k)) ->
    EX s'.
  Proof.
    intros Hnn Ho Ho' Hlt Hrd Hhp Hc Hc' Hcs Hoff.
    pose proof (reads_busy _ _ Hrd) as Hbz.
    assert (Hidle : forall e0, ~ tok_holds s' e0 (TCtl n)).
    { intros e0 (_ & H). rewrite Hc' in H. unfold env_val, IDLE in H. lia. }
    apply (EX_move s s' (fun k => if decide (k = TRead t) then TCtl n else k) X).
    - intros e0 k T. destruct (decide (k = TRead t)) as [->|Hk].
      + apply tok_read_iff in T. rewrite Hrd in T. injection T as <-. split; assumption.
      + apply (tok_back s s' t e0 k Hoth); [|exact T]. destruct k as [m|w|t0|t0].
        * destruct (N.eq_dec m n) as [->|Hmn]; [exfalso; exact (no_offer e0 n Ho' Hbz T)|].
          destruct T as (Hm & _). rewrite Hnn in Hm. split; [exact Hm|]. split; [apply Hoff|].
          split; [rewrite Hcs by exact Hmn; auto|]. intros E. congruence.
        * destruct (N.eq_dec w n) as [->|Hwn]; [exfalso; exact (Hidle e0 T)|].
          destruct T as (Hw & _). rewrite Hnn in Hw. split; [exact Hw|apply Hcs; exact Hwn].
        * congruence.
        * intros ->. exact (no_help e0 Hhp T).
    - intros e0 k1 k2 T1 T2. destruct (decide (k1 = TRead t)) as [->|H1]; destruct (decide (k2 = TRead t)) as [->|H2]; auto.
      + intros <-. exfalso. exact (Hidle e0 T2).
      + intros ->. exfalso. exact (Hidle e0 T1).
  Qed.

  (** [LH8] / [PE8]: the token [kold] of the acting thread becomes [TOffer n]. *)
  Lemma EX_adopt n kold :
    nn s' = nn s -> owner (thr s t) = Some n -> n < nn s ->
    busy_s (t_stack (thr s' t)) = false ->
    (forall e0, mem (sh s') (LOffer n) = env_val e0 -> tok_holds s e0 kold) ->
    (forall k, k <> n -> mem (sh s') (LOffer k) = mem (sh s) (LOffer k)) ->
    (forall k, mem (sh s') (LCtrl k) = mem (sh s) (LCtrl k)) ->
    (kold = TRead t \/ kold = THelp t) ->
    EX s'.
  Proof.
    intros Hnn Ho Hlt Hbz Hold Hoff Hcs Hk.
    destruct (busy_none _ Hbz) as [Hrd Hhp].
    assert (Hgone : forall e0, ~ tok_holds s' e0 kold).
    { intros e0 T. destruct Hk as [-> | ->]; [exact (no_read e0 Hrd T)|exact (no_help e0 Hhp T)]. }
    apply (EX_move s s' (fun k => if decide (k = TOffer n) then kold else k) X).
    - intros e0 k T. destruct (decide (k = TOffer n)) as [->|Hkn].
      + apply Hold. destruct T as (_ & T & _). exact T.
      + apply (tok_back s s' t e0 k Hoth); [|exact T]. destruct k as [m|w|t0|t0].
        * assert (Hmn : m <> n) by congruence.
          destruct T as (Hm & _). rewrite Hnn in Hm. split; [exact Hm|]. split; [apply Hoff; exact Hmn|].
          split; [rewrite Hcs; auto|]. intros E. congruence.
        * destruct T as (Hw & _). rewrite Hnn in Hw. split; [exact Hw|apply Hcs].
        * intros ->. exact (no_read e0 Hrd T).
        * intros ->. exact (no_help e0 Hhp T).
    - intros e0 k1 k2 T1 T2. destruct (decide (k1 = TOffer n)) as [->|H1]; destruct (decide (k2 = TOffer n)) as [->|H2]; auto.
      + intros <-. exfalso. exact (Hgone e0 T2).
      + intros ->. exfalso. exact (Hgone e0 T1).
  Qed.
End Moves.

Section Moves2.
  Variables (s s' : state) (t : N).
  Hypothesis Hoth : forall t', t' <> t -> thr s' t' = thr s t'.
  Hypothesis X : EX s.

  (** [PE7] succeeds: [TOffer nH] becomes [TCtl w], [TOffer w] becomes [THelp t]. *)
  Lemma EX_help nH w e1 e2 :
    nn s' = nn s -> owner (thr s t) = Some nH -> owner (thr s' t) = Some nH -> w <> nH -> w < nn s ->
    helps_s (t_stack (thr s' t)) = Some (env_val e2) -> reads_s (t_stack (thr s' t)) = None ->
    tok_holds s e1 (TOffer nH) -> tok_holds s e2 (TOffer w) ->
    mem (sh s') (LCtrl w) = env_val e1 + 1 ->
    (forall k, k <> w -> mem (sh s') (LCtrl k) = mem (sh s) (LCtrl k)) ->
    (forall k, mem (sh s') (LOffer k) = mem (sh s) (LOffer k)) ->
    EX s'.
  Proof.
    intros Hnn Ho Ho' Hwn Hlt Hhp Hrd T1 T2 Hc Hcs Hoff.
    pose proof (helps_busy _ _ Hhp) as Hbz.
    assert (HnH : forall e0, ~ tok_holds s' e0 (TOffer nH)) by (intros e0; exact (no_offer s' t e0 nH Ho' Hbz)).
    assert (Hw : forall e0, ~ tok_holds s' e0 (TOffer w)).
    { intros e0 T. apply tok_offer_iff in T as (_ & _ & T & _). rewrite Hc in T. exact (repl_not_nrepl _ T). }
    set (f := fun k => if decide (k = TCtl w) then TOffer nH else if decide (k = THelp t) then TOffer w else k).
    apply (EX_move s s' f X).
    - intros e0 k T. unfold f. destruct (decide (k = TCtl w)) as [->|Hk1].
      + destruct T as (_ & T). rewrite Hc in T. assert (e0 = e1) as -> by (apply env_val_inj; lia). exact T1.
      + destruct (decide (k = THelp t)) as [->|Hk2].
        * apply tok_help_iff in T. rewrite Hhp in T. injection T as T. apply env_val_inj in T. subst e0. exact T2.
        * apply (tok_back s s' t e0 k Hoth); [|exact T]. destruct k as [m|w0|t0|t0].
          -- destruct (N.eq_dec m nH) as [->|Hm1]; [exfalso; exact (HnH e0 T)|].
             destruct (N.eq_dec m w) as [->|Hm2]; [exfalso; exact (Hw e0 T)|].
             destruct T as (Hm & _). rewrite Hnn in Hm. split; [exact Hm|]. split; [apply Hoff|].
             split; [rewrite Hcs by exact Hm2; auto|]. intros E. congruence.
          -- assert (Hne : w0 <> w) by congruence.
             destruct T as (Hw0 & _). rewrite Hnn in Hw0. split; [exact Hw0|apply Hcs; exact Hne].
          -- intros ->. exact (no_read s' t e0 Hrd T).
          -- congruence.
    - intros e0 k1 k2 K1 K2. unfold f.
      destruct (decide (k1 = TCtl w)) as [->|A1]; destruct (decide (k2 = TCtl w)) as [->|A2]; auto;
        try destruct (decide (k1 = THelp t)) as [->|B1]; try destruct (decide (k2 = THelp t)) as [->|B2]; auto; intros E.
      all: try (injection E as E; congruence).
      all: try (subst; exfalso; first [exact (HnH e0 K1)|exact (HnH e0 K2)|exact (Hw e0 K1)|exact (Hw e0 K2)]).
  Qed.

  (** A new node [h] brings the new envelope [h]. *)
  Lemma EX_fresh h :
    WF2 s -> Quiet s ->
    nn s = h -> nn s' = h + 1 -> owner (thr s t) = None -> busy_s (t_stack (thr s' t)) = false ->
    mem (sh s') (LOffer h) = env_val h -> mem (sh s') (LCtrl h) = IDLE ->
    (forall k, k <> h -> mem (sh s') (LOffer k) = mem (sh s) (LOffer k)) ->
    (forall k, k <> h -> mem (sh s') (LCtrl k) = mem (sh s) (LCtrl k)) ->
    EX s'.
  Proof.
    intros W Q Hh Hnn Ho Hbz Hoh Hch Hoff Hcs.
    destruct (busy_none _ Hbz) as [Hrd Hhp].
    assert (Hcl : forall e k, tok_holds s' e k -> (k = TOffer h /\ e = h) \/ tok_holds s e k).
    { intros e k T. destruct k as [m|w|t0|t0].
      - destruct (N.eq_dec m h) as [->|Hm].
        + left. split; [reflexivity|]. destruct T as (_ & T & _). rewrite Hoh in T. apply env_val_inj in T. auto.
        + right. apply (tok_back s s' t e _ Hoth); [|exact T]. destruct T as (Hlt & _).
          split; [lia|]. split; [apply Hoff; exact Hm|]. split; [rewrite Hcs by exact Hm; auto|]. congruence.
      - right. destruct (N.eq_dec w h) as [->|Hw].
        + exfalso. destruct T as (_ & T). rewrite Hch in T. unfold env_val, IDLE in T. lia.
        + apply (tok_back s s' t e _ Hoth); [|exact T]. destruct T as (Hlt & _). split; [lia|apply Hcs; exact Hw].
      - right. apply (tok_back s s' t e _ Hoth); [|exact T]. intros ->. exact (no_read s' t e Hrd T).
      - right. apply (tok_back s s' t e _ Hoth); [|exact T]. intros ->. exact (no_help s' t e Hhp T). }
    intros e k1 k2 K1 K2.
    destruct (Hcl e k1 K1) as [[E1 E1']|O1]; destruct (Hcl e k2 K2) as [[E2 E2']|O2].
    - congruence.
    - pose proof (tok_bound s _ _ W Q O2). lia.
    - pose proof (tok_bound s _ _ W Q O1). lia.
    - exact (X e k1 k2 O1 O2).
  Qed.
End Moves2.
