(** * ASModel.Env4 — consequences of [EnvInv] ([EnvFree]), control words of nodes that do not
    exist yet ([CtlFresh]), and the step that moves no token ([frame_step]). *)
From Coq Require Import Lia ZArith Zify ZifyClasses ZifyBool ZifyN.
From ASModel Require Import Base State Orderings_gen Step Run Progress Hist Inv InvTl InvProto InvStep Sum StepCases GenDefs Gen1 Gen2 Gen3 Gen EnvDefs Env1 Env2 Env3.

(** [EnvFree] speaks about the control word of every node index, also of nodes that have not
    been pushed yet: those words are still zero.  (Not part of [WF2], not implied by [EnvInv].) *)
Definition CtlFresh (s : state) : Prop := forall w, nn s <= w -> mem (sh s) (LCtrl w) = IDLE.

Theorem EnvInv_EnvFree_fresh s : WF2 s -> Quiet s -> CtlFresh s -> EnvInv s -> EnvFree s.
Proof.
  intros W Q F [X M A] t c old w ctl r their mine rest Hr Hs.
  assert (Hp : pe67_s (t_stack (thr s t)) = Some mine) by (rewrite Hs; reflexivity).
  destruct (pe67_token s t mine W Q M Hp) as (n & e & Ho & -> & T).
  rewrite env_of_env_val. split; [|split].
  - intros w' Htag. destruct (N.lt_ge_cases w' (nn s)) as [Hlt|Hge].
    + destruct (w_ctl _ W w' Hlt) as [Hi|[Hg|(e' & He' & Hv)]].
      * rewrite Hi in Htag. discriminate.
      * unfold is_gen in Hg. rewrite Hg in Htag. discriminate.
      * rewrite Hv, env_of_val. intros ->.
        assert (T' : tok_holds s e (TCtl w')) by (split; assumption).
        pose proof (X e _ _ T T'). discriminate.
    + rewrite (F w' Hge) in Htag. discriminate.
  - intros t' cand e' rest' Hs' ->.
    assert (T' : tok_holds s e (TRead t')) by (apply tok_read_iff; rewrite Hs'; reflexivity).
    pose proof (X e _ _ T T'). discriminate.
  - intros t' c' old' w' ctl' r' their' mine' rest' Hne Hs' He. apply Hne.
    apply (pe67_distinct s t t' (env_val e) mine' W Q X M Hp); [rewrite Hs'; reflexivity|].
    rewrite env_of_env_val. exact He.
Qed.

Lemma CtlFresh_init inits progs : CtlFresh (init_state inits progs).
Proof. intros w _. cbn. rewrite init_stores_other by discriminate. reflexivity. Qed.

(** ** A step that moves no token *)
Lemma frame_step s s' t :
  WF2 s -> EnvInv s ->
  (forall t', t' <> t -> thr s' t' = thr s t') ->
  nn s' = nn s ->
  (forall k, k < nn s -> mem (sh s') (LOffer k) = mem (sh s) (LOffer k)) ->
  (forall k, k < nn s -> mem (sh s') (LCtrl k) = mem (sh s) (LCtrl k) \/
                         (nrepl (mem (sh s') (LCtrl k)) /\ nrepl (mem (sh s) (LCtrl k)))) ->
  reads_s (t_stack (thr s' t)) = reads_s (t_stack (thr s t)) ->
  helps_s (t_stack (thr s' t)) = helps_s (t_stack (thr s t)) ->
  busy_s (t_stack (thr s' t)) = busy_s (t_stack (thr s t)) ->
  (busy_s (t_stack (thr s t)) = false \/ owner (thr s' t) = owner (thr s t)) ->
  (forall n mine, owner (thr s' t) = Some n -> pe67_s (t_stack (thr s' t)) = Some mine ->
                  mem (sh s') (LOffer n) = mine) ->
  (forall t' r mine, t' <> t -> pe7_s (t_stack (thr s t')) = Some (r, mine) ->
                     mem (sh s') (LEnv (env_of mine)) = mem (sh s) (LEnv (env_of mine))) ->
  (forall r mine, pe7_s (t_stack (thr s' t)) = Some (r, mine) -> mem (sh s') (LEnv (env_of mine)) = r) ->
  EnvInv s'.
Proof.
  intros W [X M A] Hoth Hnn Hoff Hctl Hrd Hhp Hbz Hown HM HA1 HA2. constructor.
  - apply (EX_frame s s' X). eapply tok_frame; eassumption.
  - apply (MineA_upd s s' t M Hoth); [|exact HM].
    intros t' n _ Ho. apply Hoff. exact (w_lt _ W _ _ (owner_holder _ _ Ho)).
  - exact (EnvA_upd s s' t A Hoth HA1 HA2).
Qed.

(** ... and leaves a quiet frame on top. *)
Lemma quiet_step s s' t :
  WF2 s -> EnvInv s ->
  (forall t', t' <> t -> thr s' t' = thr s t') ->
  nn s' = nn s ->
  (forall k, k < nn s -> mem (sh s') (LOffer k) = mem (sh s) (LOffer k)) ->
  (forall k, k < nn s -> mem (sh s') (LCtrl k) = mem (sh s) (LCtrl k) \/
                         (nrepl (mem (sh s') (LCtrl k)) /\ nrepl (mem (sh s) (LCtrl k)))) ->
  (forall k, mem (sh s') (LEnv k) = mem (sh s) (LEnv k)) ->
  busy_s (t_stack (thr s t)) = false -> hdq (t_stack (thr s' t)) ->
  EnvInv s'.
Proof.
  intros W EI Hoth Hnn Hoff Hctl Henv Hb Hq.
  destruct (hdq_none _ Hq) as (Q1 & Q2 & Q3 & Q4 & Q5). destruct (busy_none _ Hb) as [B1 B2].
  apply (frame_step s s' t W EI Hoth Hnn Hoff Hctl); try congruence; auto.
Qed.
