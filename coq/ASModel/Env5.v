(** * ASModel.Env5 — the exact outcome of the frame steps that move envelopes or tokens. *)
From Coq Require Import Lia ZArith Zify ZifyClasses ZifyBool ZifyN.
From ASModel Require Import Base State Orderings_gen Step Run Progress Hist Inv InvTl InvProto InvStep Sum StepCases GenDefs Gen1 Gen2 Gen3 Gen EnvDefs Env1 Env2 Env3 Env4.

Definition especial (p : pc) : bool :=
  match p with
  | LH2 _ _ | LH5 _ _ _ | LH7 _ _ | LH8 _ _ _ | PE5 _ _ _ _ _ _ | PE6 _ _ _ _ _ _ _
  | PE7 _ _ _ _ _ _ _ | PE8 _ _ _ _ | GPush _ => true
  | _ => false
  end.

Lemma exec_plain_mem cf s l p x s' l' evs nx :
  especial p = false -> exec cf s l p x = (s', l', evs, nx) ->
  (forall k, mem s' (LOffer k) = mem s (LOffer k)) /\ (forall k, mem s' (LCtrl k) = mem s (LCtrl k)) /\
  (forall k, mem s' (LEnv k) = mem s (LEnv k)) /\ mem s' LHead = mem s LHead /\
  estep_pc p = false /\ eq_pc p = true.
Proof.
  intros Hsp He.
  pose proof (exec_offer _ _ _ _ _ _ _ _ _ He) as H1. pose proof (exec_ctrl _ _ _ _ _ _ _ _ _ He) as H2.
  pose proof (exec_env _ _ _ _ _ _ _ _ _ He) as H3. pose proof (exec_head _ _ _ _ _ _ _ _ _ He) as H4.
  destruct p; try discriminate Hsp; auto 10.
Qed.

Lemma exec_LH2 cf s l c gt x s' l' evs nx :
  exec cf s l (LH2 c gt) x = (s', l', evs, nx) -> ~ nx_stops nx ->
  s' = m_set s (LCtrl (own_node l)) gt /\ tl_node l' = tl_node l /\ nx = NGoto (LH3 c gt).
Proof.
  intros He Hn. cbn in He. unfold a_swap in He. cbn in He. destr_in He; injection He as <- <- <- <-;
    try (exfalso; apply Hn; exact I); auto.
Qed.

Lemma exec_LH5 cf s l c gt v x s' l' evs nx :
  exec cf s l (LH5 c gt v) x = (s', l', evs, nx) -> ~ nx_stops nx ->
  s' = m_set s (LCtrl (own_node l)) IDLE /\ l' = l /\
  ((mem s (LCtrl (own_node l)) = gt /\ hdq (nx_frames nx)) \/
   (mem s (LCtrl (own_node l)) <> gt /\
    nx = NGoto (LH7 v (env_of (mem s (LCtrl (own_node l)) - N.land (mem s (LCtrl (own_node l))) TAG_MASK))))).
Proof.
  intros He Hn. cbn in He. unfold a_swap in He. cbn in He. destr_in He; injection He as <- <- <- <-;
    try (exfalso; apply Hn; exact I); (split; [reflexivity|]; split; [reflexivity|]).
  all: try (left; split; [apply N.eqb_eq; assumption|reflexivity]).
  all: right; split; [apply N.eqb_neq; assumption|reflexivity].
Qed.

Lemma exec_LH7 cf s l v e x s' l' evs nx :
  exec cf s l (LH7 v e) x = (s', l', evs, nx) -> s' = s /\ l' = l /\ nx = NGoto (LH8 v e (mem s (LEnv e))).
Proof. intros He. cbn in He. injection He as <- <- <- <-. auto. Qed.

Lemma exec_LH8 cf s l v e r x s' l' evs nx :
  exec cf s l (LH8 v e r) x = (s', l', evs, nx) ->
  s' = m_set s (LOffer (own_node l)) (env_val e) /\ l' = l /\ nx = NGoto (LH9 v r).
Proof. intros He. cbn in He. unfold a_store in He. injection He as <- <- <- <-. auto. Qed.

Lemma exec_PE5 cf s l c old w ctl r their x s' l' evs nx :
  exec cf s l (PE5 c old w ctl r their) x = (s', l', evs, nx) ->
  s' = s /\ l' = l /\ nx = NGoto (PE6 c old w ctl r their (mem s (LOffer (own_node l)))).
Proof. intros He. cbn in He. injection He as <- <- <- <-. auto. Qed.

Lemma exec_PE6 cf s l c old w ctl r their mine x s' l' evs nx :
  exec cf s l (PE6 c old w ctl r their mine) x = (s', l', evs, nx) -> ~ nx_stops nx ->
  s' = m_set s (LEnv (env_of mine)) r /\ l' = l /\ nx = NGoto (PE7 c old w ctl r their mine).
Proof.
  intros He Hn. cbn in He. unfold a_store in He. cbn in He. destr_in He; injection He as <- <- <- <-;
    try (exfalso; apply Hn; exact I); auto.
Qed.

Lemma exec_PE7 cf s l c old w ctl r their mine x s' l' evs nx :
  exec cf s l (PE7 c old w ctl r their mine) x = (s', l', evs, nx) ->
  l' = l /\
  ((mem s (LCtrl w) = ctl /\ s' = m_set s (LCtrl w) (N.lor mine REPLACEMENT_TAG) /\ nx = NGoto (PE8 c old w their)) \/
   (mem s (LCtrl w) <> ctl /\ s' = s /\ hdq (nx_frames nx))).
Proof.
  intros He. cbn in He. unfold a_cas in He. cbn in He.
  destruct (mem s (LCtrl w) =? ctl) eqn:Hc; cbn in He.
  - injection He as <- <- <- <-. split; [reflexivity|]. left. apply N.eqb_eq in Hc. auto.
  - split; [destr_in He; injection He as <- <- <- <-; reflexivity|]. right. apply N.eqb_neq in Hc.
    split; [exact Hc|]. destr_in He; injection He as <- <- <- <-; (split; [reflexivity|]);
      [apply help_dispatch_hdq|reflexivity].
Qed.

Lemma exec_PE8 cf s l c old w their x s' l' evs nx :
  exec cf s l (PE8 c old w their) x = (s', l', evs, nx) ->
  s' = m_set s (LOffer (own_node l)) their /\ l' = l /\ nx = NGoto (PS c old w 0).
Proof. intros He. cbn in He. unfold a_store in He. injection He as <- <- <- <-. auto. Qed.

Lemma exec_GPush cf s l h x s' l' evs nx :
  exec cf s l (GPush h) x = (s', l', evs, nx) ->
  (s' = s /\ l' = l /\ nx = NGoto (GPush (mem s LHead))) \/
  (mem s LHead = h /\ s' = node_init (m_set s LHead (node_val h)) h /\ l' = tl_set_node l (Some h) /\
   nx = NRet (RNode h)).
Proof.
  intros He. cbn in He. unfold a_cas in He. cbn in He. destr_in He; injection He as <- <- <- <-.
  - right. apply andb_prop in Heqb as [Hh _]. apply N.eqb_eq in Hh. auto.
  - left. auto.
Qed.
