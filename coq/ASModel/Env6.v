(** * ASModel.Env6 — [EnvInv] is preserved by the frame steps (one lemma per kind of step). *)
From Coq Require Import Lia ZArith Zify ZifyClasses ZifyBool ZifyN.
From ASModel Require Import Base State Orderings_gen Step Run Progress Hist Inv InvTl InvProto InvStep Sum StepCases GenDefs Gen1 Gen2 Gen3 Gen EnvDefs Env1 Env2 Env3 Env4 Env5.

Lemma pe7_pe67 stk r mine : pe7_s stk = Some (r, mine) -> pe67_s stk = Some mine.
Proof. destruct stk as [|p rest]; [discriminate|]. destruct p; cbn; try discriminate. intros [= -> ->]. reflexivity. Qed.

Lemma req_not_busy th q : req_of th = Some q -> busy_s (t_stack th) = false.
Proof. unfold req_of. destruct (t_stack th) as [|p rest]; [discriminate|]. destruct p; try discriminate; reflexivity. Qed.

Lemma own_node_owner th n : owner th = Some n -> own_node (t_loc th) = n.
Proof. unfold owner, own_node. intros ->. reflexivity. Qed.

Section Exec.
  Variables (cf : config) (s : state) (t x : N).
  Hypotheses (W : WF2 s) (Q : Quiet s) (GI : GenInv s) (EI : EnvInv s)
             (Hnf : NoFault (fst (step cf s t x))).
  Variables (p : pc) (rest : list pc) (s1 : shared) (l1 : tlocal) (evs : list event) (nx : next) (h' : N -> handle).
  Hypotheses (Hr : t_status (thr s t) = Running) (Hs : t_stack (thr s t) = p :: rest)
             (He : exec cf (sh s) (t_loc (thr s t)) p x = (s1, l1, evs, nx)).

  Local Notation th' := (thread_after cf (thr s t) l1 rest nx).
  Local Notation s2 := (mkState s1 (upd (thr s) t th') h').

  Lemma ex_oth : forall t', t' <> t -> thr s2 t' = thr s t'.
  Proof. intros t' Hne. cbn. apply upd_other. exact Hne. Qed.

  Lemma ex_thr : thr s2 t = th'.
  Proof. cbn. apply upd_same. Qed.

  Lemma ex_settle : ~ nx_stops nx /\ settle cf l1 rest nx (t_loc th') (t_stack th') (t_status th').
  Proof. eapply exec_settle; eassumption. Qed.

  Lemma ex_hdq : hdq (nx_frames nx) -> hdq (t_stack (thr s2 t)).
  Proof. intros H. rewrite ex_thr. eapply settle_hdq; [apply ex_settle|exact H]. Qed.

  Lemma ex_owner : owner (thr s2 t) = tl_node l1.
  Proof. rewrite ex_thr. unfold owner. eapply settle_node. apply ex_settle. Qed.

  Lemma ex_goto q : nx = NGoto q -> t_stack (thr s2 t) = q :: rest.
  Proof. intros E. rewrite ex_thr. rewrite E. reflexivity. Qed.

  (** Steps that touch neither offers, control words nor envelopes. *)
  Lemma exec_generic : especial p = false -> EnvInv s2.
  Proof.
    intros Hsp. destruct (exec_plain_mem _ _ _ _ _ _ _ _ _ Hsp He) as (M1 & M2 & M3 & M4 & M5 & M6).
    apply (quiet_step s s2 t W EI ex_oth).
    - exact M4.
    - intros k _. apply M1.
    - intros k _. left. apply M2.
    - exact M3.
    - rewrite Hs. destruct p; try discriminate M6; reflexivity.
    - apply ex_hdq. eapply exec_hdq; eassumption.
  Qed.

  (** Same memory, quiet successor. *)
  Lemma exec_same : s1 = sh s -> busy_s (p :: rest) = false -> hdq (nx_frames nx) -> EnvInv s2.
  Proof.
    intros E Hb Hq. apply (quiet_step s s2 t W EI ex_oth).
    - unfold nn. cbn. rewrite E. reflexivity.
    - intros k _. cbn. rewrite E. reflexivity.
    - intros k _. left. cbn. rewrite E. reflexivity.
    - intros k. cbn. rewrite E. reflexivity.
    - rewrite Hs. exact Hb.
    - apply ex_hdq. exact Hq.
  Qed.

  (** [LH2]: the owner publishes its request (IDLE -> generation word). *)
  Lemma case_LH2 c gt : p = LH2 c gt -> EnvInv s2.
  Proof.
    intros Hp. pose proof Hs as Hs0. pose proof He as He0. rewrite Hp in Hs0, He0.
    destruct ex_settle as [Hns _].
    destruct (exec_LH2 _ _ _ _ _ _ _ _ _ _ He0 Hns) as (E1 & E2 & E3).
    destruct (top_owner s t _ _ W Q Hs0 eq_refl) as (_ & n & Ho & Hlt & Ht). cbn in Ht. destruct Ht as (Hidle & Hgt & _).
    rewrite (own_node_owner _ _ Ho) in E1.
    destruct (running_stk_ok s t W Hr) as [Htl _]. rewrite Hs0 in Htl. destruct Htl as (_ & _ & _ & _ & _ & Hgok).
    apply (quiet_step s s2 t W EI ex_oth).
    - unfold nn. cbn. rewrite E1. cbn. apply upd_other. discriminate.
    - intros k _. cbn. rewrite E1. cbn. apply upd_other. discriminate.
    - intros k _. cbn. rewrite E1. cbn. destruct (N.eq_dec k n) as [->|Hne].
      + right. rewrite upd_same. split; [|rewrite (proj1 Hidle); apply nrepl_idle].
        apply nrepl_gen. rewrite Hgt. apply lor_gen. apply Hgok.
      + left. apply upd_other. congruence.
    - intros k. cbn. rewrite E1. cbn. apply upd_other. discriminate.
    - rewrite Hs0. reflexivity.
    - apply ex_hdq. rewrite E3. reflexivity.
  Qed.

  (** [LH7]: the reader reads the envelope it was handed. *)
  Lemma case_LH7 v e : p = LH7 v e -> EnvInv s2.
  Proof.
    intros Hp. pose proof Hs as Hs0. pose proof He as He0. rewrite Hp in Hs0, He0.
    destruct (exec_LH7 _ _ _ _ _ _ _ _ _ _ He0) as (E1 & E2 & E3).
    pose proof (ex_goto _ E3) as Hst.
    apply (frame_step s s2 t W EI ex_oth); rewrite ?Hst, ?Hs0; try reflexivity.
    - unfold nn. cbn. rewrite E1. reflexivity.
    - intros k _. cbn. rewrite E1. reflexivity.
    - intros k _. left. cbn. rewrite E1. reflexivity.
    - right. rewrite ex_owner, E2. reflexivity.
    - intros n mine _ H. discriminate H.
    - intros t' r mine _ _. cbn. rewrite E1. reflexivity.
    - intros r mine H. discriminate H.
  Qed.

  (** [PE5]: the helper reads its own offer. *)
  Lemma case_PE5 c old w ctl r their : p = PE5 c old w ctl r their -> EnvInv s2.
  Proof.
    intros Hp. pose proof Hs as Hs0. pose proof He as He0. rewrite Hp in Hs0, He0.
    destruct (exec_PE5 _ _ _ _ _ _ _ _ _ _ _ _ _ _ He0) as (E1 & E2 & E3).
    pose proof (ex_goto _ E3) as Hst.
    apply (frame_step s s2 t W EI ex_oth); rewrite ?Hst, ?Hs0; try reflexivity.
    - unfold nn. cbn. rewrite E1. reflexivity.
    - intros k _. cbn. rewrite E1. reflexivity.
    - intros k _. left. cbn. rewrite E1. reflexivity.
    - left. reflexivity.
    - intros n mine Ho H. cbn in H. injection H as <-. rewrite ex_owner, E2 in Ho.
      rewrite (own_node_owner _ _ Ho). cbn. rewrite E1. reflexivity.
    - intros t' r0 mine _ _. cbn. rewrite E1. reflexivity.
    - intros r0 mine H. discriminate H.
  Qed.

  (** [PE6]: the helper fills the envelope it offers. *)
  Lemma case_PE6 c old w ctl r their mine : p = PE6 c old w ctl r their mine -> EnvInv s2.
  Proof.
    intros Hp. pose proof Hs as Hs0. pose proof He as He0. rewrite Hp in Hs0, He0.
    destruct ex_settle as [Hns _].
    destruct (exec_PE6 _ _ _ _ _ _ _ _ _ _ _ _ _ _ _ He0 Hns) as (E1 & E2 & E3).
    pose proof (ex_goto _ E3) as Hst. destruct EI as [X M A].
    assert (Hp67 : pe67_s (t_stack (thr s t)) = Some mine) by (rewrite Hs0; reflexivity).
    apply (frame_step s s2 t W EI ex_oth); rewrite ?Hst, ?Hs0; try reflexivity.
    - unfold nn. cbn. rewrite E1. cbn. apply upd_other. discriminate.
    - intros k _. cbn. rewrite E1. cbn. apply upd_other. discriminate.
    - intros k _. left. cbn. rewrite E1. cbn. apply upd_other. discriminate.
    - left. reflexivity.
    - intros n mine0 Ho H. cbn in H. injection H as <-. rewrite ex_owner, E2 in Ho.
      cbn. rewrite E1. cbn. rewrite upd_other by discriminate.
      exact (proj1 (MineA_iff s) M t n mine Ho Hp67).
    - intros t' r0 mine0 Hne H. cbn. rewrite E1. cbn. apply upd_other. intros [= Ee]. apply Hne.
      exact (pe67_distinct s t t' mine mine0 W Q X M Hp67 (pe7_pe67 _ _ _ H) Ee).
    - intros r0 mine0 H. cbn in H. injection H as <- <-. cbn. rewrite E1. cbn. apply upd_same.
  Qed.

  (** [LH5]: the reader closes its request; a replacement word hands it an envelope. *)
  Lemma case_LH5 c gt v : p = LH5 c gt v -> EnvInv s2.
  Proof.
    intros Hp. pose proof Hs as Hs0. pose proof He as He0. rewrite Hp in Hs0, He0.
    destruct ex_settle as [Hns _].
    destruct (exec_LH5 _ _ _ _ _ _ _ _ _ _ _ He0 Hns) as (E1 & E2 & E3).
    destruct (top_owner s t _ _ W Q Hs0 eq_refl) as (_ & n & Ho & Hlt & Ht). cbn in Ht.
    destruct Ht as (Hctl & _ & _ & Hgen).
    rewrite (own_node_owner _ _ Ho) in E1, E3.
    assert (Hnn : nn s2 = nn s) by (unfold nn; cbn; rewrite E1; cbn; apply upd_other; discriminate).
    assert (Hoff : forall k, mem (sh s2) (LOffer k) = mem (sh s) (LOffer k)).
    { intros k. cbn. rewrite E1. cbn. apply upd_other. discriminate. }
    assert (Hcs : forall k, k <> n -> mem (sh s2) (LCtrl k) = mem (sh s) (LCtrl k)).
    { intros k Hne. cbn. rewrite E1. cbn. apply upd_other. congruence. }
    assert (Hcn : mem (sh s2) (LCtrl n) = IDLE) by (cbn; rewrite E1; cbn; apply upd_same).
    assert (Henv : forall k, mem (sh s2) (LEnv k) = mem (sh s) (LEnv k)).
    { intros k. cbn. rewrite E1. cbn. apply upd_other. discriminate. }
    destruct E3 as [[Eg Hq]|[Eg E3]].
    - (* the word is still the request *)
      apply (quiet_step s s2 t W EI ex_oth Hnn); auto.
      + intros k _. destruct (N.eq_dec k n) as [->|Hne]; [right|left; apply Hcs; exact Hne].
        rewrite Hcn, Eg. split; [apply nrepl_idle|apply nrepl_gen; exact Hgen].
      + rewrite Hs0. reflexivity.
      + apply ex_hdq. exact Hq.
    - (* a replacement *)
      destruct Hctl as [Hc|(e & He' & Hv)]; [contradiction|].
      rewrite Hv, env_of_val in E3. pose proof (ex_goto _ E3) as Hst.
      assert (Ho' : owner (thr s2 t) = Some n) by (rewrite ex_owner, E2; exact Ho).
      destruct EI as [X M A]. constructor.
      + apply (EX_take s s2 t ex_oth X n e Hnn Ho Ho' Hlt); auto; rewrite Hst; reflexivity.
      + apply (MineA_upd s s2 t M ex_oth); [intros; apply Hoff|]. intros n0 mine _ H. rewrite Hst in H. discriminate H.
      + apply (EnvA_upd s s2 t A ex_oth); [intros; apply Henv|]. intros r mine H. rewrite Hst in H. discriminate H.
  Qed.

  (** [LH8] / [PE8]: the acting thread stores the envelope it holds as its new offer. *)
  Lemma adopt_case n v kold q :
    owner (thr s t) = Some n -> n < nn s -> mem (sh s) (LCtrl n) = IDLE ->
    s1 = m_set (sh s) (LOffer n) v -> l1 = t_loc (thr s t) -> nx = NGoto q -> eq_pc q = true ->
    (kold = TRead t \/ kold = THelp t) ->
    (forall e0, v = env_val e0 -> tok_holds s e0 kold) ->
    EnvInv s2.
  Proof.
    intros Ho Hlt Hidle E1 E2 E3 Hq Hk Hold.
    pose proof (ex_goto _ E3) as Hst.
    assert (Hqs : hdq (t_stack (thr s2 t))) by (rewrite Hst; exact Hq).
    destruct (hdq_none _ Hqs) as (Q1 & Q2 & Q3 & Q4 & Q5).
    assert (Hnn : nn s2 = nn s) by (unfold nn; cbn; rewrite E1; cbn; apply upd_other; discriminate).
    assert (Hoff : forall k, k <> n -> mem (sh s2) (LOffer k) = mem (sh s) (LOffer k)).
    { intros k Hne. cbn. rewrite E1. cbn. apply upd_other. congruence. }
    assert (Hon : mem (sh s2) (LOffer n) = v) by (cbn; rewrite E1; cbn; apply upd_same).
    assert (Hcs : forall k, mem (sh s2) (LCtrl k) = mem (sh s) (LCtrl k)).
    { intros k. cbn. rewrite E1. cbn. apply upd_other. discriminate. }
    assert (Henv : forall k, mem (sh s2) (LEnv k) = mem (sh s) (LEnv k)).
    { intros k. cbn. rewrite E1. cbn. apply upd_other. discriminate. }
    destruct EI as [X M A]. constructor.
    - apply (EX_adopt s s2 t ex_oth X n kold Hnn Ho Hlt Q1); auto.
      intros e0 H. apply Hold. congruence.
    - apply (MineA_upd s s2 t M ex_oth).
      + intros t' n' Hne Ho'. apply Hoff. intros ->. apply Hne. eapply owner_unique; eassumption.
      + intros n0 mine _ H. congruence.
    - apply (EnvA_upd s s2 t A ex_oth); [intros; apply Henv|]. intros r mine H. congruence.
  Qed.

  Lemma case_LH8 v e r : p = LH8 v e r -> EnvInv s2.
  Proof.
    intros Hp. pose proof Hs as Hs0. pose proof He as He0. rewrite Hp in Hs0, He0.
    destruct (exec_LH8 _ _ _ _ _ _ _ _ _ _ _ He0) as (E1 & E2 & E3).
    destruct (top_owner s t _ _ W Q Hs0 eq_refl) as (_ & n & Ho & Hlt & Ht). cbn in Ht.
    rewrite (own_node_owner _ _ Ho) in E1.
    apply (adopt_case n (env_val e) (TRead t) _ Ho Hlt (proj1 Ht) E1 E2 E3 eq_refl); [auto|].
    intros e0 H. apply env_val_inj in H. subst e0. apply tok_read_iff. rewrite Hs0. reflexivity.
  Qed.

  Lemma case_PE8 c old w their : p = PE8 c old w their -> EnvInv s2.
  Proof.
    intros Hp. pose proof Hs as Hs0. pose proof He as He0. rewrite Hp in Hs0, He0.
    destruct (exec_PE8 _ _ _ _ _ _ _ _ _ _ _ _ He0) as (E1 & E2 & E3).
    destruct (top_owner s t _ _ W Q Hs0 eq_refl) as (_ & n & Ho & Hlt & Ht). cbn in Ht.
    rewrite (own_node_owner _ _ Ho) in E1.
    apply (adopt_case n their (THelp t) _ Ho Hlt (proj1 Ht) E1 E2 E3 eq_refl); [auto|].
    intros e0 H. subst their. apply tok_help_iff. rewrite Hs0. reflexivity.
  Qed.

  (** [PE7]: the exchange.  On success the helper's envelope goes into the reader's control
      word and the reader's offer goes to the helper. *)
  Lemma case_PE7 c old w ctl r their mine : p = PE7 c old w ctl r their mine -> EnvInv s2.
  Proof.
    intros Hp. pose proof Hs as Hs0. pose proof He as He0. rewrite Hp in Hs0, He0.
    destruct (exec_PE7 _ _ _ _ _ _ _ _ _ _ _ _ _ _ _ He0) as (E2 & [(Ec & E1 & E3)|(Ec & E1 & Hq)]).
    2: { apply exec_same; [exact E1|rewrite Hp; reflexivity|exact Hq]. }
    pose proof (ex_goto _ E3) as Hst. destruct EI as [X M A].
    assert (Hp67 : pe67_s (t_stack (thr s t)) = Some mine) by (rewrite Hs0; reflexivity).
    destruct (pe67_token s t mine W Q M Hp67) as (nH & e1 & Ho & -> & T1).
    assert (Hin : In (PE7 c old w ctl r their (env_val e1)) (t_stack (thr s t))) by (rewrite Hs0; left; reflexivity).
    pose proof (all_frames_ok s t _ W Q Hin) as Hok. cbn in Hok. destruct Hok as (Hlt & Hgen & (e2 & _ & ->) & _).
    destruct (help_cas_sound s t c old w ctl r (env_val e2) (env_val e1) rest W Q GI Hr Hs0 Ec)
      as (th & Hne & Hoth & Hreq & Hoffw).
    assert (Hwn : w <> nH) by (intros ->; apply Hne; eapply owner_unique; eassumption).
    assert (T2 : tok_holds s e2 (TOffer w)).
    { apply tok_offer_iff. split; [exact Hlt|]. split; [exact Hoffw|]. split; [rewrite Ec; apply nrepl_gen; exact Hgen|].
      intros t1 Ho1. assert (t1 = th) as -> by (eapply owner_unique; eassumption). eapply req_not_busy. exact Hreq. }
    rewrite lor_env in E1.
    assert (Hnn : nn s2 = nn s) by (unfold nn; cbn; rewrite E1; cbn; apply upd_other; discriminate).
    assert (Hoff : forall k, mem (sh s2) (LOffer k) = mem (sh s) (LOffer k)).
    { intros k. cbn. rewrite E1. cbn. apply upd_other. discriminate. }
    assert (Hcs : forall k, k <> w -> mem (sh s2) (LCtrl k) = mem (sh s) (LCtrl k)).
    { intros k Hk. cbn. rewrite E1. cbn. apply upd_other. congruence. }
    assert (Hcw : mem (sh s2) (LCtrl w) = env_val e1 + 1) by (cbn; rewrite E1; cbn; apply upd_same).
    assert (Henv : forall k, mem (sh s2) (LEnv k) = mem (sh s) (LEnv k)).
    { intros k. cbn. rewrite E1. cbn. apply upd_other. discriminate. }
    assert (Ho' : owner (thr s2 t) = Some nH) by (rewrite ex_owner, E2; exact Ho).
    constructor.
    - apply (EX_help s s2 t ex_oth X nH w e1 e2 Hnn Ho Ho' Hwn Hlt); auto; rewrite Hst; reflexivity.
    - apply (MineA_upd s s2 t M ex_oth); [intros; apply Hoff|]. intros n0 mine _ H. rewrite Hst in H. discriminate H.
    - apply (EnvA_upd s s2 t A ex_oth); [intros; apply Henv|]. intros r0 mine H. rewrite Hst in H. discriminate H.
  Qed.

  (** [GPush]: a new node, with its own envelope. *)
  Lemma case_GPush h : p = GPush h -> EnvInv s2.
  Proof.
    intros Hp. pose proof Hs as Hs0. pose proof He as He0. rewrite Hp in Hs0, He0.
    destruct (exec_GPush _ _ _ _ _ _ _ _ _ He0) as [(E1 & E2 & E3)|(Hh & E1 & E2 & E3)].
    { apply exec_same; [exact E1|rewrite Hp; reflexivity|rewrite E3; reflexivity]. }
    assert (Hnn0 : nn s = h) by exact Hh.
    assert (Ho : owner (thr s t) = None).
    { destruct (running_stk_ok s t W Hr) as [Htl _]. rewrite Hs0 in Htl. destruct Htl as (_ & _ & _ & _ & Hg & _).
      apply Hg. reflexivity. }
    assert (Hq : hdq (t_stack (thr s2 t))) by (apply ex_hdq; rewrite E3; exact I).
    destruct (hdq_none _ Hq) as (Q1 & Q2 & Q3 & Q4 & Q5).
    assert (Hnn : nn s2 = h + 1).
    { unfold nn. cbn. rewrite E1, node_init_head. cbn. rewrite upd_same. reflexivity. }
    assert (Hoff : forall k, k <> h -> mem (sh s2) (LOffer k) = mem (sh s) (LOffer k)).
    { intros k Hk. cbn. rewrite E1, node_init_offer. destruct (decide (k = h)); [contradiction|]. cbn. apply upd_other. discriminate. }
    assert (Hcs : forall k, k <> h -> mem (sh s2) (LCtrl k) = mem (sh s) (LCtrl k)).
    { intros k Hk. cbn. rewrite E1, node_init_ctrl. destruct (decide (k = h)); [contradiction|]. cbn. apply upd_other. discriminate. }
    assert (Henv : forall k, k <> h -> mem (sh s2) (LEnv k) = mem (sh s) (LEnv k)).
    { intros k Hk. cbn. rewrite E1, node_init_env. destruct (decide (k = h)); [contradiction|]. cbn. apply upd_other. discriminate. }
    assert (Hoh : mem (sh s2) (LOffer h) = env_val h).
    { cbn. rewrite E1, node_init_offer. destruct (decide (h = h)); [reflexivity|contradiction]. }
    assert (Hch : mem (sh s2) (LCtrl h) = IDLE).
    { cbn. rewrite E1, node_init_ctrl. destruct (decide (h = h)); [reflexivity|contradiction]. }
    destruct EI as [X M A]. constructor.
    - exact (EX_fresh s s2 t ex_oth X h W Q Hnn0 Hnn Ho Q1 Hoh Hch Hoff Hcs).
    - apply (MineA_upd s s2 t M ex_oth).
      + intros t' n' _ Ho'. apply Hoff. pose proof (w_lt _ W _ _ (owner_holder _ _ Ho')). lia.
      + intros n0 mine _ H. congruence.
    - apply (EnvA_upd s s2 t A ex_oth).
      + intros t' r mine _ H. apply Henv.
        destruct (pe67_token s t' mine W Q M (pe7_pe67 _ _ _ H)) as (n' & e' & _ & -> & T).
        rewrite env_of_env_val. pose proof (tok_bound s _ _ W Q T). lia.
      + intros r mine H. congruence.
  Qed.

  (** All frame steps. *)
  Theorem exec_EnvInv : EnvInv s2.
  Proof.
    destruct (especial p) eqn:Hsp; [|apply exec_generic; exact Hsp].
    assert (H : forall q, p = q -> EnvInv s2); [|exact (H p eq_refl)].
    intros q Hq. rewrite Hq in Hsp. destruct q; try discriminate Hsp.
    - eapply case_GPush; exact Hq.
    - eapply case_LH2; exact Hq.
    - eapply case_LH5; exact Hq.
    - eapply case_LH7; exact Hq.
    - eapply case_LH8; exact Hq.
    - eapply case_PE5; exact Hq.
    - eapply case_PE6; exact Hq.
    - eapply case_PE7; exact Hq.
    - eapply case_PE8; exact Hq.
  Qed.
End Exec.
