(** * ASModel.Env7 — why [Env.EnvInv_EnvFree] needs the hypothesis [CtlFresh].

    [EnvFree] (EnvDefs) speaks about the control word of every node index.  [WF2], [Quiet] and
    [EnvInv] constrain the control words of existing nodes only: a state in which the word of a
    node that has not been pushed yet carries a replacement tag satisfies all three, but not
    [EnvFree].  Such a state is not reachable ([CtlFresh] excludes it). *)
From Coq Require Import Lia ZArith.
From ASModel Require Import Base State Orderings_gen Step Run Progress Hist Inv InvTl InvProto InvStep Sum StepCases GenDefs Gen1 Gen2 Gen3 Gen EnvDefs Env1 Env2 Env3 Env4.

Definition fx_top : pc := PE6 0 0 0 2 0 4 4.
Definition fx_t0 : thread :=
  mkThread [fx_top; WSwap 0; KDone None] (mkTl (Some 0) 0 0 false 1) [CStore 0 SNull] 0 Running.
Definition fx_mem : loc -> N :=
  upd (upd (upd (upd init_mem LHead 1) (LInUse 0) NODE_USED) (LOffer 0) 4) (LCtrl 7) 5.
Definition fx_s : state :=
  mkState (mkShared fx_mem (fun _ => None) 0) (upd (fun _ => no_thread) 0 fx_t0) (fun _ => HEmpty).

Lemma fx_thr t : (t = 0 /\ thr fx_s t = fx_t0) \/ (t <> 0 /\ thr fx_s t = no_thread).
Proof. cbn. unfold upd. destruct (decide (t = 0)) as [->|H0]; [left; auto|right; auto]. Qed.

Lemma fx_nn : nn fx_s = 1.
Proof. reflexivity. Qed.

Lemma fx_holder t n : holder (thr fx_s t) = Some n -> t = 0 /\ n = 0.
Proof. destruct (fx_thr t) as [[-> ->]|[_ ->]]; cbn; intros [= <-]; auto. Qed.

Lemma fx_WF2 : WF2 fx_s.
Proof.
  constructor.
  - intros t Hr. destruct (fx_thr t) as [[_ E]|[_ E]]; rewrite E in *; try discriminate Hr. split.
    + cbn. repeat split; try reflexivity; try (repeat constructor; fail); try discriminate; cbn; unfold WORD; try lia.
    + rewrite fx_nn. repeat constructor; cbn; try lia; try (exists 0; split; [lia|reflexivity]).
  - intros t n H. apply fx_holder in H as [_ ->]. rewrite fx_nn. lia.
  - intros t t' n H H'. apply fx_holder in H as [-> _]. apply fx_holder in H' as [-> _]. reflexivity.
  - intros n Hn. rewrite fx_nn in Hn. assert (n = 0) as -> by lia. split; [|reflexivity].
    intros _. exists 0. reflexivity.
  - intros t n _ H. apply fx_holder in H as [-> ->]. cbn. split; reflexivity.
  - intros n Hn H. rewrite fx_nn in Hn. assert (n = 0) as -> by lia. exfalso. apply (H 0). reflexivity.
  - intros n Hn. rewrite fx_nn in Hn. assert (n = 0) as -> by lia. left. reflexivity.
  - intros n Hn. rewrite fx_nn in Hn. assert (n = 0) as -> by lia. exists 0. split; [rewrite fx_nn; lia|reflexivity].
Qed.

Lemma fx_Quiet : Quiet fx_s.
Proof.
  constructor; intros t; destruct (fx_thr t) as [[_ E]|[_ E]]; rewrite E.
  - intros H. exfalso. apply H. reflexivity.
  - intros _. split; reflexivity.
  - cbn. repeat split; discriminate.
  - exact I.
  - intros [H|[H|[H|[]]]]; discriminate H.
  - intros [].
Qed.

Lemma fx_EnvInv : EnvInv fx_s.
Proof.
  assert (Htok : forall e k, tok_holds fx_s e k -> k = TOffer 0).
  { intros e k T. destruct k as [n|w|t|t].
    - destruct T as (Hn & _). rewrite fx_nn in Hn. f_equal. lia.
    - exfalso. destruct T as (Hw & T). rewrite fx_nn in Hw. assert (w = 0) as -> by lia.
      cbn in T. assert (Hz : fx_mem (LCtrl 0) = 0) by reflexivity. rewrite Hz in T. unfold env_val in T. lia.
    - exfalso. apply tok_read_iff in T. destruct (fx_thr t) as [[_ E]|[_ E]]; rewrite E in T; discriminate T.
    - exfalso. apply tok_help_iff in T. destruct (fx_thr t) as [[_ E]|[_ E]]; rewrite E in T; discriminate T. }
  constructor.
  - intros e k1 k2 T1 T2. rewrite (Htok e k1 T1), (Htok e k2 T2). reflexivity.
  - apply MineA_iff. intros t n mine Ho H. destruct (fx_thr t) as [[_ E]|[_ E]]; rewrite E in Ho, H; [|discriminate H].
    cbn in Ho, H. injection Ho as <-. injection H as <-. reflexivity.
  - apply EnvA_iff. intros t r mine H. destruct (fx_thr t) as [[_ E]|[_ E]]; rewrite E in H; discriminate H.
Qed.

Lemma fx_not_EnvFree : ~ EnvFree fx_s.
Proof.
  intros F. destruct (F 0 0 0 0 2 0 4 4 [WSwap 0; KDone None] eq_refl eq_refl) as (H & _).
  apply (H 7); reflexivity.
Qed.

(** [EnvFree] does not follow from [WF2], [Quiet] and [EnvInv] alone. *)
Theorem EnvFree_needs_CtlFresh : exists s, WF2 s /\ Quiet s /\ EnvInv s /\ ~ EnvFree s.
Proof. exists fx_s. split; [exact fx_WF2|]. split; [exact fx_Quiet|]. split; [exact fx_EnvInv|exact fx_not_EnvFree]. Qed.

Print Assumptions EnvFree_needs_CtlFresh.
