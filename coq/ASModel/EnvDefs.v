(** * ASModel.EnvDefs — hand-over envelopes change hands, they are never shared: definitions.

    Every node brings one envelope (its initial space offer).  A writer that helps a reader
    fills the envelope it currently offers, publishes it in the reader's control word and takes
    the reader's offered envelope in exchange; the reader reads the envelope it was handed and
    makes it its new offer.  [EX]: at every moment an envelope is in exactly one place — it is
    the valid offer of one node, or it is named by one control word, or one reader is about to
    read / adopt it, or one helper is about to adopt it.  Consequences used by the accounting
    proof: nobody overwrites an envelope between the helper's write and the reader's read
    ([EnvFree], [EnvA]). *)
From Coq Require Import Lia.
From ASModel Require Import Base State Orderings_gen Step Run Progress Hist Inv InvTl InvProto InvStep Sum StepCases GenDefs.

(** The offer word of node [n] is logically its own: its control word does not carry a
    replacement (then the helper has taken the offer in exchange) and its owner is not in the
    middle of adopting another envelope. *)
Definition offer_valid (s : state) (n : N) : Prop :=
  N.land (mem (sh s) (LCtrl n)) TAG_MASK <> REPLACEMENT_TAG /\
  forall t, owner (thr s t) = Some n ->
    match t_stack (thr s t) with
    | LH7 _ _ :: _ | LH8 _ _ _ :: _ | PE8 _ _ _ _ :: _ => False
    | _ => True
    end.

Inductive etok := TOffer (n : N) | TCtl (w : N) | TRead (t : N) | THelp (t : N).

Definition tok_holds (s : state) (e : N) (k : etok) : Prop :=
  match k with
  | TOffer n => n < nn s /\ mem (sh s) (LOffer n) = env_val e /\ offer_valid s n
  | TCtl w => w < nn s /\ mem (sh s) (LCtrl w) = env_val e + 1
  | TRead t => exists cand rest, t_stack (thr s t) = LH7 cand e :: rest \/
                                 exists r, t_stack (thr s t) = LH8 cand e r :: rest
  | THelp t => exists c old w rest, t_stack (thr s t) = PE8 c old w (env_val e) :: rest
  end.

Definition EX (s : state) : Prop :=
  forall e k1 k2, tok_holds s e k1 -> tok_holds s e k2 -> k1 = k2.

(** Frame assertions of a helper: the envelope it fills is the current offer of its own node,
    and once filled it holds the replacement. *)
Definition MineA (s : state) : Prop :=
  forall t n c old w ctl r their mine rest,
    owner (thr s t) = Some n ->
    (t_stack (thr s t) = PE6 c old w ctl r their mine :: rest \/
     t_stack (thr s t) = PE7 c old w ctl r their mine :: rest) ->
    mem (sh s) (LOffer n) = mine.

Definition EnvA (s : state) : Prop :=
  forall t c old w ctl r their mine rest,
    t_stack (thr s t) = PE7 c old w ctl r their mine :: rest ->
    mem (sh s) (LEnv (env_of mine)) = r.

(** What the accounting proof needs at the step that fills an envelope. *)
Definition EnvFree (s : state) : Prop :=
  forall t c old w ctl r their mine rest,
    t_status (thr s t) = Running ->
    t_stack (thr s t) = PE6 c old w ctl r their mine :: rest ->
    (forall w', N.land (mem (sh s) (LCtrl w')) TAG_MASK = REPLACEMENT_TAG ->
                env_of (mem (sh s) (LCtrl w') - N.land (mem (sh s) (LCtrl w')) TAG_MASK) <> env_of mine) /\
    (forall t' cand e rest', t_stack (thr s t') = LH7 cand e :: rest' -> e <> env_of mine) /\
    (forall t' c' old' w' ctl' r' their' mine' rest',
        t' <> t -> t_stack (thr s t') = PE7 c' old' w' ctl' r' their' mine' :: rest' -> env_of mine' <> env_of mine).

Record EnvInv (s : state) : Prop := {
  e_x : EX s;
  e_mine : MineA s;
  e_a : EnvA s;
}.
