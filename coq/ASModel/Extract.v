(** Extraction of the executable model (OCaml).  Only [ExtrOcamlBasic]; numbers stay the
    extracted inductive [N]; no [Extract Constant]. *)
From ASModel Require Import Base State Orderings_gen Step Run Sum AccDefs ProtDefs Scope Stale Stale2 StaleC StaleCViewX.
Require Extraction.
Require Import ExtrOcamlBasic.

(** Decimal conversion helpers for the driver (so that it never needs OCaml [int]s for
    64-bit values). *)
Fixpoint digits_fuel (fuel : nat) (n : N) (acc : list N) : list N :=
  match fuel with
  | O => acc
  | S f => if n <? 10 then n :: acc else digits_fuel f (n / 10) ((n mod 10) :: acc)
  end.
Definition N_digits (n : N) : list N := digits_fuel 40 n [].
Definition N_of_digits (ds : list N) : N := fold_left (fun acc d => acc * 10 + d) ds 0.

Extraction Language OCaml.

Extraction "extract/model.ml" step enabled init_state N_digits N_of_digits mkConfig acc_check_all prot_check scope_step step_stale step_stale2 step_stale3 vstep3 staleC_okb vghost0.
