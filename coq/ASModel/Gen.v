(** * ASModel.Gen — [GenInv] (GenDefs) is an inductive invariant.

    Reservations ([W_inv]), no node is ever UNUSED again ([NoUnused]), the generation word of
    a fallback request is the thread's generation ([GenTop]), and generation uniqueness
    ([GU], [GUC], [GUT]) hold in every state of every run in which no thread faults and no
    generation counter comes within one step of wrapping ([Calm]).

    The invariant needs one more (structural) ingredient that neither [WF2] nor [GenInv]
    provides: [Quiet] (Gen2) — a thread that is not running has an empty stack and no node,
    bottom frames are at the bottom of their stack, and the thread-exit frame lies directly
    under a cooldown frame.  Without it the statements are false for artificial [WF2] states
    (a stopped thread may keep arbitrary frames, e.g. a reservation in a node that does not
    exist yet).  [Quiet] holds initially and is preserved under the same hypotheses. *)
From Coq Require Import Lia ZArith.
From ASModel Require Import Base State Orderings_gen Step Run Progress Hist Inv InvTl InvProto InvStep Sum StepCases GenDefs Gen1 Gen2 Gen3.

(** ** The initial state *)
Theorem GenInv_init inits progs :
  (forall p, In p progs -> forall g, ~ In (CSetGen g) p) -> GenInv (init_state inits progs).
Proof.
  intros _.
  assert (Hth : forall t0, t_stack (thr (init_state inits progs) t0) = []).
  { intros t0. cbn. apply init_threads_stack. cbn. auto. }
  constructor.
  - intros w. replace (mem (sh (init_state inits progs)) (LWriters w)) with 0.
    + apply Total_zero_iff. intros t0. rewrite Hth. reflexivity.
    + cbn. rewrite init_stores_other by discriminate. reflexivity.
  - intros n Hn. exfalso. unfold nn in Hn. cbn in Hn. rewrite init_stores_other in Hn by discriminate. cbn in Hn. lia.
  - intros t0 _. rewrite Hth. constructor.
  - intros t0 f w ctl Hin. rewrite Hth in Hin. destruct Hin.
  - intros t0 f c w ctl Hin. rewrite Hth in Hin. destruct Hin.
  - intros t0 f w ctl their Hin. rewrite Hth in Hin. destruct Hin.
Qed.

(** ** One step *)
Theorem step_GenInv cf s t x :
  WF2 s -> Calm s -> Quiet s -> GenInv s -> NoFault (fst (step cf s t x)) ->
  GenInv (fst (step cf s t x)).
Proof.
  intros W Hc Q GI Hnf. constructor.
  - apply step_W_inv; try assumption. apply (g_w _ GI).
  - apply step_NoUnused; [assumption|]. apply (g_nu _ GI).
  - apply step_GenTop; try assumption. apply (g_top _ GI).
  - apply step_GU; assumption.
  - apply step_GUC; assumption.
  - apply step_GUT; assumption.
Qed.

(** [GenInv] together with the structural facts it rests on. *)
Record GenInvQ (s : state) : Prop := {
  gq_wf : WF2 s;
  gq_quiet : Quiet s;
  gq_inv : GenInv s;
}.

Theorem GenInvQ_init inits progs :
  (forall p, In p progs -> forall g, ~ In (CSetGen g) p) -> GenInvQ (init_state inits progs).
Proof. intros H. constructor; [apply WF2_init|apply Quiet_init|apply GenInv_init; exact H]. Qed.

Theorem step_GenInvQ cf s t x :
  Calm s -> GenInvQ s -> NoFault (fst (step cf s t x)) -> GenInvQ (fst (step cf s t x)).
Proof.
  intros Hc [W Q GI] Hnf. constructor.
  - apply step_WF2. exact W.
  - apply step_Quiet; assumption.
  - apply step_GenInv; assumption.
Qed.

(** ** Runs *)
Lemma run_state_cons cf s t x sched :
  run_state cf s ((t, x) :: sched) = run_state cf (fst (step cf s t x)) sched.
Proof. reflexivity. Qed.

Lemma run_fst cf : forall sched s, fst (run cf s sched) = run_state cf s sched.
Proof.
  induction sched as [|[t x] sched IH]; intros s; [reflexivity|].
  rewrite run_state_cons, <- IH. cbn [run]. destruct (step cf s t x) as [s1 evs]. cbn [fst].
  destruct (run cf s1 sched). reflexivity.
Qed.

Lemma NoFault_run_back cf : forall sched s, NoFault (run_state cf s sched) -> NoFault s.
Proof.
  induction sched as [|[t x] sched IH]; intros s H; [exact H|].
  rewrite run_state_cons in H. eapply NoFault_back. apply IH. exact H.
Qed.

Theorem run_GenInvQ cf : forall sched s,
  GenInvQ s ->
  (forall k, Calm (run_state cf s (firstn k sched))) ->
  NoFault (run_state cf s sched) ->
  GenInvQ (run_state cf s sched).
Proof.
  induction sched as [|[t x] sched IH]; intros s GQ Hc Hnf; [exact GQ|].
  rewrite run_state_cons in *. apply IH.
  - apply step_GenInvQ; [exact (Hc 0%nat)|exact GQ|]. eapply NoFault_run_back. exact Hnf.
  - intros k. exact (Hc (S k)).
  - exact Hnf.
Qed.

(** In every run from an initial state in which no thread faults and every state is [Calm],
    [GenInv] holds at the end (hence, applying the theorem to prefixes, in every state). *)
Theorem run_GenInv cf inits progs sched :
  (forall p, In p progs -> forall g, ~ In (CSetGen g) p) ->
  (forall k, Calm (run_state cf (init_state inits progs) (firstn k sched))) ->
  NoFault (run_state cf (init_state inits progs) sched) ->
  GenInv (run_state cf (init_state inits progs) sched).
Proof.
  intros Hp Hc Hnf. apply gq_inv. apply run_GenInvQ; [apply GenInvQ_init; exact Hp|exact Hc|exact Hnf].
Qed.

Theorem run_GenInv_run cf inits progs sched :
  (forall p, In p progs -> forall g, ~ In (CSetGen g) p) ->
  (forall k, Calm (fst (run cf (init_state inits progs) (firstn k sched)))) ->
  NoFault (fst (run cf (init_state inits progs) sched)) ->
  GenInvQ (fst (run cf (init_state inits progs) sched)).
Proof.
  intros Hp Hc Hnf. rewrite run_fst in *. apply run_GenInvQ; [apply GenInvQ_init; exact Hp| |exact Hnf].
  intros k. rewrite <- run_fst. apply Hc.
Qed.

(** The second half of [Calm] is a property of the programs alone: what remains to be assumed
    of a run is that no generation counter comes within one step of wrapping. *)
Definition NoSetGen (s : state) : Prop := forall t g, ~ In (CSetGen g) (t_prog (thr s t)).
Definition GenBound (s : state) : Prop := forall t, tl_gen (t_loc (thr s t)) + 4 < WORD.

Lemma Calm_split s : Calm s <-> GenBound s /\ NoSetGen s.
Proof.
  split.
  - intros H. split; [intros t; apply H|intros t; apply H].
  - intros [H1 H2] t. split; [apply H1|apply H2].
Qed.

Lemma init_threads_prog (P : list cmd -> Prop) progs : forall t f t0,
  P (t_prog (f t0)) -> (forall p, In p progs -> P p) -> P (t_prog (init_threads progs t f t0)).
Proof.
  induction progs as [|p progs IH]; intros t f t0 H0 Hp; [exact H0|].
  cbn [init_threads]. apply IH.
  - unfold upd. destruct (decide (t0 = t)); [apply Hp; left; reflexivity|exact H0].
  - intros q Hq. apply Hp. right. exact Hq.
Qed.

Lemma NoSetGen_init inits progs :
  (forall p, In p progs -> forall g, ~ In (CSetGen g) p) -> NoSetGen (init_state inits progs).
Proof.
  intros Hp t g. cbn [init_state thr].
  apply (init_threads_prog (fun pr => ~ In (CSetGen g) pr)); [intros []|intros p Hin; apply Hp; exact Hin].
Qed.

Lemma NoSetGen_step cf s t x : NoSetGen s -> NoSetGen (fst (step cf s t x)).
Proof. intros H t' g. rewrite step_prog. apply H. Qed.

Lemma NoSetGen_run cf : forall sched s, NoSetGen s -> NoSetGen (run_state cf s sched).
Proof.
  induction sched as [|[t x] sched IH]; intros s H; [exact H|].
  rewrite run_state_cons. apply IH. apply NoSetGen_step. exact H.
Qed.

Theorem run_GenInv_bound cf inits progs sched :
  (forall p, In p progs -> forall g, ~ In (CSetGen g) p) ->
  (forall k, GenBound (run_state cf (init_state inits progs) (firstn k sched))) ->
  NoFault (run_state cf (init_state inits progs) sched) ->
  GenInvQ (run_state cf (init_state inits progs) sched).
Proof.
  intros Hp Hb Hnf. apply run_GenInvQ; [apply GenInvQ_init; exact Hp| |exact Hnf].
  intros k. apply Calm_split. split; [apply Hb|]. apply NoSetGen_run. apply NoSetGen_init. exact Hp.
Qed.

(** ** Consequences *)
Lemma ctl_gen_owner s n :
  WF2 s -> Quiet s -> n < nn s -> is_gen (mem (sh s) (LCtrl n)) ->
  exists th c, t_status (thr s th) = Running /\ owner (thr s th) = Some n /\
               req_of (thr s th) = Some (c, mem (sh s) (LCtrl n)).
Proof.
  intros W Q Hn Hg. destruct (Gen3.ctl_gen_owner s n W Q Hn Hg) as (th & c & H1 & H2 & H3 & _). eauto.
Qed.

Lemma help_cas_sound s t c old w ctl r their mine rest :
  WF2 s -> Quiet s -> GenInv s -> t_status (thr s t) = Running ->
  t_stack (thr s t) = PE7 c old w ctl r their mine :: rest ->
  mem (sh s) (LCtrl w) = ctl ->
  exists th, th <> t /\ owner (thr s th) = Some w /\ req_of (thr s th) = Some (c, ctl) /\
             mem (sh s) (LOffer w) = their.
Proof.
  intros W Q GI Hr Hs Hctl.
  assert (Hin : In (PE7 c old w ctl r their mine) (t_stack (thr s t))) by (rewrite Hs; left; reflexivity).
  pose proof (all_frames_ok s t _ W Q Hin) as Hok. cbn in Hok. destruct Hok as (Hlt & Hgen & _).
  rewrite <- Hctl in Hgen. destruct (ctl_gen_owner s w W Q Hlt Hgen) as (th & c' & Hr' & Ho & Hreq).
  rewrite Hctl in *. exists th.
  assert (c' = c) as -> by exact (g_c _ GI t _ c w ctl Hin eq_refl th c' Ho Hreq).
  split; [|split; [exact Ho|split; [exact Hreq|]]].
  - intros ->. rewrite req_of_top, Hs in Hreq. discriminate.
  - exact (g_t _ GI t _ w ctl their Hin eq_refl th c Ho Hreq).
Qed.

Print Assumptions GenInv_init.
Print Assumptions step_GenInv.
Print Assumptions step_GenInvQ.
Print Assumptions run_GenInvQ.
Print Assumptions run_GenInv.
Print Assumptions run_GenInv_run.
Print Assumptions run_GenInv_bound.
Print Assumptions ctl_gen_owner.
Print Assumptions help_cas_sound.
