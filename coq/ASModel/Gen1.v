(** * ASModel.Gen1 — tools for the reservation / generation invariants of [GenDefs]:
    the outcome of a frame step as a relation ([settle]), classification of the frames
    created by calls, and the auxiliary invariant [Quiet] (threads that stopped have an empty
    stack and no node; bottom frames are at the bottom; the thread-exit frame sits under a
    cooldown only). *)
From Coq Require Import Lia ZArith Zify ZifyClasses ZifyBool ZifyN.
From ASModel Require Import Base State Orderings_gen Step Run Progress Hist Inv InvTl InvProto InvStep Sum StepCases GenDefs.

(** ** Frames put on the stack by a [next] *)
Definition nx_frames (nx : next) : list pc :=
  match nx with NGoto p => [p] | NPush fs w => fs ++ [w] | _ => [] end.

Definition nx_stops (nx : next) : Prop :=
  match nx with NPanic _ | NFault _ => True | _ => False end.

(** The thread after a frame step that neither panics nor faults: the frames of [nx] are
    pushed, or the stack is unwound through [resume]. *)
Inductive settle (cf : config) : tlocal -> list pc -> next -> tlocal -> list pc -> status -> Prop :=
| st_goto l rest p : settle cf l rest (NGoto p) l (p :: rest) Running
| st_push l rest fs w : settle cf l rest (NPush fs w) l (fs ++ w :: rest) Running
| st_nil l v : settle cf l [] (NRet v) l [] Running
| st_bottom l v b post :
    is_bottom_frame b = true -> b <> WThreadExit -> settle cf l (b :: post) (NRet v) l [] Running
| st_exit l v post : settle cf l (WThreadExit :: post) (NRet v) l [] Exited
| st_resume l v w rest l' nx l'' stk st :
    is_bottom_frame w = false -> resume cf l w v = (l', nx) ->
    settle cf l' rest nx l'' stk st -> settle cf l (w :: rest) (NRet v) l'' stk st.

Lemma unwind_settle cf : forall rest l v,
  (forall l2 ps, unwind cf l rest v <> UPanic l2 ps) ->
  (forall l2 f, unwind cf l rest v <> UFault l2 f) ->
  match unwind cf l rest v with
  | UStack l' stk => settle cf l rest (NRet v) l' stk Running
  | UDone l' _ _ => settle cf l rest (NRet v) l' [] Running
  | UExit l' => settle cf l rest (NRet v) l' [] Exited
  | _ => False
  end.
Proof.
  induction rest as [|w rest IH]; intros l v Hp Hf; [cbn; constructor|].
  destruct w; cbn [unwind] in *;
    try (apply st_bottom; [reflexivity|discriminate]); try apply st_exit.
  all: match goal with |- context [resume ?cf0 ?l0 ?w0 ?v0] =>
         destruct (resume cf0 l0 w0 v0) as [l' nx] eqn:Hr end.
  all: destruct nx as [p'|fs w'|v'|ps|f].
  all: try (eapply st_resume; [reflexivity|exact Hr|constructor]; fail).
  all: try (exfalso; eapply Hp; reflexivity).
  all: try (exfalso; eapply Hf; reflexivity).
  all: specialize (IH l' v' Hp Hf); destruct (unwind cf l' rest v'); try contradiction;
       (eapply st_resume; [reflexivity|exact Hr|exact IH]).
Qed.

Lemma thread_after_settle cf th l1 rest nx :
  (forall ps, nx <> NPanic ps) -> (forall f, nx <> NFault f) ->
  (forall v, nx = NRet v -> forall l2 ps, unwind cf l1 rest v <> UPanic l2 ps) ->
  (forall v, nx = NRet v -> forall l2 f, unwind cf l1 rest v <> UFault l2 f) ->
  settle cf l1 rest nx (t_loc (thread_after cf th l1 rest nx)) (t_stack (thread_after cf th l1 rest nx))
         (t_status (thread_after cf th l1 rest nx)).
Proof.
  intros Hp Hf Hup Huf. destruct nx as [p'|fs w'|v'|ps|f]; cbn.
  - constructor.
  - constructor.
  - pose proof (unwind_settle cf rest l1 v' (Hup v' eq_refl) (Huf v' eq_refl)) as H.
    destruct (unwind cf l1 rest v'); cbn; try contradiction; exact H.
  - exfalso. eapply Hp; reflexivity.
  - exfalso. eapply Hf; reflexivity.
Qed.

Lemma thread_after_prog cf th l1 rest nx : t_prog (thread_after cf th l1 rest nx) = t_prog th.
Proof. unfold thread_after. destruct nx; try reflexivity. destruct (unwind cf l1 rest v); reflexivity. Qed.

(** ** Classification of frames *)
Definition top_req (p : pc) : option (N * N) :=
  match p with
  | LH3 c gt | LH3d c gt _ | LH4 c gt _ | LH5 c gt _ => Some (c, gt)
  | _ => None
  end.

Definition top_unpub (p : pc) : bool :=
  match p with LH1 _ _ | LH2 _ _ => true | _ => false end.

Lemma req_of_top th : req_of th = match t_stack th with p :: _ => top_req p | [] => None end.
Proof. unfold req_of. destruct (t_stack th) as [|p ?]; [reflexivity|]. destruct p; reflexivity. Qed.

Lemma unpublished_top th : unpublished th = match t_stack th with p :: _ => top_unpub p | [] => false end.
Proof. unfold unpublished. destruct (t_stack th) as [|p ?]; [reflexivity|]. destruct p; reflexivity. Qed.

(** Frames that carry no reservation, no helper word, no request, and are neither bottom
    frames nor the generation hook: everything a call pushes. *)
Definition simple (f : pc) : bool :=
  match f with
  | PE0d _ _ _ | PE0e _ _ _ | PE1 _ _ _ | PE2 _ _ _ _ | PE3 _ _ _ _ | WHelpRepl _ _ _ _
  | PE4 _ _ _ _ _ | PE5 _ _ _ _ _ _ | PE6 _ _ _ _ _ _ _ | PE7 _ _ _ _ _ _ _ | PE8 _ _ _ _
  | PE9 _ _ _ _ _ | PS _ _ _ _ | PSi _ _ _ _ | P5 _ _ _ | C2 _ | C3 _
  | LH1 _ _ | LH2 _ _ | LH3 _ _ | LH3d _ _ _ | LH4 _ _ _ | LH5 _ _ _
  | KDone _ | KCacheDone _ _ | WThreadExit | WGetSetGen _ => false
  | _ => true
  end.

Definition plain (f : pc) : bool :=
  match f with KDone _ | KCacheDone _ _ | WThreadExit | WGetSetGen _ => false | _ => true end.

Lemma simple_resv f : simple f = true -> resv_node f = None.
Proof. destruct f; cbn; congruence. Qed.
Lemma simple_help f : simple f = true -> help_frame f = None.
Proof. destruct f; cbn; congruence. Qed.
Lemma simple_plain f : simple f = true -> plain f = true.
Proof. destruct f; cbn; congruence. Qed.
Lemma simple_req f : simple f = true -> top_req f = None.
Proof. destruct f; cbn; congruence. Qed.
Lemma plain_not_bottom f : plain f = true -> is_bottom_frame f = false.
Proof. destruct f; cbn; congruence. Qed.
Lemma help_c_frame f c w ctl : help_c f = Some (c, w, ctl) -> help_frame f = Some (w, ctl).
Proof. destruct f; cbn; congruence. Qed.
Lemma help_their_frame f w ctl th : help_their f = Some (w, ctl, th) -> help_frame f = Some (w, ctl).
Proof. destruct f; cbn; congruence. Qed.
Lemma help_frame_resv f w ctl : help_frame f = Some (w, ctl) -> resv_node f = Some w.
Proof. destruct f; cbn; try congruence. destruct (_ =? _); congruence. Qed.

Definition all_simple (fs : list pc) : Prop := Forall (fun f => simple f = true) fs.
Definition nx_simple (nx : next) : Prop := all_simple (nx_frames nx).

Lemma resv_app w a b : resv w (a ++ b) = resv w a + resv w b.
Proof. induction a as [|p a IH]; cbn; [reflexivity|]. rewrite IH. lia. Qed.

Lemma resv_simple w fs : all_simple fs -> resv w fs = 0.
Proof.
  induction 1 as [|f fs Hf _ IH]; [reflexivity|]. cbn. unfold resv_frame. rewrite (simple_resv _ Hf), IH. reflexivity.
Qed.

(** ** Helper functions produce simple frames *)
Lemma with_exit_simple l r l' nx : with_exit l r = (l', nx) -> nx_simple nx /\ tl_gen l' = tl_gen l.
Proof.
  unfold with_exit. intros H. destr_in H; injection H as <- <-; cbn; (split; [|reflexivity]); repeat constructor.
Qed.

Lemma dec_then_simple a r : nx_simple (dec_then a r).
Proof. unfold dec_then. destruct (a =? 0); repeat constructor. Qed.

Lemma guard_drop_simple p d : all_simple (guard_drop_frames p d).
Proof. unfold guard_drop_frames. destruct d; [|destruct (p =? 0)]; repeat constructor. Qed.
Lemma guard_into_simple p d : all_simple (guard_into_frames p d).
Proof. unfold guard_into_frames. destruct d; [destruct (p =? 0)|]; repeat constructor. Qed.

Lemma enter_pay_simple l c old l' fs : enter_pay l c old = (l', fs) -> all_simple fs /\ tl_gen l' = tl_gen l.
Proof.
  unfold enter_pay, pay_body. intros H. destr_in H; injection H as <- <-; (split; [|reflexivity]); repeat constructor.
Qed.

(** Frames pushed by a call, with the generation counter: either nothing special happens,
    or the call enters the fallback path: the counter advances and the top frame is [LH1]
    with the new generation. *)
Definition call_shape (l l' : tlocal) (fs : list pc) : Prop :=
  (all_simple fs /\ tl_gen l' = tl_gen l) \/
  (exists c fs', fs = LH1 c (N.lor (tl_gen l') GEN_TAG) :: fs' /\ all_simple fs' /\
                 tl_gen l' = (tl_gen l + 4) mod WORD).

Definition nx_call (l l' : tlocal) (nx : next) : Prop := call_shape l l' (nx_frames nx).

Lemma all_simple_app a b : all_simple a -> all_simple b -> all_simple (a ++ b).
Proof. intros. apply Forall_app. split; assumption. Qed.

Lemma call_shape_app l l' fs ws : call_shape l l' fs -> all_simple ws -> call_shape l l' (fs ++ ws).
Proof.
  intros [[Hs Hg]|(c & fs' & -> & Hs & Hg)] Hw; [left|right].
  - split; [apply all_simple_app; assumption|exact Hg].
  - exists c, (fs' ++ ws). split; [reflexivity|]. split; [apply all_simple_app; assumption|exact Hg].
Qed.

Lemma call_shape_simple l fs : all_simple fs -> call_shape l l fs.
Proof. intros H. left. split; [exact H|reflexivity]. Qed.

Lemma fallback_entry_call cf l c l' nx : fallback_entry cf l c = (l', nx) -> nx_call l l' nx.
Proof.
  unfold fallback_entry, nx_call. intros H. destr_in H; injection H as <- <-; cbn.
  - left. split; [repeat constructor|reflexivity].
  - right. eexists _, []. split; [reflexivity|]. split; [constructor|reflexivity].
  - left. split; [constructor|reflexivity].
Qed.

Lemma gen_step_call cf l c l' nx : gen_step cf l c = (l', nx) -> nx_call l l' nx.
Proof.
  unfold gen_step, nx_call. intros H. destr_in H; injection H as <- <-; cbn.
  - left. split; [constructor|reflexivity].
  - right. eexists _, []. split; [reflexivity|]. split; [constructor|reflexivity].
Qed.

Lemma load_body_call cf l c l' nx : load_body cf l c = (l', nx) -> nx_call l l' nx.
Proof.
  unfold load_body. destruct (cf_use_fast cf); [|apply fallback_entry_call].
  intros [= <- <-]. left. split; [repeat constructor|reflexivity].
Qed.

Lemma enter_load_call cf l c l' fs : enter_load cf l c = inl (l', fs) -> call_shape l l' fs /\ fs <> [].
Proof.
  unfold enter_load. intros H. destruct (tl_node l).
  - destruct (load_body cf (tl_set_depth l (tl_depth l + 1)) c) as [l2 nx] eqn:Hb.
    apply load_body_call in Hb. destruct nx; try discriminate.
    injection H as <- <-. split; [exact Hb|discriminate].
  - injection H as <- <-. split; [|discriminate]. left. split; [repeat constructor|reflexivity].
Qed.

Lemma with_exit_call l r l' nx : with_exit l r = (l', nx) -> nx_call l l' nx.
Proof. intros H. apply with_exit_simple in H as [H1 H2]. left. split; assumption. Qed.

Lemma enter_pay_call l c old l' fs : enter_pay l c old = (l', fs) -> call_shape l l' fs.
Proof. intros H. apply enter_pay_simple in H as [H1 H2]. left. split; assumption. Qed.

(** Consequences of [call_shape]. *)
Lemma simple_gen_ok l f : simple f = true -> gen_frame_ok l f.
Proof. destruct f; cbn; try congruence; auto. Qed.
Lemma simple_unpub f : simple f = true -> top_unpub f = false.
Proof. destruct f; cbn; congruence. Qed.

Lemma call_shape_plain l l' fs : call_shape l l' fs -> Forall (fun f => plain f = true) fs.
Proof.
  intros [[Hs _]|(c & fs' & -> & Hs & _)]; [|constructor; [reflexivity|]];
    (eapply Forall_impl; [|exact Hs]); apply simple_plain.
Qed.

Lemma call_shape_resv l l' fs w : call_shape l l' fs -> resv w fs = 0.
Proof.
  intros [[Hs _]|(c & fs' & -> & Hs & _)]; [apply resv_simple; exact Hs|].
  cbn. rewrite (resv_simple _ _ Hs). reflexivity.
Qed.

Lemma call_shape_help l l' fs f : call_shape l l' fs -> In f fs -> help_frame f = None.
Proof.
  intros [[Hs _]|(c & fs' & -> & Hs & _)] Hin.
  - apply simple_help. exact (proj1 (Forall_forall _ _) Hs f Hin).
  - destruct Hin as [<-|Hin]; [reflexivity|]. apply simple_help. exact (proj1 (Forall_forall _ _) Hs f Hin).
Qed.

Lemma call_shape_gentop l l' fs : call_shape l l' fs -> Forall (gen_frame_ok l') fs.
Proof.
  intros [[Hs _]|(c & fs' & -> & Hs & _)]; [|constructor; [reflexivity|]];
    (eapply Forall_impl; [|exact Hs]); apply simple_gen_ok.
Qed.

Definition hd_unpub (fs : list pc) : bool := match fs with f :: _ => top_unpub f | [] => false end.
Definition hd_req (fs : list pc) : option (N * N) := match fs with f :: _ => top_req f | [] => None end.

Lemma call_shape_gen l l' fs : tl_gen l + 4 < WORD -> call_shape l l' fs ->
  tl_gen l <= tl_gen l' /\ (hd_unpub fs = true -> tl_gen l < tl_gen l').
Proof.
  intros Hc [[Hs Hg]|(c & fs' & -> & Hs & Hg)].
  - split; [lia|]. destruct fs as [|f fs]; cbn; [discriminate|]. inversion Hs; subst.
    rewrite simple_unpub by assumption. discriminate.
  - rewrite N.mod_small in Hg by exact Hc. split; [lia|]. intros _. lia.
Qed.

Lemma call_shape_req l l' fs : call_shape l l' fs -> hd_req fs = None.
Proof.
  intros [[Hs _]|(c & fs' & -> & Hs & _)]; [|reflexivity].
  destruct fs as [|f fs]; [reflexivity|]. inversion Hs; subst. apply simple_req. assumption.
Qed.

(** ** The frame step: ordinary program points *)
Definition special_pc (p : pc) : bool :=
  match p with
  | P3 _ _ _ | PE0d _ _ _ | PE0e _ _ _ | PE1 _ _ _ | PE2 _ _ _ _ | PE3 _ _ _ _
  | PE4 _ _ _ _ _ | PE5 _ _ _ _ _ _ | PE6 _ _ _ _ _ _ _ | PE7 _ _ _ _ _ _ _ | PE8 _ _ _ _
  | PE9 _ _ _ _ _ | PS _ _ _ _ | PSi _ _ _ _ | C1 _ | C2 _
  | LH1 _ _ | LH2 _ _ | LH3 _ _ | LH3d _ _ _ | LH4 _ _ _ => true
  | _ => false
  end.

Ltac exec_norm He :=
  unfold exec in He; unfold a_load, a_store, a_swap, a_cas, a_fadd, a_fsub in He; cbn in He;
  destr_in He; try discriminate; try (injection He as <- <- <- <-).

Lemma exec_call cf s l p x s' l' evs nx :
  special_pc p = false ->
  exec cf s l p x = (s', l', evs, nx) ->
  nx_call l l' nx.
Proof.
  intros Hsp He. destruct p; try discriminate Hsp; clear Hsp; exec_norm He.
  all: try (match goal with
            | H : with_exit _ _ = (_, ?n) |- nx_call _ _ ?n => exact (with_exit_call _ _ _ _ H)
            | H : fallback_entry _ _ _ = (_, ?n) |- nx_call _ _ ?n => exact (fallback_entry_call _ _ _ _ _ H)
            | H : gen_step _ _ _ = (_, ?n) |- nx_call _ _ ?n => exact (gen_step_call _ _ _ _ _ H)
            end).
  all: unfold nx_call.
  all: try (apply call_shape_simple; first [apply dec_then_simple | cbn; repeat constructor]; fail).
  all: try (match goal with
            | H : enter_load _ _ _ = inl (_, ?fs) |- call_shape _ _ (nx_frames (NPush (?fs ++ _) _)) =>
                apply enter_load_call in H as [H _]; cbn [nx_frames];
                apply call_shape_app; [apply call_shape_app; [exact H|]|]; repeat constructor
            | H : enter_load _ _ _ = inl (_, ?fs) |- call_shape _ _ (nx_frames (NPush ?fs _)) =>
                apply enter_load_call in H as [H _]; cbn [nx_frames];
                apply call_shape_app; [exact H|]; repeat constructor
            | H : enter_pay _ _ _ = (_, ?fs) |- call_shape _ _ (nx_frames (NPush ?fs _)) =>
                apply enter_pay_call in H; cbn [nx_frames];
                apply call_shape_app; [exact H|]; repeat constructor
            | H : guard_drop_frames ?v ?d = ?fs |- call_shape _ _ (nx_frames (NPush ?fs _)) =>
                cbn [nx_frames]; apply call_shape_simple; apply all_simple_app; [rewrite <- H; apply guard_drop_simple|repeat constructor]
            end).
  all: left; split; [cbn; repeat constructor|reflexivity].
Qed.

(** ** The frame step: the program points of the helping protocol and of the request *)
Definition special_next (cf : config) (s : shared) (l : tlocal) (p : pc) (l' : tlocal) (nx : next) : Prop :=
  match p with
  | P3 c old w => l' = l /\ (nx = NGoto (PE0d c old w) \/ nx = NGoto (PE1 c old w))
  | PE0d c old w => l' = l /\ nx = NGoto (PE0e c old w)
  | PE0e c old w => l' = l /\ nx = NGoto (PE1 c old w)
  | PE1 c old w => l' = l /\ nx = help_dispatch cf l c old w (mem s (LCtrl w))
  | PE2 c old w ctl =>
      (l' = l /\ nx = NGoto (PE3 c old w ctl)) \/
      (mem s (LAddr w) = store_val c /\
       exists fs, enter_load cf l c = inl (l', fs) /\ nx = NPush (fs ++ [WLoadFull]) (WHelpRepl c old w ctl))
  | PE3 c old w ctl =>
      l' = l /\ (nx = NGoto (PS c old w 0) \/ nx = help_dispatch cf l c old w (mem s (LCtrl w)))
  | PE4 c old w ctl r => l' = l /\ nx = NGoto (PE5 c old w ctl r (mem s (LOffer w)))
  | PE5 c old w ctl r their => l' = l /\ exists mine, nx = NGoto (PE6 c old w ctl r their mine)
  | PE6 c old w ctl r their mine => l' = l /\ nx = NGoto (PE7 c old w ctl r their mine)
  | PE7 c old w ctl r their mine =>
      l' = l /\ (nx = NGoto (PE8 c old w their) \/ nx = help_dispatch cf l c old w (mem s (LCtrl w)) \/
                 nx = NGoto (PE9 c old w (mem s (LCtrl w)) r))
  | PE8 c old w their => l' = l /\ nx = NGoto (PS c old w 0)
  | PE9 c old w newctl r => l' = l /\ nx = help_dispatch cf l c old w newctl
  | PS c old w j => l' = l /\ (nx = NGoto (PSi c old w j) \/ nx = after_slot c old w j)
  | PSi c old w j => l' = l /\ nx = after_slot c old w j
  | C1 w => l' = l /\ nx = NGoto (C2 w)
  | C2 w => l' = l /\ nx = NGoto (C3 w)
  | LH1 c gt => l' = l /\ nx = NGoto (LH2 c gt)
  | LH2 c gt => tl_gen l' = tl_gen l /\ tl_node l' = tl_node l /\ nx = NGoto (LH3 c gt)
  | LH3 c gt => l' = l /\ exists v, nx = NGoto (LH3d c gt v) \/ nx = NGoto (LH4 c gt v)
  | LH3d c gt v => l' = l /\ nx = NGoto (LH4 c gt v)
  | LH4 c gt v => l' = l /\ nx = NGoto (LH5 c gt v)
  | _ => True
  end.

Lemma exec_special cf s l p x s' l' evs nx :
  exec cf s l p x = (s', l', evs, nx) -> ~ nx_stops nx ->
  special_next cf s l p l' nx.
Proof.
  intros He Hns. destruct p; try exact I; exec_norm He; cbn [special_next];
    try (exfalso; apply Hns; exact I); eauto 8.
  - right. apply N.eqb_eq in Heqb. eauto.
Qed.

Lemma help_dispatch_cases cf l c old w ctl :
  nx_stops (help_dispatch cf l c old w ctl) \/ help_dispatch cf l c old w ctl = NGoto (PS c old w 0) \/
  (is_gen ctl /\ help_dispatch cf l c old w ctl = NGoto (PE2 c old w ctl)).
Proof.
  unfold help_dispatch.
  repeat match goal with |- context [if ?b then _ else _] => destruct b eqn:? end; cbn; auto.
  right. right. split; [|reflexivity]. apply is_gen_of_tag. assumption.
Qed.

Lemma after_slot_cases c old w j :
  after_slot c old w j = NGoto (P5 c old w) \/ after_slot c old w j = NGoto (PS c old w (j + 1)).
Proof. unfold after_slot. destruct (j =? HSLOT); auto. Qed.

(** ** Memory effects of a frame step on the reservation counters and the space offers *)
Lemma node_init_writers s n k : mem (node_init s n) (LWriters k) = if decide (k = n) then 0 else mem s (LWriters k).
Proof.
  unfold node_init. cbn. destruct (decide (k = n)) as [->|Hne].
  - rewrite upd_same. reflexivity.
  - repeat (rewrite upd_other by (discriminate || congruence)). reflexivity.
Qed.

Ltac mem_simp :=
  cbn [mem m_set] in *; unfold slot_loc;
  repeat match goal with
         | H : rc_inc _ _ = Some (?s0, _) |- context [mem ?s0 ?l0] =>
             rewrite (rc_inc_other _ _ _ _ l0 H) by discriminate
         | H : rc_dec _ _ = Some (?s0, _) |- context [mem ?s0 ?l0] =>
             rewrite (rc_dec_other _ _ _ _ l0 H) by discriminate
         | H : rc_alloc _ _ = Some (?s0, _) |- context [mem ?s0 ?l0] =>
             rewrite (rc_alloc_other _ _ _ _ l0 H) by discriminate
         end;
  rewrite ?upd_other by discriminate.

Lemma exec_writers cf s l p x s' l' evs nx w :
  exec cf s l p x = (s', l', evs, nx) ->
  match p with
  | P3 _ _ w0 | C1 w0 => mem s' (LWriters w) = mem s (LWriters w) + ind (w0 =? w)
  | P5 _ _ w0 | C3 w0 => mem s' (LWriters w) = mem s (LWriters w) - ind (w0 =? w)
  | GPush h => mem s' (LWriters w) = mem s (LWriters w) \/ (mem s LHead = h /\ w = h /\ mem s' (LWriters w) = 0)
  | _ => mem s' (LWriters w) = mem s (LWriters w)
  end.
Proof.
  intros He. destruct p; exec_norm He; mem_simp; try reflexivity.
  all: try (destruct (N.eqb_spec w0 w) as [->|Hne]; cbn [ind];
            [rewrite upd_same|rewrite upd_other by congruence]; lia).
  all: try (destruct (N.eqb_spec n w) as [->|Hne]; cbn [ind];
            [rewrite upd_same|rewrite upd_other by congruence]; lia).
  - rewrite node_init_writers. destruct (decide (w = head)) as [->|Hne].
    + right. apply andb_prop in Heqb as [Hh _]. apply N.eqb_eq in Hh. auto.
    + left. mem_simp. reflexivity.
  - left. reflexivity.
Qed.

Lemma exec_offer cf s l p x s' l' evs nx :
  exec cf s l p x = (s', l', evs, nx) ->
  match p with
  | LH8 _ _ _ | PE8 _ _ _ _ => forall k, k <> own_node l -> mem s' (LOffer k) = mem s (LOffer k)
  | GPush h => forall k, mem s' (LOffer k) = mem s (LOffer k) \/ (mem s LHead = h /\ k = h)
  | _ => forall k, mem s' (LOffer k) = mem s (LOffer k)
  end.
Proof.
  intros He. destruct p; exec_norm He; intros k0; mem_simp; try reflexivity.
  all: try (intros Hne; rewrite upd_other by congruence; reflexivity).
  - rewrite node_init_offer. destruct (decide (k0 = head)) as [->|Hne].
    + right. apply andb_prop in Heqb as [Hh _]. apply N.eqb_eq in Hh. auto.
    + left. mem_simp. reflexivity.
  - left. reflexivity.
Qed.

(** The thread's node changes only when [Node::get] hands one out. *)
Lemma exec_node cf s l p x s' l' evs nx :
  exec cf s l p x = (s', l', evs, nx) ->
  tl_node l' = tl_node l \/ tl_node l' = None \/
  exists k, tl_node l' = Some k /\
    ((p = GCool3 k /\ mem s (LWriters k) = 0) \/ (p = GClaim k /\ mem s (LInUse k) = NODE_UNUSED) \/
     (p = GPush k /\ mem s LHead = k)).
Proof.
  intros He. destruct p; exec_norm He.
  all: repeat match goal with
         | H : with_exit _ _ = (_, _) |- _ => apply with_exit_node in H
         | H : fallback_entry _ _ _ = (_, _) |- _ => apply fallback_entry_node in H
         | H : gen_step _ _ _ = (_, _) |- _ => apply gen_step_node in H
         | H : enter_load _ _ _ = inl (_, _) |- _ => apply enter_load_node in H
         | H : enter_pay _ _ _ = (_, _) |- _ => apply enter_pay_node in H
         end.
  all: try (left; cbn; congruence).
  all: try (match goal with H : _ \/ _ |- _ => destruct H as [[Hq _]|(n0 & _ & Hq & _)]; [left; congruence|right; left; exact Hq] end).
  all: right; right; eexists; (split; [reflexivity|]).
  all: repeat match goal with
         | H : (_ =? _) = true |- _ => apply N.eqb_eq in H
         | H : (_ && _) = true |- _ => apply andb_prop in H; destruct H
         end; auto.
Qed.

(** ** Resuming a waiting frame *)
Lemma call_shape_eq l0 l l' fs : tl_gen l0 = tl_gen l -> call_shape l0 l' fs -> call_shape l l' fs.
Proof. intros E [[H1 H2]|(c & fs' & H1 & H2 & H3)]; [left|right]; [split; congruence|]. exists c, fs'. rewrite <- E. auto. Qed.

Lemma rcu_attempt_call cf l c m p d l' nx : rcu_attempt cf l c m p d = (l', nx) -> nx_call l l' nx.
Proof.
  intros He. unfold rcu_attempt in He. destr_in He; try discriminate; injection He as <- <-; unfold nx_call.
  all: try (apply call_shape_simple; cbn; repeat constructor; fail).
  all: try (match goal with
            | H : enter_load _ _ _ = inl (_, ?fs) |- call_shape _ _ (nx_frames (NPush (?fs ++ _) _)) =>
                apply enter_load_call in H as [H _]; cbn [nx_frames];
                apply call_shape_app; [apply call_shape_app; [exact H|]|]; repeat constructor
            | H : guard_drop_frames ?v ?d = ?fs |- call_shape _ _ (nx_frames (NPush ?fs _)) =>
                cbn [nx_frames]; apply call_shape_simple; apply all_simple_app; [rewrite <- H; apply guard_drop_simple|repeat constructor]
            end).
Qed.

Lemma resume_call cf l w v l' nx :
  resume cf l w v = (l', nx) -> (forall g, w <> WGetSetGen g) ->
  nx_call l l' nx \/
  (exists c old n ctl r, w = WHelpRepl c old n ctl /\ l' = l /\ nx = NGoto (PE4 c old n ctl r)).
Proof.
  intros He Hg. destruct w; unfold resume in He; destr_in He; try discriminate.
  all: try (exfalso; eapply Hg; reflexivity).
  all: try (match type of He with rcu_attempt _ _ _ _ _ _ = _ => left; eapply rcu_attempt_call; exact He end).
  all: try (injection He as <- <-).
  all: try (right; repeat eexists; fail).
  all: left; unfold nx_call.
  all: try (match goal with
            | H : load_body _ _ _ = (_, ?n) |- call_shape _ _ (nx_frames ?n) =>
                apply load_body_call in H; eapply call_shape_eq; [|exact H]; reflexivity
            end).
  all: try (apply call_shape_simple; first [apply dec_then_simple | cbn; unfold pay_body; try destruct (_ =? 0); repeat constructor]; fail).
  all: try (left; split; [cbn; unfold pay_body; try destruct (_ =? 0); repeat constructor|reflexivity]; fail).
  all: try (match goal with
            | H : enter_load _ _ _ = inl (_, ?fs) |- call_shape _ _ (nx_frames (NPush (?fs ++ _) _)) =>
                apply enter_load_call in H as [H _]; cbn [nx_frames];
                apply call_shape_app; [apply call_shape_app; [exact H|]|]; repeat constructor
            | H : enter_load _ _ _ = inl (_, ?fs) |- call_shape _ _ (nx_frames (NPush ?fs _)) =>
                apply enter_load_call in H as [H _]; cbn [nx_frames];
                apply call_shape_app; [exact H|]; repeat constructor
            | H : guard_drop_frames ?v ?d = ?fs |- call_shape _ _ (nx_frames (NPush ?fs _)) =>
                cbn [nx_frames]; apply call_shape_simple; apply all_simple_app; [rewrite <- H; apply guard_drop_simple|repeat constructor]
            | H : guard_into_frames ?v ?d = ?fs |- call_shape _ _ (nx_frames (NPush ?fs _)) =>
                cbn [nx_frames]; apply call_shape_simple; apply all_simple_app; [rewrite <- H; apply guard_into_simple|repeat constructor]
            end).
  pose proof (guard_into_simple p d) as HG. rewrite Heql0 in HG. inversion HG; subst.
  apply call_shape_simple. cbn. repeat constructor. assumption.
Qed.

(** ** Starting a command *)
Definition bottom_tail (bs : list pc) : Prop :=
  bs = [] \/ exists b, bs = [b] /\ is_bottom_frame b = true /\ b <> WThreadExit.

Lemma cmd_start_call cf s l c s' l' stk r :
  cmd_start cf s l c = inl (s', l', stk, r) -> (forall g, c <> CSetGen g) ->
  exists fs bs, stk = fs ++ bs /\ call_shape l l' fs /\ bottom_tail bs.
Proof.
  intros Hc Hg.
  assert (Hbt : forall b, is_bottom_frame b = true -> b <> WThreadExit -> bottom_tail [b]).
  { intros b H1 H2. right. eauto. }
  destruct c; cbn in Hc; destr_in Hc; try discriminate; injection Hc as <- <- <- <-.
  all: try (exfalso; eapply Hg; reflexivity).
  all: repeat match goal with
         | H : enter_load _ _ _ = inl (_, _) |- _ => apply enter_load_call in H as [H _]
         | H : enter_pay _ _ _ = (_, _) |- _ => apply enter_pay_call in H
         end.
  all: lazymatch goal with
       | |- exists fs bs, [] = _ /\ _ => exists [], []; split; [reflexivity|]; split; [apply call_shape_simple; constructor|left; reflexivity]
       | |- exists fs bs, [?a; ?b] = _ /\ _ => exists [a], [b]; split; [reflexivity|]; split; [apply call_shape_simple; repeat constructor|apply Hbt; [reflexivity|discriminate]]
       | |- exists fs bs, [?a; ?a2; ?b] = _ /\ _ => exists [a; a2], [b]; split; [reflexivity|]; split; [apply call_shape_simple; repeat constructor|apply Hbt; [reflexivity|discriminate]]
       | |- exists fs bs, ?fs0 ++ [?b] = _ /\ _ => exists fs0, [b]; split; [reflexivity|]; split; [|apply Hbt; [reflexivity|discriminate]]
       | |- exists fs bs, ?fs0 ++ [?a; ?b] = _ /\ _ => exists (fs0 ++ [a]), [b]; split; [rewrite <- app_assoc; reflexivity|]; split; [|apply Hbt; [reflexivity|discriminate]]
       | _ => idtac
       end.
  all: try assumption.
  all: try (apply call_shape_app; [assumption|repeat constructor]).
  all: try (match goal with
            | H : guard_drop_frames ?v ?d = ?fs |- call_shape _ _ ?fs => apply call_shape_simple; rewrite <- H; apply guard_drop_simple
            | H : guard_into_frames ?v ?d = ?fs |- call_shape _ _ ?fs => apply call_shape_simple; rewrite <- H; apply guard_into_simple
            end).
  all: match goal with |- exists fs bs, ?a :: ?fs0 ++ [?b] = _ /\ _ =>
         exists (a :: fs0), [b]; split; [reflexivity|]; split; [|apply Hbt; [reflexivity|discriminate]] end.
  all: match goal with
       | H : guard_drop_frames ?v ?d = ?fs |- call_shape _ _ ?fs => apply call_shape_simple; rewrite <- H; apply guard_drop_simple
       | H : guard_into_frames ?v ?d = ?fs |- call_shape _ _ ?fs => apply call_shape_simple; rewrite <- H; apply guard_into_simple
       end.
Qed.

(** ** Properties of the settled stack *)
Lemma resume_waiting cf l w v l' nx :
  resume cf l w v = (l', nx) -> ~ nx_stops nx -> is_waiting w = true.
Proof.
  intros He Hn. destruct w; try reflexivity; cbn in He; injection He as <- <-; exfalso; apply Hn; exact I.
Qed.

Lemma waiting_resv w : is_waiting w = true -> resv_node w = None \/ exists c old n ctl, w = WHelpRepl c old n ctl.
Proof. destruct w; cbn; try discriminate; eauto 6. Qed.

Lemma settle_stops cf l rest nx l2 stk st : settle cf l rest nx l2 stk st -> ~ nx_stops nx.
Proof. intros H. inversion H; subst; cbn; auto. Qed.

Lemma resume_resv cf l w v l' nx k :
  resume cf l w v = (l', nx) -> ~ nx_stops nx -> resv k (nx_frames nx) = resv_frame k w.
Proof.
  intros He Hn. pose proof (resume_waiting _ _ _ _ _ _ He Hn) as Hw.
  destruct (waiting_resv w Hw) as [Hr|(c & old & n & ctl & ->)].
  - unfold resv_frame. rewrite Hr.
    assert (Hg : (forall g, w <> WGetSetGen g) \/ exists g, w = WGetSetGen g).
    { destruct w; try (left; discriminate). right. eauto. }
    destruct Hg as [Hg|(g & ->)].
    + destruct (resume_call _ _ _ _ _ _ He Hg) as [Hc|(c & old & n & ctl & r & -> & _)]; [|discriminate Hr].
      eapply call_shape_resv. exact Hc.
    + cbn in He. destr_in He; injection He as <- <-; reflexivity.
  - cbn in He. destr_in He; injection He as <- <-; try (exfalso; apply Hn; exact I).
    cbn. unfold resv_frame. cbn. lia.
Qed.

Fixpoint bl (stk : list pc) : Prop :=
  match stk with [] => True | q :: rest => (is_bottom_frame q = true -> rest = []) /\ bl rest end.

Lemma settle_resv cf l rest nx l2 stk st k :
  settle cf l rest nx l2 stk st -> bl rest ->
  resv k stk = resv k (nx_frames nx) + resv k rest.
Proof.
  induction 1 as [l rest p|l rest fs w|l v|l v b post Hb Hne|l v post|l v w rest l' nx l'' stk st Hb Hr Hs IH]; intros Hbl.
  - cbn. lia.
  - cbn [nx_frames]. rewrite !resv_app. cbn. lia.
  - reflexivity.
  - cbn. destruct Hbl as [Hp _]. rewrite (Hp Hb). destruct b; try discriminate; reflexivity.
  - cbn. destruct Hbl as [Hp _]. rewrite (Hp eq_refl). reflexivity.
  - destruct Hbl as [_ Hbl]. rewrite (IH Hbl). cbn.
    rewrite (resume_resv _ _ _ _ _ _ k Hr (settle_stops _ _ _ _ _ _ _ Hs)). lia.
Qed.

Lemma gen_frame_ok_waiting l l' q : is_waiting q = true -> gen_frame_ok l q -> gen_frame_ok l' q.
Proof. destruct q; cbn; try discriminate; auto. Qed.

Lemma Forall_gen_waiting l l' rest : all_waiting rest -> Forall (gen_frame_ok l) rest -> Forall (gen_frame_ok l') rest.
Proof.
  intros Hw Hg. induction rest as [|q rest IH]; [constructor|].
  inversion Hw; inversion Hg; subst. constructor; [eapply gen_frame_ok_waiting; eassumption|auto].
Qed.

Lemma settle_gentop cf l rest nx l2 stk st :
  settle cf l rest nx l2 stk st -> all_waiting rest ->
  Forall (gen_frame_ok l) rest -> Forall (gen_frame_ok l) (nx_frames nx) ->
  Forall (gen_frame_ok l2) stk.
Proof.
  induction 1 as [l rest p|l rest fs w|l v|l v b post Hb Hne|l v post|l v w rest l' nx l'' stk st Hb Hr Hs IH];
    intros Hw Hrest Hnx; try constructor.
  - inversion Hnx; assumption.
  - exact Hrest.
  - cbn [nx_frames] in Hnx. replace (fs ++ w :: rest) with ((fs ++ [w]) ++ rest) by (rewrite <- app_assoc; reflexivity).
    apply Forall_app. split; assumption.
  - inversion Hw as [|? ? Hww Hwr]; subst. inversion Hrest as [|? ? Hgw Hgr]; subst.
    apply IH; [exact Hwr|eapply Forall_gen_waiting; eassumption|].
    assert (Hg : forall g, w <> WGetSetGen g) by (intros g ->; exact Hgw).
    destruct (resume_call _ _ _ _ _ _ Hr Hg) as [Hc|(c & old & n & ctl & r & -> & -> & ->)].
    + apply call_shape_gentop in Hc. exact Hc.
    + repeat constructor.
Qed.

(** The generation counter along a settle. *)
Lemma settle_gen cf l rest nx l2 stk st :
  settle cf l rest nx l2 stk st -> (nx_frames nx = [] -> tl_gen l + 4 < WORD) ->
  (forall g, ~ In (WGetSetGen g) rest) ->
  tl_gen l <= tl_gen l2 /\
  (hd_unpub stk = true -> (tl_gen l2 = tl_gen l /\ hd_unpub (nx_frames nx) = true) \/ tl_gen l < tl_gen l2).
Proof.
  induction 1 as [l rest p|l rest fs w|l v|l v b post Hb Hne|l v post|l v w rest l' nx l'' stk st Hb Hr Hs IH];
    intros Hc Hng; try (split; [lia|cbn; try discriminate; auto]).
  - intros Hu. left. split; [reflexivity|]. destruct fs; exact Hu.
  - specialize (Hc eq_refl).
    assert (Hg : forall g, w <> WGetSetGen g) by (intros g ->; apply (Hng g); left; reflexivity).
    assert (Hng' : forall g, ~ In (WGetSetGen g) rest) by (intros g Hin; apply (Hng g); right; exact Hin).
    destruct (resume_call _ _ _ _ _ _ Hr Hg) as [Hcs|(c & old & n & ctl & r & -> & -> & ->)].
    + pose proof (call_shape_gen _ _ _ Hc Hcs) as [Hle Hlt].
      assert (Hkeep : nx_frames nx = [] -> tl_gen l' = tl_gen l).
      { intros E. destruct Hcs as [[_ H]|(c & fs' & H & _)]; [exact H|]. rewrite E in H. discriminate. }
      destruct nx as [p'|fs w'|v'|ps|f].
      * inversion Hs; subst. split; [exact Hle|]. intros Hu. right. apply Hlt. exact Hu.
      * inversion Hs; subst. split; [exact Hle|]. intros Hu. right. apply Hlt. destruct fs; exact Hu.
      * specialize (Hkeep eq_refl). rewrite Hkeep in IH. destruct (IH (fun _ => Hc) Hng') as [H1 H2].
        split; [lia|]. intros Hu. destruct (H2 Hu) as [[_ Hx]|Hx]; [discriminate|right; lia].
      * inversion Hs.
      * inversion Hs.
    + inversion Hs; subst. split; [lia|]. cbn. discriminate.
Qed.

Lemma settle_node cf l rest nx l2 stk st : settle cf l rest nx l2 stk st -> tl_node l2 = tl_node l.
Proof.
  induction 1; try reflexivity. rewrite IHsettle. eapply resume_node; eassumption.
Qed.

Lemma settle_status cf l rest nx l2 stk st : settle cf l rest nx l2 stk st -> st = Running \/ (st = Exited /\ stk = []).
Proof. induction 1; auto. Qed.

(** ** Frame-level consequences used by the invariants *)
Lemma help_dispatch_plain cf l c old w ctl : Forall (fun f => plain f = true) (nx_frames (help_dispatch cf l c old w ctl)).
Proof.
  destruct (help_dispatch_cases cf l c old w ctl) as [H|[->|[_ ->]]]; [|repeat constructor..].
  destruct (help_dispatch cf l c old w ctl); try contradiction; constructor.
Qed.

Lemma after_slot_plain c old w j : Forall (fun f => plain f = true) (nx_frames (after_slot c old w j)).
Proof. destruct (after_slot_cases c old w j) as [->| ->]; repeat constructor. Qed.

Lemma exec_plain cf s l p x s' l' evs nx :
  exec cf s l p x = (s', l', evs, nx) -> ~ nx_stops nx -> Forall (fun f => plain f = true) (nx_frames nx).
Proof.
  intros He Hn. destruct (special_pc p) eqn:Hsp.
  - pose proof (exec_special _ _ _ _ _ _ _ _ _ He Hn) as H.
    destruct p; try discriminate Hsp; cbn [special_next] in H;
      repeat match goal with
        | H : _ /\ _ |- _ => destruct H
        | H : _ \/ _ |- _ => destruct H
        | H : exists _, _ |- _ => destruct H
        end; subst;
      try apply help_dispatch_plain; try apply after_slot_plain; try (repeat constructor; fail).
    cbn [nx_frames]. apply Forall_app; split; [apply Forall_app; split|]; try (repeat constructor; fail).
    match goal with H : enter_load _ _ _ = _ |- _ => apply enter_load_call in H as [H _]; eapply call_shape_plain; exact H end.
  - eapply call_shape_plain. eapply exec_call; eassumption.
Qed.

Lemma resume_plain cf l w v l' nx :
  resume cf l w v = (l', nx) -> Forall (fun f => plain f = true) (nx_frames nx).
Proof.
  intros He.
  assert (Hg : (forall g, w <> WGetSetGen g) \/ exists g, w = WGetSetGen g).
  { destruct w; try (left; discriminate). right. eauto. }
  destruct Hg as [Hg|(g & ->)].
  - destruct (resume_call _ _ _ _ _ _ He Hg) as [Hc|(c & old & n & ctl & r & -> & -> & ->)].
    + eapply call_shape_plain. exact Hc.
    + repeat constructor.
  - cbn in He. destr_in He; injection He as <- <-; constructor.
Qed.

Lemma settle_frames cf l rest nx l2 stk st :
  settle cf l rest nx l2 stk st -> Forall (fun f => plain f = true) (nx_frames nx) ->
  forall f, In f stk -> In f rest \/ plain f = true.
Proof.
  induction 1 as [l rest p|l rest fs w|l v|l v b post Hb Hne|l v post|l v w rest l' nx l'' stk st Hb Hr Hs IH];
    intros Hp f Hin; try (destruct Hin; fail).
  - destruct Hin as [<-|Hin]; [right; inversion Hp; assumption|left; exact Hin].
  - cbn [nx_frames] in Hp. apply in_app_or in Hin as [Hin|[<-|Hin]].
    + right. apply (proj1 (Forall_forall _ _) Hp). apply in_or_app. left. exact Hin.
    + right. apply (proj1 (Forall_forall _ _) Hp). apply in_or_app. right. left. reflexivity.
    + left. exact Hin.
  - destruct (IH (resume_plain _ _ _ _ _ _ Hr) f Hin) as [H|H]; [left; right; exact H|right; exact H].
Qed.

Lemma bl_app_plain fs bs : Forall (fun f => plain f = true) fs -> bl bs -> bl (fs ++ bs).
Proof.
  induction 1 as [|f fs Hf _ IH]; intros Hb; [exact Hb|]. cbn. split; [|apply IH; exact Hb].
  rewrite (plain_not_bottom _ Hf). discriminate.
Qed.

Lemma settle_bl cf l rest nx l2 stk st :
  settle cf l rest nx l2 stk st -> Forall (fun f => plain f = true) (nx_frames nx) -> bl rest -> bl stk.
Proof.
  induction 1 as [l rest p|l rest fs w|l v|l v b post Hb Hne|l v post|l v w rest l' nx l'' stk st Hb Hr Hs IH];
    intros Hp Hbl; try exact I.
  - apply (bl_app_plain [p]); assumption.
  - replace (fs ++ w :: rest) with ((fs ++ [w]) ++ rest) by (rewrite <- app_assoc; reflexivity).
    apply bl_app_plain; assumption.
  - apply IH; [eapply resume_plain; exact Hr|apply Hbl].
Qed.

Lemma settle_exited cf l rest nx l2 stk st : settle cf l rest nx l2 stk st -> st = Exited -> In WThreadExit rest.
Proof.
  induction 1; intros E; try discriminate; [left; reflexivity|right; auto].
Qed.

(** Reservation count of one frame step. *)
Lemma help_dispatch_resv cf l c old w ctl k :
  ~ nx_stops (help_dispatch cf l c old w ctl) -> resv k (nx_frames (help_dispatch cf l c old w ctl)) = ind (w =? k).
Proof.
  intros Hn. destruct (help_dispatch_cases cf l c old w ctl) as [H|[->|[_ ->]]]; [contradiction|..]; cbn; unfold resv_frame; cbn; lia.
Qed.
Lemma after_slot_resv c old w j k : resv k (nx_frames (after_slot c old w j)) = ind (w =? k).
Proof. destruct (after_slot_cases c old w j) as [->| ->]; cbn; unfold resv_frame; cbn; lia. Qed.

Lemma exec_resv cf s l p x s' l' evs nx k :
  exec cf s l p x = (s', l', evs, nx) -> ~ nx_stops nx ->
  resv_frame k p <= mem s (LWriters k) ->
  (mem s LHead <= k -> mem s (LWriters k) = 0) ->
  mem s' (LWriters k) + resv_frame k p = mem s (LWriters k) + resv k (nx_frames nx).
Proof.
  intros He Hn Hle Hz. pose proof (exec_writers _ _ _ _ _ _ _ _ _ k He) as Hw.
  destruct (special_pc p) eqn:Hsp.
  - pose proof (exec_special _ _ _ _ _ _ _ _ _ He Hn) as H.
    destruct p; try discriminate Hsp; cbn [special_next] in H;
      repeat match goal with
        | H : _ /\ _ |- _ => destruct H
        | H : _ \/ _ |- _ => destruct H
        | H : exists _, _ |- _ => destruct H
        end; subst;
      rewrite ?help_dispatch_resv by assumption; rewrite ?after_slot_resv;
      try (cbn; unfold resv_frame in *; cbn in *; lia).
    cbn [nx_frames]. rewrite !resv_app.
    match goal with H : enter_load _ _ _ = _ |- _ => apply enter_load_call in H as [H _]; rewrite (call_shape_resv _ _ _ k H) end.
    cbn; unfold resv_frame in *; cbn in *; lia.
  - pose proof (exec_call _ _ _ _ _ _ _ _ _ Hsp He) as Hc. rewrite (call_shape_resv _ _ _ k Hc).
    destruct p; try discriminate Hsp; unfold resv_frame in *; cbn in *; try lia.
    injection He as <- <- <- <-. exfalso. apply Hn. exact I.
Qed.

Lemma exec_gentop cf s l p x s' l' evs nx :
  exec cf s l p x = (s', l', evs, nx) -> ~ nx_stops nx -> gen_frame_ok l p ->
  Forall (gen_frame_ok l') (nx_frames nx).
Proof.
  intros He Hn Hg. destruct (special_pc p) eqn:Hsp.
  - pose proof (exec_special _ _ _ _ _ _ _ _ _ He Hn) as H.
    assert (Hhd : forall c old w ctl, Forall (gen_frame_ok l') (nx_frames (help_dispatch cf l c old w ctl))).
    { intros c old w ctl. destruct (help_dispatch_cases cf l c old w ctl) as [Hs|[->|[_ ->]]]; [|repeat constructor..].
      destruct (help_dispatch cf l c old w ctl); try contradiction; constructor. }
    assert (Has : forall c old w j, Forall (gen_frame_ok l') (nx_frames (after_slot c old w j))).
    { intros c old w j. destruct (after_slot_cases c old w j) as [->| ->]; repeat constructor. }
    destruct p; try discriminate Hsp; cbn [special_next] in H; cbn in Hg;
      repeat match goal with
        | H : _ /\ _ |- _ => destruct H
        | H : _ \/ _ |- _ => destruct H
        | H : exists _, _ |- _ => destruct H
        end; subst;
      try apply Hhd; try apply Has; try (repeat constructor; cbn; congruence).
    cbn [nx_frames]. apply Forall_app; split; [apply Forall_app; split|]; try (repeat constructor; fail).
    match goal with H : enter_load _ _ _ = _ |- _ => apply enter_load_call in H as [H _]; eapply call_shape_gentop; exact H end.
  - eapply call_shape_gentop. eapply exec_call; eassumption.
Qed.
