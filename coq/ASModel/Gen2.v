(** * ASModel.Gen2 — the auxiliary invariant [Quiet], and the invariants [W_inv], [NoUnused],
    [GenTop] of [GenDefs] are preserved by every step. *)
From Coq Require Import Lia ZArith Zify ZifyClasses ZifyBool ZifyN.
From ASModel Require Import Base State Orderings_gen Step Run Progress Hist Inv InvTl InvProto InvStep Sum StepCases GenDefs Gen1.

Definition is_cool (p : pc) : bool := match p with C1 _ | C2 _ | C3 _ => true | _ => false end.

Definition exit_shape (th : thread) : Prop :=
  In WThreadExit (t_stack th) ->
  tl_node (t_loc th) = None /\ exists p, t_stack th = [p; WThreadExit] /\ is_cool p = true.

(** Threads that stopped have an empty stack and no node; a bottom frame is the last frame
    of its stack; the thread-exit frame lies under a cooldown frame only. *)
Record Quiet (s : state) : Prop := {
  q_stop : forall t, t_status (thr s t) <> Running ->
           t_stack (thr s t) = [] /\ tl_node (t_loc (thr s t)) = None;
  q_bl : forall t, bl (t_stack (thr s t));
  q_exit : forall t, exit_shape (thr s t);
}.

Lemma Quiet_init inits progs : Quiet (init_state inits progs).
Proof.
  assert (Hth : forall t0, t_stack (thr (init_state inits progs) t0) = [] /\
                           t_loc (thr (init_state inits progs) t0) = tl_init /\
                           (t_status (thr (init_state inits progs) t0) = Running \/
                            t_status (thr (init_state inits progs) t0) = Exited)).
  { intros t0. cbn. apply init_threads_stack. cbn. auto. }
  constructor; intros t; destruct (Hth t) as (Hs & Hl & _).
  - intros _. rewrite Hs, Hl. split; reflexivity.
  - rewrite Hs. exact I.
  - intros H. rewrite Hs in H. destruct H.
Qed.

(** ** The acting thread after a frame step *)
Lemma exec_settle cf s t x p rest s1 l1 evs nx :
  WF2 s -> NoFault (fst (step cf s t x)) ->
  t_status (thr s t) = Running -> t_stack (thr s t) = p :: rest ->
  exec cf (sh s) (t_loc (thr s t)) p x = (s1, l1, evs, nx) ->
  ~ nx_stops nx /\
  settle cf l1 rest nx (t_loc (thread_after cf (thr s t) l1 rest nx))
         (t_stack (thread_after cf (thr s t) l1 rest nx)) (t_status (thread_after cf (thr s t) l1 rest nx)).
Proof.
  intros W Hnf Hr Hs He.
  destruct (exec_step_no_panic _ _ _ _ _ _ _ _ _ _ W Hr Hs He) as [Hp Hup].
  pose proof (Hnf t) as Hf. rewrite (step_exec_eq _ _ _ _ _ _ _ _ _ _ Hr Hs He) in Hf. cbn in Hf. rewrite upd_same in Hf.
  destruct (thread_after_nofault _ _ _ _ _ Hf) as [Hnf1 Hnf2].
  split.
  - destruct nx as [?|? ?|?|ps|f]; cbn; try (intros []; fail); intros _; [eapply (Hp ps)|eapply (Hnf1 f)]; reflexivity.
  - apply thread_after_settle; assumption.
Qed.

Lemma status_running_dec (st : status) : {st = Running} + {st <> Running}.
Proof. destruct st; [left; reflexivity|right; discriminate..]. Qed.

Lemma running_stk_ok s t : WF2 s -> t_status (thr s t) = Running ->
  tl_ok (t_loc (thr s t)) (t_stack (thr s t)) /\ Forall (pc_nodes_ok (nn s)) (t_stack (thr s t)).
Proof. intros W Hr. exact (w_thr _ W t Hr). Qed.

Lemma all_frames_ok s t f : WF2 s -> Quiet s -> In f (t_stack (thr s t)) -> pc_nodes_ok (nn s) f.
Proof.
  intros W Q Hin. destruct (status_running_dec (t_status (thr s t))) as [Hr|Hr].
  - destruct (running_stk_ok s t W Hr) as [_ Hf]. exact (proj1 (Forall_forall _ _) Hf f Hin).
  - destruct (q_stop _ Q t Hr) as [E _]. rewrite E in Hin. destruct Hin.
Qed.

(** ** [Quiet] is preserved *)
Lemma Quiet_upd s s' t :
  Quiet s -> (forall t', t' <> t -> thr s' t' = thr s t') ->
  (t_status (thr s' t) <> Running -> t_stack (thr s' t) = [] /\ tl_node (t_loc (thr s' t)) = None) ->
  bl (t_stack (thr s' t)) -> exit_shape (thr s' t) -> Quiet s'.
Proof.
  intros Q Ho H1 H2 H3. constructor; intros t'; (destruct (N.eq_dec t' t) as [->|Hne]; [assumption|rewrite (Ho t' Hne)]).
  - apply (q_stop _ Q).
  - apply (q_bl _ Q).
  - apply (q_exit _ Q).
Qed.

Lemma start_thread_fields th l stk :
  t_stack (start_thread th l stk) = stk /\ t_loc (start_thread th l stk) = l /\
  t_status (start_thread th l stk) = Running /\ t_prog (start_thread th l stk) = t_prog th.
Proof. unfold start_thread. destruct stk; cbn; auto. Qed.

Lemma bottom_tail_bl bs : bottom_tail bs -> bl bs /\ ~ In WThreadExit bs.
Proof.
  intros [->|(b & -> & Hb & Hne)]; [split; [exact I|intros []]|].
  split; [cbn; auto|]. intros [E|[]]. congruence.
Qed.

Lemma calm_cmd s t c : Calm s -> nth_error (t_prog (thr s t)) (N.to_nat (t_cmdi (thr s t))) = Some c ->
  forall g, c <> CSetGen g.
Proof. intros Hc Hn g ->. apply nth_error_In in Hn. exact (proj2 (Hc t) g Hn). Qed.

Lemma plain_not_exit f : plain f = true -> f <> WThreadExit.
Proof. intros H ->. discriminate. Qed.

Theorem step_Quiet cf s t x :
  WF2 s -> Calm s -> Quiet s -> NoFault (fst (step cf s t x)) -> Quiet (fst (step cf s t x)).
Proof.
  intros W Hcalm Q Hnf.
  destruct (step_cases cf s t x) as [E|c s1 l1 stk r Hr Hs Hc Hen Hcs E|n Hr Hs Hn E|Hr Hs Hn E|p rest s1 l1 evs nx Hr Hs He E].
  - rewrite E. exact Q.
  - (* a command starts *)
    rewrite E. destruct (cmd_start_effect _ _ _ _ _ _ _ _ Hcs) as (Hthr & Hnode & _).
    destruct (start_thread_fields (thr s t) l1 stk) as (F1 & F2 & F3 & _).
    destruct (cmd_start_call _ _ _ _ _ _ _ _ Hcs (calm_cmd _ _ _ Hcalm Hc)) as (fs & bs & -> & Hcall & Hbt).
    destruct (bottom_tail_bl _ Hbt) as [Hbl Hne]. apply call_shape_plain in Hcall.
    apply (Quiet_upd s _ t Q); cbn; rewrite ?upd_same.
    + intros t' Hne'. rewrite upd_other by exact Hne'. rewrite Hthr. reflexivity.
    + rewrite F3. congruence.
    + rewrite F1. apply bl_app_plain; assumption.
    + unfold exit_shape. rewrite F1. intros Hin. exfalso. apply in_app_or in Hin as [Hin|Hin]; [|exact (Hne Hin)].
      exact (plain_not_exit _ (proj1 (Forall_forall _ _) Hcall _ Hin) eq_refl).
  - (* the thread function returns *)
    rewrite E. apply (Quiet_upd s _ t Q); cbn; rewrite ?upd_same; cbn.
    + intros t' Hne'. apply upd_other. exact Hne'.
    + congruence.
    + split; [discriminate|]. split; auto.
    + intros _. split; [reflexivity|]. eexists. split; reflexivity.
  - rewrite E. apply (Quiet_upd s _ t Q); cbn; rewrite ?upd_same; cbn.
    + intros t' Hne'. apply upd_other. exact Hne'.
    + intros _. auto.
    + exact I.
    + intros [].
  - (* a frame step *)
    destruct (exec_settle _ _ _ _ _ _ _ _ _ _ W Hnf Hr Hs He) as [Hns Hset].
    remember (thread_after cf (thr s t) l1 rest nx) as th' eqn:Eth.
    destruct th' as [stk2 l2 pr2 ci2 st2]; cbn [t_loc t_stack t_status] in Hset.
    pose proof (exec_plain _ _ _ _ _ _ _ _ _ He Hns) as Hpl.
    pose proof (q_bl _ Q t) as Hbl. rewrite Hs in Hbl. destruct Hbl as [_ Hbl].
    pose proof (q_exit _ Q t) as Hex. unfold exit_shape in Hex. rewrite Hs in Hex.
    assert (Hnode_exit : In WThreadExit rest -> tl_node l2 = None /\ rest = [WThreadExit] /\ is_cool p = true).
    { intros Hin. destruct (Hex (or_intror Hin)) as (Hnone & p0 & [= -> ->] & Hcool). split; [|auto].
      rewrite (settle_node _ _ _ _ _ _ _ Hset).
      destruct (exec_node _ _ _ _ _ _ _ _ _ He) as [H|[H|(k & _ & [[-> _]|[[-> _]|[-> _]]])]]; try discriminate Hcool; congruence. }
    rewrite E. apply (Quiet_upd s _ t Q); cbn; rewrite ?upd_same; cbn.
    + intros t' Hne'. apply upd_other. exact Hne'.
    + intros Hst. destruct (settle_status _ _ _ _ _ _ _ Hset) as [Hx|[Hx Hy]]; [contradiction|].
      split; [exact Hy|]. apply Hnode_exit. eapply settle_exited; eassumption.
    + eapply settle_bl; eassumption.
    + intros Hin. destruct (settle_frames _ _ _ _ _ _ _ Hset Hpl _ Hin) as [Hin'|Hp]; [|discriminate Hp].
      destruct (Hnode_exit Hin') as (Hnone & -> & Hcool). split; [exact Hnone|].
      destruct p; try discriminate Hcool.
      * cbn in He. unfold a_fadd in He. injection He as <- <- <- <-. inversion Hset; subst. eexists; split; reflexivity.
      * pose proof (exec_special _ _ _ _ _ _ _ _ _ He Hns) as [_ ->]. inversion Hset; subst. eexists; split; reflexivity.
      * cbn in He. unfold a_fsub in He. injection He as <- <- <- <-.
        inversion Hset; subst; try (destruct Hin; fail); try congruence; discriminate.
Qed.

(** ** [W_inv] is preserved *)
Lemma W_transfer s s' t :
  W_inv s -> (forall t', t' <> t -> thr s' t' = thr s t') ->
  (forall w, mem (sh s') (LWriters w) + resv w (t_stack (thr s t)) =
             mem (sh s) (LWriters w) + resv w (t_stack (thr s' t))) ->
  W_inv s'.
Proof.
  intros Wi Ho Heq w. specialize (Wi w). specialize (Heq w).
  destruct (Total_upd _ _ t (resv w (t_stack (thr s' t))) Wi) as (m & Tm & Em). cbn beta in Em.
  assert (m = mem (sh s') (LWriters w)) as -> by lia.
  eapply Total_ext; [|exact Tm]. intros k. unfold upd. destruct (decide (k = t)) as [->|Hne]; [reflexivity|].
  rewrite (Ho k Hne). reflexivity.
Qed.

Lemma nodes_ok_resv b p w : pc_nodes_ok b p -> resv_node p = Some w -> w < b.
Proof. destruct p; cbn; try discriminate; intros H [= <-]; tauto. Qed.

Lemma fresh_writers s w : WF2 s -> Quiet s -> W_inv s -> nn s <= w -> mem (sh s) (LWriters w) = 0.
Proof.
  intros W Q Wi Hle. eapply Total_unique; [apply Wi|]. apply Total_zero_iff. intros t.
  assert (H : forall stk, (forall f, In f stk -> pc_nodes_ok (nn s) f) -> resv w stk = 0).
  { induction stk as [|f stk IH]; intros Hf; [reflexivity|]. cbn. rewrite IH by (intros; apply Hf; right; assumption).
    unfold resv_frame. destruct (resv_node f) as [w'|] eqn:Hr; [|reflexivity].
    pose proof (nodes_ok_resv _ _ _ (Hf f (or_introl eq_refl)) Hr).
    destruct (N.eqb_spec w' w); [lia|reflexivity]. }
  apply H. intros f Hin. eapply all_frames_ok; eassumption.
Qed.

Lemma bottom_tail_resv bs w : bottom_tail bs -> resv w bs = 0.
Proof. intros [->|(b & -> & Hb & _)]; [reflexivity|]. destruct b; try discriminate; reflexivity. Qed.

Theorem step_W_inv cf s t x :
  WF2 s -> Calm s -> Quiet s -> W_inv s -> NoFault (fst (step cf s t x)) -> W_inv (fst (step cf s t x)).
Proof.
  intros W Hcalm Q Wi Hnf.
  destruct (step_cases cf s t x) as [E|c s1 l1 stk r Hr Hs Hc Hen Hcs E|n Hr Hs Hn E|Hr Hs Hn E|p rest s1 l1 evs nx Hr Hs He E].
  - rewrite E. exact Wi.
  - rewrite E. destruct (cmd_start_effect _ _ _ _ _ _ _ _ Hcs) as (Hthr & Hnode & Hmem & _).
    destruct (start_thread_fields (thr s t) l1 stk) as (F1 & F2 & F3 & _).
    destruct (cmd_start_call _ _ _ _ _ _ _ _ Hcs (calm_cmd _ _ _ Hcalm Hc)) as (fs & bs & -> & Hcall & Hbt).
    apply (W_transfer s _ t Wi); cbn; rewrite ?upd_same.
    + intros t' Hne'. rewrite upd_other by exact Hne'. rewrite Hthr. reflexivity.
    + intros w. rewrite F1, Hs, Hmem by discriminate. rewrite resv_app, (call_shape_resv _ _ _ w Hcall), (bottom_tail_resv _ w Hbt). reflexivity.
  - rewrite E. apply (W_transfer s _ t Wi); cbn; rewrite ?upd_same; cbn.
    + intros t' Hne'. apply upd_other. exact Hne'.
    + intros w. rewrite Hs. reflexivity.
  - rewrite E. apply (W_transfer s _ t Wi); cbn; rewrite ?upd_same; cbn.
    + intros t' Hne'. apply upd_other. exact Hne'.
    + intros w. rewrite Hs. reflexivity.
  - destruct (exec_settle _ _ _ _ _ _ _ _ _ _ W Hnf Hr Hs He) as [Hns Hset].
    remember (thread_after cf (thr s t) l1 rest nx) as th' eqn:Eth.
    destruct th' as [stk2 l2 pr2 ci2 st2]; cbn [t_loc t_stack t_status] in Hset.
    pose proof (q_bl _ Q t) as Hbl. rewrite Hs in Hbl. destruct Hbl as [_ Hbl].
    rewrite E. apply (W_transfer s _ t Wi); cbn; rewrite ?upd_same; cbn.
    + intros t' Hne'. apply upd_other. exact Hne'.
    + intros w. rewrite Hs, (settle_resv _ _ _ _ _ _ _ w Hset Hbl). cbn.
      assert (Hle : resv_frame w p <= mem (sh s) (LWriters w)).
      { pose proof (Total_ge _ _ t (Wi w)) as Hge. cbn beta in Hge. rewrite Hs in Hge. cbn in Hge. lia. }
      pose proof (exec_resv _ _ _ _ _ _ _ _ _ w He Hns Hle (fresh_writers s w W Q Wi)). lia.
Qed.

(** ** [NoUnused] is preserved *)
Theorem step_NoUnused cf s t x :
  WF2 s -> NoUnused s -> NoUnused (fst (step cf s t x)).
Proof.
  intros W Nu.
  destruct (step_cases cf s t x) as [E|c s1 l1 stk r Hr Hs Hc Hen Hcs E|n Hr Hs Hn E|Hr Hs Hn E|p rest s1 l1 evs nx Hr Hs He E].
  - rewrite E. exact Nu.
  - rewrite E. destruct (cmd_start_effect _ _ _ _ _ _ _ _ Hcs) as (_ & _ & Hmem & _).
    intros n. unfold nn. cbn. rewrite !Hmem by discriminate. apply Nu.
  - rewrite E. exact Nu.
  - rewrite E. exact Nu.
  - rewrite E. intros n. unfold nn. cbn. intros Hlt.
    destruct (exec_inuse _ _ _ _ _ _ _ _ _ He) as
      [(Hh & Hiu & _)|[(k & _ & Hh & _ & Hiu & _ & Hk & _)|[(k & _ & Hh & Hiu & _)|[(k & _ & Hh & _ & Hiu & Hk & _)|
       [(k & Hp & Hiu & _ & Hk & _ & _ & Hh1 & Hh2)|(k & _ & Hh & _ & Hiu & Hk & _)]]]]].
    + rewrite Hiu. apply Nu. unfold nn. lia.
    + destruct (N.eq_dec n k) as [->|Hne]; [rewrite Hk; discriminate|rewrite Hiu by exact Hne; apply Nu; unfold nn; lia].
    + rewrite Hiu. apply Nu. unfold nn. lia.
    + destruct (N.eq_dec n k) as [->|Hne]; [rewrite Hk; discriminate|rewrite Hiu by exact Hne; apply Nu; unfold nn; lia].
    + destruct (N.eq_dec n k) as [->|Hne]; [rewrite Hk; discriminate|rewrite Hiu by exact Hne; apply Nu; unfold nn].
      destruct Hp as [->|[-> Hm]]; [rewrite <- (Hh1 eq_refl); exact Hlt|]. rewrite (Hh2 eq_refl) in Hlt. lia.
    + destruct (N.eq_dec n k) as [->|Hne]; [rewrite Hk; discriminate|rewrite Hiu by exact Hne; apply Nu; unfold nn; lia].
Qed.

(** ** [GenTop] is preserved *)
Lemma bottom_tail_gentop l bs : bottom_tail bs -> Forall (gen_frame_ok l) bs.
Proof. intros [->|(b & -> & Hb & _)]; [constructor|]. destruct b; try discriminate; repeat constructor. Qed.

Lemma gentop_no_setgen l stk : Forall (gen_frame_ok l) stk -> forall g, ~ In (WGetSetGen g) stk.
Proof. intros H g Hin. exact (proj1 (Forall_forall _ _) H _ Hin). Qed.

Theorem step_GenTop cf s t x :
  WF2 s -> Calm s -> GenTop s -> NoFault (fst (step cf s t x)) -> GenTop (fst (step cf s t x)).
Proof.
  intros W Hcalm G Hnf.
  destruct (step_cases cf s t x) as [E|c s1 l1 stk r Hr Hs Hc Hen Hcs E|n Hr Hs Hn E|Hr Hs Hn E|p rest s1 l1 evs nx Hr Hs He E].
  - rewrite E. exact G.
  - rewrite E. destruct (cmd_start_effect _ _ _ _ _ _ _ _ Hcs) as (Hthr & _).
    destruct (start_thread_fields (thr s t) l1 stk) as (F1 & F2 & F3 & _).
    destruct (cmd_start_call _ _ _ _ _ _ _ _ Hcs (calm_cmd _ _ _ Hcalm Hc)) as (fs & bs & -> & Hcall & Hbt).
    intros t'. cbn. destruct (N.eq_dec t' t) as [->|Hne].
    + rewrite upd_same, F1, F2. intros _. apply Forall_app. split; [eapply call_shape_gentop; exact Hcall|apply bottom_tail_gentop; exact Hbt].
    + rewrite upd_other by exact Hne. rewrite Hthr. apply G.
  - rewrite E. intros t'. cbn. destruct (N.eq_dec t' t) as [->|Hne].
    + rewrite upd_same. cbn. intros _. repeat constructor.
    + rewrite upd_other by exact Hne. apply G.
  - rewrite E. intros t'. cbn. destruct (N.eq_dec t' t) as [->|Hne].
    + rewrite upd_same. cbn. discriminate.
    + rewrite upd_other by exact Hne. apply G.
  - destruct (exec_settle _ _ _ _ _ _ _ _ _ _ W Hnf Hr Hs He) as [Hns Hset].
    remember (thread_after cf (thr s t) l1 rest nx) as th' eqn:Eth.
    destruct th' as [stk2 l2 pr2 ci2 st2]; cbn [t_loc t_stack t_status] in Hset.
    destruct (running_stk_ok s t W Hr) as [Htl _]. rewrite Hs in Htl. destruct Htl as (_ & Hwait & _).
    pose proof (G t Hr) as Hg. rewrite Hs in Hg. inversion Hg as [|? ? Hgp Hgr]; subst.
    rewrite E. intros t'. cbn. destruct (N.eq_dec t' t) as [->|Hne].
    + rewrite upd_same. cbn. intros _.
      eapply settle_gentop; [exact Hset|exact Hwait|eapply Forall_gen_waiting; eassumption|].
      eapply exec_gentop; eassumption.
    + rewrite upd_other by exact Hne. apply G.
Qed.
