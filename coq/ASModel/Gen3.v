(** * ASModel.Gen3 — generation uniqueness: [GU], [GUC], [GUT] of [GenDefs] are preserved. *)
From Coq Require Import Lia ZArith Zify ZifyClasses ZifyBool ZifyN.
From ASModel Require Import Base State Orderings_gen Step Run Progress Hist Inv InvTl InvProto InvStep Sum StepCases GenDefs Gen1 Gen2.

(** ** Generation words *)
Lemma lor_gen_add g : N.land g TAG_MASK = 0 -> N.lor g GEN_TAG = g + 2.
Proof.
  intros H.
  assert (Hl : N.land g GEN_TAG = 0).
  { change GEN_TAG with (N.land TAG_MASK 2). rewrite N.land_assoc, H. reflexivity. }
  rewrite <- N.lxor_lor by exact Hl. symmetry. apply N.add_nocarry_lxor. exact Hl.
Qed.

Lemma gen_of_lor g : N.land g TAG_MASK = 0 -> gen_of (N.lor g GEN_TAG) = g.
Proof.
  intros H. rewrite (lor_gen_add g H). unfold gen_of. rewrite land3_mod4 in *.
  zify. Z.div_mod_to_equations. lia.
Qed.

Lemma store_val_inj c c' : store_val c = store_val c' -> c = c'.
Proof. unfold store_val. lia. Qed.

(** ** The owner of a node whose control word carries a generation *)
Lemma top_ok_gen b m l n top :
  top_ok b m l n top -> is_gen (m (LCtrl n)) ->
  exists p c, top = Some p /\ top_req p = Some (c, m (LCtrl n)) /\ m (LAddr n) = store_val c.
Proof.
  intros Ht Hg.
  assert (Hidle : node_idle m n -> False).
  { intros [Hi _]. rewrite Hi in Hg. exact (is_gen_not_idle _ Hg eq_refl). }
  assert (Hz : m (LCtrl n) = IDLE -> False).
  { intros Hi. rewrite Hi in Hg. exact (is_gen_not_idle _ Hg eq_refl). }
  destruct top as [p|]; [|exfalso; exact (Hidle Ht)].
  destruct p; cbn in Ht; try (exfalso; apply Hidle; tauto); try (exfalso; apply Hz; tauto).
  all: destruct Ht as ([Hc|Hc] & Hrest); try (exfalso; eapply is_repl_not_gen; eassumption).
  all: eexists _, _; split; [reflexivity|]; cbn; rewrite Hc; split; [reflexivity|tauto].
Qed.

Lemma owner_holder th n : owner th = Some n -> holder th = Some n.
Proof. unfold owner, holder. intros ->. reflexivity. Qed.

Lemma ctl_gen_owner s n :
  WF2 s -> Quiet s -> n < nn s -> is_gen (mem (sh s) (LCtrl n)) ->
  exists th c, t_status (thr s th) = Running /\ owner (thr s th) = Some n /\
               req_of (thr s th) = Some (c, mem (sh s) (LCtrl n)) /\
               mem (sh s) (LAddr n) = store_val c.
Proof.
  intros W Q Hn Hg.
  assert (Hex : exists th, holder (thr s th) = Some n).
  { destruct (N.eq_dec (mem (sh s) (LInUse n)) NODE_USED) as [H|H]; [apply (w_inuse _ W n Hn); exact H|].
    exfalso. assert (Hno : forall t, holder (thr s t) <> Some n).
    { intros t Hh. apply H. apply (w_inuse _ W n Hn). eauto. }
    destruct (w_unowned _ W n Hn Hno) as [Hi _]. rewrite Hi in Hg. exact (is_gen_not_idle _ Hg eq_refl). }
  destruct Hex as (th & Hh). exists th.
  assert (Hr : t_status (thr s th) = Running).
  { destruct (status_running_dec (t_status (thr s th))) as [Hr|Hr]; [exact Hr|].
    destruct (q_stop _ Q th Hr) as [E1 E2]. unfold holder in Hh. rewrite E1, E2 in Hh. discriminate. }
  pose proof (w_top _ W th n Hr Hh) as Ht.
  destruct (top_ok_gen _ _ _ _ _ Ht Hg) as (p & c & Htop & Hreq & Haddr).
  exists c. split; [exact Hr|]. rewrite req_of_top.
  destruct (t_stack (thr s th)) as [|p0 rest] eqn:Hs; [discriminate|]. injection Htop as ->.
  split; [|split; [exact Hreq|exact Haddr]].
  destruct (running_stk_ok s th W Hr) as [Htl _]. rewrite Hs in Htl. destruct Htl as (_ & _ & _ & Hnn & _).
  unfold owner. unfold holder in Hh. destruct (tl_node (t_loc (thr s th))) eqn:Hnode; [exact Hh|].
  exfalso. apply Hnn; [|reflexivity]. destruct p; try discriminate Hreq; cbn; lia.
Qed.

(** ** One frame step: the thread's view as an owner *)
Lemma help_dispatch_hd cf l c old w ctl :
  hd_unpub (nx_frames (help_dispatch cf l c old w ctl)) = false /\
  hd_req (nx_frames (help_dispatch cf l c old w ctl)) = None.
Proof.
  destruct (help_dispatch_cases cf l c old w ctl) as [H|[->|[_ ->]]]; [|split; reflexivity..].
  destruct (help_dispatch cf l c old w ctl); try contradiction; split; reflexivity.
Qed.

Lemma after_slot_hd c old w j :
  hd_unpub (nx_frames (after_slot c old w j)) = false /\ hd_req (nx_frames (after_slot c old w j)) = None.
Proof. destruct (after_slot_cases c old w j) as [->| ->]; split; reflexivity. Qed.

Lemma hd_unpub_app fs ws : fs <> [] -> hd_unpub (fs ++ ws) = hd_unpub fs.
Proof. destruct fs; [congruence|reflexivity]. Qed.
Lemma hd_req_app fs ws : fs <> [] -> hd_req (fs ++ ws) = hd_req fs.
Proof. destruct fs; [congruence|reflexivity]. Qed.

Definition view_next (l : tlocal) (p : pc) (l' : tlocal) (fs : list pc) : Prop :=
  tl_gen l <= tl_gen l' /\ (fs = [] -> tl_gen l' = tl_gen l) /\
  (hd_unpub fs = true -> top_unpub p = true \/ tl_gen l < tl_gen l') /\
  (forall q, hd_req fs = Some q ->
     top_req p = Some q \/ (top_unpub p = true /\ tl_gen l' = tl_gen l /\ snd q = N.lor (tl_gen l) GEN_TAG)).

Lemma call_shape_view l p l' fs : tl_gen l + 4 < WORD -> call_shape l l' fs -> view_next l p l' fs.
Proof.
  intros Hc Hcs. destruct (call_shape_gen _ _ _ Hc Hcs) as [H1 H2]. split; [exact H1|]. split; [|split].
  - intros ->. destruct Hcs as [[_ H]|(c & fs' & H & _)]; [exact H|discriminate].
  - intros Hu. right. apply H2. exact Hu.
  - intros q Hq. rewrite (call_shape_req _ _ _ Hcs) in Hq. discriminate.
Qed.

Lemma exec_view cf s l p x s' l' evs nx :
  exec cf s l p x = (s', l', evs, nx) -> ~ nx_stops nx -> tl_gen l + 4 < WORD -> gen_frame_ok l p ->
  view_next l p l' (nx_frames nx).
Proof.
  intros He Hn Hc Hg. destruct (special_pc p) eqn:Hsp.
  - pose proof (exec_special _ _ _ _ _ _ _ _ _ He Hn) as H.
    assert (Hsame : forall fs, hd_unpub fs = false -> hd_req fs = None -> view_next l p l fs).
    { intros fs H1 H2. split; [lia|]. split; [reflexivity|]. rewrite H1, H2. split; [discriminate|]. intros q Hq. discriminate. }
    destruct p; try discriminate Hsp; cbn [special_next] in H; cbn in Hg;
      repeat match goal with
        | H : _ /\ _ |- _ => destruct H
        | H : _ \/ _ |- _ => destruct H
        | H : exists _, _ |- _ => destruct H
        end; subst;
      try (apply Hsame; first [apply help_dispatch_hd | apply after_slot_hd | reflexivity]; fail).
    + (* LH1 -> LH2 *)
      split; [lia|]. split; [reflexivity|]. split; [left; reflexivity|]. intros q Hq. discriminate.
    + (* LH2 -> LH3 *)
      split; [lia|]. split; [intros _; assumption|]. split; [discriminate|]. intros q [= <-]. right. cbn. auto.
    + split; [lia|]. split; [reflexivity|]. split; [discriminate|]. intros q [= <-]. left. reflexivity.
    + split; [lia|]. split; [reflexivity|]. split; [discriminate|]. intros q [= <-]. left. reflexivity.
    + split; [lia|]. split; [reflexivity|]. split; [discriminate|]. intros q [= <-]. left. reflexivity.
    + split; [lia|]. split; [reflexivity|]. split; [discriminate|]. intros q [= <-]. left. reflexivity.
    + (* PE2 pushes a load *)
      match goal with H : enter_load _ _ _ = _ |- _ => apply enter_load_call in H as [Hcs Hne] end.
      pose proof (call_shape_view l (PE2 c old w ctl) l' _ Hc Hcs) as (V1 & V2 & V3 & V4).
      cbn [nx_frames]. split; [exact V1|]. split; [|split].
      * intros E. apply app_eq_nil in E as [E _]. apply app_eq_nil in E as [E _]. contradiction.
      * rewrite <- app_assoc, hd_unpub_app by exact Hne. exact V3.
      * rewrite <- app_assoc, hd_req_app by exact Hne. exact V4.
  - apply call_shape_view; [exact Hc|]. eapply exec_call; eassumption.
Qed.

(** ** One frame step: where the helper frames come from *)
Definition help_origin (s s' : shared) (p : pc) (nx : next) (f : pc) (w ctl : N) : Prop :=
  (help_frame p = Some (w, ctl) /\ help_c f = help_c p /\ help_their f = help_their p) \/
  (exists c, help_frame p = Some (w, ctl) /\ help_c f = Some (c, w, ctl) /\ help_their f = None /\
             mem s (LAddr w) = store_val c /\ hd_req (nx_frames nx) = None) \/
  (help_frame p = Some (w, ctl) /\ help_c f = help_c p /\ help_their f = Some (w, ctl, mem s' (LOffer w))) \/
  (ctl = mem s (LCtrl w) /\ is_gen ctl /\ help_c f = None /\ help_their f = None /\
   top_req p = None /\ resv_node p = Some w).

Lemma dispatch_help cf l c old w0 ctl0 f w ctl :
  In f (nx_frames (help_dispatch cf l c old w0 ctl0)) -> help_frame f = Some (w, ctl) ->
  f = PE2 c old w0 ctl0 /\ w = w0 /\ ctl = ctl0 /\ is_gen ctl0.
Proof.
  destruct (help_dispatch_cases cf l c old w0 ctl0) as [H|[->|[Hg ->]]].
  - destruct (help_dispatch cf l c old w0 ctl0); try contradiction; intros [].
  - intros [<-|[]]. discriminate.
  - intros [<-|[]] [= <- <-]. auto.
Qed.

Lemma after_slot_help c old w0 j f : In f (nx_frames (after_slot c old w0 j)) -> help_frame f = None.
Proof. destruct (after_slot_cases c old w0 j) as [->| ->]; intros [<-|[]]; reflexivity. Qed.

Lemma is_gen_tag v : is_gen v -> (N.land v TAG_MASK =? GEN_TAG) = true.
Proof. intros H. apply N.eqb_eq. exact H. Qed.

Lemma exec_help cf s l p x s' l' evs nx f w ctl :
  exec cf s l p x = (s', l', evs, nx) -> ~ nx_stops nx ->
  In f (nx_frames nx) -> help_frame f = Some (w, ctl) ->
  help_origin (s) s' p nx f w ctl.
Proof.
  intros He Hn Hin Hf. destruct (special_pc p) eqn:Hsp.
  2: { pose proof (exec_call _ _ _ _ _ _ _ _ _ Hsp He) as Hc.
       rewrite (call_shape_help _ _ _ _ Hc Hin) in Hf. discriminate. }
  pose proof (exec_special _ _ _ _ _ _ _ _ _ He Hn) as H.
  pose proof (exec_offer _ _ _ _ _ _ _ _ _ He) as Hoff.
  unfold help_origin.
  destruct p; try discriminate Hsp; cbn [special_next] in H;
    repeat match goal with
      | H : _ /\ _ |- _ => destruct H
      | H : _ \/ _ |- _ => destruct H
      | H : exists _, _ |- _ => destruct H
      end; subst;
    try (apply after_slot_help in Hin; congruence);
    try (match type of Hin with In _ (nx_frames (help_dispatch _ _ _ _ _ _)) =>
           destruct (dispatch_help _ _ _ _ _ _ _ _ _ Hin Hf) as (-> & -> & -> & Hg) end);
    try (destruct Hin as [<-|[]]; cbn in Hf; try discriminate Hf).
  all: try (injection Hf as <- <-).
  all: try (right; right; right; cbn; repeat split; auto; fail).
  all: try (left; cbn; repeat split; auto; fail).
  - (* PE2 pushes the nested load *)
    match goal with H : enter_load _ _ _ = _ |- _ => apply enter_load_call in H as [Hcs Hne] end.
    cbn [nx_frames] in Hin. apply in_app_or in Hin as [Hin|[<-|[]]].
    + apply in_app_or in Hin as [Hin|[<-|[]]]; [|discriminate Hf].
      rewrite (call_shape_help _ _ _ _ Hcs Hin) in Hf. discriminate.
    + injection Hf as <- <-. right. left. exists c. cbn. repeat split; auto.
      rewrite <- app_assoc, hd_req_app by exact Hne. eapply call_shape_req. exact Hcs.
  - (* PE4 reads the offer *)
    right. right. left. cbn. rewrite Hoff. repeat split; auto.
  - (* PE7 -> PE9 *)
    destruct (N.land (mem s (LCtrl w0)) TAG_MASK =? GEN_TAG) eqn:Et; [|discriminate Hf].
    injection Hf as <- <-. right. right. right. cbn. repeat split; auto. apply N.eqb_eq. exact Et.
  - (* PE9 dispatches the word it kept *)
    left. cbn. rewrite (is_gen_tag _ Hg). repeat split; auto.
Qed.

(** ** The settled stack: helper frames and the request on top *)
Lemma settle_help cf l rest nx l2 stk st f :
  settle cf l rest nx l2 stk st -> (forall g, ~ In (WGetSetGen g) rest) ->
  In f stk -> help_frame f <> None ->
  In f rest \/ In f (nx_frames nx) \/
  exists c old n ctl r, f = PE4 c old n ctl r /\ In (WHelpRepl c old n ctl) rest.
Proof.
  induction 1 as [l rest p|l rest fs w|l v|l v b post Hb Hne|l v post|l v w rest l' nx l'' stk st Hb Hr Hs IH];
    intros Hng Hin Hf; try (destruct Hin; fail).
  - destruct Hin as [<-|Hin]; [right; left; left; reflexivity|left; exact Hin].
  - cbn [nx_frames]. apply in_app_or in Hin as [Hin|[<-|Hin]]; [right; left; apply in_or_app; left; exact Hin| |left; exact Hin].
    right. left. apply in_or_app. right. left. reflexivity.
  - assert (Hg : forall g, w <> WGetSetGen g) by (intros g ->; apply (Hng g); left; reflexivity).
    assert (Hng' : forall g, ~ In (WGetSetGen g) rest) by (intros g Hi; apply (Hng g); right; exact Hi).
    destruct (IH Hng' Hin Hf) as [H|[H|(c & old & n & ctl & r & -> & H)]].
    + left. right. exact H.
    + destruct (resume_call _ _ _ _ _ _ Hr Hg) as [Hc|(c & old & n & ctl & r & -> & _ & ->)].
      * exfalso. apply Hf. eapply call_shape_help; eassumption.
      * destruct H as [<-|[]]. right. right. exists c, old, n, ctl, r. split; [reflexivity|left; reflexivity].
    + right. right. exists c, old, n, ctl, r. split; [reflexivity|right; exact H].
Qed.

Lemma settle_req cf l rest nx l2 stk st :
  settle cf l rest nx l2 stk st -> (forall g, ~ In (WGetSetGen g) rest) ->
  hd_req stk = hd_req (nx_frames nx).
Proof.
  induction 1 as [l rest p|l rest fs w|l v|l v b post Hb Hne|l v post|l v w rest l' nx l'' stk st Hb Hr Hs IH];
    intros Hng; try reflexivity.
  - destruct fs; reflexivity.
  - assert (Hg : forall g, w <> WGetSetGen g) by (intros g ->; apply (Hng g); left; reflexivity).
    assert (Hng' : forall g, ~ In (WGetSetGen g) rest) by (intros g Hi; apply (Hng g); right; exact Hi).
    rewrite (IH Hng'). destruct (resume_call _ _ _ _ _ _ Hr Hg) as [Hc|(c & old & n & ctl & r & -> & _ & ->)].
    + eapply call_shape_req. exact Hc.
    + reflexivity.
Qed.

Lemma settle_loc cf l rest nx l2 stk st : settle cf l rest nx l2 stk st -> nx_frames nx <> [] -> l2 = l.
Proof. intros H. inversion H; subst; try reflexivity; intros Hn; exfalso; apply Hn; reflexivity. Qed.

(** ** Summary of one global step, as seen from the acting thread *)
Definition claim_step (s : state) (t w : N) : Prop :=
  exists p rest, t_stack (thr s t) = p :: rest /\
    ((p = GCool3 w /\ mem (sh s) (LWriters w) = 0) \/
     (p = GClaim w /\ mem (sh s) (LInUse w) = NODE_UNUSED) \/
     (p = GPush w /\ nn s = w)).

Definition view_ok (s s' : state) (t : N) : Prop :=
  forall w, owner (thr s' t) = Some w ->
    claim_step s t w \/
    (owner (thr s t) = Some w /\
     tl_gen (t_loc (thr s t)) <= tl_gen (t_loc (thr s' t)) /\
     (unpublished (thr s' t) = true ->
        unpublished (thr s t) = true \/ tl_gen (t_loc (thr s t)) < tl_gen (t_loc (thr s' t))) /\
     (forall q, req_of (thr s' t) = Some q ->
        req_of (thr s t) = Some q \/
        (unpublished (thr s t) = true /\ tl_gen (t_loc (thr s' t)) = tl_gen (t_loc (thr s t)) /\
         snd q = N.lor (tl_gen (t_loc (thr s t))) GEN_TAG))).

Definition frames_ok (s s' : state) (t : N) : Prop :=
  forall f w ctl, In f (t_stack (thr s' t)) -> help_frame f = Some (w, ctl) ->
    (exists f0, In f0 (t_stack (thr s t)) /\ help_frame f0 = Some (w, ctl) /\
                help_c f = help_c f0 /\ help_their f = help_their f0) \/
    (exists f0 c, In f0 (t_stack (thr s t)) /\ help_frame f0 = Some (w, ctl) /\
                  help_c f = Some (c, w, ctl) /\ help_their f = None /\
                  mem (sh s) (LAddr w) = store_val c /\ req_of (thr s' t) = None) \/
    (exists f0, In f0 (t_stack (thr s t)) /\ help_frame f0 = Some (w, ctl) /\ help_c f = help_c f0 /\
                help_their f = Some (w, ctl, mem (sh s') (LOffer w))) \/
    (ctl = mem (sh s) (LCtrl w) /\ is_gen ctl /\ help_c f = None /\ help_their f = None /\
     req_of (thr s t) = None /\ exists p rest, t_stack (thr s t) = p :: rest /\ resv_node p = Some w).

Definition offer_ok (s s' : state) (t : N) : Prop :=
  forall w, mem (sh s') (LOffer w) = mem (sh s) (LOffer w) \/
            (owner (thr s t) = Some w /\ owner (thr s' t) = Some w /\ req_of (thr s' t) = None) \/
            nn s = w.

Lemma bottom_tail_hd bs : bottom_tail bs -> hd_unpub bs = false /\ hd_req bs = None /\ forall f, In f bs -> help_frame f = None.
Proof.
  intros [->|(b & -> & Hb & _)]; [repeat split; intros f []|].
  destruct b; try discriminate; repeat split; intros f [<-|[]]; reflexivity.
Qed.

Lemma step_summary cf s t x :
  WF2 s -> Calm s -> GenTop s -> NoFault (fst (step cf s t x)) ->
  (forall t', t' <> t -> thr (fst (step cf s t x)) t' = thr s t') /\
  view_ok s (fst (step cf s t x)) t /\ frames_ok s (fst (step cf s t x)) t /\ offer_ok s (fst (step cf s t x)) t.
Proof.
  intros W Hcalm G Hnf. split; [intros t' Hne; apply step_status_other; exact Hne|].
  assert (Hsame : forall s', thr s' t = thr s t -> sh s' = sh s -> view_ok s s' t /\ frames_ok s s' t /\ offer_ok s s' t).
  { intros s' Et Es. split; [|split].
    - intros w Ho. right. rewrite Et in *. split; [exact Ho|]. split; [lia|]. split; auto.
    - intros f w ctl Hin Hf. left. rewrite Et in Hin. exists f. auto.
    - intros w. left. rewrite Es. reflexivity. }
  destruct (step_cases cf s t x) as [E|c s1 l1 stk r Hr Hs Hc Hen Hcs E|n Hr Hs Hn E|Hr Hs Hn E|p rest s1 l1 evs nx Hr Hs He E].
  - rewrite E. apply Hsame; reflexivity.
  - (* a command starts *)
    rewrite E. destruct (cmd_start_effect _ _ _ _ _ _ _ _ Hcs) as (Hthr & Hnode & Hmem & _).
    destruct (start_thread_fields (thr s t) l1 stk) as (F1 & F2 & F3 & _).
    destruct (cmd_start_call _ _ _ _ _ _ _ _ Hcs (calm_cmd _ _ _ Hcalm Hc)) as (fs & bs & -> & Hcall & Hbt).
    destruct (bottom_tail_hd _ Hbt) as (B1 & B2 & B3).
    destruct (call_shape_gen _ _ _ (proj1 (Hcalm t)) Hcall) as [G1 G2].
    unfold view_ok, frames_ok, offer_ok, set_thread; cbn [thr sh]; rewrite !upd_same; (split; [|split]).
    + intros w Ho. right. unfold owner in *. rewrite F2 in *. rewrite Hnode in Ho. split; [exact Ho|].
      split; [exact G1|]. rewrite unpublished_top, req_of_top, F1. split.
      * intros Hu. right. apply G2. destruct fs; [cbn in Hu; fold (hd_unpub bs) in Hu; congruence|exact Hu].
      * intros q Hq. exfalso. destruct fs as [|f0 fs]; [cbn in Hq; fold (hd_req bs) in Hq; congruence|].
        pose proof (call_shape_req _ _ _ Hcall) as Hx. cbn in Hx, Hq. congruence.
    + intros f w ctl Hin Hf. exfalso. rewrite F1 in Hin. apply in_app_or in Hin as [Hin|Hin].
      * rewrite (call_shape_help _ _ _ _ Hcall Hin) in Hf. discriminate.
      * rewrite (B3 _ Hin) in Hf. discriminate.
    + intros w. left. apply Hmem. discriminate.
  - (* the thread function returns *)
    rewrite E. unfold view_ok, frames_ok, offer_ok, set_thread; cbn [thr sh]; rewrite !upd_same; (split; [|split]).
    + intros w Ho. discriminate Ho.
    + intros f w ctl [<-|[<-|[]]] Hf; discriminate Hf.
    + intros w. left. reflexivity.
  - rewrite E. unfold view_ok, frames_ok, offer_ok, set_thread; cbn [thr sh]; rewrite !upd_same; (split; [|split]).
    + intros w Ho. right. cbn in Ho. split; [exact Ho|]. cbn. split; [lia|]. split; [discriminate|]. intros q Hq. discriminate Hq.
    + intros f w ctl [].
    + intros w. left. reflexivity.
  - (* a frame step *)
    destruct (exec_settle _ _ _ _ _ _ _ _ _ _ W Hnf Hr Hs He) as [Hns Hset].
    remember (thread_after cf (thr s t) l1 rest nx) as th' eqn:Eth.
    destruct th' as [stk2 l2 pr2 ci2 st2]; cbn [t_loc t_stack t_status] in Hset.
    destruct (running_stk_ok s t W Hr) as [Htl Hnodes]. rewrite Hs in Htl, Hnodes.
    destruct Htl as (Hnw & Hwait & Hd & Hnn & Hget & Hgok).
    pose proof (G t Hr) as Hg. rewrite Hs in Hg. inversion Hg as [|? ? Hgp Hgr]; subst.
    pose proof (gentop_no_setgen _ _ Hgr) as Hng.
    pose proof (exec_view _ _ _ _ _ _ _ _ _ He Hns (proj1 (Hcalm t)) Hgp) as (V1 & V2 & V3 & V4).
    assert (Hbound : nx_frames nx = [] -> tl_gen l1 + 4 < WORD).
    { intros En. rewrite (V2 En). exact (proj1 (Hcalm t)). }
    destruct (settle_gen _ _ _ _ _ _ _ Hset Hbound Hng) as [S1 S2].
    pose proof (settle_req _ _ _ _ _ _ _ Hset Hng) as Sreq.
    pose proof (settle_node _ _ _ _ _ _ _ Hset) as Snode.
    rewrite E. unfold view_ok, frames_ok, offer_ok; cbn [thr sh]; rewrite !upd_same; (split; [|split]).
    + (* view *)
      intros w Ho. unfold owner in *. cbn [t_loc] in Ho. rewrite Snode in Ho.
      destruct (exec_node _ _ _ _ _ _ _ _ _ He) as [Hn1|[Hn1|(k & Hk & Hcl)]].
      * right. rewrite Hn1 in Ho. split; [exact Ho|]. cbn [t_loc]. split; [lia|].
        rewrite !unpublished_top, !req_of_top, Hs. cbn [t_stack]. fold (hd_unpub stk2). fold (hd_req stk2). split.
        -- intros Hu. destruct (S2 Hu) as [[Sa Sb]|Sa]; [|right; lia].
           destruct (V3 Sb) as [Hx|Hx]; [left; exact Hx|right; lia].
        -- intros q Hq. rewrite Sreq in Hq. destruct (V4 q Hq) as [Hx|(Hx & Hy & Hz)]; [left; exact Hx|right].
           assert (l2 = l1) as ->.
           { eapply settle_loc; [exact Hset|]. intros En. rewrite En in Hq. discriminate. }
           auto.
      * rewrite Hn1 in Ho. discriminate.
      * left. rewrite Hk in Ho. injection Ho as ->. exists p, rest. split; [exact Hs|]. unfold nn. exact Hcl.
    + (* frames *)
      intros f w ctl Hin Hf. cbn [t_stack] in Hin.
      assert (Hfn : help_frame f <> None) by congruence.
      destruct (settle_help _ _ _ _ _ _ _ f Hset Hng Hin Hfn) as [H|[H|(c & old & n & ctl' & r & -> & H)]].
      * left. exists f. rewrite Hs. split; [right; exact H|auto].
      * destruct (exec_help _ _ _ _ _ _ _ _ _ _ _ _ He Hns H Hf) as
          [(O1 & O2 & O3)|[(c & O1 & O2 & O3 & O4 & O5)|[(O1 & O2 & O3)|(O1 & O2 & O3 & O4 & O5 & O6)]]].
        -- left. exists p. rewrite Hs. split; [left; reflexivity|auto].
        -- right. left. exists p, c. rewrite Hs. split; [left; reflexivity|]. repeat split; auto.
           rewrite req_of_top. cbn [t_stack]. fold (hd_req stk2). rewrite Sreq. exact O5.
        -- right. right. left. exists p. rewrite Hs. split; [left; reflexivity|auto].
        -- right. right. right. repeat split; auto.
           ++ rewrite req_of_top, Hs. exact O5.
           ++ exists p, rest. split; [exact Hs|exact O6].
      * left. exists (WHelpRepl c old n ctl'). rewrite Hs. split; [right; exact H|]. cbn in Hf. cbn. auto.
    + (* space offers *)
      intros w. pose proof (exec_offer _ _ _ _ _ _ _ _ _ He) as Hoff.
      assert (Hown : in_with p = true -> forall q, own_node (t_loc (thr s t)) = w -> l1 = t_loc (thr s t) ->
                       nx = NGoto q -> top_req q = None ->
                       owner (thr s t) = Some w /\ tl_node l2 = Some w /\ hd_req stk2 = None).
      { intros Hi q Hw -> -> Hq.
        assert (Hno : tl_node (t_loc (thr s t)) <> None).
        { apply Hnn. cbn. rewrite (in_with_not_bottom _ Hi), Hi. lia. }
        unfold own_node in Hw. unfold owner. destruct (tl_node (t_loc (thr s t))) as [n1|] eqn:Hn1; [|congruence].
        subst n1. split; [reflexivity|]. rewrite Sreq. split; [exact Snode|exact Hq]. }
      destruct p; try (solve [left; apply Hoff]).
      * (* GPush *)
        destruct (Hoff w) as [Hx|[Hx ->]]; [left; exact Hx|right; right; exact Hx].
      * (* LH8 *)
        destruct (N.eq_dec w (own_node (t_loc (thr s t)))) as [Ew|Ew]; [|left; apply Hoff; exact Ew].
        right. left. cbn in He. unfold a_store in He. injection He as _ El _ En.
        destruct (Hown eq_refl _ (eq_sym Ew) (eq_sym El) (eq_sym En) eq_refl) as (A & B & C).
        split; [exact A|]. split; [exact B|]. rewrite req_of_top. exact C.
      * (* PE8 *)
        destruct (N.eq_dec w (own_node (t_loc (thr s t)))) as [Ew|Ew]; [|left; apply Hoff; exact Ew].
        right. left. cbn in He. unfold a_store in He. injection He as _ El _ En.
        destruct (Hown eq_refl _ (eq_sym Ew) (eq_sym El) (eq_sym En) eq_refl) as (A & B & C).
        split; [exact A|]. split; [exact B|]. rewrite req_of_top. exact C.
Qed.

(** ** Using the old invariants *)
Lemma in_running s t f : Quiet s -> In f (t_stack (thr s t)) -> t_status (thr s t) = Running.
Proof.
  intros Q Hin. destruct (status_running_dec (t_status (thr s t))) as [Hr|Hr]; [exact Hr|].
  destruct (q_stop _ Q t Hr) as [E _]. rewrite E in Hin. destruct Hin.
Qed.

Lemma resv_in w f stk : In f stk -> resv_node f = Some w -> 1 <= resv w stk.
Proof.
  induction stk as [|g stk IH]; intros Hin Hr; [destruct Hin|]. destruct Hin as [<-|Hin]; cbn.
  - unfold resv_frame. rewrite Hr, N.eqb_refl. cbn. lia.
  - specialize (IH Hin Hr). lia.
Qed.

Lemma no_claim s t w t1 f :
  WF2 s -> Quiet s -> W_inv s -> NoUnused s -> claim_step s t w ->
  In f (t_stack (thr s t1)) -> resv_node f = Some w -> False.
Proof.
  intros W Q Wi Nu (p & rest & Hs & Hcl) Hin Hr.
  pose proof (nodes_ok_resv _ _ _ (all_frames_ok s t1 f W Q Hin) Hr) as Hlt.
  destruct Hcl as [[-> Hz]|[[-> Hz]|[-> Hz]]].
  - pose proof (Total_ge _ _ t1 (Wi w)) as Hge. cbn beta in Hge. pose proof (resv_in w f _ Hin Hr). lia.
  - exact (Nu w Hlt Hz).
  - lia.
Qed.

Lemma req_gentop s th c gt :
  WF2 s -> Quiet s -> GenTop s -> req_of (thr s th) = Some (c, gt) ->
  t_status (thr s th) = Running /\ gt = N.lor (tl_gen (t_loc (thr s th))) GEN_TAG /\
  gen_of gt = tl_gen (t_loc (thr s th)) /\ unpublished (thr s th) = false.
Proof.
  intros W Q G Hreq. rewrite req_of_top in Hreq. rewrite unpublished_top.
  destruct (t_stack (thr s th)) as [|p rest] eqn:Hs; [discriminate|].
  assert (Hr : t_status (thr s th) = Running) by (eapply in_running; [exact Q|rewrite Hs; left; reflexivity]).
  split; [exact Hr|]. pose proof (G th Hr) as Hg. rewrite Hs in Hg. inversion Hg as [|? ? Hgp _]; subst.
  destruct (running_stk_ok s th W Hr) as [Htl _]. rewrite Hs in Htl. destruct Htl as (_ & _ & _ & _ & _ & Hgok & _).
  assert (Hgt : gt = N.lor (tl_gen (t_loc (thr s th))) GEN_TAG).
  { destruct p; try discriminate Hreq; cbn in Hreq, Hgp; congruence. }
  split; [exact Hgt|]. split; [rewrite Hgt; apply gen_of_lor; exact Hgok|].
  destruct p; try discriminate Hreq; reflexivity.
Qed.

Lemma req_addr s th c gt w :
  WF2 s -> Quiet s -> owner (thr s th) = Some w -> req_of (thr s th) = Some (c, gt) ->
  mem (sh s) (LAddr w) = store_val c.
Proof.
  intros W Q Ho Hreq. rewrite req_of_top in Hreq.
  destruct (t_stack (thr s th)) as [|p rest] eqn:Hs; [discriminate|].
  assert (Hr : t_status (thr s th) = Running) by (eapply in_running; [exact Q|rewrite Hs; left; reflexivity]).
  pose proof (w_top _ W th w Hr (owner_holder _ _ Ho)) as Ht. rewrite Hs in Ht.
  destruct p; try discriminate Hreq; cbn in Hreq, Ht; injection Hreq as -> ->; tauto.
Qed.

Lemma owner_unique s t1 t2 w : WF2 s -> owner (thr s t1) = Some w -> owner (thr s t2) = Some w -> t1 = t2.
Proof. intros W H1 H2. eapply (w_uniq _ W); apply owner_holder; eassumption. Qed.

Section Step.
  Variables (cf : config) (s : state) (t x : N).
  Hypotheses (W : WF2 s) (Hcalm : Calm s) (Q : Quiet s) (GI : GenInv s)
             (Hnf : NoFault (fst (step cf s t x))).
  Local Notation s' := (fst (step cf s t x)).

  (** The view of an owner of [w] after the step, given a frame that holds a reservation in [w]. *)
  Lemma old_view th w t1 f0 :
    In f0 (t_stack (thr s t1)) -> resv_node f0 = Some w ->
    owner (thr s' th) = Some w ->
    owner (thr s th) = Some w /\
    tl_gen (t_loc (thr s th)) <= tl_gen (t_loc (thr s' th)) /\
    (unpublished (thr s' th) = true ->
       unpublished (thr s th) = true \/ tl_gen (t_loc (thr s th)) < tl_gen (t_loc (thr s' th))) /\
    (forall q, req_of (thr s' th) = Some q ->
       req_of (thr s th) = Some q \/
       (unpublished (thr s th) = true /\ tl_gen (t_loc (thr s' th)) = tl_gen (t_loc (thr s th)) /\
        snd q = N.lor (tl_gen (t_loc (thr s th))) GEN_TAG)).
  Proof.
    intros Hin Hr Ho. destruct (step_summary cf s t x W Hcalm (g_top _ GI) Hnf) as (Hoth & V & _ & _).
    destruct (N.eq_dec th t) as [->|Hne].
    - destruct (V w Ho) as [Hcl|H]; [|exact H].
      exfalso. exact (no_claim s t w t1 f0 W Q (g_w _ GI) (g_nu _ GI) Hcl Hin Hr).
    - rewrite (Hoth th Hne) in *. split; [exact Ho|]. split; [lia|]. split; auto.
  Qed.

  (** [GU] for a frame that existed before the step. *)
  Lemma GU_old th w ctl t1 f0 :
    In f0 (t_stack (thr s t1)) -> help_frame f0 = Some (w, ctl) -> owner (thr s' th) = Some w ->
    gen_of ctl <= tl_gen (t_loc (thr s' th)) /\
    (unpublished (thr s' th) = true -> gen_of ctl < tl_gen (t_loc (thr s' th))).
  Proof.
    intros Hin Hf Ho.
    destruct (old_view th w t1 f0 Hin (help_frame_resv _ _ _ Hf) Ho) as (Ho0 & Hle & Hun & _).
    destruct (g_u _ GI t1 f0 w ctl Hin Hf th Ho0) as [G1 G2].
    split; [lia|]. intros Hu. destruct (Hun Hu) as [Hx|Hx]; [specialize (G2 Hx)|]; lia.
  Qed.

  (** A request of the new state that carries the word of an old helper frame is an old request. *)
  Lemma req_old th w ctl c' t1 f0 :
    In f0 (t_stack (thr s t1)) -> help_frame f0 = Some (w, ctl) ->
    owner (thr s' th) = Some w -> req_of (thr s' th) = Some (c', ctl) ->
    owner (thr s th) = Some w /\ req_of (thr s th) = Some (c', ctl).
  Proof.
    intros Hin Hf Ho Hreq.
    destruct (old_view th w t1 f0 Hin (help_frame_resv _ _ _ Hf) Ho) as (Ho0 & _ & _ & Hrq).
    split; [exact Ho0|]. destruct (Hrq _ Hreq) as [Hx|(Hu & _ & Hgt)]; [exact Hx|]. exfalso. cbn in Hgt.
    destruct (g_u _ GI t1 f0 w ctl Hin Hf th Ho0) as [_ G2]. specialize (G2 Hu).
    assert (Hr : t_status (thr s th) = Running).
    { rewrite unpublished_top in Hu. destruct (t_stack (thr s th)) eqn:Hs; [discriminate|].
      eapply in_running; [exact Q|rewrite Hs; left; reflexivity]. }
    destruct (running_stk_ok s th W Hr) as [Htl _].
    assert (Hgok : gen_ok (t_loc (thr s th))).
    { destruct (t_stack (thr s th)); [apply Htl|]. destruct Htl as (_ & _ & _ & _ & _ & Hg). exact Hg. }
    rewrite Hgt, gen_of_lor in G2 by apply Hgok. lia.
  Qed.

  Theorem step_GU : GU s'.
  Proof.
    intros t1 f w ctl Hin Hf th Ho.
    destruct (step_summary cf s t x W Hcalm (g_top _ GI) Hnf) as (Hoth & V & F & _).
    destruct (N.eq_dec t1 t) as [->|Hne]; [|rewrite (Hoth t1 Hne) in Hin; eapply GU_old; eassumption].
    destruct (F f w ctl Hin Hf) as [(f0 & I0 & H0 & _)|[(f0 & c & I0 & H0 & _)|[(f0 & I0 & H0 & _)|
      (Hctl & Hgen & _ & _ & Hnoreq & p & rest & Hs & Hres)]]]; try (eapply GU_old; eassumption).
    (* a word just read from the control word of [w] *)
    assert (Hinp : In p (t_stack (thr s t))) by (rewrite Hs; left; reflexivity).
    pose proof (nodes_ok_resv _ _ _ (all_frames_ok s t p W Q Hinp) Hres) as Hlt.
    rewrite Hctl in Hgen. destruct (ctl_gen_owner s w W Q Hlt Hgen) as (th0 & c0 & Hr0 & Ho0 & Hreq0 & _).
    rewrite <- Hctl in *.
    destruct (old_view th w t p Hinp Hres Ho) as (Hoo & _).
    assert (th = th0) as -> by (eapply owner_unique; eassumption).
    assert (Hne : th0 <> t) by (intros ->; congruence).
    rewrite (Hoth th0 Hne).
    destruct (req_gentop s th0 c0 ctl W Q (g_top _ GI) Hreq0) as (_ & _ & Hg & Hu).
    rewrite Hg, Hu. split; [lia|discriminate].
  Qed.

  Theorem step_GUC : GUC s'.
  Proof.
    intros t1 f c w ctl Hin Hc th c' Ho Hreq.
    pose proof (help_c_frame _ _ _ _ Hc) as Hf.
    destruct (step_summary cf s t x W Hcalm (g_top _ GI) Hnf) as (Hoth & V & F & _).
    assert (Hold : forall t0 f0, In f0 (t_stack (thr s t0)) -> help_c f0 = Some (c, w, ctl) -> c' = c).
    { intros t0 f0 I0 C0. destruct (req_old th w ctl c' t0 f0 I0 (help_c_frame _ _ _ _ C0) Ho Hreq) as [A B].
      exact (g_c _ GI t0 f0 c w ctl I0 C0 th c' A B). }
    destruct (N.eq_dec t1 t) as [->|Hne]; [|rewrite (Hoth t1 Hne) in Hin; eapply Hold; eassumption].
    destruct (F f w ctl Hin Hf) as [(f0 & I0 & H0 & C0 & _)|[(f0 & c2 & I0 & H0 & C0 & _ & Ha & Hnr)|[(f0 & I0 & H0 & C0 & _)|
      (_ & _ & C0 & _)]]].
    - eapply Hold; [exact I0|]. rewrite <- C0. exact Hc.
    - rewrite C0 in Hc. injection Hc as ->.
      destruct (N.eq_dec th t) as [->|Hnt]; [congruence|]. rewrite (Hoth th Hnt) in Ho, Hreq.
      pose proof (req_addr s th c' ctl w W Q Ho Hreq) as Ha'. rewrite Ha in Ha'. symmetry. apply store_val_inj. exact Ha'.
    - eapply Hold; [exact I0|]. rewrite <- C0. exact Hc.
    - congruence.
  Qed.

  Theorem step_GUT : GUT s'.
  Proof.
    intros t1 f w ctl their Hin Ht th c' Ho Hreq.
    pose proof (help_their_frame _ _ _ _ Ht) as Hf.
    destruct (step_summary cf s t x W Hcalm (g_top _ GI) Hnf) as (Hoth & V & F & M).
    assert (Hold : forall t0 f0, In f0 (t_stack (thr s t0)) -> help_their f0 = Some (w, ctl, their) ->
                                 mem (sh s') (LOffer w) = their).
    { intros t0 f0 I0 T0. pose proof (help_their_frame _ _ _ _ T0) as H0.
      destruct (req_old th w ctl c' t0 f0 I0 H0 Ho Hreq) as [A B].
      pose proof (g_t _ GI t0 f0 w ctl their I0 T0 th c' A B) as Hm.
      destruct (M w) as [Hx|[(O1 & O2 & O3)|Hx]].
      - rewrite Hx. exact Hm.
      - exfalso. destruct (N.eq_dec th t) as [->|Hnt]; [congruence|].
        apply Hnt. eapply owner_unique; eassumption.
      - exfalso. pose proof (nodes_ok_resv _ _ _ (all_frames_ok s t0 f0 W Q I0) (help_frame_resv _ _ _ H0)). lia. }
    destruct (N.eq_dec t1 t) as [->|Hne]; [|rewrite (Hoth t1 Hne) in Hin; eapply Hold; eassumption].
    destruct (F f w ctl Hin Hf) as [(f0 & I0 & H0 & _ & T0)|[(f0 & c2 & I0 & H0 & _ & T0 & _)|[(f0 & I0 & H0 & _ & T0)|
      (_ & _ & _ & T0 & _)]]].
    - eapply Hold; [exact I0|]. rewrite <- T0. exact Ht.
    - congruence.
    - rewrite T0 in Ht. injection Ht as <-. reflexivity.
    - congruence.
  Qed.
End Step.
