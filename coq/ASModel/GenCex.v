(** * ASModel.GenCex — why [Gen.step_GenInv] needs the hypothesis [Quiet].

    [WF2] constrains the stacks of running threads only.  A state in which a stopped thread
    still carries a reservation frame for a node that does not exist yet satisfies [WF2],
    [Calm] and [GenInv], but the push of that node resets its [active_writers] word and breaks
    [W_inv].  Such a state is not reachable ([Quiet] excludes it). *)
From Coq Require Import Lia ZArith.
From ASModel Require Import Base State Orderings_gen Step Run Progress Hist Inv InvTl InvProto InvStep Sum StepCases GenDefs Gen1 Gen2.

Definition cex_cf : config := mkConfig true false.
Definition cex_t0 : thread := mkThread [GPush 0; WGetLoad 0; KDone None] tl_init [CLoad 0 0] 0 Running.
Definition cex_t1 : thread := mkThread [P5 0 0 0] tl_init [] 0 Panicked.
Definition cex_s : state :=
  mkState (mkShared (upd init_mem (LWriters 0) 1) (fun _ => None) 0)
          (upd (upd (fun _ => no_thread) 0 cex_t0) 1 cex_t1)
          (fun _ => HEmpty).

Lemma cex_thr t : (t = 0 /\ thr cex_s t = cex_t0) \/ (t = 1 /\ thr cex_s t = cex_t1) \/ (t <> 0 /\ t <> 1 /\ thr cex_s t = no_thread).
Proof.
  cbn. unfold upd. destruct (decide (t = 1)) as [->|H1]; [right; left; auto|].
  destruct (decide (t = 0)) as [->|H0]; [left; auto|right; right; auto].
Qed.

Lemma cex_holder t : holder (thr cex_s t) = None.
Proof. destruct (cex_thr t) as [[_ ->]|[[_ ->]|(_ & _ & ->)]]; reflexivity. Qed.

Lemma cex_nn : nn cex_s = 0.
Proof. reflexivity. Qed.

Lemma cex_WF2 : WF2 cex_s.
Proof.
  constructor; try (intros; rewrite cex_nn in *; lia).
  - intros t Hr. destruct (cex_thr t) as [[_ E]|[[_ E]|(_ & _ & E)]]; rewrite E in *; try discriminate Hr.
    split.
    + cbn. repeat split; try reflexivity; try (repeat constructor; fail); try discriminate; try (cbn; lia);
        try (intros H; exfalso; apply H; reflexivity).
    + repeat constructor. cbn. lia.
  - intros t n H. rewrite cex_holder in H. discriminate.
  - intros t t' n H. rewrite cex_holder in H. discriminate.
  - intros t n _ H. rewrite cex_holder in H. discriminate.
Qed.

Lemma cex_Calm : Calm cex_s.
Proof.
  intros t. destruct (cex_thr t) as [[_ ->]|[[_ ->]|(_ & _ & ->)]]; cbn; (split; [unfold WORD; lia|]); intros g H; try destruct H as [H|[]]; try discriminate H; try exact H.
Qed.

Lemma cex_GenInv : GenInv cex_s.
Proof.
  constructor.
  - intros w. destruct (N.eq_dec w 0) as [->|Hw].
    + exists [1]. split; [split; [repeat constructor; intros []|]|reflexivity].
      intros k Hk. destruct (cex_thr k) as [[_ E]|[[-> _]|(_ & _ & E)]]; [rewrite E in Hk; elim Hk; reflexivity|left; reflexivity|rewrite E in Hk; elim Hk; reflexivity].
    + replace (mem (sh cex_s) (LWriters w)) with 0 by (cbn; rewrite upd_other by congruence; reflexivity).
      apply Total_zero_iff. intros k. destruct (cex_thr k) as [[_ ->]|[[_ ->]|(_ & _ & ->)]]; try reflexivity.
      cbn. unfold resv_frame. cbn. destruct w; [congruence|reflexivity].
  - intros n Hn. rewrite cex_nn in Hn. lia.
  - intros t _. destruct (cex_thr t) as [[_ ->]|[[_ ->]|(_ & _ & ->)]]; repeat constructor.
  - intros t f w ctl Hin Hf. exfalso. destruct (cex_thr t) as [[_ E]|[[_ E]|(_ & _ & E)]]; rewrite E in Hin; cbn in Hin;
      intuition (subst; discriminate).
  - intros t f c w ctl Hin Hf. exfalso. destruct (cex_thr t) as [[_ E]|[[_ E]|(_ & _ & E)]]; rewrite E in Hin; cbn in Hin;
      intuition (subst; discriminate).
  - intros t f w ctl their Hin Hf. exfalso. destruct (cex_thr t) as [[_ E]|[[_ E]|(_ & _ & E)]]; rewrite E in Hin; cbn in Hin;
      intuition (subst; discriminate).
Qed.

Lemma cex_NoFault : NoFault (fst (step cex_cf cex_s 0 0)).
Proof.
  intros t. destruct (N.eq_dec t 0) as [->|Hne].
  - vm_compute. discriminate.
  - rewrite step_status_other by exact Hne.
    destruct (cex_thr t) as [[_ ->]|[[_ ->]|(_ & _ & ->)]]; discriminate.
Qed.

Lemma cex_not_W_inv : ~ W_inv (fst (step cex_cf cex_s 0 0)).
Proof.
  intros Wi. pose proof (Total_ge _ _ 1 (Wi 0)) as H. cbn beta in H.
  rewrite step_status_other in H by discriminate.
  replace (mem (sh (fst (step cex_cf cex_s 0 0))) (LWriters 0)) with 0 in H by (vm_compute; reflexivity).
  vm_compute in H. apply H. reflexivity.
Qed.

(** The step theorem without [Quiet] is false. *)
Theorem step_GenInv_needs_Quiet :
  exists cf s t x, WF2 s /\ Calm s /\ GenInv s /\ NoFault (fst (step cf s t x)) /\ ~ GenInv (fst (step cf s t x)).
Proof.
  exists cex_cf, cex_s, 0, 0. split; [exact cex_WF2|]. split; [exact cex_Calm|]. split; [exact cex_GenInv|].
  split; [exact cex_NoFault|]. intros GI. exact (cex_not_W_inv (g_w _ GI)).
Qed.

Print Assumptions step_GenInv_needs_Quiet.
