(** * ASModel.GenDefs — reservations, generations and requests: definitions of the invariants
    proved in [Gen].

    - [W_inv]: the [active_writers] word of a node counts exactly the frames that hold a
      reservation in it (writers walking it, the cooldown of its last holder);
    - [NoUnused]: a node is never marked UNUSED (since the D8 fix a node leaves cooldown
      straight into USED, taken by the thread that checked the writers);
    - [GenTop]: the generation word of a fallback request is the thread's current generation;
    - [GU]: a writer that is helping node [w] with control word [ctl] read it from a request
      that [w]'s owner has already published: no LATER request of that owner (nor of any later
      owner of the node) carries the same word — generations are unique within the time a
      writer stays inside the node;
    - [GUC], [GUT]: if the owner's current request still carries the helper's word, it is a
      request for the helper's container, and the node's space offer is the one the helper read.

    [Calm]: the generation counter of no thread is about to wrap and no program presets it
    (the wrap needs 2^62 fallback loads of one thread; it is covered by C13 and by the
    correspondence with [verif::set_generation]). *)
From Coq Require Import Lia.
From ASModel Require Import Base State Orderings_gen Step Run Progress Hist Inv InvTl InvProto InvStep Sum StepCases.

Definition ind (b : bool) : N := if b then 1 else 0.

(** ** Reservations *)
Definition resv_node (p : pc) : option N :=
  match p with
  | PE0d _ _ w | PE0e _ _ w | PE1 _ _ w | PE2 _ _ w _ | PE3 _ _ w _ | WHelpRepl _ _ w _
  | PE4 _ _ w _ _ | PE5 _ _ w _ _ _ | PE6 _ _ w _ _ _ _ | PE7 _ _ w _ _ _ _ | PE8 _ _ w _
  | PE9 _ _ w _ _ | PS _ _ w _ | PSi _ _ w _ | P5 _ _ w => Some w
  | C2 w | C3 w => Some w
  | _ => None
  end.

Definition resv_frame (w : N) (p : pc) : N :=
  match resv_node p with Some w' => ind (w' =? w) | None => 0 end.

Fixpoint resv (w : N) (stk : list pc) : N :=
  match stk with [] => 0 | p :: rest => resv_frame w p + resv w rest end.

Definition W_inv (s : state) : Prop :=
  forall w, Total (fun t => resv w (t_stack (thr s t))) (mem (sh s) (LWriters w)).

Definition NoUnused (s : state) : Prop :=
  forall n, n < nn s -> mem (sh s) (LInUse n) <> NODE_UNUSED.

(** ** Generations *)
Definition gen_frame_ok (l : tlocal) (p : pc) : Prop :=
  match p with
  | LH1 _ gt | LH2 _ gt | LH3 _ gt | LH3d _ gt _ | LH4 _ gt _ | LH5 _ gt _ => gt = N.lor (tl_gen l) GEN_TAG
  | WGetSetGen _ => False       (* only [verif::set_generation] creates it; excluded by [Calm] *)
  | _ => True
  end.

Definition GenTop (s : state) : Prop :=
  forall t, t_status (thr s t) = Running ->
            Forall (gen_frame_ok (t_loc (thr s t))) (t_stack (thr s t)).

Definition gen_of (v : N) : N := v - N.land v TAG_MASK.

Definition Calm (s : state) : Prop :=
  forall t, tl_gen (t_loc (thr s t)) + 4 < WORD /\ (forall g, ~ In (CSetGen g) (t_prog (thr s t))).

(** Frames of a writer that is helping node [w], with the control word it read. *)
Definition help_frame (p : pc) : option (N * N) :=
  match p with
  | PE2 _ _ w ctl | PE3 _ _ w ctl | WHelpRepl _ _ w ctl | PE4 _ _ w ctl _ | PE5 _ _ w ctl _ _
  | PE6 _ _ w ctl _ _ _ | PE7 _ _ w ctl _ _ _ => Some (w, ctl)
  | PE9 _ _ w newctl _ =>      (* the word seen by the failed exchange; used after the decrement *)
      if N.land newctl TAG_MASK =? GEN_TAG then Some (w, newctl) else None
  | _ => None
  end.

(** ... after it has checked the announced address against its own storage [c]. *)
Definition help_c (p : pc) : option (N * N * N) :=
  match p with
  | WHelpRepl c _ w ctl | PE4 c _ w ctl _ | PE5 c _ w ctl _ _ | PE6 c _ w ctl _ _ _
  | PE7 c _ w ctl _ _ _ => Some (c, w, ctl)
  | _ => None
  end.

(** ... after it has read the reader's space offer. *)
Definition help_their (p : pc) : option (N * N * N) :=
  match p with
  | PE5 _ _ w ctl _ their | PE6 _ _ w ctl _ their _ | PE7 _ _ w ctl _ their _ => Some (w, ctl, their)
  | _ => None
  end.

(** The request a thread has published and not yet closed: container and generation word. *)
Definition req_of (th : thread) : option (N * N) :=
  match t_stack th with
  | LH3 c gt :: _ | LH3d c gt _ :: _ | LH4 c gt _ :: _ | LH5 c gt _ :: _ => Some (c, gt)
  | _ => None
  end.

(** The thread has chosen the generation of its next request but not published it yet. *)
Definition unpublished (th : thread) : bool :=
  match t_stack th with LH1 _ _ :: _ | LH2 _ _ :: _ => true | _ => false end.

Definition owner (th : thread) : option N := tl_node (t_loc th).

Definition GU (s : state) : Prop :=
  forall t f w ctl, In f (t_stack (thr s t)) -> help_frame f = Some (w, ctl) ->
  forall th, owner (thr s th) = Some w ->
    gen_of ctl <= tl_gen (t_loc (thr s th)) /\
    (unpublished (thr s th) = true -> gen_of ctl < tl_gen (t_loc (thr s th))).

Definition GUC (s : state) : Prop :=
  forall t f c w ctl, In f (t_stack (thr s t)) -> help_c f = Some (c, w, ctl) ->
  forall th c', owner (thr s th) = Some w -> req_of (thr s th) = Some (c', ctl) -> c' = c.

Definition GUT (s : state) : Prop :=
  forall t f w ctl their, In f (t_stack (thr s t)) -> help_their f = Some (w, ctl, their) ->
  forall th c', owner (thr s th) = Some w -> req_of (thr s th) = Some (c', ctl) ->
    mem (sh s) (LOffer w) = their.

Record GenInv (s : state) : Prop := {
  g_w : W_inv s;
  g_nu : NoUnused s;
  g_top : GenTop s;
  g_u : GU s;
  g_c : GUC s;
  g_t : GUT s;
}.
