(** * ASModel.GenLen — the hypothesis [GenBound] of [RunOK] follows from a bound on the
    LENGTH of the run.

    A step advances the generation counter of a thread by at most 4 (as long as the
    verification hook [CSetGen] / [WGetSetGen] is not around), and every counter starts at 0.
    Hence after [n] steps every counter is at most [4 * n]; a run of fewer than [2^62 - 1]
    steps never comes near the wrap of the counter, and [RunOKLen] (= [RunOK] without the
    state hypothesis [GenBound], with [4 * length sched + 4 < WORD] instead) implies [RunOK]. *)
From Coq Require Import Lia ZArith.
From ASModel Require Import Base State Orderings_gen Step Run Progress Hist Inv InvTl InvProto InvStep Sum StepCases.
From ASModel Require Import GenDefs Gen1 Gen2 Gen EnvDefs Env4 Env.
From ASModel Require Import AccDefs Acc1 Acc2 Acc3 Acc4 Acc5 Acc6 Acc7 Acc.
From ASModel Require Import ProtDefs Prot1 Prot11 Prot16 Prot Typed LinDefs Lin2 Lin.
From ASModel Require Import Safe1 Safe2 Safe7 Safe8 Safe Main.

(** ** One frame step / one resume: the counter stays, or advances by at most 4 and the
    frame does not return *)
Definition gstep (l l' : tlocal) (nx : next) : Prop :=
  tl_gen l' = tl_gen l \/ (tl_gen l' <= tl_gen l + 4 /\ forall v, nx <> NRet v).

Lemma mod_le_add g : (g + 4) mod WORD <= g + 4.
Proof. apply N.mod_le. unfold WORD. discriminate. Qed.

Lemma call_shape_gle l l' fs : call_shape l l' fs ->
  tl_gen l' = tl_gen l \/ (tl_gen l' <= tl_gen l + 4 /\ fs <> []).
Proof.
  intros [[_ Hg]|(c & fs' & -> & _ & Hg)]; [left; exact Hg|right].
  split; [rewrite Hg; apply mod_le_add|discriminate].
Qed.

Lemma nx_call_gstep l l' nx : nx_call l l' nx -> gstep l l' nx.
Proof.
  intros H. destruct (call_shape_gle _ _ _ H) as [E|[Hle Hne]]; [left; exact E|right].
  split; [exact Hle|]. intros v ->. apply Hne. reflexivity.
Qed.

Lemma gstep_refl l nx : gstep l l nx.
Proof. left. reflexivity. Qed.

(** ** The frame step *)
Lemma exec_gstep cf s l p x s' l' evs nx :
  exec cf s l p x = (s', l', evs, nx) -> gstep l l' nx.
Proof.
  intros He. destruct (special_pc p) eqn:Hsp.
  2:{ apply nx_call_gstep. eapply exec_call; eassumption. }
  destruct p; try discriminate Hsp; clear Hsp; exec_norm He; try apply gstep_refl.
  all: try (left; destruct (_ =? _); reflexivity).
  all: match goal with
       | H : enter_load _ _ _ = inl (_, _) |- _ =>
           apply enter_load_call in H as [H _];
           destruct (call_shape_gle _ _ _ H) as [E|[E _]]; [left; exact E|right; split; [exact E|discriminate]]
       end.
Qed.

(** ** Resuming a waiting frame, and the unwinding of the stack *)
Lemma resume_gstep cf l w v l' nx :
  resume cf l w v = (l', nx) -> (forall g, w <> WGetSetGen g) -> gstep l l' nx.
Proof.
  intros He Hg. destruct (resume_call _ _ _ _ _ _ He Hg) as [Hc|(c & old & n & ctl & r & _ & -> & _)].
  - apply nx_call_gstep. exact Hc.
  - apply gstep_refl.
Qed.

Definition NoSG (stk : list pc) : Prop := forall g, ~ In (WGetSetGen g) stk.

Lemma NoSG_cons w rest : NoSG (w :: rest) -> (forall g, w <> WGetSetGen g) /\ NoSG rest.
Proof.
  intros H. split.
  - intros g ->. apply (H g). left. reflexivity.
  - intros g Hin. apply (H g). right. exact Hin.
Qed.

Lemma plain_NoSG fs : Forall (fun f => plain f = true) fs -> NoSG fs.
Proof.
  intros H g Hin. pose proof (proj1 (Forall_forall _ _) H _ Hin) as Hp. discriminate Hp.
Qed.

Lemma NoSG_app a b : NoSG a -> NoSG b -> NoSG (a ++ b).
Proof. intros Ha Hb g Hin. apply in_app_or in Hin as [Hin|Hin]; [exact (Ha g Hin)|exact (Hb g Hin)]. Qed.

Definition unwound_stack (u : unwound) : list pc :=
  match u with UStack _ stk => stk | _ => [] end.

(** While the stack is unwound the counter stays, until a resumed frame does not return: that
    frame may advance the counter, once. *)
Lemma unwind_gen cf : forall rest l v, NoSG rest ->
  tl_gen (unwound_loc (unwind cf l rest v)) <= tl_gen l + 4 /\ NoSG (unwound_stack (unwind cf l rest v)).
Proof.
  induction rest as [|w rest IH]; intros l v Hn; [cbn; split; [lia|intros g []]|].
  destruct (NoSG_cons _ _ Hn) as [Hw Hrest].
  assert (Hnil : NoSG []) by (intros g []).
  destruct w; cbn [unwind unwound_loc unwound_stack]; try (split; [lia|exact Hnil]).
  all: match goal with |- context [resume ?cf0 ?l0 ?w ?v0] => destruct (resume cf0 l0 w v0) as [l' nx] eqn:Hr end;
       pose proof (resume_gstep _ _ _ _ _ _ Hr Hw) as Hg; pose proof (resume_plain _ _ _ _ _ _ Hr) as Hp;
       destruct nx as [p'|fs w'|v'|ps|f]; cbn [unwound_loc unwound_stack nx_frames] in *.
  all: try (split; [destruct Hg as [->|[Hg _]]; lia|]; try exact Hnil).
  all: try (apply (NoSG_app [_]); [apply plain_NoSG; exact Hp|exact Hrest]).
  all: try (replace (fs ++ w' :: rest) with ((fs ++ [w']) ++ rest) by (rewrite <- app_assoc; reflexivity);
            apply NoSG_app; [apply plain_NoSG; exact Hp|exact Hrest]).
  all: try (exfalso; apply (Hw g); reflexivity).
  all: destruct Hg as [Hg|[_ Hg]]; [|exfalso; eapply Hg; reflexivity];
       destruct (IH l' v' Hrest) as [H1 H2]; split; [lia|exact H2].
Qed.

(** ** The thread after a frame step *)
Lemma thread_after_gen cf th l l1 rest nx :
  gstep l l1 nx -> NoSG rest -> (~ nx_stops nx -> NoSG (nx_frames nx)) ->
  tl_gen (t_loc (thread_after cf th l1 rest nx)) <= tl_gen l + 4 /\
  NoSG (t_stack (thread_after cf th l1 rest nx)).
Proof.
  intros Hg Hrest Hnx.
  assert (Hle : tl_gen l1 <= tl_gen l + 4) by (destruct Hg as [->|[Hg _]]; lia).
  destruct nx as [p'|fs w'|v'|ps|f]; cbn [thread_after t_loc t_stack].
  - split; [exact Hle|]. apply (NoSG_app [p']); [apply Hnx; cbn; auto|exact Hrest].
  - split; [exact Hle|].
    replace (fs ++ w' :: rest) with ((fs ++ [w']) ++ rest) by (rewrite <- app_assoc; reflexivity).
    apply NoSG_app; [apply Hnx; cbn; auto|exact Hrest].
  - destruct Hg as [Hg|[_ Hg]]; [|exfalso; eapply Hg; reflexivity].
    destruct (unwind_gen cf rest l1 v' Hrest) as [H1 H2].
    destruct (unwind cf l1 rest v'); cbn [unwound_loc unwound_stack t_loc t_stack] in *;
      (split; [lia|]); first [exact H2|intros g []].
  - split; [exact Hle|exact Hrest].
  - split; [exact Hle|exact Hrest].
Qed.

(** ** One step of the machine *)
Definition NoSGF (s : state) : Prop := forall t, NoSG (t_stack (thr s t)).

Lemma bottom_tail_NoSG bs : bottom_tail bs -> NoSG bs.
Proof.
  intros [->|(b & -> & Hb & _)] g; [intros []|]. intros [E|[]]. rewrite E in Hb. discriminate Hb.
Qed.

Theorem step_gen cf s t x :
  NoSetGen s -> NoSGF s ->
  (forall t', tl_gen (t_loc (thr (fst (step cf s t x)) t')) <= tl_gen (t_loc (thr s t')) + 4) /\
  NoSGF (fst (step cf s t x)).
Proof.
  intros NS NF.
  enough (H : tl_gen (t_loc (thr (fst (step cf s t x)) t)) <= tl_gen (t_loc (thr s t)) + 4 /\
              NoSG (t_stack (thr (fst (step cf s t x)) t))).
  { destruct H as [H1 H2]. split; intros t'; (destruct (N.eq_dec t' t) as [->|Hne]; [assumption|]);
      rewrite (step_status_other cf s t x t' Hne); [lia|apply NF]. }
  destruct (step_cases cf s t x) as [E|c s1 l1 stk r Hr Hst Hc Hen Hcs E|n Hr Hst Hn E|Hr Hst Hn E|p rest s1 l1 evs nx Hr Hst He E];
    rewrite E.
  - split; [lia|apply NF].
  - cbn [set_thread thr]. rewrite upd_same.
    assert (Hg : forall g, c <> CSetGen g).
    { intros g ->. apply (NS t g). eapply nth_error_In. exact Hc. }
    destruct (cmd_start_call _ _ _ _ _ _ _ _ Hcs Hg) as (fs & bs & -> & Hcall & Hbt).
    assert (Hl : tl_gen l1 <= tl_gen (t_loc (thr s t)) + 4)
      by (destruct (call_shape_gle _ _ _ Hcall) as [->|[H _]]; lia).
    assert (Hs : NoSG (fs ++ bs)).
    { apply NoSG_app; [apply plain_NoSG; eapply call_shape_plain; exact Hcall|apply bottom_tail_NoSG; exact Hbt]. }
    unfold start_thread. destruct (fs ++ bs) eqn:Efs; cbn [t_loc t_stack]; (split; [exact Hl|]); [intros g []|exact Hs].
  - cbn [set_thread thr]. rewrite upd_same. cbn. split; [lia|]. intros g [H|[H|[]]]; discriminate H.
  - cbn [set_thread thr]. rewrite upd_same. cbn. split; [lia|]. intros g [].
  - cbn [thr]. rewrite upd_same. apply thread_after_gen.
    + eapply exec_gstep. exact He.
    + pose proof (NF t) as H. rewrite Hst in H. apply (NoSG_cons _ _ H).
    + intros Hns. apply plain_NoSG. eapply exec_plain; eassumption.
Qed.

Corollary step_gen_le cf s t x t' :
  NoSetGen s -> NoSGF s ->
  tl_gen (t_loc (thr (fst (step cf s t x)) t')) <= tl_gen (t_loc (thr s t')) + 4.
Proof. intros NS NF. apply (proj1 (step_gen cf s t x NS NF)). Qed.

Corollary step_NoSGF cf s t x : NoSetGen s -> NoSGF s -> NoSGF (fst (step cf s t x)).
Proof. intros NS NF. apply (proj2 (step_gen cf s t x NS NF)). Qed.

(** ** Runs *)
Lemma run_gen cf : forall sched s, NoSetGen s -> NoSGF s ->
  (forall t, tl_gen (t_loc (thr (run_state cf s sched) t)) <=
             tl_gen (t_loc (thr s t)) + 4 * N.of_nat (length sched)) /\
  NoSGF (run_state cf s sched).
Proof.
  induction sched as [|[t x] sched IH]; intros s NS NF.
  - split; [intros t; cbn; lia|exact NF].
  - rewrite run_state_cons.
    destruct (step_gen cf s t x NS NF) as [H1 H2].
    destruct (IH _ (NoSetGen_step cf s t x NS) H2) as [H3 H4].
    split; [|exact H4]. intros t'. specialize (H1 t'). specialize (H3 t').
    cbn [length]. lia.
Qed.

Lemma init_thread_facts inits progs t :
  t_stack (thr (init_state inits progs) t) = [] /\ t_loc (thr (init_state inits progs) t) = tl_init.
Proof.
  destruct (init_threads_stack progs 0 (fun _ => no_thread) t) as (H1 & H2 & _); [cbn; auto|].
  split; [exact H1|exact H2].
Qed.

Lemma NoSGF_init inits progs : NoSGF (init_state inits progs).
Proof. intros t g. rewrite (proj1 (init_thread_facts inits progs t)). intros []. Qed.

(** After [n] steps from an initial state every generation counter is at most [4 * n]. *)
Theorem run_gen_init cf inits progs sched t :
  progs_ok progs ->
  tl_gen (t_loc (thr (run_state cf (init_state inits progs) sched) t)) <= 4 * N.of_nat (length sched).
Proof.
  intros [Hp _].
  destruct (run_gen cf sched _ (NoSetGen_init inits progs Hp) (NoSGF_init inits progs)) as [H _].
  specialize (H t). rewrite (proj2 (init_thread_facts inits progs t)) in H. cbn [tl_init tl_gen] in H. lia.
Qed.

Theorem run_NoSGF_init cf inits progs sched :
  progs_ok progs -> NoSGF (run_state cf (init_state inits progs) sched).
Proof.
  intros [Hp _]. apply (run_gen cf sched _ (NoSetGen_init inits progs Hp) (NoSGF_init inits progs)).
Qed.

(** A run that is short enough never comes near the wrap of a generation counter. *)
Theorem GenBound_len cf inits progs sched :
  progs_ok progs -> 4 * N.of_nat (length sched) + 4 < WORD ->
  forall k, GenBound (run_state cf (init_state inits progs) (firstn k sched)).
Proof.
  intros Hp Hlen k t. pose proof (run_gen_init cf inits progs (firstn k sched) t Hp) as H.
  rewrite firstn_length in H. lia.
Qed.

Corollary GenBound_len61 cf inits progs sched :
  progs_ok progs -> N.of_nat (length sched) < 2 ^ 61 ->
  forall k, GenBound (run_state cf (init_state inits progs) (firstn k sched)).
Proof.
  intros Hp Hlen. apply GenBound_len; [exact Hp|].
  change WORD with (4 * 2 ^ 61 + 4 * 2 ^ 61). change (2 ^ 61) with 2305843009213693952 in *. lia.
Qed.

(** ** [RunOK] with the length of the run in place of [GenBound] *)
Record RunOKLen (cf : config) (inits : list N) (progs : list (list cmd)) (sched : list (N * N)) : Prop := {
  rl_inits : inits_ok inits;
  rl_progs : progs_ok progs;
  rl_len : 4 * N.of_nat (length sched) + 4 < WORD;
  rl_state : forall k, let s := St cf (init_state inits progs) sched k in
                       DstEmpty s /\ CloneSrcCmd s;
  rl_alloc : forall k t x, nth_error sched k = Some (t, x) ->
                           alloc_ok (St cf (init_state inits progs) sched k) t x;
}.

Theorem RunOKLen_RunOK cf inits progs sched :
  RunOKLen cf inits progs sched -> RunOK cf inits progs sched.
Proof.
  intros [Hi Hp Hl Hs Ha]. constructor; [exact Hi|exact Hp| |exact Ha].
  intros k. cbn zeta. split; [|exact (Hs k)].
  unfold St. apply GenBound_len; assumption.
Qed.

(** Conversely, [RunOK] without the length bound is all of [RunOKLen] but [rl_len]. *)
Lemma RunOK_RunOKLen cf inits progs sched :
  RunOK cf inits progs sched -> 4 * N.of_nat (length sched) + 4 < WORD -> RunOKLen cf inits progs sched.
Proof.
  intros [Hi Hp Hs Ha] Hl. constructor; try assumption.
  intros k. exact (proj2 (Hs k)).
Qed.

Corollary RunOKLen_Master cf inits progs sched :
  RunOKLen cf inits progs sched -> forall k, Master (St cf (init_state inits progs) sched k).
Proof. intros R. apply RunOK_Master. apply RunOKLen_RunOK. exact R. Qed.

(** ** The headline theorems for runs of bounded length *)
Theorem C01_no_use_after_free_len cf inits progs sched :
  RunOKLen cf inits progs sched ->
  NoFault (run_state cf (init_state inits progs) sched) /\
  forall te, In te (snd (run cf (init_state inits progs) sched)) ->
    forall a, ~ In (EvFault (FDeadInc a)) (snd te) /\ ~ In (EvFault (FDeadDec a)) (snd te).
Proof. intros R. apply C01_no_use_after_free. apply RunOKLen_RunOK. exact R. Qed.

Theorem C02_accounting_len cf inits progs sched :
  RunOKLen cf inits progs sched -> Acc (run_state cf (init_state inits progs) sched).
Proof. intros R. apply C02_accounting. apply RunOKLen_RunOK. exact R. Qed.

Theorem C03_load_linearizable_len cf inits progs sched :
  RunOKLen cf inits progs sched ->
  let s0 := init_state inits progs in
  forall t i cm c h pa pb xa tb xb,
  nth_error (t_prog (thr s0 t)) (N.to_nat i) = Some cm -> is_load_of cm c h ->
  (pa <= pb)%nat ->
  nth_error sched pa = Some (t, xa) ->
  t_status (thr (St cf s0 sched pa) t) = Running -> t_stack (thr (St cf s0 sched pa) t) = [] ->
  t_cmdi (thr (St cf s0 sched pa) t) = i ->
  nth_error sched pb = Some (tb, xb) ->
  t_cmdi (thr (St cf s0 sched pb) t) = i -> t_cmdi (thr (St cf s0 sched (S pb)) t) = i + 1 ->
  exists v, (match cm with
             | CLoad _ _ => exists d, hnd (St cf s0 sched (S pb)) h = HGuard v d
             | _ => hnd (St cf s0 sched (S pb)) h = HOwned v
             end) /\
    exists k, (pa + 1 <= k <= pb + 1)%nat /\ mem (sh (St cf s0 sched k)) (LStore c) = v.
Proof.
  intros R s0. apply (C03_load_linearizable cf inits progs sched (RunOKLen_RunOK _ _ _ _ R)).
Qed.

Print Assumptions step_gen.
Print Assumptions step_gen_le.
Print Assumptions run_gen_init.
Print Assumptions GenBound_len.
Print Assumptions GenBound_len61.
Print Assumptions RunOKLen_RunOK.
Print Assumptions C01_no_use_after_free_len.
Print Assumptions C02_accounting_len.
Print Assumptions C03_load_linearizable_len.
