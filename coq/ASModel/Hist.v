(** * ASModel.Hist — the storage of a container is written only by read-modify-write
    operations (swap / compare_exchange), and the writes form a chain (C04, C05). *)
From Coq Require Import Lia.
From ASModel Require Import Base State Orderings_gen Step Run Progress.

(** The write carried by an event, if it is a successful RMW on the storage of [c]. *)
Definition write_of (c : N) (e : event) : option (N * N) :=
  match e with
  | EvAcc (LStore c') op _ _ old new true =>
      if N.eqb c' c then
        match op with OSwap | OCasWeak => Some (old, new) | _ => None end
      else None
  | _ => None
  end.

Fixpoint writes_in (c : N) (evs : list event) : list (N * N) :=
  match evs with
  | [] => []
  | e :: rest => match write_of c e with Some w => w :: writes_in c rest | None => writes_in c rest end
  end.

Definition is_consume (c : N) (cm : cmd) : bool :=
  match cm with
  | CIntoInner c' _ | CDropStore c' => N.eqb c' c
  | _ => false
  end.

(** ** Primitive facts: which location an action writes. *)
Lemma upd_ne {A B} `{EqDecision A} (f : A -> B) k k' v : k' <> k -> upd f k v k' = f k'.
Proof. apply upd_other. Qed.

Ltac upd_simp :=
  repeat match goal with
  | |- context [upd _ ?k _ ?k'] =>
      first [ rewrite (upd_ne _ k k') by discriminate
            | rewrite (upd_ne _ k k') by congruence ]
  end.

Lemma node_init_store s n c : mem (node_init s n) (LStore c) = mem s (LStore c).
Proof. unfold node_init. cbn. upd_simp. reflexivity. Qed.

Lemma rc_inc_store s a s' evs c : rc_inc s a = Some (s', evs) ->
  mem s' (LStore c) = mem s (LStore c) /\ writes_in c evs = [].
Proof.
  unfold rc_inc. destruct (heap s a); [|discriminate]. intros [= <- <-]. cbn. upd_simp. auto.
Qed.
Lemma rc_dec_store s a s' evs c : rc_dec s a = Some (s', evs) ->
  mem s' (LStore c) = mem s (LStore c) /\ writes_in c evs = [].
Proof.
  unfold rc_dec. destruct (heap s a); [|discriminate]. destruct (_ =? 1); intros [= <- <-]; cbn; upd_simp; auto.
Qed.
Lemma rc_alloc_store s a s' evs c : rc_alloc s a = Some (s', evs) ->
  mem s' (LStore c) = mem s (LStore c) /\ writes_in c evs = [].
Proof.
  unfold rc_alloc. destruct (heap s a); [discriminate|]. destruct (valid_addr a); [|discriminate].
  intros [= <- <-]. cbn. upd_simp. auto.
Qed.

(** The effect of one frame step on the storage of [c]: nothing, or exactly one write event
    whose [old] is the previous content and whose [new] is the next content. *)
Definition store_effect (c : N) (m m' : loc -> N) (evs : list event) : Prop :=
  (m' (LStore c) = m (LStore c) /\ writes_in c evs = [])
  \/ (writes_in c evs = [(m (LStore c), m' (LStore c))]).

Ltac fin_store :=
  first
    [ left; split; [cbn; upd_simp; reflexivity | cbn; reflexivity]
    | left; split; [cbn; upd_simp; reflexivity | cbn; repeat (destruct (_ =? _)%N); reflexivity] ].

Lemma exec_store_effect cf s l p x s' l' evs nx c :
  exec cf s l p x = (s', l', evs, nx) ->
  store_effect c (mem s) (mem s') evs.
Proof.
  intros He. unfold store_effect.
  destruct p; unfold exec in He;
    unfold a_load, a_store, a_swap, a_cas, a_fadd, a_fsub, m_set in He; cbn in He.
  all: try (match type of He with context [rc_inc ?s0 ?a] => destruct (rc_inc s0 a) as [[s2 e2]|] eqn:Hrc end;
            [pose proof (rc_inc_store _ _ _ _ c Hrc) as [Hm Hw]|]).
  all: try (match type of He with context [rc_dec ?s0 ?a] => destruct (rc_dec s0 a) as [[s2 e2]|] eqn:Hrc end;
            [pose proof (rc_dec_store _ _ _ _ c Hrc) as [Hm Hw]|]).
  all: try (match type of He with context [rc_alloc ?s0 ?a] => destruct (rc_alloc s0 a) as [[s2 e2]|] eqn:Hrc end;
            [pose proof (rc_alloc_store _ _ _ _ c Hrc) as [Hm Hw]|]).
  all: repeat match type of He with
         | context [match ?e with _ => _ end] =>
             match e with
             | context [exec] => fail 1
             | _ => destruct e eqn:?
             end
         | context [if ?b then _ else _] => destruct b eqn:?
         end.
  all: try discriminate.
  all: try (injection He as <- <- <- <-).
  all: try (left; split; [cbn; unfold slot_loc; upd_simp; try rewrite node_init_store; cbn; upd_simp; auto
                         |cbn; repeat (destruct (_ =? c)%N); auto]; fail).
  all: try (left; split; [assumption|assumption]).
  all: match goal with |- context [upd _ (LStore ?c0) _] =>
         destruct (N.eqb_spec c0 c) as [->|Hne];
           [right; cbn; rewrite N.eqb_refl, upd_same; reflexivity
           |left; split; [cbn; rewrite upd_ne by congruence; reflexivity
                         |cbn; apply N.eqb_neq in Hne; rewrite Hne; reflexivity]]
       end.
Qed.

(** [resume] and [unwind] are thread-local: no shared state, no events. The whole step: *)
Lemma finish_sh cf s t th s_sh l rest evs nx :
  sh (fst (finish cf s t th s_sh l rest evs nx)) = s_sh.
Proof.
  unfold finish. destruct nx; cbn; try reflexivity. destruct (unwind cf l rest v); reflexivity.
Qed.

Lemma finish_events_writes cf s t th s_sh l rest evs nx c :
  writes_in c (snd (finish cf s t th s_sh l rest evs nx)) = writes_in c evs.
Proof.
  assert (Happ : forall e1 e2, writes_in c (e1 ++ e2) = writes_in c e1 ++ writes_in c e2).
  { induction e1 as [|e e1 IH]; intros; cbn; [reflexivity|]. destruct (write_of c e); cbn; rewrite IH; reflexivity. }
  unfold finish. destruct nx; cbn; try reflexivity; try (rewrite Happ; cbn; rewrite app_nil_r; reflexivity).
  destruct (unwind cf l rest v); cbn; try reflexivity; rewrite Happ; cbn; rewrite app_nil_r; reflexivity.
Qed.

(** A command is being consumed when its CMD step clears the storage ([into_inner] / drop of
    the container). *)
Definition consumes_now (s : state) (t c : N) : Prop :=
  t_status (thr s t) = Running /\ t_stack (thr s t) = [] /\
  exists cm, nth_error (t_prog (thr s t)) (N.to_nat (t_cmdi (thr s t))) = Some cm /\ is_consume c cm = true.

Lemma cmd_start_store cf s l cm s' l' stk r c :
  cmd_start cf s l cm = inl (s', l', stk, r) ->
  is_consume c cm = false ->
  mem (sh s') (LStore c) = mem (sh s) (LStore c).
Proof.
  intros Hc Hn. destruct cm; cbn in Hc, Hn;
    repeat match type of Hc with
           | context [match ?e with _ => _ end] => destruct e eqn:?
           | context [if ?b then _ else _] => destruct b eqn:?
           end; try discriminate; injection Hc as <- <- <- <-; try reflexivity;
    try (unfold consume; match goal with |- context [match ?v with _ => _ end] => destruct v end; reflexivity).
  all: cbn; apply N.eqb_neq in Hn; rewrite upd_ne by congruence; reflexivity.
Qed.

(** One global step: the storage of [c] is unchanged, or exactly one write event links the
    old and the new content, or the step starts the consumption of the container. *)
Lemma step_store_effect cf s t x c :
  store_effect c (mem (sh s)) (mem (sh (fst (step cf s t x)))) (snd (step cf s t x))
  \/ consumes_now s t c.
Proof.
  unfold step. destruct (t_status (thr s t)) eqn:Hst; try (left; left; split; reflexivity).
  destruct (t_stack (thr s t)) as [|p rest] eqn:Hstk.
  - destruct (nth_error _ _) as [cm|] eqn:Hnth.
    + destruct (cmd_enabled s cm); [|left; left; split; reflexivity].
      destruct (is_consume c cm) eqn:Hic.
      * right. split; [exact Hst|]. split; [exact Hstk|]. eauto.
      * left. destruct (cmd_start cf s (t_loc (thr s t)) cm) as [[[[s' l'] stk] r]|ps] eqn:Hc.
        -- pose proof (cmd_start_store _ _ _ _ _ _ _ _ c Hc Hic) as Hm.
           destruct stk; cbn; left; (split; [exact Hm|reflexivity]).
        -- cbn. left; split; reflexivity.
    + left. destruct (tl_node _); cbn; left; split; reflexivity.
  - left. destruct (exec cf (sh s) (t_loc (thr s t)) p x) as [[[s_sh l] evs] nx] eqn:He.
    pose proof (exec_store_effect _ _ _ _ _ _ _ _ _ c He) as Heff.
    unfold store_effect in *. rewrite finish_sh, finish_events_writes. exact Heff.
Qed.

(** ** The chain of writes over a whole run. *)
Fixpoint writes_of_trace (c : N) (tr : list (N * list event)) : list (N * N * N) :=
  match tr with
  | [] => []
  | (t, evs) :: rest => map (fun w => (t, fst w, snd w)) (writes_in c evs) ++ writes_of_trace c rest
  end.

(** [chain v0 ws v1]: starting from content [v0], every write replaces exactly what its
    predecessor wrote, and the last one leaves [v1]. *)
Fixpoint chain (v0 : N) (ws : list (N * N * N)) (v1 : N) : Prop :=
  match ws with
  | [] => v1 = v0
  | (_, old, new) :: rest => old = v0 /\ chain new rest v1
  end.

Definition never_consumed (c : N) (s : state) : Prop :=
  forall t cm, In cm (t_prog (thr s t)) -> is_consume c cm = false.

Lemma step_prog cf s t x t' : t_prog (thr (fst (step cf s t x)) t') = t_prog (thr s t').
Proof.
  destruct (N.eq_dec t t') as [->|Hne]; [|rewrite step_other by congruence; reflexivity].
  unfold step. destruct (t_status (thr s t')); try reflexivity.
  destruct (t_stack (thr s t')) as [|p rest].
  - destruct (nth_error _ _) as [cm|].
    + destruct (cmd_enabled s cm); [|reflexivity].
      destruct (cmd_start cf s (t_loc (thr s t')) cm) as [[[[s' l'] stk] r]|ps] eqn:Hc.
      * destruct stk; cbn; rewrite upd_same; reflexivity.
      * cbn. rewrite upd_same. reflexivity.
    + destruct (tl_node _); cbn; rewrite upd_same; reflexivity.
  - destruct (exec cf (sh s) (t_loc (thr s t')) p x) as [[[s_sh l] evs] nx].
    unfold finish. destruct nx; cbn; try (rewrite upd_same; reflexivity).
    destruct (unwind cf l rest v); cbn; rewrite upd_same; reflexivity.
Qed.

Theorem store_chain cf c :
  forall sched s,
    never_consumed c s ->
    chain (mem (sh s) (LStore c)) (writes_of_trace c (snd (run cf s sched)))
          (mem (sh (fst (run cf s sched))) (LStore c)).
Proof.
  induction sched as [|[t x] sched IH]; intros s Hnc; [reflexivity|].
  cbn [run]. destruct (step cf s t x) as [s1 evs] eqn:Hs.
  destruct (run cf s1 sched) as [s2 tr] eqn:Hr. cbn [fst snd writes_of_trace].
  assert (Hnc1 : never_consumed c s1).
  { intros t' cm Hin. apply (Hnc t' cm). replace s1 with (fst (step cf s t x)) in Hin by (rewrite Hs; reflexivity).
    rewrite step_prog in Hin. exact Hin. }
  specialize (IH s1 Hnc1). rewrite Hr in IH. cbn [fst snd] in IH.
  destruct (step_store_effect cf s t x c) as [Heff|Hcons].
  - rewrite Hs in Heff. cbn [fst snd] in Heff. destruct Heff as [[Hm Hw]|Hw]; rewrite Hw; cbn.
    + rewrite <- Hm. exact IH.
    + split; [reflexivity|exact IH].
  - exfalso. destruct Hcons as (_ & _ & cm & Hnth & Hic).
    apply nth_error_In in Hnth. rewrite (Hnc t cm Hnth) in Hic. discriminate.
Qed.

(** ** Local facts about [swap], [compare_and_swap] and [rcu] frames (C04-C06). *)

(** [swap]: the exchange is one write event [old -> new]; the frame then waits for
    [pay_all] and hands back exactly [old]. *)
Lemma swap_step cf s l c new x :
  exists l' frames,
    exec cf s l (S1 c new) x =
      (m_set s (LStore c) new, l',
       [EvAcc (LStore c) OSwap (fst o_lib_swap) (snd o_lib_swap) (mem s (LStore c)) new true],
       NPush frames (WSwap (mem s (LStore c))))
    /\ forall cf' l'' v, resume cf' l'' (WSwap (mem s (LStore c))) v = (l'', NRet (ROwned (mem s (LStore c)))).
Proof.
  cbn. destruct (enter_pay l c (mem s (LStore c))) as [l' frames] eqn:He.
  exists l', frames. split; [reflexivity|]. intros. destruct v; reflexivity.
Qed.

(** [compare_and_swap]: the exchange step writes iff the stored pointer equals [cur] (and
    the weak CAS does not fail spuriously); it then stores exactly [new]. *)
Lemma cas_exchange_step cf s l c cur new p d x s' l' evs nx :
  exec cf s l (K1 c cur new p d) x = (s', l', evs, nx) ->
  if (mem s (LStore c) =? cur) && negb (x =? 1)
  then mem s' (LStore c) = new /\ writes_in c evs = [(cur, new)] /\
       exists frames, nx = NPush frames (WCasPaid p d)
  else mem s' (LStore c) = mem s (LStore c) /\ writes_in c evs = [] /\
       (forall a, mem s' (LCount a) = mem s (LCount a)).
Proof.
  cbn. unfold a_cas. cbn.
  destruct ((mem s (LStore c) =? cur) && negb (true && (x =? 1))) eqn:Hok.
  - assert (Hok' : (mem s (LStore c) =? cur) && negb (x =? 1) = true) by exact Hok. rewrite Hok'.
    apply andb_prop in Hok' as [Heq _]. apply N.eqb_eq in Heq.
    destruct (enter_pay l c p) as [l2 frames]. intros [= <- <- <- <-].
    cbn [mem m_set fst snd]. rewrite upd_same. unfold writes_in, write_of.
    destruct (N.eqb_spec c c) as [_|Hn]; [|congruence]. rewrite Heq. eauto.
  - assert (Hok' : (mem s (LStore c) =? cur) && negb (x =? 1) = false) by exact Hok. rewrite Hok'.
    destruct (guard_drop_frames p d); [destruct (enter_load cf l c) as [[l2 fs]|ps]|];
      intros [= <- <- <- <-]; unfold writes_in, write_of; destruct (N.eqb_spec c c) as [_|Hn]; try congruence; auto.
Qed.

(** After the internal load, [compare_and_swap] proceeds to the exchange only when the
    loaded pointer equals [cur]; otherwise it returns the loaded guard and [new] loses exactly
    the one reference passed in (a null [new] has none). *)
Lemma cas_after_load cf l c cur new p d :
  resume cf l (WCasLoad c cur new) (RGuard p d) =
  if p =? cur then (l, NGoto (K1 c cur new p d)) else (l, dec_then new (RGuard p d)).
Proof. reflexivity. Qed.

(** On success the caller gets back the guard on the replaced value (= [cur]) after the
    debts were paid and the storage's own reference was released. *)
Lemma cas_success_return cf l p d v :
  resume cf l (WCasPaid p d) v = (l, dec_then p (RGuard p d)).
Proof. reflexivity. Qed.

(** [rcu]: whatever the closure does, the exchange is attempted against exactly the value
    [p] whose guard was passed to the closure. *)
Definition rcu_attempt_shape (c p : N) (nx : next) : Prop :=
  match nx with
  | NGoto (RAlloc c' _ p' _) | NGoto (RInc c' _ p' _) => c' = c /\ p' = p
  | NPush frames (WRcuCas c' _ p' _) => c' = c /\ p' = p /\ exists new fs, frames = fs ++ [WCasLoad c p new]
  | NPush _ WRcuPanic | NRet RPanic => True      (* the closure panicked: nothing is exchanged *)
  | NPanic _ => True
  | _ => False
  end.

Lemma rcu_attempt_ok cf l c m p d : rcu_attempt_shape c p (snd (rcu_attempt cf l c m p d)).
Proof.
  unfold rcu_attempt. destruct m; cbn; auto.
  - destruct (enter_load cf l c) as [[l2 fs]|ps]; cbn; eauto 8.
  - destruct (p =? 0); cbn; auto. destruct (enter_load cf l c) as [[l2 fs]|ps]; cbn; eauto 8.
  - destruct (k =? 0); cbn; auto. destruct (guard_drop_frames p d); cbn; auto.
Qed.

Lemma rcu_after_load cf l c m p d :
  rcu_attempt_shape c p (snd (resume cf l (WRcuLoad c m) (RGuard p d))).
Proof. apply rcu_attempt_ok. Qed.

Lemma rcu_alloc_step cf s l c m p d x s' l' evs nx :
  exec cf s l (RAlloc c m p d) x = (s', l', evs, nx) ->
  match nx with
  | NPush frames (WRcuCas c' _ p' _) => c' = c /\ p' = p /\ exists fs, frames = fs ++ [WCasLoad c p x]
  | NPanic _ | NFault _ => True
  | _ => False
  end.
Proof.
  cbn. destruct (rc_alloc s x) as [[s2 e2]|]; [|intros [= <- <- <- <-]; exact I].
  destruct (enter_load cf l c) as [[l2 fs]|ps]; intros [= <- <- <- <-]; cbn; eauto.
Qed.

(** When the exchange reports another value [q <> p], the closure's result has already been
    released by [compare_and_swap] (see [cas_after_load]) and the next attempt runs against
    [q]; when it reports [p] itself, [rcu] returns the replaced value. *)
Lemma rcu_after_cas cf l c m p d q dq :
  let nx := snd (resume cf l (WRcuCas c m p d) (RGuard q dq)) in
  if p =? q
  then match nx with
       | NRet (ROwned q') => q' = q
       | NPush _ (WRcuInto _ _) | NPush _ (WRcuRet _) => True
       | _ => False
       end
  else (exists fs m', nx = NPush fs (WRcuNext c m' q dq)) \/ rcu_attempt_shape c q nx.
Proof.
  cbn. destruct (p =? q) eqn:Hpq.
  - destruct (guard_into_frames q dq); [destruct (guard_drop_frames p d)|]; cbn; auto.
  - destruct (guard_drop_frames p d); cbn; eauto.
    right. apply rcu_attempt_ok.
Qed.
