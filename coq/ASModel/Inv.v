(** * ASModel.Inv — the structural invariant [WF] of reachable states.

    Node ownership (a node is used by at most one thread, [in_use = USED] iff it has a
    holder: C11), the protocol state of every node's helping slot and control word as a
    function of what its holder is doing (Owicki–Gries style assertions on the holder's top
    frame), well-formedness of control words and handover spaces, and the nesting depth of
    [LocalNode::with].  [WF] implies that the next step of any thread does not panic (C13). *)
From Coq Require Import Lia.
From ASModel Require Import Base State Orderings_gen Step Run Progress Hist.

(** ** Holder of a node *)
Definition holder (th : thread) : option N :=
  match tl_node (t_loc th) with
  | Some n => Some n
  | None => match t_stack th with
            | C1 n :: _ | C2 n :: _ => Some n
            | GCool3 n :: _ | GBack n :: _ => Some n   (* claimed tentatively: checking the writers *)
            | _ => None
            end
  end.

Definition nn (s : state) : N := mem (sh s) LHead.

(** ** Control words and handover spaces *)
Definition is_repl (v : N) (bound : N) : Prop := exists e, e < bound /\ v = env_val e + 1.
Definition is_gen (v : N) : Prop := N.land v TAG_MASK = GEN_TAG.
Definition ctl_ok (v : N) (bound : N) : Prop := v = IDLE \/ is_gen v \/ is_repl v bound.

(** ** What the holder's top frame says about its node *)
Definition slot8_in (m : loc -> N) (n cand : N) : Prop :=
  m (LSlot n HSLOT) = cand \/ m (LSlot n HSLOT) = NONE.

Definition node_idle (m : loc -> N) (n : N) : Prop :=
  m (LCtrl n) = IDLE /\ m (LSlot n HSLOT) = NONE.

Definition top_ok (bound : N) (m : loc -> N) (l : tlocal) (n : N) (top : option pc) : Prop :=
  match top with
  | Some (LA3 c v j) => node_idle m n /\ m (LSlot n j) = NONE /\ j < SLOT_CNT
  | Some (LH1 c gt) => node_idle m n /\ gt = N.lor (tl_gen l) GEN_TAG
  | Some (LH2 c gt) =>
      node_idle m n /\ gt = N.lor (tl_gen l) GEN_TAG /\ m (LAddr n) = store_val c
  | Some (LH3 c gt) | Some (LH3d c gt _) | Some (LH4 c gt _) =>
      (m (LCtrl n) = gt \/ is_repl (m (LCtrl n)) bound) /\ m (LSlot n HSLOT) = NONE /\
      m (LAddr n) = store_val c /\ is_gen gt
  | Some (LH5 c gt cand) =>
      (m (LCtrl n) = gt \/ is_repl (m (LCtrl n)) bound) /\ slot8_in m n cand /\
      m (LAddr n) = store_val c /\ is_gen gt
  | Some (LH6a cand) | Some (LH6b cand) => m (LCtrl n) = IDLE /\ slot8_in m n cand
  | Some (LH7 cand e) | Some (LH8 cand e _) => m (LCtrl n) = IDLE /\ slot8_in m n cand /\ e < bound
  | Some (LH9 cand _) => m (LCtrl n) = IDLE /\ slot8_in m n cand
  | Some (PE9 _ _ w newctl _) => node_idle m n /\ (w = n -> ~ is_gen newctl)
  | _ => node_idle m n
  end.

(** ** Frames refer to existing nodes *)
Definition is_env (v bound : N) : Prop := exists e, e < bound /\ v = env_val e.

Definition pc_nodes_ok (bound : N) (p : pc) : Prop :=
  match p with
  | GCool1 w | GCool2 w | GCool3 w | GBack w | GClaim w | C1 w | C2 w | C3 w => w < bound
  | GPush h => h <= bound
  | P3 _ _ w | PE0d _ _ w | PE0e _ _ w | PE1 _ _ w | P5 _ _ w => w < bound
  | PE2 _ _ w ctl | PE3 _ _ w ctl | WHelpRepl _ _ w ctl | PE4 _ _ w ctl _ => w < bound /\ is_gen ctl
  | PE5 _ _ w ctl _ their => w < bound /\ is_gen ctl /\ is_env their bound
  | PE6 _ _ w ctl _ their mine | PE7 _ _ w ctl _ their mine =>
      w < bound /\ is_gen ctl /\ is_env their bound /\ is_env mine bound
  | PE8 _ _ w their => w < bound /\ is_env their bound
  | PE9 _ _ w newctl _ => w < bound /\ ctl_ok newctl bound
  | PS _ _ w j | PSi _ _ w j => w < bound /\ j <= HSLOT
  | LAscan _ _ i => i <= 7
  | WGetSetGen g => N.land g TAG_MASK = 0 /\ g < WORD
  | PDec _ (RNode _) | WExit (RNode _) => False
  | _ => True
  end.

(** Program points that run inside [LocalNode::with] (they use the thread's node). *)
Definition in_with (p : pc) : bool :=
  match p with
  | LA1 _ | LA1d _ _ | LAscan _ _ _ | LA3 _ _ _ | LA4 _ _ _ | LA5 _ _ _ | LA6 _ _
  | LH0d _ | LH1 _ _ | LH2 _ _ | LH3 _ _ | LH3d _ _ _ | LH4 _ _ _ | LH5 _ _ _
  | LH6a _ | LH6b _ | LH6c _ | LH7 _ _ | LH8 _ _ _ | LH9 _ _ | LH10 _ _
  | P1 _ _ | P2 _ _ | P3 _ _ _ | PE0d _ _ _ | PE0e _ _ _ | PE1 _ _ _ | PE2 _ _ _ _ | PE3 _ _ _ _
  | PE4 _ _ _ _ _ | PE5 _ _ _ _ _ _ | PE6 _ _ _ _ _ _ _ | PE7 _ _ _ _ _ _ _ | PE8 _ _ _ _ | PE9 _ _ _ _ _
  | PS _ _ _ _ | PSi _ _ _ _ | P5 _ _ _ | P6 _ _ | WHelpRepl _ _ _ _ => true
  | _ => false
  end.

(** Frames at the bottom of a stack (the command's continuation); nothing below them counts. *)
Definition is_bottom_frame (p : pc) : bool :=
  match p with KDone _ | KCacheDone _ _ | WThreadExit => true | _ => false end.

Fixpoint depth_of (stk : list pc) : N :=
  match stk with
  | [] => 0
  | p :: rest => if is_bottom_frame p then 0 else (if in_with p then 1 else 0) + depth_of rest
  end.

(** Waiting frames (never on top while the thread runs). *)
Definition is_waiting (p : pc) : bool :=
  match p with
  | WGetLoad _ | WGetPay _ _ | WGetSetGen _ | WExit _ | WLoadFull | WHelpRepl _ _ _ _ | WSwap _
  | WDropOld | WCasLoad _ _ _ | WCasPaid _ _ | WCasRetry _ _ _ | WRcuLoad _ _ | WRcuCas _ _ _ _
  | WRcuInto _ _ | WRcuRet _ | WRcuPanic | WRcuNext _ _ _ _ | WInto _ | WDropStore _ | WCacheReload _ _ _
  | WThreadExit | KDone _ | KCacheDone _ _ => true
  | _ => false
  end.

Definition stack_shape (stk : list pc) : Prop :=
  match stk with
  | [] => True
  | p :: rest => is_waiting p = false /\ Forall (fun q => is_waiting q = true) rest
  end.

(** Node::get and start_cooldown frames run with no node assigned to the thread. *)
Definition is_get (p : pc) : bool :=
  match p with
  | GHead | GCool1 _ | GCool2 _ | GCool3 _ | GBack _ | GClaim _ | GPush0 | GPush _
  | C1 _ | C2 _ | C3 _ => true      (* start_cooldown runs after the node was given up *)
  | _ => false
  end.

Record thread_ok (bound : N) (m : loc -> N) (th : thread) : Prop := {
  to_shape : stack_shape (t_stack th);
  to_nodes : Forall (pc_nodes_ok bound) (t_stack th);
  to_depth : tl_depth (t_loc th) = depth_of (t_stack th);
  to_node : depth_of (t_stack th) <> 0 -> tl_node (t_loc th) <> None;
  to_get : (exists p, In p (t_stack th) /\ is_get p = true) -> tl_node (t_loc th) = None;
  to_node_lt : forall n, holder th = Some n -> n < bound;
  to_gen : N.land (tl_gen (t_loc th)) TAG_MASK = 0 /\ tl_gen (t_loc th) < WORD;
  to_top : t_status th = Running -> forall n, holder th = Some n ->
           top_ok bound m (t_loc th) n (hd_error (t_stack th));
}.

Record WF (s : state) : Prop := {
  wf_threads : forall t, thread_ok (nn s) (mem (sh s)) (thr s t);
  wf_unique : forall t t' n, holder (thr s t) = Some n -> holder (thr s t') = Some n -> t = t';
  wf_inuse : forall n, n < nn s ->
      (mem (sh s) (LInUse n) = NODE_USED <-> exists t, holder (thr s t) = Some n);
  wf_inuse_range : forall n, n < nn s ->
      mem (sh s) (LInUse n) = NODE_UNUSED \/ mem (sh s) (LInUse n) = NODE_USED \/ mem (sh s) (LInUse n) = NODE_COOLDOWN;
  wf_unowned : forall n, n < nn s -> (forall t, holder (thr s t) <> Some n) -> node_idle (mem (sh s)) n;
  wf_ctl : forall n, n < nn s -> ctl_ok (mem (sh s) (LCtrl n)) (nn s);
  wf_offer : forall n, n < nn s -> exists e, e < nn s /\ mem (sh s) (LOffer n) = env_val e;
}.

(** Programs only preset the generation counter to multiples of four (it is a counter
    advanced in steps of four; the verification hook is not part of the crate's API). *)
Definition prog_ok (prog : list cmd) : Prop :=
  forall g, In (CSetGen g) prog -> N.land g TAG_MASK = 0 /\ g < WORD.
