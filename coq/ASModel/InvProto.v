(** * ASModel.InvProto — the helping protocol on a node as seen from its holder and from
    everybody else (interference freedom), and freedom from panics (C13). *)
From Coq Require Import Lia ZArith Zify ZifyClasses ZifyBool ZifyN.
From ASModel Require Import Base State Orderings_gen Step Run Progress Hist Inv InvTl.

(** ** What a thread may do to the nodes of others *)
Definition foreign_ok (bound : N) (m m' : loc -> N) (own : option N) : Prop :=
  forall n, n < bound -> own <> Some n ->
    m' (LAddr n) = m (LAddr n) /\
    (forall j, m' (LSlot n j) = m (LSlot n j) \/ m' (LSlot n j) = NONE) /\
    (m' (LCtrl n) = m (LCtrl n) \/ (is_gen (m (LCtrl n)) /\ is_repl (m' (LCtrl n)) bound)).

Lemma is_gen_not_idle v : is_gen v -> v <> IDLE.
Proof. unfold is_gen. intros H ->. cbn in H. discriminate. Qed.

Lemma env_val_land e : N.land (env_val e + 1) TAG_MASK = REPLACEMENT_TAG.
Proof.
  rewrite land3_mod4. unfold env_val, REPLACEMENT_TAG. zify. Z.div_mod_to_equations. lia.
Qed.

Lemma is_repl_not_gen v b : is_repl v b -> ~ is_gen v.
Proof. intros (e & He & Hv) Hg. subst v. unfold is_gen in Hg. rewrite env_val_land in Hg. discriminate. Qed.
Lemma is_repl_not_idle v b : is_repl v b -> v <> IDLE.
Proof. intros (e & He & Hv). subst v. unfold env_val, IDLE. lia. Qed.

Lemma slot8_in_foreign m m' n cand :
  (m' (LSlot n HSLOT) = m (LSlot n HSLOT) \/ m' (LSlot n HSLOT) = NONE) ->
  slot8_in m n cand -> slot8_in m' n cand.
Proof. unfold slot8_in. intros [-> | ->]; auto. Qed.

Lemma top_ok_mono b b' m l n top : b <= b' -> top_ok b m l n top -> top_ok b' m l n top.
Proof.
  intros Hle. destruct top as [p|]; [|auto]. destruct p; cbn; auto;
    intuition (try lia; eauto using is_repl_mono).
Qed.

(** Interference freedom: the assertion of a node's holder is stable under whatever any
    other thread does. *)
Lemma top_ok_foreign b m m' l n top own :
  foreign_ok b m m' own -> n < b -> own <> Some n ->
  top_ok b m l n top -> top_ok b m' l n top.
Proof.
  intros Hf Hlt Hne. destruct (Hf n Hlt Hne) as (Ha & Hs & Hc).
  assert (Hidle : node_idle m n -> node_idle m' n).
  { intros [Hc0 Hs0]. split.
    - destruct Hc as [-> |[Hg _]]; [exact Hc0|]. rewrite Hc0 in Hg. exfalso. eapply is_gen_not_idle; eauto.
    - destruct (Hs HSLOT) as [-> | ->]; auto. }
  assert (Hctl : forall gt, is_gen gt -> (m (LCtrl n) = gt \/ is_repl (m (LCtrl n)) b) ->
                       (m' (LCtrl n) = gt \/ is_repl (m' (LCtrl n)) b)).
  { intros gt Hgt [H|H].
    - destruct Hc as [-> |[_ Hr]]; auto.
    - destruct Hc as [-> |[Hg _]]; auto. exfalso. eapply is_repl_not_gen; eauto. }
  assert (Hcidle : m (LCtrl n) = IDLE -> m' (LCtrl n) = IDLE).
  { intros H0. destruct Hc as [-> |[Hg _]]; auto. rewrite H0 in Hg. exfalso. eapply is_gen_not_idle; eauto. }
  assert (Hs8 : m (LSlot n HSLOT) = NONE -> m' (LSlot n HSLOT) = NONE).
  { intros H0. destruct (Hs HSLOT) as [-> | ->]; auto. }
  destruct top as [p|]; [|apply Hidle].
  destruct p; cbn; try apply Hidle; rewrite ?Ha.
  all: intuition (eauto using slot8_in_foreign).
  all: try (destruct (Hs j) as [-> | ->]; auto).
Qed.

Lemma lor_env e : N.lor (env_val e) REPLACEMENT_TAG = env_val e + 1.
Proof.
  assert (Hl : N.land (env_val e) REPLACEMENT_TAG = 0).
  { change REPLACEMENT_TAG with (N.ones 1). rewrite N.land_ones. unfold env_val. zify. Z.div_mod_to_equations. lia. }
  rewrite <- N.lxor_lor by exact Hl. symmetry. apply N.add_nocarry_lxor. exact Hl.
Qed.

Ltac destr_in H :=
  repeat match type of H with
         | context [match ?e with _ => _ end] => destruct e eqn:?
         | context [if ?b then _ else _] => destruct b eqn:?
         end.

Lemma exec_foreign cf s l p x s' l' evs nx :
  pc_nodes_ok (mem s LHead) p ->
  (in_with p = true -> tl_node l <> None) ->
  exec cf s l p x = (s', l', evs, nx) ->
  foreign_ok (mem s LHead) (mem s) (mem s') (tl_node l).
Proof.
  intros Hp Hwith He.
  assert (Hown : in_with p = true -> forall n, tl_node l <> Some n -> n <> own_node l).
  { intros Hi nn0 Hne ->. unfold own_node in Hne. destruct (tl_node l); [congruence|]. apply Hwith; auto. }
  destruct p; unfold exec in He;
    unfold a_load, a_store, a_swap, a_cas, a_fadd, a_fsub in He; cbn in He; cbn in Hp, Hwith, Hown.
  all: destr_in He; try discriminate.
  all: try (injection He as <- <- <- <-).
  all: intros nf Hlt Hne.
  all: try (specialize (Hown eq_refl nf Hne)).
  all: cbn [mem m_set node_init fold_left]; unfold slot_loc.
  all: repeat split; intros.
  all: repeat match goal with
         | H : rc_inc _ _ = Some (?s0, _) |- context [mem ?s0 ?l0] =>
             rewrite (rc_inc_other _ _ _ _ l0 H) by discriminate
         | H : rc_dec _ _ = Some (?s0, _) |- context [mem ?s0 ?l0] =>
             rewrite (rc_dec_other _ _ _ _ l0 H) by discriminate
         | H : rc_alloc _ _ = Some (?s0, _) |- context [mem ?s0 ?l0] =>
             rewrite (rc_alloc_other _ _ _ _ l0 H) by discriminate
         end.
  all: try (auto; fail).
  all: try (repeat match goal with
              | |- context [upd _ ?k _ ?k'] =>
                  first [ rewrite (upd_other _ k k') by discriminate
                        | rewrite (upd_other _ k k') by congruence
                        | rewrite (upd_other _ k k') by (intros [=]; lia) ]
              end; auto; fail).
  (* a slot of another node is emptied *)
  all: try (match goal with |- upd _ ?k NONE ?k' = _ \/ _ =>
              unfold upd; destruct (decide (k' = k)); auto end; fail).
  destruct (N.eq_dec w nf) as [->|Hwn].
  - right. rewrite upd_same.
    match goal with H : (_ && _) = true |- _ => apply andb_prop in H as [H _]; apply N.eqb_eq in H; rewrite H end.
    destruct Hp as (_ & Hgen & _ & (e & He & ->)). split; [exact Hgen|]. exists e. split; [exact He|apply lor_env].
  - left. apply upd_other. congruence.
Qed.


(** ** The holder's own node *)
Definition own_of (l : tlocal) (p : pc) : option N :=
  match tl_node l with
  | Some n => Some n
  | None => match p with C1 w | C2 w | GCool3 w | GBack w => Some w | _ => None end
  end.

Definition next_own_ok (bound : N) (m' : loc -> N) (l' : tlocal) (n : N) (nx : next) : Prop :=
  match nx with
  | NGoto p' => top_ok bound m' l' n (Some p')
  | NPush fs _ => node_idle m' n /\ top_ok bound m' l' n (hd_error fs)
  | NRet _ => node_idle m' n
  | NPanic _ => False
  | NFault _ => True
  end.

Lemma lor_gen g : N.land g TAG_MASK = 0 -> is_gen (N.lor g GEN_TAG).
Proof.
  intros H. unfold is_gen. rewrite N.land_lor_distr_l, H. reflexivity.
Qed.

Lemma top_ok_idle_default bound m l n p :
  node_idle m n ->
  match p with
  | LA3 _ _ _ | LH1 _ _ | LH2 _ _ | LH3 _ _ | LH3d _ _ _ | LH4 _ _ _ | LH5 _ _ _ | LH6a _ | LH6b _
  | LH7 _ _ | LH8 _ _ _ | LH9 _ _ | PE9 _ _ _ _ _ => False
  | _ => True
  end -> top_ok bound m l n (Some p).
Proof. intros Hi. destruct p; cbn; intros H; try contradiction; exact Hi. Qed.

Lemma fallback_entry_own cf l c l' nx bound m n :
  fallback_entry cf l c = (l', nx) -> node_idle m n -> tl_node l <> None ->
  next_own_ok bound m l' n nx.
Proof.
  unfold fallback_entry. intros H Hi Hn. destruct (tl_node l); [|congruence].
  destruct (cf_debug cf); injection H as <- <-; cbn; auto.
Qed.

Lemma gen_step_own cf l c l' nx bound m n :
  gen_step cf l c = (l', nx) -> node_idle m n -> gen_ok l ->
  next_own_ok bound m l' n nx.
Proof.
  unfold gen_step. intros H Hi [Hg _].
  assert (Hz : N.land ((tl_gen l + 4) mod WORD) GEN_TAG = 0).
  { pose proof (proj1 (gen_plus4 _ Hg)) as H4. rewrite land3_mod4 in H4.
    change GEN_TAG with 2. replace 2 with (N.land 2 3) by reflexivity.
    rewrite N.land_assoc. change 3 with TAG_MASK. rewrite (N.land_comm _ 2), <- N.land_assoc, land3_mod4, H4. reflexivity. }
  rewrite Hz in H. cbn in H. rewrite andb_false_r in H. injection H as <- <-. cbn. auto.
Qed.


Lemma with_exit_own l r l' nx bound m n :
  with_exit l r = (l', nx) -> node_idle m n -> next_own_ok bound m l' n nx.
Proof.
  unfold with_exit. intros H Hi.
  repeat match type of H with
         | context [match ?e with _ => _ end] => destruct e eqn:?
         | context [if ?b then _ else _] => destruct b eqn:?
         end; injection H as <- <-; cbn; first [exact Hi | split; exact Hi].
Qed.

Lemma enter_load_top cf l c l' fs bound m n :
  enter_load cf l c = inl (l', fs) -> node_idle m n -> top_ok bound m l' n (hd_error fs).
Proof.
  unfold enter_load, load_body, fallback_entry. intros H Hi.
  destruct (tl_node l) eqn:Hn; [|injection H as <- <-; exact Hi].
  cbn [tl_node tl_set_depth] in H. rewrite Hn in H.
  destruct (cf_use_fast cf); [injection H as <- <-; exact Hi|].
  destruct (cf_debug cf); injection H as <- <-; cbn; auto.
Qed.

Lemma enter_load_top_app cf l c l' fs ws bound m n :
  enter_load cf l c = inl (l', fs) -> node_idle m n -> top_ok bound m l' n (hd_error (fs ++ ws)).
Proof.
  intros H Hi. pose proof (enter_load_top _ _ _ _ _ bound m n H Hi) as Ht.
  destruct fs; [|exact Ht].
  exfalso. unfold enter_load in H. destr_in H; try discriminate; injection H as _ Hfs; discriminate.
Qed.

Lemma enter_pay_top l c old l' fs bound m n :
  enter_pay l c old = (l', fs) -> node_idle m n -> top_ok bound m l' n (hd_error fs).
Proof.
  unfold enter_pay, pay_body. intros H Hi. destr_in H; injection H as <- <-; exact Hi.
Qed.

Lemma guard_frames_top p d bound m l n :
  node_idle m n -> top_ok bound m l n (hd_error (guard_drop_frames p d)) /\
                   top_ok bound m l n (hd_error (guard_into_frames p d)).
Proof.
  intros Hi. unfold guard_drop_frames, guard_into_frames.
  destruct d; [destruct (p =? 0)|destruct (p =? 0)]; split; exact Hi.
Qed.

Lemma help_dispatch_own cf l c old w ctl bound m n :
  node_idle m n -> tl_node l = Some n -> (w = n -> ~ is_gen ctl) -> ctl_ok ctl bound ->
  next_own_ok bound m l n (help_dispatch cf l c old w ctl).
Proof.
  intros Hi Hn Hw Hc. unfold help_dispatch.
  destruct (N.land ctl TAG_MASK =? IDLE) eqn:E0.
  - destruct (ctl =? IDLE) eqn:E1; cbn; [exact Hi|].
    apply N.eqb_eq in E0. apply N.eqb_neq in E1. destruct Hc as [Hc|[Hc|Hc]].
    + contradiction.
    + unfold is_gen in Hc. rewrite E0 in Hc. discriminate.
    + destruct Hc as (e & He & Hv). subst ctl. rewrite env_val_land in E0. discriminate.
  - destruct (N.land ctl TAG_MASK =? REPLACEMENT_TAG) eqn:E1; cbn; [exact Hi|].
    destruct (N.land ctl TAG_MASK =? GEN_TAG) eqn:E2.
    + rewrite Hn. destruct (cf_debug cf && (n =? w)) eqn:E3; cbn; [|exact Hi].
      apply andb_prop in E3 as [_ E3]. apply N.eqb_eq in E3. apply N.eqb_eq in E2.
      exact (Hw (eq_sym E3) E2).
    + cbn. apply N.eqb_neq in E0, E1, E2. destruct Hc as [Hc|[Hc|Hc]].
      * subst ctl. exfalso. apply E0. reflexivity.
      * unfold is_gen in Hc. congruence.
      * destruct Hc as (e & He & Hv). subst ctl. rewrite env_val_land in E1. congruence.
Qed.

Lemma env_val_land0 e : N.land (env_val e) TAG_MASK = 0.
Proof. rewrite land3_mod4. unfold env_val. zify. Z.div_mod_to_equations. lia. Qed.

Lemma env_of_val e : env_of (env_val e + 1 - N.land (env_val e + 1) TAG_MASK) = e.
Proof.
  rewrite env_val_land. unfold env_of, env_val, REPLACEMENT_TAG.
  replace (4 * (e + 1) + 1 - 1) with ((e + 1) * 4) by lia. rewrite N.div_mul by discriminate. lia.
Qed.

Lemma is_env_aligned v b : is_env v b -> N.land v TAG_MASK = 0.
Proof. intros (e & _ & ->). apply env_val_land0. Qed.

Lemma enter_load_total cf l c : exists r, enter_load cf l c = inl r.
Proof.
  unfold enter_load. destruct (tl_node l) eqn:Hn; [|eauto].
  unfold load_body, fallback_entry. cbn [tl_node tl_set_depth]. rewrite Hn.
  destruct (cf_use_fast cf); [eauto|]. destruct (cf_debug cf); eauto.
Qed.

Lemma exec_own cf s l p x s' l' evs nx n :
  own_of l p = Some n ->
  (in_with p = true -> tl_node l = Some n) ->
  (is_get p = true -> tl_node l = None) ->
  top_ok (mem s LHead) (mem s) l n (Some p) ->
  pc_nodes_ok (mem s LHead) p ->
  mem s (LInUse n) = NODE_USED ->
  gen_ok l ->
  (forall k, k < mem s LHead -> ctl_ok (mem s (LCtrl k)) (mem s LHead)) ->
  exec cf s l p x = (s', l', evs, nx) ->
  next_own_ok (mem s' LHead) (mem s') l' n nx.
Proof.
  intros Hown Hwith Hnoget Htop Hp Hiu Hg Hctl He.
  assert (Hon : in_with p = true -> own_node l = n).
  { intros Hi. unfold own_node. rewrite (Hwith Hi). reflexivity. }
  destruct p; unfold exec in He;
    unfold a_load, a_store, a_swap, a_cas, a_fadd, a_fsub in He; cbn in He;
    cbn in Hp, Hwith, Hon, Htop, Hnoget; unfold own_of in Hown;
    try (rewrite (Hnoget eq_refl) in Hown; try discriminate; injection Hown as Hown; subst);
    try (rewrite (Hon eq_refl) in * );
    try (pose proof (Hwith eq_refl) as Htn; rewrite Htn in * ).
  all: destr_in He; try discriminate.
  all: try (match goal with H : enter_load ?cf0 ?l0 ?c0 = inr _ |- _ =>
              destruct (enter_load_total cf0 l0 c0) as [? Hel]; rewrite Hel in H; discriminate H end).
  all: try (injection He as <- <- <- <-).
  all: unfold next_own_ok.
  all: try (match goal with |- True => exact I end).
  all: cbn [mem m_set node_init fold_left] in *.
  all: unfold node_idle, slot8_in, slot_loc in *.
  all: repeat match goal with
         | H : (_ =? _) = false |- _ => apply N.eqb_neq in H
         | H : (_ =? _) = true |- _ => apply N.eqb_eq in H
         | H : (_ && _) = true |- _ => apply andb_prop in H; destruct H
         | H : negb _ = true |- _ => apply negb_true_iff in H
         | H : (_ && _) = false |- _ => apply andb_false_iff in H; destruct H as [H|H]; [|cbn in H; discriminate H]
         | H : (_ || _) = false |- _ => apply orb_false_iff in H; destruct H
         | H : (_ || _) = true |- _ => apply orb_true_iff in H; destruct H
         end.
  all: repeat match goal with
         | H : with_exit _ _ = (_, ?nx) |- match ?nx with _ => _ end =>
             eapply with_exit_own; [exact H|unfold node_idle]
         | H : fallback_entry _ _ _ = (_, ?nx) |- match ?nx with _ => _ end =>
             eapply fallback_entry_own; [exact H|unfold node_idle|congruence]
         | H : gen_step _ _ _ = (_, ?nx) |- match ?nx with _ => _ end =>
             eapply gen_step_own; [exact H|unfold node_idle|exact Hg]
         | |- match help_dispatch _ _ _ _ ?w ?ctl with _ => _ end =>
             apply help_dispatch_own; [unfold node_idle|exact Htn| |]
         end.
  all: try (unfold dec_then; match goal with |- context [if ?b then _ else _] => destruct b end).
  all: try (unfold after_slot; match goal with |- context [if ?b then _ else _] => destruct b end).
  all: cbn [top_ok next_own_ok].
  all: unfold node_idle, slot8_in, slot_loc in *.
  all: repeat match goal with
         | H : rc_inc _ _ = Some (?s0, _) |- context [mem ?s0 ?l0] =>
             rewrite (rc_inc_other _ _ _ _ l0 H) by discriminate
         | H : rc_dec _ _ = Some (?s0, _) |- context [mem ?s0 ?l0] =>
             rewrite (rc_dec_other _ _ _ _ l0 H) by discriminate
         | H : rc_alloc _ _ = Some (?s0, _) |- context [mem ?s0 ?l0] =>
             rewrite (rc_alloc_other _ _ _ _ l0 H) by discriminate
         end.
  all: repeat match goal with
         | |- context [upd _ ?k _ ?k] => rewrite upd_same
         | |- context [upd _ ?k _ ?k'] =>
             first [ rewrite (upd_other _ k k') by discriminate
                   | rewrite (upd_other _ k k') by congruence ]
         end.
  all: try (first [ tauto | intuition congruence ]; fail).
  (* a slot of some node is emptied: the helping slot of ours stays NONE *)
  all: try (match goal with |- _ /\ upd _ ?k NONE ?k' = NONE =>
              split; [tauto|]; unfold upd; destruct (decide (k' = k)); [reflexivity|tauto] end; fail).
  (* the remaining protocol steps *)
  all: try (match goal with H : is_env ?mine _ , H2 : N.land ?mine TAG_MASK <> 0 |- False =>
              apply H2; eapply is_env_aligned; exact H end).
  all: try (match goal with |- False =>
              destruct Htop as ([Hc|Hc] & _); [congruence|];
              destruct Hc as (e & He' & Hv); rewrite Hv, env_val_land in *; congruence end).
  all: try (match goal with |- ?w = ?n -> ~ is_gen _ =>
              intros -> Hgg; rewrite (proj1 Htop) in Hgg; exact (is_gen_not_idle _ Hgg eq_refl) end).
  all: try (match goal with |- ctl_ok _ _ => apply Hctl; tauto end).
  all: try (match goal with |- _ /\ (?w = ?n -> ~ is_gen _) =>
              split; [tauto|]; intros -> Hgg; rewrite (proj1 Htop) in Hgg; exact (is_gen_not_idle _ Hgg eq_refl) end).
  all: try (match goal with
            | H : enter_load _ _ _ = inl (?t, ?fs) |- _ /\ top_ok _ _ ?t _ (hd_error (?fs ++ _)) =>
                split; [tauto|]; eapply enter_load_top_app; [exact H|]
            | H : enter_load _ _ _ = inl (?t, ?fs) |- _ /\ top_ok _ _ ?t _ (hd_error ?fs) =>
                split; [tauto|]; eapply enter_load_top; [exact H|]
            | H : enter_pay _ _ _ = (?t, ?fs) |- _ /\ top_ok _ _ ?t _ (hd_error ?fs) =>
                split; [tauto|]; eapply enter_pay_top; [exact H|]
            | H : guard_drop_frames ?p ?d = ?fs |- _ /\ top_ok _ ?m ?t ?n0 (hd_error ?fs) =>
                split; [tauto|]; rewrite <- H; apply guard_frames_top
            end;
            unfold node_idle;
            repeat match goal with
              | H : rc_inc _ _ = Some (?s0, _) |- context [mem ?s0 ?l0] => rewrite (rc_inc_other _ _ _ _ l0 H) by discriminate
              | H : rc_alloc _ _ = Some (?s0, _) |- context [mem ?s0 ?l0] => rewrite (rc_alloc_other _ _ _ _ l0 H) by discriminate
              end;
            rewrite ?upd_other by discriminate; tauto).
  - (* LAscan finds a free slot *)
    split; [tauto|]. split; [assumption|]. apply N.mod_upper_bound. discriminate.
  - (* LA3: publishing into a fast slot leaves the helping slot alone *)
    split; [tauto|]. rewrite upd_other; [tauto|]. intros [=]. unfold SLOT_CNT, HSLOT in *. lia.
  - (* LH2 -> LH3 (generation wrapped) *)
    destruct Htop as (Hi & -> & Ha). repeat split; auto; try tauto. apply lor_gen. apply Hg.
  - destruct Htop as (Hi & -> & Ha). repeat split; auto; try tauto. apply lor_gen. apply Hg.
  - (* LH5 -> LH7: the control word holds a replacement *)
    split; [reflexivity|]. split; [tauto|].
    destruct Htop as ([Hc|Hc] & _); [congruence|]. destruct Hc as (e & He' & Hv). rewrite Hv, env_of_val. exact He'.
  - (* PE6: own handover space is aligned *)
    destruct Hp as (_ & _ & _ & Hm). apply Heqb. eapply is_env_aligned; exact Hm.
  - (* PE7 succeeded: it was not our own control word *)
    split; [|tauto]. rewrite upd_other; [tauto|]. intros [= ->].
    destruct Hp as (_ & Hgen & _). rewrite (proj1 Htop) in *. subst ctl. exact (is_gen_not_idle _ Hgen eq_refl).
Qed.


(** ** Global tables: control words, handover spaces, in_use *)
Definition inuse_eff (m m' : loc -> N) (p : pc) (l l' : tlocal) (nx : next) : Prop :=
  (m' LHead = m LHead /\ (forall k, m' (LInUse k) = m (LInUse k)) /\
   (tl_node l' = tl_node l \/ exists n r, tl_node l = Some n /\ tl_node l' = None /\ nx = NPush [C1 n] (WExit r)))
  \/ (exists k, p = GCool2 k /\ m' LHead = m LHead /\ tl_node l' = tl_node l /\ (forall k', k' <> k -> m' (LInUse k') = m (LInUse k')) /\
                m (LInUse k) = NODE_COOLDOWN /\ m' (LInUse k) = NODE_USED /\ nx = NGoto (GCool3 k))
  \/ (exists k, p = GCool3 k /\ m' LHead = m LHead /\ (forall k', m' (LInUse k') = m (LInUse k')) /\
                tl_node l' = Some k /\ nx = NRet (RNode k))
  \/ (exists k, p = GBack k /\ m' LHead = m LHead /\ tl_node l' = tl_node l /\ (forall k', k' <> k -> m' (LInUse k') = m (LInUse k')) /\
                m' (LInUse k) = NODE_COOLDOWN /\ nx = NGoto (GClaim k))
  \/ (exists k, (p = GClaim k \/ (p = GPush k /\ m LHead = k)) /\ (forall k', k' <> k -> m' (LInUse k') = m (LInUse k')) /\
                (p = GClaim k -> m (LInUse k) = NODE_UNUSED) /\ m' (LInUse k) = NODE_USED /\
                tl_node l' = Some k /\ nx = NRet (RNode k) /\ (p = GClaim k -> m' LHead = m LHead) /\ (p = GPush k -> m' LHead = k + 1))
  \/ (exists k, p = C2 k /\ m' LHead = m LHead /\ tl_node l' = tl_node l /\ (forall k', k' <> k -> m' (LInUse k') = m (LInUse k')) /\
                m' (LInUse k) = NODE_COOLDOWN /\ (nx = NGoto (C3 k) \/ exists ps, nx = NPanic ps)).

Lemma node_init_inuse s n k : mem (node_init s n) (LInUse k) = if decide (k = n) then NODE_USED else mem s (LInUse k).
Proof.
  unfold node_init. cbn. destruct (decide (k = n)) as [->|Hne].
  - rewrite (upd_other _ (LWriters n)) by discriminate. rewrite upd_same. reflexivity.
  - repeat (rewrite upd_other by (discriminate || congruence)). reflexivity.
Qed.

Lemma with_exit_node l r l' nx :
  with_exit l r = (l', nx) ->
  (tl_node l' = tl_node l /\ nx = NRet r) \/ (exists n, tl_node l = Some n /\ tl_node l' = None /\ nx = NPush [C1 n] (WExit r)).
Proof.
  unfold with_exit. intros H. destr_in H; injection H as <- <-; cbn; eauto.
Qed.

Lemma fallback_entry_node cf l c l' nx : fallback_entry cf l c = (l', nx) -> tl_node l' = tl_node l.
Proof. unfold fallback_entry. intros H. destr_in H; injection H as <- <-; cbn; congruence. Qed.
Lemma gen_step_node cf l c l' nx : gen_step cf l c = (l', nx) -> tl_node l' = tl_node l.
Proof. unfold gen_step. intros H. destr_in H; injection H as <- <-; cbn; congruence. Qed.
Lemma enter_load_node cf l c l' fs : enter_load cf l c = inl (l', fs) -> tl_node l' = tl_node l.
Proof.
  unfold enter_load, load_body. intros H. destruct (tl_node l) eqn:Hn; [|injection H as <- <-; exact Hn].
  destruct (cf_use_fast cf).
  - injection H as <- <-. exact Hn.
  - destruct (fallback_entry cf _ c) as [l2 nx] eqn:Hf. apply fallback_entry_node in Hf.
    destruct nx; try discriminate. injection H as <- <-. rewrite Hf. exact Hn.
Qed.
Lemma enter_pay_node l c old l' fs : enter_pay l c old = (l', fs) -> tl_node l' = tl_node l.
Proof. unfold enter_pay. intros H. destr_in H; injection H as <- <-; cbn; congruence. Qed.

Ltac iu_close :=
  repeat split; eauto;
  try (rewrite ?node_init_head; cbn; rewrite ?upd_other by discriminate; reflexivity);
  try (intros [=]; fail);
  try (intros k' Hk; rewrite ?node_init_inuse; try destruct (decide _); try congruence; cbn; apply upd_other; congruence || discriminate);
  try (rewrite ?node_init_inuse; try destruct (decide _); try congruence; rewrite ?upd_same; unfold NODE_COOLDOWN, NODE_USED, NODE_UNUSED in *; congruence || discriminate);
  try (intros _; rewrite node_init_head; cbn; rewrite upd_same; reflexivity).

Lemma exec_inuse cf s l p x s' l' evs nx :
  exec cf s l p x = (s', l', evs, nx) ->
  inuse_eff (mem s) (mem s') p l l' nx.
Proof.
  intros He. unfold inuse_eff.
  destruct p; unfold exec in He;
    unfold a_load, a_store, a_swap, a_cas, a_fadd, a_fsub in He; cbn in He.
  all: destr_in He; try discriminate.
  all: try (injection He as <- <- <- <-).
  all: cbn [mem m_set] in *.
  all: repeat match goal with
         | H : with_exit _ _ = (_, _) |- _ => apply with_exit_node in H
         | H : fallback_entry _ _ _ = (_, _) |- _ => apply fallback_entry_node in H
         | H : gen_step _ _ _ = (_, _) |- _ => apply gen_step_node in H
         | H : enter_load _ _ _ = inl (_, _) |- _ => apply enter_load_node in H
         | H : enter_pay _ _ _ = (_, _) |- _ => apply enter_pay_node in H
         end.
  all: try (left; split; [
             repeat match goal with
               | H : rc_inc _ _ = Some (?s0, _) |- context [mem ?s0 ?l0] => rewrite (rc_inc_other _ _ _ _ l0 H) by discriminate
               | H : rc_dec _ _ = Some (?s0, _) |- context [mem ?s0 ?l0] => rewrite (rc_dec_other _ _ _ _ l0 H) by discriminate
               | H : rc_alloc _ _ = Some (?s0, _) |- context [mem ?s0 ?l0] => rewrite (rc_alloc_other _ _ _ _ l0 H) by discriminate
               end;
             unfold slot_loc; rewrite ?upd_other by discriminate; reflexivity|]; split;
            [intros k0;
             repeat match goal with
               | H : rc_inc _ _ = Some (?s0, _) |- context [mem ?s0 ?l0] => rewrite (rc_inc_other _ _ _ _ l0 H) by discriminate
               | H : rc_dec _ _ = Some (?s0, _) |- context [mem ?s0 ?l0] => rewrite (rc_dec_other _ _ _ _ l0 H) by discriminate
               | H : rc_alloc _ _ = Some (?s0, _) |- context [mem ?s0 ?l0] => rewrite (rc_alloc_other _ _ _ _ l0 H) by discriminate
               end;
             unfold slot_loc; rewrite ?upd_other by discriminate; reflexivity
            |first [ left; cbn; congruence
                   | match goal with H : _ \/ _ |- _ => destruct H as [[Hq ->]|(n0 & Hq1 & Hq2 & ->)]; [left; congruence|right; eauto] end ] ]; fail).
  all: repeat match goal with
         | H : (_ =? _) = false |- _ => apply N.eqb_neq in H
         | H : (_ =? _) = true |- _ => apply N.eqb_eq in H
         | H : (_ && _) = true |- _ => apply andb_prop in H; destruct H
         end.
  all: try (first
    [ solve [right; left; eexists; iu_close]
    | solve [right; right; left; eexists; iu_close]
    | solve [right; right; right; left; eexists; iu_close]
    | solve [right; right; right; right; left; eexists; iu_close]
    | solve [right; right; right; right; right; eexists; iu_close] ]).
Qed.


Lemma node_init_ctrl s n k : mem (node_init s n) (LCtrl k) = if decide (k = n) then IDLE else mem s (LCtrl k).
Proof.
  unfold node_init. cbn. destruct (decide (k = n)) as [->|Hne].
  - repeat (rewrite upd_other by discriminate). rewrite upd_same. reflexivity.
  - repeat (rewrite upd_other by (discriminate || congruence)). reflexivity.
Qed.
Lemma node_init_offer s n k : mem (node_init s n) (LOffer k) = if decide (k = n) then env_val n else mem s (LOffer k).
Proof.
  unfold node_init. cbn. destruct (decide (k = n)) as [->|Hne].
  - repeat (rewrite upd_other by discriminate). rewrite upd_same. reflexivity.
  - repeat (rewrite upd_other by (discriminate || congruence)). reflexivity.
Qed.

Lemma exec_tables cf s l p x s' l' evs nx n :
  (forall k, k < mem s LHead -> ctl_ok (mem s (LCtrl k)) (mem s LHead)) ->
  (forall k, k < mem s LHead -> is_env (mem s (LOffer k)) (mem s LHead)) ->
  pc_nodes_ok (mem s LHead) p -> gen_ok l ->
  (in_with p = true -> tl_node l = Some n /\ top_ok (mem s LHead) (mem s) l n (Some p)) ->
  exec cf s l p x = (s', l', evs, nx) ->
  mem s LHead <= mem s' LHead /\
  (forall k, k < mem s' LHead -> ctl_ok (mem s' (LCtrl k)) (mem s' LHead)) /\
  (forall k, k < mem s' LHead -> is_env (mem s' (LOffer k)) (mem s' LHead)).
Proof.
  intros Hctl Hoff Hp Hg Hwith He.
  assert (Hon : in_with p = true -> own_node l = n).
  { intros Hi. unfold own_node. rewrite (proj1 (Hwith Hi)). reflexivity. }
  destruct p; unfold exec in He;
    unfold a_load, a_store, a_swap, a_cas, a_fadd, a_fsub in He; cbn in He; cbn in Hp, Hwith, Hon;
    try (rewrite (Hon eq_refl) in * ); try (destruct (Hwith eq_refl) as [Htn Htop]; cbn in Htop).
  all: destr_in He; try discriminate.
  all: try (injection He as <- <- <- <-).
  all: cbn [mem m_set] in *.
  all: repeat match goal with
         | H : rc_inc _ _ = Some (?s0, _) |- _ =>
             rewrite ?(rc_inc_other _ _ _ _ LHead H) by discriminate;
             assert (forall k0, mem s0 (LCtrl k0) = mem _ (LCtrl k0)) by (intros; apply (rc_inc_other _ _ _ _ _ H); discriminate);
             assert (forall k0, mem s0 (LOffer k0) = mem _ (LOffer k0)) by (intros; apply (rc_inc_other _ _ _ _ _ H); discriminate);
             clear H
         | H : rc_dec _ _ = Some (?s0, _) |- _ =>
             rewrite ?(rc_dec_other _ _ _ _ LHead H) by discriminate;
             assert (forall k0, mem s0 (LCtrl k0) = mem _ (LCtrl k0)) by (intros; apply (rc_dec_other _ _ _ _ _ H); discriminate);
             assert (forall k0, mem s0 (LOffer k0) = mem _ (LOffer k0)) by (intros; apply (rc_dec_other _ _ _ _ _ H); discriminate);
             clear H
         | H : rc_alloc _ _ = Some (?s0, _) |- _ =>
             rewrite ?(rc_alloc_other _ _ _ _ LHead H) by discriminate;
             assert (forall k0, mem s0 (LCtrl k0) = mem _ (LCtrl k0)) by (intros; apply (rc_alloc_other _ _ _ _ _ H); discriminate);
             assert (forall k0, mem s0 (LOffer k0) = mem _ (LOffer k0)) by (intros; apply (rc_alloc_other _ _ _ _ _ H); discriminate);
             clear H
         end.
  all: try (split; [reflexivity|]; split; intros k0 Hk0;
            repeat match goal with H : forall k0, mem _ _ = mem _ _ |- _ => rewrite H end;
            auto; fail).
  all: unfold slot_loc.
  all: try (rewrite !(upd_other _ _ LHead) by discriminate;
            split; [reflexivity|]; split; intros k0 Hk0;
            rewrite upd_other by discriminate; auto; fail).
  1: { (* GPush succeeded: a new node *)
    rewrite node_init_head. cbn [mem m_set]. rewrite upd_same. unfold node_val.
    match goal with H : (_ && _) = true |- _ => apply andb_prop in H as [Hh _]; apply N.eqb_eq in Hh end.
    split; [lia|]. split; intros k0 Hk0.
    + rewrite node_init_ctrl. destruct (decide (k0 = head)); [left; reflexivity|].
      cbn [mem m_set]. rewrite upd_other by discriminate.
      eapply ctl_ok_mono; [|apply Hctl; lia]. lia.
    + rewrite node_init_offer. destruct (decide (k0 = head)) as [->|].
      * exists head. split; [lia|reflexivity].
      * cbn [mem m_set]. rewrite upd_other by discriminate.
        eapply is_env_mono; [|apply Hoff; lia]. lia. }
  all: rewrite !(upd_other _ _ LHead) by discriminate; (split; [reflexivity|]); split; intros k0 Hk0.
  all: try (rewrite upd_other by discriminate; auto; fail).
  all: unfold upd; match goal with |- context [decide (?a = ?b)] => destruct (decide (a = b)) as [E|E] end;
       try (apply Hctl; exact Hk0); try (apply Hoff; exact Hk0).
  all: try (left; reflexivity).
  all: try (right; left; destruct Htop as (_ & -> & _); apply lor_gen; apply Hg).
  all: try (right; right; destruct Hp as (_ & _ & _ & (e0 & He0 & ->)); exists e0; split; [exact He0|apply lor_env]).
  all: try (destruct Htop as (_ & _ & He0); exists e; split; [exact He0|reflexivity]).
  all: try (destruct Hp as (_ & Hth); exact Hth).
Qed.


(** ** Resuming a waiting frame: thread-local, the node stays, no panic. *)
Lemma load_body_node cf l c l' nx : load_body cf l c = (l', nx) -> tl_node l' = tl_node l.
Proof. unfold load_body. destruct (cf_use_fast cf); [intros [= <- <-]; reflexivity|apply fallback_entry_node]. Qed.

Lemma rcu_attempt_node cf l c m p d l' nx : rcu_attempt cf l c m p d = (l', nx) -> tl_node l' = tl_node l.
Proof.
  intros He. unfold rcu_attempt in He. destr_in He; try discriminate; injection He as <- <-;
    repeat match goal with H : enter_load _ _ _ = inl (_, _) |- _ => apply enter_load_node in H end; congruence.
Qed.

Lemma resume_node cf l w v l' nx : resume cf l w v = (l', nx) -> tl_node l' = tl_node l.
Proof.
  intros He. destruct w; unfold resume in He; destr_in He; try discriminate;
    try (match type of He with rcu_attempt _ _ _ _ _ _ = _ => eapply rcu_attempt_node; exact He end);
    try (injection He as <- <-);
    repeat match goal with
      | H : load_body _ _ _ = (_, _) |- _ => apply load_body_node in H
      | H : enter_load _ _ _ = inl (_, _) |- _ => apply enter_load_node in H
      end; cbn in *; congruence.
Qed.

Lemma load_body_own cf l c l' nx bound m n :
  load_body cf l c = (l', nx) -> node_idle m n -> tl_node l <> None ->
  next_own_ok bound m l' n nx.
Proof.
  unfold load_body. destruct (cf_use_fast cf).
  - intros [= <- <-] Hi _. exact Hi.
  - apply fallback_entry_own.
Qed.

Lemma rcu_attempt_own cf l c mo p d l' nx bound m n :
  rcu_attempt cf l c mo p d = (l', nx) -> node_idle m n -> next_own_ok bound m l' n nx.
Proof.
  intros He Hi. unfold rcu_attempt in He. destr_in He; try discriminate.
  all: try (match goal with H : enter_load ?cf0 ?l0 ?c0 = inr _ |- _ =>
              destruct (enter_load_total cf0 l0 c0) as [? Hel]; rewrite Hel in H; discriminate H end).
  all: injection He as <- <-; unfold next_own_ok; try exact Hi.
  all: try (match goal with
            | H : enter_load _ _ _ = inl (?t, ?fs) |- _ /\ top_ok _ _ ?t _ (hd_error (?fs ++ _)) =>
                split; [exact Hi|]; eapply enter_load_top_app; [exact H|exact Hi]
            | H : guard_drop_frames ?p ?d = ?fs |- _ /\ top_ok _ ?m ?t ?n0 (hd_error ?fs) =>
                split; [exact Hi|]; rewrite <- H; apply guard_frames_top; exact Hi
            end).
Qed.

Lemma resume_own cf l w v l' nx bound m n :
  resume cf l w v = (l', nx) -> node_idle m n -> ret_node_ok l v ->
  next_own_ok bound m l' n nx.
Proof.
  intros He Hi Hrv. destruct w; unfold resume in He; destr_in He; try discriminate.
  all: try (match type of He with rcu_attempt _ _ _ _ _ _ = _ => eapply rcu_attempt_own; [exact He|exact Hi] end).
  all: try (match goal with H : enter_load ?cf0 ?l0 ?c0 = inr _ |- _ =>
              destruct (enter_load_total cf0 l0 c0) as [? Hel]; rewrite Hel in H; discriminate H end).
  all: try (injection He as <- <-).
  all: unfold next_own_ok.
  all: try (match goal with |- True => exact I end).
  all: try (unfold dec_then; match goal with |- context [if ?b then _ else _] => destruct b end; cbn [next_own_ok]).
  all: try (exact Hi).
  all: try (match goal with
            | H : load_body _ _ _ = (_, ?nx) |- match ?nx with _ => _ end =>
                eapply load_body_own; [exact H|exact Hi|cbn in *; congruence]
            | H : enter_load _ _ _ = inl (?t, ?fs) |- _ /\ top_ok _ _ ?t _ (hd_error (?fs ++ _)) =>
                split; [exact Hi|]; eapply enter_load_top_app; [exact H|exact Hi]
            | H : enter_load _ _ _ = inl (?t, ?fs) |- _ /\ top_ok _ _ ?t _ (hd_error ?fs) =>
                split; [exact Hi|]; eapply enter_load_top; [exact H|exact Hi]
            | H : guard_drop_frames ?p ?d = ?fs |- _ /\ top_ok _ ?m ?t ?n0 (hd_error ?fs) =>
                split; [exact Hi|]; rewrite <- H; apply guard_frames_top; exact Hi
            | H : guard_into_frames ?p ?d = ?fs |- _ /\ top_ok _ ?m ?t ?n0 (hd_error ?fs) =>
                split; [exact Hi|]; rewrite <- H; apply guard_frames_top; exact Hi
            end).
  all: try (cbn; unfold pay_body; try destruct (_ =? 0); exact Hi).
  match goal with H : guard_into_frames ?p ?d = _ |- _ =>
    pose proof (proj2 (guard_frames_top p d bound m l n Hi)) as HT; rewrite H in HT; exact HT end.
Qed.

(** Frames of a thread that holds no node cannot panic either. *)
Lemma exec_noown cf s l p x s' l' evs nx :
  own_of l p = None -> in_with p = false ->
  exec cf s l p x = (s', l', evs, nx) ->
  match nx with NPanic _ => False | _ => True end.
Proof.
  intros Hown Hw He. unfold own_of in Hown.
  destruct p; cbn in Hw; try discriminate; unfold exec in He;
    unfold a_load, a_store, a_swap, a_cas, a_fadd, a_fsub in He; cbn in He.
  all: destr_in He; try discriminate.
  all: try (match goal with H : enter_load ?cf0 ?l0 ?c0 = inr _ |- _ =>
              destruct (enter_load_total cf0 l0 c0) as [? Hel]; rewrite Hel in H; discriminate H end).
  all: try (injection He as <- <- <- <-).
  all: try exact I.
  all: try (unfold dec_then; match goal with |- context [if ?b then _ else _] => destruct b end; exact I).
  destruct (tl_node l); discriminate.
Qed.

