(** * ASModel.InvStep — the structural invariant [WF2] holds in every reachable state;
    consequences: no operation panics (C13), a node has at most one holder and is marked in
    use iff it has one (C11). *)
From Coq Require Import Lia ZArith Zify ZifyClasses ZifyBool ZifyN.
From ASModel Require Import Base State Orderings_gen Step Run Progress Hist Inv InvTl InvProto.

Record WF2 (s : state) : Prop := {
  w_thr : forall t, t_status (thr s t) = Running ->
          stk_ok (nn s) (t_loc (thr s t)) (t_stack (thr s t));
  w_lt : forall t n, holder (thr s t) = Some n -> n < nn s;
  w_uniq : forall t t' n, holder (thr s t) = Some n -> holder (thr s t') = Some n -> t = t';
  w_inuse : forall n, n < nn s ->
            (mem (sh s) (LInUse n) = NODE_USED <-> exists t, holder (thr s t) = Some n);
  w_top : forall t n, t_status (thr s t) = Running -> holder (thr s t) = Some n ->
          top_ok (nn s) (mem (sh s)) (t_loc (thr s t)) n (hd_error (t_stack (thr s t)));
  w_unowned : forall n, n < nn s -> (forall t, holder (thr s t) <> Some n) -> node_idle (mem (sh s)) n;
  w_ctl : forall n, n < nn s -> ctl_ok (mem (sh s) (LCtrl n)) (nn s);
  w_off : forall n, n < nn s -> is_env (mem (sh s) (LOffer n)) (nn s);
}.

Lemma holder_own th p rest :
  t_stack th = p :: rest -> holder th = own_of (t_loc th) p.
Proof. intros H. unfold holder, own_of. rewrite H. reflexivity. Qed.

Lemma stk_ok_mono b b' l stk : b <= b' -> stk_ok b l stk -> stk_ok b' l stk.
Proof.
  intros Hle [Ht Hf]. split; [exact Ht|]. eapply Forall_impl; [|exact Hf].
  intros p. apply pc_nodes_ok_mono. exact Hle.
Qed.

(** The initial state. *)
Lemma init_stores_other inits : forall c s l0, (forall c', l0 <> LStore c') -> (forall a, l0 <> LCount a) ->
  mem (init_stores inits c s) l0 = mem s l0.
Proof.
  induction inits as [|a inits IH]; intros c s l0 H1 H2; [reflexivity|].
  cbn. rewrite IH by assumption. destruct (a =? 0); cbn.
  - apply upd_other. apply H1.
  - destruct (heap _ a); cbn; rewrite !upd_other; auto.
Qed.

Lemma init_threads_stack progs : forall t f t0,
  (t_stack (f t0) = [] /\ t_loc (f t0) = tl_init /\ (t_status (f t0) = Running \/ t_status (f t0) = Exited)) ->
  t_stack (init_threads progs t f t0) = [] /\ t_loc (init_threads progs t f t0) = tl_init /\
  (t_status (init_threads progs t f t0) = Running \/ t_status (init_threads progs t f t0) = Exited).
Proof.
  induction progs as [|p progs IH]; intros t f t0 H; [exact H|].
  cbn. apply IH. unfold upd. destruct (decide (t0 = t)); [cbn; auto|exact H].
Qed.

Lemma WF2_init inits progs : WF2 (init_state inits progs).
Proof.
  assert (Hth : forall t0, t_stack (thr (init_state inits progs) t0) = [] /\
                           t_loc (thr (init_state inits progs) t0) = tl_init /\
                           (t_status (thr (init_state inits progs) t0) = Running \/
                            t_status (thr (init_state inits progs) t0) = Exited)).
  { intros t0. cbn. apply init_threads_stack. cbn. auto. }
  assert (Hh : forall t0, holder (thr (init_state inits progs) t0) = None).
  { intros t0. destruct (Hth t0) as (Hs & Hl & _). unfold holder. rewrite Hs, Hl. reflexivity. }
  assert (Hnn : nn (init_state inits progs) = 0).
  { unfold nn. cbn. rewrite init_stores_other by discriminate. reflexivity. }
  constructor; try (intros; rewrite Hnn in *; lia).
  - intros t0 _. destruct (Hth t0) as (Hs & Hl & _). rewrite Hs, Hl. split; [|constructor].
    cbn. repeat split; reflexivity || (cbn; lia).
  - intros t0 n H. rewrite Hh in H. discriminate.
  - intros t0 t' n H. rewrite Hh in H. discriminate.
  - intros t0 n _ H. rewrite Hh in H. discriminate.
Qed.

(** ** Unwinding *)
Definition is_cool12 (p : pc) : bool := match p with C1 _ | C2 _ | GCool3 _ | GBack _ => true | _ => false end.

Definition next_top_not_cool (nx : next) : Prop :=
  match nx with
  | NGoto p => is_cool12 p = false
  | NPush fs _ => match fs with f :: _ => is_cool12 f = false | [] => False end
  | _ => True
  end.

Lemma load_body_not_cool cf l c l' nx : load_body cf l c = (l', nx) -> next_top_not_cool nx.
Proof.
  unfold load_body, fallback_entry. destruct (cf_use_fast cf); [intros [= <- <-]; reflexivity|].
  destruct (tl_node l); [destruct (cf_debug cf)|]; intros [= <- <-]; cbn; reflexivity || exact I.
Qed.

Lemma enter_load_not_cool cf l c l' fs : enter_load cf l c = inl (l', fs) ->
  match fs with f :: _ => is_cool12 f = false | [] => False end.
Proof.
  unfold enter_load. destruct (tl_node l); [|intros [= <- <-]; reflexivity].
  destruct (load_body cf _ c) as [l2 nx] eqn:Hb. apply load_body_not_cool in Hb.
  destruct nx; try discriminate. intros [= <- <-]. exact Hb.
Qed.

Lemma guard_frames_not_cool p d :
  match guard_drop_frames p d with f :: _ => is_cool12 f = false | [] => True end /\
  match guard_into_frames p d with f :: _ => is_cool12 f = false | [] => True end.
Proof. unfold guard_drop_frames, guard_into_frames. destruct d; destruct (p =? 0); split; reflexivity || exact I. Qed.

Lemma rcu_attempt_not_cool cf l c m p d l' nx : rcu_attempt cf l c m p d = (l', nx) -> next_top_not_cool nx.
Proof.
  intros He. unfold rcu_attempt in He. destr_in He; try discriminate; injection He as <- <-; cbn; try reflexivity; try exact I.
  all: try (match goal with H : enter_load _ _ _ = inl (_, ?fs) |- _ =>
              apply enter_load_not_cool in H; destruct fs; cbn; first [contradiction|exact H|reflexivity] end).
  all: try (match goal with H : guard_drop_frames ?p ?d = _ |- _ =>
              pose proof (proj1 (guard_frames_not_cool p d)) as HG; rewrite H in HG; exact HG end).
Qed.

Lemma resume_not_cool cf l w v l' nx : resume cf l w v = (l', nx) -> next_top_not_cool nx.
Proof.
  intros He. destruct w; unfold resume in He; destr_in He; try discriminate.
  all: try (match type of He with rcu_attempt _ _ _ _ _ _ = _ => eapply rcu_attempt_not_cool; exact He end).
  all: try (injection He as <- <-).
  all: cbn; try reflexivity; try exact I.
  all: try (unfold dec_then; match goal with |- context [if ?b then _ else _] => destruct b end; cbn; reflexivity || exact I).
  all: try (match goal with H : load_body _ _ _ = (_, ?nx) |- _ => exact (load_body_not_cool _ _ _ _ _ H) end).
  all: try (match goal with H : enter_load _ _ _ = inl (_, ?fs) |- _ =>
              apply enter_load_not_cool in H; destruct fs; cbn; first [contradiction|exact H|reflexivity] end).
  all: try (match goal with H : guard_drop_frames ?p ?d = _ |- _ =>
              pose proof (proj1 (guard_frames_not_cool p d)) as HG; rewrite H in HG; exact HG end).
  all: try (match goal with H : guard_into_frames ?p ?d = _ |- _ =>
              pose proof (proj2 (guard_frames_not_cool p d)) as HG; rewrite H in HG; exact HG end).
  all: try (unfold pay_body; destruct (_ =? 0); reflexivity).
Qed.

Definition unwound_loc (u : unwound) : tlocal :=
  match u with UStack l _ | UDone l _ _ | UExit l | UPanic l _ | UFault l _ => l end.

Lemma unwind_node cf : forall rest l v, tl_node (unwound_loc (unwind cf l rest v)) = tl_node l.
Proof.
  induction rest as [|w rest IH]; intros l v; [reflexivity|].
  destruct w; cbn [unwind]; try reflexivity.
  all: match goal with |- context [resume ?cf0 ?l0 ?w ?v0] => destruct (resume cf0 l0 w v0) as [l' nx] eqn:Hr end;
       pose proof (resume_node _ _ _ _ _ _ Hr) as Hn; destruct nx; cbn; try exact Hn.
  all: rewrite IH; exact Hn.
Qed.

(** The stack left by an unwind: its top frame is not a cooldown frame, and it satisfies the
    default node assertion when the node is idle; no panic. *)
Lemma unwind_top cf bound m n : forall rest l v,
  popped_ok bound l rest -> ret_ok bound v -> ret_node_ok l v -> node_idle m n ->
  match unwind cf l rest v with
  | UStack l' stk => top_ok bound m l' n (hd_error stk) /\
                     match stk with p :: _ => is_cool12 p = false | [] => True end
  | UPanic _ _ => False
  | _ => True
  end.
Proof.
  induction rest as [|w rest IH]; intros l v (Hp & Hf) Hv Hrn Hi; [exact I|].
  inversion Hf as [|? ? Hw Hrest]; subst.
  destruct w; cbn [unwind]; try exact I.
  all: match goal with |- context [resume ?cf0 ?l0 ?w ?v0] => destruct (resume cf0 l0 w v0) as [l' nx] eqn:Hr end;
       pose proof (resume_tl _ _ _ _ _ _ _ Hp (nodes_ok_setgen _ _ Hw) (nodes_ok_wexit _ _ Hw) Hrn Hr) as Htl;
       pose proof (resume_nodes _ _ _ _ _ _ _ Hw Hv Hr) as Hnd;
       pose proof (resume_own _ _ _ _ _ _ bound m n Hr Hi Hrn) as Hown;
       pose proof (resume_not_cool _ _ _ _ _ _ Hr) as Hnc;
       destruct nx as [p'|fs w'|v'|ps|f]; cbn in Htl, Hnd, Hown, Hnc; try exact I; try contradiction.
  all: try (split; [exact Hown|exact Hnc]).
  all: try (destruct Hown as [_ Hown]; destruct fs as [|f0 fs0]; [contradiction|]; split; [exact Hown|exact Hnc]).
  all: try (destruct Htl as [Htl Hrn']; apply IH; [split; assumption| |exact Hrn'|exact Hi]; destruct v'; exact I || exact Hnd).
Qed.

(** When does a step leave a cooldown frame on top? *)
Definition exec_top_cool_spec (p : pc) (l l' : tlocal) (nx : next) : Prop :=
  match nx with
  | NGoto p' => is_cool12 p' = true ->
                exists w, (p = C1 w /\ p' = C2 w) \/ (p = GCool2 w /\ p' = GCool3 w) \/ (p = GCool3 w /\ p' = GBack w)
  | NPush fs wt =>
      match fs with
      | f :: _ => is_cool12 f = true -> exists n r, tl_node l = Some n /\ tl_node l' = None /\ nx = NPush [C1 n] (WExit r)
      | [] => False
      end
  | _ => True
  end.

Lemma with_exit_cool l r l' nx : with_exit l r = (l', nx) -> forall p, exec_top_cool_spec p l l' nx.
Proof.
  unfold with_exit. intros H p. destr_in H; injection H as <- <-; cbn; try exact I.
  intros _. cbn in *. eauto.
Qed.

Lemma fallback_entry_cool cf l c l' nx p : fallback_entry cf l c = (l', nx) -> exec_top_cool_spec p l l' nx.
Proof. unfold fallback_entry. intros H. destr_in H; injection H as <- <-; cbn; try exact I; discriminate. Qed.
Lemma gen_step_cool cf l c l' nx p : gen_step cf l c = (l', nx) -> exec_top_cool_spec p l l' nx.
Proof. unfold gen_step. intros H. destr_in H; injection H as <- <-; cbn; try exact I; discriminate. Qed.

Lemma help_dispatch_cool cf l c old w ctl p l' : exec_top_cool_spec p l l' (help_dispatch cf l c old w ctl).
Proof. unfold help_dispatch. repeat match goal with |- context [if ?b then _ else _] => destruct b end; cbn; try exact I; discriminate. Qed.

Lemma exec_top_cool cf s l p x s' l' evs nx :
  exec cf s l p x = (s', l', evs, nx) -> exec_top_cool_spec p l l' nx.
Proof.
  intros He.
  destruct p; unfold exec in He;
    unfold a_load, a_store, a_swap, a_cas, a_fadd, a_fsub in He; cbn in He.
  all: destr_in He; try discriminate.
  all: try (injection He as <- <- <- <-).
  all: try (match goal with
            | H : with_exit _ _ = (_, ?nx) |- exec_top_cool_spec _ _ _ ?nx => exact (with_exit_cool _ _ _ _ H _)
            | H : fallback_entry _ _ _ = (_, ?nx) |- exec_top_cool_spec _ _ _ ?nx => exact (fallback_entry_cool _ _ _ _ _ _ H)
            | H : gen_step _ _ _ = (_, ?nx) |- exec_top_cool_spec _ _ _ ?nx => exact (gen_step_cool _ _ _ _ _ _ H)
            | |- exec_top_cool_spec _ _ _ (help_dispatch _ _ _ _ _ _) => apply help_dispatch_cool
            end).
  all: unfold exec_top_cool_spec.
  all: try (unfold dec_then; match goal with |- context [if ?b then _ else _] => destruct b end).
  all: try (unfold after_slot; match goal with |- context [if ?b then _ else _] => destruct b end).
  all: try exact I.
  all: try (cbn; discriminate).
  all: try (cbn; intros _; eauto; fail).
  all: try (match goal with H : enter_load _ _ _ = inl (_, ?fs) |- _ =>
              apply enter_load_not_cool in H; destruct fs; cbn; [contradiction|rewrite H; discriminate] end).
  all: try (match goal with H : enter_pay _ _ _ = (_, ?fs) |- _ =>
              unfold enter_pay, pay_body in H; destr_in H; injection H as <- <-; cbn; discriminate end).
  all: try (match goal with H : guard_drop_frames ?p ?d = _ |- _ =>
              pose proof (proj1 (guard_frames_not_cool p d)) as HG; rewrite H in HG; cbn; rewrite HG; discriminate end).
Qed.

(** ** Transferring [WF2] across an update of one thread and the shared state *)
Definition iu (s : state) (k : N) : N := mem (sh s) (LInUse k).

Inductive holder_change (s s' : state) (t : N) : Prop :=
| hc_same :
    nn s' = nn s ->
    holder (thr s' t) = holder (thr s t) -> (forall k, iu s' k = iu s k) -> holder_change s s' t
| hc_cool3 k :
    nn s' = nn s ->
    holder (thr s' t) = holder (thr s t) -> (forall k', k' <> k -> iu s' k' = iu s k') ->
    iu s k <> NODE_USED -> iu s' k <> NODE_USED -> holder_change s s' t
| hc_gain k :
    (k < nn s /\ nn s' = nn s) \/ (k = nn s /\ nn s' = nn s + 1) ->
    holder (thr s t) = None -> holder (thr s' t) = Some k ->
    (forall k', k' <> k -> iu s' k' = iu s k') -> iu s' k = NODE_USED ->
    (k < nn s -> iu s k <> NODE_USED) ->
    holder_change s s' t
| hc_lose k :
    nn s' = nn s ->
    holder (thr s t) = Some k -> holder (thr s' t) = None ->
    (forall k', k' <> k -> iu s' k' = iu s k') -> iu s' k <> NODE_USED ->
    node_idle (mem (sh s')) k ->
    holder_change s s' t.

Lemma node_idle_foreign b m m' n fo :
  foreign_ok b m m' fo -> n < b -> fo <> Some n -> node_idle m n -> node_idle m' n.
Proof. intros Hf Hlt Hne Hi. exact (top_ok_foreign b m m' tl_init n None fo Hf Hlt Hne Hi). Qed.

Lemma wf2_transfer s s' t fo :
  WF2 s ->
  (forall t', t' <> t -> thr s' t' = thr s t') ->
  nn s <= nn s' ->
  (forall n, n < nn s' -> ctl_ok (mem (sh s') (LCtrl n)) (nn s')) ->
  (forall n, n < nn s' -> is_env (mem (sh s') (LOffer n)) (nn s')) ->
  foreign_ok (nn s) (mem (sh s)) (mem (sh s')) fo ->
  (forall n, fo = Some n -> holder (thr s t) = Some n) ->
  (t_status (thr s' t) = Running -> stk_ok (nn s') (t_loc (thr s' t)) (t_stack (thr s' t))) ->
  holder_change s s' t ->
  (forall n, t_status (thr s' t) = Running -> holder (thr s' t) = Some n ->
             top_ok (nn s') (mem (sh s')) (t_loc (thr s' t)) n (hd_error (t_stack (thr s' t)))) ->
  WF2 s'.
Proof.
  intros W Hoth Hb Hctl Hoff Hfor Hfo Hstk Hch Htop.
  assert (Hhold : forall t', t' <> t -> holder (thr s' t') = holder (thr s t')).
  { intros t' Hne. rewrite Hoth by exact Hne. reflexivity. }
  assert (Hforeign : forall t' n, t' <> t -> holder (thr s t') = Some n -> fo <> Some n).
  { intros t' n Hne Hh Hf. apply Hne. eapply (w_uniq _ W); [exact Hh|]. apply Hfo. exact Hf. }
  assert (Hsplit : forall st n, (exists t0, holder (thr st t0) = Some n) <->
                              ((exists t0, t0 <> t /\ holder (thr st t0) = Some n) \/ holder (thr st t) = Some n)).
  { intros st n. split.
    - intros (t0 & Hh). destruct (N.eq_dec t0 t) as [->|Hne]; [right; exact Hh|left; eauto].
    - intros [(t0 & _ & Hh)|Hh]; eauto. }
  assert (Hothers : forall n, (exists t0, t0 <> t /\ holder (thr s' t0) = Some n) <->
                              (exists t0, t0 <> t /\ holder (thr s t0) = Some n)).
  { intros n. split; intros (t0 & Hne & Hh); exists t0; split; auto;
      [rewrite Hhold in Hh by exact Hne; exact Hh | rewrite Hhold by exact Hne; exact Hh]. }
  constructor.
  - (* w_thr *)
    intros t0 Hr. destruct (N.eq_dec t0 t) as [->|Hne]; [apply Hstk; exact Hr|].
    rewrite Hoth in * by exact Hne. eapply stk_ok_mono; [exact Hb|]. apply (w_thr _ W). exact Hr.
  - (* w_lt *)
    intros t0 n Hh. destruct (N.eq_dec t0 t) as [->|Hne].
    + destruct Hch as [Hbb Hs _|k Hbb Hs _ _ _|k Hbb _ Hg _ _ _|k Hbb _ Hl _ _ _].
      * rewrite Hs in Hh. pose proof (w_lt _ W _ _ Hh). lia.
      * rewrite Hs in Hh. pose proof (w_lt _ W _ _ Hh). lia.
      * rewrite Hg in Hh. injection Hh as <-. lia.
      * rewrite Hl in Hh. discriminate.
    + rewrite Hhold in Hh by exact Hne. pose proof (w_lt _ W _ _ Hh). lia.
  - (* w_uniq *)
    intros t1 t2 n H1 H2.
    destruct (N.eq_dec t1 t) as [->|Hn1]; destruct (N.eq_dec t2 t) as [->|Hn2]; try reflexivity.
    + rewrite Hhold in H2 by exact Hn2.
      destruct Hch as [_ Hs _|k _ Hs _ _ _|k _ Hnone Hg _ Hused Hfree|k _ _ Hl _ _ _].
      * rewrite Hs in H1. eapply (w_uniq _ W); eassumption.
      * rewrite Hs in H1. eapply (w_uniq _ W); eassumption.
      * rewrite Hg in H1. injection H1 as <-. exfalso.
        pose proof (w_lt _ W _ _ H2) as Hlt. apply (Hfree Hlt).
        apply (w_inuse _ W _ Hlt). eauto.
      * rewrite Hl in H1. discriminate.
    + rewrite Hhold in H1 by exact Hn1.
      destruct Hch as [_ Hs _|k _ Hs _ _ _|k _ Hnone Hg _ Hused Hfree|k _ _ Hl _ _ _].
      * rewrite Hs in H2. eapply (w_uniq _ W); eassumption.
      * rewrite Hs in H2. eapply (w_uniq _ W); eassumption.
      * rewrite Hg in H2. injection H2 as <-. exfalso.
        pose proof (w_lt _ W _ _ H1) as Hlt. apply (Hfree Hlt).
        apply (w_inuse _ W _ Hlt). eauto.
      * rewrite Hl in H2. discriminate.
    + rewrite Hhold in H1, H2 by assumption. eapply (w_uniq _ W); eassumption.
  - (* w_inuse *)
    intros n Hn. fold (iu s' n). rewrite (Hsplit s'), Hothers.
    destruct Hch as [Hbb Hs Hiu|k Hbb Hs Hiu Hk Hk'|k Hbb Hnone Hg Hiu Hused Hfree|k Hbb Hold Hl Hiu Hk' Hidle].
    + rewrite Hs, Hiu, <- (Hsplit s). apply (w_inuse _ W). lia.
    + rewrite Hs, <- (Hsplit s). destruct (N.eq_dec n k) as [->|Hne].
      * split; [intros H; contradiction|]. intros H. exfalso. apply Hk. apply (w_inuse _ W); [lia|exact H].
      * rewrite Hiu by exact Hne. apply (w_inuse _ W). lia.
    + rewrite Hg. destruct (N.eq_dec n k) as [->|Hne].
      * split; auto.
      * rewrite Hiu by exact Hne. assert (Hlt : n < nn s) by lia.
        rewrite (w_inuse _ W _ Hlt), (Hsplit s), Hnone.
        split; intros [H|H]; auto; congruence.
    + rewrite Hl. destruct (N.eq_dec n k) as [->|Hne].
      * split; [intros H; contradiction|]. intros [(t0 & Hne0 & Hh)|H]; [|discriminate].
        exfalso. apply Hne0. eapply (w_uniq _ W); eassumption.
      * rewrite Hiu by exact Hne. assert (Hlt : n < nn s) by lia.
        rewrite (w_inuse _ W _ Hlt), (Hsplit s), Hold.
        split; intros [H|H]; auto; congruence.
  - (* w_top *)
    intros t0 n Hr Hh. destruct (N.eq_dec t0 t) as [->|Hne]; [apply Htop; assumption|].
    rewrite Hhold in Hh by exact Hne. rewrite Hoth in * by exact Hne.
    eapply top_ok_mono; [exact Hb|].
    eapply top_ok_foreign; [exact Hfor|exact (w_lt _ W _ _ Hh)|eapply Hforeign; eassumption|].
    apply (w_top _ W); assumption.
  - (* w_unowned *)
    intros n Hn Hnone.
    assert (Hnt : holder (thr s' t) <> Some n) by apply Hnone.
    assert (Hno : forall t0, t0 <> t -> holder (thr s t0) <> Some n).
    { intros t0 Hne. rewrite <- Hhold by exact Hne. apply Hnone. }
    destruct (N.lt_ge_cases n (nn s)) as [Hlt|Hge].
    + destruct (holder (thr s t)) as [k0|] eqn:Hht.
      * destruct (N.eq_dec k0 n) as [->|Hkn].
        -- (* the acting thread held n and no longer does *)
           destruct Hch as [_ Hs _|k _ Hs _ _ _|k _ Hnn _ _ _ _|k _ Hold Hl _ _ Hidle].
           ++ rewrite Hs in Hnt. congruence.
           ++ rewrite Hs in Hnt. congruence.
           ++ congruence.
           ++ rewrite Hht in Hold. injection Hold as <-. exact Hidle.
        -- eapply node_idle_foreign; [exact Hfor|exact Hlt| |].
           ++ intros Hf. apply Hfo in Hf. congruence.
           ++ apply (w_unowned _ W _ Hlt). intros t0. destruct (N.eq_dec t0 t) as [->|Hne]; [congruence|apply Hno; exact Hne].
      * eapply node_idle_foreign; [exact Hfor|exact Hlt| |].
        -- intros Hf. apply Hfo in Hf. congruence.
        -- apply (w_unowned _ W _ Hlt). intros t0. destruct (N.eq_dec t0 t) as [->|Hne]; [congruence|apply Hno; exact Hne].
    + (* a node beyond the old bound is the one just pushed, and it has a holder *)
      exfalso. destruct Hch as [Hbb _ _|k Hbb _ _ _ _|k Hbb _ Hg _ _ _|k Hbb _ _ _ _ _]; try lia.
      destruct Hbb as [[_ Hbb]|[-> Hbb]]; [lia|]. apply Hnt. rewrite Hg. f_equal. lia.
  - exact Hctl.
  - exact Hoff.
Qed.

(** ** The acting thread after [finish] *)
Definition thread_after (cf : config) (th : thread) (l' : tlocal) (rest : list pc) (nx : next) : thread :=
  match nx with
  | NGoto p => mkThread (p :: rest) l' (t_prog th) (t_cmdi th) Running
  | NPush fs w => mkThread (fs ++ w :: rest) l' (t_prog th) (t_cmdi th) Running
  | NPanic _ => mkThread rest l' (t_prog th) (t_cmdi th) Panicked
  | NFault _ => mkThread rest l' (t_prog th) (t_cmdi th) Faulted
  | NRet v =>
      match unwind cf l' rest v with
      | UStack l'' stk => mkThread stk l'' (t_prog th) (t_cmdi th) Running
      | UDone l'' _ _ => mkThread [] l'' (t_prog th) (t_cmdi th + 1) Running
      | UExit l'' => mkThread [] l'' (t_prog th) (t_cmdi th) Exited
      | UPanic l'' _ => mkThread [] l'' (t_prog th) (t_cmdi th) Panicked
      | UFault l'' _ => mkThread [] l'' (t_prog th) (t_cmdi th) Faulted
      end
  end.

Lemma finish_spec cf s t th s_sh l' rest evs nx :
  let s2 := fst (finish cf s t th s_sh l' rest evs nx) in
  sh s2 = s_sh /\ thr s2 t = thread_after cf th l' rest nx /\
  (forall t', t' <> t -> thr s2 t' = thr s t').
Proof.
  unfold finish, thread_after. destruct nx; cbn; try (repeat split; [rewrite upd_same; reflexivity|intros; apply upd_other; assumption]).
  destruct (unwind cf l' rest v); cbn; repeat split; try (rewrite upd_same; reflexivity); intros; apply upd_other; assumption.
Qed.

Lemma finish_panics cf s t th s_sh l' rest evs nx :
  (forall e, In e evs -> match e with EvPanic _ => False | _ => True end) ->
  match nx with NPanic _ => False | _ => True end ->
  match nx with NRet v => match unwind cf l' rest v with UPanic _ _ => False | _ => True end | _ => True end ->
  forall e, In e (snd (finish cf s t th s_sh l' rest evs nx)) -> match e with EvPanic _ => False | _ => True end.
Proof.
  intros Hevs Hnx Hun e. unfold finish. destruct nx; cbn; try contradiction; try (apply Hevs).
  - destruct (unwind cf l' rest v); cbn; try contradiction; try apply Hevs;
      intros Hin; apply in_app_or in Hin as [Hin|[<-|[]]]; try exact I; apply Hevs; exact Hin.
  - intros Hin. apply in_app_or in Hin as [Hin|[<-|[]]]; try exact I. apply Hevs; exact Hin.
Qed.

Lemma node_init_idle s n : node_idle (mem (node_init s n)) n.
Proof.
  unfold node_idle, node_init. cbn. split.
  - repeat (rewrite upd_other by discriminate). apply upd_same.
  - unfold HSLOT. repeat (rewrite upd_other by discriminate). apply upd_same.
Qed.

(** Events produced by [exec] itself never contain a panic marker (panics are signalled
    through [NPanic]). *)
Lemma exec_events_no_panic cf s l p x s' l' evs nx :
  exec cf s l p x = (s', l', evs, nx) ->
  forall e, In e evs -> match e with EvPanic _ => False | _ => True end.
Proof.
  intros He.
  assert (Hrc : forall s0 a s1 ev, (rc_inc s0 a = Some (s1, ev) \/ rc_dec s0 a = Some (s1, ev) \/ rc_alloc s0 a = Some (s1, ev)) ->
                forall e, In e ev -> match e with EvPanic _ => False | _ => True end).
  { intros s0 a s1 ev [H|[H|H]] e Hin.
    - unfold rc_inc in H. destr_in H; try discriminate. injection H as _ <-. destruct Hin as [<-|[]]. exact I.
    - unfold rc_dec in H. destr_in H; try discriminate; injection H as _ <-; cbn in Hin; intuition (subst; exact I).
    - unfold rc_alloc in H. destr_in H; try discriminate. injection H as _ <-. destruct Hin as [<-|[]]. exact I. }
  destruct p; unfold exec in He;
    unfold a_load, a_store, a_swap, a_cas, a_fadd, a_fsub in He; cbn in He.
  all: destr_in He; try discriminate.
  all: try (injection He as <- <- <- <-).
  all: intros ev0 Hin.
  all: try (cbn in Hin; intuition (subst; exact I); fail).
  all: try (eapply Hrc; [|exact Hin]; eauto; fail).
Qed.

(** ** Structure of the acting thread after its step *)
Lemma after_stk_ok cf th l' rest nx b' :
  next_tl_ok l' rest nx -> next_nodes_ok b' nx -> Forall (pc_nodes_ok b') rest ->
  t_status (thread_after cf th l' rest nx) = Running ->
  stk_ok b' (t_loc (thread_after cf th l' rest nx)) (t_stack (thread_after cf th l' rest nx)).
Proof.
  intros Htl Hnd Hrest Hr. unfold thread_after in *. destruct nx as [p'|fs w|v|ps|f]; cbn in *; try discriminate.
  - split; [exact Htl|constructor; assumption].
  - split; [exact Htl|]. destruct Hnd as [Hfs Hw]. apply Forall_app. split; [exact Hfs|constructor; assumption].
  - destruct Htl as [Hpop Hrn].
    pose proof (unwind_ok cf b' rest l' v (conj Hpop Hrest)) as Hu.
    assert (Hv : ret_ok b' v) by (destruct v; exact I || exact Hnd).
    specialize (Hu Hv Hrn). destruct (unwind cf l' rest v); cbn in *; try discriminate; try exact Hu.
    split; [exact Hu|constructor].
Qed.

Lemma in_with_not_get p : in_with p = true -> is_get p = false.
Proof. destruct p; cbn; congruence. Qed.

Lemma holder_after_noncool th' :
  match t_stack th' with p :: _ => is_cool12 p = false | [] => True end ->
  holder th' = tl_node (t_loc th').
Proof.
  unfold holder. destruct (tl_node (t_loc th')); [reflexivity|].
  destruct (t_stack th') as [|p ?]; [reflexivity|]. destruct p; cbn; congruence.
Qed.

Lemma rcu_attempt_no_panic cf l c m p d l' nx :
  rcu_attempt cf l c m p d = (l', nx) -> match nx with NPanic _ => False | _ => True end.
Proof.
  intros He. unfold rcu_attempt in He. destr_in He; try discriminate.
  all: try (match goal with H : enter_load ?cf0 ?l0 ?c0 = inr _ |- _ =>
              destruct (enter_load_total cf0 l0 c0) as [? Hel]; rewrite Hel in H; discriminate H end).
  all: injection He as <- <-; exact I.
Qed.

Lemma resume_no_panic cf l w v l' nx :
  ret_node_ok l v -> resume cf l w v = (l', nx) -> match nx with NPanic _ => False | _ => True end.
Proof.
  intros Hrn He. destruct w; unfold resume in He; destr_in He; try discriminate.
  all: try (match type of He with rcu_attempt _ _ _ _ _ _ = _ => eapply rcu_attempt_no_panic; exact He end).
  all: try (match goal with H : enter_load ?cf0 ?l0 ?c0 = inr _ |- _ =>
              destruct (enter_load_total cf0 l0 c0) as [? Hel]; rewrite Hel in H; discriminate H end).
  all: try (injection He as <- <-).
  all: try exact I.
  all: try (unfold dec_then; match goal with |- context [if ?b then _ else _] => destruct b end; exact I).
  (* load_body after Node::get returned: the node is set *)
  all: match goal with H : load_body _ _ _ = (_, _) |- _ =>
         unfold load_body, fallback_entry in H; cbn in Hrn; cbn [tl_node tl_set_depth] in H; rewrite Hrn in H;
         destr_in H; injection H as <- <-; exact I end.
Qed.

Lemma unwind_no_panic cf bound : forall rest l v,
  popped_ok bound l rest -> ret_ok bound v -> ret_node_ok l v ->
  match unwind cf l rest v with UPanic _ _ => False | _ => True end.
Proof.
  induction rest as [|w rest IH]; intros l v (Hp & Hf) Hv Hrn; [exact I|].
  inversion Hf as [|? ? Hw Hrest]; subst.
  destruct w; cbn [unwind]; try exact I.
  all: match goal with |- context [resume ?cf0 ?l0 ?w ?v0] => destruct (resume cf0 l0 w v0) as [l' nx] eqn:Hr end;
       pose proof (resume_tl _ _ _ _ _ _ _ Hp (nodes_ok_setgen _ _ Hw) (nodes_ok_wexit _ _ Hw) Hrn Hr) as Htl;
       pose proof (resume_nodes _ _ _ _ _ _ _ Hw Hv Hr) as Hnd;
       pose proof (resume_no_panic _ _ _ _ _ _ Hrn Hr) as Hnp;
       destruct nx as [p'|fs w'|v'|ps|f]; cbn in Htl, Hnd, Hnp; try exact I; try contradiction.
  all: destruct Htl as [Htl Hrn']; apply IH; [split; assumption| |exact Hrn']; destruct v'; exact I || exact Hnd.
Qed.

Lemma unwind_not_cool cf : forall rest l v,
  match unwind cf l rest v with
  | UStack _ stk => match stk with p :: _ => is_cool12 p = false | [] => True end
  | _ => True
  end.
Proof.
  induction rest as [|w rest IH]; intros l v; [exact I|].
  destruct w; cbn [unwind]; try exact I.
  all: match goal with |- context [resume ?cf0 ?l0 ?w ?v0] => destruct (resume cf0 l0 w v0) as [l' nx] eqn:Hr end;
       pose proof (resume_not_cool _ _ _ _ _ _ Hr) as Hnc;
       destruct nx as [p'|fs w'|v'|ps|f]; cbn in Hnc; try exact I; try exact Hnc; try apply IH.
  all: destruct fs; [contradiction|exact Hnc].
Qed.

Lemma waiting_not_cool p : is_waiting p = true -> is_cool12 p = false.
Proof. destruct p; cbn; congruence. Qed.

Definition is_special (p : pc) : bool :=
  match p with C1 _ | C2 _ | GCool2 _ | GCool3 _ | GBack _ => true | _ => false end.

Lemma own_of_noncool l p : is_special p = false -> own_of l p = tl_node l.
Proof. unfold own_of. destruct (tl_node l); [reflexivity|]. destruct p; cbn; congruence. Qed.

(** ** One frame step preserves [WF2] and does not panic. *)
Lemma step_exec_WF2 cf s t x p rest :
  WF2 s -> t_status (thr s t) = Running -> t_stack (thr s t) = p :: rest ->
  WF2 (fst (step cf s t x)) /\
  (forall e, In e (snd (step cf s t x)) -> match e with EvPanic _ => False | _ => True end).
Proof.
  intros W Hr Hstk.
  pose proof (w_thr _ W t Hr) as [Htl Hnodes]. rewrite Hstk in Htl, Hnodes.
  destruct Htl as (Hw & Hrest & Hd & Hn & Hget & Hg).
  inversion Hnodes as [|? ? Hp Hfrest]; subst.
  set (th := thr s t) in *. set (l := t_loc th) in *.
  assert (Hnb : in_with p = true -> tl_node l <> None).
  { intros Hi. apply Hn. cbn. rewrite (in_with_not_bottom _ Hi), Hi. lia. }
  assert (Hhold : holder th = own_of l p) by exact (holder_own th p rest Hstk).
  assert (Hlt : forall n, tl_node l = Some n -> n < mem (sh s) LHead).
  { intros n Hnode. apply (w_lt _ W t). unfold holder. fold th. fold l. rewrite Hnode. reflexivity. }
  assert (Hmok : mem_ok (mem (sh s) LHead) (mem (sh s))).
  { split; [reflexivity|]. split; [apply (w_ctl _ W)|apply (w_off _ W)]. }
  assert (Hpd : match p with PDec _ (RNode _) => False | _ => True end).
  { destruct p; try exact I. destruct r; try exact I. exact Hp. }
  unfold step. fold th. rewrite Hr, Hstk. fold l.
  destruct (exec cf (sh s) l p x) as [[[s_sh l'] evs] nx] eqn:He.
  pose proof (exec_tl _ _ _ _ _ _ _ _ _ _ (conj Hw (conj Hrest (conj Hd (conj Hn (conj Hget Hg))))) Hpd He) as Etl.
  pose proof (exec_nodes _ _ _ _ _ _ _ _ _ Hmok Hp Hlt Hnb He) as End.
  pose proof (exec_foreign _ _ _ _ _ _ _ _ _ Hp Hnb He) as Efor.
  pose proof (exec_inuse _ _ _ _ _ _ _ _ _ He) as Eiu.
  pose proof (exec_top_cool _ _ _ _ _ _ _ _ _ He) as Ecool.
  pose proof (exec_events_no_panic _ _ _ _ _ _ _ _ _ He) as Eev.
  (* own node: assertion, in_use *)
  assert (Eown : match own_of l p with
                 | Some n => next_own_ok (mem s_sh LHead) (mem s_sh) l' n nx
                 | None => match nx with NPanic _ => False | _ => True end
                 end).
  { destruct (own_of l p) as [n|] eqn:Hown.
    - assert (Hh : holder th = Some n) by exact Hhold.
      refine (exec_own cf (sh s) l p x s_sh l' evs nx n Hown _ Hget _ Hp _ Hg (w_ctl _ W) He).
      + intros Hi. pose proof (Hnb Hi) as Hne. unfold own_of in Hown. destruct (tl_node l); congruence.
      + pose proof (w_top _ W t n Hr Hh) as Ht. fold th in Ht. rewrite Hstk in Ht. exact Ht.
      + apply (w_inuse _ W n (w_lt _ W _ _ Hh)). exists t. exact Hh.
    - refine (exec_noown cf (sh s) l p x s_sh l' evs nx Hown _ He).
      destruct (in_with p) eqn:Hi; [|reflexivity]. exfalso. unfold own_of in Hown.
      pose proof (Hnb eq_refl). destruct (tl_node l); congruence. }
  assert (Etab : mem (sh s) LHead <= mem s_sh LHead /\
                 (forall k, k < mem s_sh LHead -> ctl_ok (mem s_sh (LCtrl k)) (mem s_sh LHead)) /\
                 (forall k, k < mem s_sh LHead -> is_env (mem s_sh (LOffer k)) (mem s_sh LHead))).
  { eapply (exec_tables _ _ _ _ _ _ _ _ _ (own_node l)); try eassumption; try apply (w_ctl _ W); try apply (w_off _ W).
    intros Hi. pose proof (Hnb Hi) as Hne. destruct (tl_node l) as [n|] eqn:Hnode; [|congruence].
    assert (Hon : own_node l = n) by (unfold own_node; rewrite Hnode; reflexivity).
    rewrite Hon. split; [reflexivity|].
    assert (Hh : holder th = Some n). { unfold holder. fold l. rewrite Hnode. reflexivity. }
    pose proof (w_top _ W t n Hr Hh) as Ht. fold th in Ht. rewrite Hstk in Ht. exact Ht. }
  destruct Etab as (Hbound & Hctl' & Hoff').
  (* the new state *)
  destruct (finish_spec cf s t th s_sh l' rest evs nx) as (Hsh & Hthr & Hoth).
  set (s2 := fst (finish cf s t th s_sh l' rest evs nx)) in *.
  assert (Hnn2 : nn s2 = mem s_sh LHead) by (unfold nn; rewrite Hsh; reflexivity).
  split.
  2: { (* no panic *)
       apply finish_panics; [exact Eev| |].
       - destruct (own_of l p); [|exact Eown]. destruct nx; try exact I. exact Eown.
       - destruct nx as [| |v| |]; try exact I. destruct Etl as [Hpop Hrn].
         assert (Hv : ret_ok (mem s_sh LHead) v) by (destruct v; exact I || exact End).
         assert (Hfr : Forall (pc_nodes_ok (mem s_sh LHead)) rest).
         { eapply Forall_impl; [|exact Hfrest]. intros q. apply pc_nodes_ok_mono. exact Hbound. }
         destruct (own_of l p) as [n|] eqn:Hown.
         + pose proof (unwind_top cf (mem s_sh LHead) (mem s_sh) n rest l' v (conj Hpop Hfr) Hv Hrn Eown) as Hu.
           destruct (unwind cf l' rest v); try exact I. exact Hu.
         + exact (unwind_no_panic cf (mem s_sh LHead) rest l' v (conj Hpop Hfr) Hv Hrn). }
  (* ---- WF2 of the new state ---- *)
  set (th2 := thread_after cf th l' rest nx) in *.
  assert (Hfr : Forall (pc_nodes_ok (mem s_sh LHead)) rest).
  { eapply Forall_impl; [|exact Hfrest]. intros q. apply pc_nodes_ok_mono. exact Hbound. }
  assert (Hl2 : tl_node (t_loc th2) = tl_node l').
  { unfold th2, thread_after. destruct nx as [| |v| |]; cbn; try reflexivity.
    pose proof (unwind_node cf rest l' v) as Hu. destruct (unwind cf l' rest v); exact Hu. }
  assert (Hcool2 : match t_stack th2 with
                   | q :: _ => is_cool12 q = true ->
                               (exists w, (p = C1 w /\ q = C2 w) \/ (p = GCool2 w /\ q = GCool3 w) \/ (p = GCool3 w /\ q = GBack w)) \/
                               (exists n r, tl_node l = Some n /\ tl_node l' = None /\ nx = NPush [C1 n] (WExit r))
                   | [] => True
                   end).
  { unfold th2, thread_after. destruct nx as [p'|fs w|v|ps|f]; cbn.
    - intros Hc. left. apply Ecool. exact Hc.
    - cbn in Ecool. destruct fs as [|f0 fs0]; [contradiction|]. cbn. intros Hc. right. apply Ecool. exact Hc.
    - pose proof (unwind_not_cool cf rest l' v) as Hu. destruct (unwind cf l' rest v); cbn; try exact I.
      destruct stk; [exact I|]. intros Hc. congruence.
    - destruct rest as [|q rest']; [exact I|]. intros Hc. apply Forall_inv in Hrest.
      rewrite waiting_not_cool in Hc by exact Hrest. discriminate.
    - destruct rest as [|q rest']; [exact I|]. intros Hc. apply Forall_inv in Hrest.
      rewrite waiting_not_cool in Hc by exact Hrest. discriminate. }
  assert (Hstk2 : t_status th2 = Running -> stk_ok (mem s_sh LHead) (t_loc th2) (t_stack th2)).
  { apply after_stk_ok; assumption. }
  (* the node assertion of the acting thread after the step, for a node it held before *)
  assert (Htop_same : forall n, own_of l p = Some n -> t_status th2 = Running ->
                        top_ok (mem s_sh LHead) (mem s_sh) (t_loc th2) n (hd_error (t_stack th2))).
  { intros n Hown Hrun. rewrite Hown in Eown. unfold th2, thread_after in *.
    destruct nx as [p'|fs w|v|ps|f]; cbn in *; try discriminate; try contradiction.
    - exact Eown.
    - destruct Eown as [_ Ht]. destruct fs; [contradiction|exact Ht].
    - destruct Etl as [Hpop Hrn].
      assert (Hv : ret_ok (mem s_sh LHead) v) by (destruct v; exact I || exact End).
      pose proof (unwind_top cf (mem s_sh LHead) (mem s_sh) n rest l' v (conj Hpop Hfr) Hv Hrn Eown) as Hu.
      destruct (unwind cf l' rest v); cbn in *; try discriminate; try exact Eown. exact (proj1 Hu). }
  assert (Hfo : forall n, tl_node l = Some n -> holder (thr s t) = Some n).
  { intros n Hnode. unfold holder. fold th. fold l. rewrite Hnode. reflexivity. }
  assert (Hgoal : forall hc : holder_change s s2 t,
            (forall n, t_status th2 = Running -> holder th2 = Some n ->
                       top_ok (mem s_sh LHead) (mem s_sh) (t_loc th2) n (hd_error (t_stack th2))) ->
            WF2 s2).
  { intros hc Htop2. eapply (wf2_transfer s s2 t (tl_node l)); try eassumption.
    - rewrite Hnn2. exact Hbound.
    - rewrite Hnn2, Hsh. exact Hctl'.
    - rewrite Hnn2, Hsh. exact Hoff'.
    - rewrite Hsh. exact Efor.
    - rewrite Hnn2, Hthr. exact Hstk2.
    - rewrite Hnn2, Hsh, Hthr. exact Htop2. }
  assert (Hiu2 : forall k, iu s2 k = mem s_sh (LInUse k)) by (intros; unfold iu; rewrite Hsh; reflexivity).
  destruct (is_special p) eqn:Hpc.
  - (* frames that identify the holder themselves, and the take-over step *)
    destruct p; try discriminate; cbn in Hget; pose proof (Hget eq_refl) as Hnone.
    + (* GCool2: take a cooled node over *)
      cbn in He. unfold a_cas in He. cbn in He.
      destruct (mem (sh s) (LInUse n) =? NODE_COOLDOWN) eqn:Hcd; cbn in He; injection He as Hs1 Hl1 Hev1 Hnx1.
      * apply N.eqb_eq in Hcd. cbn in Hp.
        assert (Hidle : node_idle (mem s_sh) n).
        { eapply node_idle_foreign; [exact Efor|exact Hp|rewrite Hnone; discriminate|].
          apply (w_unowned _ W _ Hp). intros t0 Hh0.
          assert (Hu : mem (sh s) (LInUse n) = NODE_USED) by (apply (w_inuse _ W _ Hp); eauto).
          rewrite Hcd in Hu. discriminate. }
        apply Hgoal.
        -- apply (hc_gain s s2 t n).
           ++ left. split; [exact Hp|]. rewrite Hnn2, <- Hs1. unfold nn. cbn. apply upd_other. discriminate.
           ++ unfold holder. fold th. fold l. rewrite Hnone, Hstk. reflexivity.
           ++ rewrite Hthr. unfold th2, thread_after. rewrite <- Hnx1, <- Hl1. unfold holder. cbn. fold l. rewrite Hnone. reflexivity.
           ++ intros k' Hk'. rewrite Hiu2, <- Hs1. unfold iu. cbn. apply upd_other. congruence.
           ++ rewrite Hiu2, <- Hs1. cbn. apply upd_same.
           ++ intros _. unfold iu. rewrite Hcd. discriminate.
        -- intros n0 Hrun Hh. unfold th2, thread_after in *. rewrite <- Hnx1, <- Hl1 in *.
           unfold holder in Hh. cbn in Hh. fold l in Hh. rewrite Hnone in Hh. injection Hh as <-. cbn. exact Hidle.
      * (* the compare-exchange failed: nothing changes *)
        apply Hgoal.
        -- apply hc_same; [rewrite Hnn2, <- Hs1; reflexivity| |intros k; rewrite Hiu2, <- Hs1; reflexivity].
           rewrite Hthr. unfold th2, thread_after. rewrite <- Hnx1, <- Hl1.
           unfold holder. fold th. fold l. cbn. rewrite Hnone, Hstk. reflexivity.
        -- intros n0 Hrun Hh. unfold th2, thread_after in Hh. rewrite <- Hnx1, <- Hl1 in Hh.
           unfold holder in Hh. cbn in Hh. fold l in Hh. rewrite Hnone in Hh. discriminate.
    + (* GCool3: holding the node, look at the writers *)
      assert (Hown : own_of l (GCool3 n) = Some n) by (unfold own_of; rewrite Hnone; reflexivity).
      cbn in He. unfold a_load in He. destruct (mem (sh s) (LWriters n) =? 0) eqn:Hz; injection He as Hs1 Hl1 Hev1 Hnx1.
      * (* nobody inside: the node is ours *)
        apply Hgoal.
        -- apply hc_same; [rewrite Hnn2, <- Hs1; reflexivity| |intros k; rewrite Hiu2, <- Hs1; reflexivity].
           rewrite Hthr. unfold holder at 2. fold th. fold l. rewrite Hnone, Hstk.
           rewrite holder_after_noncool.
           ++ rewrite Hl2, <- Hl1. reflexivity.
           ++ unfold th2, thread_after. rewrite <- Hnx1.
              pose proof (unwind_not_cool cf rest l' (RNode n)) as Hu. destruct (unwind cf l' rest (RNode n)); cbn; try exact I; exact Hu.
        -- intros n0 Hrun Hh. apply Htop_same; [|exact Hrun]. rewrite Hown. rewrite <- Hh.
           rewrite holder_after_noncool.
           ++ rewrite Hl2, <- Hl1. reflexivity.
           ++ unfold th2, thread_after. rewrite <- Hnx1.
              pose proof (unwind_not_cool cf rest l' (RNode n)) as Hu. destruct (unwind cf l' rest (RNode n)); cbn; try exact I; exact Hu.
      * (* a writer is still inside: give the node back *)
        apply Hgoal.
        -- apply hc_same; [rewrite Hnn2, <- Hs1; reflexivity| |intros k; rewrite Hiu2, <- Hs1; reflexivity].
           rewrite Hthr. unfold th2, thread_after. rewrite <- Hnx1, <- Hl1.
           unfold holder. fold th. fold l. cbn. rewrite Hnone, Hstk. reflexivity.
        -- intros n0 Hrun Hh. apply Htop_same; [|exact Hrun]. rewrite Hown.
           unfold th2, thread_after in Hh. rewrite <- Hnx1, <- Hl1 in Hh.
           unfold holder in Hh. cbn in Hh. fold l in Hh. rewrite Hnone in Hh. exact Hh.
    + (* GBack: the node returns to cooldown *)
      assert (Hown : own_of l (GBack n) = Some n) by (unfold own_of; rewrite Hnone; reflexivity).
      rewrite Hown in Eown.
      cbn in He. unfold a_store in He. injection He as Hs1 Hl1 Hev1 Hnx1. rewrite <- Hnx1 in Eown.
      apply Hgoal.
      * apply (hc_lose s s2 t n).
        -- rewrite Hnn2, <- Hs1. unfold nn. cbn. apply upd_other. discriminate.
        -- unfold holder. fold th. fold l. rewrite Hnone, Hstk. reflexivity.
        -- rewrite Hthr. unfold th2, thread_after. rewrite <- Hnx1, <- Hl1. unfold holder. cbn. fold l. rewrite Hnone. reflexivity.
        -- intros k' Hk'. rewrite Hiu2, <- Hs1. unfold iu. cbn. apply upd_other. congruence.
        -- rewrite Hiu2, <- Hs1. cbn. rewrite upd_same. discriminate.
        -- rewrite Hsh. exact Eown.
      * intros n0 Hrun Hh. unfold th2, thread_after in Hh. rewrite <- Hnx1, <- Hl1 in Hh.
        unfold holder in Hh. cbn in Hh. fold l in Hh. rewrite Hnone in Hh. discriminate.
    + (* C1 *)
      cbn in He. unfold a_fadd in He. injection He as Hs1 Hl1 Hev1 Hnx1.
      apply Hgoal.
      * apply hc_same; [rewrite Hnn2, <- Hs1; unfold nn; cbn; apply upd_other; discriminate|
                        |intros k; rewrite Hiu2, <- Hs1; unfold iu; cbn; apply upd_other; discriminate].
        rewrite Hthr. unfold th2, thread_after. rewrite <- Hnx1, <- Hl1.
        unfold holder. fold th. fold l. cbn. rewrite Hnone, Hstk. reflexivity.
      * intros n0 Hrun Hh. apply Htop_same; [|exact Hrun]. unfold own_of. rewrite Hnone.
        unfold th2, thread_after in Hh. rewrite <- Hnx1, <- Hl1 in Hh.
        unfold holder in Hh. cbn in Hh. fold l in Hh. rewrite Hnone in Hh. exact Hh.
    + (* C2 *)
      assert (Hown : own_of l (C2 n) = Some n) by (unfold own_of; rewrite Hnone; reflexivity).
      rewrite Hown in Eown.
      cbn in He. unfold a_swap in He. destruct (mem (sh s) (LInUse n) =? NODE_USED) eqn:Hu;
        injection He as Hs1 Hl1 Hev1 Hnx1; rewrite <- Hnx1 in Eown; [|contradiction].
      apply Hgoal.
      * apply (hc_lose s s2 t n).
        -- rewrite Hnn2, <- Hs1. unfold nn. cbn. apply upd_other. discriminate.
        -- unfold holder. fold th. fold l. rewrite Hnone, Hstk. reflexivity.
        -- rewrite Hthr. unfold th2, thread_after. rewrite <- Hnx1, <- Hl1. unfold holder. cbn. fold l. rewrite Hnone. reflexivity.
        -- intros k' Hk'. rewrite Hiu2, <- Hs1. unfold iu. cbn. apply upd_other. congruence.
        -- rewrite Hiu2, <- Hs1. cbn. rewrite upd_same. discriminate.
        -- rewrite Hsh. exact Eown.
      * intros n0 Hrun Hh. unfold th2, thread_after in Hh. rewrite <- Hnx1, <- Hl1 in Hh.
        unfold holder in Hh. cbn in Hh. fold l in Hh. rewrite Hnone in Hh. discriminate.
  - (* all other frames: the holder is the thread's node *)
    assert (Hown : own_of l p = tl_node l) by (apply own_of_noncool; exact Hpc).
    assert (Hbefore : holder (thr s t) = tl_node l) by (fold th; rewrite Hhold; exact Hown).
    assert (Hafter_nc : (tl_node l' = tl_node l \/ tl_node l' <> None) ->
                        holder th2 = tl_node l').
    { intros Hcase. unfold holder. rewrite Hl2. destruct (tl_node l') eqn:Hn'; [reflexivity|].
      destruct (t_stack th2) as [|q st2]; [reflexivity|].
      destruct (is_cool12 q) eqn:Hq; [|destruct q; try reflexivity; discriminate].
      exfalso. destruct (Hcool2 eq_refl) as [(w & [[Hpw _]|[[Hpw _]|[Hpw _]]])|(n0 & r & Hs & _ & _)];
        try (rewrite Hpw in Hpc; discriminate).
      destruct Hcase as [Hc|Hc]; congruence. }
    destruct Eiu as [(Hhd & Hiu & Hnode)|[(k & -> & _)|[(k & -> & _)|[(k & -> & _)|
                     [(k & Hpk & Hiu & Hfree & Hused & Hnode & -> & Hh1 & Hh2)|(k & -> & _)]]]]];
      [|discriminate|discriminate|discriminate| |discriminate].
    + destruct Hnode as [Hnode|(n0 & r & Hs & Hnone' & ->)].
      * (* nothing changed for the ownership *)
        apply Hgoal.
        -- apply hc_same; [rewrite Hnn2; exact Hhd| |intros k; rewrite Hiu2; apply Hiu].
           rewrite Hthr, Hbefore, (Hafter_nc (or_introl Hnode)). exact Hnode.
        -- intros n0 Hrun Hh. apply Htop_same; [|exact Hrun].
           rewrite Hown, <- Hnode, <- (Hafter_nc (or_introl Hnode)). exact Hh.
      * (* the node is given up for the cooldown: the C1 frame now identifies the holder *)
        apply Hgoal.
        -- apply hc_same; [rewrite Hnn2; exact Hhd| |intros k; rewrite Hiu2; apply Hiu].
           rewrite Hthr, Hbefore, Hs. unfold th2, thread_after, holder. cbn. rewrite Hnone'. reflexivity.
        -- intros n1 Hrun Hh. apply Htop_same; [|exact Hrun].
           rewrite Hown, Hs. unfold th2, thread_after, holder in Hh. cbn in Hh. rewrite Hnone' in Hh. exact Hh.
    + (* a node is claimed (or pushed) *)
      assert (Hnone : tl_node l = None).
      { apply Hget. destruct Hpk as [->|[-> _]]; reflexivity. }
      assert (Hh2' : holder th2 = Some k).
      { rewrite Hafter_nc; [exact Hnode|]. right. congruence. }
      assert (Hidle : node_idle (mem s_sh) k).
      { destruct Hpk as [->|[-> Hk0]].
        - (* claimed: it had no holder, so it was idle, and only its in_use word changed *)
          cbn in Hp. eapply node_idle_foreign; [exact Efor|exact Hp|rewrite Hnone; discriminate|].
          apply (w_unowned _ W _ Hp). intros t0 Hh0.
          assert (Hu : mem (sh s) (LInUse k) = NODE_USED) by (apply (w_inuse _ W _ Hp); eauto).
          rewrite (Hfree eq_refl) in Hu. discriminate.
        - (* pushed: freshly initialised *)
          cbn in He. unfold a_cas in He. cbn in He.
          match type of He with context [if ?b then _ else _] => destruct b end; [|discriminate He].
          injection He as Hs1 _ _. rewrite <- Hs1. apply node_init_idle. }
      apply Hgoal.
      -- apply (hc_gain s s2 t k).
         ++ rewrite Hnn2. destruct Hpk as [->|[-> Hk0]].
            ** left. cbn in Hp. split; [exact Hp|]. apply Hh1. reflexivity.
            ** right. unfold nn. rewrite Hk0. split; [reflexivity|]. apply Hh2. reflexivity.
         ++ rewrite Hbefore. exact Hnone.
         ++ rewrite Hthr. exact Hh2'.
         ++ intros k' Hne. rewrite Hiu2. apply Hiu. exact Hne.
         ++ rewrite Hiu2. exact Hused.
         ++ intros Hlt0. destruct Hpk as [->|[-> Hk0]].
            ** unfold iu. rewrite (Hfree eq_refl). discriminate.
            ** unfold nn in Hlt0. lia.
      -- intros n0 Hrun Hh. rewrite Hh2' in Hh. injection Hh as <-.
         unfold th2, thread_after in *. cbn in *.
         destruct Etl as [Hpop Hrn].
         pose proof (unwind_top cf (mem s_sh LHead) (mem s_sh) k rest l' (RNode k) (conj Hpop Hfr) End Hrn Hidle) as Hu.
         destruct (unwind cf l' rest (RNode k)); cbn in *; try discriminate; try exact Hidle. exact (proj1 Hu).
Qed.

(** ** Starting a command *)
Lemma cmd_start_total cf s l c : exists r, cmd_start cf s l c = inl r.
Proof.
  destruct c; cbn;
    repeat match goal with
      | |- context [enter_load ?cf0 ?l0 ?c0] => destruct (enter_load_total cf0 l0 c0) as [[? ?] ->]
      | |- context [match ?e with _ => _ end] => destruct e
      | |- context [if ?b then _ else _] => destruct b
      end; eauto.
Qed.

Lemma cmd_start_effect cf s l c s' l' stk r :
  cmd_start cf s l c = inl (s', l', stk, r) ->
  thr s' = thr s /\ tl_node l' = tl_node l /\
  (forall l0, (forall c0, l0 <> LStore c0) -> mem (sh s') l0 = mem (sh s) l0) /\
  match stk with p :: _ => is_cool12 p = false | [] => True end /\
  (forall bound m n, (forall l0, (forall c0, l0 <> LStore c0) -> m l0 = mem (sh s) l0) ->
      node_idle (mem (sh s)) n -> top_ok bound m l' n (hd_error stk)).
Proof.
  intros Hc.
  assert (Hidle : forall m n, (forall l0, (forall c0, l0 <> LStore c0) -> m l0 = mem (sh s) l0) ->
                              node_idle (mem (sh s)) n -> node_idle m n).
  { intros m n Hm [H1 H2]. split; rewrite Hm by discriminate; assumption. }
  destruct c; cbn in Hc; destr_in Hc; try discriminate; injection Hc as <- <- <- <-.
  all: repeat match goal with
         | H : enter_load _ _ _ = inl (_, _) |- _ =>
             pose proof (enter_load_node _ _ _ _ _ H); pose proof (enter_load_not_cool _ _ _ _ _ H);
             pose proof (fun bound m n => enter_load_top_app _ _ _ _ _ [] bound m n H);
             pose proof (fun ws bound m n => enter_load_top_app _ _ _ _ _ ws bound m n H); clear H
         | H : enter_pay _ _ _ = (_, _) |- _ =>
             pose proof (enter_pay_node _ _ _ _ _ H);
             pose proof (fun bound m n => enter_pay_top _ _ _ _ _ bound m n H);
             unfold enter_pay, pay_body in H; destr_in H; injection H as <- <-
         end.
  all: split; [try reflexivity; try (unfold consume; match goal with |- context [match ?v with _ => _ end] => destruct v end; reflexivity)|].
  all: split; [try reflexivity; try assumption; try (cbn; congruence)|].
  all: split; [intros lx Hlx; cbn; unfold consume;
               repeat match goal with |- context [match ?v with SNull => _ | SHandle _ => _ end] => destruct v end; cbn;
               rewrite ?upd_other by (intros E; eapply Hlx; eauto); reflexivity|].
  all: split.
  all: try (match goal with |- match ?fs ++ _ with _ => _ end => destruct fs; [contradiction|assumption] end).
  all: try (match goal with
            | H : guard_drop_frames ?a ?d = _ |- match _ with _ => _ end =>
                pose proof (proj1 (guard_frames_not_cool a d)) as HG; rewrite H in HG; exact HG
            | H : guard_into_frames ?a ?d = _ |- match _ with _ => _ end =>
                pose proof (proj2 (guard_frames_not_cool a d)) as HG; rewrite H in HG; exact HG
            end).
  all: try (cbn; reflexivity || exact I).
  all: try (match goal with
            | H : guard_drop_frames ?a ?d = _ |- is_cool12 _ = false =>
                pose proof (proj1 (guard_frames_not_cool a d)) as HG; rewrite H in HG; exact HG
            | H : guard_into_frames ?a ?d = _ |- is_cool12 _ = false =>
                pose proof (proj2 (guard_frames_not_cool a d)) as HG; rewrite H in HG; exact HG
            end).
  all: try (intros bnd mm nx0 Hm Hi; apply (Hidle mm nx0 Hm) in Hi;
            first [ exact Hi
                  | match goal with H : forall ws bound m n, node_idle m n -> top_ok bound m _ n (hd_error (_ ++ ws)) |- _ => apply H; exact Hi end
                  | match goal with H : forall bound m n, node_idle m n -> top_ok bound m _ n (hd_error _) |- _ => apply H; exact Hi end
                  | match goal with H : guard_drop_frames ?a ?d = ?f :: ?fs |- _ =>
                      pose proof (proj1 (guard_frames_top a d bnd mm l nx0 Hi)) as HT; rewrite H in HT; exact HT end
                  | match goal with H : guard_into_frames ?a ?d = ?f :: ?fs |- _ =>
                      pose proof (proj2 (guard_frames_top a d bnd mm l nx0 Hi)) as HT; rewrite H in HT; exact HT end ]).
Qed.

(** ** Every step preserves [WF2] and emits no panic *)
Definition no_panic_ev (e : event) : Prop := match e with EvPanic _ => False | _ => True end.

Lemma foreign_ok_nonnode b m m' fo :
  (forall l0, (forall c0, l0 <> LStore c0) -> m' l0 = m l0) -> foreign_ok b m m' fo.
Proof.
  intros H n _ _. repeat split.
  - apply H. discriminate.
  - intros j. left. apply H. discriminate.
  - left. apply H. discriminate.
Qed.

Theorem step_WF2 cf s t x :
  WF2 s -> WF2 (fst (step cf s t x)) /\ (forall e, In e (snd (step cf s t x)) -> no_panic_ev e).
Proof.
  intros W.
  destruct (t_status (thr s t)) eqn:Hr;
    try (unfold step; rewrite Hr; split; [exact W|intros e [<-|[]]; exact I]).
  destruct (t_stack (thr s t)) as [|p rest] eqn:Hstk; [|eapply step_exec_WF2; eassumption].
  unfold step. rewrite Hr, Hstk.
  pose proof (w_thr _ W t Hr) as [Htl _]. rewrite Hstk in Htl.
  destruct (nth_error (t_prog (thr s t)) (N.to_nat (t_cmdi (thr s t)))) as [c|] eqn:Hc.
  - (* a command starts *)
    destruct (cmd_enabled s c); [|split; [exact W|intros e [<-|[]]; exact I]].
    destruct (cmd_start_total cf s (t_loc (thr s t)) c) as [[[[s' l'] stk] r] Hcs]. rewrite Hcs.
    destruct (cmd_start_effect _ _ _ _ _ _ _ _ Hcs) as (Hthr & Hnode & Hmem & Hnc & Htop).
    pose proof (cmd_start_ok cf s (t_loc (thr s t)) c s' l' stk r (nn s) Htl Hcs) as Hsok.
    set (th2 := if match stk with [] => true | _ => false end
                then mkThread [] l' (t_prog (thr s t)) (t_cmdi (thr s t) + 1) Running
                else mkThread stk l' (t_prog (thr s t)) (t_cmdi (thr s t)) Running).
    set (s2 := set_thread s' t th2).
    assert (Hs2 : forall ev, (if match stk with [] => true | _ => false end
                              then (set_thread s' t (mkThread [] l' (t_prog (thr s t)) (t_cmdi (thr s t) + 1) Running), ev)
                              else (set_thread s' t (mkThread stk l' (t_prog (thr s t)) (t_cmdi (thr s t)) Running), [EvCmd (t_cmdi (thr s t))]))
                           = (s2, if match stk with [] => true | _ => false end then ev else [EvCmd (t_cmdi (thr s t))])).
    { intros ev. unfold s2, th2. destruct stk; reflexivity. }
    assert (Hres : (match stk with
                    | [] => (set_thread s' t (mkThread [] l' (t_prog (thr s t)) (t_cmdi (thr s t) + 1) Running),
                             [EvCmd (t_cmdi (thr s t)); EvRet (t_cmdi (thr s t)) r])
                    | _ :: _ => (set_thread s' t (mkThread stk l' (t_prog (thr s t)) (t_cmdi (thr s t)) Running), [EvCmd (t_cmdi (thr s t))])
                    end) = (s2, match stk with [] => [EvCmd (t_cmdi (thr s t)); EvRet (t_cmdi (thr s t)) r] | _ => [EvCmd (t_cmdi (thr s t))] end)).
    { unfold s2, th2. destruct stk; reflexivity. }
    rewrite Hres. cbn [fst snd]. split; [|destruct stk; intros e Hin; cbn in Hin; intuition (subst; exact I)].
    assert (Hstk2 : t_stack th2 = stk /\ t_loc th2 = l' /\ t_status th2 = Running).
    { unfold th2. destruct stk; cbn; auto. }
    destruct Hstk2 as (Hst2 & Hl2 & Hru2).
    assert (Hthr2 : thr s2 t = th2) by (unfold s2, set_thread; cbn; apply upd_same).
    assert (Hoth : forall t', t' <> t -> thr s2 t' = thr s t').
    { intros t' Hne. unfold s2, set_thread. cbn. rewrite upd_other by exact Hne. rewrite Hthr. reflexivity. }
    assert (Hmem2 : forall l0, (forall c0, l0 <> LStore c0) -> mem (sh s2) l0 = mem (sh s) l0).
    { intros l0 Hl0. unfold s2, set_thread. cbn. apply Hmem. exact Hl0. }
    assert (Hnn2 : nn s2 = nn s) by (unfold nn; apply Hmem2; discriminate).
    assert (Hh2 : holder th2 = holder (thr s t)).
    { rewrite holder_after_noncool by (rewrite Hst2; exact Hnc). rewrite Hl2, Hnode.
      unfold holder. rewrite Hstk. destruct (tl_node (t_loc (thr s t))); reflexivity. }
    eapply (wf2_transfer s s2 t None); try eassumption.
    + rewrite Hnn2. lia.
    + intros n Hn. rewrite Hnn2 in *. rewrite Hmem2 by discriminate. apply (w_ctl _ W). exact Hn.
    + intros n Hn. rewrite Hnn2 in *. rewrite Hmem2 by discriminate. apply (w_off _ W). exact Hn.
    + apply foreign_ok_nonnode. exact Hmem2.
    + discriminate.
    + intros _. rewrite Hnn2, Hthr2, Hst2, Hl2. exact Hsok.
    + apply hc_same; [exact Hnn2|rewrite Hthr2; exact Hh2|intros k; unfold iu; apply Hmem2; discriminate].
    + intros n _ Hh. rewrite Hthr2 in *. rewrite Hst2, Hl2. apply Htop; [exact Hmem2|].
      rewrite Hh2 in Hh. pose proof (w_top _ W t n Hr Hh) as Ht. rewrite Hstk in Ht. exact Ht.
  - (* the thread function returns: TLS destructors run *)
    destruct (tl_node (t_loc (thr s t))) as [n|] eqn:Hnode.
    + cbn [fst snd]. split; [|intros e [<-|[]]; exact I].
      set (th2 := mkThread [C1 n; WThreadExit] (tl_set_node (t_loc (thr s t)) None) (t_prog (thr s t)) (t_cmdi (thr s t)) Running).
      set (s2 := set_thread s t th2).
      assert (Hh : holder (thr s t) = Some n) by (unfold holder; rewrite Hnode; reflexivity).
      destruct Htl as [Hd Hg].
      eapply (wf2_transfer s s2 t None); try exact W.
      * intros t' Hne. unfold s2, set_thread. cbn. apply upd_other. exact Hne.
      * unfold s2, nn. cbn. lia.
      * exact (w_ctl _ W).
      * exact (w_off _ W).
      * intros k _ _. unfold s2. cbn. auto.
      * discriminate.
      * intros _. unfold s2, set_thread. cbn. rewrite upd_same. cbn. split.
        -- unfold tl_ok. cbn. split; [reflexivity|]. split; [repeat constructor|].
           split; [exact Hd|]. split; [intros Hx; exfalso; apply Hx; reflexivity|]. split; [reflexivity|exact Hg].
        -- constructor; [cbn; exact (w_lt _ W _ _ Hh)|]. constructor; [exact I|constructor].
      * apply hc_same; [reflexivity| |reflexivity].
        unfold s2, set_thread. cbn. rewrite upd_same. rewrite Hh. reflexivity.
      * intros n0 _ Hh0. unfold s2, set_thread in *. cbn in *. rewrite upd_same in *. cbn in *.
        injection Hh0 as <-. pose proof (w_top _ W t n Hr Hh) as Ht. rewrite Hstk in Ht. exact Ht.
    + cbn [fst snd]. split; [|intros e [<-|[]]; exact I].
      set (th2 := mkThread [] (t_loc (thr s t)) (t_prog (thr s t)) (t_cmdi (thr s t)) Exited).
      set (s2 := set_thread s t th2).
      assert (Hh : holder (thr s t) = None) by (unfold holder; rewrite Hnode, Hstk; reflexivity).
      eapply (wf2_transfer s s2 t None); try exact W.
      * intros t' Hne. unfold s2, set_thread. cbn. apply upd_other. exact Hne.
      * unfold s2, nn. cbn. lia.
      * exact (w_ctl _ W).
      * exact (w_off _ W).
      * intros k _ _. unfold s2. cbn. auto.
      * discriminate.
      * unfold s2, set_thread. cbn. rewrite upd_same. cbn. discriminate.
      * apply hc_same; [reflexivity| |reflexivity].
        unfold s2, set_thread. cbn. rewrite upd_same. rewrite Hh. unfold holder. cbn. rewrite Hnode. reflexivity.
      * unfold s2, set_thread. cbn. rewrite upd_same. cbn. discriminate.
Qed.

(** ** Whole runs *)
Theorem run_WF2 cf : forall sched s,
  WF2 s ->
  WF2 (fst (run cf s sched)) /\
  (forall te e, In te (snd (run cf s sched)) -> In e (snd te) -> no_panic_ev e).
Proof.
  induction sched as [|[t x] sched IH]; intros s W; [split; [exact W|intros ? ? []]|].
  cbn [run]. destruct (step cf s t x) as [s1 evs] eqn:Hs.
  destruct (step_WF2 cf s t x W) as [W1 Hnp]. rewrite Hs in W1, Hnp. cbn [fst snd] in *.
  destruct (IH s1 W1) as [W2 Hnp2]. destruct (run cf s1 sched) as [s2 tr]. cbn [fst snd] in *.
  split; [exact W2|]. intros te e [<-|Hin] He; [apply Hnp; exact He|eapply Hnp2; eassumption].
Qed.

(** C13: no operation panics, in any schedule, from any initial configuration. *)
Theorem no_panic_in_any_run cf inits progs sched te e :
  In te (snd (run cf (init_state inits progs) sched)) -> In e (snd te) -> no_panic_ev e.
Proof. apply (run_WF2 cf sched _ (WF2_init inits progs)). Qed.

(** C11: in every reachable state a node has at most one holder, and it is marked in use
    exactly when it has one. *)
Theorem node_exclusive cf inits progs sched :
  let s := fst (run cf (init_state inits progs) sched) in
  (forall t t' n, holder (thr s t) = Some n -> holder (thr s t') = Some n -> t = t') /\
  (forall n, n < nn s -> (mem (sh s) (LInUse n) = NODE_USED <-> exists t, holder (thr s t) = Some n)).
Proof.
  intros s. destruct (run_WF2 cf sched _ (WF2_init inits progs)) as [W _]. fold s in W.
  split; [apply (w_uniq _ W)|apply (w_inuse _ W)].
Qed.
