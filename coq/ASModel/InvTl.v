(** * ASModel.InvTl — thread-local structure is preserved by every step:
    stack shape (active frame on top of waiting frames), the nesting depth of
    [LocalNode::with] equals the number of frames running inside it, a frame inside [with]
    has a node, Node::get runs without one, the generation counter is a multiple of four. *)
From Coq Require Import Lia ZArith Zify ZifyClasses ZifyBool ZifyN.
From ASModel Require Import Base State Orderings_gen Step Run Progress Hist Inv.

Definition gen_ok (l : tlocal) : Prop := N.land (tl_gen l) TAG_MASK = 0 /\ tl_gen l < WORD.

Definition all_waiting (stk : list pc) : Prop := Forall (fun q => is_waiting q = true) stk.

(** A running stack: active frame on top. *)
Definition tl_ok (l : tlocal) (stk : list pc) : Prop :=
  match stk with
  | [] => tl_depth l = 0 /\ gen_ok l
  | p :: rest =>
      is_waiting p = false /\ all_waiting rest /\
      tl_depth l = depth_of (p :: rest) /\
      (depth_of (p :: rest) <> 0 -> tl_node l <> None) /\
      (is_get p = true -> tl_node l = None) /\ gen_ok l
  end.

Definition ret_node_ok (l : tlocal) (v : retval) : Prop :=
  match v with RNode n => tl_node l = Some n | _ => True end.

(** The stack below a frame that has just returned. *)
Definition tl_popped (l : tlocal) (rest : list pc) : Prop :=
  all_waiting rest /\ tl_depth l = depth_of rest /\
  (depth_of rest <> 0 -> tl_node l <> None) /\ gen_ok l.

Lemma not_waiting_not_bottom p : is_waiting p = false -> is_bottom_frame p = false.
Proof. destruct p; cbn; congruence. Qed.
Lemma in_with_not_bottom p : in_with p = true -> is_bottom_frame p = false.
Proof. destruct p; cbn; congruence. Qed.

Lemma waiting_not_get p : is_waiting p = true -> is_get p = false.
Proof. destruct p; cbn; congruence. Qed.
Lemma get_not_with p : is_get p = true -> in_with p = false.
Proof. destruct p; cbn; congruence. Qed.

Lemma gen_ok_set_node l n : gen_ok (tl_set_node l n) <-> gen_ok l.
Proof. reflexivity. Qed.

Lemma land3_mod4 g : N.land g TAG_MASK = g mod 4.
Proof. change TAG_MASK with (N.ones 2). rewrite N.land_ones. reflexivity. Qed.

Lemma gen_plus4 g : N.land g TAG_MASK = 0 -> N.land ((g + 4) mod WORD) TAG_MASK = 0 /\ (g + 4) mod WORD < WORD.
Proof.
  rewrite !land3_mod4. intros H. split; [|apply N.mod_upper_bound; discriminate].
  unfold WORD. zify. Z.div_mod_to_equations. lia.
Qed.

Ltac destr_in H :=
  repeat match type of H with
         | context [match ?e with _ => _ end] => destruct e eqn:?
         | context [if ?b then _ else _] => destruct b eqn:?
         end.

(** ** Helper functions produce well-shaped frame lists *)
Lemma with_exit_tl l r l' nx rest :
  with_exit l r = (l', nx) ->
  all_waiting rest -> tl_depth l = 1 + depth_of rest -> tl_node l <> None -> gen_ok l ->
  match r with RNode _ => False | _ => True end ->
  match nx with
  | NRet v => tl_popped l' rest /\ ret_node_ok l' v
  | NPush [C1 _] (WExit _) => tl_popped l' rest /\ tl_node l' = None /\ depth_of rest = 0
  | _ => False
  end.
Proof.
  unfold with_exit. intros H Hw Hd Hn Hg Hr.
  assert (Hd1 : tl_depth l - 1 = depth_of rest) by lia.
  destruct ((tl_depth l - 1 =? 0) && tl_discard (tl_set_depth l (tl_depth l - 1))) eqn:Hb.
  - apply andb_prop in Hb as [Hz _]. apply N.eqb_eq in Hz.
    cbn in H. destruct (tl_node l) eqn:Hnode; [|congruence].
    injection H as <- <-. split; [|split; [reflexivity|lia]].
    unfold tl_popped; cbn. repeat split; try assumption; try apply Hg. rewrite <- Hd1, Hz. congruence.
  - injection H as <- <-. split; [|destruct r; try exact I; contradiction].
    unfold tl_popped; cbn. repeat split; try assumption; try apply Hg.
    intros _. exact Hn.
Qed.

Lemma fallback_entry_tl cf l c l' nx :
  fallback_entry cf l c = (l', nx) -> gen_ok l ->
  tl_depth l' = tl_depth l /\ tl_node l' = tl_node l /\ gen_ok l' /\
  match nx with
  | NGoto p => is_waiting p = false /\ in_with p = true /\ is_get p = false
  | NPanic _ => True
  | _ => False
  end.
Proof.
  unfold fallback_entry. intros H Hg. destruct (tl_node l) eqn:Hn; [|injection H as <- <-; auto].
  destruct (cf_debug cf); injection H as <- <-; cbn; repeat split; auto; try apply Hg;
    apply gen_plus4; apply Hg.
Qed.

Lemma gen_step_tl cf l c l' nx :
  gen_step cf l c = (l', nx) -> gen_ok l ->
  tl_depth l' = tl_depth l /\ tl_node l' = tl_node l /\ gen_ok l' /\
  match nx with
  | NGoto p => is_waiting p = false /\ in_with p = true /\ is_get p = false
  | NPanic _ => True
  | _ => False
  end.
Proof.
  unfold gen_step. intros H Hg. destruct (_ && _); injection H as <- <-; cbn; repeat split; auto; try apply Hg;
    apply gen_plus4; apply Hg.
Qed.

Lemma load_body_tl cf l c l' nx :
  load_body cf l c = (l', nx) -> gen_ok l ->
  tl_depth l' = tl_depth l /\ tl_node l' = tl_node l /\ gen_ok l' /\
  match nx with
  | NGoto p => is_waiting p = false /\ in_with p = true /\ is_get p = false
  | NPanic _ => True
  | _ => False
  end.
Proof.
  unfold load_body. destruct (cf_use_fast cf).
  - intros [= <- <-] Hg. cbn. repeat split; auto; apply Hg.
  - apply fallback_entry_tl.
Qed.

(** Shape of the frames pushed for a call: an active frame followed by waiting ones. *)
Definition call_frames_ok (l' : tlocal) (fs : list pc) (rest : list pc) : Prop :=
  match fs with
  | [] => False
  | p :: ws => is_waiting p = false /\ all_waiting ws /\
               tl_depth l' = depth_of (fs ++ rest) /\
               (depth_of (fs ++ rest) <> 0 -> tl_node l' <> None) /\
               (is_get p = true -> tl_node l' = None) /\ gen_ok l'
  end.

Lemma enter_load_tl cf l c l' fs rest :
  enter_load cf l c = inl (l', fs) ->
  tl_depth l = depth_of rest -> (depth_of rest <> 0 -> tl_node l <> None) -> gen_ok l ->
  call_frames_ok l' fs rest.
Proof.
  unfold enter_load. intros H Hd Hn Hg. destruct (tl_node l) eqn:Hnode.
  - destruct (load_body cf (tl_set_depth l (tl_depth l + 1)) c) as [l2 nx] eqn:Hb.
    apply load_body_tl in Hb; [|exact Hg]. destruct Hb as (Hd2 & Hn2 & Hg2 & Hnx).
    destruct nx; try discriminate. injection H as <- <-. destruct Hnx as (Hw & Hin & Hget).
    cbn in *. rewrite Hin, (in_with_not_bottom _ Hin). repeat split; auto; try apply Hg2.
    + constructor.
    + lia.
    + intros _. congruence.
    + congruence.
  - injection H as <- <-. cbn. repeat split; auto; try apply Hg; try (repeat constructor; fail).
    intros Hne. exfalso. apply Hn; [lia|reflexivity].
Qed.

Lemma enter_pay_tl l c old l' fs rest :
  enter_pay l c old = (l', fs) ->
  tl_depth l = depth_of rest -> (depth_of rest <> 0 -> tl_node l <> None) -> gen_ok l ->
  call_frames_ok l' fs rest.
Proof.
  unfold enter_pay, pay_body. intros H Hd Hn Hg. destruct (tl_node l) eqn:Hnode.
  - injection H as <- <-. destruct (old =? 0); cbn; repeat split; auto; try apply Hg; try constructor; try lia; try congruence.
  - injection H as <- <-. cbn. repeat split; auto; try apply Hg; try (repeat constructor; fail).
    intros Hne. exfalso. apply Hn; [lia|reflexivity].
Qed.

(** ** The frame step *)
Definition next_tl_ok (l' : tlocal) (rest : list pc) (nx : next) : Prop :=
  match nx with
  | NGoto p' => tl_ok l' (p' :: rest)
  | NPush fs w => tl_ok l' (fs ++ w :: rest)
  | NRet v => tl_popped l' rest /\ ret_node_ok l' v
  | NPanic _ | NFault _ => True
  end.

Lemma call_frames_tl_ok l' fs w rest :
  call_frames_ok l' fs (w :: rest) -> is_waiting w = true -> all_waiting rest ->
  tl_ok l' (fs ++ w :: rest).
Proof.
  destruct fs as [|p ws]; [contradiction|]. intros (Hw & Hws & Hd & Hn & Hg & Hgen) Hww Hr.
  cbn [app tl_ok] in *. repeat split; auto; try apply Hgen.
  apply Forall_app. split; [exact Hws|]. constructor; assumption.
Qed.

Lemma all_waiting_app ws rest : all_waiting ws -> all_waiting rest -> all_waiting (ws ++ rest).
Proof. intros. apply Forall_app. split; assumption. Qed.


Lemma call_frames_tl_ok2 l' fs rest0 :
  call_frames_ok l' fs rest0 -> all_waiting rest0 -> tl_ok l' (fs ++ rest0).
Proof.
  destruct fs as [|p ws]; [contradiction|]. intros (Hw & Hws & Hd & Hn & Hg & Hgen) Hr.
  cbn [app tl_ok] in *. repeat split; auto; try apply Hgen.
  apply Forall_app. split; assumption.
Qed.

Lemma help_dispatch_tl cf l c old w ctl rest :
  all_waiting rest -> tl_depth l = 1 + depth_of rest -> tl_node l <> None -> gen_ok l ->
  next_tl_ok l rest (help_dispatch cf l c old w ctl).
Proof.
  intros Hr Hd Hn Hg. unfold help_dispatch.
  repeat match goal with |- context [if ?b then _ else _] => destruct b end; cbn; auto;
    repeat split; auto; try apply Hg; try lia; try congruence.
Qed.

Lemma after_slot_tl l c old w j rest :
  all_waiting rest -> tl_depth l = 1 + depth_of rest -> tl_node l <> None -> gen_ok l ->
  next_tl_ok l rest (after_slot c old w j).
Proof.
  intros Hr Hd Hn Hg. unfold after_slot. destruct (_ =? _); cbn; repeat split; auto; try apply Hg; try lia; try congruence.
Qed.

Lemma guard_drop_frames_shape p d f fs :
  guard_drop_frames p d = f :: fs -> fs = [] /\ is_waiting f = false /\ in_with f = false /\ is_get f = false.
Proof.
  unfold guard_drop_frames. destruct d; [|destruct (p =? 0)]; intros [= <- <-] || discriminate; auto.
Qed.

Lemma guard_into_frames_shape p d f fs :
  guard_into_frames p d = f :: fs -> fs = [] /\ is_waiting f = false /\ in_with f = false /\ is_get f = false.
Proof.
  unfold guard_into_frames. destruct d; [destruct (p =? 0)|]; intros [= <- <-] || discriminate; auto.
Qed.

Ltac tl_fin :=
  cbn in *; repeat split; auto; try (repeat constructor; auto; fail); try lia; try congruence;
  try (intros; congruence); try (intros; lia).

Lemma exec_tl cf s l p rest x s' l' evs nx :
  tl_ok l (p :: rest) ->
  match p with PDec _ (RNode _) => False | _ => True end ->
  exec cf s l p x = (s', l', evs, nx) ->
  next_tl_ok l' rest nx.
Proof.
  intros (Hw & Hrest & Hd & Hn & Hget & Hg) Hpd He.
  destruct p; cbn in Hw; try discriminate; unfold exec in He;
    unfold a_load, a_store, a_swap, a_cas, a_fadd, a_fsub in He; cbn in He; cbn in Hd, Hn, Hget.
  all: destr_in He; try discriminate.
  all: try (injection He as <- <- <- <-).
  all: unfold next_tl_ok.
  (* helpers *)
  all: repeat match goal with
         | H : with_exit _ _ = (_, _) |- _ =>
             eapply (with_exit_tl _ _ _ _ rest) in H; [| exact Hrest | lia | apply Hn; lia | exact Hg | exact I]
         | H : fallback_entry _ _ _ = (_, _) |- _ => apply fallback_entry_tl in H; [|exact Hg]
         | H : gen_step _ _ _ = (_, _) |- _ => apply gen_step_tl in H; [|exact Hg]
         end.
  all: try (unfold dec_then; match goal with |- context [if ?b then _ else _] => destruct b end).
  all: try (match goal with |- True => exact I end).
  (* results of the helper functions *)
  all: try (match goal with
            | H : match ?n with NRet _ => _ | _ => _ end |- match ?n with _ => _ end =>
                destruct n as [?|fs ww|?|?|?]; try contradiction; try exact I;
                [ destruct fs as [|[] [|? ?]]; try contradiction; destruct ww; try contradiction;
                  destruct H as ((Hr1 & Hr2 & Hr3 & Hr4) & Hnone & Hz);
                  cbn; repeat split; auto; try apply Hr4; try (repeat constructor; auto; fail);
                  try (intros; congruence); try lia; try (rewrite Hz in *; intros; lia)
                | exact H ]
            | H : _ /\ _ /\ _ /\ match ?n with NGoto _ => _ | _ => _ end |- match ?n with _ => _ end =>
                destruct H as (Hd2 & Hn2 & Hg2 & Hnx);
                destruct n; try contradiction; try exact I;
                destruct Hnx as (Hw2 & Hin2 & Hget2);
                unfold tl_ok; rewrite Hw2; cbn [depth_of]; rewrite Hin2, (in_with_not_bottom _ Hin2), Hn2, Hd2;
                repeat split; auto; try apply Hg2; try lia; try congruence;
                try (intros; apply Hn; lia)
            end).
  all: try (apply help_dispatch_tl; [exact Hrest|lia|apply Hn; lia|exact Hg]).
  all: try (apply after_slot_tl; [exact Hrest|lia|apply Hn; lia|exact Hg]).
  all: try (match goal with
            | H : enter_load _ _ _ = inl (?t, ?fs) |- tl_ok ?t ((?fs ++ ?ws) ++ ?w :: _) =>
                rewrite <- app_assoc; apply call_frames_tl_ok2;
                [eapply enter_load_tl; [exact H| cbn; lia | cbn; intros; apply Hn; lia | exact Hg]
                |cbn; repeat constructor; auto]
            | H : enter_load _ _ _ = inl (?t, ?fs) |- tl_ok ?t (?fs ++ ?w :: _) =>
                apply call_frames_tl_ok2;
                [eapply enter_load_tl; [exact H| cbn; lia | cbn; intros; apply Hn; lia | exact Hg]
                |cbn; repeat constructor; auto]
            | H : enter_pay _ _ _ = (?t, ?fs) |- tl_ok ?t (?fs ++ ?w :: _) =>
                apply call_frames_tl_ok2;
                [eapply enter_pay_tl; [exact H| cbn; lia | cbn; intros; apply Hn; lia | exact Hg]
                |cbn; repeat constructor; auto]
            | H : guard_drop_frames _ _ = ?f :: ?fs |- _ =>
                apply guard_drop_frames_shape in H; destruct H as (-> & Hgw & Hgi & Hgg);
                unfold tl_ok; cbn [app depth_of]; rewrite Hgw, Hgi, (not_waiting_not_bottom _ Hgw); cbn [is_bottom_frame in_with];
                repeat split; auto; try apply Hg; try (repeat constructor; auto; fail); try lia;
                try congruence; try (intros; apply Hn; lia)
            end).
  all: try (unfold tl_ok, tl_popped, ret_node_ok; cbn; repeat split; auto; try apply Hg;
            try (repeat constructor; auto; fail); try lia; try congruence;
            try (intros; apply Hn; lia); try (intros; congruence);
            try (match goal with |- context [match ?r with RNode _ => _ | _ => _ end] => is_var r; destruct r; try exact I; try contradiction end); fail).
Qed.

(** ** Resuming waiting frames and unwinding *)
Lemma rcu_attempt_tl cf l c m p d l' nx rest :
  all_waiting rest -> tl_depth l = depth_of rest -> (depth_of rest <> 0 -> tl_node l <> None) -> gen_ok l ->
  rcu_attempt cf l c m p d = (l', nx) ->
  next_tl_ok l' rest nx.
Proof.
  intros Hrest Hd Hn Hg He. unfold rcu_attempt in He. destr_in He; try discriminate; injection He as <- <-.
  all: unfold next_tl_ok.
  all: try exact I.
  all: try (match goal with
            | H : enter_load _ _ _ = inl (?t, ?fs) |- tl_ok ?t ((?fs ++ ?ws) ++ ?w :: _) =>
                rewrite <- app_assoc; apply call_frames_tl_ok2;
                [eapply enter_load_tl; [exact H| cbn; lia | cbn; intros; apply Hn; lia | exact Hg]
                |cbn; repeat constructor; auto]
            | H : guard_drop_frames _ _ = ?f :: ?fs |- _ =>
                apply guard_drop_frames_shape in H; destruct H as (-> & Hgw & Hgi & Hgg);
                unfold tl_ok; cbn [app depth_of]; rewrite Hgw, Hgi, (not_waiting_not_bottom _ Hgw); cbn [is_bottom_frame in_with];
                repeat split; auto; try apply Hg; try (repeat constructor; auto; fail); try lia;
                try congruence; try (intros; apply Hn; lia)
            end).
  all: try (unfold tl_ok, tl_popped, ret_node_ok; cbn; repeat split; auto; try apply Hg;
            try (repeat constructor; auto; fail); try lia; try congruence;
            try (intros; apply Hn; lia); try (intros; congruence); fail).
Qed.

Definition setgen_ok (p : pc) : Prop :=
  match p with WGetSetGen g => N.land g TAG_MASK = 0 /\ g < WORD | _ => True end.

Lemma resume_tl cf l w rest v l' nx :
  tl_popped l (w :: rest) -> setgen_ok w ->
  match w with WExit (RNode _) => False | _ => True end ->
  ret_node_ok l v ->
  resume cf l w v = (l', nx) ->
  next_tl_ok l' rest nx.
Proof.
  intros (Hall & Hd & Hn & Hg) Hsg Hwe Hrv He. inversion Hall as [|? ? Hww Hrest]; subst.
  destruct w; cbn in Hww; try discriminate; unfold resume in He; cbn in Hd, Hn, Hsg, Hwe.
  all: destr_in He; try discriminate.
  all: try (match type of He with rcu_attempt _ _ _ _ _ _ = _ =>
              eapply rcu_attempt_tl; [exact Hrest| | |exact Hg|exact He]; [cbn in Hd; lia|intros; apply Hn; lia] end).
  all: try (injection He as <- <-).
  all: unfold next_tl_ok.
  all: try (match goal with |- True => exact I end).
  all: try (unfold dec_then; match goal with |- context [if ?b then _ else _] => destruct b end).
  all: cbn in Hrv.
  all: repeat match goal with
         | H : load_body _ _ _ = (_, _) |- _ => apply load_body_tl in H; [|cbn; exact Hg]
         end.
  all: try (match goal with
            | H : _ /\ _ /\ _ /\ match ?n with NGoto _ => _ | _ => _ end |- match ?n with _ => _ end =>
                destruct H as (Hd2 & Hn2 & Hg2 & Hnx);
                destruct n; try contradiction; try exact I;
                destruct Hnx as (Hw2 & Hin2 & Hget2);
                unfold tl_ok; rewrite Hw2; cbn [depth_of]; rewrite Hin2, (in_with_not_bottom _ Hin2); cbn in Hd2, Hn2; rewrite Hn2, Hd2;
                repeat split; auto; try apply Hg2; try lia; try congruence
            end).
  all: try (match goal with
            | H : enter_load _ _ _ = inl (?t, ?fs) |- tl_ok ?t ((?fs ++ ?ws) ++ ?w :: _) =>
                rewrite <- app_assoc; apply call_frames_tl_ok2;
                [eapply enter_load_tl; [exact H| cbn; lia | cbn; intros; apply Hn; lia | exact Hg]
                |cbn; repeat constructor; auto]
            | H : enter_load _ _ _ = inl (?t, ?fs) |- tl_ok ?t (?fs ++ ?w :: _) =>
                apply call_frames_tl_ok2;
                [eapply enter_load_tl; [exact H| cbn; lia | cbn; intros; apply Hn; lia | exact Hg]
                |cbn; repeat constructor; auto]
            | H : guard_drop_frames _ _ = ?f :: ?fs |- _ =>
                apply guard_drop_frames_shape in H; destruct H as (-> & Hgw & Hgi & Hgg);
                unfold tl_ok; cbn [app depth_of]; rewrite Hgw, Hgi, (not_waiting_not_bottom _ Hgw); cbn [is_bottom_frame in_with];
                repeat split; auto; try apply Hg; try (repeat constructor; auto; fail); try lia;
                try congruence; try (intros; apply Hn; lia)
            | H : guard_into_frames _ _ = ?f :: ?fs |- _ =>
                apply guard_into_frames_shape in H; destruct H as (-> & Hgw & Hgi & Hgg);
                unfold tl_ok; cbn [app depth_of]; rewrite Hgw, Hgi, (not_waiting_not_bottom _ Hgw); cbn [is_bottom_frame in_with];
                repeat split; auto; try apply Hg; try (repeat constructor; auto; fail); try lia;
                try congruence; try (intros; apply Hn; lia)
            end).
  all: try (unfold tl_ok, tl_popped, ret_node_ok; cbn; repeat split; auto; try apply Hg;
            try (repeat constructor; auto; fail); try lia; try congruence;
            try (intros; apply Hn; lia); try (intros; congruence);
            try (match goal with |- context [match ?r with RNode _ => _ | _ => _ end] => is_var r; destruct r; try exact I; try contradiction end); fail).
  - unfold pay_body. destruct (old =? 0); unfold tl_ok; cbn; repeat split; auto; try apply Hg; try lia; congruence.
  - split; [|exact I]. unfold tl_popped; cbn. repeat split; auto; try apply Hsg.
Qed.

(** ** Frames refer to existing nodes, well-formed control words and handover spaces *)
Definition mem_ok (bound : N) (m : loc -> N) : Prop :=
  m LHead = bound /\
  (forall n, n < bound -> ctl_ok (m (LCtrl n)) bound) /\
  (forall n, n < bound -> is_env (m (LOffer n)) bound).

Lemma is_env_mono v b b' : b <= b' -> is_env v b -> is_env v b'.
Proof. intros Hle (e & He & ->). exists e. split; [lia|reflexivity]. Qed.
Lemma is_repl_mono v b b' : b <= b' -> is_repl v b -> is_repl v b'.
Proof. intros Hle (e & He & ->). exists e. split; [lia|reflexivity]. Qed.
Lemma ctl_ok_mono v b b' : b <= b' -> ctl_ok v b -> ctl_ok v b'.
Proof. intros Hle [H|[H|H]]; [left|right; left|right; right]; auto. eapply is_repl_mono; eauto. Qed.

Lemma pc_nodes_ok_mono b b' p : b <= b' -> pc_nodes_ok b p -> pc_nodes_ok b' p.
Proof.
  intros Hle. destruct p; cbn; auto; try lia;
    try (intros (? & ?); split; [lia|auto]; fail);
    intuition (try lia; eauto using is_env_mono, ctl_ok_mono).
Qed.

Definition next_nodes_ok (bound : N) (nx : next) : Prop :=
  match nx with
  | NGoto p' => pc_nodes_ok bound p'
  | NPush fs w => Forall (pc_nodes_ok bound) fs /\ pc_nodes_ok bound w
  | NRet (RNode n) => n < bound
  | _ => True
  end.

Lemma is_gen_of_tag ctl : (N.land ctl TAG_MASK =? GEN_TAG) = true -> is_gen ctl.
Proof. intros H. apply N.eqb_eq in H. exact H. Qed.

Lemma help_dispatch_nodes cf l c old w ctl bound :
  w < bound -> next_nodes_ok bound (help_dispatch cf l c old w ctl).
Proof.
  intros Hw. unfold help_dispatch.
  repeat match goal with |- context [if ?b then _ else _] => destruct b eqn:? end; cbn; auto.
  all: try (split; [exact Hw|]; unfold HSLOT; lia).
  split; [exact Hw|]. apply is_gen_of_tag. assumption.
Qed.

Lemma fallback_entry_nodes cf l c l' p bound :
  fallback_entry cf l c = (l', NGoto p) -> pc_nodes_ok bound p.
Proof.
  unfold fallback_entry. destruct (tl_node l); [|discriminate]. destruct (cf_debug cf); intros [= <- <-]; exact I.
Qed.
Lemma gen_step_nodes cf l c l' p bound :
  gen_step cf l c = (l', NGoto p) -> pc_nodes_ok bound p.
Proof. unfold gen_step. destruct (_ && _); [discriminate|]. intros [= <- <-]. exact I. Qed.
Lemma load_body_nodes cf l c l' p bound :
  load_body cf l c = (l', NGoto p) -> pc_nodes_ok bound p.
Proof.
  unfold load_body. destruct (cf_use_fast cf); [intros [= <- <-]; exact I|apply fallback_entry_nodes].
Qed.

Lemma enter_load_nodes cf l c l' fs bound :
  enter_load cf l c = inl (l', fs) -> Forall (pc_nodes_ok bound) fs.
Proof.
  unfold enter_load. destruct (tl_node l).
  - destruct (load_body cf _ c) as [l2 nx] eqn:Hb. destruct nx; try discriminate.
    intros [= <- <-]. constructor; [|constructor]. eapply load_body_nodes; eauto.
  - intros [= <- <-]. repeat constructor.
Qed.

Lemma enter_pay_nodes l c old l' fs bound :
  enter_pay l c old = (l', fs) -> Forall (pc_nodes_ok bound) fs.
Proof.
  unfold enter_pay, pay_body. intros H. destr_in H; injection H as <- <-; repeat constructor; cbn; auto.
Qed.

Lemma guard_frames_nodes bound p d :
  Forall (pc_nodes_ok bound) (guard_drop_frames p d) /\ Forall (pc_nodes_ok bound) (guard_into_frames p d).
Proof.
  unfold guard_drop_frames, guard_into_frames. destruct d; [destruct (p =? 0)|destruct (p =? 0)]; repeat constructor.
Qed.

Lemma rc_inc_other s a s' evs l0 : rc_inc s a = Some (s', evs) -> (forall b, l0 <> LCount b) -> mem s' l0 = mem s l0.
Proof.
  unfold rc_inc. destruct (heap s a); [|discriminate]. intros [= <- <-] Hl. cbn. apply upd_other. apply Hl.
Qed.
Lemma rc_dec_other s a s' evs l0 : rc_dec s a = Some (s', evs) -> (forall b, l0 <> LCount b) -> mem s' l0 = mem s l0.
Proof.
  unfold rc_dec. destruct (heap s a); [|discriminate]. destruct (_ =? 1); intros [= <- <-] Hl; cbn; apply upd_other; apply Hl.
Qed.
Lemma rc_alloc_other s a s' evs l0 : rc_alloc s a = Some (s', evs) -> (forall b, l0 <> LCount b) -> mem s' l0 = mem s l0.
Proof.
  unfold rc_alloc. destruct (heap s a); [discriminate|]. destruct (valid_addr a); [|discriminate].
  intros [= <- <-] Hl. cbn. apply upd_other. apply Hl.
Qed.

Lemma with_exit_nodes l r l' nx bound :
  with_exit l r = (l', nx) -> (forall n, tl_node l = Some n -> n < bound) ->
  match r with RNode _ => False | _ => True end ->
  next_nodes_ok bound nx.
Proof.
  unfold with_exit. intros H Hn Hr. destr_in H; injection H as <- <-; cbn.
  - split; [|destruct r; try exact I; contradiction]. constructor; [|constructor]. cbn. apply Hn. assumption.
  - destruct r; auto; contradiction.
  - destruct r; auto; contradiction.
Qed.

Lemma after_slot_nodes c old w j bound : w < bound -> j <= HSLOT ->
  next_nodes_ok bound (after_slot c old w j).
Proof.
  intros Hw Hj. unfold after_slot. destruct (j =? HSLOT) eqn:E; cbn; [exact Hw|].
  apply N.eqb_neq in E. split; [exact Hw|lia].
Qed.

Lemma Forall_nodes_app bound a b :
  Forall (pc_nodes_ok bound) a -> Forall (pc_nodes_ok bound) b -> Forall (pc_nodes_ok bound) (a ++ b).
Proof. intros. apply Forall_app. split; assumption. Qed.

Lemma fallback_entry_next_nodes cf l c l' nx bound :
  fallback_entry cf l c = (l', nx) -> next_nodes_ok bound nx.
Proof.
  unfold fallback_entry. destruct (tl_node l); [destruct (cf_debug cf)|]; intros [= <- <-]; exact I.
Qed.
Lemma gen_step_next_nodes cf l c l' nx bound :
  gen_step cf l c = (l', nx) -> next_nodes_ok bound nx.
Proof. unfold gen_step. destruct (_ && _); intros [= <- <-]; exact I. Qed.

Lemma node_init_head s n : mem (node_init s n) LHead = mem s LHead.
Proof. unfold node_init. cbn. repeat (rewrite upd_other by discriminate). reflexivity. Qed.

Ltac head_simp :=
  cbn [mem m_set] in *;
  repeat match goal with
  | |- context [upd _ ?k _ LHead] => rewrite (upd_other _ k LHead) by discriminate
  | H : rc_inc _ _ = Some (?s0, _) |- context [mem ?s0 LHead] => rewrite (rc_inc_other _ _ _ _ LHead H) by discriminate
  | H : rc_dec _ _ = Some (?s0, _) |- context [mem ?s0 LHead] => rewrite (rc_dec_other _ _ _ _ LHead H) by discriminate
  | H : rc_alloc _ _ = Some (?s0, _) |- context [mem ?s0 LHead] => rewrite (rc_alloc_other _ _ _ _ LHead H) by discriminate
  end.

Lemma exec_nodes cf s l p x s' l' evs nx :
  mem_ok (mem s LHead) (mem s) ->
  pc_nodes_ok (mem s LHead) p ->
  (forall n, tl_node l = Some n -> n < mem s LHead) ->
  (in_with p = true -> tl_node l <> None) ->
  exec cf s l p x = (s', l', evs, nx) ->
  next_nodes_ok (mem s' LHead) nx.
Proof.
  intros (Hhead & Hctl & Hoff) Hp Hnode Hwith He.
  destruct p; unfold exec in He;
    unfold a_load, a_store, a_swap, a_cas, a_fadd, a_fsub in He; cbn in He; cbn in Hp, Hwith.
  all: destr_in He; try discriminate.
  all: try (injection He as <- <- <- <-).
  all: unfold next_nodes_ok.
  all: try (match goal with |- True => exact I end).
  all: head_simp.
  all: repeat match goal with
         | H : with_exit _ ?r = (_, _) |- _ =>
             eapply (with_exit_nodes _ _ _ _ (mem s LHead)) in H; [|exact Hnode|exact I]
         end.
  all: try (match goal with
            | H : fallback_entry _ _ _ = (_, ?n) |- match ?n with _ => _ end =>
                exact (fallback_entry_next_nodes _ _ _ _ _ _ H)
            | H : gen_step _ _ _ = (_, ?n) |- match ?n with _ => _ end =>
                exact (gen_step_next_nodes _ _ _ _ _ _ H)
            end).
  all: try (match goal with H : next_nodes_ok _ ?n |- match ?n with _ => _ end => exact H end).
  all: try (apply help_dispatch_nodes; tauto).
  all: try (apply after_slot_nodes; tauto).
  all: try (unfold dec_then; match goal with |- context [if ?b then _ else _] => destruct b end; cbn; exact I).
  all: try (match goal with |- context [match ?r with RNode _ => _ | _ => _ end] => is_var r; destruct r; try exact I end).
  all: repeat match goal with
         | H : (_ =? _) = false |- _ => apply N.eqb_neq in H
         | H : (_ =? _) = true |- _ => apply N.eqb_eq in H
         end.
  all: try (match goal with
            | |- Forall _ _ /\ _ => split; [|cbn; try tauto]
            end).
  all: try (match goal with
            | H : enter_load _ _ _ = inl (_, ?fs) |- Forall _ (?fs ++ _) =>
                apply Forall_nodes_app; [eapply enter_load_nodes; exact H|repeat constructor]
            | H : enter_load _ _ _ = inl (_, ?fs) |- Forall _ ?fs => eapply enter_load_nodes; exact H
            | H : enter_pay _ _ _ = (_, ?fs) |- Forall _ ?fs => eapply enter_pay_nodes; exact H
            | H : guard_drop_frames ?p ?d = ?fs |- Forall _ ?fs => rewrite <- H; apply guard_frames_nodes
            end).
  all: try (cbn; rewrite ?node_init_head; cbn; rewrite ?upd_same; unfold node_val, HSLOT, SLOT_CNT in *;
            first [ exact I | tauto | lia
                  | intuition (try lia; eauto)
                  ]; fail).
  - rewrite node_init_head. cbn [mem m_set]. rewrite upd_same. unfold node_val. lia.
  - cbn. destruct Hp as (Hw & Hgen & Hthe). repeat split; auto.
    unfold own_node. destruct (tl_node l) as [n|] eqn:Hn; [|exfalso; apply Hwith; reflexivity].
    apply Hoff. apply Hnode. reflexivity.
Qed.


Lemma load_body_next_nodes cf l c l' nx bound :
  load_body cf l c = (l', nx) -> next_nodes_ok bound nx.
Proof.
  unfold load_body. destruct (cf_use_fast cf); [intros [= <- <-]; exact I|apply fallback_entry_next_nodes].
Qed.

Lemma rcu_attempt_nodes cf l c m p d l' nx bound :
  rcu_attempt cf l c m p d = (l', nx) -> next_nodes_ok bound nx.
Proof.
  intros He. unfold rcu_attempt in He. destr_in He; try discriminate; injection He as <- <-; unfold next_nodes_ok; try exact I.
  all: try (split; [|exact I]).
  all: try (match goal with
            | H : enter_load _ _ _ = inl (_, ?fs) |- Forall _ (?fs ++ _) =>
                apply Forall_nodes_app; [eapply enter_load_nodes; exact H|repeat constructor]
            | H : guard_drop_frames ?p ?d = ?fs |- Forall _ ?fs => rewrite <- H; apply guard_frames_nodes
            end).
Qed.

Lemma resume_nodes cf l w v l' nx bound :
  pc_nodes_ok bound w ->
  match v with RNode n => n < bound | _ => True end ->
  resume cf l w v = (l', nx) ->
  next_nodes_ok bound nx.
Proof.
  intros Hp Hv He. destruct w; unfold resume in He; cbn in Hp.
  all: destr_in He; try discriminate.
  all: try (match type of He with rcu_attempt _ _ _ _ _ _ = _ => eapply rcu_attempt_nodes; exact He end).
  all: try (injection He as <- <-).
  all: unfold next_nodes_ok.
  all: try (match goal with |- True => exact I end).
  all: try (match goal with
            | H : load_body _ _ _ = (_, ?n) |- match ?n with _ => _ end =>
                exact (load_body_next_nodes _ _ _ _ _ _ H)
            end).
  all: try (unfold dec_then; match goal with |- context [if ?b then _ else _] => destruct b end; cbn; exact I).
  all: try (match goal with
            | |- Forall _ _ /\ _ => split; [|cbn; try tauto]
            end).
  all: try (match goal with
            | H : enter_load _ _ _ = inl (_, ?fs) |- Forall _ (?fs ++ _) =>
                apply Forall_nodes_app; [eapply enter_load_nodes; exact H|repeat constructor]
            | H : enter_load _ _ _ = inl (_, ?fs) |- Forall _ ?fs => eapply enter_load_nodes; exact H
            | H : guard_drop_frames ?p ?d = ?fs |- Forall _ ?fs => rewrite <- H; apply guard_frames_nodes
            | H : guard_into_frames ?p ?d = ?fs |- Forall _ ?fs => rewrite <- H; apply guard_frames_nodes
            end).
  all: try (cbn; unfold pay_body; first [ exact I | tauto | destruct (_ =? 0); exact I ]; fail).
  - destruct r; try exact I; contradiction.
  - match goal with H : guard_into_frames ?p ?d = _ |- _ =>
      pose proof (proj2 (guard_frames_nodes bound p d)) as HF; rewrite H in HF; inversion HF; assumption end.
Qed.


(** ** Whole stacks *)
Definition stk_ok (bound : N) (l : tlocal) (stk : list pc) : Prop :=
  tl_ok l stk /\ Forall (pc_nodes_ok bound) stk.
Definition popped_ok (bound : N) (l : tlocal) (rest : list pc) : Prop :=
  tl_popped l rest /\ Forall (pc_nodes_ok bound) rest.
Definition ret_ok (bound : N) (v : retval) : Prop :=
  match v with RNode n => n < bound | _ => True end.

Lemma nodes_ok_setgen bound w : pc_nodes_ok bound w -> setgen_ok w.
Proof. destruct w; cbn; auto. Qed.
Lemma nodes_ok_wexit bound w : pc_nodes_ok bound w -> match w with WExit (RNode _) => False | _ => True end.
Proof. destruct w; cbn; auto. Qed.

Lemma unwind_ok cf bound : forall rest l v,
  popped_ok bound l rest -> ret_ok bound v -> ret_node_ok l v ->
  match unwind cf l rest v with
  | UStack l' stk => stk_ok bound l' stk
  | UDone l' _ _ => tl_ok l' []
  | _ => True
  end.
Proof.
  induction rest as [|w rest IH]; intros l v (Hp & Hf) Hv Hrn.
  - cbn. destruct Hp as (_ & Hd & _ & Hg). split; assumption.
  - inversion Hf as [|? ? Hw Hrest]; subst.
    assert (Hdone : is_bottom_frame w = true -> tl_ok l []).
    { intros Hb. destruct Hp as (_ & Hd & _ & Hg). cbn in Hd. rewrite Hb in Hd. split; assumption. }
    destruct w; try (cbn; apply Hdone; reflexivity); try exact I.
    all: cbn [unwind];
      match goal with |- context [resume ?cf0 ?l0 ?w ?v0] => destruct (resume cf0 l0 w v0) as [l' nx] eqn:Hr end;
      pose proof (resume_tl _ _ _ _ _ _ _ Hp (nodes_ok_setgen _ _ Hw) (nodes_ok_wexit _ _ Hw) Hrn Hr) as Htl;
      pose proof (resume_nodes _ _ _ _ _ _ _ Hw Hv Hr) as Hnd;
      destruct nx as [p'|fs w'|v'|ps|f]; cbn in Htl, Hnd; try exact I.
    all: try (split; [exact Htl|constructor; assumption]).
    all: try (split; [exact Htl|]; destruct Hnd as [Hfs Hw']; apply Forall_app; split; [exact Hfs|constructor; assumption]).
    all: try (destruct Htl as [Htl Hrn']; apply IH; [split; assumption| |exact Hrn']; destruct v'; exact I || exact Hnd).
Qed.

Lemma gen_sanitize g0 : gen_ok (tl_set_gen tl_init ((g0 - g0 mod 4) mod WORD)).
Proof.
  unfold gen_ok; cbn [tl_gen tl_set_gen]. rewrite land3_mod4. split; [|apply N.mod_upper_bound; discriminate].
  unfold WORD. zify. Z.div_mod_to_equations. lia.
Qed.

Lemma cmd_start_ok cf s l c s' l' stk r bound :
  tl_ok l [] ->
  cmd_start cf s l c = inl (s', l', stk, r) ->
  stk_ok bound l' stk.
Proof.
  intros (Hd & Hg) Hc.
  assert (Hsan : forall g0, N.land ((g0 - g0 mod 4) mod WORD) TAG_MASK = 0 /\ (g0 - g0 mod 4) mod WORD < WORD).
  { intros g0. exact (gen_sanitize g0). }
  destruct c; cbn in Hc; destr_in Hc; try discriminate; injection Hc as <- <- <- <-.
  all: try (split; [split; assumption|constructor]; fail).
  all: try (match goal with
            | H : enter_load _ _ _ = inl (?t, ?fs) |- stk_ok _ ?t (?fs ++ ?ws) =>
                split;
                [apply call_frames_tl_ok2;
                 [eapply enter_load_tl; [exact H| cbn; lia | cbn; intros; lia | exact Hg]
                 |cbn; repeat constructor; auto]
                |apply Forall_nodes_app; [eapply enter_load_nodes; exact H|repeat constructor]]
            | H : enter_pay _ _ _ = (?t, ?fs) |- stk_ok _ ?t (?fs ++ ?ws) =>
                split;
                [apply call_frames_tl_ok2;
                 [eapply enter_pay_tl; [exact H| cbn; lia | cbn; intros; lia | exact Hg]
                 |cbn; repeat constructor; auto]
                |apply Forall_nodes_app; [eapply enter_pay_nodes; exact H|repeat constructor]]
            end; fail).
  all: try (split; [unfold tl_ok; cbn; repeat split; auto; try apply Hg; try (repeat constructor; auto; fail);
                    try lia; try congruence; try apply Hsan
                   |repeat constructor; cbn; auto; try apply Hsan]; fail).
  all: match goal with
       | H : guard_drop_frames ?a ?d = ?f :: ?fs |- _ =>
           pose proof (proj1 (guard_frames_nodes bound a d)) as HF; rewrite H in HF;
           apply guard_drop_frames_shape in H; destruct H as (-> & Hgw & Hgi & Hgg)
       | H : guard_into_frames ?a ?d = ?f :: ?fs |- _ =>
           pose proof (proj2 (guard_frames_nodes bound a d)) as HF; rewrite H in HF;
           apply guard_into_frames_shape in H; destruct H as (-> & Hgw & Hgi & Hgg)
       end.
  all: split; [unfold tl_ok; cbn [app depth_of]; rewrite Hgw, Hgi, (not_waiting_not_bottom _ Hgw); cbn;
               repeat split; auto; try apply Hg; try (repeat constructor; auto; fail); try lia; try congruence
              |cbn [app]; inversion HF; subst; repeat constructor; auto].
Qed.

