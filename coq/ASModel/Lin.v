(** * ASModel.Lin — C03: every load returns a value that its container held at some instant
    between the call and the return.

    [LinInv2] (Lin1) is the corrected form of [LinDefs.LinInv]; it holds initially and is
    preserved by every instrumented step ([gstep_LinInv2]) under the invariants proved
    elsewhere ([WF2], [Quiet], [GenInv]), the run hypothesis [Calm], and the two envelope
    properties [EnvFree], [EnvA] (assumed here; they are the subject of the Env files).  [load_returns_fresh] is the
    statement for the completing step of a [CLoad] / [CLoadFull]; [load_linearizable] is the
    statement about runs from an initial state. *)
From Coq Require Import Lia.
From ASModel Require Import Base State Orderings_gen Step Run Progress Hist Inv InvTl InvProto InvStep Sum StepCases
  GenDefs Gen1 Gen2 Gen3 Gen EnvDefs LinDefs
  Lin1 Lin2 Lin3 Lin4 Lin5 Lin6 Lin7 Lin8 Lin9 Lin10 Lin11 Lin12 Lin13 Lin14.

(** ** The initial state *)
Theorem LinInv2_init inits progs : LinInv2 (init_state inits progs) ghost0.
Proof.
  assert (Hth : forall t0, t_stack (thr (init_state inits progs) t0) = []).
  { intros t0. cbn. apply init_threads_stack. cbn. auto. }
  constructor.
  - apply LtFresh_init.
  - intros t c0 _. rewrite Hth. constructor.
  - intros t f1 f2 c1 c2 H. rewrite Hth in H. destruct H.
  - intros t c h _ _. left. apply Hth.
  - intros t. rewrite Hth. split; [exact I|discriminate].
  - intros t n _ _ H. exfalso. apply H. unfold req_of. rewrite Hth. reflexivity.
  - intros t f H. rewrite Hth in H. destruct H.
  - intros w th c' gt _ H. unfold req_of in H. rewrite Hth in H. discriminate.
Qed.

(** ** One instrumented step *)
Theorem gstep_LinInv2 cf s g t x :
  WF2 s -> Calm s -> Quiet s -> GenInv s -> EnvFree s -> EnvA s -> LinInv2 s g ->
  NoFault (fst (step cf s t x)) ->
  LinInv2 (fst (gstep cf (s, g) t x)) (snd (gstep cf (s, g) t x)).
Proof.
  intros W Hc Q GI EF EA [LF CA CP LB ZV PF HF AN] Hnf. rewrite gstep_fst. constructor.
  - apply LtFresh_step. exact LF.
  - apply step_ContAll; assumption.
  - apply step_ContPair; assumption.
  - apply step_LdBot; assumption.
  - apply step_ZoneInv; assumption.
  - apply step_PubFresh; assumption.
  - apply step_HelpFresh; assumption.
  - apply step_Answered; assumption.
Qed.

(** ** The step that completes a load *)
Lemma unwind_stack_nonempty cf : forall rest l v l' stk, unwind cf l rest v = UStack l' stk -> stk <> [].
Proof.
  induction rest as [|w rest IH]; intros l v l' stk H; [discriminate|].
  destruct w; cbn [unwind] in H; try discriminate H.
  all: match type of H with context [resume ?cf0 ?l0 ?w0 ?v0] =>
         destruct (resume cf0 l0 w0 v0) as [l2 nx] eqn:Hr end.
  all: destruct nx as [p'|fs w'|v'|ps|f]; try discriminate H.
  all: try (injection H as _ <-; try discriminate; destruct fs; discriminate).
  all: eapply IH; exact H.
Qed.

Definition is_load_of (cm : cmd) (c h : N) : Prop := cm = CLoad c h \/ cm = CLoadFull c h.

Theorem load_returns_fresh cf s g t x cm c h :
  WF2 s -> Calm s -> Quiet s -> GenInv s -> EnvFree s -> EnvA s -> LinInv2 s g ->
  NoFault (fst (step cf s t x)) ->
  cur_cmd s t = Some cm -> is_load_of cm c h ->
  t_cmdi (thr (fst (step cf s t x)) t) = t_cmdi (thr s t) + 1 ->
  let s' := fst (step cf s t x) in
  let g' := snd (gstep cf (s, g) t x) in
  exists rv, hnd s' h = handle_of rv /\ t_stack (thr s' t) = [] /\ g_start g' t = g_start g t /\
             (forall v, rval rv = Some v -> (g_lt g' c v >= g_start g' t)%nat) /\
             (forall K, LdTyped s -> load_kind cm = Some K -> kind_of rv = Some K).
Proof.
  intros W Hc Q GI EF EA [LF CA CP LB ZV PF HF AN] Hnf Hcm Hld Hci. cbn zeta.
  assert (Hl : ld s t = true) by (unfold ld; rewrite Hcm; destruct Hld as [-> | ->]; reflexivity).
  assert (Hcc : cur_cont0 s t = Some c) by (unfold cur_cont0; rewrite Hcm; destruct Hld as [-> | ->]; reflexivity).
  assert (Hdst : load_dst cm = Some h) by (destruct Hld as [-> | ->]; reflexivity).
  destruct (step_cases2 cf s t x) as [Hr E|c0 Hr Hs Hcc0 Hen E|c0 s1 l1 stk r Hr Hs Hcc0 Hen Hcs E|n Hr Hs Hcc0 Hn E|Hr Hs Hcc0 Hn E|p rest s1 l1 evs nx Hr Hs He E];
    try (exfalso; rewrite E in Hci; cbn in Hci; rewrite ?upd_same in Hci; cbn in Hci; lia).
  - exfalso. rewrite Hcm in Hcc0. injection Hcc0 as <-.
    destruct (cmd_start_bot _ _ _ _ _ _ _ _ _ Hcs Hdst) as (pre & ->).
    rewrite E in Hci. cbn in Hci. rewrite upd_same in Hci. destruct pre; cbn in Hci; lia.
  - pose proof (ex_thr cf s t x rest s1 l1 nx E) as Et.
    destruct (exec_settle _ _ _ _ _ _ _ _ _ _ W Hnf Hr Hs He) as [Hns Hset].
    assert (Hz : inz (ld s t) rest) by (left; exact Hl).
    destruct (zone_pre cf s g t x W LF CA CP ZV p rest s1 l1 evs nx Hr Hs He E Hz) as ([_ Hrv] & HZ & Hst).
    rewrite Hl in HZ.
    pose proof (q_bl _ Q t) as Hbl. rewrite Hs in Hbl. destruct Hbl as [_ Hbl].
    destruct (LB t cm h Hcm Hdst) as [Hx|(pre & Hpre)]; [congruence|]. rewrite Hs in Hpre.
    destruct (running_stk_ok s t W Hr) as [Htl _]. rewrite Hs in Htl. destruct Htl as (Hnw & _).
    assert (Hrest : exists pre', rest = pre' ++ [KDone (Some h)]).
    { destruct pre as [|q pre]; [injection Hpre as -> _; discriminate Hnw|]. injection Hpre as _ ->. eauto. }
    rewrite Et in Hci. unfold thread_after in Hci.
    destruct nx as [p'|fs w'|v0|ps|f]; cbn in Hci; try lia.
    pose proof (unwind_ld cf (Pm cf s g t x) rest l1 v0 HZ (Hrv v0 eq_refl) Hbl) as Hu.
    destruct (unwind cf l1 rest v0) as [l2 stk2|l2 dst rv|l2|l2 ps|l2 f] eqn:Hun; cbn in Hci; try lia.
    destruct Hu as [Hv Hd]. specialize (Hd h Hrest). subst dst.
    exists rv. split; [|split; [|split; [|split]]].
    + rewrite E. cbn. rewrite Hun. apply upd_same.
    + rewrite Et. unfold thread_after. rewrite Hun. reflexivity.
    + apply (g_start_same cf s g t x Hst).
    + intros v Hrvv. apply (Hv v Hrvv c). left. split; assumption.
    + intros K LT HK. pose proof (LT t cm K Hcm HK) as Hty. rewrite Hs in Hty.
      assert (Hkp : ret_kind p <> None).
      { cbn [tstk] in Hty. rewrite (proj2 (not_waiting_not_help _ Hnw)) in Hty. apply Hty. }
      destruct (ret_kind p) as [k|] eqn:Hk; [|congruence].
      pose proof (exec_kind _ _ _ _ _ _ _ _ _ _ He Hk) as Hnk. cbn in Hnk.
      pose proof (unwind_typed cf p rest K l1 v0 k Hty Hnw Hk Hnk) as Hut. rewrite Hun in Hut. exact Hut.
Qed.


(** The same, read off the handle: whatever pointer the completed load left in its handle was
    current in the container after the command started. *)
Definition handle_ptr (hv : handle) : option N :=
  match hv with HGuard v _ | HOwned v => Some v | _ => None end.

Lemma handle_ptr_rval rv : handle_ptr (handle_of rv) = rval rv.
Proof. destruct rv; reflexivity. Qed.

Corollary load_handle_fresh cf s g t x cm c h v :
  WF2 s -> Calm s -> Quiet s -> GenInv s -> EnvFree s -> EnvA s -> LinInv2 s g ->
  NoFault (fst (step cf s t x)) ->
  cur_cmd s t = Some cm -> is_load_of cm c h ->
  t_cmdi (thr (fst (step cf s t x)) t) = t_cmdi (thr s t) + 1 ->
  handle_ptr (hnd (fst (step cf s t x)) h) = Some v ->
  (g_lt (snd (gstep cf (s, g) t x)) c v >= g_start g t)%nat.
Proof.
  intros W Hc Q GI EF EA LI Hnf Hcm Hld Hci Hv.
  destruct (load_returns_fresh cf s g t x cm c h W Hc Q GI EF EA LI Hnf Hcm Hld Hci) as (rv & Hh & _ & Hst & Hfr & _).
  rewrite Hh, handle_ptr_rval in Hv. specialize (Hfr v Hv). lia.
Qed.

(** ** Runs *)
Definition prefix_ok (P : state -> Prop) (cf : config) (s0 : state) (sched : list (N * N)) : Prop :=
  forall k, P (run_state cf s0 (firstn k sched)).

Lemma prefix_ok_firstn P cf s0 sched m : prefix_ok P cf s0 sched -> prefix_ok P cf s0 (firstn m sched).
Proof. intros H k. rewrite firstn_firstn. apply H. Qed.

Lemma prefix_ok_all P cf s0 sched : prefix_ok P cf s0 sched -> P (run_state cf s0 sched).
Proof. intros H. specialize (H (length sched)). rewrite firstn_all in H. exact H. Qed.

Lemma prefix_ok_snoc P cf s0 sched tx : prefix_ok P cf s0 (sched ++ [tx]) -> prefix_ok P cf s0 sched.
Proof.
  intros H. replace sched with (firstn (length sched) (sched ++ [tx])).
  - apply prefix_ok_firstn. exact H.
  - rewrite firstn_app, firstn_all, Nat.sub_diag. cbn. apply app_nil_r.
Qed.

Section Run.
  Variables (cf : config) (inits : list N) (progs : list (list cmd)).
  Local Notation s0 := (init_state inits progs).
  Hypothesis Hprogs : forall p, In p progs -> forall g, ~ In (CSetGen g) p.

  Lemma run_LinInv2 : forall sched,
    prefix_ok Calm cf s0 sched -> prefix_ok EnvFree cf s0 sched -> prefix_ok EnvA cf s0 sched ->
    NoFault (run_state cf s0 sched) ->
    LinInv2 (run_state cf s0 sched) (snd (grun cf (s0, ghost0) sched)).
  Proof.
    induction sched as [|tx sched IH] using rev_ind; intros Hc He Ha Hnf; [apply LinInv2_init|].
    pose proof (prefix_ok_snoc _ _ _ _ _ Hc) as Hc1. pose proof (prefix_ok_snoc _ _ _ _ _ He) as He1.
    pose proof (prefix_ok_snoc _ _ _ _ _ Ha) as Ha1.
    rewrite run_state_snoc in Hnf. pose proof (NoFault_back _ _ _ _ Hnf) as Hnf1.
    specialize (IH Hc1 He1 Ha1 Hnf1).
    destruct (run_GenInvQ cf sched s0 (GenInvQ_init inits progs Hprogs) Hc1 Hnf1) as [W Q GI].
    rewrite run_state_snoc, grun_snoc.
    destruct (grun cf (s0, ghost0) sched) as [s1 g1] eqn:Hg.
    assert (Hs1 : s1 = run_state cf s0 sched) by (rewrite <- (grun_fst cf sched s0 ghost0), Hg; reflexivity).
    subst s1. cbn [snd] in IH.
    change (fst (step cf (run_state cf s0 sched) (fst tx) (snd tx)))
      with (fst (gstep cf (run_state cf s0 sched, g1) (fst tx) (snd tx))).
    apply gstep_LinInv2; try assumption.
    - apply prefix_ok_all. exact Hc1.
    - apply prefix_ok_all. exact He1.
    - apply prefix_ok_all. exact Ha1.
  Qed.

  Lemma grun_LtFresh : forall sched s g, LtFresh s g ->
    LtFresh (fst (grun cf (s, g) sched)) (snd (grun cf (s, g) sched)).
  Proof.
    induction sched as [|[t x] sched IH]; intros s g H; [exact H|].
    rewrite grun_cons. pose proof (LtFresh_step cf s g t x H) as H1.
    destruct (gstep cf (s, g) t x) as [s1 g1] eqn:E.
    assert (E1 : s1 = fst (step cf s t x)) by (rewrite <- (gstep_fst cf s g t x), E; reflexivity).
    subst s1. apply IH. exact H1.
  Qed.

  Lemma grun_start_mono : forall sched s g t, LtFresh s g ->
    (g_start g t <= g_start (snd (grun cf (s, g) sched)) t)%nat.
  Proof.
    induction sched as [|[t0 x] sched IH]; intros s g t H; [cbn; lia|].
    rewrite grun_cons. pose proof (LtFresh_step cf s g t0 x H) as H1.
    pose proof (proj1 (g_start_le cf s g t0 x H t)) as H2.
    destruct (gstep cf (s, g) t0 x) as [s1 g1] eqn:E.
    assert (E1 : s1 = fst (step cf s t0 x)) by (rewrite <- (gstep_fst cf s g t0 x), E; reflexivity).
    subst s1. cbn [fst snd] in *. pose proof (IH _ g1 t H1). lia.
  Qed.

  Lemma run_prog : forall sched s t, t_prog (thr (run_state cf s sched) t) = t_prog (thr s t).
  Proof.
    induction sched as [|[t0 x] sched IH]; intros s t; [reflexivity|].
    rewrite run_state_cons, IH. apply step_prog.
  Qed.
End Run.

Lemma firstn_succ_nth {A} (l : list A) : forall n a, nth_error l n = Some a -> firstn (S n) l = firstn n l ++ [a].
Proof.
  induction l as [|b l IH]; intros [|n] a H; try discriminate H.
  - injection H as ->. reflexivity.
  - change (firstn (S (S n)) (b :: l)) with (b :: firstn (S n) l). cbn [nth_error] in H.
    rewrite (IH n a H). reflexivity.
Qed.

Lemma firstn_split {A} (l : list A) : forall j k, (j <= k)%nat -> firstn k l = firstn j l ++ firstn (k - j) (skipn j l).
Proof.
  induction l as [|b l IH]; intros j k H.
  - rewrite !firstn_nil, skipn_nil, firstn_nil. reflexivity.
  - destruct j as [|j]; [rewrite Nat.sub_0_r; reflexivity|]. destruct k as [|k]; [lia|].
    cbn. rewrite (IH j k) by lia. reflexivity.
Qed.

Lemma run_state_app cf s a b : run_state cf s (a ++ b) = run_state cf (run_state cf s a) b.
Proof. unfold run_state. apply fold_left_app. Qed.

Lemma grun_app cf sg a b : grun cf sg (a ++ b) = grun cf (grun cf sg a) b.
Proof. unfold grun. apply fold_left_app. Qed.

Lemma NoFault_prefix cf s sched k : NoFault (run_state cf s sched) -> NoFault (run_state cf s (firstn k sched)).
Proof.
  intros H. rewrite <- (firstn_skipn k sched), run_state_app in H. eapply NoFault_run_back. exact H.
Qed.

Lemma run_LdTyped cf : forall sched s, WF2 s -> LdTyped s -> NoFault (run_state cf s sched) ->
  LdTyped (run_state cf s sched).
Proof.
  induction sched as [|[t x] sched IH]; intros s W LT Hnf; [exact LT|].
  rewrite run_state_cons in *. apply IH; [apply step_WF2; exact W| |exact Hnf].
  apply step_LdTyped; [exact W| |exact LT]. eapply NoFault_run_back. exact Hnf.
Qed.

Section Run2.
  Variables (cf : config) (inits : list N) (progs : list (list cmd)).
  Local Notation s0 := (init_state inits progs).
  Hypothesis Hprogs : forall p, In p progs -> forall g, ~ In (CSetGen g) p.
  Variable sched : list (N * N).
  Hypotheses (Hcalm : prefix_ok Calm cf s0 sched) (Henvf : prefix_ok EnvFree cf s0 sched)
             (Henva : prefix_ok EnvA cf s0 sched) (Hnf : NoFault (run_state cf s0 sched)).
  Local Notation St k := (run_state cf s0 (firstn k sched)).
  Local Notation Gh k := (snd (grun cf (s0, ghost0) (firstn k sched))).

  Lemma St_succ k t x : nth_error sched k = Some (t, x) -> St (S k) = fst (step cf (St k) t x).
  Proof. intros H. rewrite (firstn_succ_nth _ _ _ H), run_state_snoc. reflexivity. Qed.

  Lemma Gh_succ k t x : nth_error sched k = Some (t, x) -> Gh (S k) = snd (gstep cf (St k, Gh k) t x).
  Proof.
    intros H. rewrite (firstn_succ_nth _ _ _ H), grun_snoc.
    destruct (grun cf (s0, ghost0) (firstn k sched)) as [s1 g1] eqn:Hg.
    assert (Hs1 : s1 = St k) by (rewrite <- (grun_fst cf (firstn k sched) s0 ghost0), Hg; reflexivity).
    subst s1. reflexivity.
  Qed.

  Lemma Gh_now k : (k <= length sched)%nat -> g_now (Gh k) = k.
  Proof. intros H. rewrite grun_now. cbn. rewrite firstn_length. lia. Qed.

  Lemma Gh_LtFresh k : LtFresh (St k) (Gh k).
  Proof.
    rewrite <- (grun_fst cf (firstn k sched) s0 ghost0). apply grun_LtFresh. apply LtFresh_init.
  Qed.

  Lemma Gh_start_mono j k t : (j <= k)%nat -> (g_start (Gh j) t <= g_start (Gh k) t)%nat.
  Proof.
    intros H. rewrite (firstn_split sched j k H), grun_app.
    pose proof (Gh_LtFresh j) as HL.
    destruct (grun cf (s0, ghost0) (firstn j sched)) as [s1 g1] eqn:Hg.
    assert (Hs1 : s1 = St j) by (rewrite <- (grun_fst cf (firstn j sched) s0 ghost0), Hg; reflexivity).
    subst s1. cbn [snd] in *. apply grun_start_mono. exact HL.
  Qed.

  (** Command number [i] of thread [t] is a load of container [c] into handle [h].  Its CMD step
      is the step at position [pa] of the schedule (the thread is idle before it, at command
      [i]); the step at position [pb] completes it (the thread's command index advances to
      [i + 1]).  Then the handle receives a value [rv], and the pointer it carries was the
      content of the storage of [c] in one of the states after the steps [pa] .. [pb]. *)
  Theorem load_linearizable t i cm c h pa pb xa tb xb :
    nth_error (t_prog (thr s0 t)) (N.to_nat i) = Some cm -> is_load_of cm c h ->
    (pa <= pb)%nat ->
    nth_error sched pa = Some (t, xa) ->
    t_status (thr (St pa) t) = Running -> t_stack (thr (St pa) t) = [] -> t_cmdi (thr (St pa) t) = i ->
    nth_error sched pb = Some (tb, xb) ->
    t_cmdi (thr (St pb) t) = i -> t_cmdi (thr (St (S pb)) t) = i + 1 ->
    exists rv, hnd (St (S pb)) h = handle_of rv /\
      forall v, rval rv = Some v ->
        exists k, (pa + 1 <= k <= pb + 1)%nat /\ mem (sh (St k)) (LStore c) = v.
  Proof.
    intros Hcm Hld Hab Ha Hra Hsa Hia Hb Hib Hib'.
    assert (Hlen : (pb < length sched)%nat) by (apply nth_error_Some; congruence).
    rewrite (St_succ pb tb xb Hb) in Hib'.
    assert (tb = t) as ->.
    { destruct (N.eq_dec tb t) as [E|E]; [exact E|]. rewrite step_status_other in Hib' by congruence. lia. }
    (* the invariants hold before step [pb] *)
    pose proof (NoFault_prefix cf s0 sched (S pb) Hnf) as Hnf1. rewrite (St_succ pb t xb Hb) in Hnf1.
    pose proof (NoFault_back _ _ _ _ Hnf1) as Hnf0.
    destruct (run_GenInvQ cf (firstn pb sched) s0 (GenInvQ_init inits progs Hprogs)
                (prefix_ok_firstn _ _ _ _ pb Hcalm) Hnf0) as [W Q GI].
    pose proof (run_LinInv2 cf inits progs Hprogs (firstn pb sched) (prefix_ok_firstn _ _ _ _ pb Hcalm)
                  (prefix_ok_firstn _ _ _ _ pb Henvf) (prefix_ok_firstn _ _ _ _ pb Henva) Hnf0) as LI.
    assert (Hcur : cur_cmd (St pb) t = Some cm).
    { unfold cur_cmd. rewrite run_prog, Hib. exact Hcm. }
    rewrite <- Hib in Hib'.
    destruct (load_returns_fresh cf (St pb) (Gh pb) t xb cm c h W (Hcalm pb) Q GI (Henvf pb) (Henva pb) LI Hnf1 Hcur Hld Hib')
      as (rv & Hh & _ & Hst & Hfr & _).
    rewrite <- (St_succ pb t xb Hb) in Hh. rewrite <- (Gh_succ pb t xb Hb) in Hst, Hfr.
    exists rv. split; [exact Hh|]. intros v Hv. specialize (Hfr v Hv).
    (* the load started at time [pa + 1] *)
    assert (Hstart : g_start (Gh (S pa)) t = S pa).
    { rewrite (Gh_succ pa t xa Ha), g_start_step, N.eqb_refl.
      unfold starts_now. rewrite Hra, Hsa. cbn. rewrite Gh_now by lia. reflexivity. }
    pose proof (Gh_start_mono (S pa) (S pb) t ltac:(lia)) as Hmono.
    destruct (lt_sound cf s0 (firstn (S pb) sched) c v) as [Hk1 Hk2]. cbn zeta in Hk1, Hk2.
    rewrite firstn_length in Hk1.
    exists (g_lt (Gh (S pb)) c v). split; [lia|].
    rewrite firstn_firstn in Hk2. rewrite Nat.min_l in Hk2 by lia. apply Hk2. lia.
  Qed.

  (** ... and the handle does receive a pointer: a guard for [load], an owned pointer for
      [load_full]. *)
  Theorem load_linearizable_total t i cm c h pa pb xa tb xb :
    nth_error (t_prog (thr s0 t)) (N.to_nat i) = Some cm -> is_load_of cm c h ->
    (pa <= pb)%nat ->
    nth_error sched pa = Some (t, xa) ->
    t_status (thr (St pa) t) = Running -> t_stack (thr (St pa) t) = [] -> t_cmdi (thr (St pa) t) = i ->
    nth_error sched pb = Some (tb, xb) ->
    t_cmdi (thr (St pb) t) = i -> t_cmdi (thr (St (S pb)) t) = i + 1 ->
    exists v, (match cm with
               | CLoad _ _ => exists d, hnd (St (S pb)) h = HGuard v d
               | _ => hnd (St (S pb)) h = HOwned v
               end) /\
      exists k, (pa + 1 <= k <= pb + 1)%nat /\ mem (sh (St k)) (LStore c) = v.
  Proof.
    intros Hcm Hld Hab Ha Hra Hsa Hia Hb Hib Hib'.
    assert (Hlen : (pb < length sched)%nat) by (apply nth_error_Some; congruence).
    pose proof Hib' as Hib2. rewrite (St_succ pb tb xb Hb) in Hib2.
    assert (tb = t) as ->.
    { destruct (N.eq_dec tb t) as [E|E]; [exact E|]. rewrite step_status_other in Hib2 by congruence. lia. }
    pose proof (NoFault_prefix cf s0 sched (S pb) Hnf) as Hnf1. rewrite (St_succ pb t xb Hb) in Hnf1.
    pose proof (NoFault_back _ _ _ _ Hnf1) as Hnf0.
    destruct (run_GenInvQ cf (firstn pb sched) s0 (GenInvQ_init inits progs Hprogs)
                (prefix_ok_firstn _ _ _ _ pb Hcalm) Hnf0) as [W Q GI].
    pose proof (run_LinInv2 cf inits progs Hprogs (firstn pb sched) (prefix_ok_firstn _ _ _ _ pb Hcalm)
                  (prefix_ok_firstn _ _ _ _ pb Henvf) (prefix_ok_firstn _ _ _ _ pb Henva) Hnf0) as LI.
    pose proof (run_LdTyped cf (firstn pb sched) s0 (WF2_init inits progs) (LdTyped_init inits progs) Hnf0) as LT.
    assert (Hcur : cur_cmd (St pb) t = Some cm).
    { unfold cur_cmd. rewrite run_prog, Hib. exact Hcm. }
    rewrite <- Hib in Hib2.
    destruct (load_returns_fresh cf (St pb) (Gh pb) t xb cm c h W (Hcalm pb) Q GI (Henvf pb) (Henva pb) LI Hnf1 Hcur Hld Hib2)
      as (rv & Hh & _ & _ & _ & Hkind).
    rewrite <- (St_succ pb t xb Hb) in Hh.
    destruct (load_linearizable t i cm c h pa pb xa t xb Hcm Hld Hab Ha Hra Hsa Hia Hb Hib Hib') as (rv' & Hh' & Hk).
    assert (rval rv' = rval rv /\ handle_of rv' = handle_of rv) as [Er Eh].
    { rewrite <- !handle_ptr_rval, <- Hh, <- Hh'. auto. }
    destruct Hld as [-> | ->].
    - pose proof (Hkind KGuard LT eq_refl) as Hkd. destruct rv; try discriminate Hkd.
      exists p. split; [exists d; exact Hh|]. apply Hk. rewrite Er. reflexivity.
    - pose proof (Hkind KOwned LT eq_refl) as Hkd. destruct rv; try discriminate Hkd.
      exists p. split; [exact Hh|]. apply Hk. rewrite Er. reflexivity.
  Qed.

  Corollary load_handle_linearizable t i cm c h pa pb xa tb xb v :
    nth_error (t_prog (thr s0 t)) (N.to_nat i) = Some cm -> is_load_of cm c h ->
    (pa <= pb)%nat ->
    nth_error sched pa = Some (t, xa) ->
    t_status (thr (St pa) t) = Running -> t_stack (thr (St pa) t) = [] -> t_cmdi (thr (St pa) t) = i ->
    nth_error sched pb = Some (tb, xb) ->
    t_cmdi (thr (St pb) t) = i -> t_cmdi (thr (St (S pb)) t) = i + 1 ->
    handle_ptr (hnd (St (S pb)) h) = Some v ->
    exists k, (pa + 1 <= k <= pb + 1)%nat /\ mem (sh (St k)) (LStore c) = v.
  Proof.
    intros Hcm Hld Hab Ha Hra Hsa Hia Hb Hib Hib' Hv.
    destruct (load_linearizable t i cm c h pa pb xa tb xb Hcm Hld Hab Ha Hra Hsa Hia Hb Hib Hib') as (rv & Hh & Hk).
    apply Hk. rewrite Hh, handle_ptr_rval in Hv. exact Hv.
  Qed.
End Run2.

(** ** What remains of [LinDefs.ContOK] and [LinDefs.CandFresh] *)
Corollary ContOK0 s t p rest c c0 :
  ContAll s -> t_stack (thr s t) = p :: rest -> load_cont p = Some c -> cur_cont0 s t = Some c0 -> c = c0.
Proof.
  intros CA Hs Hl Hc. pose proof (CA t c0 Hc) as H. rewrite Hs in H. inversion H as [|? ? Hp _]; subst.
  apply Hp. destruct p; try discriminate Hl; exact Hl.
Qed.

(** [CandFresh] for the threads it is needed for: a load command, or the nested load of a helper. *)
Corollary CandFresh_zone s g t p rest c v :
  ZoneInv s g -> t_stack (thr s t) = p :: rest -> inz (ld s t) rest -> named s t c ->
  cand_of (mem (sh s)) p = Some v -> (g_lt g c v >= g_start g t)%nat.
Proof.
  intros ZV Hs Hz Hn Hc. destruct (ZV t) as [Z1 Z2]. rewrite Hs in Z1.
  assert (H7 : (exists cand e, p = LH7 cand e /\ v = mem (sh s) (LEnv e)) \/ (fval p = Some v /\ is_help p = false /\ is_kdone p = false)).
  { destruct p; try discriminate Hc; try (right; cbn; auto; fail).
    left. injection Hc as <-. eauto. }
  destruct H7 as [(cand & e & -> & ->)|(Hf & Hh & Hk)].
  - exact (Z2 cand e rest Hs c Hn).
  - cbn [ZI] in Z1. rewrite Hh, Hk in Z1. destruct Z1 as [Zp _]. destruct (Zp Hz) as [_ Hv]. exact (Hv v Hf c Hn).
Qed.

(** The four unchanged components of [LinDefs.LinInv]. *)
Corollary LinInv2_LinDefs s g : LinInv2 s g -> LtFresh s g /\ PubFresh s g /\ HelpFresh s g /\ Answered s g.
Proof. intros [A _ _ _ _ B C D]. auto. Qed.

Print Assumptions LinInv2_init.
Print Assumptions gstep_LinInv2.
Print Assumptions lt_sound.
Print Assumptions load_returns_fresh.
Print Assumptions run_LinInv2.
Print Assumptions load_linearizable.
Print Assumptions load_handle_fresh.
Print Assumptions load_handle_linearizable.
Print Assumptions load_linearizable_total.
