(** * ASModel.Lin1 — C03 (loads are linearizable): corrected invariants and ghost-state basics.

    [LinDefs] instruments runs with a clock and three pieces of history.  Two of its invariants
    are not inductive as stated:
    - [ContOK] uses [cur_cont], which reads the handle table for [CCacheLoad]; any other thread
      may move or drop that handle while the command runs.  [ContAll] below uses the
      state-independent [cur_cont0] (no claim for [CCacheLoad]) and speaks about every frame that
      names a container (the helper's [PE2 c] must name the command's container as well).
    - [CandFresh] speaks about the top frame only and uses [cand_of (WExit ..)], but a [WExit]
      frame is never on top (the cooldown frames are), and the value also travels through
      [Guard::into_inner] ([GI1], [GI2], [PDec _ (ROwned _)]) before a [load_full] returns.  It
      also claims freshness for loads inside [compare_and_swap] / [rcu] after the thread helped,
      which needs a full grammar of stacks.  [ZoneInv] below states freshness for every frame
      of the "load zone": the frames above a [WHelpRepl] (the nested load of a helper), or the
      whole stack of a [CLoad] / [CLoadFull] command; and it says that these frames are frames of
      a load ([lfr]), which makes the invariant inductive. *)
From Coq Require Import Lia.
From ASModel Require Import Base State Orderings_gen Step Run Progress Hist Inv InvTl InvProto InvStep Sum StepCases
  GenDefs Gen1 Gen2 Gen3 Gen EnvDefs LinDefs.

(** ** The command of a thread and its container (independent of the handle table) *)
Definition cmd_cont0 (c : cmd) : option N :=
  match c with
  | CLoad c _ | CLoadFull c _ | CStore c _ | CSwap c _ _ | CCas c _ _ _ | CRcu c _ _ | CIntoInner c _
  | CDropStore c | CCacheNew c _ => Some c
  | _ => None
  end.

Definition cur_cmd (s : state) (t : N) : option cmd :=
  nth_error (t_prog (thr s t)) (N.to_nat (t_cmdi (thr s t))).

Definition cur_cont0 (s : state) (t : N) : option N :=
  match cur_cmd s t with Some c => cmd_cont0 c | None => None end.

Definition ldcmd (c : cmd) : bool := match c with CLoad _ _ | CLoadFull _ _ => true | _ => false end.

Definition ld (s : state) (t : N) : bool :=
  match cur_cmd s t with Some c => ldcmd c | None => false end.

(** The container a frame names. *)
Definition pc_cont (p : pc) : option N :=
  match p with
  | LA1 c | LA1d c _ | LAscan c _ _ | LA3 c _ _ | LA4 c _ _ | LA5 c _ _ | LA6 c _ | LH0d c | LH1 c _ | LH2 c _
  | LH3 c _ | LH3d c _ _ | LH4 c _ _ | LH5 c _ _
  | P1 c _ | P2 c _ | P3 c _ _ | PE0d c _ _ | PE0e c _ _ | PE1 c _ _ | PE2 c _ _ _ | PE3 c _ _ _
  | PE4 c _ _ _ _ | PE5 c _ _ _ _ _ | PE6 c _ _ _ _ _ _ | PE7 c _ _ _ _ _ _ | PE8 c _ _ _ | PE9 c _ _ _ _
  | PS c _ _ _ | PSi c _ _ _ | P5 c _ _ | P6 c _
  | S1 c _ | K1 c _ _ _ _ | RAlloc c _ _ _ | RInc c _ _ _ | Q1 c _ _
  | WGetLoad c | WGetPay c _ | WHelpRepl c _ _ _ | WCasLoad c _ _ | WCasRetry c _ _ | WRcuLoad c _
  | WRcuCas c _ _ _ | WRcuNext c _ _ _ | WCacheReload c _ _ | KCacheDone c _ => Some c
  | _ => None
  end.

Definition cont_ok (c0 : N) (f : pc) : Prop := forall c, pc_cont f = Some c -> c = c0.

Definition ContAll (s : state) : Prop :=
  forall t c0, cur_cont0 s t = Some c0 -> Forall (cont_ok c0) (t_stack (thr s t)).

(** ** Frames of a load, and the value they carry *)
Definition lfr (p : pc) : bool :=
  match p with
  | GHead | GCool1 _ | GCool2 _ | GCool3 _ | GBack _ | GClaim _ | GPush0 | GPush _
  | C1 _ | C2 _ | C3 _
  | LA1 _ | LA1d _ _ | LAscan _ _ _ | LA3 _ _ _ | LA4 _ _ _ | LA5 _ _ _ | LA6 _ _
  | LH0d _ | LH1 _ _ | LH2 _ _ | LH3 _ _ | LH3d _ _ _ | LH4 _ _ _ | LH5 _ _ _
  | LH6a _ | LH6b _ | LH6c _ | LH7 _ _ | LH8 _ _ _ | LH9 _ _ | LH10 _ _
  | GI1 _ _ | GI2 _ _ | PDec _ (ROwned _)
  | WGetLoad _ | WExit (RGuard _ _) | WLoadFull => true
  | _ => false
  end.

Definition fval (p : pc) : option N :=
  match p with
  | LH3d _ _ v | LH4 _ _ v | LH5 _ _ v | LH6a v | LH6b v | LH6c v => Some v
  | LH8 _ _ r | LH9 _ r | LH10 _ r => Some r
  | WExit (RGuard v _) => Some v
  | GI1 v _ | GI2 v _ => Some v
  | PDec _ (ROwned v) => Some v
  | _ => None
  end.

Definition rval (r : retval) : option N :=
  match r with RGuard v _ | ROwned v => Some v | _ => None end.

Definition vok (P : N -> Prop) (f : pc) : Prop := forall v, fval f = Some v -> P v.
Definition rvok (P : N -> Prop) (r : retval) : Prop := forall v, rval r = Some v -> P v.
Definition lfv (P : N -> Prop) (f : pc) : Prop := lfr f = true /\ vok P f.

Definition is_help (p : pc) : bool := match p with WHelpRepl _ _ _ _ => true | _ => false end.
Definition is_kdone (p : pc) : bool := match p with KDone _ => true | _ => false end.

Fixpoint hfree (stk : list pc) : bool :=
  match stk with [] => true | f :: r => negb (is_help f) && hfree r end.

(** Is there a load zone on top of [stk]? *)
Definition inz (l : bool) (stk : list pc) : Prop := l = true \/ hfree stk = false.

(** The zone invariant of a stack: frames above the first [WHelpRepl] (or all frames of a load
    command) are frames of a load and carry values that satisfy [P]; below a [WHelpRepl] there
    is no further one, and a load command has none. *)
Fixpoint ZI (l : bool) (P : N -> Prop) (stk : list pc) : Prop :=
  match stk with
  | [] => True
  | f :: r =>
      if is_help f then l = false /\ hfree r = true
      else if is_kdone f then True
      else (inz l r -> lfv P f) /\ ZI l P r
  end.

(** The container a zone of thread [t] loads from: the container of a load command, or the
    one named by a [WHelpRepl] frame (the helper's own storage). *)
Definition named (s : state) (t : N) (c : N) : Prop :=
  (ld s t = true /\ cur_cont0 s t = Some c) \/
  (exists old w ctl, In (WHelpRepl c old w ctl) (t_stack (thr s t))).

(** "[v] was the content of the zone's container after the thread's current start." *)
Definition Fr (s : state) (g : ghost) (t : N) (v : N) : Prop :=
  forall c, named s t c -> (g_lt g c v >= g_start g t)%nat.

Definition ZoneInv (s : state) (g : ghost) : Prop :=
  forall t,
    ZI (ld s t) (Fr s g t) (t_stack (thr s t)) /\
    (forall cand e rest, t_stack (thr s t) = LH7 cand e :: rest -> Fr s g t (mem (sh s) (LEnv e))).

(** Any two frames of a stack that name a container name the same one. *)
Definition ContPair (s : state) : Prop :=
  forall t f1 f2 c1 c2, In f1 (t_stack (thr s t)) -> In f2 (t_stack (thr s t)) ->
    pc_cont f1 = Some c1 -> pc_cont f2 = Some c2 -> c1 = c2.

(** The stack of a running load command ends with the frame that stores the result. *)
Definition load_dst (c : cmd) : option N :=
  match c with CLoad _ h | CLoadFull _ h => Some h | _ => None end.

Definition LdBot (s : state) : Prop :=
  forall t c h, cur_cmd s t = Some c -> load_dst c = Some h ->
    t_stack (thr s t) = [] \/ exists pre, t_stack (thr s t) = pre ++ [KDone (Some h)].

Record LinInv2 (s : state) (g : ghost) : Prop := {
  l2_fresh : LtFresh s g;
  l2_cont : ContAll s;
  l2_pair : ContPair s;
  l2_bot : LdBot s;
  l2_zone : ZoneInv s g;
  l2_pub : PubFresh s g;
  l2_help : HelpFresh s g;
  l2_ans : Answered s g;
}.

(** ** Elementary facts *)
Lemma lfr_not_help f : lfr f = true -> is_help f = false.
Proof. destruct f; cbn; congruence. Qed.
Lemma lfr_not_kdone f : lfr f = true -> is_kdone f = false.
Proof. destruct f; cbn; congruence. Qed.
Lemma lfr_not_bottom f : lfr f = true -> is_bottom_frame f = false.
Proof. destruct f; cbn; congruence. Qed.
Lemma lfr_no_loaded f : lfr f = true -> help_loaded f = None.
Proof. destruct f; cbn; congruence. Qed.
Lemma not_waiting_not_help f : is_waiting f = false -> is_help f = false /\ is_kdone f = false.
Proof. destruct f; cbn; try congruence; auto. Qed.
Lemma kdone_bottom f : is_kdone f = true -> is_bottom_frame f = true.
Proof. destruct f; cbn; congruence. Qed.

Lemma hfree_app a b : hfree (a ++ b) = hfree a && hfree b.
Proof. induction a as [|f a IH]; [reflexivity|]. cbn. rewrite IH. apply andb_assoc. Qed.

Lemma hfree_lfr fs : Forall (fun f => lfr f = true) fs -> hfree fs = true.
Proof. induction 1 as [|f fs Hf _ IH]; [reflexivity|]. cbn. rewrite (lfr_not_help _ Hf), IH. reflexivity. Qed.

Lemma ZI_mono l (P Q : N -> Prop) stk : (forall v, P v -> Q v) -> ZI l P stk -> ZI l Q stk.
Proof.
  intros HPQ. induction stk as [|f r IH]; [cbn; auto|]. cbn. destruct (is_help f); [auto|]. destruct (is_kdone f); [auto|].
  intros [H1 H2]. split; [|auto]. intros Hz. destruct (H1 Hz) as [A B]. split; [exact A|]. intros v Hv. apply HPQ. apply B. exact Hv.
Qed.

Lemma ZI_hfree P stk : hfree stk = true -> ZI false P stk.
Proof.
  induction stk as [|f r IH]; [cbn; auto|]. cbn. intros H. apply andb_prop in H as [H1 H2].
  destruct (is_help f); [discriminate|]. destruct (is_kdone f); [exact I|]. split; [|auto].
  intros [Hl|Hh]; congruence.
Qed.

Lemma ZI_app_lfv l P fs rest : Forall (lfv P) fs -> ZI l P rest -> ZI l P (fs ++ rest).
Proof.
  induction 1 as [|f fs Hf _ IH]; intros Hr; [exact Hr|]. cbn.
  rewrite (lfr_not_help _ (proj1 Hf)), (lfr_not_kdone _ (proj1 Hf)). split; [intros _; exact Hf|auto].
Qed.

Lemma ZI_cons l P f rest : is_help f = false -> (inz l rest -> lfv P f) -> ZI l P rest -> ZI l P (f :: rest).
Proof. intros H1 H2 H3. cbn. rewrite H1. destruct (is_kdone f); [exact I|]. split; assumption. Qed.

Lemma inz_cons l f rest : is_help f = false -> inz l (f :: rest) <-> inz l rest.
Proof. intros H. unfold inz. cbn. rewrite H. cbn. tauto. Qed.

Lemma inz_dec l stk : inz l stk \/ (l = false /\ hfree stk = true).
Proof. unfold inz. destruct l; [auto|]. destruct (hfree stk); auto. Qed.
