(** * ASModel.Lin10 — [ZoneInv] and [PubFresh] are preserved by every step. *)
From Coq Require Import Lia.
From ASModel Require Import Base State Orderings_gen Step Run Progress Hist Inv InvTl InvProto InvStep Sum StepCases
  GenDefs Gen1 Gen2 Gen3 Gen EnvDefs LinDefs Lin1 Lin2 Lin3 Lin4 Lin5 Lin6 Lin7 Lin8 Lin9.

Section Step.
  Variables (cf : config) (s : state) (g : ghost) (t x : N).
  Hypotheses (W : WF2 s) (Hcalm : Calm s) (Q : Quiet s) (GI : GenInv s) (EF : EnvFree s)
             (Hnf : NoFault (fst (step cf s t x))).
  Hypotheses (LF : LtFresh s g) (CA : ContAll s) (CP : ContPair s) (ZV : ZoneInv s g)
             (PF : PubFresh s g) (AN : Answered s g).
  Local Notation s' := (fst (step cf s t x)).
  Local Notation g' := (snd (gstep cf (s, g) t x)).

  Theorem step_ZoneInv : ZoneInv s' g'.
  Proof.
    intros t'. destruct (N.eq_dec t' t) as [->|Hne]; [|eapply zone_other; eassumption].
    destruct (step_cases2 cf s t x) as [Hr E|c Hr Hs Hcc Hen E|c s1 l1 stk r Hr Hs Hcc Hen Hcs E|n Hr Hs Hcc Hn E|Hr Hs Hcc Hn E|p rest s1 l1 evs nx Hr Hs He E].
    - (* stopped *)
      destruct (q_stop _ Q t Hr) as [Hs _].
      assert (Hstk : t_stack (thr s' t) = []) by (rewrite E; exact Hs).
      rewrite Hstk. split; [exact I|discriminate].
    - assert (Hstk : t_stack (thr s' t) = []) by (rewrite E; exact Hs).
      rewrite Hstk. split; [exact I|discriminate].
    - (* a command starts *)
      assert (Hstk : t_stack (thr s' t) = stk).
      { rewrite E. cbn. rewrite upd_same. apply start_thread_stack. }
      rewrite Hstk. destruct stk as [|f0 stk]; [split; [exact I|discriminate]|].
      assert (Hcur : cur_cmd s' t = Some c).
      { rewrite E, cur_cmd_start by discriminate. exact Hcc. }
      split.
      + unfold ld. rewrite Hcur. destruct (ldcmd c) eqn:Hl.
        * eapply cmd_start_ld; eassumption.
        * apply ZI_hfree. eapply cmd_start_hfree; [exact Hcs|]. eapply calm_cmd; eassumption.
      + intros cand e rest0 [= -> ->]. exfalso.
        pose proof (cmd_start_no7 _ _ _ _ _ _ _ _ Hcs) as H7. inversion H7 as [|? ? Hx _]. discriminate Hx.
    - (* the thread function returns *)
      assert (Hstk : t_stack (thr s' t) = [C1 n; WThreadExit]) by (rewrite E; cbn; rewrite upd_same; reflexivity).
      assert (Hcur : cur_cmd s' t = None).
      { rewrite E. unfold cur_cmd, set_thread. cbn. rewrite upd_same. exact Hcc. }
      rewrite Hstk. split; [|discriminate]. unfold ld. rewrite Hcur. apply ZI_hfree. reflexivity.
    - assert (Hstk : t_stack (thr s' t) = []) by (rewrite E; cbn; rewrite upd_same; reflexivity).
      rewrite Hstk. split; [exact I|discriminate].
    - (* a frame step *)
      rewrite (ex_thr cf s t x rest s1 l1 nx E). split.
      + eapply zone_exec; eassumption.
      + intros cand e rest'. eapply top7_fresh; eassumption.
  Qed.

  (** ** [PubFresh] *)
  Theorem step_PubFresh : PubFresh s' g'.
  Proof.
    intros t' n Hr' Ho Hreq.
    destruct (N.eq_dec t' t) as [->|Hne].
    2: { rewrite (other_thr cf s t x t' Hne) in *. rewrite (g_start_other cf s g t x t' Hne).
         pose proof (PF t' n Hr' Ho Hreq). pose proof (proj1 (g_pub_le cf s g t x LF n)). lia. }
    assert (Hreq' : exists q, hd_req (t_stack (thr s' t)) = Some q).
    { rewrite req_of_top in Hreq. unfold hd_req. destruct (t_stack (thr s' t)); [congruence|].
      destruct (top_req p) eqn:Hq; [eauto|congruence]. }
    destruct Hreq' as (q & Hq).
    destruct (step_cases2 cf s t x) as [Hr E|c Hr Hs Hcc Hen E|c s1 l1 stk r Hr Hs Hcc Hen Hcs E|n0 Hr Hs Hcc Hn E|Hr Hs Hcc Hn E|p rest s1 l1 evs nx Hr Hs He E].
    - exfalso. rewrite E in Hq. destruct (q_stop _ Q t Hr) as [Hs _]. rewrite Hs in Hq. discriminate.
    - exfalso. rewrite E in Hq. rewrite Hs in Hq. discriminate.
    - exfalso. rewrite E in Hq. cbn in Hq. rewrite upd_same, start_thread_stack in Hq.
      destruct (cmd_start_top _ _ _ _ _ _ _ _ Hcs (calm_cmd _ _ _ Hcalm Hcc)) as [Hx _]. congruence.
    - exfalso. rewrite E in Hq. cbn in Hq. rewrite upd_same in Hq. discriminate.
    - exfalso. rewrite E in Hq. cbn in Hq. rewrite upd_same in Hq. discriminate.
    - pose proof (ex_thr cf s t x rest s1 l1 nx E) as Et.
      destruct (exec_settle _ _ _ _ _ _ _ _ _ _ W Hnf Hr Hs He) as [Hns Hset].
      destruct (running_stk_ok s t W Hr) as [Htl _]. rewrite Hs in Htl.
      pose proof (g_top _ GI t Hr) as Hg. rewrite Hs in Hg. inversion Hg as [|? ? Hgp Hgr]; subst.
      pose proof (gentop_no_setgen _ _ Hgr) as Hng.
      pose proof (exec_view _ _ _ _ _ _ _ _ _ He Hns (proj1 (Hcalm t)) Hgp) as (_ & _ & _ & V4).
      rewrite Et in Hq, Ho. rewrite (settle_req _ _ _ _ _ _ _ Hset Hng) in Hq.
      unfold owner in Ho. rewrite (settle_node _ _ _ _ _ _ _ Hset) in Ho.
      assert (Hl1 : top_req p <> None \/ top_unpub p = true -> tl_node l1 = tl_node (t_loc (thr s t))).
      { intros Hp. pose proof (exec_special _ _ _ _ _ _ _ _ _ He Hns) as Hsp.
        destruct p; cbn in Hp; try (destruct Hp as [Hp|Hp]; congruence); cbn [special_next] in Hsp;
          repeat match goal with H : _ /\ _ |- _ => destruct H end; subst; try reflexivity; try assumption.
        clear -He. exec_norm He; reflexivity. }
      destruct (V4 q Hq) as [Hp|(Hp & _ & _)].
      + (* the request was already published *)
        rewrite Hl1 in Ho by (left; congruence).
        assert (Hreq0 : req_of (thr s t) <> None) by (rewrite req_of_top, Hs; congruence).
        pose proof (PF t n Hr Ho Hreq0) as Hold.
        assert (Hst : starts_now s t = false).
        { unfold starts_now. rewrite Hr, Hs. destruct p; try discriminate Hp; reflexivity. }
        rewrite (g_start_same cf s g t x Hst t). pose proof (proj1 (g_pub_le cf s g t x LF n)). lia.
      + (* this step publishes it *)
        rewrite Hl1 in Ho by (right; exact Hp).
        assert (Hpub : publishes_now s t = Some n).
        { unfold publishes_now. rewrite Hr, Hs.
          pose proof (exec_special _ _ _ _ _ _ _ _ _ He Hns) as Hsp.
          destruct p; try discriminate Hp; cbn [special_next] in Hsp.
          - destruct Hsp as [_ ->]. discriminate Hq.
          - exact Ho. }
        rewrite g_pub_step, Hpub, N.eqb_refl. apply (g_start_le cf s g t x LF t).
  Qed.
End Step.
