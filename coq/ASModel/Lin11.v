(** * ASModel.Lin11 — [HelpFresh] is preserved by every step. *)
From Coq Require Import Lia.
From ASModel Require Import Base State Orderings_gen Step Run Progress Hist Inv InvTl InvProto InvStep Sum StepCases
  GenDefs Gen1 Gen2 Gen3 Gen EnvDefs LinDefs Lin1 Lin2 Lin3 Lin4 Lin5 Lin6 Lin7 Lin8 Lin9 Lin10.

Lemma help_c_none f : help_frame f = None -> help_c f = None.
Proof. destruct f; cbn; congruence. Qed.

Lemma dispatch_help_c cf l c old w ctl f : In f (nx_frames (help_dispatch cf l c old w ctl)) -> help_c f = None.
Proof.
  destruct (help_dispatch_cases cf l c old w ctl) as [H|[->|[_ ->]]].
  - destruct (help_dispatch cf l c old w ctl); try contradiction; intros [].
  - intros [<-|[]]. reflexivity.
  - intros [<-|[]]. reflexivity.
Qed.

Lemma after_slot_help_c c old w j f : In f (nx_frames (after_slot c old w j)) -> help_c f = None.
Proof. destruct (after_slot_cases c old w j) as [->| ->]; intros [<-|[]]; reflexivity. Qed.

Lemma exec_help_c cf s l p x s' l' evs nx f q :
  exec cf s l p x = (s', l', evs, nx) -> ~ nx_stops nx ->
  In f (nx_frames nx) -> help_c f = Some q -> help_c p = Some q \/ pe2_push cf s l p l' nx.
Proof.
  intros He Hn Hin Hf. destruct (special_pc p) eqn:Hsp.
  2: { pose proof (exec_call _ _ _ _ _ _ _ _ _ Hsp He) as Hc.
       rewrite (help_c_none _ (call_shape_help _ _ _ _ Hc Hin)) in Hf. discriminate. }
  pose proof (exec_special _ _ _ _ _ _ _ _ _ He Hn) as H.
  destruct p; try discriminate Hsp; cbn [special_next] in H;
    repeat match goal with
      | H : _ /\ _ |- _ => destruct H
      | H : _ \/ _ |- _ => destruct H
      | H : exists _, _ |- _ => destruct H
      end; subst;
    try (apply after_slot_help_c in Hin; congruence);
    try (apply dispatch_help_c in Hin; congruence);
    try (destruct Hin as [<-|[]]; cbn in Hf; try discriminate Hf; left; exact Hf).
  right. unfold pe2_push. eauto 10.
Qed.

Lemma loaded_not_waiting f q : help_loaded f = Some q -> is_waiting f = false.
Proof. destruct f; cbn; congruence. Qed.

Lemma loaded_help_c f c w ctl r : help_loaded f = Some (c, w, ctl, r) -> help_c f = Some (c, w, ctl).
Proof. destruct f; cbn; congruence. Qed.

Lemma loaded_not_start f q s t rest :
  help_loaded f = Some q -> t_stack (thr s t) = f :: rest -> starts_now s t = false.
Proof.
  intros Hl Hs. unfold starts_now. rewrite Hs. destruct (t_status (thr s t)); try reflexivity.
  destruct f; try discriminate Hl; reflexivity.
Qed.

Section Step.
  Variables (cf : config) (s : state) (g : ghost) (t x : N).
  Hypotheses (W : WF2 s) (Hcalm : Calm s) (Q : Quiet s) (GI : GenInv s) (EF : EnvFree s)
             (Hnf : NoFault (fst (step cf s t x))).
  Hypotheses (LF : LtFresh s g) (CA : ContAll s) (CP : ContPair s) (ZV : ZoneInv s g)
             (PF : PubFresh s g) (HF : HelpFresh s g) (AN : Answered s g).
  Local Notation s' := (fst (step cf s t x)).
  Local Notation g' := (snd (gstep cf (s, g) t x)).

  (** A helper frame that knows its container was there before, or the nested load starts now. *)
  Lemma help_c_origin t' f q :
    In f (t_stack (thr s' t')) -> help_c f = Some q ->
    (exists f0, In f0 (t_stack (thr s t')) /\ help_c f0 = Some q) \/ (t' = t /\ starts_now s t = true).
  Proof.
    intros Hin Hc. destruct (N.eq_dec t' t) as [->|Hne]; [|rewrite (other_thr cf s t x t' Hne) in Hin; eauto].
    destruct (step_cases2 cf s t x) as [Hr E|c Hr Hs Hcc Hen E|c s1 l1 stk r Hr Hs Hcc Hen Hcs E|n Hr Hs Hcc Hn E|Hr Hs Hcc Hn E|p rest s1 l1 evs nx Hr Hs He E].
    - rewrite E in Hin. eauto.
    - rewrite E in Hin. eauto.
    - exfalso. rewrite E in Hin. cbn in Hin. rewrite upd_same, start_thread_stack in Hin.
      destruct (cmd_start_top _ _ _ _ _ _ _ _ Hcs (calm_cmd _ _ _ Hcalm Hcc)) as [_ Hx].
      destruct (Hx f Hin). congruence.
    - exfalso. rewrite E in Hin. cbn in Hin. rewrite upd_same in Hin. cbn in Hin.
      destruct Hin as [<-|[<-|[]]]; discriminate Hc.
    - exfalso. rewrite E in Hin. cbn in Hin. rewrite upd_same in Hin. destruct Hin.
    - rewrite (ex_thr cf s t x rest s1 l1 nx E) in Hin.
      destruct (exec_settle _ _ _ _ _ _ _ _ _ _ W Hnf Hr Hs He) as [Hns Hset].
      pose proof (g_top _ GI t Hr) as Hg. rewrite Hs in Hg. inversion Hg as [|? ? Hgp Hgr]; subst.
      pose proof (gentop_no_setgen _ _ Hgr) as Hng.
      assert (Hfn : help_frame f <> None).
      { intros Hx. rewrite (help_c_none _ Hx) in Hc. discriminate. }
      destruct (settle_help _ _ _ _ _ _ _ f Hset Hng Hin Hfn) as [H|[H|(c & old & n & ctl & r & -> & H)]].
      + left. exists f. rewrite Hs. split; [right; exact H|exact Hc].
      + destruct (exec_help_c _ _ _ _ _ _ _ _ _ _ _ He Hns H Hc) as [Hp|(c & old & w & ctl & fs & Hp2 & Ha & _)].
        * left. exists p. rewrite Hs. split; [left; reflexivity|exact Hp].
        * right. split; [reflexivity|]. unfold starts_now. rewrite Hr, Hs, Hp2. apply N.eqb_eq. exact Ha.
      + left. exists (WHelpRepl c old n ctl). rewrite Hs. split; [right; exact H|exact Hc].
  Qed.

  Lemma not_publishing th w c' gt :
    owner (thr s th) = Some w -> req_of (thr s th) = Some (c', gt) -> publishes_now s t <> Some w.
  Proof.
    intros Ho Hreq Hp. unfold publishes_now in Hp.
    destruct (t_status (thr s t)); try discriminate Hp.
    destruct (t_stack (thr s t)) as [|p rest] eqn:Hs; [discriminate|].
    destruct p; try discriminate Hp.
    assert (t = th) as -> by (eapply owner_unique; [exact W|exact Hp|exact Ho]).
    unfold req_of in Hreq. rewrite Hs in Hreq. discriminate.
  Qed.

  Lemma help_part1 t' f c w ctl th c' :
    In f (t_stack (thr s' t')) -> help_c f = Some (c, w, ctl) ->
    owner (thr s' th) = Some w -> req_of (thr s' th) = Some (c', ctl) ->
    (g_pub g' w <= g_start g' t')%nat.
  Proof.
    intros Hin Hc Ho Hreq.
    destruct (help_c_origin t' f _ Hin Hc) as [(f0 & I0 & C0)|[-> Hst]].
    - destruct (req_old cf s t x W Hcalm Q GI Hnf th w ctl c' t' f0 I0 (help_c_frame _ _ _ _ C0) Ho Hreq) as [A B].
      pose proof (proj1 (HF t' f0 I0) c w ctl C0 th c' A B) as Hold.
      rewrite (g_pub_same cf s g t x w (not_publishing th w c' ctl A B)).
      pose proof (proj1 (g_start_le cf s g t x LF t')). lia.
    - rewrite g_start_step, N.eqb_refl, Hst. cbn. apply (g_pub_le cf s g t x LF w).
  Qed.

  Lemma help_part2 t' f c w ctl r :
    Quiet s' -> WF2 s' ->
    In f (t_stack (thr s' t')) -> help_loaded f = Some (c, w, ctl, r) ->
    (g_lt g' c r >= g_start g' t')%nat.
  Proof.
    intros Q' W' Hin Hl.
    destruct (N.eq_dec t' t) as [->|Hne].
    2: { rewrite (other_thr cf s t x t' Hne) in Hin. pose proof (proj2 (HF t' f Hin) c w ctl r Hl) as Hold.
         rewrite (g_start_other cf s g t x t' Hne). pose proof (g_lt_mono cf s g t x LF c r). lia. }
    (* the frame is the top frame *)
    assert (Hr' : t_status (thr s' t) = Running) by (eapply in_running; eassumption).
    assert (Hhd : hd_error (t_stack (thr s' t)) = Some f).
    { destruct (running_stk_ok s' t W' Hr') as [Htl _]. destruct (t_stack (thr s' t)) as [|a b]; [destruct Hin|].
      destruct Htl as (_ & Hw & _). destruct Hin as [->|Hin]; [reflexivity|].
      pose proof (proj1 (Forall_forall _ _) Hw f Hin) as Hx. cbn beta in Hx. rewrite (loaded_not_waiting _ _ Hl) in Hx. discriminate. }
    destruct (step_cases2 cf s t x) as [Hr E|c0 Hr Hs Hcc Hen E|c0 s1 l1 stk r0 Hr Hs Hcc Hen Hcs E|n Hr Hs Hcc Hn E|Hr Hs Hcc Hn E|p rest s1 l1 evs nx Hr Hs He E].
    - exfalso. rewrite E in Hin. destruct (q_stop _ Q t Hr) as [Hs _]. rewrite Hs in Hin. destruct Hin.
    - exfalso. rewrite E in Hin. rewrite Hs in Hin. destruct Hin.
    - exfalso. rewrite E in Hin. cbn in Hin. rewrite upd_same, start_thread_stack in Hin.
      destruct (cmd_start_top _ _ _ _ _ _ _ _ Hcs (calm_cmd _ _ _ Hcalm Hcc)) as [_ Hx].
      destruct (Hx f Hin). congruence.
    - exfalso. rewrite E in Hin. cbn in Hin. rewrite upd_same in Hin. cbn in Hin.
      destruct Hin as [<-|[<-|[]]]; discriminate Hl.
    - exfalso. rewrite E in Hin. cbn in Hin. rewrite upd_same in Hin. destruct Hin.
    - rewrite (ex_thr cf s t x rest s1 l1 nx E) in Hhd.
      destruct (exec_settle _ _ _ _ _ _ _ _ _ _ W Hnf Hr Hs He) as [Hns Hset].
      destruct (settle_hd _ _ _ _ _ _ _ Hset f Hhd) as [H|(w0 & v & l0 & l2 & nx1 & Hw0 & Hres & H)].
      + assert (Hinf : In f (nx_frames nx)) by (destruct (nx_frames nx); [discriminate|injection H as ->; left; reflexivity]).
        pose proof (exec_loaded _ _ _ _ _ _ _ _ _ _ _ He Hns Hinf Hl) as Hp.
        assert (Hinp : In p (t_stack (thr s t))) by (rewrite Hs; left; reflexivity).
        pose proof (proj2 (HF t p Hinp) c w ctl r Hp) as Hold.
        rewrite (g_start_same cf s g t x (loaded_not_start _ _ _ _ _ Hp Hs) t).
        pose proof (g_lt_mono cf s g t x LF c r). lia.
      + assert (Hinf : In f (nx_frames nx1)) by (destruct (nx_frames nx1); [discriminate|injection H as ->; left; reflexivity]).
        destruct (resume_loaded _ _ _ _ _ _ _ _ _ _ _ Hres Hinf Hl) as (old & -> & ->).
        assert (Hz : inz (ld s t) rest) by (right; eapply in_hfree_false; [exact Hw0|reflexivity]).
        destruct (zone_step cf s g t x W Hnf LF CA CP ZV p rest s1 l1 evs nx Hr Hs He E Hz) as [_ HL].
        apply (HL f c w ctl r Hhd Hl). right. exists old, w, ctl. rewrite Hs. right. exact Hw0.
  Qed.

  Theorem step_HelpFresh : HelpFresh s' g'.
  Proof.
    pose proof (step_Quiet cf s t x W Hcalm Q Hnf) as Q'.
    pose proof (proj1 (step_WF2 cf s t x W)) as W'.
    intros t' f Hin. split.
    - intros c w ctl Hc th c' Ho Hreq. eapply help_part1; eassumption.
    - intros c w ctl r Hl. eapply help_part2; eassumption.
  Qed.
End Step.
