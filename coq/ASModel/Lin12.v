(** * ASModel.Lin12 — [Answered] is preserved by every step. *)
From Coq Require Import Lia ZArith Zify ZifyClasses ZifyBool ZifyN.
From ASModel Require Import Base State Orderings_gen Step Run Progress Hist Inv InvTl InvProto InvStep Sum StepCases
  GenDefs Gen1 Gen2 Gen3 Gen EnvDefs LinDefs Lin1 Lin2 Lin3 Lin4 Lin5 Lin6 Lin7 Lin8 Lin9 Lin10 Lin11.

Lemma env_of_env_val e : env_of (env_val e) = e.
Proof. unfold env_of, env_val. zify. Z.div_mod_to_equations. lia. Qed.

Lemma gen_not_repl v : is_gen v -> N.land v TAG_MASK <> REPLACEMENT_TAG.
Proof. unfold is_gen. intros ->. discriminate. Qed.

Lemma repl_decode v b :
  ctl_ok v b -> N.land v TAG_MASK = REPLACEMENT_TAG ->
  exists e, e < b /\ v = env_val e + 1 /\ env_of (v - N.land v TAG_MASK) = e.
Proof.
  intros [->|[Hg|(e & He & ->)]] Ht.
  - discriminate Ht.
  - exfalso. exact (gen_not_repl _ Hg Ht).
  - exists e. split; [exact He|]. split; [reflexivity|apply env_of_val].
Qed.

Lemma exec_lh2_ctrl cf s l c gt x s' l' evs nx :
  exec cf s l (LH2 c gt) x = (s', l', evs, nx) -> mem s' (LCtrl (own_node l)) = gt.
Proof. intros He. exec_norm He; cbn; apply upd_same. Qed.

Section Step.
  Variables (cf : config) (s : state) (g : ghost) (t x : N).
  Hypotheses (W : WF2 s) (Hcalm : Calm s) (Q : Quiet s) (GI : GenInv s) (EF : EnvFree s) (EA : EnvA s)
             (Hnf : NoFault (fst (step cf s t x))).
  Hypotheses (LF : LtFresh s g) (HF : HelpFresh s g) (AN : Answered s g).
  Local Notation s' := (fst (step cf s t x)).
  Local Notation g' := (snd (gstep cf (s, g) t x)).

  (** The request and the answer are untouched. *)
  Lemma answered_same w th c' gt :
    owner (thr s th) = Some w -> req_of (thr s th) = Some (c', gt) ->
    mem (sh s') (LCtrl w) = mem (sh s) (LCtrl w) ->
    (N.land (mem (sh s) (LCtrl w)) TAG_MASK = REPLACEMENT_TAG ->
     forall e, e = env_of (mem (sh s) (LCtrl w) - N.land (mem (sh s) (LCtrl w)) TAG_MASK) ->
               mem (sh s') (LEnv e) = mem (sh s) (LEnv e)) ->
    N.land (mem (sh s') (LCtrl w)) TAG_MASK = REPLACEMENT_TAG ->
    (g_lt g' c' (mem (sh s') (LEnv (env_of (mem (sh s') (LCtrl w) - N.land (mem (sh s') (LCtrl w)) TAG_MASK))))
       >= g_pub g' w)%nat.
  Proof.
    intros Ho Hreq Hc He Htag. rewrite Hc in *. rewrite (He Htag _ eq_refl).
    pose proof (AN w th c' gt Ho Hreq Htag) as Hold.
    rewrite (g_pub_same cf s g t x w (not_publishing cf s t x W Hnf th w c' gt Ho Hreq)).
    pose proof (g_lt_mono cf s g t x LF c' (mem (sh s) (LEnv (env_of (mem (sh s) (LCtrl w) - N.land (mem (sh s) (LCtrl w)) TAG_MASK))))).
    lia.
  Qed.

  (** Which envelopes a frame step leaves alone: all those named by a control word. *)
  Lemma env_kept p rest s1 l1 evs nx w e :
    t_status (thr s t) = Running -> t_stack (thr s t) = p :: rest ->
    exec cf (sh s) (t_loc (thr s t)) p x = (s1, l1, evs, nx) ->
    w < nn s -> N.land (mem (sh s) (LCtrl w)) TAG_MASK = REPLACEMENT_TAG ->
    e = env_of (mem (sh s) (LCtrl w) - N.land (mem (sh s) (LCtrl w)) TAG_MASK) ->
    mem s1 (LEnv e) = mem (sh s) (LEnv e).
  Proof.
    intros Hr Hs He Hw Htag ->.
    destruct (exec_env _ _ _ _ _ _ _ _ _ (env_of (mem (sh s) (LCtrl w) - N.land (mem (sh s) (LCtrl w)) TAG_MASK)) He)
      as [H|[(c & old & w0 & ctl & r & their & mine & -> & Hx)|(h & -> & Hh & Hx)]]; [exact H|exfalso..].
    - destruct (EF t c old w0 ctl r their mine rest Hr Hs) as (H1 & _). exact (H1 w Htag Hx).
    - destruct (repl_decode _ _ (w_ctl _ W w Hw) Htag) as (e & Hlt & _ & Henv). unfold nn in Hlt. lia.
  Qed.

  (** The helper's compare-exchange succeeded: the request is answered with a fresh value. *)
  Lemma answered_pe7 c old w ctl r their mine rest s1 l1 evs nx th c' gt :
    t_status (thr s t) = Running -> t_stack (thr s t) = PE7 c old w ctl r their mine :: rest ->
    exec cf (sh s) (t_loc (thr s t)) (PE7 c old w ctl r their mine) x = (s1, l1, evs, nx) ->
    mem (sh s) (LCtrl w) = ctl -> mem s1 (LCtrl w) = N.lor mine REPLACEMENT_TAG ->
    th <> t -> owner (thr s th) = Some w -> req_of (thr s th) = Some (c', gt) ->
    (g_lt g' c' (mem s1 (LEnv (env_of (mem s1 (LCtrl w) - N.land (mem s1 (LCtrl w)) TAG_MASK)))) >= g_pub g' w)%nat.
  Proof.
    intros Hr Hs He Hctl Hnew Hne Ho Hreq.
    destruct (help_cas_sound s t c old w ctl r their mine rest W Q GI Hr Hs Hctl) as (th0 & _ & Ho0 & Hreq0 & _).
    assert (th0 = th) as -> by (eapply owner_unique; eassumption).
    rewrite Hreq in Hreq0. injection Hreq0 as -> ->.
    assert (Hin : In (PE7 c old w ctl r their mine) (t_stack (thr s t))) by (rewrite Hs; left; reflexivity).
    pose proof (all_frames_ok s t _ W Q Hin) as Hok. cbn in Hok. destruct Hok as (_ & _ & _ & (e0 & _ & Hmine)).
    rewrite Hnew, Hmine, lor_env, env_of_val.
    pose proof (EA t c old w ctl r their mine rest Hs) as Henv. rewrite Hmine, env_of_env_val in Henv.
    assert (Hkeep : mem s1 (LEnv e0) = mem (sh s) (LEnv e0)).
    { destruct (exec_env _ _ _ _ _ _ _ _ _ e0 He) as [H|[(? & ? & ? & ? & ? & ? & ? & Hx & _)|(? & Hx & _)]];
        [exact H|discriminate Hx..]. }
    rewrite Hkeep, Henv.
    destruct (HF t _ Hin) as [H1 H2].
    pose proof (H1 c w ctl eq_refl th c Ho Hreq) as Hp.
    pose proof (H2 c w ctl r eq_refl) as Hl.
    assert (Hnp : publishes_now s t <> Some w).
    { unfold publishes_now. rewrite Hr, Hs. discriminate. }
    rewrite (g_pub_same cf s g t x w Hnp).
    pose proof (g_lt_mono cf s g t x LF c r). lia.
  Qed.
End Step.
