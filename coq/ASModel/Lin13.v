(** * ASModel.Lin13 — [Answered] is preserved by every step (the case analysis). *)
From Coq Require Import Lia.
From ASModel Require Import Base State Orderings_gen Step Run Progress Hist Inv InvTl InvProto InvStep Sum StepCases
  GenDefs Gen1 Gen2 Gen3 Gen EnvDefs LinDefs Lin1 Lin2 Lin3 Lin4 Lin5 Lin6 Lin7 Lin8 Lin9 Lin10 Lin11 Lin12.

Section Step.
  Variables (cf : config) (s : state) (g : ghost) (t x : N).
  Hypotheses (W : WF2 s) (Hcalm : Calm s) (Q : Quiet s) (GI : GenInv s) (EF : EnvFree s) (EA : EnvA s)
             (Hnf : NoFault (fst (step cf s t x))).
  Hypotheses (LF : LtFresh s g) (HF : HelpFresh s g) (AN : Answered s g).
  Local Notation s' := (fst (step cf s t x)).
  Local Notation g' := (snd (gstep cf (s, g) t x)).

  Theorem step_Answered : Answered s' g'.
  Proof.
    intros w th c' gt Ho Hreq Htag.
    destruct (N.eq_dec th t) as [->|Hne].
    - (* the acting thread holds the request *)
      assert (Hreq' : hd_req (t_stack (thr s' t)) = Some (c', gt)).
      { rewrite req_of_top in Hreq. exact Hreq. }
      destruct (step_cases2 cf s t x) as [Hr E|c Hr Hs Hcc Hen E|c s1 l1 stk r Hr Hs Hcc Hen Hcs E|n0 Hr Hs Hcc Hn E|Hr Hs Hcc Hn E|p rest s1 l1 evs nx Hr Hs He E].
      + exfalso. rewrite E in Hreq'. destruct (q_stop _ Q t Hr) as [Hs _]. rewrite Hs in Hreq'. discriminate.
      + exfalso. rewrite E in Hreq'. rewrite Hs in Hreq'. discriminate.
      + exfalso. rewrite E in Hreq'. cbn in Hreq'. rewrite upd_same, start_thread_stack in Hreq'.
        destruct (cmd_start_top _ _ _ _ _ _ _ _ Hcs (calm_cmd _ _ _ Hcalm Hcc)) as [Hx _]. congruence.
      + exfalso. rewrite E in Hreq'. cbn in Hreq'. rewrite upd_same in Hreq'. discriminate.
      + exfalso. rewrite E in Hreq'. cbn in Hreq'. rewrite upd_same in Hreq'. discriminate.
      + pose proof (g_top _ GI t Hr) as Hg. rewrite Hs in Hg. inversion Hg as [|? ? Hgp Hgr]; subst.
        pose proof (ex_thr cf s t x rest s1 l1 nx E) as Et. pose proof (ex_sh cf s t x rest s1 l1 nx E) as Esh.
        destruct (exec_settle _ _ _ _ _ _ _ _ _ _ W Hnf Hr Hs He) as [Hns Hset].
        pose proof (gentop_no_setgen _ _ Hgr) as Hng.
        pose proof (exec_view _ _ _ _ _ _ _ _ _ He Hns (proj1 (Hcalm t)) Hgp) as (_ & _ & _ & V4).
        rewrite Et in Hreq', Ho. rewrite (settle_req _ _ _ _ _ _ _ Hset Hng) in Hreq'.
        unfold owner in Ho. rewrite (settle_node _ _ _ _ _ _ _ Hset) in Ho.
        pose proof (exec_special _ _ _ _ _ _ _ _ _ He Hns) as Hsp.
        rewrite Esh in *.
        destruct (V4 _ Hreq') as [Hp|(Hp & _ & _)].
        * (* LH3, LH3d, LH4: nothing relevant changes *)
          assert (Hp5 : forall a b d, p <> LH5 a b d).
          { intros a b d ->. destruct (exec_lh5 _ _ _ _ _ _ _ _ _ _ _ He Hns) as [[_ [Hx|Hx]]|[_ Hx]]; rewrite Hx in Hreq'; discriminate. }
          assert (Hl1 : l1 = t_loc (thr s t)).
          { destruct p; try discriminate Hp; cbn [special_next] in Hsp; try (apply Hsp). exfalso. eapply Hp5; reflexivity. }
          subst l1.
          assert (Hreq0 : req_of (thr s t) = Some (c', gt)) by (rewrite req_of_top, Hs; exact Hp).
          assert (Hw : w < nn s) by (eapply (w_lt _ W); apply owner_holder; exact Ho).
          assert (Hc : mem s1 (LCtrl w) = mem (sh s) (LCtrl w)).
          { destruct (exec_ctrl _ _ _ _ _ _ _ _ _ w He) as [H|[(? & ? & -> & _)|[(? & ? & ? & -> & _)|[(? & ? & ? & ? & ? & ? & -> & _)|(? & -> & _)]]]];
              [exact H|cbn in Hp; try discriminate Hp..]. exfalso. eapply Hp5; reflexivity. }
          pose proof (answered_same cf s g t x W Hnf LF AN w t c' gt Ho Hreq0) as Hsame. rewrite Esh in Hsame.
          apply Hsame; [exact Hc| |exact Htag].
          intros Ht e ->. eapply env_kept; try eassumption. reflexivity.
        * (* LH2 publishes: the control word carries the generation *)
          exfalso. destruct p; try discriminate Hp; cbn [special_next] in Hsp.
          -- destruct Hsp as [_ ->]. discriminate Hreq'.
          -- destruct Hsp as (_ & Hnode & _). rewrite Hnode in Ho.
             pose proof (exec_lh2_ctrl _ _ _ _ _ _ _ _ _ _ He) as Hc. unfold own_node in Hc. rewrite Ho in Hc.
             rewrite Hc in Htag. cbn in Hgp. subst gt0.
             destruct (running_stk_ok s t W Hr) as [Htl _]. rewrite Hs in Htl. destruct Htl as (_ & _ & _ & _ & _ & Hgok).
             exact (gen_not_repl _ (lor_gen _ (proj1 Hgok)) Htag).
    - (* somebody else holds the request *)
      rewrite (other_thr cf s t x th Hne) in Ho, Hreq.
      assert (Hw : w < nn s) by (eapply (w_lt _ W); apply owner_holder; exact Ho).
      pose proof (answered_same cf s g t x W Hnf LF AN w th c' gt Ho Hreq) as Hsame.
      destruct (step_cases2 cf s t x) as [Hr E|c Hr Hs Hcc Hen E|c s1 l1 stk r Hr Hs Hcc Hen Hcs E|n0 Hr Hs Hcc Hn E|Hr Hs Hcc Hn E|p rest s1 l1 evs nx Hr Hs He E].
      + apply Hsame; [rewrite E; reflexivity|intros; rewrite E; reflexivity|exact Htag].
      + apply Hsame; [rewrite E; reflexivity|intros; rewrite E; reflexivity|exact Htag].
      + destruct (cmd_start_effect _ _ _ _ _ _ _ _ Hcs) as (_ & _ & Hmem & _).
        apply Hsame; [rewrite E; apply Hmem; discriminate|intros; rewrite E; apply Hmem; discriminate|exact Htag].
      + apply Hsame; [rewrite E; reflexivity|intros; rewrite E; reflexivity|exact Htag].
      + apply Hsame; [rewrite E; reflexivity|intros; rewrite E; reflexivity|exact Htag].
      + pose proof (ex_sh cf s t x rest s1 l1 nx E) as Esh. rewrite Esh in *.
        destruct (exec_ctrl _ _ _ _ _ _ _ _ _ w He) as
          [H|[(c0 & gt0 & -> & Hown & _)|[(c0 & gt0 & cand & -> & Hown & _)|[(c0 & old & ctl & r & their & mine & -> & Hctl & Hnew)|(h & -> & Hh & Hwh & _)]]]].
        * apply Hsame; [exact H| |exact Htag]. intros Ht e ->. eapply env_kept; try eassumption. reflexivity.
        * exfalso. destruct (running_node s t _ _ W Hr Hs eq_refl) as (n & _ & Hon & _ & Hot).
          apply Hne. eapply owner_unique; [exact W|exact Ho|]. rewrite Hown, Hon. exact Hot.
        * exfalso. destruct (running_node s t _ _ W Hr Hs eq_refl) as (n & _ & Hon & _ & Hot).
          apply Hne. eapply owner_unique; [exact W|exact Ho|]. rewrite Hown, Hon. exact Hot.
        * eapply answered_pe7; eassumption.
        * exfalso. unfold nn in Hw. lia.
  Qed.
End Step.
