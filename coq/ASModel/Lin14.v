(** * ASModel.Lin14 — the stack of a running [CLoad] / [CLoadFull] command is well typed:
    every frame hands the frame below the kind of value it waits for, and the bottom frame
    receives a guard ([CLoad]) resp. an owned pointer ([CLoadFull]).  Hence the completing
    step does write a pointer into the command's handle ([load_returns_fresh] is not vacuous). *)
From Coq Require Import Lia.
From ASModel Require Import Base State Orderings_gen Step Run Progress Hist Inv InvTl InvProto InvStep Sum StepCases
  GenDefs Gen1 Gen2 Gen3 Gen EnvDefs LinDefs Lin1 Lin2 Lin3 Lin4 Lin5 Lin6 Lin7 Lin8.

Inductive rk := KNode | KUnit | KGuard | KOwned.

Definition kind_of (r : retval) : option rk :=
  match r with RNode _ => Some KNode | RUnit => Some KUnit | RGuard _ _ => Some KGuard | ROwned _ => Some KOwned
             | RPanic => None end.

(** What a frame of a load (eventually) returns. *)
Definition ret_kind (p : pc) : option rk :=
  match p with
  | GHead | GCool1 _ | GCool2 _ | GCool3 _ | GBack _ | GClaim _ | GPush0 | GPush _ => Some KNode
  | C1 _ | C2 _ | C3 _ => Some KUnit
  | LA1 _ | LA1d _ _ | LAscan _ _ _ | LA3 _ _ _ | LA4 _ _ _ | LA5 _ _ _ | LA6 _ _
  | LH0d _ | LH1 _ _ | LH2 _ _ | LH3 _ _ | LH3d _ _ _ | LH4 _ _ _ | LH5 _ _ _
  | LH6a _ | LH6b _ | LH6c _ | LH7 _ _ | LH8 _ _ _ | LH9 _ _ | LH10 _ _
  | WGetLoad _ | WExit (RGuard _ _) => Some KGuard
  | GI1 _ _ | GI2 _ _ | PDec _ (ROwned _) | WLoadFull => Some KOwned
  | _ => None
  end.

(** What a waiting frame of a load waits for. *)
Definition expects (w : pc) : option rk :=
  match w with
  | WGetLoad _ => Some KNode
  | WExit _ => Some KUnit
  | WLoadFull => Some KGuard
  | _ => None
  end.

Definition below (K : rk) (r : list pc) : option rk :=
  match r with [] => None | w :: _ => if is_kdone w then Some K else expects w end.

Fixpoint tstk (K : rk) (stk : list pc) : Prop :=
  match stk with
  | [] => True
  | f :: r => if is_kdone f then True else ret_kind f <> None /\ ret_kind f = below K r /\ tstk K r
  end.

(** A non-empty list of frames, each returning into the next, the last returning [k]. *)
Fixpoint chain (l : list pc) (k : rk) : Prop :=
  match l with
  | [] => False
  | f :: r => match r with
              | [] => ret_kind f = Some k
              | w :: _ => ret_kind f <> None /\ ret_kind f = expects w /\ chain r k
              end
  end.

Definition nx_kind (k : rk) (nx : next) : Prop :=
  match nx with
  | NGoto q => ret_kind q = Some k
  | NPush fs w => chain (fs ++ [w]) k
  | NRet rv => kind_of rv = Some k
  | _ => True
  end.

Lemma ret_kind_not_kdone f : ret_kind f <> None -> is_kdone f = false.
Proof. destruct f; cbn; congruence. Qed.

Lemma expects_not_kdone f k : expects f = Some k -> is_kdone f = false.
Proof. destruct f; cbn; congruence. Qed.

Lemma chain_tstk K l k rest : chain l k -> below K rest = Some k -> tstk K rest -> tstk K (l ++ rest).
Proof.
  induction l as [|f l IH]; intros Hc Hb Ht; [destruct Hc|].
  destruct l as [|w l].
  - cbn in Hc. cbn [app tstk]. rewrite ret_kind_not_kdone by congruence. split; [congruence|split; [congruence|exact Ht]].
  - destruct Hc as (H1 & H2 & H3). specialize (IH H3 Hb Ht).
    change ((f :: w :: l) ++ rest) with (f :: (w :: l) ++ rest). cbn [tstk].
    rewrite (ret_kind_not_kdone _ H1). split; [exact H1|]. split; [|exact IH].
    cbn [app below]. destruct (expects w) as [k'|] eqn:He; [|congruence].
    rewrite (expects_not_kdone _ _ He). exact H2.
Qed.

(** ** Helper functions *)
Lemma with_exit_kind l v d l' nx : with_exit l (RGuard v d) = (l', nx) -> nx_kind KGuard nx.
Proof. unfold with_exit. intros H. destr_in H; injection H as <- <-; cbn; auto; repeat split; congruence. Qed.

Lemma fallback_entry_kind cf l c l' nx : fallback_entry cf l c = (l', nx) -> nx_kind KGuard nx.
Proof. unfold fallback_entry. intros H. destr_in H; injection H as <- <-; cbn; auto. Qed.

Lemma gen_step_kind cf l c l' nx : gen_step cf l c = (l', nx) -> nx_kind KGuard nx.
Proof. unfold gen_step. intros H. destr_in H; injection H as <- <-; cbn; auto. Qed.

Lemma load_body_kind cf l c l' nx : load_body cf l c = (l', nx) -> nx_kind KGuard nx.
Proof.
  unfold load_body. destruct (cf_use_fast cf); [|apply fallback_entry_kind]. intros [= <- <-]. reflexivity.
Qed.

Lemma enter_load_chain cf l c l' fs : enter_load cf l c = inl (l', fs) -> chain fs KGuard.
Proof.
  unfold enter_load. intros H. destruct (tl_node l).
  - destruct (load_body cf (tl_set_depth l (tl_depth l + 1)) c) as [l2 nx] eqn:Hb.
    apply load_body_kind in Hb. destruct nx; try discriminate. injection H as <- <-. exact Hb.
  - injection H as <- <-. cbn. repeat split; congruence.
Qed.

Lemma dec_then_kind v : nx_kind KOwned (dec_then v (ROwned v)).
Proof. unfold dec_then. destruct (v =? 0); reflexivity. Qed.

Lemma exec_kind cf s l p x s' l' evs nx k :
  exec cf s l p x = (s', l', evs, nx) -> ret_kind p = Some k -> nx_kind k nx.
Proof.
  intros He Hk.
  destruct p; try discriminate Hk; try (destruct r; try discriminate Hk); injection Hk as <-; exec_norm He.
  all: try (match goal with
            | H : with_exit _ (RGuard _ _) = (_, ?n) |- nx_kind _ ?n => exact (with_exit_kind _ _ _ _ _ H)
            | H : fallback_entry _ _ _ = (_, ?n) |- nx_kind _ ?n => exact (fallback_entry_kind _ _ _ _ _ H)
            | H : gen_step _ _ _ = (_, ?n) |- nx_kind _ ?n => exact (gen_step_kind _ _ _ _ _ H)
            | |- nx_kind _ (dec_then _ _) => apply dec_then_kind
            end).
  all: try (cbn; auto; fail).
  all: cbn; repeat match goal with |- context [if ?b then _ else _] => destruct b end; cbn; auto.
Qed.

Lemma resume_kind cf l w v l' nx k :
  resume cf l w v = (l', nx) -> ret_kind w = Some k -> expects w = kind_of v -> nx_kind k nx.
Proof.
  intros He Hk Hx.
  destruct w; try discriminate Hk; try (destruct r; try discriminate Hk); injection Hk as <-; cbn in Hx; unfold resume in He.
  all: try (injection He as <- <-; exact I).
  - destruct v; try discriminate Hx. eapply load_body_kind. exact He.
  - injection He as <- <-. reflexivity.
  - destruct v; try discriminate Hx. unfold guard_into_frames in He.
    destruct d as [sl|]; [destruct (p =? 0)|]; injection He as <- <-; reflexivity.
Qed.

(** ** Unwinding *)
Lemma below_resume K w rest0 k : is_bottom_frame w = false -> below K (w :: rest0) = Some k -> expects w = Some k.
Proof.
  intros Hb H. cbn in H. destruct (is_kdone w) eqn:Hk; [rewrite (kdone_bottom _ Hk) in Hb; discriminate|exact H].
Qed.

Lemma settle_tstk cf K l rest nx l2 stk st :
  settle cf l rest nx l2 stk st -> forall k, tstk K rest -> below K rest = Some k -> nx_kind k nx -> tstk K stk.
Proof.
  induction 1 as [l rest p|l rest fs w|l v|l v b post Hb Hne|l v post|l v w rest l' nx l'' stk st Hb Hr Hs IH];
    intros k Ht Hbl Hn; try exact I.
  - cbn in Hn. apply (chain_tstk K [p] k rest); [exact Hn|exact Hbl|exact Ht].
  - cbn in Hn. replace (fs ++ w :: rest) with ((fs ++ [w]) ++ rest) by (rewrite <- app_assoc; reflexivity).
    eapply chain_tstk; eassumption.
  - pose proof (below_resume K w rest k Hb Hbl) as He. cbn in Hn.
    cbn [tstk] in Ht. destruct (is_kdone w) eqn:Hk; [rewrite (kdone_bottom _ Hk) in Hb; discriminate|].
    destruct Ht as (H1 & H2 & H3). destruct (ret_kind w) as [k'|] eqn:Hk'; [|congruence].
    apply (IH k' H3 (eq_sym H2)). eapply resume_kind; [exact Hr|exact Hk'|congruence].
Qed.

Lemma unwind_kind cf K : forall rest l rv k, tstk K rest -> below K rest = Some k -> kind_of rv = Some k ->
  match unwind cf l rest rv with
  | UDone _ _ rv' => kind_of rv' = Some K
  | _ => True
  end.
Proof.
  induction rest as [|w rest IH]; intros l rv k Ht Hb Hv; [discriminate Hb|].
  cbn [tstk] in Ht. destruct (is_kdone w) eqn:Hk.
  - destruct w; try discriminate Hk. cbn in Hb. cbn. congruence.
  - destruct Ht as (H1 & H2 & H3). cbn in Hb. rewrite Hk in Hb.
    destruct (ret_kind w) as [k'|] eqn:Hk'; [|congruence].
    pose proof (resume_kind cf l w rv) as Hres.
    destruct w; try discriminate Hb; cbn [unwind].
    all: match goal with |- context [resume ?cf0 ?l0 ?w0 ?v0] =>
           destruct (resume cf0 l0 w0 v0) as [l' nx] eqn:Hr end.
    all: specialize (Hres l' nx k' eq_refl Hk' ltac:(congruence)).
    all: destruct nx as [p'|fs w'|v'|ps|f]; try exact I.
    all: exact (IH l' v' k' H3 (eq_sym H2) Hres).
Qed.

(** ** The invariant *)
Definition load_kind (c : cmd) : option rk :=
  match c with CLoad _ _ => Some KGuard | CLoadFull _ _ => Some KOwned | _ => None end.

Definition LdTyped (s : state) : Prop :=
  forall t cm K, cur_cmd s t = Some cm -> load_kind cm = Some K -> tstk K (t_stack (thr s t)).

Lemma LdTyped_init inits progs : LdTyped (init_state inits progs).
Proof.
  intros t cm K _ _. replace (t_stack (thr (init_state inits progs) t)) with (@nil pc); [exact I|].
  symmetry. cbn. apply init_threads_stack. cbn. auto.
Qed.

Lemma cmd_start_typed cf s l c s' l' stk r K :
  cmd_start cf s l c = inl (s', l', stk, r) -> load_kind c = Some K -> tstk K stk.
Proof.
  intros Hc Hk. destruct c; try discriminate Hk; injection Hk as <-; cbn in Hc; destr_in Hc; try discriminate;
    injection Hc as <- <- <- <-.
  - eapply chain_tstk; [eapply enter_load_chain; eassumption|reflexivity|exact I].
  - eapply chain_tstk; [eapply enter_load_chain; eassumption|reflexivity|].
    cbn. repeat split; congruence.
Qed.

Theorem step_LdTyped cf s t x :
  WF2 s -> NoFault (fst (step cf s t x)) -> LdTyped s -> LdTyped (fst (step cf s t x)).
Proof.
  intros W Hnf LT t' cm K Hc Hk.
  destruct (N.eq_dec t' t) as [->|Hne].
  2: { rewrite (other_thr cf s t x t' Hne). apply (LT t' cm K); [|exact Hk].
       rewrite <- (cur_cmd_thr s _ t' (other_thr cf s t x t' Hne)). exact Hc. }
  destruct (step_cases2 cf s t x) as [Hr E|c0 Hr Hs Hcc Hen E|c0 s1 l1 stk r Hr Hs Hcc Hen Hcs E|n Hr Hs Hcc Hn E|Hr Hs Hcc Hn E|p rest s1 l1 evs nx Hr Hs He E].
  - rewrite E in *. exact (LT t cm K Hc Hk).
  - rewrite E in *. exact (LT t cm K Hc Hk).
  - rewrite E in *. cbn. rewrite upd_same, start_thread_stack.
    destruct stk as [|f0 stk]; [exact I|].
    rewrite cur_cmd_start in Hc by discriminate. unfold cur_cmd in Hcc. rewrite Hcc in Hc. injection Hc as ->.
    eapply cmd_start_typed; eassumption.
  - exfalso. rewrite E in Hc. unfold cur_cmd, set_thread in Hc. cbn in Hc. rewrite upd_same in Hc. cbn in Hc.
    unfold cur_cmd in Hcc. congruence.
  - rewrite E. cbn. rewrite upd_same. exact I.
  - destruct (exec_settle _ _ _ _ _ _ _ _ _ _ W Hnf Hr Hs He) as [Hns Hset].
    assert (Et : thr (fst (step cf s t x)) t = thread_after cf (thr s t) l1 rest nx) by (rewrite E; cbn; apply upd_same).
    destruct (t_stack (thr (fst (step cf s t x)) t)) as [|f0 stk2] eqn:Hstk; [exact I|].
    assert (Hcur : cur_cmd (fst (step cf s t x)) t = cur_cmd s t).
    { eapply cur_cmd_after; [exact Et|]. rewrite Hstk. discriminate. }
    rewrite Hcur in Hc. pose proof (LT t cm K Hc Hk) as Hold. rewrite Hs in Hold.
    destruct (running_stk_ok s t W Hr) as [Htl _]. rewrite Hs in Htl. destruct Htl as (Hnw & _).
    cbn [tstk] in Hold. rewrite (proj2 (not_waiting_not_help _ Hnw)) in Hold. destruct Hold as (H1 & H2 & H3).
    destruct (ret_kind p) as [k|] eqn:Hkp; [|congruence].
    rewrite <- Hstk, Et. eapply settle_tstk; [exact Hset|exact H3|symmetry; exact H2|].
    eapply exec_kind; eassumption.
Qed.

(** The value handed to the bottom frame of a load command has the command's kind. *)
Lemma unwind_typed cf p rest K l1 v0 k :
  tstk K (p :: rest) -> is_waiting p = false -> ret_kind p = Some k -> kind_of v0 = Some k ->
  match unwind cf l1 rest v0 with UDone _ _ rv' => kind_of rv' = Some K | _ => True end.
Proof.
  intros Ht Hnw Hk Hv. cbn [tstk] in Ht. rewrite (proj2 (not_waiting_not_help _ Hnw)) in Ht.
  destruct Ht as (_ & H2 & H3). eapply unwind_kind; [exact H3|rewrite <- H2; exact Hk|exact Hv].
Qed.
