(** * ASModel.Lin2 — the ghost state: what one instrumented step does to it; [lt_sound]. *)
From Coq Require Import Lia.
From ASModel Require Import Base State Orderings_gen Step Run Progress Hist Inv InvTl InvProto InvStep Sum StepCases
  GenDefs Gen1 Gen2 Gen3 Gen EnvDefs LinDefs Lin1.

Lemma gstep_fst cf s g t x : fst (gstep cf (s, g) t x) = fst (step cf s t x).
Proof. reflexivity. Qed.

Lemma grun_snoc cf sg sched tx : grun cf sg (sched ++ [tx]) = gstep cf (grun cf sg sched) (fst tx) (snd tx).
Proof. unfold grun. rewrite fold_left_app. reflexivity. Qed.

Lemma run_state_snoc cf s sched tx :
  run_state cf s (sched ++ [tx]) = fst (step cf (run_state cf s sched) (fst tx) (snd tx)).
Proof. unfold run_state. rewrite fold_left_app. reflexivity. Qed.

Lemma grun_fst cf : forall sched s g, fst (grun cf (s, g) sched) = run_state cf s sched.
Proof.
  induction sched as [|[t x] sched IH]; intros s g; [reflexivity|].
  cbn [grun fold_left]. change (fold_left _ sched ?a) with (grun cf a sched).
  cbn [fst snd]. unfold gstep at 1. rewrite IH. reflexivity.
Qed.

Lemma grun_cons cf s g t x sched :
  grun cf (s, g) ((t, x) :: sched) = grun cf (gstep cf (s, g) t x) sched.
Proof. reflexivity. Qed.

(** The ghost after a step, field by field. *)
Section GhostStep.
  Variables (cf : config) (s : state) (g : ghost) (t x : N).
  Let s' := fst (step cf s t x).
  Let g' := snd (gstep cf (s, g) t x).

  Lemma g_now_step : g_now g' = S (g_now g).
  Proof. reflexivity. Qed.

  Lemma g_lt_step c v :
    g_lt g' c v = if mem (sh s') (LStore c) =? v then S (g_now g) else g_lt g c v.
  Proof. reflexivity. Qed.

  Lemma g_start_step t' :
    g_start g' t' = if (t' =? t) && starts_now s t then S (g_now g) else g_start g t'.
  Proof. reflexivity. Qed.

  Lemma g_pub_step n :
    g_pub g' n = match publishes_now s t with
                 | Some n' => if n =? n' then S (g_now g) else g_pub g n
                 | None => g_pub g n
                 end.
  Proof. reflexivity. Qed.

  Hypothesis LF : LtFresh s g.

  Lemma g_lt_mono c v : (g_lt g c v <= g_lt g' c v)%nat.
  Proof.
    rewrite g_lt_step. destruct LF as (_ & H & _). specialize (H c v). destruct (_ =? _); lia.
  Qed.

  Lemma g_lt_now c : g_lt g' c (mem (sh s') (LStore c)) = S (g_now g).
  Proof. rewrite g_lt_step, N.eqb_refl. reflexivity. Qed.

  Lemma g_start_other t' : t' <> t -> g_start g' t' = g_start g t'.
  Proof. intros H. rewrite g_start_step. apply N.eqb_neq in H. rewrite H. reflexivity. Qed.

  Lemma g_start_same : starts_now s t = false -> forall t', g_start g' t' = g_start g t'.
  Proof. intros H t'. rewrite g_start_step, H, andb_false_r. reflexivity. Qed.

  Lemma g_start_le t' : (g_start g t' <= g_start g' t')%nat /\ (g_start g' t' <= S (g_now g))%nat.
  Proof.
    rewrite g_start_step. destruct LF as (_ & _ & H & _). specialize (H t'). destruct (_ && _); lia.
  Qed.

  Lemma g_pub_le n : (g_pub g n <= g_pub g' n)%nat /\ (g_pub g' n <= S (g_now g))%nat.
  Proof.
    rewrite g_pub_step. destruct LF as (_ & _ & _ & H). specialize (H n).
    destruct (publishes_now s t); [destruct (_ =? _)|]; lia.
  Qed.

  Lemma g_pub_same n : publishes_now s t <> Some n -> g_pub g' n = g_pub g n.
  Proof.
    intros H. rewrite g_pub_step. destruct (publishes_now s t) as [n'|]; [|reflexivity].
    destruct (N.eqb_spec n n') as [->|_]; [congruence|reflexivity].
  Qed.

  Lemma LtFresh_step : LtFresh s' g'.
  Proof.
    split; [|split; [|split]].
    - intros c. apply g_lt_now.
    - intros c v. rewrite g_now_step, g_lt_step. destruct LF as (_ & H & _). specialize (H c v). destruct (_ =? _); lia.
    - intros t'. rewrite g_now_step. apply g_start_le.
    - intros n. rewrite g_now_step. apply g_pub_le.
  Qed.
End GhostStep.

Lemma LtFresh_init inits progs : LtFresh (init_state inits progs) ghost0.
Proof. repeat split; intros; cbn; lia. Qed.

(** ** [g_lt] is sound: it names a state of the run in which the container held the value. *)
Lemma grun_now cf : forall sched s g, g_now (snd (grun cf (s, g) sched)) = (g_now g + length sched)%nat.
Proof.
  induction sched as [|[t x] sched IH]; intros s g; [cbn; lia|].
  rewrite grun_cons. unfold gstep. rewrite IH. cbn. lia.
Qed.

Theorem lt_sound cf s0 sched c v :
  let k := g_lt (snd (grun cf (s0, ghost0) sched)) c v in
  (k <= length sched)%nat /\
  ((k > 0)%nat -> mem (sh (run_state cf s0 (firstn k sched))) (LStore c) = v).
Proof.
  induction sched as [|tx sched IH] using rev_ind; [cbn; split; [lia|intros; lia]|].
  cbn zeta in *. rewrite grun_snoc.
  destruct (grun cf (s0, ghost0) sched) as [s1 g1] eqn:Hg.
  assert (Hs1 : s1 = run_state cf s0 sched) by (rewrite <- (grun_fst cf sched s0 ghost0), Hg; reflexivity).
  assert (Hn : g_now g1 = length sched).
  { pose proof (grun_now cf sched s0 ghost0) as H. rewrite Hg in H. exact H. }
  cbn [snd] in IH. rewrite g_lt_step, Hn, app_length. cbn [length].
  destruct (N.eqb_spec (mem (sh (fst (step cf s1 (fst tx) (snd tx)))) (LStore c)) v) as [E|E].
  - split; [lia|]. intros _. replace (S (length sched)) with (length (sched ++ [tx])) by (rewrite app_length; cbn; lia).
    rewrite firstn_all, run_state_snoc, <- Hs1. exact E.
  - destruct IH as [IH1 IH2]. split; [lia|]. intros Hk.
    rewrite firstn_app. replace (g_lt g1 c v - length sched)%nat with 0%nat by lia.
    cbn [firstn]. rewrite app_nil_r. apply IH2. exact Hk.
Qed.

(** ** Threads other than the acting one *)
Lemma cur_cmd_other cf s t x t' : t' <> t -> cur_cmd (fst (step cf s t x)) t' = cur_cmd s t'.
Proof. intros H. unfold cur_cmd. rewrite (step_status_other cf s t x t' H). reflexivity. Qed.

Lemma cur_cmd_thr s s' t : thr s' t = thr s t -> cur_cmd s' t = cur_cmd s t.
Proof. intros H. unfold cur_cmd. rewrite H. reflexivity. Qed.

Lemma cur_cmd_eq s s' t :
  t_prog (thr s' t) = t_prog (thr s t) -> t_cmdi (thr s' t) = t_cmdi (thr s t) -> cur_cmd s' t = cur_cmd s t.
Proof. intros H1 H2. unfold cur_cmd. rewrite H1, H2. reflexivity. Qed.

Lemma Fr_mono cf s g t x t' v :
  LtFresh s g -> (forall c, named (fst (step cf s t x)) t' c -> named s t' c) ->
  g_start (snd (gstep cf (s, g) t x)) t' = g_start g t' ->
  Fr s g t' v -> Fr (fst (step cf s t x)) (snd (gstep cf (s, g) t x)) t' v.
Proof.
  intros LF Hc Hst H c Hcc. specialize (H c (Hc c Hcc)).
  rewrite Hst. pose proof (g_lt_mono cf s g t x LF c v). lia.
Qed.

Lemma named_thr s s' t c : thr s' t = thr s t -> named s' t c -> named s t c.
Proof. intros H. unfold named, ld, cur_cont0, cur_cmd. rewrite H. auto. Qed.
