(** * ASModel.Lin3 — frame-level facts: frames of a load produce frames of a load, the values
    they carry, where [WHelpRepl] / [PE4..PE7] / [LH7] frames come from, containers. *)
From Coq Require Import Lia.
From ASModel Require Import Base State Orderings_gen Step Run Progress Hist Inv InvTl InvProto InvStep Sum StepCases
  GenDefs Gen1 Gen2 Gen3 Gen EnvDefs LinDefs Lin1.

(** ** Frames of a load are closed under the step; values are passed on *)
Section Lfv.
  Variable P : N -> Prop.

  Definition nx_lfv (nx : next) : Prop :=
    Forall (lfv P) (nx_frames nx) /\ (forall rv, nx = NRet rv -> rvok P rv).

  Lemma nx_lfv_goto f : lfr f = true -> vok P f -> nx_lfv (NGoto f).
  Proof. intros H1 H2. split; [constructor; [split; assumption|constructor]|discriminate]. Qed.

  Lemma nx_lfv_stop nx : nx_stops nx -> nx_lfv nx.
  Proof. destruct nx; cbn; try contradiction; intros _; (split; [constructor|discriminate]). Qed.

  Lemma vok_none f : fval f = None -> vok P f.
  Proof. intros H v Hv. congruence. Qed.

  Lemma with_exit_lfv l v d l' nx : with_exit l (RGuard v d) = (l', nx) -> P v -> nx_lfv nx.
  Proof.
    unfold with_exit. intros H Hv. destr_in H; injection H as <- <-.
    - split; [|discriminate]. cbn. constructor; [split; [reflexivity|apply vok_none; reflexivity]|].
      constructor; [|constructor]. split; [reflexivity|]. intros v0 [= <-]. exact Hv.
    - split; [constructor|]. intros rv [= <-] v0 [= <-]. exact Hv.
    - split; [constructor|]. intros rv [= <-] v0 [= <-]. exact Hv.
  Qed.

  Lemma fallback_entry_lfv cf l c l' nx : fallback_entry cf l c = (l', nx) -> nx_lfv nx.
  Proof.
    unfold fallback_entry. intros H. destr_in H; injection H as <- <-.
    - apply nx_lfv_goto; [reflexivity|apply vok_none; reflexivity].
    - apply nx_lfv_goto; [reflexivity|apply vok_none; reflexivity].
    - apply nx_lfv_stop. exact I.
  Qed.

  Lemma gen_step_lfv cf l c l' nx : gen_step cf l c = (l', nx) -> nx_lfv nx.
  Proof.
    unfold gen_step. intros H. destr_in H; injection H as <- <-.
    - apply nx_lfv_stop. exact I.
    - apply nx_lfv_goto; [reflexivity|apply vok_none; reflexivity].
  Qed.

  Lemma load_body_lfv cf l c l' nx : load_body cf l c = (l', nx) -> nx_lfv nx.
  Proof.
    unfold load_body. destruct (cf_use_fast cf); [|apply fallback_entry_lfv].
    intros [= <- <-]. apply nx_lfv_goto; [reflexivity|apply vok_none; reflexivity].
  Qed.

  Lemma enter_load_lfv cf l c l' fs : enter_load cf l c = inl (l', fs) -> Forall (lfv P) fs.
  Proof.
    unfold enter_load. intros H. destruct (tl_node l).
    - destruct (load_body cf (tl_set_depth l (tl_depth l + 1)) c) as [l2 nx] eqn:Hb.
      apply load_body_lfv in Hb as [Hb _]. destruct nx; try discriminate. injection H as <- <-. exact Hb.
    - injection H as <- <-. constructor; [split; [reflexivity|apply vok_none; reflexivity]|].
      constructor; [split; [reflexivity|apply vok_none; reflexivity]|constructor].
  Qed.

  Lemma dec_then_lfv v : P v -> nx_lfv (dec_then v (ROwned v)).
  Proof.
    intros Hv. unfold dec_then. destruct (v =? 0).
    - split; [constructor|]. intros rv [= <-] v0 [= <-]. exact Hv.
    - apply nx_lfv_goto; [reflexivity|]. intros v0 [= <-]. exact Hv.
  Qed.

  Lemma exec_lfv cf s l p x s' l' evs nx :
    exec cf s l p x = (s', l', evs, nx) -> lfr p = true -> vok P p ->
    (forall c gt, p = LH3 c gt -> P (mem s (LStore c))) ->
    (forall c v j, p = LA4 c v j -> P (mem s (LStore c))) ->
    (forall cand e, p = LH7 cand e -> P (mem s (LEnv e))) ->
    nx_lfv nx.
  Proof.
    intros He Hl Hv H3 H4 H7. unfold vok in Hv.
    destruct p; try discriminate Hl; try (destruct r; try discriminate Hl); exec_norm He.
    all: try (match goal with
              | H : with_exit _ (RGuard ?v _) = (_, ?n) |- nx_lfv ?n => apply (with_exit_lfv _ _ _ _ _ H)
              | H : fallback_entry _ _ _ = (_, ?n) |- nx_lfv ?n => exact (fallback_entry_lfv _ _ _ _ _ H)
              | H : gen_step _ _ _ = (_, ?n) |- nx_lfv ?n => exact (gen_step_lfv _ _ _ _ _ H)
              end).
    all: try (apply nx_lfv_stop; exact I).
    all: try (apply nx_lfv_goto; [reflexivity|]; first [apply vok_none; reflexivity | intros v0 [= <-]]).
    all: try (split; [constructor|]; intros rv [= <-] v0 Hv0; try discriminate Hv0; injection Hv0 as <-).
    all: try (apply dec_then_lfv).
    all: try (apply Hv; reflexivity).
    all: try (eapply H3; reflexivity).
    all: try (eapply H7; reflexivity).
    - (* LA4 confirms: the value is the present content *)
      apply N.eqb_eq in Heqb. subst p. eapply H4. reflexivity.
  Qed.

  Lemma resume_lfv cf l w v l' nx :
    resume cf l w v = (l', nx) -> lfr w = true -> vok P w -> rvok P v -> nx_lfv nx.
  Proof.
    intros He Hl Hw Hv. unfold vok in Hw. unfold rvok in Hv.
    destruct w; try discriminate Hl; try (destruct r; try discriminate Hl); unfold resume in He.
    all: try (injection He as <- <-; apply nx_lfv_stop; exact I).
    - (* WGetLoad *)
      destruct v; try (injection He as <- <-; apply nx_lfv_stop; exact I). eapply load_body_lfv. exact He.
    - (* WExit (RGuard ..) *)
      injection He as <- <-. split; [constructor|]. intros rv [= <-] v0 [= <-]. apply Hw. reflexivity.
    - (* WLoadFull *)
      destruct v; try (injection He as <- <-; apply nx_lfv_stop; exact I).
      assert (Hp : P p) by (apply Hv; reflexivity).
      unfold guard_into_frames in He. destruct d as [sl|]; [destruct (p =? 0)|]; injection He as <- <-.
      + apply nx_lfv_goto; [reflexivity|]. intros v0 [= <-]. exact Hp.
      + apply nx_lfv_goto; [reflexivity|]. intros v0 [= <-]. exact Hp.
      + split; [constructor|]. intros rv [= <-] v0 [= <-]. exact Hp.
  Qed.
End Lfv.
