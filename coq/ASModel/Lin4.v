(** * ASModel.Lin4 — where [WHelpRepl], [PE4..PE7] and [LH7] frames come from; containers. *)
From Coq Require Import Lia.
From ASModel Require Import Base State Orderings_gen Step Run Progress Hist Inv InvTl InvProto InvStep Sum StepCases
  GenDefs Gen1 Gen2 Gen3 Gen EnvDefs LinDefs Lin1 Lin3.

(** ** [WHelpRepl] is pushed by [PE2] only *)
Lemma simple_not_help f : simple f = true -> is_help f = false.
Proof. destruct f; cbn; congruence. Qed.

Lemma all_simple_hfree fs : all_simple fs -> hfree fs = true.
Proof. induction 1 as [|f fs Hf _ IH]; [reflexivity|]. cbn. rewrite (simple_not_help _ Hf), IH. reflexivity. Qed.

Lemma call_shape_hfree l l' fs : call_shape l l' fs -> hfree fs = true.
Proof.
  intros [[Hs _]|(c & fs' & -> & Hs & _)]; [apply all_simple_hfree; exact Hs|].
  cbn. apply all_simple_hfree. exact Hs.
Qed.

Lemma help_dispatch_hfree cf l c old w ctl : hfree (nx_frames (help_dispatch cf l c old w ctl)) = true.
Proof.
  destruct (help_dispatch_cases cf l c old w ctl) as [H|[->|[_ ->]]]; [|reflexivity..].
  destruct (help_dispatch cf l c old w ctl); try contradiction; reflexivity.
Qed.

Lemma after_slot_hfree c old w j : hfree (nx_frames (after_slot c old w j)) = true.
Proof. destruct (after_slot_cases c old w j) as [->| ->]; reflexivity. Qed.

Definition pe2_push (cf : config) (s : shared) (l : tlocal) (p : pc) (l' : tlocal) (nx : next) : Prop :=
  exists c old w ctl fs, p = PE2 c old w ctl /\ mem s (LAddr w) = store_val c /\
    enter_load cf l c = inl (l', fs) /\ nx = NPush (fs ++ [WLoadFull]) (WHelpRepl c old w ctl).

Lemma exec_hfree cf s l p x s' l' evs nx :
  exec cf s l p x = (s', l', evs, nx) -> ~ nx_stops nx ->
  hfree (nx_frames nx) = true \/ pe2_push cf s l p l' nx.
Proof.
  intros He Hn. destruct (special_pc p) eqn:Hsp.
  - pose proof (exec_special _ _ _ _ _ _ _ _ _ He Hn) as H.
    destruct p; try discriminate Hsp; cbn [special_next] in H;
      repeat match goal with
        | H : _ /\ _ |- _ => destruct H
        | H : _ \/ _ |- _ => destruct H
        | H : exists _, _ |- _ => destruct H
        end; subst;
      try (left; first [apply help_dispatch_hfree | apply after_slot_hfree | reflexivity]; fail).
    right. unfold pe2_push. eauto 10.
  - left. eapply call_shape_hfree. eapply exec_call; eassumption.
Qed.

Lemma resume_hfree cf l w v l' nx : resume cf l w v = (l', nx) -> hfree (nx_frames nx) = true.
Proof.
  intros He.
  assert (Hg : (forall g, w <> WGetSetGen g) \/ exists g, w = WGetSetGen g).
  { destruct w; try (left; discriminate). right. eauto. }
  destruct Hg as [Hg|(g & ->)].
  - destruct (resume_call _ _ _ _ _ _ He Hg) as [Hc|(c & old & n & ctl & r & -> & -> & ->)].
    + eapply call_shape_hfree. exact Hc.
    + reflexivity.
  - cbn in He. destr_in He; injection He as <- <-; reflexivity.
Qed.

Lemma settle_hfree cf l rest nx l2 stk st :
  settle cf l rest nx l2 stk st -> hfree rest = true -> hfree (nx_frames nx) = true -> hfree stk = true.
Proof.
  induction 1 as [l rest p|l rest fs w|l v|l v b post Hb Hne|l v post|l v w rest l' nx l'' stk st Hb Hr Hs IH];
    intros H1 H2; try reflexivity.
  - cbn in *. rewrite H1. apply andb_prop in H2 as [-> _]. reflexivity.
  - cbn [nx_frames] in H2. replace (fs ++ w :: rest) with ((fs ++ [w]) ++ rest) by (rewrite <- app_assoc; reflexivity).
    rewrite hfree_app, H1, H2. reflexivity.
  - cbn in H1. apply andb_prop in H1 as [_ H1]. apply IH; [exact H1|]. eapply resume_hfree. exact Hr.
Qed.

(** ** The top frame of the settled stack comes from the step or from a [resume] *)
Lemma settle_hd cf l rest nx l2 stk st :
  settle cf l rest nx l2 stk st -> forall f, hd_error stk = Some f ->
  hd_error (nx_frames nx) = Some f \/
  exists w v l0 l1 nx1, In w rest /\ resume cf l0 w v = (l1, nx1) /\ hd_error (nx_frames nx1) = Some f.
Proof.
  induction 1 as [l rest p|l rest fs w|l v|l v b post Hb Hne|l v post|l v w rest l' nx l'' stk st Hb Hr Hs IH];
    intros f Hf; try discriminate Hf.
  - left. exact Hf.
  - left. cbn [nx_frames]. destruct fs; exact Hf.
  - right. destruct (IH f Hf) as [H|(w0 & v0 & l0 & l1 & nx1 & Hin & H1 & H2)].
    + exists w, v, l, l', nx. split; [left; reflexivity|]. split; assumption.
    + exists w0, v0, l0, l1, nx1. split; [right; exact Hin|]. split; assumption.
Qed.

(** ** Helper frames that carry the loaded value *)
Lemma simple_no_loaded f : simple f = true -> help_loaded f = None.
Proof. destruct f; cbn; congruence. Qed.

Lemma call_shape_loaded l l' fs f : call_shape l l' fs -> In f fs -> help_loaded f = None.
Proof.
  intros [[Hs _]|(c & fs' & -> & Hs & _)] Hin.
  - apply simple_no_loaded. exact (proj1 (Forall_forall _ _) Hs f Hin).
  - destruct Hin as [<-|Hin]; [reflexivity|]. apply simple_no_loaded. exact (proj1 (Forall_forall _ _) Hs f Hin).
Qed.

Lemma dispatch_loaded cf l c old w ctl f : In f (nx_frames (help_dispatch cf l c old w ctl)) -> help_loaded f = None.
Proof.
  destruct (help_dispatch_cases cf l c old w ctl) as [H|[->|[_ ->]]].
  - destruct (help_dispatch cf l c old w ctl); try contradiction; intros [].
  - intros [<-|[]]. reflexivity.
  - intros [<-|[]]. reflexivity.
Qed.

Lemma after_slot_loaded c old w j f : In f (nx_frames (after_slot c old w j)) -> help_loaded f = None.
Proof. destruct (after_slot_cases c old w j) as [->| ->]; intros [<-|[]]; reflexivity. Qed.

Lemma exec_loaded cf s l p x s' l' evs nx f q :
  exec cf s l p x = (s', l', evs, nx) -> ~ nx_stops nx ->
  In f (nx_frames nx) -> help_loaded f = Some q -> help_loaded p = Some q.
Proof.
  intros He Hn Hin Hf. destruct (special_pc p) eqn:Hsp.
  2: { pose proof (exec_call _ _ _ _ _ _ _ _ _ Hsp He) as Hc.
       rewrite (call_shape_loaded _ _ _ _ Hc Hin) in Hf. discriminate. }
  pose proof (exec_special _ _ _ _ _ _ _ _ _ He Hn) as H.
  destruct p; try discriminate Hsp; cbn [special_next] in H;
    repeat match goal with
      | H : _ /\ _ |- _ => destruct H
      | H : _ \/ _ |- _ => destruct H
      | H : exists _, _ |- _ => destruct H
      end; subst;
    try (apply after_slot_loaded in Hin; congruence);
    try (apply dispatch_loaded in Hin; congruence);
    try (destruct Hin as [<-|[]]; cbn in Hf; try discriminate Hf; exact Hf).
  (* PE2 pushes the nested load *)
  match goal with H : enter_load _ _ _ = _ |- _ => apply enter_load_call in H as [Hcs Hne] end.
  cbn [nx_frames] in Hin. apply in_app_or in Hin as [Hin|[<-|[]]]; [|discriminate Hf].
  apply in_app_or in Hin as [Hin|[<-|[]]]; [|discriminate Hf].
  rewrite (call_shape_loaded _ _ _ _ Hcs Hin) in Hf. discriminate.
Qed.

Lemma resume_loaded cf l w v l' nx f c n ctl r :
  resume cf l w v = (l', nx) -> In f (nx_frames nx) -> help_loaded f = Some (c, n, ctl, r) ->
  exists old, w = WHelpRepl c old n ctl /\ v = ROwned r.
Proof.
  intros He Hin Hf.
  assert (Hg : (forall g, w <> WGetSetGen g) \/ exists g, w = WGetSetGen g).
  { destruct w; try (left; discriminate). right. eauto. }
  destruct Hg as [Hg|(g & ->)].
  - destruct (resume_call _ _ _ _ _ _ He Hg) as [Hc|(c0 & old & n0 & ctl0 & r0 & -> & -> & ->)].
    + rewrite (call_shape_loaded _ _ _ _ Hc Hin) in Hf. discriminate.
    + destruct Hin as [<-|[]]. cbn in Hf. injection Hf as -> -> -> ->. exists old. split; [reflexivity|].
      cbn in He. destruct v; try discriminate He. injection He as ->. reflexivity.
  - cbn in He. destr_in He; injection He as <- <-; destruct Hin.
Qed.
