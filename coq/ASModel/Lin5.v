(** * ASModel.Lin5 — frames name the container of the frame that created them; an [LH7] frame is
    created by [LH5] only. *)
From Coq Require Import Lia.
From ASModel Require Import Base State Orderings_gen Step Run Progress Hist Inv InvTl InvProto InvStep Sum StepCases
  GenDefs Gen1 Gen2 Gen3 Gen EnvDefs LinDefs Lin1 Lin3 Lin4.

Definition is7 (p : pc) : bool := match p with LH7 _ _ => true | _ => false end.

(** A frame created on behalf of container [c] (or of nobody: [oc = None] allows no name). *)
Definition fok (c : N) (f : pc) : Prop := is7 f = false /\ cont_ok c f.
Definition nx_fok (c : N) (nx : next) : Prop := Forall (fok c) (nx_frames nx).

Lemma fok_plain c f : is7 f = false -> pc_cont f = None -> fok c f.
Proof. intros H1 H2. split; [exact H1|]. intros c' H. congruence. Qed.

Lemma fok_c c f : is7 f = false -> pc_cont f = Some c -> fok c f.
Proof. intros H1 H2. split; [exact H1|]. intros c' H. congruence. Qed.

Ltac fok_frames :=
  repeat (first [ apply Forall_nil
                | apply Forall_cons; [first [apply fok_plain; reflexivity | apply fok_c; reflexivity]|] ]).

Lemma with_exit_fok c l r l' nx : with_exit l r = (l', nx) -> nx_fok c nx.
Proof. unfold with_exit, nx_fok. intros H. destr_in H; injection H as <- <-; cbn; fok_frames. Qed.

Lemma dec_then_fok c a r : nx_fok c (dec_then a r).
Proof. unfold dec_then, nx_fok. destruct (a =? 0); cbn; fok_frames. Qed.

Lemma guard_drop_fok c p d : Forall (fok c) (guard_drop_frames p d).
Proof. unfold guard_drop_frames. destruct d; [|destruct (p =? 0)]; fok_frames. Qed.

Lemma guard_into_fok c p d : Forall (fok c) (guard_into_frames p d).
Proof. unfold guard_into_frames. destruct d; [destruct (p =? 0)|]; fok_frames. Qed.

Lemma fallback_entry_fok cf l c l' nx : fallback_entry cf l c = (l', nx) -> nx_fok c nx.
Proof. unfold fallback_entry, nx_fok. intros H. destr_in H; injection H as <- <-; cbn; fok_frames. Qed.

Lemma gen_step_fok cf l c l' nx : gen_step cf l c = (l', nx) -> nx_fok c nx.
Proof. unfold gen_step, nx_fok. intros H. destr_in H; injection H as <- <-; cbn; fok_frames. Qed.

Lemma load_body_fok cf l c l' nx : load_body cf l c = (l', nx) -> nx_fok c nx.
Proof.
  unfold load_body. destruct (cf_use_fast cf); [|apply fallback_entry_fok].
  intros [= <- <-]. unfold nx_fok. cbn. fok_frames.
Qed.

Lemma enter_load_fok cf l c l' fs : enter_load cf l c = inl (l', fs) -> Forall (fok c) fs.
Proof.
  unfold enter_load. intros H. destruct (tl_node l).
  - destruct (load_body cf (tl_set_depth l (tl_depth l + 1)) c) as [l2 nx] eqn:Hb.
    apply load_body_fok in Hb. destruct nx; try discriminate. injection H as <- <-. exact Hb.
  - injection H as <- <-. fok_frames.
Qed.

Lemma enter_pay_fok l c old l' fs : enter_pay l c old = (l', fs) -> Forall (fok c) fs.
Proof.
  unfold enter_pay, pay_body. intros H. destr_in H; injection H as <- <-; fok_frames.
Qed.

Lemma help_dispatch_fok cf l c old w ctl : nx_fok c (help_dispatch cf l c old w ctl).
Proof.
  unfold nx_fok. destruct (help_dispatch_cases cf l c old w ctl) as [H|[->|[_ ->]]]; [|cbn; fok_frames..].
  destruct (help_dispatch cf l c old w ctl); try contradiction; constructor.
Qed.

Lemma after_slot_fok c old w j : nx_fok c (after_slot c old w j).
Proof. unfold nx_fok. destruct (after_slot_cases c old w j) as [->| ->]; cbn; fok_frames. Qed.

Lemma Forall_fok_app c a b : Forall (fok c) a -> Forall (fok c) b -> Forall (fok c) (a ++ b).
Proof. intros. apply Forall_app. split; assumption. Qed.

Lemma rcu_attempt_fok cf l c m p d l' nx : rcu_attempt cf l c m p d = (l', nx) -> nx_fok c nx.
Proof.
  intros He. unfold rcu_attempt in He. destr_in He; try discriminate; injection He as <- <-; unfold nx_fok; cbn [nx_frames].
  all: repeat match goal with
         | H : enter_load _ _ _ = inl (_, _) |- _ => apply enter_load_fok in H
         end.
  all: try (fok_frames; fail).
  all: try (repeat (apply Forall_fok_app; [try assumption|]); fok_frames; fail).
  all: match goal with H : guard_drop_frames ?v ?dd = _ |- _ =>
         pose proof (guard_drop_fok c v dd) as HG; rewrite H in HG end.
  all: replace (p0 :: l0 ++ [WRcuPanic]) with ((p0 :: l0) ++ [WRcuPanic]) by reflexivity.
  all: apply Forall_fok_app; [exact HG|fok_frames].
Qed.

(** ** One frame step *)
Ltac fok_close :=
  unfold nx_fok; cbn [nx_frames];
  repeat match goal with
         | H : enter_load _ _ _ = inl (_, _) |- _ => apply enter_load_fok in H
         | H : enter_pay _ _ _ = (_, _) |- _ => apply enter_pay_fok in H
         end;
  first
    [ fok_frames; fail
    | repeat (apply Forall_fok_app; [try assumption|]); first [assumption | fok_frames]; fail
    | match goal with H : guard_drop_frames ?v ?dd = ?fs |- Forall _ (?fs ++ _) =>
        apply Forall_fok_app; [rewrite <- H; apply guard_drop_fok|fok_frames] end ].

Lemma exec_fok_c cf s l p x s' l' evs nx c :
  exec cf s l p x = (s', l', evs, nx) -> pc_cont p = Some c ->
  (forall c' gt cand, p <> LH5 c' gt cand) -> nx_fok c nx.
Proof.
  intros He Hc H5. destruct p; try discriminate Hc; injection Hc as ->; exec_norm He.
  all: try (exfalso; eapply H5; reflexivity).
  all: try (match goal with
            | H : with_exit _ _ = (_, ?n) |- nx_fok _ ?n => exact (with_exit_fok _ _ _ _ _ H)
            | H : fallback_entry _ _ _ = (_, ?n) |- nx_fok _ ?n => exact (fallback_entry_fok _ _ _ _ _ H)
            | H : gen_step _ _ _ = (_, ?n) |- nx_fok _ ?n => exact (gen_step_fok _ _ _ _ _ H)
            | |- nx_fok _ (help_dispatch _ _ _ _ _ _) => apply help_dispatch_fok
            | |- nx_fok _ (after_slot _ _ _ _) => apply after_slot_fok
            | |- nx_fok _ (dec_then _ _) => apply dec_then_fok
            end).
  all: try fok_close.
Qed.

Lemma exec_fok_none cf s l p x s' l' evs nx c :
  exec cf s l p x = (s', l', evs, nx) -> pc_cont p = None -> nx_fok c nx.
Proof.
  intros He Hc. destruct p; try discriminate Hc; exec_norm He.
  all: try (match goal with
            | H : with_exit _ _ = (_, ?n) |- nx_fok _ ?n => exact (with_exit_fok _ _ _ _ _ H)
            | |- nx_fok _ (dec_then _ _) => apply dec_then_fok
            end).
  all: try fok_close.
Qed.

Lemma exec_lh5 cf s l c gt cand x s' l' evs nx :
  exec cf s l (LH5 c gt cand) x = (s', l', evs, nx) -> ~ nx_stops nx ->
  let ctl := mem s (LCtrl (own_node l)) in
  (ctl = gt /\ (nx = NGoto (LH6a cand) \/ nx = NGoto (LH6b cand))) \/
  (ctl <> gt /\ nx = NGoto (LH7 cand (env_of (ctl - N.land ctl TAG_MASK)))).
Proof.
  intros He Hn. exec_norm He; cbn zeta.
  - left. apply N.eqb_eq in Heqb. auto.
  - left. apply N.eqb_eq in Heqb. auto.
  - exfalso. apply Hn. exact I.
  - right. apply N.eqb_neq in Heqb. auto.
Qed.

Lemma exec_cont cf s l p x s' l' evs nx f c :
  exec cf s l p x = (s', l', evs, nx) -> ~ nx_stops nx ->
  In f (nx_frames nx) -> pc_cont f = Some c -> pc_cont p = Some c.
Proof.
  intros He Hn Hin Hf.
  assert (H5 : (exists c' gt cand, p = LH5 c' gt cand) \/ forall c' gt cand, p <> LH5 c' gt cand).
  { destruct p; try (right; discriminate). left. eauto. }
  destruct H5 as [(c' & gt & cand & ->)|H5].
  - destruct (exec_lh5 _ _ _ _ _ _ _ _ _ _ _ He Hn) as [[_ [-> | ->]]|[_ ->]];
      destruct Hin as [<-|[]]; discriminate Hf.
  - destruct (pc_cont p) as [c0|] eqn:Hc.
    + pose proof (exec_fok_c _ _ _ _ _ _ _ _ _ _ He Hc H5) as Hall.
      destruct (proj1 (Forall_forall _ _) Hall f Hin) as [_ Hk]. rewrite (Hk c Hf). reflexivity.
    + pose proof (exec_fok_none _ _ _ _ _ _ _ _ _ (c + 1) He Hc) as Hall.
      destruct (proj1 (Forall_forall _ _) Hall f Hin) as [_ Hk]. specialize (Hk c Hf). lia.
Qed.

Lemma exec_to7 cf s l p x s' l' evs nx cand e :
  exec cf s l p x = (s', l', evs, nx) -> ~ nx_stops nx -> In (LH7 cand e) (nx_frames nx) ->
  exists c gt, p = LH5 c gt cand /\ mem s (LCtrl (own_node l)) <> gt /\
    e = env_of (mem s (LCtrl (own_node l)) - N.land (mem s (LCtrl (own_node l))) TAG_MASK).
Proof.
  intros He Hn Hin.
  assert (H5 : (exists c' gt cand, p = LH5 c' gt cand) \/ forall c' gt cand, p <> LH5 c' gt cand).
  { destruct p; try (right; discriminate). left. eauto. }
  destruct H5 as [(c' & gt & cand' & ->)|H5].
  - destruct (exec_lh5 _ _ _ _ _ _ _ _ _ _ _ He Hn) as [[_ [-> | ->]]|[Hne ->]];
      destruct Hin as [Hin|[]]; try discriminate Hin.
    injection Hin as <- <-. exists c', gt. auto.
  - exfalso. destruct (pc_cont p) as [c0|] eqn:Hc.
    + pose proof (exec_fok_c _ _ _ _ _ _ _ _ _ _ He Hc H5) as Hall.
      destruct (proj1 (Forall_forall _ _) Hall _ Hin) as [Hk _]. discriminate Hk.
    + pose proof (exec_fok_none _ _ _ _ _ _ _ _ _ 0 He Hc) as Hall.
      destruct (proj1 (Forall_forall _ _) Hall _ Hin) as [Hk _]. discriminate Hk.
Qed.

(** ** Resuming a waiting frame *)
Lemma resume_fok cf l w v l' nx :
  resume cf l w v = (l', nx) ->
  match pc_cont w with Some c => nx_fok c nx | None => forall c, nx_fok c nx end.
Proof.
  intros He. destruct w; cbn [pc_cont]; try intros c0; unfold resume in He; destr_in He; try discriminate.
  all: try (match type of He with rcu_attempt _ _ _ _ _ _ = _ => eapply rcu_attempt_fok; exact He end).
  all: try (match type of He with load_body _ _ _ = _ => eapply load_body_fok; exact He end).
  all: try (injection He as <- <-).
  all: try (match goal with
            | |- nx_fok _ (dec_then _ _) => apply dec_then_fok
            end).
  all: try (unfold pay_body; destruct (_ =? 0)).
  all: try fok_close.
  all: unfold nx_fok; cbn [nx_frames].
  all: try (match goal with H : guard_into_frames ?v ?dd = ?fs |- _ =>
              pose proof (guard_into_fok c0 v dd) as HG; rewrite H in HG end).
  all: try (match goal with H : guard_into_frames ?v ?dd = ?fs |- _ =>
              pose proof (guard_into_fok c v dd) as HG; rewrite H in HG end).
  all: try (inversion HG; subst; fok_frames; assumption).
  all: try (match goal with |- Forall _ ((?a :: ?b) ++ ?c) => apply Forall_fok_app; [exact HG|fok_frames] end).
  inversion HG; subst. constructor; [assumption|constructor].
Qed.

Lemma resume_cont cf l w v l' nx f c :
  resume cf l w v = (l', nx) -> In f (nx_frames nx) -> pc_cont f = Some c -> pc_cont w = Some c.
Proof.
  intros He Hin Hf. pose proof (resume_fok _ _ _ _ _ _ He) as H. destruct (pc_cont w) as [c0|].
  - destruct (proj1 (Forall_forall _ _) H f Hin) as [_ Hk]. rewrite (Hk c Hf). reflexivity.
  - destruct (proj1 (Forall_forall _ _) (H (c + 1)) f Hin) as [_ Hk]. specialize (Hk c Hf). lia.
Qed.

Lemma resume_not7 cf l w v l' nx cand e : resume cf l w v = (l', nx) -> ~ In (LH7 cand e) (nx_frames nx).
Proof.
  intros He Hin. pose proof (resume_fok _ _ _ _ _ _ He) as H. destruct (pc_cont w) as [c0|].
  - destruct (proj1 (Forall_forall _ _) H _ Hin) as [Hk _]. discriminate Hk.
  - destruct (proj1 (Forall_forall _ _) (H 0) _ Hin) as [Hk _]. discriminate Hk.
Qed.
