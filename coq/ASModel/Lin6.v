(** * ASModel.Lin6 — starting a command; which steps write control words and envelopes. *)
From Coq Require Import Lia.
From ASModel Require Import Base State Orderings_gen Step Run Progress Hist Inv InvTl InvProto InvStep Sum StepCases
  GenDefs Gen1 Gen2 Gen3 Gen EnvDefs LinDefs Lin1 Lin3 Lin4 Lin5.

(** ** Command start *)
Lemma fok_cont c fs : Forall (fok c) fs -> Forall (cont_ok c) fs.
Proof. apply Forall_impl. intros f [_ H]. exact H. Qed.

Lemma cont_ok_none c f : pc_cont f = None -> cont_ok c f.
Proof. intros H c' H'. congruence. Qed.

Lemma cmd_start_cont cf s l c0 s' l' stk r c :
  cmd_start cf s l c0 = inl (s', l', stk, r) -> cmd_cont0 c0 = Some c -> Forall (cont_ok c) stk.
Proof.
  intros Hc Hk. destruct c0; try discriminate Hk; injection Hk as ->; cbn in Hc; destr_in Hc; try discriminate;
    injection Hc as <- <- <- <-.
  all: repeat match goal with
         | H : enter_load _ _ _ = inl (_, _) |- _ => apply enter_load_fok in H; apply fok_cont in H
         | H : enter_pay _ _ _ = (_, _) |- _ => apply enter_pay_fok in H; apply fok_cont in H
         end.
  all: try (apply Forall_app; split; [assumption|]).
  all: repeat (first [apply Forall_nil | apply Forall_cons; [first [apply cont_ok_none; reflexivity | intros c' [= <-]; reflexivity]|]]).
Qed.

Lemma cmd_start_ld cf s l c0 s' l' stk r P :
  cmd_start cf s l c0 = inl (s', l', stk, r) -> ldcmd c0 = true -> ZI true P stk.
Proof.
  intros Hc Hk. destruct c0; try discriminate Hk; cbn in Hc; destr_in Hc; try discriminate;
    injection Hc as <- <- <- <-.
  - apply ZI_app_lfv; [eapply enter_load_lfv; eassumption|]. cbn. exact I.
  - apply ZI_app_lfv; [eapply enter_load_lfv; eassumption|]. cbn. split; [|exact I].
    intros _. split; [reflexivity|apply vok_none; reflexivity].
Qed.

Lemma bottom_tail_hfree bs : bottom_tail bs -> hfree bs = true.
Proof. intros [->|(b & -> & Hb & _)]; [reflexivity|]. destruct b; try discriminate Hb; reflexivity. Qed.

Lemma cmd_start_hfree cf s l c s' l' stk r :
  cmd_start cf s l c = inl (s', l', stk, r) -> (forall g, c <> CSetGen g) -> hfree stk = true.
Proof.
  intros Hc Hg. destruct (cmd_start_call _ _ _ _ _ _ _ _ Hc Hg) as (fs & bs & -> & Hcs & Hbt).
  rewrite hfree_app, (call_shape_hfree _ _ _ Hcs), (bottom_tail_hfree _ Hbt). reflexivity.
Qed.

Lemma fok_no7 c fs : Forall (fok c) fs -> Forall (fun f => is7 f = false) fs.
Proof. apply Forall_impl. intros f [H _]. exact H. Qed.

Lemma cmd_start_no7 cf s l c s' l' stk r :
  cmd_start cf s l c = inl (s', l', stk, r) -> Forall (fun f => is7 f = false) stk.
Proof.
  intros Hc. destruct c; cbn in Hc; destr_in Hc; try discriminate; injection Hc as <- <- <- <-.
  all: repeat match goal with
         | H : enter_load _ _ _ = inl (_, _) |- _ => apply enter_load_fok in H; apply fok_no7 in H
         | H : enter_pay _ _ _ = (_, _) |- _ => apply enter_pay_fok in H; apply fok_no7 in H
         | H : guard_drop_frames ?v ?d = _ |- _ =>
             let HG := fresh "HG" in pose proof (fok_no7 0 _ (guard_drop_fok 0 v d)) as HG; rewrite H in HG; clear H
         | H : guard_into_frames ?v ?d = _ |- _ =>
             let HG := fresh "HG" in pose proof (fok_no7 0 _ (guard_into_fok 0 v d)) as HG; rewrite H in HG; clear H
         end.
  all: try (apply Forall_app; split; [assumption|]).
  all: try (match goal with |- Forall _ (?a :: ?b ++ ?c) => change (a :: b ++ c) with ((a :: b) ++ c); apply Forall_app; split; [assumption|] end).
  all: repeat (first [apply Forall_nil | apply Forall_cons; [reflexivity|]]).
Qed.

Lemma cmd_start_top cf s l c s' l' stk r :
  cmd_start cf s l c = inl (s', l', stk, r) -> (forall g, c <> CSetGen g) ->
  hd_req stk = None /\ (forall q, In q stk -> help_loaded q = None /\ help_c q = None).
Proof.
  intros Hc Hg. destruct (cmd_start_call _ _ _ _ _ _ _ _ Hc Hg) as (fs & bs & -> & Hcs & Hbt).
  destruct (bottom_tail_hd _ Hbt) as (_ & B2 & B3).
  assert (Hhc : forall q, help_frame q = None -> help_c q = None /\ help_loaded q = None).
  { intros q. destruct q; cbn; try congruence; auto. }
  split.
  - destruct fs as [|f0 fs]; [exact B2|]. exact (call_shape_req _ _ _ Hcs).
  - intros q Hq. assert (Hf : help_frame q = None).
    { apply in_app_or in Hq as [Hq|Hq]; [eapply call_shape_help; eassumption|apply (B3 q Hq)]. }
    destruct (Hhc q Hf). auto.
Qed.

(** ** Which steps write envelopes and control words *)
Lemma node_init_env s n k : mem (node_init s n) (LEnv k) = if decide (k = n) then 0 else mem s (LEnv k).
Proof.
  unfold node_init. cbn. destruct (decide (k = n)) as [->|Hne].
  - repeat (rewrite upd_other by discriminate). rewrite upd_same. reflexivity.
  - repeat (rewrite upd_other by (discriminate || congruence)). reflexivity.
Qed.

Lemma exec_env cf s l p x s' l' evs nx e :
  exec cf s l p x = (s', l', evs, nx) ->
  mem s' (LEnv e) = mem s (LEnv e) \/
  (exists c old w ctl r their mine, p = PE6 c old w ctl r their mine /\ e = env_of mine) \/
  (exists h, p = GPush h /\ mem s LHead = h /\ e = h).
Proof.
  intros He. destruct p; exec_norm He; mem_simp; try (left; reflexivity).
  - (* GPush *)
    rewrite node_init_env. destruct (decide (e = head)) as [->|Hne].
    + right. right. apply andb_prop in Heqb as [Hh _]. apply N.eqb_eq in Hh. eauto.
    + left. mem_simp. reflexivity.
  - (* PE6 *)
    destruct (N.eq_dec e (env_of mine)) as [->|Hne]; [right; left; eauto 10|].
    left. rewrite upd_other by congruence. reflexivity.
  - destruct (N.eq_dec e (env_of mine)) as [->|Hne]; [right; left; eauto 10|].
    left. rewrite upd_other by congruence. reflexivity.
Qed.

Lemma exec_ctrl cf s l p x s' l' evs nx w :
  exec cf s l p x = (s', l', evs, nx) ->
  mem s' (LCtrl w) = mem s (LCtrl w) \/
  (exists c gt, p = LH2 c gt /\ w = own_node l /\ mem s' (LCtrl w) = gt) \/
  (exists c gt cand, p = LH5 c gt cand /\ w = own_node l /\ mem s' (LCtrl w) = IDLE) \/
  (exists c old ctl r their mine, p = PE7 c old w ctl r their mine /\ mem s (LCtrl w) = ctl /\
                                  mem s' (LCtrl w) = N.lor mine REPLACEMENT_TAG) \/
  (exists h, p = GPush h /\ mem s LHead = h /\ w = h /\ mem s' (LCtrl w) = IDLE).
Proof.
  intros He. destruct p; exec_norm He; mem_simp; try (left; reflexivity).
  all: try (destruct (N.eq_dec w (own_node l)) as [->|Hne];
            [rewrite upd_same; eauto 12|left; rewrite upd_other by congruence; reflexivity]).
  - (* GPush *)
    rewrite node_init_ctrl. destruct (decide (w = head)) as [->|Hne].
    + right. right. right. right. apply andb_prop in Heqb as [Hh _]. apply N.eqb_eq in Hh. eauto.
    + left. mem_simp. reflexivity.
  - (* PE7 succeeds *)
    destruct (N.eq_dec w w0) as [->|Hne]; [|left; rewrite upd_other by congruence; reflexivity].
    right. right. right. left. rewrite upd_same. apply andb_prop in Heqb as [Heqb _]. apply N.eqb_eq in Heqb. eauto 12.
Qed.

(** Steps that only read. *)
Lemma exec_lh3_same cf s l c gt x s' l' evs nx : exec cf s l (LH3 c gt) x = (s', l', evs, nx) -> s' = s.
Proof. intros He. exec_norm He; reflexivity. Qed.
Lemma exec_la4_same cf s l c v j x s' l' evs nx : exec cf s l (LA4 c v j) x = (s', l', evs, nx) -> s' = s.
Proof. intros He. exec_norm He; reflexivity. Qed.
Lemma exec_lh7_same cf s l cand e x s' l' evs nx : exec cf s l (LH7 cand e) x = (s', l', evs, nx) -> s' = s.
Proof. intros He. exec_norm He; reflexivity. Qed.
Lemma exec_lh5_env cf s l c gt cand x s' l' evs nx e :
  exec cf s l (LH5 c gt cand) x = (s', l', evs, nx) -> mem s' (LEnv e) = mem s (LEnv e).
Proof. intros He. exec_norm He; mem_simp; reflexivity. Qed.
