(** * ASModel.Lin7 — the zone invariant along the unwinding of the stack. *)
From Coq Require Import Lia.
From ASModel Require Import Base State Orderings_gen Step Run Progress Hist Inv InvTl InvProto InvStep Sum StepCases
  GenDefs Gen1 Gen2 Gen3 Gen EnvDefs LinDefs Lin1 Lin3 Lin4 Lin5 Lin6.

Lemma resume_help cf l c old n ctl v l' nx :
  resume cf l (WHelpRepl c old n ctl) v = (l', nx) -> ~ nx_stops nx ->
  exists r, v = ROwned r /\ l' = l /\ nx = NGoto (PE4 c old n ctl r).
Proof.
  intros He Hn. cbn in He. destruct v; injection He as <- <-; try (exfalso; apply Hn; exact I). eauto.
Qed.

Lemma is_help_inv w : is_help w = true -> exists c old n ctl, w = WHelpRepl c old n ctl.
Proof. destruct w; try discriminate. eauto. Qed.

(** Inside a zone: the frame step of a load frame, then the unwinding. *)
Lemma settle_ZI cf l rest nx l2 stk st :
  settle cf l rest nx l2 stk st -> forall b P, inz b rest -> ZI b P rest -> nx_lfv P nx ->
  ZI b P stk /\
  (forall f c w ctl r, hd_error stk = Some f -> help_loaded f = Some (c, w, ctl, r) -> P r).
Proof.
  induction 1 as [l rest p|l rest fs w|l v|l v b0 post Hb Hne|l v post|l v w rest l' nx l'' stk st Hb Hr Hs IH];
    intros b P Hz HZ [Hfr Hrv].
  - inversion Hfr as [|? ? Hp _]; subst. split.
    + apply (ZI_app_lfv b P [p]); [constructor; [exact Hp|constructor]|exact HZ].
    + intros f c w ctl r [= <-] Hl. rewrite (lfr_no_loaded _ (proj1 Hp)) in Hl. discriminate.
  - cbn [nx_frames] in Hfr. replace (fs ++ w :: rest) with ((fs ++ [w]) ++ rest) by (rewrite <- app_assoc; reflexivity). split.
    + apply ZI_app_lfv; assumption.
    + intros f c w0 ctl r Hhd Hl.
      assert (Hin : In f (fs ++ [w])).
      { destruct fs as [|f0 fs]; cbn in Hhd; injection Hhd as <-; left; reflexivity. }
      destruct (proj1 (Forall_forall _ _) Hfr f Hin) as [Hlf _]. rewrite (lfr_no_loaded _ Hlf) in Hl. discriminate.
  - split; [exact I|]. intros f c w ctl r Hhd. discriminate Hhd.
  - split; [exact I|]. intros f c w ctl r Hhd. discriminate Hhd.
  - split; [exact I|]. intros f c w ctl r Hhd. discriminate Hhd.
  - pose proof (settle_stops _ _ _ _ _ _ _ Hs) as Hns.
    assert (Hv : rvok P v) by (apply Hrv; reflexivity).
    cbn [ZI] in HZ. destruct (is_help w) eqn:Hh.
    + (* the nested load of a helper returns *)
      destruct HZ as [-> Hfree]. destruct (is_help_inv _ Hh) as (c & old & n & ctl & ->).
      destruct (resume_help _ _ _ _ _ _ _ _ _ Hr Hns) as (r & -> & -> & ->).
      inversion Hs; subst. split.
      * apply ZI_cons; [reflexivity| |apply ZI_hfree; exact Hfree].
        intros [Hx|Hx]; congruence.
      * intros f c0 w0 ctl0 r0 [= <-] [= <- <- <- <-]. apply Hv. reflexivity.
    + destruct (is_kdone w) eqn:Hk; [rewrite (kdone_bottom _ Hk) in Hb; discriminate|].
      destruct HZ as [Hw HZ]. apply (inz_cons b w rest Hh) in Hz. destruct (Hw Hz) as [Hlw Hvw].
      apply (IH b P Hz HZ). eapply resume_lfv; eassumption.
Qed.

(** Outside any zone: a zone appears only when [PE2] pushes the nested load. *)
Lemma settle_ZI_out cf l rest nx l2 stk st P :
  settle cf l rest nx l2 stk st -> hfree rest = true -> hfree (nx_frames nx) = true -> ZI false P stk.
Proof. intros Hs H1 H2. apply ZI_hfree. eapply settle_hfree; eassumption. Qed.

Lemma ZI_pe2_push cf l c l' fs old w ctl rest P :
  enter_load cf l c = inl (l', fs) -> hfree rest = true ->
  ZI false P ((fs ++ [WLoadFull]) ++ WHelpRepl c old w ctl :: rest).
Proof.
  intros He Hf. apply ZI_app_lfv.
  - apply Forall_app. split; [eapply enter_load_lfv; exact He|].
    constructor; [split; [reflexivity|apply vok_none; reflexivity]|constructor].
  - cbn. auto.
Qed.

(** A generic closure property of the settled stack. *)
Lemma settle_Forall cf (Q : pc -> Prop) l rest nx l2 stk st :
  settle cf l rest nx l2 stk st ->
  (forall l0 w v l1 nx1, Q w -> resume cf l0 w v = (l1, nx1) -> Forall Q (nx_frames nx1)) ->
  Forall Q rest -> Forall Q (nx_frames nx) -> Forall Q stk.
Proof.
  intros Hs Hres. induction Hs as [l rest p|l rest fs w|l v|l v b post Hb Hne|l v post|l v w rest l' nx l'' stk st Hb Hr Hs IH];
    intros H1 H2; try constructor.
  - inversion H2; assumption.
  - exact H1.
  - cbn [nx_frames] in H2. replace (fs ++ w :: rest) with ((fs ++ [w]) ++ rest) by (rewrite <- app_assoc; reflexivity).
    apply Forall_app. split; assumption.
  - inversion H1 as [|? ? Hw Hrest]; subst. apply IH; [exact Hrest|]. eapply Hres; eassumption.
Qed.

Lemma settle_cont cf c0 l rest nx l2 stk st :
  settle cf l rest nx l2 stk st -> Forall (cont_ok c0) rest -> Forall (cont_ok c0) (nx_frames nx) ->
  Forall (cont_ok c0) stk.
Proof.
  intros Hs. apply (settle_Forall cf (cont_ok c0) _ _ _ _ _ _ Hs).
  intros l0 w v l1 nx1 Hw Hr. apply Forall_forall. intros f Hin c Hc.
  apply Hw. eapply resume_cont; eassumption.
Qed.

(** The new top frame is not an [LH7] unless the step itself went there. *)
Lemma settle_top7 cf l rest nx l2 stk st cand e rest' :
  settle cf l rest nx l2 stk st -> stk = LH7 cand e :: rest' ->
  hd_error (nx_frames nx) = Some (LH7 cand e).
Proof.
  intros Hs ->. destruct (settle_hd _ _ _ _ _ _ _ Hs (LH7 cand e) eq_refl) as [H|(w & v & l0 & l1 & nx1 & _ & Hr & Hh)]; [exact H|].
  exfalso. eapply (resume_not7 _ _ _ _ _ _ cand e Hr). destruct (nx_frames nx1); [discriminate|]. injection Hh as ->. left. reflexivity.
Qed.

(** Every container named in the settled stack was named before. *)
Lemma settle_cont_origin cf l rest nx l2 stk st f c :
  settle cf l rest nx l2 stk st -> In f stk -> pc_cont f = Some c ->
  (exists f0, In f0 rest /\ pc_cont f0 = Some c) \/ (exists f0, In f0 (nx_frames nx) /\ pc_cont f0 = Some c).
Proof.
  induction 1 as [l rest p|l rest fs w|l v|l v b post Hb Hne|l v post|l v w rest l' nx l'' stk st Hb Hr Hs IH];
    intros Hin Hc; try (destruct Hin; fail).
  - destruct Hin as [<-|Hin]; [right; exists p; split; [left; reflexivity|exact Hc]|left; eauto].
  - cbn [nx_frames]. apply in_app_or in Hin as [Hin|[<-|Hin]].
    + right. exists f. split; [apply in_or_app; left; exact Hin|exact Hc].
    + right. exists w. split; [apply in_or_app; right; left; reflexivity|exact Hc].
    + left. eauto.
  - left. destruct (IH Hin Hc) as [(f0 & H1 & H2)|(f0 & H1 & H2)].
    + exists f0. split; [right; exact H1|exact H2].
    + exists w. split; [left; reflexivity|]. eapply resume_cont; eassumption.
Qed.

Lemma settle_help_in cf l rest nx l2 stk st f :
  settle cf l rest nx l2 stk st -> In f stk -> is_help f = true -> In f rest \/ In f (nx_frames nx).
Proof.
  induction 1 as [l rest p|l rest fs w|l v|l v b post Hb Hne|l v post|l v w rest l' nx l'' stk st Hb Hr Hs IH];
    intros Hin Hh; try (destruct Hin; fail).
  - destruct Hin as [<-|Hin]; [right; left; reflexivity|left; exact Hin].
  - cbn [nx_frames]. apply in_app_or in Hin as [Hin|[<-|Hin]].
    + right. apply in_or_app. left. exact Hin.
    + right. apply in_or_app. right. left. reflexivity.
    + left. exact Hin.
  - left. destruct (IH Hin Hh) as [H|H]; [right; exact H|].
    exfalso. pose proof (resume_hfree _ _ _ _ _ _ Hr) as Hf.
    clear -H Hh Hf. induction (nx_frames nx) as [|q fs IHf]; [destruct H|].
    cbn in Hf. apply andb_prop in Hf as [H1 H2]. destruct H as [<-|H]; [rewrite Hh in H1; discriminate|auto].
Qed.

Lemma settle_last cf l rest nx l2 stk st b :
  settle cf l rest nx l2 stk st -> (exists pre, rest = pre ++ [b]) -> is_bottom_frame b = true ->
  stk = [] \/ exists pre', stk = pre' ++ [b].
Proof.
  induction 1 as [l rest p|l rest fs w|l v|l v b0 post Hb Hne|l v post|l v w rest l' nx l'' stk st Hb Hr Hs IH];
    intros (pre & Hp) Hbb; auto.
  - right. exists (p :: pre). rewrite Hp. reflexivity.
  - right. exists (fs ++ w :: pre). rewrite Hp, <- app_assoc. reflexivity.
  - apply IH; [|exact Hbb]. destruct pre as [|q pre]; [injection Hp as -> ->; congruence|].
    injection Hp as -> ->. eauto.
Qed.

(** ** Completion of a load command: the value handed to the bottom frame *)
Lemma unwind_ld cf P : forall rest l rv, ZI true P rest -> rvok P rv -> bl rest ->
  match unwind cf l rest rv with
  | UDone l' dst rv' =>
      rvok P rv' /\ forall h, (exists pre, rest = pre ++ [KDone (Some h)]) -> dst = Some (h, handle_of rv')
  | _ => True
  end.
Proof.
  induction rest as [|w rest IH]; intros l rv HZ Hv Hbl.
  - cbn. split; [exact Hv|]. intros h (pre & Hp). destruct pre; discriminate.
  - assert (Hlast : forall h, (exists pre, w :: rest = pre ++ [KDone (Some h)]) -> is_bottom_frame w = false ->
                              exists pre', rest = pre' ++ [KDone (Some h)]).
    { intros h (pre & Hp) Hnb. destruct pre as [|q pre]; [injection Hp as -> ->; discriminate|].
      injection Hp as -> ->. eauto. }
    destruct Hbl as [Hb1 Hbl]. cbn [ZI] in HZ.
    destruct (is_help w) eqn:Hh; [destruct HZ; discriminate|].
    destruct (is_kdone w) eqn:Hk.
    + destruct w; try discriminate Hk. cbn. split; [exact Hv|]. intros h (pre & Hp).
      rewrite (Hb1 eq_refl) in Hp. destruct pre as [|q pre]; [injection Hp as ->; reflexivity|].
      injection Hp as _ Hp. destruct pre; discriminate.
    + destruct HZ as [Hw HZ]. destruct (Hw (or_introl eq_refl)) as [Hlw Hvw].
      pose proof (resume_lfv P cf l w rv) as Hres.
      pose proof (lfr_not_bottom _ Hlw) as Hnb.
      destruct w; try discriminate Hlw; try discriminate Hnb; cbn [unwind].
      all: match goal with |- context [resume ?cf0 ?l0 ?w0 ?v0] =>
             destruct (resume cf0 l0 w0 v0) as [l' nx] eqn:Hr end.
      all: destruct (Hres l' nx eq_refl Hlw Hvw Hv) as [_ Hrv].
      all: destruct nx as [p'|fs w'|v'|ps|f]; try exact I.
      all: specialize (IH l' v' HZ (Hrv v' eq_refl) Hbl); destruct (unwind cf l' rest v'); try exact I.
      all: destruct IH as [I1 I2]; split; [exact I1|]; intros h Hp; apply I2; apply (Hlast h Hp); reflexivity.
Qed.
