(** * ASModel.Lin8 — the shape of a step (with the idle cases spelled out); the structural
    invariants [ContAll], [ContPair], [LdBot] are preserved. *)
From Coq Require Import Lia.
From ASModel Require Import Base State Orderings_gen Step Run Progress Hist Inv InvTl InvProto InvStep Sum StepCases
  GenDefs Gen1 Gen2 Gen3 Gen EnvDefs LinDefs Lin1 Lin2 Lin3 Lin4 Lin5 Lin6 Lin7.

Inductive step_shape2 (cf : config) (s : state) (t x : N) : Prop :=
| s2_stopped : t_status (thr s t) <> Running -> fst (step cf s t x) = s -> step_shape2 cf s t x
| s2_idle c :
    t_status (thr s t) = Running -> t_stack (thr s t) = [] -> cur_cmd s t = Some c ->
    cmd_enabled s c = false -> fst (step cf s t x) = s -> step_shape2 cf s t x
| s2_cmd c s1 l1 stk r :
    t_status (thr s t) = Running -> t_stack (thr s t) = [] -> cur_cmd s t = Some c ->
    cmd_enabled s c = true ->
    cmd_start cf s (t_loc (thr s t)) c = inl (s1, l1, stk, r) ->
    fst (step cf s t x) = set_thread s1 t (start_thread (thr s t) l1 stk) ->
    step_shape2 cf s t x
| s2_exit_node n :
    t_status (thr s t) = Running -> t_stack (thr s t) = [] -> cur_cmd s t = None ->
    tl_node (t_loc (thr s t)) = Some n ->
    fst (step cf s t x) =
      set_thread s t (mkThread [C1 n; WThreadExit] (tl_set_node (t_loc (thr s t)) None)
                               (t_prog (thr s t)) (t_cmdi (thr s t)) Running) ->
    step_shape2 cf s t x
| s2_exit :
    t_status (thr s t) = Running -> t_stack (thr s t) = [] -> cur_cmd s t = None ->
    tl_node (t_loc (thr s t)) = None ->
    fst (step cf s t x) =
      set_thread s t (mkThread [] (t_loc (thr s t)) (t_prog (thr s t)) (t_cmdi (thr s t)) Exited) ->
    step_shape2 cf s t x
| s2_exec p rest s1 l1 evs nx :
    t_status (thr s t) = Running -> t_stack (thr s t) = p :: rest ->
    exec cf (sh s) (t_loc (thr s t)) p x = (s1, l1, evs, nx) ->
    fst (step cf s t x) =
      mkState s1 (upd (thr s) t (thread_after cf (thr s t) l1 rest nx)) (hnd_after cf (hnd s) l1 rest nx) ->
    step_shape2 cf s t x.

Lemma step_cases2 cf s t x : step_shape2 cf s t x.
Proof.
  destruct (t_status (thr s t)) eqn:Hr;
    try (apply s2_stopped; [congruence|unfold step; rewrite Hr; reflexivity]).
  destruct (t_stack (thr s t)) as [|p rest] eqn:Hs.
  - destruct (cur_cmd s t) as [c|] eqn:Hc; unfold cur_cmd in Hc.
    + destruct (cmd_enabled s c) eqn:Hen; [|eapply s2_idle; eauto; unfold step; rewrite Hr, Hs, Hc, Hen; reflexivity].
      destruct (cmd_start_total cf s (t_loc (thr s t)) c) as [[[[s1 l1] stk] r] Hcs].
      eapply s2_cmd; eauto. unfold step. rewrite Hr, Hs, Hc, Hen, Hcs. unfold start_thread. destruct stk; reflexivity.
    + destruct (tl_node (t_loc (thr s t))) as [n|] eqn:Hn.
      * eapply s2_exit_node; eauto. unfold step. rewrite Hr, Hs, Hc, Hn. reflexivity.
      * eapply s2_exit; eauto. unfold step. rewrite Hr, Hs, Hc, Hn. reflexivity.
  - destruct (exec cf (sh s) (t_loc (thr s t)) p x) as [[[s1 l1] evs] nx] eqn:He.
    eapply s2_exec; eauto. eapply step_exec_eq; eauto.
Qed.

Lemma thread_after_cmdi cf th l1 rest nx :
  t_stack (thread_after cf th l1 rest nx) <> [] -> t_cmdi (thread_after cf th l1 rest nx) = t_cmdi th.
Proof.
  unfold thread_after. destruct nx; try reflexivity. destruct (unwind cf l1 rest v); cbn; congruence.
Qed.

Lemma cur_cmd_after cf s s' t l1 rest nx :
  thr s' t = thread_after cf (thr s t) l1 rest nx -> t_stack (thr s' t) <> [] -> cur_cmd s' t = cur_cmd s t.
Proof.
  intros E Hne. unfold cur_cmd. rewrite E in *. rewrite thread_after_prog, thread_after_cmdi by exact Hne. reflexivity.
Qed.

Lemma cur_cmd_start s1 t th l1 stk :
  stk <> [] -> cur_cmd (set_thread s1 t (start_thread th l1 stk)) t =
               nth_error (t_prog th) (N.to_nat (t_cmdi th)).
Proof. intros H. unfold cur_cmd, set_thread. cbn. rewrite upd_same. destruct stk; [congruence|reflexivity]. Qed.

Lemma start_thread_stack th l stk : t_stack (start_thread th l stk) = stk.
Proof. destruct stk; reflexivity. Qed.

Section Step.
  Variables (cf : config) (s : state) (t x : N).
  Hypotheses (W : WF2 s) (Hcalm : Calm s) (Q : Quiet s) (Hnf : NoFault (fst (step cf s t x))).
  Local Notation s' := (fst (step cf s t x)).

  Lemma other_thr t' : t' <> t -> thr s' t' = thr s t'.
  Proof. apply step_status_other. Qed.

  Theorem step_ContAll : ContAll s -> ContAll s'.
  Proof.
    intros CA t' c0 Hc.
    destruct (N.eq_dec t' t) as [->|Hne].
    2: { rewrite (other_thr t' Hne). apply CA. unfold cur_cont0 in *. rewrite (cur_cmd_thr s s' t' (other_thr t' Hne)) in Hc. exact Hc. }
    destruct (step_cases2 cf s t x) as [Hr E|c Hr Hs Hcc Hen E|c s1 l1 stk r Hr Hs Hcc Hen Hcs E|n Hr Hs Hcc Hn E|Hr Hs Hcc Hn E|p rest s1 l1 evs nx Hr Hs He E].
    - rewrite E in *. apply CA. exact Hc.
    - rewrite E in *. apply CA. exact Hc.
    - rewrite E in *. cbn. rewrite upd_same, start_thread_stack.
      destruct stk as [|f0 stk]; [constructor|].
      unfold cur_cont0 in Hc. rewrite cur_cmd_start in Hc by discriminate. unfold cur_cmd in Hcc. rewrite Hcc in Hc.
      eapply cmd_start_cont; eassumption.
    - rewrite E. cbn. rewrite upd_same. cbn. repeat constructor; intros c1 Hc1; discriminate Hc1.
    - rewrite E. cbn. rewrite upd_same. cbn. constructor.
    - destruct (exec_settle _ _ _ _ _ _ _ _ _ _ W Hnf Hr Hs He) as [Hns Hset].
      assert (Et : thr s' t = thread_after cf (thr s t) l1 rest nx) by (rewrite E; cbn; apply upd_same).
      rewrite Et. destruct (t_stack (thread_after cf (thr s t) l1 rest nx)) as [|f0 stk2] eqn:Hstk; [constructor|].
      assert (Hcur : cur_cmd s' t = cur_cmd s t).
      { eapply cur_cmd_after; [exact Et|]. rewrite Et, Hstk. discriminate. }
      unfold cur_cont0 in Hc. rewrite Hcur in Hc. pose proof (CA t c0 Hc) as Hold. rewrite Hs in Hold.
      inversion Hold as [|? ? Hp Hrest]; subst.
      eapply settle_cont; [exact Hset|exact Hrest|].
      apply Forall_forall. intros f Hin c Hfc. apply Hp. eapply exec_cont; eassumption.
  Qed.
End Step.

Lemma cmd_start_pair cf s l c s' l' stk r :
  cmd_start cf s l c = inl (s', l', stk, r) -> exists c0, Forall (cont_ok c0) stk.
Proof.
  intros Hc. destruct c; cbn in Hc; destr_in Hc; try discriminate; injection Hc as <- <- <- <-.
  all: repeat match goal with
         | H : enter_load _ _ _ = inl (_, _) |- _ => apply enter_load_fok in H; apply fok_cont in H
         | H : enter_pay _ _ _ = (_, _) |- _ => apply enter_pay_fok in H; apply fok_cont in H
         | H : guard_drop_frames ?v ?d = _ |- _ =>
             let HG := fresh "HG" in pose proof (fok_cont 0 _ (guard_drop_fok 0 v d)) as HG; rewrite H in HG; clear H
         | H : guard_into_frames ?v ?d = _ |- _ =>
             let HG := fresh "HG" in pose proof (fok_cont 0 _ (guard_into_fok 0 v d)) as HG; rewrite H in HG; clear H
         end.
  all: eexists.
  all: try (apply Forall_app; split; [eassumption|]).
  all: try (match goal with |- Forall _ (?a :: ?b ++ ?c) => change (a :: b ++ c) with ((a :: b) ++ c); apply Forall_app; split; [eassumption|] end).
  all: repeat (first [apply Forall_nil | apply Forall_cons; [first [apply cont_ok_none; reflexivity | intros c' [= <-]; reflexivity]|]]).
  Unshelve. all: exact 0.
Qed.

Lemma cmd_start_bot cf s l c s' l' stk r h :
  cmd_start cf s l c = inl (s', l', stk, r) -> load_dst c = Some h -> exists pre, stk = pre ++ [KDone (Some h)].
Proof.
  intros Hc Hk. destruct c; try discriminate Hk; injection Hk as ->; cbn in Hc; destr_in Hc; try discriminate;
    injection Hc as <- <- <- <-.
  - eauto.
  - match goal with |- exists pre, ?a ++ [WLoadFull; ?k] = _ => exists (a ++ [WLoadFull]) end.
    rewrite <- app_assoc. reflexivity.
Qed.

Section Step2.
  Variables (cf : config) (s : state) (t x : N).
  Hypotheses (W : WF2 s) (Hcalm : Calm s) (Q : Quiet s) (Hnf : NoFault (fst (step cf s t x))).
  Local Notation s' := (fst (step cf s t x)).

  Theorem step_ContPair : ContPair s -> ContPair s'.
  Proof.
    intros CP t'. destruct (N.eq_dec t' t) as [->|Hne]; [|rewrite (other_thr cf s t x t' Hne); apply CP].
    destruct (step_cases2 cf s t x) as [Hr E|c Hr Hs Hcc Hen E|c s1 l1 stk r Hr Hs Hcc Hen Hcs E|n Hr Hs Hcc Hn E|Hr Hs Hcc Hn E|p rest s1 l1 evs nx Hr Hs He E].
    - rewrite E. apply CP.
    - rewrite E. apply CP.
    - rewrite E. cbn. rewrite upd_same, start_thread_stack.
      destruct (cmd_start_pair _ _ _ _ _ _ _ _ Hcs) as (c0 & Hall).
      intros f1 f2 c1 c2 I1 I2 H1 H2.
      rewrite (proj1 (Forall_forall _ _) Hall f1 I1 c1 H1), (proj1 (Forall_forall _ _) Hall f2 I2 c2 H2). reflexivity.
    - rewrite E. cbn. rewrite upd_same. cbn. intros f1 f2 c1 c2 [<-|[<-|[]]] _ H1; discriminate H1.
    - rewrite E. cbn. rewrite upd_same. cbn. intros f1 f2 c1 c2 [].
    - destruct (exec_settle _ _ _ _ _ _ _ _ _ _ W Hnf Hr Hs He) as [Hns Hset].
      assert (Et : thr s' t = thread_after cf (thr s t) l1 rest nx) by (rewrite E; cbn; apply upd_same).
      rewrite Et.
      assert (Horig : forall f c, In f (t_stack (thread_after cf (thr s t) l1 rest nx)) -> pc_cont f = Some c ->
                                  exists f0, In f0 (p :: rest) /\ pc_cont f0 = Some c).
      { intros f c Hin Hc. destruct (settle_cont_origin _ _ _ _ _ _ _ _ _ Hset Hin Hc) as [(f0 & I0 & C0)|(f0 & I0 & C0)].
        - exists f0. split; [right; exact I0|exact C0].
        - exists p. split; [left; reflexivity|]. eapply exec_cont; eassumption. }
      intros f1 f2 c1 c2 I1 I2 H1 H2.
      destruct (Horig f1 c1 I1 H1) as (g1 & J1 & K1). destruct (Horig f2 c2 I2 H2) as (g2 & J2 & K2).
      rewrite <- Hs in J1, J2. exact (CP t g1 g2 c1 c2 J1 J2 K1 K2).
  Qed.

  Theorem step_LdBot : LdBot s -> LdBot s'.
  Proof.
    intros LB t' c h Hc Hd.
    destruct (N.eq_dec t' t) as [->|Hne].
    2: { rewrite (other_thr cf s t x t' Hne). apply (LB t' c h); [|exact Hd].
         rewrite <- (cur_cmd_thr s s' t' (other_thr cf s t x t' Hne)). exact Hc. }
    destruct (step_cases2 cf s t x) as [Hr E|c0 Hr Hs Hcc Hen E|c0 s1 l1 stk r Hr Hs Hcc Hen Hcs E|n Hr Hs Hcc Hn E|Hr Hs Hcc Hn E|p rest s1 l1 evs nx Hr Hs He E].
    - rewrite E in *. exact (LB t c h Hc Hd).
    - rewrite E in *. exact (LB t c h Hc Hd).
    - rewrite E in *. cbn. rewrite upd_same, start_thread_stack.
      destruct stk as [|f0 stk]; [left; reflexivity|right].
      rewrite cur_cmd_start in Hc by discriminate. unfold cur_cmd in Hcc. rewrite Hcc in Hc. injection Hc as ->.
      eapply cmd_start_bot; eassumption.
    - exfalso. rewrite E in Hc. unfold cur_cmd, set_thread in Hc. cbn in Hc. rewrite upd_same in Hc. cbn in Hc.
      unfold cur_cmd in Hcc. congruence.
    - rewrite E. cbn. rewrite upd_same. left. reflexivity.
    - destruct (exec_settle _ _ _ _ _ _ _ _ _ _ W Hnf Hr Hs He) as [Hns Hset].
      assert (Et : thr s' t = thread_after cf (thr s t) l1 rest nx) by (rewrite E; cbn; apply upd_same).
      destruct (t_stack (thr s' t)) as [|f0 stk2] eqn:Hstk; [left; reflexivity|].
      assert (Hcur : cur_cmd s' t = cur_cmd s t).
      { eapply cur_cmd_after; [exact Et|]. rewrite Hstk. discriminate. }
      rewrite Hcur in Hc. destruct (LB t c h Hc Hd) as [Hx|(pre & Hp)]; [congruence|].
      rewrite Hs in Hp. destruct (running_stk_ok s t W Hr) as [Htl _]. rewrite Hs in Htl. destruct Htl as (Hnw & _).
      destruct pre as [|q pre]; [injection Hp as -> _; discriminate Hnw|]. injection Hp as _ Hp.
      rewrite <- Hstk, Et. eapply settle_last; [exact Hset|eauto|reflexivity].
  Qed.
End Step2.
