(** * ASModel.Lin9 — the zone invariant [ZoneInv] is preserved by every step. *)
From Coq Require Import Lia.
From ASModel Require Import Base State Orderings_gen Step Run Progress Hist Inv InvTl InvProto InvStep Sum StepCases
  GenDefs Gen1 Gen2 Gen3 Gen EnvDefs LinDefs Lin1 Lin2 Lin3 Lin4 Lin5 Lin6 Lin7 Lin8.

Lemma lfr_not_start p s t rest :
  lfr p = true -> t_stack (thr s t) = p :: rest -> starts_now s t = false.
Proof.
  intros Hl Hs. unfold starts_now. rewrite Hs. destruct (t_status (thr s t)); try reflexivity.
  destruct p; try discriminate Hl; reflexivity.
Qed.

Lemma named_cont s t c1 f c :
  ContAll s -> ContPair s -> named s t c1 -> In f (t_stack (thr s t)) -> pc_cont f = Some c -> c1 = c.
Proof.
  intros CA CP [[_ Hc]|(old & w & ctl & Hin)] Hf Hpc.
  - symmetry. exact (proj1 (Forall_forall _ _) (CA t c1 Hc) f Hf c Hpc).
  - exact (CP t _ f c1 c Hin Hf eq_refl Hpc).
Qed.

Lemma running_node s t p rest :
  WF2 s -> t_status (thr s t) = Running -> t_stack (thr s t) = p :: rest -> in_with p = true ->
  exists n, tl_node (t_loc (thr s t)) = Some n /\ own_node (t_loc (thr s t)) = n /\
            holder (thr s t) = Some n /\ owner (thr s t) = Some n.
Proof.
  intros W Hr Hs Hi. destruct (running_stk_ok s t W Hr) as [Htl _]. rewrite Hs in Htl.
  destruct Htl as (_ & _ & _ & Hnn & _).
  assert (Hd : depth_of (p :: rest) <> 0).
  { cbn. rewrite (in_with_not_bottom _ Hi), Hi. lia. }
  specialize (Hnn Hd). destruct (tl_node (t_loc (thr s t))) as [n|] eqn:Hn; [|congruence].
  exists n. unfold own_node, holder, owner. rewrite Hn. auto.
Qed.

Lemma settle_push_inv cf l rest nx fs w l2 stk st :
  settle cf l rest nx l2 stk st -> nx = NPush fs w -> stk = fs ++ w :: rest /\ l2 = l /\ st = Running.
Proof. intros H ->. inversion H; subst. auto. Qed.

Lemma settle_goto_inv cf l rest nx q l2 stk st :
  settle cf l rest nx l2 stk st -> nx = NGoto q -> stk = q :: rest /\ l2 = l /\ st = Running.
Proof. intros H ->. inversion H; subst. auto. Qed.

Section Step.
  Variables (cf : config) (s : state) (g : ghost) (t x : N).
  Hypotheses (W : WF2 s) (Hcalm : Calm s) (Q : Quiet s) (GI : GenInv s) (EF : EnvFree s)
             (Hnf : NoFault (fst (step cf s t x))).
  Hypotheses (LF : LtFresh s g) (CA : ContAll s) (CP : ContPair s) (ZV : ZoneInv s g)
             (PF : PubFresh s g) (AN : Answered s g).
  Local Notation s' := (fst (step cf s t x)).
  Local Notation g' := (snd (gstep cf (s, g) t x)).

  (** An envelope that a reader is about to read is not written by anybody else. *)
  Lemma env_stable t' cand e rest :
    t' <> t -> t_stack (thr s t') = LH7 cand e :: rest -> mem (sh s') (LEnv e) = mem (sh s) (LEnv e).
  Proof.
    intros Hne Hs7.
    destruct (step_cases2 cf s t x) as [Hr E|c Hr Hs Hcc Hen E|c s1 l1 stk r Hr Hs Hcc Hen Hcs E|n Hr Hs Hcc Hn E|Hr Hs Hcc Hn E|p rest0 s1 l1 evs nx Hr Hs He E];
      try (rewrite E; reflexivity).
    - rewrite E. cbn. destruct (cmd_start_effect _ _ _ _ _ _ _ _ Hcs) as (_ & _ & Hmem & _). apply Hmem. discriminate.
    - rewrite E. cbn [sh].
      destruct (exec_env _ _ _ _ _ _ _ _ _ e He) as [H|[(c & old & w & ctl & r & their & mine & -> & ->)|(h & -> & Hh & ->)]];
        [exact H|exfalso..].
      + destruct (EF t c old w ctl r their mine rest0 Hr Hs) as (_ & H2 & _). exact (H2 t' cand _ rest Hs7 eq_refl).
      + assert (Hr' : t_status (thr s t') = Running) by (eapply in_running; [exact Q|rewrite Hs7; left; reflexivity]).
        destruct (running_node s t' _ _ W Hr' Hs7 eq_refl) as (n & _ & _ & Hh' & _).
        pose proof (w_top _ W t' n Hr' Hh') as Ht. rewrite Hs7 in Ht. cbn in Ht. unfold nn in Ht. lia.
  Qed.

  Lemma zone_other t' : t' <> t ->
    ZI (ld s' t') (Fr s' g' t') (t_stack (thr s' t')) /\
    (forall cand e rest, t_stack (thr s' t') = LH7 cand e :: rest -> Fr s' g' t' (mem (sh s') (LEnv e))).
  Proof.
    intros Hne. pose proof (other_thr cf s t x t' Hne) as Ht.
    assert (Hld : ld s' t' = ld s t') by (unfold ld; rewrite (cur_cmd_thr s s' t' Ht); reflexivity).
    assert (Hm : forall v, Fr s g t' v -> Fr s' g' t' v).
    { intros v. apply Fr_mono; [exact LF|intros c; apply named_thr; exact Ht|apply g_start_other; exact Hne]. }
    destruct (ZV t') as [Z1 Z2]. rewrite Hld, Ht. split.
    - eapply ZI_mono; [exact Hm|exact Z1].
    - intros cand e rest Hs7. rewrite (env_stable t' cand e rest Hne Hs7). apply Hm. eapply Z2. exact Hs7.
  Qed.

  (** The acting thread: a frame step. *)
  Section Exec.
    Variables (p : pc) (rest : list pc) (s1 : shared) (l1 : tlocal) (evs : list event) (nx : next).
    Hypotheses (Hr : t_status (thr s t) = Running) (Hs : t_stack (thr s t) = p :: rest)
               (He : exec cf (sh s) (t_loc (thr s t)) p x = (s1, l1, evs, nx))
               (E : s' = mkState s1 (upd (thr s) t (thread_after cf (thr s t) l1 rest nx))
                                 (hnd_after cf (hnd s) l1 rest nx)).
    Local Notation th' := (thread_after cf (thr s t) l1 rest nx).

    Lemma ex_thr : thr s' t = th'.
    Proof. rewrite E. cbn. apply upd_same. Qed.
    Lemma ex_sh : sh s' = s1.
    Proof. rewrite E. reflexivity. Qed.

    Lemma ex_settle : ~ nx_stops nx /\ settle cf l1 rest nx (t_loc th') (t_stack th') (t_status th').
    Proof. eapply exec_settle; eassumption. Qed.

    Lemma ex_top : is_waiting p = false /\ all_waiting rest.
    Proof. destruct (running_stk_ok s t W Hr) as [Htl _]. rewrite Hs in Htl. destruct Htl as (A & B & _). auto. Qed.

    (** Containers named after the step were named before (if no [WHelpRepl] is pushed). *)
    Lemma named_after c : t_stack th' <> [] -> hfree (nx_frames nx) = true -> named s' t c -> named s t c.
    Proof.
      intros Hne Hf [[Hl Hc]|(old & w & ctl & Hin)].
      - left. assert (Hcur : cur_cmd s' t = cur_cmd s t).
        { eapply cur_cmd_after; [exact ex_thr|]. rewrite ex_thr. exact Hne. }
        unfold ld, cur_cont0 in *. rewrite Hcur in *. auto.
      - right. rewrite ex_thr in Hin. destruct ex_settle as [_ Hset].
        destruct (settle_help_in _ _ _ _ _ _ _ _ Hset Hin eq_refl) as [H|H].
        + exists old, w, ctl. rewrite Hs. right. exact H.
        + exfalso. clear -H Hf. induction (nx_frames nx) as [|q fs IH]; [destruct H|].
          cbn in Hf. apply andb_prop in Hf as [H1 H2]. destruct H as [->|H]; [discriminate H1|auto].
    Qed.

    Lemma fresh_now c : sh s' = sh s -> (g_lt g' c (mem (sh s) (LStore c)) >= g_start g' t)%nat.
    Proof.
      intros Hsh. pose proof (g_lt_now cf s g t x c) as H. rewrite Hsh in H. rewrite H.
      apply (g_start_le cf s g t x LF t).
    Qed.

    (** Freshness with respect to the containers named BEFORE the step, in the ghost AFTER it. *)
    Definition Pm (v : N) : Prop := forall c, named s t c -> (g_lt g' c v >= g_start g' t)%nat.

    Lemma in_hfree_false q stk : In q stk -> is_help q = true -> hfree stk = false.
    Proof.
      induction stk as [|a stk IH]; intros Hin Hq; [destruct Hin|]. cbn. destruct Hin as [->|Hin].
      - rewrite Hq. reflexivity.
      - rewrite (IH Hin Hq). apply andb_false_r.
    Qed.

    Lemma zone_step :
      inz (ld s t) rest ->
      ZI (ld s t) Pm (t_stack th') /\
      (forall f c w ctl r, hd_error (t_stack th') = Some f -> help_loaded f = Some (c, w, ctl, r) -> Pm r).
    Proof.
      intros Hz. destruct ex_settle as [Hns Hset]. destruct ex_top as [Hnw Hwait].
      destruct (not_waiting_not_help _ Hnw) as [Hh Hk].
      destruct (ZV t) as [Z1 Z2]. rewrite Hs in Z1. cbn [ZI] in Z1. rewrite Hh, Hk in Z1. destruct Z1 as [Zp Zr].
      destruct (Zp Hz) as [Hlp Hvp].
      pose proof (lfr_not_start p s t rest Hlp Hs) as Hst.
      assert (Hm : forall v, Fr s g t v -> Pm v).
      { intros v Hv c Hc. specialize (Hv c Hc). rewrite (g_start_same cf s g t x Hst t).
        pose proof (g_lt_mono cf s g t x LF c v). lia. }
      assert (Hin_p : In p (t_stack (thr s t))) by (rewrite Hs; left; reflexivity).
      eapply settle_ZI; [exact Hset|exact Hz|eapply ZI_mono; [exact Hm|exact Zr]|].
      eapply exec_lfv; [exact He|exact Hlp| | | |].
      - intros v Hv. apply Hm. apply Hvp. exact Hv.
      - intros c gt -> c1 Hc1. rewrite (named_cont s t c1 _ c CA CP Hc1 Hin_p eq_refl).
        apply fresh_now. rewrite ex_sh. eapply exec_lh3_same. exact He.
      - intros c v j -> c1 Hc1. rewrite (named_cont s t c1 _ c CA CP Hc1 Hin_p eq_refl).
        apply fresh_now. rewrite ex_sh. eapply exec_la4_same. exact He.
      - intros cand e ->. apply Hm. eapply Z2. exact Hs.
    Qed.

    Lemma zone_pre :
      inz (ld s t) rest ->
      nx_lfv Pm nx /\ ZI (ld s t) Pm rest /\ starts_now s t = false.
    Proof.
      intros Hz. destruct ex_top as [Hnw Hwait].
      destruct (not_waiting_not_help _ Hnw) as [Hh Hk].
      destruct (ZV t) as [Z1 Z2]. rewrite Hs in Z1. cbn [ZI] in Z1. rewrite Hh, Hk in Z1. destruct Z1 as [Zp Zr].
      destruct (Zp Hz) as [Hlp Hvp].
      pose proof (lfr_not_start p s t rest Hlp Hs) as Hst.
      assert (Hm : forall v, Fr s g t v -> Pm v).
      { intros v Hv c Hc. specialize (Hv c Hc). rewrite (g_start_same cf s g t x Hst t).
        pose proof (g_lt_mono cf s g t x LF c v). lia. }
      assert (Hin_p : In p (t_stack (thr s t))) by (rewrite Hs; left; reflexivity).
      split; [|split; [eapply ZI_mono; [exact Hm|exact Zr]|exact Hst]].
      eapply exec_lfv; [exact He|exact Hlp| | | |].
      - intros v Hv. apply Hm. apply Hvp. exact Hv.
      - intros c gt -> c1 Hc1. rewrite (named_cont s t c1 _ c CA CP Hc1 Hin_p eq_refl).
        apply fresh_now. rewrite ex_sh. eapply exec_lh3_same. exact He.
      - intros c v j -> c1 Hc1. rewrite (named_cont s t c1 _ c CA CP Hc1 Hin_p eq_refl).
        apply fresh_now. rewrite ex_sh. eapply exec_la4_same. exact He.
      - intros cand e ->. apply Hm. eapply Z2. exact Hs.
    Qed.

    Lemma Pm_Fr v : t_stack th' <> [] -> hfree (nx_frames nx) = true -> Pm v -> Fr s' g' t v.
    Proof. intros Hne Hf Hv c Hc. apply Hv. eapply named_after; eassumption. Qed.

    (** [LH5] found a replacement: the envelope holds a value that was current after the start. *)
    Lemma top7_fresh cand e rest' : t_stack th' = LH7 cand e :: rest' -> Fr s' g' t (mem (sh s') (LEnv e)).
    Proof.
      intros Hstk. destruct ex_settle as [Hns Hset].
      pose proof (settle_top7 _ _ _ _ _ _ _ _ _ _ Hset Hstk) as Hhd.
      assert (Hin : In (LH7 cand e) (nx_frames nx)).
      { destruct (nx_frames nx); [discriminate|]. injection Hhd as ->. left. reflexivity. }
      destruct (exec_to7 _ _ _ _ _ _ _ _ _ _ _ He Hns Hin) as (c & gt & Hp5 & Hne & He').
      pose proof He as He5. pose proof Hs as Hs5. rewrite Hp5 in He5, Hs5.
      destruct (exec_lh5 _ _ _ _ _ _ _ _ _ _ _ He5 Hns) as [[Hx _]|[_ Hnx]]; [contradiction|].
      destruct (running_node s t _ _ W Hr Hs5 eq_refl) as (n & Hn & Hown & Hhold & Howner).
      rewrite Hown in *.
      pose proof (w_top _ W t n Hr Hhold) as Ht. rewrite Hs5 in Ht. cbn in Ht. destruct Ht as ([Hc|(e0 & _ & Hc)] & _); [contradiction|].
      assert (Htag : N.land (mem (sh s) (LCtrl n)) TAG_MASK = REPLACEMENT_TAG) by (rewrite Hc; apply env_val_land).
      assert (Hreq : req_of (thr s t) = Some (c, gt)) by (unfold req_of; rewrite Hs5; reflexivity).
      pose proof (AN n t c gt Howner Hreq Htag) as Ha. rewrite <- He' in Ha.
      assert (Hp : (g_pub g n >= g_start g t)%nat) by (apply (PF t n Hr Howner); congruence).
      rewrite ex_sh, (exec_lh5_env _ _ _ _ _ _ _ _ _ _ _ e He5).
      apply Pm_Fr; [rewrite Hstk; discriminate|rewrite Hnx; reflexivity|].
      intros c1 Hc1.
      assert (Hin5 : In (LH5 c gt cand) (t_stack (thr s t))) by (rewrite Hs5; left; reflexivity).
      rewrite (named_cont s t c1 _ c CA CP Hc1 Hin5 eq_refl).
      assert (Hst : starts_now s t = false) by (eapply lfr_not_start; [|exact Hs5]; reflexivity).
      rewrite (g_start_same cf s g t x Hst t).
      pose proof (g_lt_mono cf s g t x LF c (mem (sh s) (LEnv e))). lia.
    Qed.

    Lemma zone_exec :
      ZI (ld s' t) (Fr s' g' t) (t_stack th').
    Proof.
      destruct (t_stack th') as [|f0 stk2] eqn:Hstk; [exact I|].
      assert (Hne : t_stack th' <> []) by (rewrite Hstk; discriminate).
      assert (Hcur : cur_cmd s' t = cur_cmd s t).
      { eapply cur_cmd_after; [exact ex_thr|]. rewrite ex_thr. exact Hne. }
      assert (Hld : ld s' t = ld s t) by (unfold ld; rewrite Hcur; reflexivity).
      rewrite Hld, <- Hstk. destruct ex_settle as [Hns Hset].
      destruct (inz_dec (ld s t) rest) as [Hz|[Hb Hfree]].
      - destruct (zone_step Hz) as [HZ _]. eapply ZI_mono; [|exact HZ].
        intros v. apply Pm_Fr; [exact Hne|].
        destruct ex_top as [Hnw _]. destruct (not_waiting_not_help _ Hnw) as [Hh Hk].
        destruct (ZV t) as [Z1 _]. rewrite Hs in Z1. cbn [ZI] in Z1. rewrite Hh, Hk in Z1. destruct Z1 as [Zp _].
        destruct (Zp Hz) as [Hlp Hvp].
        assert (Hnl : nx_lfv (fun _ => True) nx).
        { eapply exec_lfv; [exact He|exact Hlp|..]; try (intros ? ?); intros; exact I. }
        apply hfree_lfr. eapply Forall_impl; [|exact (proj1 Hnl)]. intros a [Ha _]. exact Ha.
      - rewrite Hb. destruct (exec_hfree _ _ _ _ _ _ _ _ _ He Hns) as [Hf|(c & old & w & ctl & fs & Hp2 & Ha & Hel & Hnx)].
        + eapply settle_ZI_out; eassumption.
        + destruct (settle_push_inv _ _ _ _ _ _ _ _ _ Hset Hnx) as (-> & _). eapply ZI_pe2_push; eassumption.
    Qed.
  End Exec.
End Step.
