(** * ASModel.LinCache — C16: [Cache::load] (and [Cache::new]) is linearizable.

    A completed [CCacheNew c k] / [CCacheLoad k] (with [hnd k = HCache c _] at its start) leaves
    [HCache c v] in the cache handle [k], where [v] was the content of the storage of [c] in one
    of the states after the steps [pa] .. [pb] of the command ([cache_linearizable]); for two
    cache commands of one thread the linearization instants are ordered as the commands are
    ([cache_loads_monotone]).  Run hypotheses as for [Lin.load_linearizable]. *)
From Coq Require Import Lia.
From ASModel Require Import Base State Orderings_gen Step Run Progress Hist Inv InvTl InvProto InvStep Sum StepCases
  GenDefs Gen1 Gen2 Gen3 Gen EnvDefs LinDefs
  Lin1 Lin2 Lin3 Lin4 Lin5 Lin6 Lin7 Lin8 Lin9 Lin10 Lin11 Lin12 Lin13 Lin14 Lin
  LinCache1 LinCache2 LinCache3 LinCache4 LinCache5 LinCache6 Env.

Section Run.
  Variables (cf : config) (inits : list N) (progs : list (list cmd)).
  Local Notation s0 := (init_state inits progs).
  Hypothesis Hprogs : forall p, In p progs -> forall g, ~ In (CSetGen g) p.

  Lemma run_LinInv3 : forall sched,
    prefix_ok Calm cf s0 sched -> prefix_ok EnvFree cf s0 sched -> prefix_ok EnvA cf s0 sched ->
    NoFault (run_state cf s0 sched) ->
    LinInv3 (run_state cf s0 sched) (snd (grun cf (s0, ghost0) sched)).
  Proof.
    induction sched as [|tx sched IH] using rev_ind; intros Hc He Ha Hnf; [apply LinInv3_init|].
    pose proof (prefix_ok_snoc _ _ _ _ _ Hc) as Hc1. pose proof (prefix_ok_snoc _ _ _ _ _ He) as He1.
    pose proof (prefix_ok_snoc _ _ _ _ _ Ha) as Ha1.
    rewrite run_state_snoc in Hnf. pose proof (NoFault_back _ _ _ _ Hnf) as Hnf1.
    specialize (IH Hc1 He1 Ha1 Hnf1).
    destruct (run_GenInvQ cf sched s0 (GenInvQ_init inits progs Hprogs) Hc1 Hnf1) as [W Q GI].
    rewrite run_state_snoc, grun_snoc.
    destruct (grun cf (s0, ghost0) sched) as [s1 g1] eqn:Hg.
    assert (Hs1 : s1 = run_state cf s0 sched) by (rewrite <- (grun_fst cf sched s0 ghost0), Hg; reflexivity).
    subst s1. cbn [snd] in IH.
    change (fst (step cf (run_state cf s0 sched) (fst tx) (snd tx)))
      with (fst (gstep cf (run_state cf s0 sched, g1) (fst tx) (snd tx))).
    apply gstep_LinInv3; try assumption.
    - apply prefix_ok_all. exact Hc1.
    - apply prefix_ok_all. exact He1.
    - apply prefix_ok_all. exact Ha1.
  Qed.
End Run.

(** The command and the cache it is about: [CCacheNew c k], or [CCacheLoad k] where the handle
    [k] is a cache of container [c] when the command starts. *)
Definition cache_cmd_of (s : state) (cm : cmd) (c k : N) : Prop :=
  cm = CCacheNew c k \/ (cm = CCacheLoad k /\ exists a0, hnd s k = HCache c a0).

Lemma cache_cmd_key s cm c k : cache_cmd_of s cm c k -> ckey cm = Some k.
Proof. intros [->|[-> _]]; reflexivity. Qed.

Lemma cache_cmd_enabled s cm c k : cache_cmd_of s cm c k -> cmd_enabled s cm = true.
Proof. intros [->|[-> (a0 & H)]]; cbn; [reflexivity|]. rewrite H. reflexivity. Qed.

(** The stack the command starts with ends with [KCacheDone c k]. *)
Lemma cache_cmd_start cf s l cm c k s1 l1 stk r :
  cache_cmd_of s cm c k -> cmd_start cf s l cm = inl (s1, l1, stk, r) ->
  exists pre, stk = pre ++ [KCacheDone c k].
Proof.
  intros [->|[-> (a0 & H)]] Hcs.
  - eapply (LZ_last (fun _ => True)). eapply cmd_start_cnew. exact Hcs.
  - rewrite (cmd_start_cload cf s l k c a0 H) in Hcs. injection Hcs as _ _ <- _.
    exists [Q1 c a0 k]. reflexivity.
Qed.

Section Run2.
  Variables (cf : config) (inits : list N) (progs : list (list cmd)).
  Local Notation s0 := (init_state inits progs).
  Hypothesis Hprogs : forall p, In p progs -> forall g, ~ In (CSetGen g) p.
  Variable sched : list (N * N).
  Hypotheses (Hcalm : prefix_ok Calm cf s0 sched) (Henvf : prefix_ok EnvFree cf s0 sched)
             (Henva : prefix_ok EnvA cf s0 sched) (Hnf : NoFault (run_state cf s0 sched)).
  Local Notation St k := (run_state cf s0 (firstn k sched)).
  Local Notation Gh k := (snd (grun cf (s0, ghost0) (firstn k sched))).

  Lemma St_split j k : (j <= k)%nat -> St k = run_state cf (St j) (firstn (k - j) (skipn j sched)).
  Proof. intros H. rewrite (firstn_split sched j k H), run_state_app. reflexivity. Qed.

  Lemma St_cmdi_mono j k t : (j <= k)%nat -> t_cmdi (thr (St j) t) <= t_cmdi (thr (St k) t).
  Proof. intros H. rewrite (St_split j k H). apply run_cmdi_mono. Qed.

  Lemma St_stopped j k t : (j <= k)%nat -> t_status (thr (St j) t) <> Running -> thr (St k) t = thr (St j) t.
  Proof. intros H Hs. rewrite (St_split j k H). apply run_stopped. exact Hs. Qed.

  Lemma St_NoFault j : NoFault (St j).
  Proof. apply NoFault_prefix. exact Hnf. Qed.

  Lemma St_GenInvQ j : GenInvQ (St j).
  Proof.
    apply run_GenInvQ; [apply GenInvQ_init; exact Hprogs|exact (prefix_ok_firstn _ _ _ _ j Hcalm)|apply St_NoFault].
  Qed.

  (** A thread that completes a command with the step at [pb] is running in every earlier state. *)
  Lemma St_running t i j pb :
    (j <= pb)%nat -> t_cmdi (thr (St pb) t) = i -> t_cmdi (thr (St (S pb)) t) = i + 1 ->
    t_status (thr (St j) t) = Running.
  Proof.
    intros Hj H1 H2. destruct (status_running_dec (t_status (thr (St j) t))) as [H|H]; [exact H|exfalso].
    rewrite (St_stopped j pb t Hj H) in H1. rewrite (St_stopped j (S pb) t ltac:(lia) H) in H2. lia.
  Qed.

  (** The bottom frame of the command that the step at [pb] completes stays where it is. *)
  Lemma St_bottom t i b pa pb :
    is_bottom_frame b = true -> (pa <= pb)%nat ->
    t_cmdi (thr (St pa) t) = i -> (exists pre, t_stack (thr (St pa) t) = pre ++ [b]) ->
    (pb < length sched)%nat ->
    t_cmdi (thr (St pb) t) = i -> t_cmdi (thr (St (S pb)) t) = i + 1 ->
    exists pre, t_stack (thr (St pb) t) = pre ++ [b].
  Proof.
    intros Hb Hab Hia Hsa Hlen Hib Hib'.
    assert (H : forall d, (pa + d <= pb)%nat -> exists pre, t_stack (thr (St (pa + d)) t) = pre ++ [b]).
    { induction d as [|d IH]; intros Hd; [rewrite Nat.add_0_r; exact Hsa|].
      specialize (IH ltac:(lia)). remember (pa + d)%nat as j eqn:Hj.
      replace (pa + S d)%nat with (S j) by lia.
      destruct (nth_error sched j) as [[t0 x0]|] eqn:Hn; [|apply nth_error_None in Hn; lia].
      pose proof (St_succ cf inits progs sched j t0 x0 Hn) as E.
      pose proof (St_cmdi_mono pa j t ltac:(lia)). pose proof (St_cmdi_mono j (S j) t ltac:(lia)).
      pose proof (St_cmdi_mono (S j) pb t ltac:(lia)).
      pose proof (St_running t i j pb ltac:(lia) Hib Hib') as Hrj.
      pose proof (St_running t i (S j) pb ltac:(lia) Hib Hib') as Hrj'.
      pose proof (St_NoFault (S j)) as Hnf'.
      assert (Hci : t_cmdi (thr (St (S j)) t) = t_cmdi (thr (St j) t)) by lia.
      rewrite E in Hrj', Hnf', Hci |- *.
      apply step_bottom; try assumption. apply St_GenInvQ. }
    specialize (H (pb - pa)%nat ltac:(lia)). replace (pa + (pb - pa))%nat with pb in H by lia. exact H.
  Qed.

  (** Command number [i] of thread [t] is a cache command for the cache handle [k] of container
      [c].  Its CMD step is the step at position [pa] of the schedule, the step at position [pb]
      completes it.  Then the cache handle holds [HCache c v], and [v] was the content of the
      storage of [c] in one of the states after the steps [pa] .. [pb]: on the hit path the state
      in which [Q1] peeked (it is the completing step), on the miss path (and for [CCacheNew])
      the linearization instant of the inner [load_full]. *)
  Theorem cache_linearizable t i cm c k pa pb xa tb xb :
    nth_error (t_prog (thr s0 t)) (N.to_nat i) = Some cm -> cache_cmd_of (St pa) cm c k ->
    (pa <= pb)%nat ->
    nth_error sched pa = Some (t, xa) ->
    t_status (thr (St pa) t) = Running -> t_stack (thr (St pa) t) = [] -> t_cmdi (thr (St pa) t) = i ->
    nth_error sched pb = Some (tb, xb) ->
    t_cmdi (thr (St pb) t) = i -> t_cmdi (thr (St (S pb)) t) = i + 1 ->
    exists v, hnd (St (S pb)) k = HCache c v /\
      exists j, (pa + 1 <= j <= pb + 1)%nat /\ mem (sh (St j)) (LStore c) = v.
  Proof.
    intros Hcm Hcc Hab Ha Hra Hsa Hia Hb Hib Hib'.
    assert (Hlen : (pb < length sched)%nat) by (apply nth_error_Some; congruence).
    pose proof (St_succ cf inits progs sched pb tb xb Hb) as Eb.
    assert (tb = t) as ->.
    { destruct (N.eq_dec tb t) as [E|E]; [exact E|]. rewrite Eb, step_status_other in Hib' by congruence. lia. }
    assert (Hcur : forall j, t_cmdi (thr (St j) t) = i -> cur_cmd (St j) t = Some cm).
    { intros j Hj. unfold cur_cmd. rewrite run_prog, Hj. exact Hcm. }
    (* the CMD step pushes a stack that ends with [KCacheDone c k] *)
    pose proof (St_succ cf inits progs sched pa t xa Ha) as Ea.
    assert (Hstart : t_cmdi (thr (St (S pa)) t) = i /\
                     exists pre, t_stack (thr (St (S pa)) t) = pre ++ [KCacheDone c k]).
    { rewrite Ea. pose proof (Hcur pa Hia) as Hc0.
      destruct (step_cases2 cf (St pa) t xa) as [Hr E|c0 Hr Hs Hcc0 Hen E|c0 s1 l1 stk r Hr Hs Hcc0 Hen Hcs E|n Hr Hs Hcc0 Hn E|Hr Hs Hcc0 Hn E|p rest s1 l1 evs nx Hr Hs He E];
        try congruence.
      - exfalso. rewrite Hc0 in Hcc0. injection Hcc0 as <-.
        rewrite (cache_cmd_enabled _ _ _ _ Hcc) in Hen. discriminate.
      - rewrite Hc0 in Hcc0. injection Hcc0 as <-.
        destruct (cache_cmd_start _ _ _ _ _ _ _ _ _ _ Hcc Hcs) as (pre & ->). split.
        + rewrite E. cbn [thr set_thread]. rewrite upd_same. destruct pre; exact Hia.
        + exists pre. rewrite E. cbn [thr set_thread]. rewrite upd_same. apply start_thread_stack. }
    destruct Hstart as [Hia' Hsa'].
    assert (Hlt : (S pa <= pb)%nat).
    { destruct (Nat.eq_dec pa pb) as [Heq|Hneq]; [|lia]. subst pb. lia. }
    destruct (St_bottom t i (KCacheDone c k) (S pa) pb eq_refl Hlt Hia' Hsa' Hlen Hib Hib') as (pre & Hpre).
    pose proof (St_running t i pb pb (le_n _) Hib Hib') as Hrb.
    (* the invariants hold before step [pb] *)
    pose proof (St_NoFault (S pb)) as Hnf1. rewrite Eb in Hnf1.
    destruct (St_GenInvQ pb) as [W Q GI].
    pose proof (run_LinInv3 cf inits progs Hprogs (firstn pb sched) (prefix_ok_firstn _ _ _ _ pb Hcalm)
                  (prefix_ok_firstn _ _ _ _ pb Henvf) (prefix_ok_firstn _ _ _ _ pb Henva) (St_NoFault pb)) as LI.
    assert (Hne : t_stack (thr (St pb) t) <> []) by (rewrite Hpre; destruct pre; discriminate).
    rewrite Eb in Hib'. rewrite <- Hib in Hib'.
    destruct (cache_returns_fresh cf (St pb) (Gh pb) t xb cm k W (Hcalm pb) Q GI (Henvf pb) (Henva pb) LI Hnf1
                Hrb (Hcur pb Hib) (cache_cmd_key _ _ _ _ Hcc) Hne Hib') as (c' & v & (pre' & Hpre') & Hh & HP & Hst).
    assert (c' = c) as ->.
    { rewrite Hpre in Hpre'. apply app_inj_tail in Hpre' as [_ Hx]. congruence. }
    rewrite <- Eb in Hh. rewrite <- (Gh_succ cf inits progs sched pb t xb Hb) in HP, Hst.
    exists v. split; [exact Hh|].
    (* the command started at time [pa + 1] *)
    assert (Hstart : g_start (Gh (S pa)) t = S pa).
    { rewrite (Gh_succ cf inits progs sched pa t xa Ha), g_start_step, N.eqb_refl.
      unfold starts_now. rewrite Hra, Hsa. cbn. rewrite (Gh_now cf inits progs sched) by lia. reflexivity. }
    pose proof (Gh_start_mono cf inits progs sched (S pa) (S pb) t ltac:(lia)) as Hmono.
    destruct (lt_sound cf s0 (firstn (S pb) sched) c v) as [Hk1 Hk2]. cbn zeta in Hk1, Hk2.
    rewrite firstn_length in Hk1. unfold PC in HP.
    exists (g_lt (Gh (S pb)) c v). split; [lia|].
    rewrite firstn_firstn in Hk2. rewrite Nat.min_l in Hk2 by lia. apply Hk2. lia.
  Qed.

  (** Two cache commands of one thread on the same cache: the linearization instants are ordered
      as the commands are (the second command starts after the first has completed). *)
  Corollary cache_loads_monotone t c k i1 cm1 pa1 pb1 xa1 tb1 xb1 i2 cm2 pa2 pb2 xa2 tb2 xb2 :
    nth_error (t_prog (thr s0 t)) (N.to_nat i1) = Some cm1 -> cache_cmd_of (St pa1) cm1 c k ->
    (pa1 <= pb1)%nat -> nth_error sched pa1 = Some (t, xa1) ->
    t_status (thr (St pa1) t) = Running -> t_stack (thr (St pa1) t) = [] -> t_cmdi (thr (St pa1) t) = i1 ->
    nth_error sched pb1 = Some (tb1, xb1) ->
    t_cmdi (thr (St pb1) t) = i1 -> t_cmdi (thr (St (S pb1)) t) = i1 + 1 ->
    nth_error (t_prog (thr s0 t)) (N.to_nat i2) = Some cm2 -> cache_cmd_of (St pa2) cm2 c k ->
    (pa2 <= pb2)%nat -> nth_error sched pa2 = Some (t, xa2) ->
    t_status (thr (St pa2) t) = Running -> t_stack (thr (St pa2) t) = [] -> t_cmdi (thr (St pa2) t) = i2 ->
    nth_error sched pb2 = Some (tb2, xb2) ->
    t_cmdi (thr (St pb2) t) = i2 -> t_cmdi (thr (St (S pb2)) t) = i2 + 1 ->
    i1 < i2 ->
    exists v1 v2 j1 j2,
      hnd (St (S pb1)) k = HCache c v1 /\ hnd (St (S pb2)) k = HCache c v2 /\
      (pa1 + 1 <= j1 <= pb1 + 1)%nat /\ (pa2 + 1 <= j2 <= pb2 + 1)%nat /\
      mem (sh (St j1)) (LStore c) = v1 /\ mem (sh (St j2)) (LStore c) = v2 /\ (j1 < j2)%nat.
  Proof.
    intros A1 A2 A3 A4 A5 A6 A7 A8 A9 A10 B1 B2 B3 B4 B5 B6 B7 B8 B9 B10 Hlt.
    destruct (cache_linearizable t i1 cm1 c k pa1 pb1 xa1 tb1 xb1 A1 A2 A3 A4 A5 A6 A7 A8 A9 A10) as (v1 & H1 & j1 & J1 & M1).
    destruct (cache_linearizable t i2 cm2 c k pa2 pb2 xa2 tb2 xb2 B1 B2 B3 B4 B5 B6 B7 B8 B9 B10) as (v2 & H2 & j2 & J2 & M2).
    assert (Hord : (S pb1 <= pa2)%nat).
    { destruct (le_lt_dec pa2 pb1) as [Hle|Hgt]; [|lia]. pose proof (St_cmdi_mono pa2 pb1 t Hle). lia. }
    exists v1, v2, j1, j2. repeat (split; [assumption|]). lia.
  Qed.
End Run2.

(** The same with [GenBound] (no generation counter within one step of wrapping) in every state
    of the run instead of [Calm], [EnvFree] and [EnvA]: those follow ([Env.run_EnvFree]). *)
Theorem cache_linearizable_bound cf inits progs sched t i cm c k pa pb xa tb xb :
  let s0 := init_state inits progs in
  (forall p, In p progs -> forall g, ~ In (CSetGen g) p) ->
  (forall j, GenBound (run_state cf s0 (firstn j sched))) ->
  NoFault (run_state cf s0 sched) ->
  nth_error (t_prog (thr s0 t)) (N.to_nat i) = Some cm ->
  cache_cmd_of (run_state cf s0 (firstn pa sched)) cm c k ->
  (pa <= pb)%nat ->
  nth_error sched pa = Some (t, xa) ->
  t_status (thr (run_state cf s0 (firstn pa sched)) t) = Running ->
  t_stack (thr (run_state cf s0 (firstn pa sched)) t) = [] ->
  t_cmdi (thr (run_state cf s0 (firstn pa sched)) t) = i ->
  nth_error sched pb = Some (tb, xb) ->
  t_cmdi (thr (run_state cf s0 (firstn pb sched)) t) = i ->
  t_cmdi (thr (run_state cf s0 (firstn (S pb) sched)) t) = i + 1 ->
  exists v, hnd (run_state cf s0 (firstn (S pb) sched)) k = HCache c v /\
    exists j, (pa + 1 <= j <= pb + 1)%nat /\ mem (sh (run_state cf s0 (firstn j sched))) (LStore c) = v.
Proof.
  intros s0 Hp Hb Hnf. subst s0.
  assert (HE : forall j, EnvFree (run_state cf (init_state inits progs) (firstn j sched)) /\
                         EnvA (run_state cf (init_state inits progs) (firstn j sched))).
  { intros j. apply (run_EnvFree cf inits progs (firstn j sched) Hp).
    - intros k0. rewrite firstn_firstn. apply Hb.
    - apply NoFault_prefix. exact Hnf. }
  apply (cache_linearizable cf inits progs Hp sched).
  - intros j. apply Calm_split. split; [apply Hb|]. apply NoSetGen_run. apply NoSetGen_init. exact Hp.
  - intros j. apply HE.
  - intros j. apply HE.
  - exact Hnf.
Qed.

Print Assumptions LinInv3_init.
Print Assumptions gstep_LinInv3.
Print Assumptions cache_returns_fresh.
Print Assumptions run_LinInv3.
Print Assumptions cache_linearizable.
Print Assumptions cache_loads_monotone.
Print Assumptions cache_linearizable_bound.
