(** * ASModel.LinCache1 — C16 (Cache::load is linearizable): the zone of a cache command.

    The stack of a running [CCacheNew c k] / [CCacheLoad k] command is
    - [Q1 c a k; KCacheDone c k] (the peek), or
    - frames of a load (well typed, carrying fresh values) above the tail
      [KCacheDone c k] or [WCacheReload c a k; KCacheDone c k].
    [LZ] is the second shape; it is preserved by the frame step and the unwinding ([settle_LZ]),
    and the value handed to [KCacheDone] is an owned pointer that satisfies [P] ([unwind_LZ]). *)
From Coq Require Import Lia.
From ASModel Require Import Base State Orderings_gen Step Run Progress Hist Inv InvTl InvProto InvStep Sum StepCases
  GenDefs Gen1 Gen2 Gen3 Gen EnvDefs LinDefs Lin1 Lin2 Lin3 Lin4 Lin5 Lin6 Lin7 Lin8 Lin14.

Definition is_ctail (f : pc) : bool :=
  match f with WCacheReload _ _ _ | KCacheDone _ _ => true | _ => false end.

Definition ctail (c k : N) (stk : list pc) : Prop :=
  stk = [KCacheDone c k] \/ exists a, stk = [WCacheReload c a k; KCacheDone c k].

Definition cbelow (r : list pc) : option rk :=
  match r with [] => None | w :: _ => if is_ctail w then Some KOwned else expects w end.

Fixpoint LZ (P : N -> Prop) (c k : N) (stk : list pc) : Prop :=
  match stk with
  | [] => False
  | f :: r => if is_ctail f then ctail c k (f :: r)
              else lfv P f /\ ret_kind f <> None /\ ret_kind f = cbelow r /\ LZ P c k r
  end.

Definition CZ (P : N -> Prop) (c k : N) (stk : list pc) : Prop :=
  (exists a, stk = [Q1 c a k; KCacheDone c k]) \/ LZ P c k stk.

Lemma lfr_not_ctail f : lfr f = true -> is_ctail f = false.
Proof. destruct f; cbn; congruence. Qed.

Lemma expects_not_ctail f k : expects f = Some k -> is_ctail f = false.
Proof. destruct f; cbn; congruence. Qed.

Lemma not_waiting_not_ctail f : is_waiting f = false -> is_ctail f = false.
Proof. destruct f; cbn; congruence. Qed.

Lemma ctail_last c k stk : ctail c k stk -> exists pre, stk = pre ++ [KCacheDone c k].
Proof. intros [->|(a & ->)]; [exists []|exists [WCacheReload c a k]]; reflexivity. Qed.

Lemma LZ_last P c k : forall stk, LZ P c k stk -> exists pre, stk = pre ++ [KCacheDone c k].
Proof.
  induction stk as [|f r IH]; intros H; [destruct H|]. cbn [LZ] in H. destruct (is_ctail f).
  - apply ctail_last. exact H.
  - destruct H as (_ & _ & _ & H). destruct (IH H) as (pre & ->). exists (f :: pre). reflexivity.
Qed.

Lemma CZ_last P c k stk : CZ P c k stk -> exists pre, stk = pre ++ [KCacheDone c k].
Proof. intros [(a & ->)|H]; [exists [Q1 c a k]; reflexivity|eapply LZ_last; exact H]. Qed.

Lemma LZ_mono (P Q : N -> Prop) c k : (forall v, P v -> Q v) -> forall stk, LZ P c k stk -> LZ Q c k stk.
Proof.
  intros HPQ. induction stk as [|f r IH]; [auto|]. cbn [LZ]. destruct (is_ctail f); [auto|].
  intros ((Hl & Hv) & H1 & H2 & H3). split; [|auto]. split; [exact Hl|]. intros v Hf. apply HPQ. apply Hv. exact Hf.
Qed.

Lemma CZ_mono (P Q : N -> Prop) c k stk : (forall v, P v -> Q v) -> CZ P c k stk -> CZ Q c k stk.
Proof. intros HPQ [H|H]; [left; exact H|right; eapply LZ_mono; eassumption]. Qed.

Lemma chain_LZ P c k l kk rest :
  Forall (lfv P) l -> chain l kk -> cbelow rest = Some kk -> LZ P c k rest -> LZ P c k (l ++ rest).
Proof.
  induction l as [|f l IH]; intros Hf Hc Hb Ht; [destruct Hc|].
  inversion Hf as [|? ? Hf1 Hf2]; subst. pose proof (lfr_not_ctail _ (proj1 Hf1)) as Hn.
  destruct l as [|w l].
  - cbn in Hc. cbn [app LZ]. rewrite Hn. split; [exact Hf1|]. split; [congruence|]. split; [congruence|exact Ht].
  - destruct Hc as (H1 & H2 & H3). specialize (IH Hf2 H3 Hb Ht).
    change ((f :: w :: l) ++ rest) with (f :: (w :: l) ++ rest). cbn [LZ]. rewrite Hn.
    split; [exact Hf1|]. split; [exact H1|]. split; [|exact IH].
    cbn [app cbelow]. inversion Hf2 as [|? ? Hw _]; subst. rewrite (lfr_not_ctail _ (proj1 Hw)). exact H2.
Qed.

Lemma ctail_LZ P c k stk : ctail c k stk -> LZ P c k stk.
Proof. intros H. pose proof H as H0. destruct H as [->|(a & ->)]; exact H0. Qed.

Lemma ctail_below c k stk : ctail c k stk -> cbelow stk = Some KOwned.
Proof. intros [->|(a & ->)]; reflexivity. Qed.

(** ** The reload frame *)
Lemma resume_reload cf l c a k v l' nx :
  resume cf l (WCacheReload c a k) v = (l', nx) -> kind_of v = Some KOwned ->
  exists a', v = ROwned a' /\ l' = l /\ (nx = NRet (ROwned a') \/ nx = NGoto (PDec a (ROwned a'))).
Proof.
  intros He Hk. destruct v; try discriminate Hk. cbn in He. destruct (a =? 0); injection He as <- <-; eauto.
Qed.

(** ** The frame step and the unwinding preserve the zone *)
Lemma settle_LZ cf P c k l rest nx l2 stk st :
  settle cf l rest nx l2 stk st -> forall kk, LZ P c k rest -> cbelow rest = Some kk ->
  nx_lfv P nx -> nx_kind kk nx -> stk = [] \/ LZ P c k stk.
Proof.
  induction 1 as [l rest p|l rest fs w|l v|l v b post Hb Hne|l v post|l v w rest l' nx l'' stk st Hb Hr Hs IH];
    intros kk HZ Hbl [Hfr Hrv] Hn; try (left; reflexivity).
  - right. cbn in Hn. apply (chain_LZ P c k [p] kk rest); assumption.
  - right. cbn in Hn. cbn [nx_frames] in Hfr.
    replace (fs ++ w :: rest) with ((fs ++ [w]) ++ rest) by (rewrite <- app_assoc; reflexivity).
    eapply chain_LZ; eassumption.
  - cbn [LZ] in HZ. cbn in Hn. destruct (is_ctail w) eqn:Hc.
    + destruct HZ as [HZ|(a & HZ)]; injection HZ as -> ->; [discriminate Hb|].
      cbn in Hbl. injection Hbl as <-.
      destruct (resume_reload _ _ _ _ _ _ _ _ Hr Hn) as (a' & -> & -> & Hnx).
      assert (HP : P a') by (apply (Hrv _ eq_refl); reflexivity).
      apply (IH KOwned); [left; reflexivity|reflexivity| |].
      * destruct Hnx as [-> | ->].
        -- split; [constructor|]. intros rv [= <-] v0 [= <-]. exact HP.
        -- apply nx_lfv_goto; [reflexivity|]. intros v0 [= <-]. exact HP.
      * destruct Hnx as [-> | ->]; reflexivity.
    + destruct HZ as ((Hlw & Hvw) & H1 & H2 & H3). cbn in Hbl. rewrite Hc in Hbl.
      destruct (ret_kind w) as [k'|] eqn:Hk'; [|congruence].
      apply (IH k' H3 (eq_sym H2)).
      * eapply resume_lfv; [exact Hr|exact Hlw|exact Hvw|apply Hrv; reflexivity].
      * eapply resume_kind; [exact Hr|exact Hk'|congruence].
Qed.

(** ** Completion: [KCacheDone] receives an owned pointer that satisfies [P] *)
Lemma unwind_LZ cf P c k : forall rest l rv kk,
  LZ P c k rest -> cbelow rest = Some kk -> rvok P rv -> kind_of rv = Some kk ->
  match unwind cf l rest rv with
  | UDone _ dst _ => exists v, P v /\ dst = Some (k, HCache c v)
  | _ => True
  end.
Proof.
  induction rest as [|w rest IH]; intros l rv kk HZ Hb Hv Hk; [destruct HZ|].
  cbn [LZ] in HZ. destruct (is_ctail w) eqn:Hc.
  - destruct HZ as [HZ|(a & HZ)]; injection HZ as -> ->; cbn in Hb; injection Hb as <-;
      destruct rv; try discriminate Hk; assert (HP : P p) by (apply Hv; reflexivity).
    + cbn. eauto.
    + cbn [unwind resume]. destruct (a =? 0); cbn; eauto.
  - destruct HZ as ((Hlw & Hvw) & H1 & H2 & H3). cbn in Hb. rewrite Hc in Hb.
    destruct (ret_kind w) as [k'|] eqn:Hk'; [|congruence].
    pose proof (resume_lfv P cf l w rv) as Hres. pose proof (resume_kind cf l w rv) as Hrk.
    pose proof (lfr_not_bottom _ Hlw) as Hnb.
    destruct w; try discriminate Hlw; try discriminate Hnb; cbn [unwind].
    all: match goal with |- context [resume ?cf0 ?l0 ?w0 ?v0] =>
           destruct (resume cf0 l0 w0 v0) as [l' nx] eqn:Hr end.
    all: destruct (Hres l' nx eq_refl Hlw Hvw Hv) as [_ Hrv].
    all: specialize (Hrk l' nx k' eq_refl Hk' ltac:(congruence)).
    all: destruct nx as [p'|fs w'|v'|ps|f]; try exact I.
    all: exact (IH l' v' k' H3 (eq_sym H2) (Hrv v' eq_refl) Hrk).
Qed.
