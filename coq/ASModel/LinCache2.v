(** * ASModel.LinCache2 — C16: the invariant [CacheZone] of instrumented states; command start,
    the peek [Q1], shapes of the zone. *)
From Coq Require Import Lia.
From ASModel Require Import Base State Orderings_gen Step Run Progress Hist Inv InvTl InvProto InvStep Sum StepCases
  GenDefs Gen1 Gen2 Gen3 Gen EnvDefs LinDefs
  Lin1 Lin2 Lin3 Lin4 Lin5 Lin6 Lin7 Lin8 Lin9 Lin10 Lin11 Lin12 Lin13 Lin14 LinCache1.

(** "[v] was the content of container [c] after thread [t]'s current command started." *)
Definition PC (g : ghost) (t c v : N) : Prop := (g_lt g c v >= g_start g t)%nat.

(** The cache handle of a cache command. *)
Definition ckey (cm : cmd) : option N :=
  match cm with CCacheNew _ k | CCacheLoad k => Some k | _ => None end.

(** The stack of a running cache command is a cache zone of some container [c] (the one named by
    its bottom frame [KCacheDone c k]); the values its load frames carry were current in [c] after
    the command started; so is the content of the envelope a top [LH7] frame is about to read. *)
Definition CacheZone (s : state) (g : ghost) : Prop :=
  forall t cm k, t_status (thr s t) = Running -> cur_cmd s t = Some cm -> ckey cm = Some k ->
    t_stack (thr s t) = [] \/
    exists c, CZ (PC g t c) c k (t_stack (thr s t)) /\
      (forall cand e rest, t_stack (thr s t) = LH7 cand e :: rest -> PC g t c (mem (sh s) (LEnv e))).

Definition LinInv3 (s : state) (g : ghost) : Prop := LinInv2 s g /\ CacheZone s g.

(** ** Shapes *)
Lemma CZ_top P c k p rest :
  CZ P c k (p :: rest) -> is_waiting p = false ->
  (exists a, p = Q1 c a k /\ rest = [KCacheDone c k]) \/
  (lfv P p /\ exists kk, ret_kind p = Some kk /\ cbelow rest = Some kk /\ LZ P c k rest).
Proof.
  intros [(a & [= -> ->])|H] Hnw; [left; eauto|right]. cbn [LZ] in H.
  rewrite (not_waiting_not_ctail _ Hnw) in H. destruct H as (A & B & C & D).
  destruct (ret_kind p) as [kk|] eqn:Hk; [|congruence]. split; [exact A|]. exists kk. auto.
Qed.

Lemma LZ_load P c k cf l l' fs tail :
  enter_load cf l c = inl (l', fs) -> ctail c k tail -> LZ P c k (fs ++ WLoadFull :: tail).
Proof.
  intros He Ht. apply (chain_LZ P c k fs KGuard);
    [eapply enter_load_lfv; exact He|eapply enter_load_chain; exact He|reflexivity|].
  cbn [LZ is_ctail]. split; [split; [reflexivity|apply vok_none; reflexivity]|]. split; [discriminate|].
  split; [cbn [ret_kind]; rewrite (ctail_below _ _ _ Ht); reflexivity|apply ctail_LZ; exact Ht].
Qed.

(** ** The peek *)
Lemma exec_q1 cf s l c a k x s' l' evs nx :
  exec cf s l (Q1 c a k) x = (s', l', evs, nx) -> ~ nx_stops nx ->
  s' = s /\
  ((mem s (LStore c) = a /\ l' = l /\ nx = NRet (ROwned a)) \/
   (mem s (LStore c) <> a /\ exists fs, enter_load cf l c = inl (l', fs) /\
      nx = NPush (fs ++ [WLoadFull]) (WCacheReload c a k))).
Proof.
  intros He Hn. exec_norm He.
  - split; [reflexivity|left]. apply N.eqb_eq in Heqb. auto.
  - split; [reflexivity|right]. apply N.eqb_neq in Heqb. eauto.
  - exfalso. apply Hn. exact I.
Qed.

(** ** Command start *)
Lemma cmd_start_cnew cf s l c k s' l' stk r P :
  cmd_start cf s l (CCacheNew c k) = inl (s', l', stk, r) -> LZ P c k stk.
Proof.
  intros Hc. cbn in Hc. destruct (enter_load cf l c) as [[l2 fs]|ps] eqn:He; [|discriminate].
  injection Hc as <- <- <- <-. eapply LZ_load; [exact He|left; reflexivity].
Qed.

Lemma cmd_start_cload cf s l k c a :
  hnd s k = HCache c a -> cmd_start cf s l (CCacheLoad k) = inl (s, l, [Q1 c a k; KCacheDone c k], RUnit).
Proof. intros H. cbn. rewrite H. reflexivity. Qed.

Lemma cmd_start_cz cf s l cm s' l' stk r k :
  cmd_start cf s l cm = inl (s', l', stk, r) -> ckey cm = Some k ->
  stk = [] \/ exists c, forall P, CZ P c k stk.
Proof.
  intros Hc Hk. destruct cm; try discriminate Hk; injection Hk as ->.
  - right. exists c. intros P. right. eapply cmd_start_cnew. exact Hc.
  - cbn in Hc. destruct (hnd s k) as [| | |c a] eqn:Hh; injection Hc as <- <- <- <-; try (left; reflexivity).
    right. exists c. intros P. left. eauto.
Qed.
