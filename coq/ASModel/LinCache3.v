(** * ASModel.LinCache3 — C16: [CacheZone] is preserved by the frame step of the acting thread. *)
From Coq Require Import Lia.
From ASModel Require Import Base State Orderings_gen Step Run Progress Hist Inv InvTl InvProto InvStep Sum StepCases
  GenDefs Gen1 Gen2 Gen3 Gen EnvDefs LinDefs
  Lin1 Lin2 Lin3 Lin4 Lin5 Lin6 Lin7 Lin8 Lin9 Lin10 Lin11 Lin12 Lin13 Lin14 LinCache1 LinCache2.

Section Step.
  Variables (cf : config) (s : state) (g : ghost) (t x : N).
  Hypotheses (W : WF2 s) (Hcalm : Calm s) (Q : Quiet s) (GI : GenInv s) (EF : EnvFree s)
             (Hnf : NoFault (fst (step cf s t x))).
  Hypotheses (LI : LinInv2 s g).
  Local Notation s' := (fst (step cf s t x)).
  Local Notation g' := (snd (gstep cf (s, g) t x)).

  Lemma PC_other t' c v : t' <> t -> PC g t' c v -> PC g' t' c v.
  Proof.
    intros Hne H. unfold PC in *. rewrite (g_start_other cf s g t x t' Hne).
    pose proof (g_lt_mono cf s g t x (l2_fresh _ _ LI) c v). lia.
  Qed.

  Lemma PC_same c v : starts_now s t = false -> PC g t c v -> PC g' t c v.
  Proof.
    intros Hst H. unfold PC in *. rewrite (g_start_same cf s g t x Hst t).
    pose proof (g_lt_mono cf s g t x (l2_fresh _ _ LI) c v). lia.
  Qed.

  (** Frames of a cache zone name its container. *)
  Lemma cache_cont c k P f c1 :
    CZ P c k (t_stack (thr s t)) -> In f (t_stack (thr s t)) -> pc_cont f = Some c1 -> c1 = c.
  Proof.
    intros HCZ Hin Hc1. destruct (CZ_last _ _ _ _ HCZ) as (pre & Hpre).
    assert (Hk : In (KCacheDone c k) (t_stack (thr s t))).
    { rewrite Hpre. apply in_or_app. right. left. reflexivity. }
    exact (l2_pair _ _ LI t f _ c1 c Hin Hk Hc1 eq_refl).
  Qed.

  (** A frame of the load on top of a cache zone: what it hands on is fresh. *)
  Lemma cache_pre p rest s1 l1 evs nx c k :
    t_status (thr s t) = Running -> t_stack (thr s t) = p :: rest ->
    exec cf (sh s) (t_loc (thr s t)) p x = (s1, l1, evs, nx) ->
    s' = mkState s1 (upd (thr s) t (thread_after cf (thr s t) l1 rest nx)) (hnd_after cf (hnd s) l1 rest nx) ->
    CZ (PC g t c) c k (p :: rest) ->
    (forall cand e rest0, p :: rest = LH7 cand e :: rest0 -> PC g t c (mem (sh s) (LEnv e))) ->
    lfv (PC g t c) p ->
    starts_now s t = false /\ nx_lfv (PC g' t c) nx.
  Proof.
    intros Hr Hs He E HCZ H7 Hlv.
    pose proof (lfr_not_start p s t rest (proj1 Hlv) Hs) as Hst. split; [exact Hst|].
    assert (Hm : forall v, PC g t c v -> PC g' t c v) by (intros v; apply PC_same; exact Hst).
    assert (Hcont : forall c0, pc_cont p = Some c0 -> c0 = c).
    { intros c0 Hc0. rewrite <- Hs in HCZ. apply (cache_cont c k _ p c0 HCZ); [rewrite Hs; left; reflexivity|exact Hc0]. }
    eapply exec_lfv; [exact He|exact (proj1 Hlv)| | | |].
    - intros v Hv. apply Hm. apply (proj2 Hlv). exact Hv.
    - intros c0 gt Hp. assert (c0 = c) as -> by (apply Hcont; rewrite Hp; reflexivity).
      apply (fresh_now cf s g t x (l2_fresh _ _ LI) c). rewrite E. cbn [sh]. rewrite Hp in He. eapply exec_lh3_same. exact He.
    - intros c0 v j Hp. assert (c0 = c) as -> by (apply Hcont; rewrite Hp; reflexivity).
      apply (fresh_now cf s g t x (l2_fresh _ _ LI) c). rewrite E. cbn [sh]. rewrite Hp in He. eapply exec_la4_same. exact He.
    - intros cand e Hp. apply Hm. eapply H7. rewrite Hp. reflexivity.
  Qed.

  (** The acting thread: a frame step inside a cache zone of container [c]. *)
  Lemma cache_exec p rest s1 l1 evs nx c k :
    t_status (thr s t) = Running -> t_stack (thr s t) = p :: rest ->
    exec cf (sh s) (t_loc (thr s t)) p x = (s1, l1, evs, nx) ->
    s' = mkState s1 (upd (thr s) t (thread_after cf (thr s t) l1 rest nx)) (hnd_after cf (hnd s) l1 rest nx) ->
    CZ (PC g t c) c k (p :: rest) ->
    (forall cand e rest0, p :: rest = LH7 cand e :: rest0 -> PC g t c (mem (sh s) (LEnv e))) ->
    t_stack (thread_after cf (thr s t) l1 rest nx) = [] \/
    (CZ (PC g' t c) c k (t_stack (thread_after cf (thr s t) l1 rest nx)) /\
     (forall cand e rest0, t_stack (thread_after cf (thr s t) l1 rest nx) = LH7 cand e :: rest0 ->
        PC g' t c (mem (sh s') (LEnv e)))).
  Proof.
    intros Hr Hs He E HCZ H7.
    destruct LI as [LF CA CP LB ZV PF HF AN].
    destruct (ex_settle cf s t x W Hnf p rest s1 l1 evs nx Hr Hs He) as [Hns Hset].
    destruct (ex_top s t W p rest Hr Hs) as [Hnw Hwait].
    assert (Hcont : forall f c1, In f (p :: rest) -> pc_cont f = Some c1 -> c1 = c).
    { intros f c1 Hin Hc1. rewrite <- Hs in HCZ, Hin. exact (cache_cont c k _ f c1 HCZ Hin Hc1). }
    destruct (CZ_top _ _ _ _ _ HCZ Hnw) as [(a & -> & ->)|(Hlv & kk & Hk & Hb & HZ)].
    - (* the peek *)
      destruct (exec_q1 _ _ _ _ _ _ _ _ _ _ _ He Hns) as [-> [(Hm & -> & ->)|(Hm & fs & Hel & ->)]].
      + left. reflexivity.
      + right. cbn [thread_after t_stack]. rewrite <- app_assoc. cbn [app]. split.
        * right. eapply LZ_load; [exact Hel|right; eauto].
        * intros cand e rest0 Hstk. exfalso.
          destruct (enter_load_call _ _ _ _ _ Hel) as [_ Hne]. pose proof (enter_load_fok _ _ _ _ _ Hel) as Hf.
          destruct fs as [|f0 fs]; [congruence|]. injection Hstk as -> _.
          inversion Hf as [|? ? [Hx _] _]. discriminate Hx.
    - (* a frame of the load *)
      destruct (cache_pre p rest s1 l1 evs nx c k Hr Hs He E HCZ H7 Hlv) as [Hst Hnl].
      assert (Hm : forall v, PC g t c v -> PC g' t c v) by (intros v; apply PC_same; exact Hst).
      pose proof (exec_kind _ _ _ _ _ _ _ _ _ _ He Hk) as Hnk.
      destruct (settle_LZ _ _ _ _ _ _ _ _ _ _ Hset kk (LZ_mono _ _ c k Hm _ HZ) Hb Hnl Hnk) as [Hnil|HZ'];
        [left; exact Hnil|right]. split; [right; exact HZ'|].
      intros cand e rest' Hstk.
      pose proof (settle_top7 _ _ _ _ _ _ _ _ _ _ Hset Hstk) as Hhd.
      assert (Hin : In (LH7 cand e) (nx_frames nx)).
      { destruct (nx_frames nx); [discriminate|]. injection Hhd as ->. left. reflexivity. }
      destruct (exec_to7 _ _ _ _ _ _ _ _ _ _ _ He Hns Hin) as (c0 & gt & Hp5 & Hne & He').
      pose proof He as He5. pose proof Hs as Hs5. rewrite Hp5 in He5, Hs5.
      assert (c0 = c) as -> by (apply (Hcont p c0); [left; reflexivity|rewrite Hp5; reflexivity]).
      destruct (exec_lh5 _ _ _ _ _ _ _ _ _ _ _ He5 Hns) as [[Hx _]|[_ Hnx]]; [contradiction|].
      destruct (running_node s t _ _ W Hr Hs5 eq_refl) as (n & Hn & Hown & Hhold & Howner).
      rewrite Hown in *.
      pose proof (w_top _ W t n Hr Hhold) as Ht. rewrite Hs5 in Ht. cbn in Ht.
      destruct Ht as ([Hc|(e0 & _ & Hc)] & _); [contradiction|].
      assert (Htag : N.land (mem (sh s) (LCtrl n)) TAG_MASK = REPLACEMENT_TAG) by (rewrite Hc; apply env_val_land).
      assert (Hreq : req_of (thr s t) = Some (c, gt)) by (unfold req_of; rewrite Hs5; reflexivity).
      pose proof (AN n t c gt Howner Hreq Htag) as Ha. rewrite <- He' in Ha.
      assert (Hp : (g_pub g n >= g_start g t)%nat) by (apply (PF t n Hr Howner); congruence).
      rewrite E. cbn [sh]. rewrite (exec_lh5_env _ _ _ _ _ _ _ _ _ _ _ e He5).
      unfold PC. rewrite (g_start_same cf s g t x Hst t).
      pose proof (g_lt_mono cf s g t x LF c (mem (sh s) (LEnv e))). lia.
  Qed.
End Step.
