(** * ASModel.LinCache4 — C16: [LinInv3] holds initially and is preserved by every instrumented
    step; the step that completes a cache command. *)
From Coq Require Import Lia.
From ASModel Require Import Base State Orderings_gen Step Run Progress Hist Inv InvTl InvProto InvStep Sum StepCases
  GenDefs Gen1 Gen2 Gen3 Gen EnvDefs LinDefs
  Lin1 Lin2 Lin3 Lin4 Lin5 Lin6 Lin7 Lin8 Lin9 Lin10 Lin11 Lin12 Lin13 Lin14 Lin LinCache1 LinCache2 LinCache3.

Section Step.
  Variables (cf : config) (s : state) (g : ghost) (t x : N).
  Hypotheses (W : WF2 s) (Hcalm : Calm s) (Q : Quiet s) (GI : GenInv s) (EF : EnvFree s)
             (Hnf : NoFault (fst (step cf s t x))).
  Hypotheses (LI : LinInv2 s g) (CZV : CacheZone s g).
  Local Notation s' := (fst (step cf s t x)).
  Local Notation g' := (snd (gstep cf (s, g) t x)).

  Theorem step_CacheZone : CacheZone s' g'.
  Proof.
    intros t' cm k Hr' Hc Hk.
    destruct (N.eq_dec t' t) as [->|Hne].
    2: { pose proof (other_thr cf s t x t' Hne) as Ht.
         rewrite (cur_cmd_thr s s' t' Ht) in Hc. rewrite Ht in Hr' |- *.
         destruct (CZV t' cm k Hr' Hc Hk) as [H|(c & H1 & H2)]; [left; exact H|right]. exists c. split.
         - eapply CZ_mono; [|exact H1]. intros v. apply (PC_other cf s g t x LI); exact Hne.
         - intros cand e rest Hs7. rewrite (env_stable cf s t x W Q EF t' cand e rest Hne Hs7).
           apply (PC_other cf s g t x LI); [exact Hne|]. eapply H2. exact Hs7. }
    destruct (step_cases2 cf s t x) as [Hr E|c0 Hr Hs Hcc Hen E|c0 s1 l1 stk r Hr Hs Hcc Hen Hcs E|n Hr Hs Hcc Hn E|Hr Hs Hcc Hn E|p rest s1 l1 evs nx Hr Hs He E].
    - exfalso. rewrite E in Hr'. contradiction.
    - left. rewrite E. exact Hs.
    - assert (Hstk : t_stack (thr s' t) = stk) by (rewrite E; cbn; rewrite upd_same; apply start_thread_stack).
      rewrite Hstk. destruct stk as [|f0 stk]; [left; reflexivity|right].
      assert (Hcur : cur_cmd s' t = Some c0) by (rewrite E, cur_cmd_start by discriminate; exact Hcc).
      rewrite Hcur in Hc. injection Hc as ->.
      destruct (cmd_start_cz _ _ _ _ _ _ _ _ _ Hcs Hk) as [Hx|(c & HC)]; [discriminate|].
      exists c. split; [apply HC|].
      intros cand e rest0 [= -> ->]. exfalso.
      pose proof (cmd_start_no7 _ _ _ _ _ _ _ _ Hcs) as H7. inversion H7 as [|? ? Hx _]. discriminate Hx.
    - exfalso. assert (Hcur : cur_cmd s' t = None).
      { rewrite E. unfold cur_cmd, set_thread. cbn. rewrite upd_same. exact Hcc. }
      congruence.
    - left. rewrite E. cbn. rewrite upd_same. reflexivity.
    - pose proof (ex_thr cf s t x rest s1 l1 nx E) as Et. rewrite Et.
      destruct (t_stack (thread_after cf (thr s t) l1 rest nx)) as [|f0 stk2] eqn:Hstk; [left; reflexivity|].
      assert (Hcur : cur_cmd s' t = cur_cmd s t).
      { eapply cur_cmd_after; [exact Et|]. rewrite Et, Hstk. discriminate. }
      rewrite Hcur in Hc. destruct (CZV t cm k Hr Hc Hk) as [Hx|(c & H1 & H2)]; [congruence|].
      rewrite Hs in H1.
      assert (H2' : forall cand e rest0, p :: rest = LH7 cand e :: rest0 -> PC g t c (mem (sh s) (LEnv e))).
      { intros cand e rest0 Hp. apply (H2 cand e rest0). rewrite Hs. exact Hp. }
      destruct (cache_exec cf s g t x W Hnf LI p rest s1 l1 evs nx c k Hr Hs He E H1 H2') as [Hx|[A B]].
      + rewrite Hstk in Hx. discriminate.
      + right. exists c. rewrite Hstk in A, B. split; assumption.
  Qed.
End Step.

Theorem LinInv3_init inits progs : LinInv3 (init_state inits progs) ghost0.
Proof.
  split; [apply LinInv2_init|]. intros t cm k _ _ _. left. cbn. apply init_threads_stack. cbn. auto.
Qed.

Theorem gstep_LinInv3 cf s g t x :
  WF2 s -> Calm s -> Quiet s -> GenInv s -> EnvFree s -> EnvA s -> LinInv3 s g ->
  NoFault (fst (step cf s t x)) ->
  LinInv3 (fst (gstep cf (s, g) t x)) (snd (gstep cf (s, g) t x)).
Proof.
  intros W Hc Q GI EF EA [LI CZV] Hnf. split; [apply gstep_LinInv2; assumption|].
  rewrite gstep_fst. apply step_CacheZone; assumption.
Qed.
