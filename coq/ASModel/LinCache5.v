(** * ASModel.LinCache5 — C16: the step that completes a cache command writes [HCache c v] into the
    cache handle, where [c] is the container named by the bottom frame and [v] was the content of
    [c] at some instant after the command started. *)
From Coq Require Import Lia.
From ASModel Require Import Base State Orderings_gen Step Run Progress Hist Inv InvTl InvProto InvStep Sum StepCases
  GenDefs Gen1 Gen2 Gen3 Gen EnvDefs LinDefs
  Lin1 Lin2 Lin3 Lin4 Lin5 Lin6 Lin7 Lin8 Lin9 Lin10 Lin11 Lin12 Lin13 Lin14 Lin
  LinCache1 LinCache2 LinCache3 LinCache4.

Theorem cache_returns_fresh cf s g t x cm k :
  WF2 s -> Calm s -> Quiet s -> GenInv s -> EnvFree s -> EnvA s -> LinInv3 s g ->
  NoFault (fst (step cf s t x)) ->
  t_status (thr s t) = Running -> cur_cmd s t = Some cm -> ckey cm = Some k -> t_stack (thr s t) <> [] ->
  t_cmdi (thr (fst (step cf s t x)) t) = t_cmdi (thr s t) + 1 ->
  exists c v, (exists pre, t_stack (thr s t) = pre ++ [KCacheDone c k]) /\
    hnd (fst (step cf s t x)) k = HCache c v /\
    PC (snd (gstep cf (s, g) t x)) t c v /\
    g_start (snd (gstep cf (s, g) t x)) t = g_start g t.
Proof.
  intros W Hc Q GI EF EA [LI CZV] Hnf Hr Hcm Hk Hne Hci.
  destruct (step_cases2 cf s t x) as [Hr0 E|c0 Hr0 Hs Hcc0 Hen E|c0 s1 l1 stk r Hr0 Hs Hcc0 Hen Hcs E|n Hr0 Hs Hcc0 Hn E|Hr0 Hs Hcc0 Hn E|p rest s1 l1 evs nx Hr0 Hs He E];
    try congruence.
  pose proof (ex_thr cf s t x rest s1 l1 nx E) as Et.
  destruct (exec_settle _ _ _ _ _ _ _ _ _ _ W Hnf Hr Hs He) as [Hns Hset].
  destruct (ex_top s t W p rest Hr Hs) as [Hnw _].
  destruct (CZV t cm k Hr Hcm Hk) as [Hx|(c & H1 & H2)]; [congruence|].
  pose proof (CZ_last _ _ _ _ H1) as Hlast. rewrite Hs in H1.
  assert (H2' : forall cand e rest0, p :: rest = LH7 cand e :: rest0 -> PC g t c (mem (sh s) (LEnv e))).
  { intros cand e rest0 Hp. apply (H2 cand e rest0). rewrite Hs. exact Hp. }
  rewrite Et in Hci.
  destruct (CZ_top _ _ _ _ _ H1 Hnw) as [(a & -> & ->)|(Hlv & kk & Hkk & Hb & HZ)].
  - (* the hit: the storage holds the cached address at this instant *)
    destruct (exec_q1 _ _ _ _ _ _ _ _ _ _ _ He Hns) as [-> [(Hm & -> & ->)|(Hm & fs & Hel & ->)]]; [|cbn in Hci; lia].
    exists c, a. split; [exact Hlast|]. split; [rewrite E; cbn; apply upd_same|]. split.
    + unfold PC. rewrite <- Hm. apply (fresh_now cf s g t x (l2_fresh _ _ LI) c). rewrite E. reflexivity.
    + apply g_start_same. unfold starts_now. rewrite Hr, Hs. reflexivity.
  - (* the inner load_full (and the drop of the old value) returns *)
    destruct (cache_pre cf s g t x LI p rest s1 l1 evs nx c k Hr Hs He E H1 H2' Hlv) as [Hst Hnl].
    pose proof (exec_kind _ _ _ _ _ _ _ _ _ _ He Hkk) as Hnk.
    unfold thread_after in Hci. destruct nx as [p'|fs w'|v0|ps|f]; cbn in Hci; try lia.
    assert (Hm : forall v, PC g t c v -> PC (snd (gstep cf (s, g) t x)) t c v)
      by (intros v; apply (PC_same cf s g t x LI); exact Hst).
    pose proof (unwind_LZ cf _ c k rest l1 v0 kk (LZ_mono _ _ c k Hm _ HZ) Hb (proj2 Hnl v0 eq_refl) Hnk) as Hu.
    destruct (unwind cf l1 rest v0) as [l2 stk2|l2 dst rv|l2|l2 ps|l2 f] eqn:Hun; cbn in Hci; try lia.
    destruct Hu as (v & HP & ->). exists c, v. split; [exact Hlast|].
    split; [rewrite E; cbn [hnd hnd_after]; rewrite Hun; apply upd_same|].
    split; [exact HP|apply g_start_same; exact Hst].
Qed.
