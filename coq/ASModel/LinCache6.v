(** * ASModel.LinCache6 — C16: facts about runs: command indices only grow, stopped threads stay
    stopped, the bottom frame of a running command stays where it is. *)
From Coq Require Import Lia.
From ASModel Require Import Base State Orderings_gen Step Run Progress Hist Inv InvTl InvProto InvStep Sum StepCases
  GenDefs Gen1 Gen2 Gen3 Gen EnvDefs LinDefs
  Lin1 Lin2 Lin3 Lin4 Lin5 Lin6 Lin7 Lin8 Lin9 Lin10 Lin11 Lin12 Lin13 Lin14 Lin.

Lemma step_cmdi_mono cf s t0 x t : t_cmdi (thr s t) <= t_cmdi (thr (fst (step cf s t0 x)) t).
Proof.
  destruct (N.eq_dec t t0) as [->|Hne]; [|rewrite step_status_other by exact Hne; lia].
  destruct (step_cases2 cf s t0 x) as [Hr E|c Hr Hs Hcc Hen E|c s1 l1 stk r Hr Hs Hcc Hen Hcs E|n Hr Hs Hcc Hn E|Hr Hs Hcc Hn E|p rest s1 l1 evs nx Hr Hs He E];
    rewrite E; try lia; cbn; rewrite upd_same; cbn; try lia.
  - unfold start_thread. destruct stk; cbn; lia.
  - unfold thread_after. destruct nx; cbn; try lia. destruct (unwind cf l1 rest v); cbn; lia.
Qed.

Lemma step_stopped cf s t0 x t : t_status (thr s t) <> Running -> thr (fst (step cf s t0 x)) t = thr s t.
Proof.
  intros H. destruct (N.eq_dec t t0) as [->|Hne]; [|apply step_status_other; exact Hne].
  unfold step. destruct (t_status (thr s t0)); try reflexivity. congruence.
Qed.

Lemma run_cmdi_mono cf : forall sched s t, t_cmdi (thr s t) <= t_cmdi (thr (run_state cf s sched) t).
Proof.
  induction sched as [|[t0 x] sched IH]; intros s t; [cbn; lia|].
  rewrite run_state_cons. pose proof (step_cmdi_mono cf s t0 x t). pose proof (IH (fst (step cf s t0 x)) t). lia.
Qed.

Lemma run_stopped cf : forall sched s t, t_status (thr s t) <> Running -> thr (run_state cf s sched) t = thr s t.
Proof.
  induction sched as [|[t0 x] sched IH]; intros s t H; [reflexivity|].
  rewrite run_state_cons. pose proof (step_stopped cf s t0 x t H) as E. rewrite IH; [exact E|]. rewrite E. exact H.
Qed.

(** A thread whose stack has become empty while it keeps running has completed its command. *)
Lemma thread_after_nil cf th l1 rest nx :
  t_stack (thread_after cf th l1 rest nx) = [] -> t_status (thread_after cf th l1 rest nx) = Running ->
  t_cmdi (thread_after cf th l1 rest nx) = t_cmdi th + 1.
Proof.
  unfold thread_after. destruct nx as [p|fs w|v|ps|f]; cbn; try discriminate.
  - destruct fs; discriminate.
  - destruct (unwind cf l1 rest v) as [l2 stk|l2 dst rv|l2|l2 ps|l2 f] eqn:Hu; cbn; try discriminate; [|reflexivity].
    intros ->. exfalso. eapply unwind_stack_nonempty; [exact Hu|reflexivity].
Qed.

Lemma last_bottom_rest p rest pre b :
  p :: rest = pre ++ [b] -> is_waiting p = false -> is_bottom_frame b = true -> exists pre', rest = pre' ++ [b].
Proof.
  intros H Hnw Hb. destruct pre as [|q pre]; [injection H as -> _|injection H as _ ->; eauto].
  destruct b; discriminate.
Qed.

(** One step of a running thread inside a command: the bottom frame stays. *)
Lemma step_bottom cf s t0 x t b :
  WF2 s -> NoFault (fst (step cf s t0 x)) -> is_bottom_frame b = true ->
  t_status (thr s t) = Running -> (exists pre, t_stack (thr s t) = pre ++ [b]) ->
  t_status (thr (fst (step cf s t0 x)) t) = Running ->
  t_cmdi (thr (fst (step cf s t0 x)) t) = t_cmdi (thr s t) ->
  exists pre, t_stack (thr (fst (step cf s t0 x)) t) = pre ++ [b].
Proof.
  intros W Hnf Hb Hr (pre & Hpre) Hr' Hci.
  destruct (N.eq_dec t t0) as [->|Hne]; [|rewrite step_status_other by exact Hne; eauto].
  assert (Hne : t_stack (thr s t0) <> []) by (rewrite Hpre; destruct pre; discriminate).
  destruct (step_cases2 cf s t0 x) as [Hr0 E|c Hr0 Hs Hcc Hen E|c s1 l1 stk r Hr0 Hs Hcc Hen Hcs E|n Hr0 Hs Hcc Hn E|Hr0 Hs Hcc Hn E|p rest s1 l1 evs nx Hr0 Hs He E];
    try congruence.
  pose proof (ex_thr cf s t0 x rest s1 l1 nx E) as Et.
  destruct (exec_settle _ _ _ _ _ _ _ _ _ _ W Hnf Hr Hs He) as [Hns Hset].
  destruct (ex_top s t0 W p rest Hr Hs) as [Hnw _].
  rewrite Hs in Hpre. destruct (last_bottom_rest _ _ _ _ Hpre Hnw Hb) as (pre' & Hrest).
  rewrite Et in *.
  destruct (settle_last _ _ _ _ _ _ _ b Hset (ex_intro _ pre' Hrest) Hb) as [Hnil|H]; [|exact H].
  exfalso. pose proof (thread_after_nil _ _ _ _ _ Hnil Hr') as Hx. lia.
Qed.
