(** * ASModel.LinCas — C05: compare_and_swap replaces iff the stored pointer equals [current],
    and returns the previous value.

    Command number [i] of thread [t] is [CCas c cur new h2]; its CMD step is the step at position
    [pa] of the schedule ([cur] and [new] denote the addresses [a] and [b] there), the step at
    position [pb] completes it.  Then the handle [h2] holds a guard on some pointer [p], and
    - if [p <> a] (failure is reported): [p] was the content of the storage of [c] in one of the
      states after the steps [pa] .. [pb], and no step of [t] in [pa] .. [pb] has a write event on
      the storage of [c];
    - if [p = a] (success is reported): exactly one step of [t] in [pa] .. [pb] has a write event on
      the storage of [c]; it has exactly one, [(a, b)]; the storage held [a] before that step and
      holds [b] after it.
    Run hypotheses as for [Lin.load_linearizable]. *)
From Coq Require Import Lia.
From ASModel Require Import Base State Orderings_gen Step Run Progress Hist Inv InvTl InvProto InvStep Sum StepCases
  GenDefs Gen1 Gen2 Gen3 Gen Typed1 EnvDefs LinDefs
  Lin1 Lin2 Lin3 Lin4 Lin5 Lin6 Lin7 Lin8 Lin9 Lin10 Lin11 Lin12 Lin13 Lin14 Lin
  LinCache1 LinCache2 LinCache3 LinCache4 LinCache5 LinCache6 LinCache Env
  LinCas1 LinCas2 LinCas3 LinCas4 LinCas5 LinCas6.

(** No step of [t] among the steps [lo] .. [hi] has a write event on the storage of [c]. *)
Definition no_write cf s0 sched (t c : N) (lo hi : nat) : Prop :=
  forall j, (lo <= j <= hi)%nat -> step_w cf s0 sched t c j = [].

(** Exactly one step of [t] among the steps [lo] .. [hi] has a write event on the storage of [c]:
    step [j]; it has one, [(a, b)], and replaces the content [a] by [b]. *)
Definition one_write cf s0 sched (t c a b : N) (lo hi j : nat) : Prop :=
  (lo <= j <= hi)%nat /\
  (exists x, nth_error sched j = Some (t, x) /\
     writes_in c (snd (step cf (run_state cf s0 (firstn j sched)) t x)) = [(a, b)]) /\
  mem (sh (run_state cf s0 (firstn j sched))) (LStore c) = a /\
  mem (sh (run_state cf s0 (firstn (S j) sched))) (LStore c) = b /\
  forall j', (lo <= j' <= hi)%nat -> j' <> j -> step_w cf s0 sched t c j' = [].

Lemma one_write_of_wsum cf inits progs sched t c a b lo n :
  wsum cf (init_state inits progs) sched t c lo (S n) = [(a, b)] ->
  exists j, one_write cf (init_state inits progs) sched t c a b lo (lo + n) j.
Proof.
  intros H. destruct (wsum_one _ _ _ _ _ _ _ _ H) as (j & Hj & Hw & Hoth).
  destruct (step_w_inv _ _ _ _ _ _ _ _ Hw) as (x & Hn & Hwr).
  destruct (write_mem _ _ _ _ _ _ _ Hwr) as [M1 M2].
  exists j. split; [lia|]. split; [eauto|]. split; [exact M1|]. split.
  - rewrite (St_succ cf inits progs sched j t x Hn). exact M2.
  - intros j' Hj' Hne. apply Hoth; [lia|exact Hne].
Qed.

Section Run2.
  Variables (cf : config) (inits : list N) (progs : list (list cmd)).
  Local Notation s0 := (init_state inits progs).
  Hypothesis Hprogs : forall p, In p progs -> forall g, ~ In (CSetGen g) p.
  Variable sched : list (N * N).
  Hypotheses (Hcalm : prefix_ok Calm cf s0 sched) (Henvf : prefix_ok EnvFree cf s0 sched)
             (Henva : prefix_ok EnvA cf s0 sched) (Hnf : NoFault (run_state cf s0 sched)).
  Local Notation St k := (run_state cf s0 (firstn k sched)).
  Local Notation Gh k := (snd (grun cf (s0, ghost0) (firstn k sched))).

  Theorem cas_linearizable t i c cur new h2 a b pa pb xa tb xb :
    nth_error (t_prog (thr s0 t)) (N.to_nat i) = Some (CCas c cur new h2) ->
    (pa <= pb)%nat ->
    nth_error sched pa = Some (t, xa) ->
    t_status (thr (St pa) t) = Running -> t_stack (thr (St pa) t) = [] -> t_cmdi (thr (St pa) t) = i ->
    cmd_enabled (St pa) (CCas c cur new h2) = true ->
    src_val (St pa) cur = Some a -> src_val (St pa) new = Some b ->
    nth_error sched pb = Some (tb, xb) ->
    t_cmdi (thr (St pb) t) = i -> t_cmdi (thr (St (S pb)) t) = i + 1 ->
    exists p d, hnd (St (S pb)) h2 = HGuard p d /\
      ((p <> a /\
        (exists j, (pa + 1 <= j <= pb + 1)%nat /\ mem (sh (St j)) (LStore c) = p) /\
        no_write cf s0 sched t c pa pb)
       \/ (p = a /\ exists j, one_write cf s0 sched t c a b pa pb j)).
  Proof.
    intros Hcm Hab Ha Hra Hsa Hia Hen Hva Hvb Hb Hib Hib'.
    assert (Hlen : (pb < length sched)%nat) by (apply nth_error_Some; congruence).
    pose proof (St_succ cf inits progs sched pb tb xb Hb) as Eb.
    assert (tb = t) as ->.
    { destruct (N.eq_dec tb t) as [E|E]; [exact E|]. rewrite Eb, step_status_other in Hib' by congruence. lia. }
    destruct (cas_started cf inits progs sched t i c cur new h2 a b pa xa Hcm Ha Hra Hsa Hia Hen Hva Hvb)
      as (_ & _ & Hi0 & _).
    assert (Hlt : (S pa <= pb)%nat).
    { destruct (Nat.eq_dec pa pb) as [Heq|Hneq]; [|lia]. subst pb. lia. }
    destruct (cas_inv cf inits progs Hprogs sched Hcalm Henvf Henva Hnf t i c cur new h2 a b pa xa
                Hcm Ha Hra Hsa Hia Hen Hva Hvb pb Hlen Hib Hib' (pb - S pa)%nat ltac:(lia)) as [Z Hst].
    replace (S pa + (pb - S pa))%nat with pb in Z, Hst by lia.
    remember (pb - S pa)%nat as d eqn:Hd.
    pose proof (Gh_succ cf inits progs sched pb t xb Hb) as EG.
    pose proof (St_running cf inits progs sched t i pb pb (le_n _) Hib Hib') as Hrb.
    pose proof (St_NoFault cf inits progs sched Hnf (S pb)) as Hnf'. rewrite Eb in Hnf'.
    destruct (St_GenInvQ cf inits progs Hprogs sched Hcalm Hnf pb) as [WF Q GI].
    pose proof (run_LinInv3 cf inits progs Hprogs (firstn pb sched) (prefix_ok_firstn _ _ _ _ pb Hcalm)
                  (prefix_ok_firstn _ _ _ _ pb Henvf) (prefix_ok_firstn _ _ _ _ pb Henva)
                  (St_NoFault cf inits progs sched Hnf pb)) as [LI _].
    destruct (CasZ_tail _ _ _ _ _ _ _ (proj1 Z)) as (pre & Hpre & Hpne).
    assert (Hnil : t_stack (thr (St pb) t) <> []) by (rewrite Hpre; destruct pre; [congruence|discriminate]).
    destruct (step_cases2 cf (St pb) t xb) as [Hr E2|c0 Hr Hs Hcc0 Hen0 E2|c0 s1 l1 stk r Hr Hs Hcc0 Hen0 Hcs E2|n Hr Hs Hcc0 Hn0 E2|Hr Hs Hcc0 Hn0 E2|p rest s1 l1 evs nx Hr Hs He E2];
      try congruence.
    assert (Hw : wsum cf s0 sched t c pa (S (S d)) = wsum cf s0 sched t c pa (S d) ++ writes_in c evs).
    { change (wsum cf s0 sched t c pa (S (S d))) with (wsum cf s0 sched t c pa (S d) ++ step_w cf s0 sched t c (pa + S d)).
      replace (pa + S d)%nat with pb by lia. unfold step_w. rewrite Hb, N.eqb_refl.
      rewrite (step_writes_exec cf (St pb) t xb p rest s1 l1 evs nx c Hr Hs He). reflexivity. }
    destruct (cas_exec cf (St pb) (Gh pb) t xb WF Hnf' LI c a b [KDone (Some h2)] p rest s1 l1 evs nx _ Hr Hs He E2 Z)
      as [[Z'|(l' & v & dd & EL & HR)] Hs'].
    - exfalso. destruct (CasZ_tail _ _ _ _ _ _ _ (proj1 Z')) as (pre' & Hpre' & Hpne').
      pose proof (ex_thr cf (St pb) t xb rest s1 l1 nx E2) as Et.
      rewrite Eb, Et in Hib'. rewrite Et in Hpre'.
      rewrite thread_after_cmdi in Hib' by (rewrite Hpre'; destruct pre'; [congruence|discriminate]). lia.
    - cbn in EL. destruct (land_done cf (thr (St pb) t) l1 rest nx _ _ _ (hnd (St pb)) EL) as [_ Eh].
      exists v, dd. split.
      { rewrite Eb, E2. cbn [hnd]. rewrite Eh. apply upd_same. }
      rewrite <- Hw in HR. rewrite <- EG in HR.
      destruct HR as [(Hva' & HP & Hwr)|[-> Hwr]].
      + left. split; [exact Hva'|]. split.
        * rewrite Hw in Hwr. pose proof (Hs' Hwr) as Hsn. apply app_eq_nil in Hwr as [Hwr1 _].
          assert (Hstart : g_start (Gh (S pb)) t = S pa).
          { rewrite EG, (g_start_same cf (St pb) (Gh pb) t xb Hsn t). apply Hst. exact Hwr1. }
          destruct (lt_sound cf s0 (firstn (S pb) sched) c v) as [Hk1 Hk2]. cbn zeta in Hk1, Hk2.
          rewrite firstn_length in Hk1. unfold PC in HP.
          exists (g_lt (Gh (S pb)) c v). split; [lia|].
          rewrite firstn_firstn in Hk2. rewrite Nat.min_l in Hk2 by lia. apply Hk2. lia.
        * intros j Hj. apply (wsum_nil cf s0 sched t c pa (S (S d)) Hwr). lia.
      + right. split; [reflexivity|].
        destruct (one_write_of_wsum cf inits progs sched t c a b pa (S d) Hwr) as (j & Hj).
        exists j. replace pb with (pa + S d)%nat by lia. exact Hj.
  Qed.
End Run2.

(** The same with [GenBound] (no generation counter within one step of wrapping) in every state
    of the run instead of [Calm], [EnvFree] and [EnvA]: those follow ([Env.run_EnvFree]). *)
Theorem cas_linearizable_bound cf inits progs sched t i c cur new h2 a b pa pb xa tb xb :
  let s0 := init_state inits progs in
  let St := fun k => run_state cf s0 (firstn k sched) in
  (forall p, In p progs -> forall g, ~ In (CSetGen g) p) ->
  (forall j, GenBound (St j)) ->
  NoFault (run_state cf s0 sched) ->
  nth_error (t_prog (thr s0 t)) (N.to_nat i) = Some (CCas c cur new h2) ->
  (pa <= pb)%nat ->
  nth_error sched pa = Some (t, xa) ->
  t_status (thr (St pa) t) = Running -> t_stack (thr (St pa) t) = [] -> t_cmdi (thr (St pa) t) = i ->
  cmd_enabled (St pa) (CCas c cur new h2) = true ->
  src_val (St pa) cur = Some a -> src_val (St pa) new = Some b ->
  nth_error sched pb = Some (tb, xb) ->
  t_cmdi (thr (St pb) t) = i -> t_cmdi (thr (St (S pb)) t) = i + 1 ->
  exists p d, hnd (St (S pb)) h2 = HGuard p d /\
    ((p <> a /\
      (exists j, (pa + 1 <= j <= pb + 1)%nat /\ mem (sh (St j)) (LStore c) = p) /\
      no_write cf s0 sched t c pa pb)
     \/ (p = a /\ exists j, one_write cf s0 sched t c a b pa pb j)).
Proof.
  intros s0 St Hp Hb Hnf. subst s0 St. cbn beta.
  assert (HE : forall j, EnvFree (run_state cf (init_state inits progs) (firstn j sched)) /\
                         EnvA (run_state cf (init_state inits progs) (firstn j sched))).
  { intros j. apply (run_EnvFree cf inits progs (firstn j sched) Hp).
    - intros k0. rewrite firstn_firstn. apply Hb.
    - apply NoFault_prefix. exact Hnf. }
  apply (cas_linearizable cf inits progs Hp sched).
  - intros j. apply Calm_split. split; [apply Hb|]. apply NoSetGen_run. apply NoSetGen_init. exact Hp.
  - intros j. apply HE.
  - intros j. apply HE.
  - exact Hnf.
Qed.

(** The successful exchange is one link of the chain of all writes of the container
    ([Hist.store_chain]). *)
Corollary one_write_chain cf s0 sched t c a b lo hi j :
  one_write cf s0 sched t c a b lo hi j -> never_consumed c s0 ->
  In (t, a, b) (writes_of_trace c (snd (run cf s0 sched))) /\
  Hist.chain (mem (sh s0) (LStore c)) (writes_of_trace c (snd (run cf s0 sched)))
             (mem (sh (run_state cf s0 sched)) (LStore c)).
Proof.
  intros (_ & (x & Hn & Hw) & _) Hnc. split.
  - apply (writes_of_trace_in cf c sched s0 j t x (a, b) Hn). rewrite Hw. left. reflexivity.
  - rewrite <- (Gen.run_fst cf sched s0). apply store_chain. exact Hnc.
Qed.

Print Assumptions cas_linearizable.
Print Assumptions cas_linearizable_bound.
Print Assumptions one_write_chain.
