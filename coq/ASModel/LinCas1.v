(** * ASModel.LinCas1 — C05/C06: tools.  The outcome of a frame step as a function ([land]: where
    the thread lands after the frames of [nx] are pushed or the stack is unwound), and the
    generic "zone" lemma: frames of a class [F] that is closed under [resume] stay above a
    waiting frame [w] until they hand a value of class [R] to [w]. *)
From Coq Require Import Lia.
From ASModel Require Import Base State Orderings_gen Step Run Progress Hist Inv InvTl InvProto InvStep Sum StepCases
  GenDefs Gen1 Gen2 Typed1.

Definition land (cf : config) (l : tlocal) (rest : list pc) (nx : next) : unwound :=
  match nx with
  | NGoto p => UStack l (p :: rest)
  | NPush fs w => UStack l (fs ++ w :: rest)
  | NRet v => unwind cf l rest v
  | NPanic ps => UPanic l ps
  | NFault f => UFault l f
  end.

Lemma unwind_land cf l w rest v :
  is_bottom w = false ->
  unwind cf l (w :: rest) v = land cf (fst (resume cf l w v)) rest (snd (resume cf l w v)).
Proof.
  intros Hb. rewrite (unwind_cons cf l w rest v Hb). destruct (resume cf l w v) as [l' nx]. destruct nx; reflexivity.
Qed.

Lemma land_stack cf th l rest nx l' stk h :
  land cf l rest nx = UStack l' stk ->
  thread_after cf th l rest nx = mkThread stk l' (t_prog th) (t_cmdi th) Running /\
  hnd_after cf h l rest nx = h.
Proof.
  unfold land, thread_after, hnd_after. destruct nx; try discriminate.
  - intros [= <- <-]. auto.
  - intros [= <- <-]. auto.
  - intros ->. auto.
Qed.

Lemma land_done cf th l rest nx l' dst v h :
  land cf l rest nx = UDone l' dst v ->
  thread_after cf th l rest nx = mkThread [] l' (t_prog th) (t_cmdi th + 1) Running /\
  hnd_after cf h l rest nx = match dst with Some (k, hv) => upd h k hv | None => h end.
Proof.
  unfold land, thread_after, hnd_after. destruct nx; try discriminate.
  intros ->. destruct dst as [[k hv]|]; auto.
Qed.

(** In a step that neither panics nor faults the thread lands on a stack, completes its
    command, or exits. *)
Lemma land_cases cf s t x p rest s1 l1 evs nx :
  WF2 s -> NoFault (fst (step cf s t x)) ->
  t_status (thr s t) = Running -> t_stack (thr s t) = p :: rest ->
  exec cf (sh s) (t_loc (thr s t)) p x = (s1, l1, evs, nx) ->
  match land cf l1 rest nx with UPanic _ _ | UFault _ _ => False | _ => True end.
Proof.
  intros W Hnf Hr Hs He.
  destruct (exec_step_no_panic _ _ _ _ _ _ _ _ _ _ W Hr Hs He) as [Hp Hup].
  pose proof (Hnf t) as Hf. rewrite (step_exec_eq _ _ _ _ _ _ _ _ _ _ Hr Hs He) in Hf. cbn in Hf. rewrite upd_same in Hf.
  destruct (thread_after_nofault _ _ _ _ _ Hf) as [Hnf1 Hnf2].
  destruct nx as [q|fs w|v|ps|f]; cbn; try exact I.
  - specialize (Hup v eq_refl). specialize (Hnf2 v eq_refl).
    destruct (unwind cf l1 rest v) eqn:Hu; try exact I; [eapply Hup|eapply Hnf2]; reflexivity.
  - eapply Hp. reflexivity.
  - eapply Hnf1. reflexivity.
Qed.

(** ** Zones *)
Section Zone.
  Variables (cf : config) (F : pc -> Prop) (R : retval -> Prop).
  Definition nx_in (nx : next) : Prop := Forall F (nx_frames nx) /\ (forall rv, nx = NRet rv -> R rv).
  Hypothesis F_nb : forall f, F f -> is_bottom f = false.
  Hypothesis F_res : forall l f v, F f -> R v -> nx_in (snd (resume cf l f v)).

  Definition stops (u : unwound) : Prop := match u with UPanic _ _ | UFault _ _ => True | _ => False end.

  Lemma unwind_zone w tl : forall fs l v, Forall F fs -> R v ->
    (exists l' fs', unwind cf l (fs ++ w :: tl) v = UStack l' (fs' ++ w :: tl) /\ Forall F fs') \/
    (exists l' v', R v' /\ unwind cf l (fs ++ w :: tl) v = unwind cf l' (w :: tl) v') \/
    stops (unwind cf l (fs ++ w :: tl) v).
  Proof.
    induction fs as [|f fs IH]; intros l v HF HR.
    - right. left. exists l, v. auto.
    - inversion HF as [|? ? Hf HF']; subst. cbn [app]. rewrite (unwind_land cf l f _ v (F_nb f Hf)).
      destruct (F_res l f v Hf HR) as [N1 N2]. destruct (resume cf l f v) as [l' nx]. cbn [fst snd] in *.
      destruct nx as [q|fs0 w0|v'|ps|ff]; cbn [land nx_frames] in *.
      + left. exists l', (q :: fs). split; [reflexivity|]. inversion N1; subst. constructor; assumption.
      + left. exists l', (fs0 ++ w0 :: fs). split; [rewrite <- app_assoc; reflexivity|].
        replace (fs0 ++ w0 :: fs) with ((fs0 ++ [w0]) ++ fs) by (rewrite <- app_assoc; reflexivity).
        apply Forall_app. split; assumption.
      + apply IH; [exact HF'|apply N2; reflexivity].
      + right. right. exact I.
      + right. right. exact I.
  Qed.

  Lemma land_zone w tl fs l nx : Forall F fs -> nx_in nx ->
    (exists l' fs', land cf l (fs ++ w :: tl) nx = UStack l' (fs' ++ w :: tl) /\ Forall F fs') \/
    (exists l' v', R v' /\ land cf l (fs ++ w :: tl) nx = unwind cf l' (w :: tl) v') \/
    stops (land cf l (fs ++ w :: tl) nx).
  Proof.
    intros HF [N1 N2]. destruct nx as [q|fs0 w0|v'|ps|ff]; cbn [land nx_frames] in *.
    - left. exists l, (q :: fs). split; [reflexivity|]. inversion N1; subst. constructor; assumption.
    - left. exists l, (fs0 ++ w0 :: fs). split; [rewrite <- app_assoc; reflexivity|].
      replace (fs0 ++ w0 :: fs) with ((fs0 ++ [w0]) ++ fs) by (rewrite <- app_assoc; reflexivity).
      apply Forall_app. split; assumption.
    - apply unwind_zone; [exact HF|apply N2; reflexivity].
    - right. right. exact I.
    - right. right. exact I.
  Qed.
End Zone.
