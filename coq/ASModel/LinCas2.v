(** * ASModel.LinCas2 — C05/C06: frames that never write the storage of a container.

    [payfr]: the frames of [Debt::pay_all] (with [Node::get], the helping of readers and the
    nested [load_full] of a helper, the cooldown), of a load, and of a decrement.  The class is
    closed under [exec] and [resume]; its steps emit no write event on any storage.  Only the
    frames [S1] (swap) and [K1] (the exchange of compare_and_swap) emit one. *)
From Coq Require Import Lia.
From ASModel Require Import Base State Orderings_gen Step Run Progress Hist Inv InvTl InvProto InvStep Sum StepCases
  GenDefs Gen1 Gen2 Typed1 LinCas1.

Definition payfr (p : pc) : bool :=
  match p with
  | GHead | GCool1 _ | GCool2 _ | GCool3 _ | GBack _ | GClaim _ | GPush0 | GPush _
  | C1 _ | C2 _ | C3 _
  | LA1 _ | LA1d _ _ | LAscan _ _ _ | LA3 _ _ _ | LA4 _ _ _ | LA5 _ _ _ | LA6 _ _
  | LH0d _ | LH1 _ _ | LH2 _ _ | LH3 _ _ | LH3d _ _ _ | LH4 _ _ _ | LH5 _ _ _
  | LH6a _ | LH6b _ | LH6c _ | LH7 _ _ | LH8 _ _ _ | LH9 _ _ | LH10 _ _
  | GI1 _ _ | GI2 _ _ | GD1 _ _ | PDec _ _
  | P1 _ _ | P2 _ _ | P3 _ _ _ | PE0d _ _ _ | PE0e _ _ _ | PE1 _ _ _ | PE2 _ _ _ _ | PE3 _ _ _ _
  | PE4 _ _ _ _ _ | PE5 _ _ _ _ _ _ | PE6 _ _ _ _ _ _ _ | PE7 _ _ _ _ _ _ _ | PE8 _ _ _ _ | PE9 _ _ _ _ _
  | PS _ _ _ _ | PSi _ _ _ _ | P5 _ _ _ | P6 _ _
  | WGetLoad _ | WGetPay _ _ | WExit _ | WLoadFull | WHelpRepl _ _ _ _ => true
  | _ => false
  end.

Definition PF (f : pc) : Prop := payfr f = true.
Definition nx_pf (nx : next) : Prop := Forall PF (nx_frames nx).

Lemma payfr_not_bottom f : PF f -> is_bottom f = false.
Proof. unfold PF. destruct f; cbn; congruence. Qed.

Ltac pf_frames := repeat (first [apply Forall_nil | apply Forall_cons; [reflexivity|]]).

Lemma with_exit_pf l r l' nx : with_exit l r = (l', nx) -> nx_pf nx.
Proof. unfold with_exit, nx_pf. intros H. destr_in H; injection H as <- <-; cbn; pf_frames. Qed.

Lemma dec_then_pf a r : nx_pf (dec_then a r).
Proof. unfold dec_then, nx_pf. destruct (a =? 0); cbn; pf_frames. Qed.

Lemma fallback_entry_pf cf l c l' nx : fallback_entry cf l c = (l', nx) -> nx_pf nx.
Proof. unfold fallback_entry, nx_pf. intros H. destr_in H; injection H as <- <-; cbn; pf_frames. Qed.

Lemma gen_step_pf cf l c l' nx : gen_step cf l c = (l', nx) -> nx_pf nx.
Proof. unfold gen_step, nx_pf. intros H. destr_in H; injection H as <- <-; cbn; pf_frames. Qed.

Lemma load_body_pf cf l c l' nx : load_body cf l c = (l', nx) -> nx_pf nx.
Proof.
  unfold load_body. destruct (cf_use_fast cf); [|apply fallback_entry_pf].
  intros [= <- <-]. unfold nx_pf. cbn. pf_frames.
Qed.

Lemma enter_load_pf cf l c l' fs : enter_load cf l c = inl (l', fs) -> Forall PF fs.
Proof.
  unfold enter_load. intros H. destruct (tl_node l).
  - destruct (load_body cf (tl_set_depth l (tl_depth l + 1)) c) as [l2 nx] eqn:Hb.
    apply load_body_pf in Hb. destruct nx; try discriminate. injection H as <- <-. exact Hb.
  - injection H as <- <-. pf_frames.
Qed.

Lemma enter_pay_pf l c old l' fs : enter_pay l c old = (l', fs) -> Forall PF fs.
Proof. unfold enter_pay, pay_body. intros H. destr_in H; injection H as <- <-; pf_frames. Qed.

Lemma guard_drop_pf p d : Forall PF (guard_drop_frames p d).
Proof. unfold guard_drop_frames. destruct d; [|destruct (p =? 0)]; pf_frames. Qed.

Lemma guard_into_pf p d : Forall PF (guard_into_frames p d).
Proof. unfold guard_into_frames. destruct d; [destruct (p =? 0)|]; pf_frames. Qed.

Lemma help_dispatch_pf cf l c old w ctl : nx_pf (help_dispatch cf l c old w ctl).
Proof. unfold help_dispatch, nx_pf. repeat (destruct (_ : bool)); cbn; pf_frames. Qed.

Lemma after_slot_pf c old w j : nx_pf (after_slot c old w j).
Proof. unfold after_slot, nx_pf. destruct (j =? HSLOT); cbn; pf_frames. Qed.

Lemma Forall_pf_app a b : Forall PF a -> Forall PF b -> Forall PF (a ++ b).
Proof. intros. apply Forall_app. split; assumption. Qed.

Ltac pf_close :=
  unfold nx_pf; cbn [nx_frames];
  repeat match goal with
         | H : enter_load _ _ _ = inl (_, _) |- _ => apply enter_load_pf in H
         | H : enter_pay _ _ _ = (_, _) |- _ => apply enter_pay_pf in H
         end;
  first
    [ pf_frames; fail
    | repeat (apply Forall_pf_app; [try assumption|]); first [assumption | pf_frames]; fail ].

Lemma exec_pf cf s l p x s' l' evs nx :
  exec cf s l p x = (s', l', evs, nx) -> PF p -> nx_pf nx.
Proof.
  intros He Hp. unfold PF in Hp. destruct p; try discriminate Hp; clear Hp; exec_norm He.
  all: try (match goal with
            | H : with_exit _ _ = (_, ?n) |- nx_pf ?n => exact (with_exit_pf _ _ _ _ H)
            | H : fallback_entry _ _ _ = (_, ?n) |- nx_pf ?n => exact (fallback_entry_pf _ _ _ _ _ H)
            | H : gen_step _ _ _ = (_, ?n) |- nx_pf ?n => exact (gen_step_pf _ _ _ _ _ H)
            | |- nx_pf (help_dispatch _ _ _ _ _ _) => apply help_dispatch_pf
            | |- nx_pf (after_slot _ _ _ _) => apply after_slot_pf
            | |- nx_pf (dec_then _ _) => apply dec_then_pf
            end).
  all: try pf_close.
Qed.

Lemma resume_pf cf l w v : PF w -> nx_pf (snd (resume cf l w v)).
Proof.
  intros Hp. unfold PF in Hp. destruct w; try discriminate Hp; clear Hp; cbn [resume].
  all: try (destruct v; cbn; try (unfold nx_pf; cbn; pf_frames; fail)).
  all: try (unfold nx_pf; cbn; pf_frames; fail).
  - destruct (load_body cf _ c) as [l2 nx] eqn:Hb. cbn. eapply load_body_pf. exact Hb.
  - unfold nx_pf, pay_body. cbn. destruct (old =? 0); pf_frames.
  - pose proof (guard_into_pf p d) as HG. destruct (guard_into_frames p d); cbn; unfold nx_pf; cbn; [constructor|].
    inversion HG; subst. constructor; [assumption|constructor].
Qed.

(** ** Write events *)
Definition wfr (p : pc) : bool := match p with S1 _ _ | K1 _ _ _ _ _ => true | _ => false end.

Lemma exec_nowrite cf s l p x s' l' evs nx c :
  exec cf s l p x = (s', l', evs, nx) -> wfr p = false -> writes_in c evs = [].
Proof.
  intros He Hw. destruct p; try discriminate Hw; clear Hw;
    unfold exec in He; unfold a_load, a_store, a_swap, a_cas, a_fadd, a_fsub in He; cbn in He.
  all: try (match type of He with context [rc_inc ?s0 ?a] => destruct (rc_inc s0 a) as [[s2 e2]|] eqn:Hrc end;
            [pose proof (rc_inc_store _ _ _ _ c Hrc) as [_ Hwr]|]).
  all: try (match type of He with context [rc_dec ?s0 ?a] => destruct (rc_dec s0 a) as [[s2 e2]|] eqn:Hrc end;
            [pose proof (rc_dec_store _ _ _ _ c Hrc) as [_ Hwr]|]).
  all: try (match type of He with context [rc_alloc ?s0 ?a] => destruct (rc_alloc s0 a) as [[s2 e2]|] eqn:Hrc end;
            [pose proof (rc_alloc_store _ _ _ _ c Hrc) as [_ Hwr]|]).
  all: destr_in He; try discriminate; injection He as <- <- <- <-.
  all: try assumption.
  all: cbn; repeat (destruct (_ =? c)%N); reflexivity.
Qed.

(** The write events of a global step are those of the frame step. *)
Lemma step_writes_exec cf s t x p rest s1 l1 evs nx c :
  t_status (thr s t) = Running -> t_stack (thr s t) = p :: rest ->
  exec cf (sh s) (t_loc (thr s t)) p x = (s1, l1, evs, nx) ->
  writes_in c (snd (step cf s t x)) = writes_in c evs.
Proof. intros Hr Hs He. unfold step. rewrite Hr, Hs, He. apply finish_events_writes. Qed.

Lemma step_writes_idle cf s t x c :
  t_status (thr s t) <> Running \/ t_stack (thr s t) = [] -> writes_in c (snd (step cf s t x)) = [].
Proof.
  intros H. unfold step. destruct (t_status (thr s t)); try reflexivity.
  destruct H as [H|H]; [congruence|]. rewrite H.
  destruct (nth_error _ _) as [cm|].
  - destruct (cmd_enabled s cm); [|reflexivity].
    destruct (cmd_start cf s (t_loc (thr s t)) cm) as [[[[s' l'] stk] r]|ps]; [destruct stk|]; reflexivity.
  - destruct (tl_node _); reflexivity.
Qed.
