(** * ASModel.LinCas3 — C05: the zone of a compare_and_swap.

    Above a tail [tl] (the bottom frame [KDone] of a [CCas] command, or the [WRcuCas] frame of an
    attempt of [rcu]) the stack of [compare_and_swap(current = a, new = b)] on container [c] is
    - frames of the internal load above [WCasLoad c a b]                      (nothing written),
    - the exchange frame [K1 c a b a d]  (the loaded pointer equals [a])     (nothing written),
    - the drop of the guard after a failed exchange, above [WCasRetry c a b]  (nothing written),
    - the release of [new] before the loaded guard [(v, d)], [v <> a], is returned (nothing written),
    - frames of [pay_all] above [WCasPaid a d]                     (exactly [(a, b)] was written),
    - the release of the storage's reference before the guard [(a, d)] is returned (the same).
    [wr] is the list of write events on the storage of [c] since the compare_and_swap began. *)
From Coq Require Import Lia.
From ASModel Require Import Base State Orderings_gen Step Run Progress Hist Inv InvTl InvProto InvStep Sum StepCases
  GenDefs Gen1 Gen2 Typed1 EnvDefs LinDefs Lin1 Lin3 LinCas1 LinCas2.

Definition dropfr (f : pc) : bool := match f with GD1 _ _ | PDec _ RUnit => true | _ => false end.

Inductive CasZ (P : N -> Prop) (c a b : N) (tl : list pc) : list (N * N) -> list pc -> Prop :=
| cz_load fs : Forall (lfv P) fs -> CasZ P c a b tl [] (fs ++ WCasLoad c a b :: tl)
| cz_k1 d : CasZ P c a b tl [] (K1 c a b a d :: tl)
| cz_drop f : dropfr f = true -> CasZ P c a b tl [] (f :: WCasRetry c a b :: tl)
| cz_fail v d : v <> a -> P v -> CasZ P c a b tl [] (PDec b (RGuard v d) :: tl)
| cz_paid fs d : Forall PF fs -> CasZ P c a b tl [(a, b)] (fs ++ WCasPaid a d :: tl)
| cz_ret d : CasZ P c a b tl [(a, b)] (PDec a (RGuard a d) :: tl).

(** What the compare_and_swap hands to its caller: a value other than [current], fresh, and
    nothing was written; or [current] itself, and exactly [(current, new)] was written. *)
Definition CasRet (P : N -> Prop) (a b : N) (wr : list (N * N)) (v : N) : Prop :=
  (v <> a /\ P v /\ wr = []) \/ (v = a /\ wr = [(a, b)]).

Lemma lfv_mono (P Q : N -> Prop) f : (forall v, P v -> Q v) -> lfv P f -> lfv Q f.
Proof. intros H [A B]. split; [exact A|]. intros v Hv. apply H. apply B. exact Hv. Qed.

Lemma CasZ_mono (P Q : N -> Prop) c a b tl wr stk :
  (forall v, P v -> Q v) -> CasZ P c a b tl wr stk -> CasZ Q c a b tl wr stk.
Proof.
  intros H Z. destruct Z; try (constructor; auto; fail).
  constructor. eapply Forall_impl; [|eassumption]. intros f. apply lfv_mono. exact H.
Qed.

Lemma lfr_pf f : lfr f = true -> PF f.
Proof. unfold PF. destruct f; cbn; try congruence. Qed.

Lemma pf_not_wfr f : PF f -> wfr f = false.
Proof. unfold PF. destruct f; cbn; congruence. Qed.

Lemma lfr_not_waiting_split (Fp : pc -> Prop) p rest fs w tl :
  p :: rest = fs ++ w :: tl -> is_waiting p = false -> is_waiting w = true -> Forall Fp fs ->
  exists fs', fs = p :: fs' /\ rest = fs' ++ w :: tl /\ Fp p /\ Forall Fp fs'.
Proof.
  intros E Hp Hw HF. destruct fs as [|f fs]; [injection E as -> _; congruence|].
  injection E as <- ->. inversion HF; subst. eauto.
Qed.

(** Zones of load frames and of pay frames. *)
Lemma lfv_not_bottom P f : lfv P f -> is_bottom f = false.
Proof. intros [H _]. apply payfr_not_bottom. apply lfr_pf. exact H. Qed.

Lemma lfv_res cf P l f v : lfv P f -> rvok P v -> nx_in (lfv P) (rvok P) (snd (resume cf l f v)).
Proof.
  intros [A B] Hv. destruct (resume cf l f v) as [l' nx] eqn:Hr. exact (resume_lfv P cf l f v l' nx Hr A B Hv).
Qed.

Lemma pf_res cf l f v : PF f -> True -> nx_in PF (fun _ => True) (snd (resume cf l f v)).
Proof. intros Hf _. split; [apply resume_pf; exact Hf|auto]. Qed.

Section CasStep.
  Variables (cf : config) (P P' : N -> Prop) (c a b : N) (tl : list pc).
  Hypothesis HPP : forall v, P v -> P' v.

  (** After a step: the zone goes on, or the compare_and_swap returns a guard to its caller. *)
  Definition cas_next (wr' : list (N * N)) (u : unwound) : Prop :=
    (exists l' stk, u = UStack l' stk /\ CasZ P' c a b tl wr' stk) \/
    (exists l' v d, u = unwind cf l' tl (RGuard v d) /\ CasRet P' a b wr' v) \/
    stops u.

  Lemma to_casload l v : rvok P' v -> cas_next [] (unwind cf l (WCasLoad c a b :: tl) v).
  Proof.
    intros Hv. rewrite unwind_land by reflexivity.
    destruct v as [| |p d| |]; cbn [resume fst snd]; try (right; right; exact I).
    destruct (p =? a) eqn:E; cbn [fst snd].
    - left. exists l, (K1 c a b p d :: tl). split; [reflexivity|]. apply N.eqb_eq in E. subst p. constructor.
    - apply N.eqb_neq in E. assert (HP : P' p) by (apply Hv; reflexivity).
      unfold dec_then. destruct (b =? 0); cbn [land].
      + right. left. exists l, p, d. split; [reflexivity|]. left. auto.
      + left. exists l, (PDec b (RGuard p d) :: tl). split; [reflexivity|]. constructor; assumption.
  Qed.

  Lemma to_caspaid l d v : cas_next [(a, b)] (unwind cf l (WCasPaid a d :: tl) v).
  Proof.
    rewrite unwind_land by reflexivity. rewrite cas_success_return. cbn [fst snd].
    unfold dec_then. destruct (a =? 0); cbn [land].
    - right. left. exists l, a, d. split; [reflexivity|]. right. auto.
    - left. exists l, (PDec a (RGuard a d) :: tl). split; [reflexivity|]. constructor.
  Qed.

  Lemma to_casretry l v : cas_next [] (unwind cf l (WCasRetry c a b :: tl) v).
  Proof.
    rewrite unwind_land by reflexivity.
    assert (E : resume cf l (WCasRetry c a b) v =
                match enter_load cf l c with
                | inl (l', frames) => (l', NPush frames (WCasLoad c a b))
                | inr ps => (l, NPanic ps)
                end) by (destruct v; reflexivity).
    rewrite E. destruct (enter_load cf l c) as [[l' fs]|ps] eqn:Hel; cbn [fst snd land].
    - left. exists l', (fs ++ WCasLoad c a b :: tl). split; [reflexivity|]. constructor.
      eapply enter_load_lfv. exact Hel.
    - right. right. exact I.
  Qed.
End CasStep.

Section CasStep2.
  Variables (cf : config) (P P' : N -> Prop) (c a b : N) (tl : list pc).
  Hypothesis HPP : forall v, P v -> P' v.
  Local Notation cnext := (cas_next cf P' c a b tl).

  Lemma casz_step s l p rest x s1 l1 evs nx wr :
    CasZ P c a b tl wr (p :: rest) -> is_waiting p = false ->
    exec cf s l p x = (s1, l1, evs, nx) ->
    (wr = [] -> lfr p = true -> vok P p -> nx_lfv P' nx) ->
    cnext (wr ++ writes_in c evs) (land cf l1 rest nx).
  Proof.
    intros Z Hnw He Hld. remember (p :: rest) as stk eqn:Es.
    destruct Z as [fs HF|d|f Hd|v d Hva HPv|fs d HF|d].
    - (* the internal load *)
      destruct (lfr_not_waiting_split _ _ _ _ _ _ (eq_sym Es) Hnw eq_refl HF) as (fs' & -> & -> & Hp & HF').
      rewrite (exec_nowrite _ _ _ _ _ _ _ _ _ c He (pf_not_wfr _ (lfr_pf _ (proj1 Hp)))). cbn [app].
      assert (HF2 : Forall (lfv P') fs') by (eapply Forall_impl; [|exact HF']; intros f; apply lfv_mono; exact HPP).
      destruct (land_zone cf (lfv P') (rvok P') (lfv_not_bottom P') (lfv_res cf P') (WCasLoad c a b) tl fs' l1 nx HF2
                  (Hld eq_refl (proj1 Hp) (proj2 Hp))) as [(l' & fs2 & E & HF3)|[(l' & v' & Hv' & E)|Hst]].
      + left. exists l', (fs2 ++ WCasLoad c a b :: tl). split; [exact E|]. constructor. exact HF3.
      + rewrite E. apply to_casload. exact Hv'.
      + right. right. exact Hst.
    - (* the exchange *)
      injection Es as <- <-. exec_norm He; cbn.
      + rewrite N.eqb_refl. apply andb_prop in Heqb0 as [E _]. apply N.eqb_eq in E. rewrite E.
        left. exists t, (l0 ++ WCasPaid a d :: tl). split; [reflexivity|]. apply cz_paid. eapply enter_pay_pf. exact Heqp.
      + left. exists t, (l0 ++ WCasLoad c a b :: tl). split; [reflexivity|]. constructor. eapply enter_load_lfv. eassumption.
      + right. right. exact I.
      + left. eexists l, _. split; [reflexivity|].
        unfold guard_drop_frames in Heql0. destruct d as [sl|]; [|destruct (a =? 0)]; try discriminate;
          injection Heql0 as <- <-; apply cz_drop; reflexivity.
    - (* the guard is dropped after a failed exchange *)
      injection Es as <- <-. rewrite (exec_nowrite _ _ _ _ _ _ _ _ _ c He) by (destruct f; try discriminate Hd; reflexivity).
      cbn [app]. destruct f; try discriminate Hd; [destruct r; try discriminate Hd|]; exec_norm He; cbn [land].
      + apply to_casretry.
      + right. right. exact I.
      + apply to_casretry.
      + unfold dec_then. destruct (p =? 0); cbn [land]; [apply to_casretry|].
        left. eexists l, _. split; [reflexivity|]. apply cz_drop. reflexivity.
    - (* [new] is released, the loaded guard is returned *)
      injection Es as <- <-. rewrite (exec_nowrite _ _ _ _ _ _ _ _ _ c He) by reflexivity.
      cbn [app]. exec_norm He; cbn [land].
      + right. left. exists l, v, d. split; [reflexivity|]. left. auto.
      + right. right. exact I.
    - (* pay_all *)
      destruct (lfr_not_waiting_split _ _ _ _ _ _ (eq_sym Es) Hnw eq_refl HF) as (fs' & -> & -> & Hp & HF').
      rewrite (exec_nowrite _ _ _ _ _ _ _ _ _ c He (pf_not_wfr _ Hp)). cbn [app].
      assert (Hnx : nx_in PF (fun _ => True) nx) by (split; [eapply exec_pf; eassumption|auto]).
      destruct (land_zone cf PF (fun _ => True) payfr_not_bottom (pf_res cf) (WCasPaid a d) tl fs' l1 nx HF' Hnx)
        as [(l' & fs2 & E & HF3)|[(l' & v' & _ & E)|Hst]].
      + left. exists l', (fs2 ++ WCasPaid a d :: tl). split; [exact E|]. apply cz_paid. exact HF3.
      + rewrite E. apply to_caspaid.
      + right. right. exact Hst.
    - (* the storage's reference is released, the guard on [current] is returned *)
      injection Es as <- <-. rewrite (exec_nowrite _ _ _ _ _ _ _ _ _ c He) by reflexivity.
      cbn [app]. exec_norm He; cbn [land].
      + right. left. exists l, a, d. split; [reflexivity|]. right. auto.
      + right. right. exact I.
  Qed.
End CasStep2.

(** After the exchange has succeeded the zone no longer depends on the freshness predicate. *)
Lemma CasZ_written (P Q : N -> Prop) c a b tl wr stk : wr <> [] -> CasZ P c a b tl wr stk -> CasZ Q c a b tl wr stk.
Proof. intros Hw Z. destruct Z; try congruence; constructor; assumption. Qed.

(** While nothing is written the top frame starts neither a command nor a helper's load. *)
Lemma CasZ_not_start P c a b tl s t p rest :
  CasZ P c a b tl [] (p :: rest) -> is_waiting p = false -> t_stack (thr s t) = p :: rest -> starts_now s t = false.
Proof.
  intros Z Hnw Hs. unfold starts_now. rewrite Hs. destruct (t_status (thr s t)); try reflexivity.
  remember (p :: rest) as stk eqn:Es. remember (@nil (N * N)) as wr eqn:Ew.
  destruct Z as [fs HF|d|f Hd|v d Hva HPv|fs d HF|d]; try discriminate Ew.
  - destruct (lfr_not_waiting_split _ _ _ _ _ _ (eq_sym Es) Hnw eq_refl HF) as (fs' & -> & -> & [Hp _] & _).
    destruct p; try discriminate Hp; reflexivity.
  - injection Es as <- <-. reflexivity.
  - injection Es as <- <-. destruct f; try discriminate Hd; reflexivity.
  - injection Es as <- <-. reflexivity.
Qed.

(** The zone ends with its tail. *)
Lemma CasZ_tail P c a b tl wr stk : CasZ P c a b tl wr stk -> exists pre, stk = pre ++ tl /\ pre <> [].
Proof.
  intros Z. destruct Z.
  - exists (fs ++ [WCasLoad c a b]). rewrite <- app_assoc. split; [reflexivity|]. destruct fs; discriminate.
  - exists [K1 c a b a d]. split; [reflexivity|discriminate].
  - exists [f; WCasRetry c a b]. split; [reflexivity|discriminate].
  - exists [PDec b (RGuard v d)]. split; [reflexivity|discriminate].
  - exists (fs ++ [WCasPaid a d]). rewrite <- app_assoc. split; [reflexivity|]. destruct fs; discriminate.
  - exists [PDec a (RGuard a d)]. split; [reflexivity|discriminate].
Qed.

(** While nothing is written, a load frame on top belongs to the internal load. *)
Lemma CasZ_load_top P c a b tl p rest :
  CasZ P c a b tl [] (p :: rest) -> is_waiting p = false -> lfr p = true -> In (WCasLoad c a b) rest.
Proof.
  intros Z Hnw Hl. remember (p :: rest) as stk eqn:Es. remember (@nil (N * N)) as wr eqn:Ew.
  destruct Z as [fs HF|d|f Hd|v d Hva HPv|fs d HF|d]; try discriminate Ew.
  - destruct (lfr_not_waiting_split _ _ _ _ _ _ (eq_sym Es) Hnw eq_refl HF) as (fs' & -> & -> & _).
    apply in_or_app. right. left. reflexivity.
  - injection Es as <- <-. discriminate Hl.
  - injection Es as <- <-. destruct f; try discriminate Hd; try discriminate Hl. destruct r; discriminate.
  - injection Es as <- <-. discriminate Hl.
Qed.
