(** * ASModel.LinCas4 — C05: the zone of a compare_and_swap in instrumented states; it is preserved
    by the frame step of the acting thread (or the compare_and_swap returns), and by the steps of
    the other threads. *)
From Coq Require Import Lia.
From ASModel Require Import Base State Orderings_gen Step Run Progress Hist Inv InvTl InvProto InvStep Sum StepCases
  GenDefs Gen1 Gen2 Gen3 Gen Typed1 EnvDefs LinDefs
  Lin1 Lin2 Lin3 Lin4 Lin5 Lin6 Lin7 Lin8 Lin9 Lin10 Lin11 Lin12 Lin13 Lin14 LinCache1 LinCache2 LinCache3
  LinCas1 LinCas2 LinCas3.

(** The stack of thread [t] is a zone of compare_and_swap([a], [b]) on [c] above [tl]; the values
    of its load frames were current in [c] after the thread's current command started; so is the
    envelope a top [LH7] frame of the internal load is about to read. *)
Definition CasAt (s : state) (g : ghost) (t c a b : N) (tl : list pc) (wr : list (N * N)) : Prop :=
  CasZ (PC g t c) c a b tl wr (t_stack (thr s t)) /\
  (wr = [] -> forall cand e rest, t_stack (thr s t) = LH7 cand e :: rest -> PC g t c (mem (sh s) (LEnv e))).

Section Step.
  Variables (cf : config) (s : state) (g : ghost) (t x : N).
  Hypotheses (W : WF2 s) (Hcalm : Calm s) (Q : Quiet s) (GI : GenInv s) (EF : EnvFree s)
             (Hnf : NoFault (fst (step cf s t x))).
  Hypotheses (LI : LinInv2 s g).
  Local Notation s' := (fst (step cf s t x)).
  Local Notation g' := (snd (gstep cf (s, g) t x)).
  Variables (c a b : N) (tl : list pc).

  (** A load frame of the internal load: what it hands on is fresh. *)
  Lemma cas_pre p rest s1 l1 evs nx :
    t_status (thr s t) = Running -> t_stack (thr s t) = p :: rest ->
    exec cf (sh s) (t_loc (thr s t)) p x = (s1, l1, evs, nx) ->
    s' = mkState s1 (upd (thr s) t (thread_after cf (thr s t) l1 rest nx)) (hnd_after cf (hnd s) l1 rest nx) ->
    In (WCasLoad c a b) rest ->
    (forall cand e rest0, p :: rest = LH7 cand e :: rest0 -> PC g t c (mem (sh s) (LEnv e))) ->
    lfr p = true -> vok (PC g t c) p ->
    nx_lfv (PC g' t c) nx.
  Proof.
    intros Hr Hs He E Hin H7 Hl Hv.
    pose proof (lfr_not_start p s t rest Hl Hs) as Hst.
    assert (Hm : forall v, PC g t c v -> PC g' t c v) by (intros v; apply (PC_same cf s g t x LI); exact Hst).
    assert (Hcont : forall c0, pc_cont p = Some c0 -> c0 = c).
    { intros c0 Hc0. apply (l2_pair _ _ LI t p (WCasLoad c a b) c0 c); [rewrite Hs; left; reflexivity|rewrite Hs; right; exact Hin|exact Hc0|reflexivity]. }
    eapply exec_lfv; [exact He|exact Hl| | | |].
    - intros v Hv0. apply Hm. apply Hv. exact Hv0.
    - intros c0 gt Hp. assert (c0 = c) as -> by (apply Hcont; rewrite Hp; reflexivity).
      apply (fresh_now cf s g t x (l2_fresh _ _ LI) c). rewrite E. cbn [sh]. rewrite Hp in He. eapply exec_lh3_same. exact He.
    - intros c0 v j Hp. assert (c0 = c) as -> by (apply Hcont; rewrite Hp; reflexivity).
      apply (fresh_now cf s g t x (l2_fresh _ _ LI) c). rewrite E. cbn [sh]. rewrite Hp in He. eapply exec_la4_same. exact He.
    - intros cand e Hp. apply Hm. eapply H7. rewrite Hp. reflexivity.
  Qed.

  (** The envelope an [LH7] frame created by this step will read holds an answer to the request
      the thread published after its command started. *)
  Lemma cas_to7 p rest s1 l1 evs nx cand e rest' :
    t_status (thr s t) = Running -> t_stack (thr s t) = p :: rest ->
    exec cf (sh s) (t_loc (thr s t)) p x = (s1, l1, evs, nx) ->
    s' = mkState s1 (upd (thr s) t (thread_after cf (thr s t) l1 rest nx)) (hnd_after cf (hnd s) l1 rest nx) ->
    (forall c0 gt cand0, p = LH5 c0 gt cand0 -> c0 = c) ->
    starts_now s t = false ->
    t_stack (thread_after cf (thr s t) l1 rest nx) = LH7 cand e :: rest' ->
    PC g' t c (mem (sh s') (LEnv e)).
  Proof.
    intros Hr Hs He E Hcont Hst Hstk.
    destruct LI as [LF CA CP LB ZV PF0 HF AN].
    destruct (ex_settle cf s t x W Hnf p rest s1 l1 evs nx Hr Hs He) as [Hns Hset].
    pose proof (settle_top7 _ _ _ _ _ _ _ _ _ _ Hset Hstk) as Hhd.
    assert (Hin : In (LH7 cand e) (nx_frames nx)).
    { destruct (nx_frames nx); [discriminate|]. injection Hhd as ->. left. reflexivity. }
    destruct (exec_to7 _ _ _ _ _ _ _ _ _ _ _ He Hns Hin) as (c0 & gt & Hp5 & Hne & He').
    pose proof He as He5. pose proof Hs as Hs5. rewrite Hp5 in He5, Hs5.
    assert (c0 = c) as -> by (eapply Hcont; exact Hp5).
    destruct (exec_lh5 _ _ _ _ _ _ _ _ _ _ _ He5 Hns) as [[Hx _]|[_ Hnx]]; [contradiction|].
    destruct (running_node s t _ _ W Hr Hs5 eq_refl) as (n & Hn & Hown & Hhold & Howner).
    rewrite Hown in *.
    pose proof (w_top _ W t n Hr Hhold) as Ht. rewrite Hs5 in Ht. cbn in Ht.
    destruct Ht as ([Hc|(e0 & _ & Hc)] & _); [contradiction|].
    assert (Htag : N.land (mem (sh s) (LCtrl n)) TAG_MASK = REPLACEMENT_TAG) by (rewrite Hc; apply env_val_land).
    assert (Hreq : req_of (thr s t) = Some (c, gt)) by (unfold req_of; rewrite Hs5; reflexivity).
    pose proof (AN n t c gt Howner Hreq Htag) as Ha. rewrite <- He' in Ha.
    assert (Hp : (g_pub g n >= g_start g t)%nat) by (apply (PF0 t n Hr Howner); congruence).
    rewrite E. cbn [sh]. rewrite (exec_lh5_env _ _ _ _ _ _ _ _ _ _ _ e He5).
    unfold PC. rewrite (g_start_same cf s g t x Hst t).
    pose proof (g_lt_mono cf s g t x LF c (mem (sh s) (LEnv e))). lia.
  Qed.

  Lemma cas_exec p rest s1 l1 evs nx wr :
    t_status (thr s t) = Running -> t_stack (thr s t) = p :: rest ->
    exec cf (sh s) (t_loc (thr s t)) p x = (s1, l1, evs, nx) ->
    s' = mkState s1 (upd (thr s) t (thread_after cf (thr s t) l1 rest nx)) (hnd_after cf (hnd s) l1 rest nx) ->
    CasAt s g t c a b tl wr ->
    (CasAt s' g' t c a b tl (wr ++ writes_in c evs) \/
     exists l' v d, land cf l1 rest nx = unwind cf l' tl (RGuard v d) /\
                    CasRet (PC g' t c) a b (wr ++ writes_in c evs) v) /\
    (wr ++ writes_in c evs = [] -> starts_now s t = false).
  Proof.
    intros Hr Hs He E [Z H7]. rewrite Hs in Z.
    destruct (ex_top s t W p rest Hr Hs) as [Hnw _].
    pose proof (land_cases cf s t x p rest s1 l1 evs nx W Hnf Hr Hs He) as Hlc.
    pose proof (ex_thr cf s t x rest s1 l1 nx E) as Et.
    destruct wr as [|w0 wr0].
    - pose proof (CasZ_not_start _ _ _ _ _ s t p rest Z Hnw Hs) as Hst.
      assert (Hm : forall v, PC g t c v -> PC g' t c v) by (intros v; apply (PC_same cf s g t x LI); exact Hst).
      assert (H7' : forall cand e rest0, p :: rest = LH7 cand e :: rest0 -> PC g t c (mem (sh s) (LEnv e))).
      { intros cand e rest0 Hp. apply (H7 eq_refl cand e rest0). rewrite Hs. exact Hp. }
      assert (Hld : @nil (N * N) = [] -> lfr p = true -> vok (PC g t c) p -> nx_lfv (PC g' t c) nx).
      { intros _ Hl Hv. eapply cas_pre; try eassumption. eapply CasZ_load_top; eassumption. }
      split; [|intros _; exact Hst].
      destruct (casz_step cf (PC g t c) (PC g' t c) c a b tl Hm (sh s) (t_loc (thr s t)) p rest x s1 l1 evs nx [] Z Hnw He Hld)
        as [(l' & stk & EL & Z')|[(l' & v & d & EL & HR)|Hstop]].
      + left. destruct (land_stack cf (thr s t) l1 rest nx l' stk (hnd s) EL) as [Eth _].
        split; [rewrite Et, Eth; exact Z'|].
        intros Hwr' cand e rest' Hstk. rewrite Et in Hstk.
        eapply cas_to7; try eassumption.
        intros c0 gt cand0 Hp.
        assert (Hin : In (WCasLoad c a b) rest) by (eapply CasZ_load_top; [exact Z|exact Hnw|rewrite Hp; reflexivity]).
        apply (l2_pair _ _ LI t p (WCasLoad c a b) c0 c); [rewrite Hs; left; reflexivity|rewrite Hs; right; exact Hin|rewrite Hp; reflexivity|reflexivity].
      + right. eauto.
      + exfalso. destruct (land cf l1 rest nx); contradiction.
    - split; [|intros Hx; discriminate Hx].
      assert (Z2 : CasZ (PC g' t c) c a b tl (w0 :: wr0) (p :: rest)) by (eapply CasZ_written; [discriminate|exact Z]).
      assert (Hld : w0 :: wr0 = [] -> lfr p = true -> vok (PC g' t c) p -> nx_lfv (PC g' t c) nx) by (intros Hx; discriminate Hx).
      destruct (casz_step cf (PC g' t c) (PC g' t c) c a b tl (fun v H => H) (sh s) (t_loc (thr s t)) p rest x s1 l1 evs nx _ Z2 Hnw He Hld)
        as [(l' & stk & EL & Z')|[(l' & v & d & EL & HR)|Hstop]].
      + left. destruct (land_stack cf (thr s t) l1 rest nx l' stk (hnd s) EL) as [Eth _].
        split; [rewrite Et, Eth; exact Z'|]. intros Hx. discriminate Hx.
      + right. eauto.
      + exfalso. destruct (land cf l1 rest nx); contradiction.
  Qed.

  (** The steps of the other threads. *)
  Lemma cas_other t' wr : t' <> t -> CasAt s g t' c a b tl wr -> CasAt s' g' t' c a b tl wr.
  Proof.
    intros Hne [Z H7]. pose proof (other_thr cf s t x t' Hne) as Ht. unfold CasAt. rewrite Ht. split.
    - eapply CasZ_mono; [|exact Z]. intros v. apply (PC_other cf s g t x LI); exact Hne.
    - intros Hwr cand e rest Hs7. rewrite (env_stable cf s t x W Q EF t' cand e rest Hne Hs7).
      apply (PC_other cf s g t x LI); [exact Hne|]. eapply H7; eassumption.
  Qed.
End Step.

(** ** The command start *)
Lemma cmd_start_cas cf s l c cur new h2 a b s1 l1 stk r P :
  cmd_start cf s l (CCas c cur new h2) = inl (s1, l1, stk, r) ->
  src_val s cur = Some a -> src_val s new = Some b ->
  CasZ P c a b [KDone (Some h2)] [] stk /\ sh s1 = sh s.
Proof.
  intros Hc Ha Hb. cbn in Hc. rewrite Ha, Hb in Hc.
  destruct (enter_load cf l c) as [[l2 fs]|ps] eqn:He; [|discriminate].
  injection Hc as <- <- <- <-. split.
  - replace (fs ++ [WCasLoad c a b; KDone (Some h2)]) with (fs ++ WCasLoad c a b :: [KDone (Some h2)]) by reflexivity.
    constructor. eapply enter_load_lfv. exact He.
  - destruct new; reflexivity.
Qed.
