(** * ASModel.LinCas5 — C05: along a run, the stack of a running [CCas] command is a
    compare_and_swap zone above [KDone]; [wsum] collects the write events of the thread on the
    storage of the container since the command started. *)
From Coq Require Import Lia.
From ASModel Require Import Base State Orderings_gen Step Run Progress Hist Inv InvTl InvProto InvStep Sum StepCases
  GenDefs Gen1 Gen2 Gen3 Gen Typed1 EnvDefs LinDefs
  Lin1 Lin2 Lin3 Lin4 Lin5 Lin6 Lin7 Lin8 Lin9 Lin10 Lin11 Lin12 Lin13 Lin14 Lin
  LinCache1 LinCache2 LinCache3 LinCache4 LinCache5 LinCache6 LinCache Env
  LinCas1 LinCas2 LinCas3 LinCas4.

Section Writes.
  Variables (cf : config) (s0 : state) (sched : list (N * N)).
  Local Notation St k := (run_state cf s0 (firstn k sched)).

  (** The write events of thread [t] on the storage of [c] in step [j] of the schedule ... *)
  Definition step_w (t c : N) (j : nat) : list (N * N) :=
    match nth_error sched j with
    | Some (t', x) => if t' =? t then writes_in c (snd (step cf (St j) t' x)) else []
    | None => []
    end.

  (** ... and in the steps [lo], ..., [lo + n - 1]. *)
  Fixpoint wsum (t c : N) (lo n : nat) : list (N * N) :=
    match n with 0%nat => [] | S n' => wsum t c lo n' ++ step_w t c (lo + n') end.

  Lemma wsum_nil t c lo : forall n, wsum t c lo n = [] -> forall j, (lo <= j < lo + n)%nat -> step_w t c j = [].
  Proof.
    induction n as [|n IH]; intros H j Hj; [lia|]. cbn in H. apply app_eq_nil in H as [H1 H2].
    destruct (Nat.eq_dec j (lo + n)%nat) as [->|Hne]; [exact H2|]. apply IH; [exact H1|lia].
  Qed.

  Lemma wsum_one t c lo w : forall n, wsum t c lo n = [w] ->
    exists j, (lo <= j < lo + n)%nat /\ step_w t c j = [w] /\
              forall j', (lo <= j' < lo + n)%nat -> j' <> j -> step_w t c j' = [].
  Proof.
    induction n as [|n IH]; intros H; [discriminate H|]. cbn in H.
    destruct (wsum t c lo n) as [|w1 r1] eqn:E1.
    - cbn in H. exists (lo + n)%nat. split; [lia|]. split; [exact H|].
      intros j' Hj' Hne. apply (wsum_nil t c lo n E1). lia.
    - destruct r1; [|destruct r1; discriminate H]. cbn in H.
      assert (H2 : step_w t c (lo + n) = []) by (destruct (step_w t c (lo + n)); [reflexivity|discriminate H]).
      rewrite H2 in H. injection H as ->.
      destruct (IH eq_refl) as (j & Hj & Hw & Hoth). exists j. split; [lia|]. split; [exact Hw|].
      intros j' Hj' Hne. destruct (Nat.eq_dec j' (lo + n)%nat) as [->|Hn]; [exact H2|]. apply Hoth; [lia|exact Hne].
  Qed.

  Lemma step_w_inv t c j w ws : step_w t c j = w :: ws ->
    exists x, nth_error sched j = Some (t, x) /\ writes_in c (snd (step cf (St j) t x)) = w :: ws.
  Proof.
    unfold step_w. destruct (nth_error sched j) as [[t' x]|]; [|discriminate].
    destruct (N.eqb_spec t' t) as [->|Hne]; [|discriminate]. eauto.
  Qed.
End Writes.

(** A step whose only write event on the storage of [c] is [(a, b)] replaces [a] by [b]. *)
Lemma write_mem cf s t x c a b :
  writes_in c (snd (step cf s t x)) = [(a, b)] ->
  mem (sh s) (LStore c) = a /\ mem (sh (fst (step cf s t x))) (LStore c) = b.
Proof.
  intros Hw. destruct (step_store_effect cf s t x c) as [[[_ H]|H]|(_ & Hs & _)].
  - rewrite H in Hw. discriminate Hw.
  - rewrite H in Hw. injection Hw as <- <-. auto.
  - rewrite (step_writes_idle cf s t x c) in Hw by (right; exact Hs). discriminate Hw.
Qed.

(** The write events of a step are in the trace of the run. *)
Lemma writes_of_trace_in cf c : forall sched s j t x w,
  nth_error sched j = Some (t, x) ->
  In w (writes_in c (snd (step cf (run_state cf s (firstn j sched)) t x))) ->
  In (t, fst w, snd w) (writes_of_trace c (snd (run cf s sched))).
Proof.
  induction sched as [|[t0 x0] sched IH]; intros s j t x w Hn Hin; [destruct j; discriminate Hn|].
  cbn [run]. destruct (step cf s t0 x0) as [s1 evs] eqn:Hs. destruct (run cf s1 sched) as [s2 tr] eqn:Hr.
  cbn [snd writes_of_trace]. apply in_or_app. destruct j as [|j].
  - left. injection Hn as -> ->. cbn in Hin. rewrite Hs in Hin. cbn in Hin.
    apply (in_map (fun w0 => (t, fst w0, snd w0))) in Hin. exact Hin.
  - right. cbn [nth_error] in Hn. cbn [firstn] in Hin. rewrite run_state_cons, Hs in Hin. cbn [fst] in Hin.
    specialize (IH s1 j t x w Hn Hin). rewrite Hr in IH. exact IH.
Qed.
