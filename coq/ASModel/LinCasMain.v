(** * ASModel.LinCasMain — C05 under [Main.RunOK]: the hypotheses [GenBound] in every prefix state
    and [NoFault] of the final state of [LinCas.cas_linearizable_bound] follow from [RunOK]
    ([Main.C01_no_use_after_free]). *)
From Coq Require Import Lia.
From ASModel Require Import Base State Orderings_gen Step Run Progress Hist Inv InvTl InvProto InvStep Sum StepCases
  GenDefs Gen LinCas5 LinCas Main.

Theorem cas_linearizable_runok cf inits progs sched t i c cur new h2 a b pa pb xa tb xb :
  let s0 := init_state inits progs in
  let St := fun k => run_state cf s0 (firstn k sched) in
  RunOK cf inits progs sched ->
  (forall p, In p progs -> forall g, ~ In (CSetGen g) p) ->
  nth_error (t_prog (thr s0 t)) (N.to_nat i) = Some (CCas c cur new h2) ->
  (pa <= pb)%nat ->
  nth_error sched pa = Some (t, xa) ->
  t_status (thr (St pa) t) = Running -> t_stack (thr (St pa) t) = [] -> t_cmdi (thr (St pa) t) = i ->
  cmd_enabled (St pa) (CCas c cur new h2) = true ->
  src_val (St pa) cur = Some a -> src_val (St pa) new = Some b ->
  nth_error sched pb = Some (tb, xb) ->
  t_cmdi (thr (St pb) t) = i -> t_cmdi (thr (St (S pb)) t) = i + 1 ->
  exists p d, hnd (St (S pb)) h2 = HGuard p d /\
    ((p <> a /\
      (exists j, (pa + 1 <= j <= pb + 1)%nat /\ mem (sh (St j)) (LStore c) = p) /\
      no_write cf s0 sched t c pa pb)
     \/ (p = a /\ exists j, one_write cf s0 sched t c a b pa pb j)).
Proof.
  intros s0 St0 R Hp. subst s0 St0. cbn beta.
  apply (cas_linearizable_bound cf inits progs sched t i c cur new h2 a b pa pb xa tb xb Hp).
  - intros j. exact (proj1 (ro_state _ _ _ _ R j)).
  - exact (proj1 (C01_no_use_after_free cf inits progs sched R)).
Qed.

Print Assumptions cas_linearizable_runok.

From ASModel Require Import LinCasR1 LinCasR4 LinCasRcu.

Theorem rcu_linearizable_runok cf inits progs sched t i c m h2 pa pb xa tb xb :
  let s0 := init_state inits progs in
  let St := fun k => run_state cf s0 (firstn k sched) in
  RunOK cf inits progs sched ->
  (forall p, In p progs -> forall g, ~ In (CSetGen g) p) ->
  nth_error (t_prog (thr s0 t)) (N.to_nat i) = Some (CRcu c m h2) -> nonpanic m = true ->
  (pa <= pb)%nat ->
  nth_error sched pa = Some (t, xa) ->
  t_status (thr (St pa) t) = Running -> t_stack (thr (St pa) t) = [] -> t_cmdi (thr (St pa) t) = i ->
  nth_error sched pb = Some (tb, xb) ->
  t_cmdi (thr (St pb) t) = i -> t_cmdi (thr (St (S pb)) t) = i + 1 ->
  exists q nw j, hnd (St (S pb)) h2 = HOwned q /\
    one_write cf s0 sched t c q nw pa pb j /\
    rcu_new (made_to cf inits progs sched t pa (S pb)) m q nw.
Proof.
  intros s0 St0 R Hp. subst s0 St0. cbn beta.
  apply (rcu_linearizable_bound cf inits progs sched t i c m h2 pa pb xa tb xb Hp).
  - intros j. exact (proj1 (ro_state _ _ _ _ R j)).
  - exact (proj1 (C01_no_use_after_free cf inits progs sched R)).
Qed.

Print Assumptions rcu_linearizable_runok.
