(** * ASModel.LinCasR1 — C06: the zone of an [rcu] (mode [m], not a panicking one).

    Above a tail [tl] (the bottom frame [KDone] of a [CRcu] command) the stack of [rcu] on [c] is
    - frames of the first load above [WRcuLoad c m]                             (nothing written),
    - the closure frame [RAlloc c m p d] / [RInc c m p d] of an attempt on [p]   (nothing written),
    - a compare_and_swap zone ([LinCas3.CasZ]) of (current = [p], new = [nw]) above
      [WRcuCas c m p d], where [nw] is what the closure made from [p] ([rcu_new]),
    - the drop of the old guard above [WRcuNext c m q dq] after a failed attempt (nothing written),
    - after the successful attempt on [q] (exactly [(q, nw)] was written): [Guard::into_inner]
      above [WRcuInto q d], then the drop of the closure's guard above [WRcuRet q].
    [Made v]: the closure allocated [v] in some earlier step of this command. *)
From Coq Require Import Lia.
From ASModel Require Import Base State Orderings_gen Step Run Progress Hist Inv InvTl InvProto InvStep Sum StepCases
  GenDefs Gen1 Gen2 Typed1 EnvDefs LinDefs Lin1 Lin3 LinCas1 LinCas2 LinCas3.

Definition nonpanic (m : rcu_mode) : bool := match m with RcuPanicAt _ => false | _ => true end.

(** What the closure makes from [p] in mode [m]. *)
Definition rcu_new (Made : N -> Prop) (m : rcu_mode) (p nw : N) : Prop :=
  match m with RcuNull => nw = 0 | RcuSame => nw = p | RcuNew => Made nw | RcuPanicAt _ => False end.

Definition T : N -> Prop := fun _ => True.

(** Frames of [Guard::into_inner] of a guard on [q]: they return [ROwned q]. *)
Definition intofr (q : N) (f : pc) : Prop :=
  match f with GI1 v _ | GI2 v _ | PDec _ (ROwned v) => v = q | _ => False end.

Definition clofr (c : N) (m : rcu_mode) (p : N) (d : option slot) (f : pc) : Prop :=
  (f = RAlloc c m p d /\ m = RcuNew) \/ (f = RInc c m p d /\ m = RcuSame).

Inductive RcuZ (Made : N -> Prop) (m : rcu_mode) (c : N) (tl : list pc) : list (N * N) -> list pc -> Prop :=
| rz_load fs : Forall (lfv T) fs -> RcuZ Made m c tl [] (fs ++ WRcuLoad c m :: tl)
| rz_clo f p d : clofr c m p d f -> RcuZ Made m c tl [] (f :: tl)
| rz_cas p d nw wr stk :
    rcu_new Made m p nw -> CasZ T c p nw (WRcuCas c m p d :: tl) wr stk -> RcuZ Made m c tl wr stk
| rz_next f q dq : dropfr f = true -> RcuZ Made m c tl [] (f :: WRcuNext c m q dq :: tl)
| rz_into f q d nw : rcu_new Made m q nw -> intofr q f -> RcuZ Made m c tl [(q, nw)] (f :: WRcuInto q d :: tl)
| rz_ret f q nw : rcu_new Made m q nw -> dropfr f = true -> RcuZ Made m c tl [(q, nw)] (f :: WRcuRet q :: tl).

Lemma rcu_new_mono (M M' : N -> Prop) m p nw : (forall v, M v -> M' v) -> rcu_new M m p nw -> rcu_new M' m p nw.
Proof. intros H. destruct m; cbn; auto. Qed.

Lemma RcuZ_mono (M M' : N -> Prop) m c tl wr stk :
  (forall v, M v -> M' v) -> RcuZ M m c tl wr stk -> RcuZ M' m c tl wr stk.
Proof.
  intros H Z. destruct Z; try (econstructor; eauto using rcu_new_mono; fail).
Qed.

Lemma RcuZ_tail M m c tl wr stk : RcuZ M m c tl wr stk -> exists pre, stk = pre ++ tl /\ pre <> [].
Proof.
  intros Z. destruct Z.
  - exists (fs ++ [WRcuLoad c m]). rewrite <- app_assoc. split; [reflexivity|]. destruct fs; discriminate.
  - exists [f]. split; [reflexivity|discriminate].
  - destruct (CasZ_tail _ _ _ _ _ _ _ H0) as (pre & -> & Hne). exists (pre ++ [WRcuCas c m p d]).
    rewrite <- app_assoc. split; [reflexivity|]. destruct pre; [congruence|discriminate].
  - exists [f; WRcuNext c m q dq]. split; [reflexivity|discriminate].
  - exists [f; WRcuInto q d]. split; [reflexivity|discriminate].
  - exists [f; WRcuRet q]. split; [reflexivity|discriminate].
Qed.

Lemma guard_drop_cases2 p d :
  guard_drop_frames p d = [] \/ exists f, guard_drop_frames p d = [f] /\ dropfr f = true.
Proof. unfold guard_drop_frames. destruct d; [|destruct (p =? 0)]; eauto. Qed.

Lemma guard_into_cases2 p d :
  guard_into_frames p d = [] \/ exists f, guard_into_frames p d = [f] /\ intofr p f.
Proof.
  unfold guard_into_frames. destruct d; [destruct (p =? 0)|]; [right..|left; reflexivity];
    eexists; (split; [reflexivity|reflexivity]).
Qed.
