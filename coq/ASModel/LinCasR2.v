(** * ASModel.LinCasR2 — C06: where an [rcu] zone goes when a value is handed to one of its
    waiting frames. *)
From Coq Require Import Lia.
From ASModel Require Import Base State Orderings_gen Step Run Progress Hist Inv InvTl InvProto InvStep Sum StepCases
  GenDefs Gen1 Gen2 Typed1 EnvDefs LinDefs Lin1 Lin3 LinCas1 LinCas2 LinCas3 LinCasR1.

Lemma rcu_attempt_cases cf l c m p d : nonpanic m = true ->
  (m = RcuNew /\ rcu_attempt cf l c m p d = (l, NGoto (RAlloc c m p d))) \/
  ((m = RcuNull \/ (m = RcuSame /\ p = 0)) /\
   rcu_attempt cf l c m p d =
     match enter_load cf l c with
     | inl (l', frames) => (l', NPush (frames ++ [WCasLoad c p 0]) (WRcuCas c m p d))
     | inr ps => (l, NPanic ps)
     end) \/
  (m = RcuSame /\ rcu_attempt cf l c m p d = (l, NGoto (RInc c m p d))).
Proof.
  intros Hm. destruct m; try discriminate Hm; cbn [rcu_attempt]; auto.
  destruct (p =? 0) eqn:Ep; auto. apply N.eqb_eq in Ep. auto 6.
Qed.

Section RcuStep.
  Variables (cf : config) (Made : N -> Prop) (m : rcu_mode) (c : N) (tl : list pc).
  Hypothesis Hm : nonpanic m = true.

  (** After a step: the zone goes on, or [rcu] returns the replaced value [q] to its caller, having
      written exactly [(q, nw)]. *)
  Definition rcu_next (wr' : list (N * N)) (u : unwound) : Prop :=
    (exists l' stk, u = UStack l' stk /\ RcuZ Made m c tl wr' stk) \/
    (exists l' q nw, u = unwind cf l' tl (ROwned q) /\ wr' = [(q, nw)] /\ rcu_new Made m q nw) \/
    stops u.

  Lemma next_mode : rcu_next_mode m = m.
  Proof. destruct m; try reflexivity. discriminate Hm. Qed.

  (** One attempt on [p]. *)
  Lemma to_attempt l p d :
    rcu_next [] (land cf (fst (rcu_attempt cf l c m p d)) tl (snd (rcu_attempt cf l c m p d))).
  Proof.
    assert (Hnull : forall nw, rcu_new Made m p nw ->
              rcu_next [] (land cf (fst (match enter_load cf l c with
                                         | inl (l', frames) => (l', NPush (frames ++ [WCasLoad c p nw]) (WRcuCas c m p d))
                                         | inr ps => (l, NPanic ps) end)) tl
                                   (snd (match enter_load cf l c with
                                         | inl (l', frames) => (l', NPush (frames ++ [WCasLoad c p nw]) (WRcuCas c m p d))
                                         | inr ps => (l, NPanic ps) end)))).
    { intros nw Hnw. destruct (enter_load cf l c) as [[l' fs]|ps] eqn:Hel; cbn [fst snd land]; [|right; right; exact I].
      left. exists l', ((fs ++ [WCasLoad c p nw]) ++ WRcuCas c m p d :: tl). split; [reflexivity|].
      apply (rz_cas Made m c tl p d nw); [exact Hnw|]. rewrite <- app_assoc. cbn [app]. constructor.
      eapply enter_load_lfv. exact Hel. }
    destruct (rcu_attempt_cases cf l c m p d Hm) as [[E ->]|[[Hc ->]|[E ->]]].
    - cbn [fst snd land]. left. exists l, (RAlloc c m p d :: tl). split; [reflexivity|].
      apply (rz_clo Made m c tl _ p d). left. auto.
    - apply Hnull. destruct Hc as [E|[E ->]]; rewrite E; reflexivity.
    - cbn [fst snd land]. left. exists l, (RInc c m p d :: tl). split; [reflexivity|].
      apply (rz_clo Made m c tl _ p d). right. auto.
  Qed.

  Lemma to_rcuload l v : rvok T v -> rcu_next [] (unwind cf l (WRcuLoad c m :: tl) v).
  Proof.
    intros _. rewrite unwind_land by reflexivity.
    destruct v as [| |p d| |]; cbn [resume]; try (right; right; exact I). apply to_attempt.
  Qed.

  Lemma to_rcunext l q dq v : rcu_next [] (unwind cf l (WRcuNext c m q dq :: tl) v).
  Proof.
    rewrite unwind_land by reflexivity.
    assert (E : resume cf l (WRcuNext c m q dq) v = rcu_attempt cf l c m q dq) by (destruct v; reflexivity).
    rewrite E. apply to_attempt.
  Qed.

  Lemma to_rcuret l q nw v : rcu_new Made m q nw -> rcu_next [(q, nw)] (unwind cf l (WRcuRet q :: tl) v).
  Proof.
    intros Hn. rewrite unwind_land by reflexivity.
    assert (E : resume cf l (WRcuRet q) v = (l, NRet (ROwned q))) by (destruct v; reflexivity).
    rewrite E. cbn [fst snd land]. right. left. exists l, q, nw. auto.
  Qed.

  (** The closure's guard [(p, d)] is dropped, then [q] is returned. *)
  Lemma drop_then_ret l p d q nw :
    rcu_new Made m q nw ->
    rcu_next [(q, nw)]
      (land cf l tl (match guard_drop_frames p d with [] => NRet (ROwned q) | fs => NPush fs (WRcuRet q) end)).
  Proof.
    intros Hn. destruct (guard_drop_cases2 p d) as [->|(f & -> & Hf)]; cbn [land].
    - right. left. exists l, q, nw. auto.
    - left. exists l, (f :: WRcuRet q :: tl). split; [reflexivity|]. apply (rz_ret Made m c tl f q nw); assumption.
  Qed.

  Lemma to_rcuinto l q d nw : rcu_new Made m q nw ->
    rcu_next [(q, nw)] (unwind cf l (WRcuInto q d :: tl) (ROwned q)).
  Proof.
    intros Hn. rewrite unwind_land by reflexivity. cbn [resume].
    pose proof (drop_then_ret l q d q nw Hn) as H.
    destruct (guard_drop_frames q d); exact H.
  Qed.

  (** The inner compare_and_swap of an attempt on [p] returns the guard [(q, dq)]. *)
  Lemma to_rcucas l p d nw wr q dq :
    rcu_new Made m p nw -> CasRet T p nw wr q ->
    rcu_next wr (unwind cf l (WRcuCas c m p d :: tl) (RGuard q dq)).
  Proof.
    intros Hn HR. rewrite unwind_land by reflexivity. cbn [resume]. rewrite next_mode.
    destruct HR as [(Hne & _ & ->)|[-> ->]].
    - apply N.eqb_neq in Hne. rewrite N.eqb_sym in Hne. rewrite Hne.
      destruct (guard_drop_cases2 p d) as [->|(f & -> & Hf)].
      + apply to_attempt.
      + cbn [fst snd land]. left. exists l, (f :: WRcuNext c m q dq :: tl). split; [reflexivity|].
        apply (rz_next Made m c tl f q dq). exact Hf.
    - rewrite N.eqb_refl.
      destruct (guard_into_cases2 p dq) as [->|(f & -> & Hf)].
      + pose proof (drop_then_ret l p d p nw Hn) as H. destruct (guard_drop_frames p d); exact H.
      + cbn [fst snd land]. left. exists l, (f :: WRcuInto p d :: tl). split; [reflexivity|].
        apply (rz_into Made m c tl f p d nw); assumption.
  Qed.
End RcuStep.
