(** * ASModel.LinCasR3 — C06: the frame step of a thread inside an [rcu] zone. *)
From Coq Require Import Lia.
From ASModel Require Import Base State Orderings_gen Step Run Progress Hist Inv InvTl InvProto InvStep Sum StepCases
  GenDefs Gen1 Gen2 Typed1 EnvDefs LinDefs Lin1 Lin3 LinCas1 LinCas2 LinCas3 LinCasR1 LinCasR2.

Lemma exec_lfv_T cf s l p x s' l' evs nx :
  exec cf s l p x = (s', l', evs, nx) -> lfr p = true -> nx_lfv T nx.
Proof.
  intros He Hl. eapply (exec_lfv T); [exact He|exact Hl| | | |]; try (intros; exact I).
  intros v _. exact I.
Qed.

Lemma lfv_T f : lfr f = true -> lfv T f.
Proof. intros H. split; [exact H|]. intros v _. exact I. Qed.

Lemma rc_alloc_ev s a s' evs : rc_alloc s a = Some (s', evs) -> exists oid, In (EvAlloc a oid) evs.
Proof.
  unfold rc_alloc. destruct (heap s a); [discriminate|]. destruct (valid_addr a); [|discriminate].
  intros [= <- <-]. eexists. left. reflexivity.
Qed.

Section RcuStep2.
  Variables (cf : config) (Made Made' : N -> Prop) (m : rcu_mode) (c : N) (tl : list pc).
  Hypothesis Hm : nonpanic m = true.
  Hypothesis HMM : forall v, Made v -> Made' v.
  Local Notation rnext := (rcu_next cf Made' m c tl).

  Lemma rcuz_step s l p rest x s1 l1 evs nx wr :
    RcuZ Made m c tl wr (p :: rest) -> is_waiting p = false ->
    exec cf s l p x = (s1, l1, evs, nx) ->
    (forall v oid, In (EvAlloc v oid) evs -> Made' v) ->
    rnext (wr ++ writes_in c evs) (land cf l1 rest nx).
  Proof.
    intros Z Hnw He Hal. remember (p :: rest) as stk eqn:Es.
    destruct Z as [fs HF|f p0 d Hclo|p0 d nw wr stk Hn Zc|f q dq Hd|f q d nw Hn Hi|f q nw Hn Hd].
    - (* the first load *)
      destruct (lfr_not_waiting_split _ _ _ _ _ _ (eq_sym Es) Hnw eq_refl HF) as (fs' & -> & -> & Hp & HF').
      rewrite (exec_nowrite _ _ _ _ _ _ _ _ _ c He (pf_not_wfr _ (lfr_pf _ (proj1 Hp)))). cbn [app].
      destruct (land_zone cf (lfv T) (rvok T) (lfv_not_bottom T) (lfv_res cf T) (WRcuLoad c m) tl fs' l1 nx HF'
                  (exec_lfv_T _ _ _ _ _ _ _ _ _ He (proj1 Hp))) as [(l' & fs2 & E & HF3)|[(l' & v' & Hv' & E)|Hst]].
      + left. exists l', (fs2 ++ WRcuLoad c m :: tl). split; [exact E|]. constructor. exact HF3.
      + rewrite E. apply to_rcuload; assumption.
      + right. right. exact Hst.
    - (* the closure *)
      injection Es as <- <-.
      destruct Hclo as [[-> Em]|[-> Em]]; rewrite (exec_nowrite _ _ _ _ _ _ _ _ _ c He) by reflexivity; cbn [app].
      + unfold exec in He. destruct (rc_alloc s x) as [[s2 e2]|] eqn:Hrc; [|injection He as <- <- <- <-; right; right; exact I].
        destruct (rc_alloc_ev _ _ _ _ Hrc) as (oid & Hin).
        destruct (enter_load cf l c) as [[l2 fs]|ps] eqn:Hel; injection He as <- <- <- <-; cbn [land]; [|right; right; exact I].
        left. exists l2, ((fs ++ [WCasLoad c p0 x]) ++ WRcuCas c m p0 d :: tl). split; [reflexivity|].
        apply (rz_cas Made' m c tl p0 d x); [rewrite Em; cbn; eapply Hal; exact Hin|].
        rewrite <- app_assoc. cbn [app]. constructor. eapply enter_load_lfv. exact Hel.
      + unfold exec in He. destruct (rc_inc s p0) as [[s2 e2]|] eqn:Hrc; [|injection He as <- <- <- <-; right; right; exact I].
        destruct (enter_load cf l c) as [[l2 fs]|ps] eqn:Hel; injection He as <- <- <- <-; cbn [land]; [|right; right; exact I].
        left. exists l2, ((fs ++ [WCasLoad c p0 p0]) ++ WRcuCas c m p0 d :: tl). split; [reflexivity|].
        apply (rz_cas Made' m c tl p0 d p0); [rewrite Em; reflexivity|].
        rewrite <- app_assoc. cbn [app]. constructor. eapply enter_load_lfv. exact Hel.
    - (* the inner compare_and_swap *)
      subst stk. pose proof (rcu_new_mono _ _ _ _ _ HMM Hn) as Hn'.
      assert (Hld : wr = [] -> lfr p = true -> vok T p -> nx_lfv T nx).
      { intros _ Hl _. eapply exec_lfv_T; eassumption. }
      destruct (casz_step cf T T c p0 nw (WRcuCas c m p0 d :: tl) (fun v H => H) s l p rest x s1 l1 evs nx wr Zc Hnw He Hld)
        as [(l' & stk & EL & Z')|[(l' & v & dd & EL & HR)|Hstop]].
      + left. exists l', stk. split; [exact EL|]. eapply rz_cas; eassumption.
      + rewrite EL. eapply to_rcucas; eassumption.
      + right. right. exact Hstop.
    - (* the old guard is dropped after a failed attempt *)
      injection Es as <- <-. rewrite (exec_nowrite _ _ _ _ _ _ _ _ _ c He) by (destruct f; try discriminate Hd; reflexivity).
      cbn [app]. destruct f; try discriminate Hd; [destruct r; try discriminate Hd|]; exec_norm He; cbn [land].
      + apply to_rcunext; assumption.
      + right. right. exact I.
      + apply to_rcunext; assumption.
      + unfold dec_then. destruct (p =? 0); cbn [land]; [apply to_rcunext; assumption|].
        left. eexists l, _. split; [reflexivity|]. apply rz_next. reflexivity.
    - (* Guard::into_inner of the returned guard *)
      pose proof (rcu_new_mono _ _ _ _ _ HMM Hn) as Hn'.
      injection Es as <- <-. rewrite (exec_nowrite _ _ _ _ _ _ _ _ _ c He) by (destruct f; try contradiction Hi; reflexivity).
      cbn [app]. destruct f; try contradiction Hi; [destruct r; try contradiction Hi| |]; cbn in Hi; subst;
        exec_norm He; cbn [land].
      + apply to_rcuinto; assumption.
      + right. right. exact I.
      + left. eexists l, _. split; [reflexivity|]. apply rz_into; [assumption|reflexivity].
      + right. right. exact I.
      + apply to_rcuinto; assumption.
      + unfold dec_then. destruct (q =? 0); cbn [land]; [apply to_rcuinto; assumption|].
        left. eexists l, _. split; [reflexivity|]. apply rz_into; [assumption|reflexivity].
    - (* the closure's guard is dropped *)
      pose proof (rcu_new_mono _ _ _ _ _ HMM Hn) as Hn'.
      injection Es as <- <-. rewrite (exec_nowrite _ _ _ _ _ _ _ _ _ c He) by (destruct f; try discriminate Hd; reflexivity).
      cbn [app]. destruct f; try discriminate Hd; [destruct r; try discriminate Hd|]; exec_norm He; cbn [land].
      + apply to_rcuret; assumption.
      + right. right. exact I.
      + apply to_rcuret; assumption.
      + unfold dec_then. destruct (p =? 0); cbn [land]; [apply to_rcuret; assumption|].
        left. eexists l, _. split; [reflexivity|]. apply rz_ret; [assumption|reflexivity].
  Qed.
End RcuStep2.
