(** * ASModel.LinCasR4 — C06: the zone of a [CRcu] command along a run. *)
From Coq Require Import Lia.
From ASModel Require Import Base State Orderings_gen Step Run Progress Hist Inv InvTl InvProto InvStep Sum StepCases
  GenDefs Gen1 Gen2 Gen3 Gen Typed1 EnvDefs LinDefs
  Lin1 Lin2 Lin3 Lin4 Lin5 Lin6 Lin7 Lin8 Lin9 Lin10 Lin11 Lin12 Lin13 Lin14 Lin
  LinCache1 LinCache2 LinCache3 LinCache4 LinCache5 LinCache6 LinCache Env
  LinCas1 LinCas2 LinCas3 LinCas4 LinCas5 LinCasR1 LinCasR2 LinCasR3.

(** The events of the frame step are events of the global step. *)
Lemma step_events_exec cf s t x p rest s1 l1 evs nx e :
  t_status (thr s t) = Running -> t_stack (thr s t) = p :: rest ->
  exec cf (sh s) (t_loc (thr s t)) p x = (s1, l1, evs, nx) ->
  In e evs -> In e (snd (step cf s t x)).
Proof.
  intros Hr Hs He Hin. unfold step. rewrite Hr, Hs, He. unfold finish.
  destruct nx; cbn [snd]; try exact Hin; try (apply in_or_app; left; exact Hin).
  destruct (unwind cf l1 rest v); cbn [snd]; try exact Hin; apply in_or_app; left; exact Hin.
Qed.

Lemma cmd_start_rcu cf s l c m h2 s1 l1 stk r M :
  cmd_start cf s l (CRcu c m h2) = inl (s1, l1, stk, r) -> RcuZ M m c [KDone (Some h2)] [] stk.
Proof.
  intros Hc. cbn in Hc. destruct (enter_load cf l c) as [[l2 fs]|ps] eqn:He; [|discriminate].
  injection Hc as <- <- <- <-.
  replace (fs ++ [WRcuLoad c m; KDone (Some h2)]) with (fs ++ WRcuLoad c m :: [KDone (Some h2)]) by reflexivity.
  constructor. eapply enter_load_lfv. exact He.
Qed.

Section Run2.
  Variables (cf : config) (inits : list N) (progs : list (list cmd)).
  Local Notation s0 := (init_state inits progs).
  Hypothesis Hprogs : forall p, In p progs -> forall g, ~ In (CSetGen g) p.
  Variable sched : list (N * N).
  Hypotheses (Hcalm : prefix_ok Calm cf s0 sched) (Hnf : NoFault (run_state cf s0 sched)).
  Local Notation St k := (run_state cf s0 (firstn k sched)).
  Local Notation W k := (wsum cf s0 sched k).

  Variables (t i c : N) (m : rcu_mode) (h2 : N) (pa : nat) (xa : N).
  Hypotheses (Hcm : nth_error (t_prog (thr s0 t)) (N.to_nat i) = Some (CRcu c m h2))
             (Hm : nonpanic m = true)
             (Ha : nth_error sched pa = Some (t, xa))
             (Hra : t_status (thr (St pa) t) = Running) (Hsa : t_stack (thr (St pa) t) = [])
             (Hia : t_cmdi (thr (St pa) t) = i).
  Local Notation tl := [KDone (Some h2)].

  (** Step [j] of the schedule is a step of [t] with an allocation event for [v]. *)
  Definition alloc_at (j : nat) (v : N) : Prop :=
    exists x oid, nth_error sched j = Some (t, x) /\ In (EvAlloc v oid) (snd (step cf (St j) t x)).
  (** ... one of the steps [pa] .. [k - 1]. *)
  Definition made_to (k : nat) (v : N) : Prop := exists j, (pa <= j < k)%nat /\ alloc_at j v.

  Lemma made_to_mono j k v : (j <= k)%nat -> made_to j v -> made_to k v.
  Proof. intros H (j0 & Hj & Ha0). exists j0. split; [lia|exact Ha0]. Qed.

  Lemma rcu_started :
    RcuZ (made_to (S pa)) m c tl [] (t_stack (thr (St (S pa)) t)) /\
    t_cmdi (thr (St (S pa)) t) = i /\ step_w cf s0 sched t c pa = [].
  Proof.
    pose proof (St_succ cf inits progs sched pa t xa Ha) as Ea.
    assert (Hc0 : cur_cmd (St pa) t = Some (CRcu c m h2)) by (unfold cur_cmd; rewrite run_prog, Hia; exact Hcm).
    assert (Hw : step_w cf s0 sched t c pa = []).
    { unfold step_w. rewrite Ha, N.eqb_refl. apply step_writes_idle. right. exact Hsa. }
    destruct (step_cases2 cf (St pa) t xa) as [Hr E|c0 Hr Hs Hcc0 Hen0 E|c0 s1 l1 stk r Hr Hs Hcc0 Hen0 Hcs E|n Hr Hs Hcc0 Hn E|Hr Hs Hcc0 Hn E|p rest s1 l1 evs nx Hr Hs He E];
      try congruence.
    - rewrite Hc0 in Hcc0. injection Hcc0 as <-. discriminate Hen0.
    - rewrite Hc0 in Hcc0. injection Hcc0 as <-.
      pose proof (cmd_start_rcu cf _ _ _ _ _ _ _ _ _ (made_to (S pa)) Hcs) as Z.
      destruct (RcuZ_tail _ _ _ _ _ _ Z) as (pre & Hpre & Hne).
      assert (Hstk : t_stack (thr (St (S pa)) t) = stk).
      { rewrite Ea, E. cbn [thr set_thread]. rewrite upd_same. apply start_thread_stack. }
      split; [rewrite Hstk; exact Z|]. split; [|exact Hw].
      rewrite Ea, E. cbn [thr set_thread]. rewrite upd_same. destruct stk; [|exact Hia].
      destruct pre; [congruence|discriminate Hpre].
  Qed.

  Lemma rcu_inv pb :
    (pb < length sched)%nat ->
    t_cmdi (thr (St pb) t) = i -> t_cmdi (thr (St (S pb)) t) = i + 1 ->
    forall d, (S pa + d <= pb)%nat ->
      RcuZ (made_to (S pa + d)) m c tl (W t c pa (S d)) (t_stack (thr (St (S pa + d)) t)).
  Proof.
    intros Hlen Hib Hib'. destruct rcu_started as (Z0 & Hi0 & Hw0).
    induction d as [|d IH]; intros Hd.
    - rewrite Nat.add_0_r. cbn [wsum]. rewrite Nat.add_0_r, Hw0. exact Z0.
    - specialize (IH ltac:(lia)). rename IH into Z.
      replace (S pa + S d)%nat with (S (S pa + d)) by lia. remember (S pa + d)%nat as j eqn:Hj.
      change (W t c pa (S (S d))) with (W t c pa (S d) ++ step_w cf s0 sched t c (pa + S d)).
      replace (pa + S d)%nat with j by lia.
      destruct (nth_error sched j) as [[t0 x0]|] eqn:Hn; [|apply nth_error_None in Hn; lia].
      pose proof (St_succ cf inits progs sched j t0 x0 Hn) as E.
      pose proof (St_cmdi_mono cf inits progs sched (S pa) j t ltac:(lia)) as M1.
      pose proof (St_cmdi_mono cf inits progs sched j (S j) t ltac:(lia)) as M2.
      pose proof (St_cmdi_mono cf inits progs sched (S j) pb t ltac:(lia)) as M3.
      pose proof (St_running cf inits progs sched t i j pb ltac:(lia) Hib Hib') as Hrj.
      pose proof (St_NoFault cf inits progs sched Hnf (S j)) as Hnf'. rewrite E in Hnf'.
      destruct (St_GenInvQ cf inits progs Hprogs sched Hcalm Hnf j) as [WF Q GI].
      unfold step_w. rewrite Hn. rewrite E.
      destruct (N.eqb_spec t0 t) as [->|Hne].
      + destruct (RcuZ_tail _ _ _ _ _ _ Z) as (pre & Hpre & Hpne).
        assert (Hnil : t_stack (thr (St j) t) <> []) by (rewrite Hpre; destruct pre; [congruence|discriminate]).
        destruct (step_cases2 cf (St j) t x0) as [Hr E2|c0 Hr Hs Hcc0 Hen0 E2|c0 s1 l1 stk r Hr Hs Hcc0 Hen0 Hcs E2|n Hr Hs Hcc0 Hn0 E2|Hr Hs Hcc0 Hn0 E2|p rest s1 l1 evs nx Hr Hs He E2];
          try congruence.
        rewrite (step_writes_exec cf (St j) t x0 p rest s1 l1 evs nx c Hr Hs He).
        destruct (ex_top (St j) t WF p rest Hr Hs) as [Hnw _].
        pose proof (land_cases cf (St j) t x0 p rest s1 l1 evs nx WF Hnf' Hr Hs He) as Hlc.
        pose proof (ex_thr cf (St j) t x0 rest s1 l1 nx E2) as Et.
        rewrite Hs in Z.
        assert (Hal : forall v oid, In (EvAlloc v oid) evs -> made_to (S j) v).
        { intros v oid Hin. exists j. split; [lia|]. exists x0, oid. split; [exact Hn|].
          eapply step_events_exec; eassumption. }
        destruct (rcuz_step cf (made_to j) (made_to (S j)) m c tl Hm (fun v => made_to_mono j (S j) v ltac:(lia))
                    (sh (St j)) (t_loc (thr (St j) t)) p rest x0 s1 l1 evs nx _ Z Hnw He Hal)
          as [(l' & stk & EL & Z')|[(l' & q & nw & EL & _)|Hstop]].
        * destruct (land_stack cf (thr (St j) t) l1 rest nx l' stk (hnd (St j)) EL) as [Eth _].
          rewrite Et, Eth. exact Z'.
        * exfalso. cbn in EL.
          destruct (land_done cf (thr (St j) t) l1 rest nx _ _ _ (hnd (St j)) EL) as [Eth _].
          rewrite E, Et, Eth in M2, M3. cbn [t_cmdi] in M2, M3. lia.
        * exfalso. destruct (land cf l1 rest nx); contradiction.
      + rewrite app_nil_r. rewrite step_status_other by congruence.
        eapply RcuZ_mono; [|exact Z]. intros v. apply made_to_mono. lia.
  Qed.
End Run2.
