(** * ASModel.LinCasRcu — C06: [rcu] is an atomic read-modify-write.

    Command number [i] of thread [t] is [CRcu c m h2] ([m] not a panicking mode); its CMD step is
    the step at position [pa] of the schedule, the step at position [pb] completes it.  Then the
    handle [h2] owns some pointer [q], and exactly one step [j] of [t] in [pa] .. [pb] has a write
    event on the storage of [c]; it has exactly one, [(q, nw)]: the storage held [q] (the returned
    previous value) before that step and holds [nw] after it, where [nw] is what the closure made
    from [q] in that attempt ([rcu_new]: null for [RcuNull], [q] itself for [RcuSame], for [RcuNew]
    a value for which a step of [t] in [pa] .. [pb] has an allocation event).
    Every failed attempt wrote nothing, and the exchange of every attempt is attempted against
    exactly the value passed to the closure ([LinCasR1.RcuZ], constructor [rz_cas]). *)
From Coq Require Import Lia.
From ASModel Require Import Base State Orderings_gen Step Run Progress Hist Inv InvTl InvProto InvStep Sum StepCases
  GenDefs Gen1 Gen2 Gen3 Gen Typed1 EnvDefs LinDefs
  Lin1 Lin2 Lin3 Lin4 Lin5 Lin6 Lin7 Lin8 Lin9 Lin10 Lin11 Lin12 Lin13 Lin14 Lin
  LinCache1 LinCache2 LinCache3 LinCache4 LinCache5 LinCache6 LinCache Env
  LinCas1 LinCas2 LinCas3 LinCas4 LinCas5 LinCas LinCasR1 LinCasR2 LinCasR3 LinCasR4.

Lemma made_to_mono' cf inits progs sched t pa j k v :
  (j <= k)%nat -> made_to cf inits progs sched t pa j v -> made_to cf inits progs sched t pa k v.
Proof. intros H (j0 & Hj & Ha0). exists j0. split; [lia|exact Ha0]. Qed.

Section Run2.
  Variables (cf : config) (inits : list N) (progs : list (list cmd)).
  Local Notation s0 := (init_state inits progs).
  Hypothesis Hprogs : forall p, In p progs -> forall g, ~ In (CSetGen g) p.
  Variable sched : list (N * N).
  Hypotheses (Hcalm : prefix_ok Calm cf s0 sched) (Hnf : NoFault (run_state cf s0 sched)).
  Local Notation St k := (run_state cf s0 (firstn k sched)).

  Theorem rcu_linearizable t i c m h2 pa pb xa tb xb :
    nth_error (t_prog (thr s0 t)) (N.to_nat i) = Some (CRcu c m h2) -> nonpanic m = true ->
    (pa <= pb)%nat ->
    nth_error sched pa = Some (t, xa) ->
    t_status (thr (St pa) t) = Running -> t_stack (thr (St pa) t) = [] -> t_cmdi (thr (St pa) t) = i ->
    nth_error sched pb = Some (tb, xb) ->
    t_cmdi (thr (St pb) t) = i -> t_cmdi (thr (St (S pb)) t) = i + 1 ->
    exists q nw j, hnd (St (S pb)) h2 = HOwned q /\
      one_write cf s0 sched t c q nw pa pb j /\
      rcu_new (made_to cf inits progs sched t pa (S pb)) m q nw.
  Proof.
    intros Hcm Hm Hab Ha Hra Hsa Hia Hb Hib Hib'.
    assert (Hlen : (pb < length sched)%nat) by (apply nth_error_Some; congruence).
    pose proof (St_succ cf inits progs sched pb tb xb Hb) as Eb.
    assert (tb = t) as ->.
    { destruct (N.eq_dec tb t) as [E|E]; [exact E|]. rewrite Eb, step_status_other in Hib' by congruence. lia. }
    destruct (rcu_started cf inits progs sched t i c m h2 pa xa Hcm Ha Hra Hsa Hia) as (_ & Hi0 & _).
    assert (Hlt : (S pa <= pb)%nat).
    { destruct (Nat.eq_dec pa pb) as [Heq|Hneq]; [|lia]. subst pb. lia. }
    pose proof (rcu_inv cf inits progs Hprogs sched Hcalm Hnf t i c m h2 pa xa Hcm Hm Ha Hra Hsa Hia
                  pb Hlen Hib Hib' (pb - S pa)%nat ltac:(lia)) as Z.
    replace (S pa + (pb - S pa))%nat with pb in Z by lia.
    remember (pb - S pa)%nat as d eqn:Hd.
    pose proof (St_running cf inits progs sched t i pb pb (le_n _) Hib Hib') as Hrb.
    pose proof (St_NoFault cf inits progs sched Hnf (S pb)) as Hnf'. rewrite Eb in Hnf'.
    destruct (St_GenInvQ cf inits progs Hprogs sched Hcalm Hnf pb) as [WF Q GI].
    destruct (RcuZ_tail _ _ _ _ _ _ Z) as (pre & Hpre & Hpne).
    assert (Hnil : t_stack (thr (St pb) t) <> []) by (rewrite Hpre; destruct pre; [congruence|discriminate]).
    destruct (step_cases2 cf (St pb) t xb) as [Hr E2|c0 Hr Hs Hcc0 Hen0 E2|c0 s1 l1 stk r Hr Hs Hcc0 Hen0 Hcs E2|n Hr Hs Hcc0 Hn0 E2|Hr Hs Hcc0 Hn0 E2|p rest s1 l1 evs nx Hr Hs He E2];
      try congruence.
    assert (Hw : wsum cf s0 sched t c pa (S (S d)) = wsum cf s0 sched t c pa (S d) ++ writes_in c evs).
    { change (wsum cf s0 sched t c pa (S (S d))) with (wsum cf s0 sched t c pa (S d) ++ step_w cf s0 sched t c (pa + S d)).
      replace (pa + S d)%nat with pb by lia. unfold step_w. rewrite Hb, N.eqb_refl.
      rewrite (step_writes_exec cf (St pb) t xb p rest s1 l1 evs nx c Hr Hs He). reflexivity. }
    destruct (ex_top (St pb) t WF p rest Hr Hs) as [Hnw _].
    pose proof (land_cases cf (St pb) t xb p rest s1 l1 evs nx WF Hnf' Hr Hs He) as Hlc.
    pose proof (ex_thr cf (St pb) t xb rest s1 l1 nx E2) as Et.
    rewrite Hs in Z.
    assert (Hal : forall v oid, In (EvAlloc v oid) evs -> made_to cf inits progs sched t pa (S pb) v).
    { intros v oid Hin. exists pb. split; [lia|]. exists xb, oid. split; [exact Hb|].
      eapply step_events_exec; eassumption. }
    destruct (rcuz_step cf (made_to cf inits progs sched t pa pb) (made_to cf inits progs sched t pa (S pb)) m c
                [KDone (Some h2)] Hm (fun v => made_to_mono' cf inits progs sched t pa pb (S pb) v ltac:(lia))
                (sh (St pb)) (t_loc (thr (St pb) t)) p rest xb s1 l1 evs nx _ Z Hnw He Hal)
      as [(l' & stk & EL & Z')|[(l' & q & nw & EL & Hwr & Hn)|Hstop]].
    - exfalso. destruct (RcuZ_tail _ _ _ _ _ _ Z') as (pre' & Hpre' & Hpne').
      destruct (land_stack cf (thr (St pb) t) l1 rest nx l' stk (hnd (St pb)) EL) as [Eth _].
      rewrite Eb, Et, Eth in Hib'. cbn [t_cmdi] in Hib'. lia.
    - cbn in EL. destruct (land_done cf (thr (St pb) t) l1 rest nx _ _ _ (hnd (St pb)) EL) as [_ Eh].
      rewrite <- Hw in Hwr.
      destruct (one_write_of_wsum cf inits progs sched t c q nw pa (S d) Hwr) as (j & Hj).
      exists q, nw, j. split; [rewrite Eb, E2; cbn [hnd]; rewrite Eh; apply upd_same|].
      split; [replace pb with (pa + S d)%nat by lia; exact Hj|exact Hn].
    - exfalso. destruct (land cf l1 rest nx); contradiction.
  Qed.
End Run2.

(** With [GenBound] in every state of the run (and no [CSetGen] in the programs) instead of [Calm]. *)
Theorem rcu_linearizable_bound cf inits progs sched t i c m h2 pa pb xa tb xb :
  let s0 := init_state inits progs in
  let St := fun k => run_state cf s0 (firstn k sched) in
  (forall p, In p progs -> forall g, ~ In (CSetGen g) p) ->
  (forall j, GenBound (St j)) ->
  NoFault (run_state cf s0 sched) ->
  nth_error (t_prog (thr s0 t)) (N.to_nat i) = Some (CRcu c m h2) -> nonpanic m = true ->
  (pa <= pb)%nat ->
  nth_error sched pa = Some (t, xa) ->
  t_status (thr (St pa) t) = Running -> t_stack (thr (St pa) t) = [] -> t_cmdi (thr (St pa) t) = i ->
  nth_error sched pb = Some (tb, xb) ->
  t_cmdi (thr (St pb) t) = i -> t_cmdi (thr (St (S pb)) t) = i + 1 ->
  exists q nw j, hnd (St (S pb)) h2 = HOwned q /\
    one_write cf s0 sched t c q nw pa pb j /\
    rcu_new (made_to cf inits progs sched t pa (S pb)) m q nw.
Proof.
  intros s0 St Hp Hb Hnf. subst s0 St. cbn beta.
  apply (rcu_linearizable cf inits progs Hp sched); [|exact Hnf].
  intros j. apply Calm_split. split; [apply Hb|]. apply NoSetGen_run. apply NoSetGen_init. exact Hp.
Qed.

Print Assumptions rcu_linearizable.
Print Assumptions rcu_linearizable_bound.
