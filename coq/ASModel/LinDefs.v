(** * ASModel.LinDefs — loads are linearizable: instrumented runs and the invariants behind C03.

    A run is instrumented with a clock and three pieces of history that are functions of the
    run so far (they influence nothing): for every container and value the LATEST time the
    container held that value ([g_lt]), for every thread the time its current command (or the
    nested load of a helping writer) started ([g_start]), for every node the time its owner
    last published a request ([g_pub]).  "The value returned by a load was the content of the
    container at some instant between call and return" is then [g_lt c v >= g_start t] at the
    returning step.  The invariants say where that inequality comes from on each read path. *)
From Coq Require Import Lia.
From ASModel Require Import Base State Orderings_gen Step Run Progress Hist Inv InvTl InvProto InvStep Sum StepCases GenDefs.

Record ghost := mkGhost {
  g_now : nat;
  g_lt : N -> N -> nat;
  g_start : N -> nat;
  g_pub : N -> nat;
}.

Definition ghost0 : ghost := mkGhost 0 (fun _ _ => 0%nat) (fun _ => 0%nat) (fun _ => 0%nat).

(** Does this step of [t] start a command, or the nested load of a helper? *)
Definition starts_now (s : state) (t : N) : bool :=
  let th := thr s t in
  match t_status th with
  | Running =>
      match t_stack th with
      | [] => true
      | PE2 c _ w _ :: _ => mem (sh s) (LAddr w) =? store_val c
      | _ => false
      end
  | _ => false
  end.

(** Does this step of [t] publish a request (the swap of the generation into the control word)? *)
Definition publishes_now (s : state) (t : N) : option N :=
  let th := thr s t in
  match t_status th, t_stack th with
  | Running, LH2 _ _ :: _ => tl_node (t_loc th)
  | _, _ => None
  end.

Definition gstep (cf : config) (sg : state * ghost) (t x : N) : state * ghost :=
  let '(s, g) := sg in
  let s' := fst (step cf s t x) in
  let now' := S (g_now g) in
  (s',
   mkGhost now'
     (fun c v => if mem (sh s') (LStore c) =? v then now' else g_lt g c v)
     (fun t' => if (t' =? t) && starts_now s t then now' else g_start g t')
     (fun n => match publishes_now s t with
               | Some n' => if n =? n' then now' else g_pub g n
               | None => g_pub g n
               end)).

Definition grun (cf : config) (sg : state * ghost) (sched : list (N * N)) : state * ghost :=
  fold_left (fun sg tx => gstep cf sg (fst tx) (snd tx)) sched sg.

(** The container of the command a thread is executing. *)
Definition cmd_cont (s : state) (c : cmd) : option N :=
  match c with
  | CLoad c _ | CLoadFull c _ | CStore c _ | CSwap c _ _ | CCas c _ _ _ | CRcu c _ _ | CIntoInner c _
  | CDropStore c | CCacheNew c _ => Some c
  | CCacheLoad k => match hnd s k with HCache c _ => Some c | _ => None end
  | _ => None
  end.

Definition cur_cont (s : state) (t : N) : option N :=
  match nth_error (t_prog (thr s t)) (N.to_nat (t_cmdi (thr s t))) with
  | Some c => cmd_cont s c
  | None => None
  end.

(** ** Invariants of instrumented states *)
Definition LtFresh (s : state) (g : ghost) : Prop :=
  (forall c, g_lt g c (mem (sh s) (LStore c)) = g_now g) /\
  (forall c v, (g_lt g c v <= g_now g)%nat) /\
  (forall t, (g_start g t <= g_now g)%nat) /\ (forall n, (g_pub g n <= g_now g)%nat).

(** Frames of a load that name their container name the command's container. *)
Definition load_cont (p : pc) : option N :=
  match p with
  | LA1 c | LA1d c _ | LAscan c _ _ | LA3 c _ _ | LA4 c _ _ | LA5 c _ _ | LA6 c _ | LH0d c | LH1 c _ | LH2 c _
  | LH3 c _ | LH3d c _ _ | LH4 c _ _ | LH5 c _ _ => Some c
  | _ => None
  end.

Definition ContOK (s : state) : Prop :=
  forall t p rest c, t_status (thr s t) = Running -> t_stack (thr s t) = p :: rest ->
                     load_cont p = Some c -> cur_cont s t = Some c.

(** The value a load frame is going to return (if it does) was current after the load started. *)
Definition cand_of (m : loc -> N) (p : pc) : option N :=
  match p with
  | LH3d _ _ cand | LH4 _ _ cand | LH5 _ _ cand | LH6a cand | LH6b cand | LH6c cand => Some cand
  | LH7 _ e => Some (m (LEnv e))
  | LH8 _ _ r | LH9 _ r | LH10 _ r => Some r
  | WExit (RGuard v _) => Some v
  | _ => None
  end.

(** [LH5]'s candidate counts only if the request is not answered; an answered request returns
    the envelope's content ([Answered] below).  The frames after [LH5] are unconditional. *)
Definition CandFresh (s : state) (g : ghost) : Prop :=
  forall t p rest c v, t_status (thr s t) = Running -> t_stack (thr s t) = p :: rest ->
    cur_cont s t = Some c -> cand_of (mem (sh s)) p = Some v ->
    (g_lt g c v >= g_start g t)%nat.

(** A published request was published after the load started. *)
Definition PubFresh (s : state) (g : ghost) : Prop :=
  forall t n, t_status (thr s t) = Running -> owner (thr s t) = Some n ->
    req_of (thr s t) <> None -> (g_pub g n >= g_start g t)%nat.

(** A helper's nested load started after the request it answers was published, and what it
    loaded was current after that. *)
Definition help_loaded (p : pc) : option (N * N * N * N) :=
  match p with
  | PE4 c _ w ctl r | PE5 c _ w ctl r _ | PE6 c _ w ctl r _ _ | PE7 c _ w ctl r _ _ => Some (c, w, ctl, r)
  | _ => None
  end.

Definition HelpFresh (s : state) (g : ghost) : Prop :=
  forall t f, In f (t_stack (thr s t)) ->
    (forall c w ctl, help_c f = Some (c, w, ctl) ->
       forall th c', owner (thr s th) = Some w -> req_of (thr s th) = Some (c', ctl) ->
         (g_pub g w <= g_start g t)%nat) /\
    (forall c w ctl r, help_loaded f = Some (c, w, ctl, r) -> (g_lt g c r >= g_start g t)%nat).

(** An answered request: the envelope named by the control word holds a value that was current
    in the requested container after the request was published. *)
Definition Answered (s : state) (g : ghost) : Prop :=
  forall w th c' gt, owner (thr s th) = Some w -> req_of (thr s th) = Some (c', gt) ->
    N.land (mem (sh s) (LCtrl w)) TAG_MASK = REPLACEMENT_TAG ->
    (g_lt g c' (mem (sh s) (LEnv (env_of (mem (sh s) (LCtrl w) - N.land (mem (sh s) (LCtrl w)) TAG_MASK))))
       >= g_pub g w)%nat.

Record LinInv (s : state) (g : ghost) : Prop := {
  l_fresh : LtFresh s g;
  l_cont : ContOK s;
  l_cand : CandFresh s g;
  l_pub : PubFresh s g;
  l_help : HelpFresh s g;
  l_ans : Answered s g;
}.
