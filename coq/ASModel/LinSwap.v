(** * ASModel.LinSwap — C04: [store] writes once and releases the value its write replaced.

    Command number [i] of thread [t] is [CStore c v] ([v] denotes the address [b] at the CMD step,
    position [pa]); the step at position [pb] completes it.  Then exactly one step of [t] in
    [pa] .. [pb] has a write event on the storage of [c], the event [(old, b)]; and the replaced
    value [old] is released by exactly one step of the call:
    - if [old] is not null, the completing step [pb] (later than the write) is the step of the
      drop frame [PDec old RUnit] above the bottom frame, and its events begin with the decrement
      event [EvRc old false n];
    - if [old] is null, no drop frame is ever on top: the stack has three or more frames
      ([..; WSwap old; WDropOld; KDone None]) whenever [t] takes a step of the call;
    - in every other step of [t] after the CMD step the stack has three or more frames.
    (The steps of [pay_all] inside the call also increment and decrement [old] ([P1], [P6]), so
    "the only decrement event of [old]" would be false; the release of the RETURNED reference is
    the step of the two-frame stack.) *)
From Coq Require Import Lia.
From ASModel Require Import Base State Orderings_gen Step Run Progress Hist Inv InvTl InvProto InvStep Sum StepCases
  GenDefs Gen1 Gen2 Gen3 Gen Typed1 EnvDefs LinDefs
  Lin1 Lin2 Lin3 Lin4 Lin5 Lin6 Lin7 Lin8 Lin9 Lin10 Lin11 Lin12 Lin13 Lin14 Lin
  LinCache1 LinCache2 LinCache3 LinCache4 LinCache5 LinCache6 LinCache Env
  LinCas1 LinCas2 LinCas3 LinCas5 LinCas LinSwap1 LinSwap2 LinSwap3 LinSwap4.

(** The release of the value [old] returned by the swap inside a [store] call of thread [t]
    (CMD step at [pa], completing step [(tb, xb)] at [pb], write at [j]). *)
Definition released_once cf s0 sched (t old : N) (pa pb j : nat) (xb : N) : Prop :=
  let St := fun k => run_state cf s0 (firstn k sched) in
  (old <> 0 -> (j < pb)%nat /\ t_stack (thr (St pb) t) = [PDec old RUnit; KDone None] /\
               exists n evs', snd (step cf (St pb) t xb) = EvRc old false n :: evs') /\
  (old = 0 -> (3 <= length (t_stack (thr (St pb) t)))%nat) /\
  (forall k x, (pa < k < pb)%nat -> nth_error sched k = Some (t, x) ->
               (3 <= length (t_stack (thr (St k) t)))%nat).

Section Run2.
  Variables (cf : config) (inits : list N) (progs : list (list cmd)).
  Local Notation s0 := (init_state inits progs).
  Hypothesis Hprogs : forall p, In p progs -> forall g, ~ In (CSetGen g) p.
  Variable sched : list (N * N).
  Hypotheses (Hcalm : prefix_ok Calm cf s0 sched) (Hnf : NoFault (run_state cf s0 sched)).
  Local Notation St k := (run_state cf s0 (firstn k sched)).

  Variables (t i c : N) (v : src) (b : N) (pa pb : nat) (xa xb : N).
  Hypotheses (Hcm : nth_error (t_prog (thr s0 t)) (N.to_nat i) = Some (CStore c v))
             (Ha : nth_error sched pa = Some (t, xa))
             (Hra : t_status (thr (St pa) t) = Running) (Hsa : t_stack (thr (St pa) t) = [])
             (Hia : t_cmdi (thr (St pa) t) = i)
             (Hen : cmd_enabled (St pa) (CStore c v) = true)
             (Hvb : src_val (St pa) v = Some b)
             (Hb : nth_error sched pb = Some (t, xb))
             (Hib : t_cmdi (thr (St pb) t) = i) (Hib' : t_cmdi (thr (St (S pb)) t) = i + 1).

  Lemma store_start s1 l1 stk r :
    cmd_start cf (St pa) (t_loc (thr (St pa) t)) (CStore c v) = inl (s1, l1, stk, r) -> StoreZ c b [] stk.
  Proof. intros Hcs. eapply cmd_start_store_z; eassumption. Qed.

  (** A step of [t] strictly inside the call: the drop frame is not on top. *)
  Lemma store_inside k x :
    (pa < k < pb)%nat -> nth_error sched k = Some (t, x) -> (3 <= length (t_stack (thr (St k) t)))%nat.
  Proof.
    intros Hk Hn.
    assert (Hlen : (pb < length sched)%nat) by (apply nth_error_Some; congruence).
    pose proof (zone_inv cf inits progs Hprogs sched Hcalm Hnf c _ (StoreFin b) (StoreZ_ne c b) (store_zstep cf c b)
                  t i _ pa xa Hcm Ha Hra Hsa Hia Hen store_start pb Hlen Hib Hib' (k - S pa)%nat ltac:(lia)) as Zk.
    replace (S pa + (k - S pa))%nat with k in Zk by lia.
    pose proof (St_running cf inits progs sched t i k pb ltac:(lia) Hib Hib') as Hrk.
    inversion Zk as [wr0 stk0 Z0 E1 E2|old Hold E1 E2].
    - apply SwapZ_length in Z0. cbn [length] in Z0. lia.
    - exfalso.
      destruct (zone_exec cf inits progs Hprogs sched Hcalm Hnf c _ (StoreFin b) (StoreZ_ne c b) (store_zstep cf c b)
                  t k x _ Hn Hrk Zk) as (p & rest & s1 & l1 & evs & nx & Hs & He & E & _ & HL).
      rewrite <- E2 in Hs. injection Hs as <- <-.
      cbn in He. destruct (rc_dec _ old) as [[s2 e2]|]; injection He as <- <- <- <-; cbn in HL.
      + destruct HL as [(l' & stk & EL & _)|(l' & dst & rv & EL & _)]; [discriminate EL|].
        pose proof (St_cmdi_mono cf inits progs sched (S k) pb t ltac:(lia)) as M.
        rewrite E in M. cbn [thr] in M. rewrite upd_same in M. cbn in M.
        pose proof (St_cmdi_mono cf inits progs sched (S pa) k t ltac:(lia)) as M1.
        destruct (zone_started cf inits progs sched c _ (StoreZ_ne c b) t i _ pa xa Hcm Ha Hra Hsa Hia Hen store_start)
          as (_ & Hi0 & _).
        lia.
      + destruct HL as [(l' & stk & EL & _)|(l' & dst & rv & EL & _)]; discriminate EL.
  Qed.

  Lemma store_lin0 : (pa <= pb)%nat ->
    exists old j, one_write cf s0 sched t c old b pa pb j /\ released_once cf s0 sched t old pa pb j xb.
  Proof.
    intros Hab.
    destruct (zone_started cf inits progs sched c _ (StoreZ_ne c b) t i _ pa xa Hcm Ha Hra Hsa Hia Hen store_start)
      as (_ & Hi0 & _).
    assert (Hlt : (S pa <= pb)%nat).
    { destruct (Nat.eq_dec pa pb) as [Heq|Hneq]; [|lia]. subst pb. lia. }
    destruct (zone_final cf inits progs Hprogs sched Hcalm Hnf c _ (StoreFin b) (StoreZ_ne c b) (store_zstep cf c b)
                t i _ pa xa Hcm Ha Hra Hsa Hia Hen store_start pb xb Hb Hlt Hib Hib')
      as (dst & (old & Hwr & -> & HA & HB) & _).
    destruct (one_write_of_wsum cf inits progs sched t c old b pa (pb - pa) Hwr) as (j & Hj).
    replace (pa + (pb - pa))%nat with pb in Hj by lia.
    exists old, j. split; [exact Hj|]. split; [|split; [exact HB|exact store_inside]].
    intros Hold. specialize (HA Hold).
    pose proof (St_running cf inits progs sched t i pb pb (le_n _) Hib Hib') as Hrb.
    pose proof (St_NoFault cf inits progs sched Hnf (S pb)) as Hnf'.
    rewrite (St_succ cf inits progs sched pb t xb Hb) in Hnf'.
    split; [|split; [exact HA|exact (step_pdec_events cf _ t xb old RUnit _ Hrb HA Hnf')]].
    destruct Hj as (Hrange & (x & Hnx & Hwx) & _).
    destruct (Nat.eq_dec j pb) as [->|Hne]; [exfalso|lia].
    rewrite Hb in Hnx. injection Hnx as <-.
    destruct (exec cf (sh (St pb)) (t_loc (thr (St pb) t)) (PDec old RUnit) xb) as [[[s1 l1] evs] nx] eqn:He.
    rewrite (step_writes_exec cf (St pb) t xb _ _ s1 l1 evs nx c Hrb HA He) in Hwx.
    rewrite (exec_nowrite _ _ _ _ _ _ _ _ _ c He eq_refl) in Hwx. discriminate Hwx.
  Qed.
End Run2.

Theorem store_linearizable cf inits progs sched t i c v b pa pb xa tb xb :
  let s0 := init_state inits progs in
  let St := fun k => run_state cf s0 (firstn k sched) in
  (forall p, In p progs -> forall g, ~ In (CSetGen g) p) ->
  prefix_ok Calm cf s0 sched -> NoFault (run_state cf s0 sched) ->
  nth_error (t_prog (thr s0 t)) (N.to_nat i) = Some (CStore c v) ->
  (pa <= pb)%nat ->
  nth_error sched pa = Some (t, xa) ->
  t_status (thr (St pa) t) = Running -> t_stack (thr (St pa) t) = [] -> t_cmdi (thr (St pa) t) = i ->
  cmd_enabled (St pa) (CStore c v) = true ->
  src_val (St pa) v = Some b ->
  nth_error sched pb = Some (tb, xb) ->
  t_cmdi (thr (St pb) t) = i -> t_cmdi (thr (St (S pb)) t) = i + 1 ->
  tb = t /\ exists old j, one_write cf s0 sched t c old b pa pb j /\ released_once cf s0 sched t old pa pb j xb.
Proof.
  intros s0 St0 Hp Hcalm Hnf Hcm Hab Ha Hra Hsa Hia Hen Hvb Hb Hib Hib'. subst s0 St0. cbn beta in *.
  pose proof (St_succ cf inits progs sched pb tb xb Hb) as Eb.
  assert (tb = t) as ->.
  { destruct (N.eq_dec tb t) as [E|E]; [exact E|]. rewrite Eb, step_status_other in Hib' by congruence. lia. }
  split; [reflexivity|].
  exact (store_lin0 cf inits progs Hp sched Hcalm Hnf t i c v b pa pb xa xb Hcm Ha Hra Hsa Hia Hen Hvb Hb Hib Hib' Hab).
Qed.

Print Assumptions store_linearizable.
