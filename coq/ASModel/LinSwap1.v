(** * ASModel.LinSwap1 — C04: the zone of a swap.

    Above a tail [tl] (the bottom frame [KDone (Some h2)] of a [CSwap] command, or
    [WDropOld; KDone None] of a [CStore] command) the stack of [swap(new = b)] on container [c] is
    - the exchange frame [S1 c b]                                   (nothing written yet),
    - frames of [pay_all] above [WSwap old]          (exactly [(old, b)] was written).
    [wr] is the list of write events on the storage of [c] since the swap began.  The swap ends
    by handing [ROwned old] to its tail. *)
From Coq Require Import Lia.
From ASModel Require Import Base State Orderings_gen Step Run Progress Hist Inv InvTl InvProto InvStep Sum StepCases
  GenDefs Gen1 Gen2 Typed1 EnvDefs LinDefs Lin1 Lin3 LinCas1 LinCas2 LinCas3.

Inductive SwapZ (c b : N) (tl : list pc) : list (N * N) -> list pc -> Prop :=
| sz_s1 : SwapZ c b tl [] (S1 c b :: tl)
| sz_paid fs old : Forall PF fs -> SwapZ c b tl [(old, b)] (fs ++ WSwap old :: tl).

(** The zone ends with its tail, and is at least one frame longer. *)
Lemma SwapZ_tail c b tl wr stk : SwapZ c b tl wr stk -> exists pre, stk = pre ++ tl /\ pre <> [].
Proof.
  intros Z. destruct Z.
  - exists [S1 c b]. split; [reflexivity|discriminate].
  - exists (fs ++ [WSwap old]). rewrite <- app_assoc. split; [reflexivity|]. destruct fs; discriminate.
Qed.

Lemma SwapZ_length c b tl wr stk : SwapZ c b tl wr stk -> (length tl < length stk)%nat.
Proof.
  intros Z. destruct (SwapZ_tail _ _ _ _ _ Z) as (pre & -> & Hne). rewrite app_length.
  destruct pre; [congruence|cbn; lia].
Qed.

Section SwapStep.
  Variables (cf : config) (c b : N) (tl : list pc).

  (** After a step: the zone goes on, or the swap returns the replaced value to its caller. *)
  Definition swap_next (wr' : list (N * N)) (u : unwound) : Prop :=
    (exists l' stk, u = UStack l' stk /\ SwapZ c b tl wr' stk) \/
    (exists l' old, u = unwind cf l' tl (ROwned old) /\ wr' = [(old, b)]) \/
    stops u.

  Lemma to_swapped l old v : swap_next [(old, b)] (unwind cf l (WSwap old :: tl) v).
  Proof.
    rewrite unwind_land by reflexivity.
    assert (E : resume cf l (WSwap old) v = (l, NRet (ROwned old))) by (destruct v; reflexivity).
    rewrite E. cbn [fst snd land]. right. left. exists l, old. auto.
  Qed.

  Lemma swapz_step s l p rest x s1 l1 evs nx wr :
    SwapZ c b tl wr (p :: rest) -> is_waiting p = false ->
    exec cf s l p x = (s1, l1, evs, nx) ->
    swap_next (wr ++ writes_in c evs) (land cf l1 rest nx).
  Proof.
    intros Z Hnw He. remember (p :: rest) as stk eqn:Es.
    destruct Z as [|fs old HF].
    - (* the exchange *)
      injection Es as <- <-. cbn in He.
      destruct (enter_pay l c (mem s (LStore c))) as [l' frames] eqn:Hp.
      injection He as <- <- <- <-. cbn. rewrite N.eqb_refl. cbn.
      left. exists l', (frames ++ WSwap (mem s (LStore c)) :: tl). split; [reflexivity|].
      apply sz_paid. eapply enter_pay_pf. exact Hp.
    - (* pay_all *)
      destruct (lfr_not_waiting_split _ _ _ _ _ _ (eq_sym Es) Hnw eq_refl HF) as (fs' & -> & -> & Hp & HF').
      rewrite (exec_nowrite _ _ _ _ _ _ _ _ _ c He (pf_not_wfr _ Hp)). cbn [app].
      assert (Hnx : nx_in PF (fun _ => True) nx) by (split; [eapply exec_pf; eassumption|auto]).
      destruct (land_zone cf PF (fun _ => True) payfr_not_bottom (pf_res cf) (WSwap old) tl fs' l1 nx HF' Hnx)
        as [(l' & fs2 & E & HF3)|[(l' & v' & _ & E)|Hst]].
      + left. exists l', (fs2 ++ WSwap old :: tl). split; [exact E|]. apply sz_paid. exact HF3.
      + rewrite E. apply to_swapped.
      + right. right. exact Hst.
  Qed.
End SwapStep.
