(** * ASModel.LinSwap2 — C04: a zone along a run (generic).

    [Z wr stk]: the stack [stk] of the acting thread belongs to the call, and [wr] are the write
    events of the thread on the storage of [c] since the CMD step of the command (position [pa]).
    If [Z] is preserved by the frame steps ([znext]: the zone goes on, or the command completes
    with [Fin stack-before wr dst], or the step panics/faults), then [Z] holds from the state
    after the CMD step up to the state before the completing step (position [pb]) with
    [wr = wsum .. pa ..], and [Fin] holds for the completing step. *)
From Coq Require Import Lia.
From ASModel Require Import Base State Orderings_gen Step Run Progress Hist Inv InvTl InvProto InvStep Sum StepCases
  GenDefs Gen1 Gen2 Gen3 Gen Typed1 EnvDefs LinDefs
  Lin1 Lin2 Lin3 Lin4 Lin5 Lin6 Lin7 Lin8 Lin9 Lin10 Lin11 Lin12 Lin13 Lin14 Lin
  LinCache1 LinCache2 LinCache3 LinCache4 LinCache5 LinCache6 LinCache
  LinCas1 LinCas2 LinCas3 LinCas5.

Definition znext (Z : list (N * N) -> list pc -> Prop)
           (Fin : list pc -> list (N * N) -> option (N * handle) -> Prop)
           (stk0 : list pc) (wr' : list (N * N)) (u : unwound) : Prop :=
  (exists l' stk, u = UStack l' stk /\ Z wr' stk) \/
  (exists l' dst v, u = UDone l' dst v /\ Fin stk0 wr' dst) \/
  stops u.

Section ZoneRun.
  Variables (cf : config) (inits : list N) (progs : list (list cmd)).
  Local Notation s0 := (init_state inits progs).
  Hypothesis Hprogs : forall p, In p progs -> forall g, ~ In (CSetGen g) p.
  Variable sched : list (N * N).
  Hypotheses (Hcalm : prefix_ok Calm cf s0 sched) (Hnf : NoFault (run_state cf s0 sched)).
  Local Notation St k := (run_state cf s0 (firstn k sched)).
  Local Notation W k := (wsum cf s0 sched k).

  Variables (c : N) (Z : list (N * N) -> list pc -> Prop)
            (Fin : list pc -> list (N * N) -> option (N * handle) -> Prop).
  Hypothesis Z_ne : forall wr, ~ Z wr [].
  Hypothesis Z_step : forall s l p rest x s1 l1 evs nx wr,
    Z wr (p :: rest) -> is_waiting p = false -> exec cf s l p x = (s1, l1, evs, nx) ->
    znext Z Fin (p :: rest) (wr ++ writes_in c evs) (land cf l1 rest nx).

  Variables (t i : N) (cm : cmd) (pa : nat) (xa : N).
  Hypotheses (Hcm : nth_error (t_prog (thr s0 t)) (N.to_nat i) = Some cm)
             (Ha : nth_error sched pa = Some (t, xa))
             (Hra : t_status (thr (St pa) t) = Running) (Hsa : t_stack (thr (St pa) t) = [])
             (Hia : t_cmdi (thr (St pa) t) = i)
             (Hen : cmd_enabled (St pa) cm = true).
  Hypothesis Hstart : forall s1 l1 stk r,
    cmd_start cf (St pa) (t_loc (thr (St pa) t)) cm = inl (s1, l1, stk, r) -> Z [] stk.

  Lemma zone_cur j : t_cmdi (thr (St j) t) = i -> cur_cmd (St j) t = Some cm.
  Proof. intros Hj. unfold cur_cmd. rewrite run_prog, Hj. exact Hcm. Qed.

  (** The state after the CMD step. *)
  Lemma zone_started :
    Z [] (t_stack (thr (St (S pa)) t)) /\ t_cmdi (thr (St (S pa)) t) = i /\ step_w cf s0 sched t c pa = [].
  Proof.
    pose proof (St_succ cf inits progs sched pa t xa Ha) as Ea.
    pose proof (zone_cur pa Hia) as Hc0.
    assert (Hw : step_w cf s0 sched t c pa = []).
    { unfold step_w. rewrite Ha, N.eqb_refl. apply step_writes_idle. right. exact Hsa. }
    destruct (step_cases2 cf (St pa) t xa) as [Hr E|c0 Hr Hs Hcc0 Hen0 E|c0 s1 l1 stk r Hr Hs Hcc0 Hen0 Hcs E|n Hr Hs Hcc0 Hn E|Hr Hs Hcc0 Hn E|p rest s1 l1 evs nx Hr Hs He E];
      try congruence.
    rewrite Hc0 in Hcc0. injection Hcc0 as <-.
    pose proof (Hstart _ _ _ _ Hcs) as Z0.
    assert (Hstk : t_stack (thr (St (S pa)) t) = stk).
    { rewrite Ea, E. cbn [thr set_thread]. rewrite upd_same. apply start_thread_stack. }
    split; [rewrite Hstk; exact Z0|]. split; [|exact Hw].
    rewrite Ea, E. cbn [thr set_thread]. rewrite upd_same. destruct stk; [|exact Hia].
    exfalso. exact (Z_ne _ Z0).
  Qed.

  (** A frame step of [t] in a state of the zone that is not the completing step. *)
  Lemma zone_exec j x0 wr :
    nth_error sched j = Some (t, x0) ->
    t_status (thr (St j) t) = Running -> Z wr (t_stack (thr (St j) t)) ->
    exists p rest s1 l1 evs nx,
      t_stack (thr (St j) t) = p :: rest /\
      exec cf (sh (St j)) (t_loc (thr (St j) t)) p x0 = (s1, l1, evs, nx) /\
      St (S j) = mkState s1 (upd (thr (St j)) t (thread_after cf (thr (St j) t) l1 rest nx))
                         (hnd_after cf (hnd (St j)) l1 rest nx) /\
      step_w cf s0 sched t c j = writes_in c evs /\
      ((exists l' stk, land cf l1 rest nx = UStack l' stk /\ Z (wr ++ writes_in c evs) stk) \/
       (exists l' dst v, land cf l1 rest nx = UDone l' dst v /\ Fin (p :: rest) (wr ++ writes_in c evs) dst)).
  Proof.
    intros Hn Hrj Zj.
    pose proof (St_succ cf inits progs sched j t x0 Hn) as E.
    pose proof (St_NoFault cf inits progs sched Hnf (S j)) as Hnf'. rewrite E in Hnf'.
    destruct (St_GenInvQ cf inits progs Hprogs sched Hcalm Hnf j) as [WF Q GI].
    assert (Hnil : t_stack (thr (St j) t) <> []) by (intros Hx; rewrite Hx in Zj; exact (Z_ne _ Zj)).
    destruct (step_cases2 cf (St j) t x0) as [Hr E2|c0 Hr Hs Hcc0 Hen0 E2|c0 s1 l1 stk r Hr Hs Hcc0 Hen0 Hcs E2|n Hr Hs Hcc0 Hn0 E2|Hr Hs Hcc0 Hn0 E2|p rest s1 l1 evs nx Hr Hs He E2];
      try congruence.
    exists p, rest, s1, l1, evs, nx. split; [exact Hs|]. split; [exact He|]. split; [rewrite E; exact E2|].
    split.
    { unfold step_w. rewrite Hn, N.eqb_refl. apply (step_writes_exec cf (St j) t x0 p rest s1 l1 evs nx c Hr Hs He). }
    destruct (ex_top (St j) t WF p rest Hr Hs) as [Hnw _].
    pose proof (land_cases cf (St j) t x0 p rest s1 l1 evs nx WF Hnf' Hr Hs He) as Hlc.
    rewrite Hs in Zj.
    destruct (Z_step (sh (St j)) (t_loc (thr (St j) t)) p rest x0 s1 l1 evs nx wr Zj Hnw He)
      as [H|[H|Hstop]]; [left; exact H|right; exact H|].
    exfalso. destruct (land cf l1 rest nx); contradiction.
  Qed.

  (** Up to the state before the completing step (at position [pb]). *)
  Lemma zone_inv pb :
    (pb < length sched)%nat ->
    t_cmdi (thr (St pb) t) = i -> t_cmdi (thr (St (S pb)) t) = i + 1 ->
    forall d, (S pa + d <= pb)%nat -> Z (W t c pa (S d)) (t_stack (thr (St (S pa + d)) t)).
  Proof.
    intros Hlen Hib Hib'. destruct zone_started as (Z0 & Hi0 & Hw0).
    induction d as [|d IH]; intros Hd.
    - rewrite Nat.add_0_r. cbn [wsum]. rewrite Nat.add_0_r, Hw0. exact Z0.
    - specialize (IH ltac:(lia)).
      replace (S pa + S d)%nat with (S (S pa + d)) by lia. remember (S pa + d)%nat as j eqn:Hj.
      change (W t c pa (S (S d))) with (W t c pa (S d) ++ step_w cf s0 sched t c (pa + S d)).
      replace (pa + S d)%nat with j by lia.
      destruct (nth_error sched j) as [[t0 x0]|] eqn:Hn; [|apply nth_error_None in Hn; lia].
      pose proof (St_cmdi_mono cf inits progs sched (S pa) j t ltac:(lia)) as M1.
      pose proof (St_cmdi_mono cf inits progs sched j (S j) t ltac:(lia)) as M2.
      pose proof (St_cmdi_mono cf inits progs sched (S j) pb t ltac:(lia)) as M3.
      pose proof (St_running cf inits progs sched t i j pb ltac:(lia) Hib Hib') as Hrj.
      destruct (N.eqb_spec t0 t) as [->|Hne].
      + destruct (zone_exec j x0 _ Hn Hrj IH) as (p & rest & s1 & l1 & evs & nx & Hs & He & E & Hw & [(l' & stk & EL & Z')|(l' & dst & v & EL & _)]).
        * rewrite Hw. destruct (land_stack cf (thr (St j) t) l1 rest nx l' stk (hnd (St j)) EL) as [Eth _].
          rewrite E. cbn [thr]. rewrite upd_same, Eth. exact Z'.
        * exfalso. destruct (land_done cf (thr (St j) t) l1 rest nx _ _ _ (hnd (St j)) EL) as [Eth _].
          rewrite E in M2, M3. cbn [thr] in M2, M3. rewrite upd_same, Eth in M2, M3. cbn [t_cmdi] in M2, M3. lia.
      + assert (Hw : step_w cf s0 sched t c j = []).
        { unfold step_w. rewrite Hn. destruct (N.eqb_spec t0 t); [congruence|reflexivity]. }
        rewrite Hw, app_nil_r. rewrite (St_succ cf inits progs sched j t0 x0 Hn).
        rewrite step_status_other by congruence. exact IH.
  Qed.

  (** The completing step. *)
  Lemma zone_final pb xb :
    nth_error sched pb = Some (t, xb) -> (S pa <= pb)%nat ->
    t_cmdi (thr (St pb) t) = i -> t_cmdi (thr (St (S pb)) t) = i + 1 ->
    exists dst, Fin (t_stack (thr (St pb) t)) (W t c pa (S (pb - pa))) dst /\
      hnd (St (S pb)) = match dst with Some (k, hv) => upd (hnd (St pb)) k hv | None => hnd (St pb) end.
  Proof.
    intros Hb Hlt Hib Hib'.
    assert (Hlen : (pb < length sched)%nat) by (apply nth_error_Some; congruence).
    pose proof (zone_inv pb Hlen Hib Hib' (pb - S pa)%nat ltac:(lia)) as Zb.
    replace (S pa + (pb - S pa))%nat with pb in Zb by lia.
    pose proof (St_running cf inits progs sched t i pb pb (le_n _) Hib Hib') as Hrb.
    replace (S (pb - pa)) with (S (S (pb - S pa))) by lia.
    change (W t c pa (S (S (pb - S pa)))) with (W t c pa (S (pb - S pa)) ++ step_w cf s0 sched t c (pa + S (pb - S pa))).
    replace (pa + S (pb - S pa))%nat with pb by lia.
    destruct (zone_exec pb xb _ Hb Hrb Zb) as (p & rest & s1 & l1 & evs & nx & Hs & He & E & Hw & [(l' & stk & EL & Z')|(l' & dst & v & EL & HF)]).
    - exfalso. destruct (land_stack cf (thr (St pb) t) l1 rest nx l' stk (hnd (St pb)) EL) as [Eth _].
      rewrite E in Hib'. cbn [thr] in Hib'. rewrite upd_same in Hib'.
      rewrite thread_after_cmdi in Hib' by (rewrite Eth; cbn; intros Hx; rewrite Hx in Z'; exact (Z_ne _ Z')). lia.
    - destruct (land_done cf (thr (St pb) t) l1 rest nx _ _ _ (hnd (St pb)) EL) as [_ Eh].
      exists dst. rewrite Hw, Hs. split; [exact HF|]. rewrite E. cbn [hnd]. rewrite Eh.
      destruct dst as [[k hv]|]; reflexivity.
  Qed.
End ZoneRun.
