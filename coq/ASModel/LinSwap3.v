(** * ASModel.LinSwap3 — C04: [swap] takes out exactly the value its write replaced.

    Command number [i] of thread [t] is [CSwap c v h2]; its CMD step is the step at position [pa]
    of the schedule ([v] denotes the address [b] there), the step at position [pb] completes it.
    Then exactly one step of [t] in [pa] .. [pb] has a write event on the storage of [c]; it has
    exactly one, [(old, b)]; the storage held [old] before that step and holds [b] after it; and
    the handle [h2] owns [old] after the command. *)
From Coq Require Import Lia.
From ASModel Require Import Base State Orderings_gen Step Run Progress Hist Inv InvTl InvProto InvStep Sum StepCases
  GenDefs Gen1 Gen2 Gen3 Gen Typed1 EnvDefs LinDefs
  Lin1 Lin2 Lin3 Lin4 Lin5 Lin6 Lin7 Lin8 Lin9 Lin10 Lin11 Lin12 Lin13 Lin14 Lin
  LinCache1 LinCache2 LinCache3 LinCache4 LinCache5 LinCache6 LinCache Env
  LinCas1 LinCas2 LinCas3 LinCas5 LinCas LinSwap1 LinSwap2.

Definition SwapFin (b h2 : N) (_ : list pc) (wr : list (N * N)) (dst : option (N * handle)) : Prop :=
  exists old, wr = [(old, b)] /\ dst = Some (h2, HOwned old).

Lemma swap_zstep cf c b h2 s l p rest x s1 l1 evs nx wr :
  SwapZ c b [KDone (Some h2)] wr (p :: rest) -> is_waiting p = false ->
  exec cf s l p x = (s1, l1, evs, nx) ->
  znext (SwapZ c b [KDone (Some h2)]) (SwapFin b h2) (p :: rest) (wr ++ writes_in c evs) (land cf l1 rest nx).
Proof.
  intros Z Hnw He.
  destruct (swapz_step cf c b [KDone (Some h2)] s l p rest x s1 l1 evs nx wr Z Hnw He)
    as [H|[(l' & old & EL & Hwr)|Hst]].
  - left. exact H.
  - right. left. rewrite EL. cbn. eexists l', _, _. split; [reflexivity|]. exists old. auto.
  - right. right. exact Hst.
Qed.

Lemma cmd_start_swap cf s l c v h2 b s1 l1 stk r :
  cmd_start cf s l (CSwap c v h2) = inl (s1, l1, stk, r) -> src_val s v = Some b ->
  SwapZ c b [KDone (Some h2)] [] stk.
Proof. intros Hc Hb. cbn in Hc. rewrite Hb in Hc. injection Hc as <- <- <- <-. constructor. Qed.

Section Run2.
  Variables (cf : config) (inits : list N) (progs : list (list cmd)).
  Local Notation s0 := (init_state inits progs).
  Hypothesis Hprogs : forall p, In p progs -> forall g, ~ In (CSetGen g) p.
  Variable sched : list (N * N).
  Hypotheses (Hcalm : prefix_ok Calm cf s0 sched) (Hnf : NoFault (run_state cf s0 sched)).
  Local Notation St k := (run_state cf s0 (firstn k sched)).

  Theorem swap_linearizable t i c v h2 b pa pb xa tb xb :
    nth_error (t_prog (thr s0 t)) (N.to_nat i) = Some (CSwap c v h2) ->
    (pa <= pb)%nat ->
    nth_error sched pa = Some (t, xa) ->
    t_status (thr (St pa) t) = Running -> t_stack (thr (St pa) t) = [] -> t_cmdi (thr (St pa) t) = i ->
    cmd_enabled (St pa) (CSwap c v h2) = true ->
    src_val (St pa) v = Some b ->
    nth_error sched pb = Some (tb, xb) ->
    t_cmdi (thr (St pb) t) = i -> t_cmdi (thr (St (S pb)) t) = i + 1 ->
    exists old j, hnd (St (S pb)) h2 = HOwned old /\ one_write cf s0 sched t c old b pa pb j.
  Proof.
    intros Hcm Hab Ha Hra Hsa Hia Hen Hvb Hb Hib Hib'.
    pose proof (St_succ cf inits progs sched pb tb xb Hb) as Eb.
    assert (tb = t) as ->.
    { destruct (N.eq_dec tb t) as [E|E]; [exact E|]. rewrite Eb, step_status_other in Hib' by congruence. lia. }
    assert (Hne : forall wr, ~ SwapZ c b [KDone (Some h2)] wr []).
    { intros wr Z. apply SwapZ_length in Z. cbn in Z. lia. }
    assert (Hst : forall s1 l1 stk r,
               cmd_start cf (St pa) (t_loc (thr (St pa) t)) (CSwap c v h2) = inl (s1, l1, stk, r) ->
               SwapZ c b [KDone (Some h2)] [] stk).
    { intros s1 l1 stk r Hcs. eapply cmd_start_swap; eassumption. }
    destruct (zone_started cf inits progs sched c _ Hne t i _ pa xa Hcm Ha Hra Hsa Hia Hen Hst) as (_ & Hi0 & _).
    assert (Hlt : (S pa <= pb)%nat).
    { destruct (Nat.eq_dec pa pb) as [Heq|Hneq]; [|lia]. subst pb. lia. }
    destruct (zone_final cf inits progs Hprogs sched Hcalm Hnf c _ (SwapFin b h2) Hne (swap_zstep cf c b h2)
                t i _ pa xa Hcm Ha Hra Hsa Hia Hen Hst pb xb Hb Hlt Hib Hib') as (dst & (old & Hwr & ->) & Hh).
    destruct (one_write_of_wsum cf inits progs sched t c old b pa (pb - pa) Hwr) as (j & Hj).
    exists old, j. split; [rewrite Hh; apply upd_same|].
    replace pb with (pa + (pb - pa))%nat at 1 by lia. exact Hj.
  Qed.
End Run2.

Print Assumptions swap_linearizable.
