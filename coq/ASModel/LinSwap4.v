(** * ASModel.LinSwap4 — C04: the zone of a [store].

    [store(new = b)] is [swap] above [WDropOld; KDone None]; when the swap hands back [ROwned old]
    the returned value is dropped: nothing if [old] is null, otherwise the frame
    [PDec old RUnit] above [KDone None] (two frames), whose step completes the command. *)
From Coq Require Import Lia.
From ASModel Require Import Base State Orderings_gen Step Run Progress Hist Inv InvTl InvProto InvStep Sum StepCases
  GenDefs Gen1 Gen2 Typed1 EnvDefs LinDefs Lin1 Lin3 LinCas1 LinCas2 LinCas3 LinSwap1 LinSwap2.

Inductive StoreZ (c b : N) : list (N * N) -> list pc -> Prop :=
| tz_swap wr stk : SwapZ c b [WDropOld; KDone None] wr stk -> StoreZ c b wr stk
| tz_dec old : old <> 0 -> StoreZ c b [(old, b)] [PDec old RUnit; KDone None].

(** The completing step: nothing is returned; if the replaced value is not null, the stack
    before the step is the drop frame of that value; otherwise the swap itself completes. *)
Definition StoreFin (b : N) (stk : list pc) (wr : list (N * N)) (dst : option (N * handle)) : Prop :=
  exists old, wr = [(old, b)] /\ dst = None /\
    (old <> 0 -> stk = [PDec old RUnit; KDone None]) /\ (old = 0 -> (3 <= length stk)%nat).

Lemma StoreZ_ne c b wr : ~ StoreZ c b wr [].
Proof.
  intros Z. inversion Z as [wr0 stk0 Z0|]; subst. apply SwapZ_length in Z0. cbn in Z0. lia.
Qed.

Lemma store_zstep cf c b s l p rest x s1 l1 evs nx wr :
  StoreZ c b wr (p :: rest) -> is_waiting p = false ->
  exec cf s l p x = (s1, l1, evs, nx) ->
  znext (StoreZ c b) (StoreFin b) (p :: rest) (wr ++ writes_in c evs) (land cf l1 rest nx).
Proof.
  intros Z Hnw He. inversion Z as [wr0 stk0 Z0|old Hold]; subst.
  - pose proof (SwapZ_length _ _ _ _ _ Z0) as Hlen.
    destruct (swapz_step cf c b [WDropOld; KDone None] s l p rest x s1 l1 evs nx wr Z0 Hnw He)
      as [(l' & stk & EL & Z')|[(l' & old & EL & Hwr)|Hst]].
    + left. exists l', stk. split; [exact EL|]. apply tz_swap. exact Z'.
    + rewrite EL, Hwr. cbn. unfold dec_then. destruct (N.eqb_spec old 0) as [->|Hne]; cbn.
      * right. left. eexists l', _, _. split; [reflexivity|]. exists 0. split; [reflexivity|]. split; [reflexivity|].
        split; [congruence|]. intros _. cbn [length] in Hlen |- *. lia.
      * left. eexists l', _. split; [reflexivity|]. apply tz_dec. exact Hne.
    + right. right. exact Hst.
  - rewrite (exec_nowrite _ _ _ _ _ _ _ _ _ c He) by reflexivity. cbn [app].
    cbn in He. destruct (rc_dec s old) as [[s2 e2]|]; injection He as <- <- <- <-; cbn.
    + right. left. eexists l, _, _. split; [reflexivity|]. exists old. split; [reflexivity|]. split; [reflexivity|].
      split; [reflexivity|]. intros ->. congruence.
    + right. right. exact I.
Qed.

Lemma cmd_start_store_z cf s l c v b s1 l1 stk r :
  cmd_start cf s l (CStore c v) = inl (s1, l1, stk, r) -> src_val s v = Some b ->
  StoreZ c b [] stk.
Proof. intros Hc Hb. cbn in Hc. rewrite Hb in Hc. injection Hc as <- <- <- <-. apply tz_swap. constructor. Qed.

(** The events of the step of a decrement frame begin with the decrement event. *)
Lemma step_pdec_events cf s t x a r rest :
  t_status (thr s t) = Running -> t_stack (thr s t) = PDec a r :: rest ->
  NoFault (fst (step cf s t x)) ->
  exists n evs', snd (step cf s t x) = EvRc a false n :: evs'.
Proof.
  intros Hr Hs Hnf.
  destruct (exec cf (sh s) (t_loc (thr s t)) (PDec a r) x) as [[[s1 l1] evs] nx] eqn:He.
  pose proof (Hnf t) as Hf. rewrite (step_exec_eq _ _ _ _ _ _ _ _ _ _ Hr Hs He) in Hf. cbn in Hf. rewrite upd_same in Hf.
  destruct (thread_after_nofault _ _ _ _ _ Hf) as [Hnf1 _].
  unfold step. rewrite Hr, Hs, He. unfold finish.
  cbn in He. unfold rc_dec in He. destruct (heap (sh s) a); [destruct (_ =? 1)|]; injection He as <- <- <- <-.
  - destruct (unwind cf _ rest r) as [| ? [[? ?]|] ? | | |]; cbn; eauto.
  - destruct (unwind cf _ rest r) as [| ? [[? ?]|] ? | | |]; cbn; eauto.
  - exfalso. eapply Hnf1. reflexivity.
Qed.
