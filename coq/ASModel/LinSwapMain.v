(** * ASModel.LinSwapMain — C04: [swap] / [store] at run level with [GenBound] in every prefix
    state ([_bound]) and under [Main.RunOK] ([_runok]); every value removed from a container by
    a completed [swap] is the value handed back ([every_removed_value_returned]). *)
From Coq Require Import Lia.
From ASModel Require Import Base State Orderings_gen Step Run Progress Hist Inv InvTl InvProto InvStep Sum StepCases
  GenDefs Gen1 Gen2 Gen3 Gen Typed1 EnvDefs LinDefs Lin Env
  LinCas5 LinCas LinSwap1 LinSwap2 LinSwap3 LinSwap4 LinSwap Main.

Lemma bound_calm cf inits progs sched :
  (forall p, In p progs -> forall g, ~ In (CSetGen g) p) ->
  (forall j, GenBound (run_state cf (init_state inits progs) (firstn j sched))) ->
  prefix_ok Calm cf (init_state inits progs) sched.
Proof.
  intros Hp Hb j. apply Calm_split. split; [apply Hb|]. apply NoSetGen_run. apply NoSetGen_init. exact Hp.
Qed.

Theorem swap_linearizable_bound cf inits progs sched t i c v h2 b pa pb xa tb xb :
  let s0 := init_state inits progs in
  let St := fun k => run_state cf s0 (firstn k sched) in
  (forall p, In p progs -> forall g, ~ In (CSetGen g) p) ->
  (forall j, GenBound (St j)) ->
  NoFault (run_state cf s0 sched) ->
  nth_error (t_prog (thr s0 t)) (N.to_nat i) = Some (CSwap c v h2) ->
  (pa <= pb)%nat ->
  nth_error sched pa = Some (t, xa) ->
  t_status (thr (St pa) t) = Running -> t_stack (thr (St pa) t) = [] -> t_cmdi (thr (St pa) t) = i ->
  cmd_enabled (St pa) (CSwap c v h2) = true ->
  src_val (St pa) v = Some b ->
  nth_error sched pb = Some (tb, xb) ->
  t_cmdi (thr (St pb) t) = i -> t_cmdi (thr (St (S pb)) t) = i + 1 ->
  exists old j, hnd (St (S pb)) h2 = HOwned old /\ one_write cf s0 sched t c old b pa pb j.
Proof.
  intros s0 St0 Hp Hb Hnf. subst s0 St0. cbn beta.
  exact (swap_linearizable cf inits progs Hp sched (bound_calm cf inits progs sched Hp Hb) Hnf
           t i c v h2 b pa pb xa tb xb).
Qed.

Theorem swap_linearizable_runok cf inits progs sched t i c v h2 b pa pb xa tb xb :
  let s0 := init_state inits progs in
  let St := fun k => run_state cf s0 (firstn k sched) in
  RunOK cf inits progs sched ->
  (forall p, In p progs -> forall g, ~ In (CSetGen g) p) ->
  nth_error (t_prog (thr s0 t)) (N.to_nat i) = Some (CSwap c v h2) ->
  (pa <= pb)%nat ->
  nth_error sched pa = Some (t, xa) ->
  t_status (thr (St pa) t) = Running -> t_stack (thr (St pa) t) = [] -> t_cmdi (thr (St pa) t) = i ->
  cmd_enabled (St pa) (CSwap c v h2) = true ->
  src_val (St pa) v = Some b ->
  nth_error sched pb = Some (tb, xb) ->
  t_cmdi (thr (St pb) t) = i -> t_cmdi (thr (St (S pb)) t) = i + 1 ->
  exists old j, hnd (St (S pb)) h2 = HOwned old /\ one_write cf s0 sched t c old b pa pb j.
Proof.
  intros s0 St0 R Hp. subst s0 St0. cbn beta.
  apply (swap_linearizable_bound cf inits progs sched t i c v h2 b pa pb xa tb xb Hp).
  - intros j. exact (proj1 (ro_state _ _ _ _ R j)).
  - exact (proj1 (C01_no_use_after_free cf inits progs sched R)).
Qed.

Theorem store_linearizable_bound cf inits progs sched t i c v b pa pb xa tb xb :
  let s0 := init_state inits progs in
  let St := fun k => run_state cf s0 (firstn k sched) in
  (forall p, In p progs -> forall g, ~ In (CSetGen g) p) ->
  (forall j, GenBound (St j)) ->
  NoFault (run_state cf s0 sched) ->
  nth_error (t_prog (thr s0 t)) (N.to_nat i) = Some (CStore c v) ->
  (pa <= pb)%nat ->
  nth_error sched pa = Some (t, xa) ->
  t_status (thr (St pa) t) = Running -> t_stack (thr (St pa) t) = [] -> t_cmdi (thr (St pa) t) = i ->
  cmd_enabled (St pa) (CStore c v) = true ->
  src_val (St pa) v = Some b ->
  nth_error sched pb = Some (tb, xb) ->
  t_cmdi (thr (St pb) t) = i -> t_cmdi (thr (St (S pb)) t) = i + 1 ->
  tb = t /\ exists old j, one_write cf s0 sched t c old b pa pb j /\ released_once cf s0 sched t old pa pb j xb.
Proof.
  intros s0 St0 Hp Hb Hnf. subst s0 St0. cbn beta.
  exact (store_linearizable cf inits progs sched t i c v b pa pb xa tb xb Hp
           (bound_calm cf inits progs sched Hp Hb) Hnf).
Qed.

Theorem store_linearizable_runok cf inits progs sched t i c v b pa pb xa tb xb :
  let s0 := init_state inits progs in
  let St := fun k => run_state cf s0 (firstn k sched) in
  RunOK cf inits progs sched ->
  (forall p, In p progs -> forall g, ~ In (CSetGen g) p) ->
  nth_error (t_prog (thr s0 t)) (N.to_nat i) = Some (CStore c v) ->
  (pa <= pb)%nat ->
  nth_error sched pa = Some (t, xa) ->
  t_status (thr (St pa) t) = Running -> t_stack (thr (St pa) t) = [] -> t_cmdi (thr (St pa) t) = i ->
  cmd_enabled (St pa) (CStore c v) = true ->
  src_val (St pa) v = Some b ->
  nth_error sched pb = Some (tb, xb) ->
  t_cmdi (thr (St pb) t) = i -> t_cmdi (thr (St (S pb)) t) = i + 1 ->
  tb = t /\ exists old j, one_write cf s0 sched t c old b pa pb j /\ released_once cf s0 sched t old pa pb j xb.
Proof.
  intros s0 St0 R Hp. subst s0 St0. cbn beta.
  apply (store_linearizable_bound cf inits progs sched t i c v b pa pb xa tb xb Hp).
  - intros j. exact (proj1 (ro_state _ _ _ _ R j)).
  - exact (proj1 (C01_no_use_after_free cf inits progs sched R)).
Qed.

Print Assumptions swap_linearizable_bound.
Print Assumptions swap_linearizable_runok.
Print Assumptions store_linearizable_bound.
Print Assumptions store_linearizable_runok.

(** ** Every value removed by a completed [swap] is the value handed back *)

(** The writes of the trace are write events of steps of the schedule. *)
Lemma writes_of_trace_inv cf c : forall sched s t old new,
  In (t, old, new) (writes_of_trace c (snd (run cf s sched))) ->
  exists j x, nth_error sched j = Some (t, x) /\
    In (old, new) (writes_in c (snd (step cf (run_state cf s (firstn j sched)) t x))).
Proof.
  induction sched as [|[t0 x0] sched IH]; intros s t old new Hin; [cbn in Hin; contradiction|].
  cbn [run] in Hin. destruct (step cf s t0 x0) as [s1 evs] eqn:Hs. destruct (run cf s1 sched) as [s2 tr] eqn:Hr.
  cbn [snd writes_of_trace] in Hin. apply in_app_or in Hin as [Hin|Hin].
  - apply in_map_iff in Hin as ([o n] & Heq & Hw). cbn in Heq. injection Heq as <- <- <-.
    exists 0%nat, x0. split; [reflexivity|]. cbn. rewrite Hs. exact Hw.
  - specialize (IH s1 t old new). rewrite Hr in IH. destruct (IH Hin) as (j & x & Hn & Hw).
    exists (S j), x. split; [exact Hn|]. cbn [firstn]. rewrite run_state_cons, Hs. exact Hw.
Qed.

(** Command [i] of thread [t] is [CSwap c v h2], started (enabled, [v] denoting [b]) by the step
    at [pa] and completed by the step at [pb]. *)
Definition swap_call cf s0 sched (t i c : N) (v : src) (h2 b : N) (pa pb : nat) : Prop :=
  let St := fun k => run_state cf s0 (firstn k sched) in
  nth_error (t_prog (thr s0 t)) (N.to_nat i) = Some (CSwap c v h2) /\ (pa <= pb)%nat /\
  (exists xa, nth_error sched pa = Some (t, xa)) /\
  t_status (thr (St pa) t) = Running /\ t_stack (thr (St pa) t) = [] /\ t_cmdi (thr (St pa) t) = i /\
  cmd_enabled (St pa) (CSwap c v h2) = true /\ src_val (St pa) v = Some b /\
  (pb < length sched)%nat /\ t_cmdi (thr (St pb) t) = i /\ t_cmdi (thr (St (S pb)) t) = i + 1.

Theorem every_removed_value_returned cf inits progs sched c t old new :
  let s0 := init_state inits progs in
  let St := fun k => run_state cf s0 (firstn k sched) in
  (forall p, In p progs -> forall g, ~ In (CSetGen g) p) ->
  prefix_ok Calm cf s0 sched -> NoFault (run_state cf s0 sched) ->
  In (t, old, new) (writes_of_trace c (snd (run cf s0 sched))) ->
  exists j x, nth_error sched j = Some (t, x) /\
    In (old, new) (writes_in c (snd (step cf (St j) t x))) /\
    forall i v h2 b pa pb, swap_call cf s0 sched t i c v h2 b pa pb -> (pa <= j <= pb)%nat ->
      new = b /\ hnd (St (S pb)) h2 = HOwned old.
Proof.
  intros s0 St0 Hp Hcalm Hnf Hin. subst s0 St0. cbn beta.
  destruct (writes_of_trace_inv cf c sched _ t old new Hin) as (j & x & Hn & Hw).
  exists j, x. split; [exact Hn|]. split; [exact Hw|].
  intros i v h2 b pa pb (Hcm & Hab & (xa & Ha) & Hra & Hsa & Hia & Hen & Hvb & Hlen & Hib & Hib') Hj.
  destruct (nth_error sched pb) as [[tb xb]|] eqn:Hb; [|apply nth_error_None in Hb; lia].
  destruct (swap_linearizable cf inits progs Hp sched Hcalm Hnf t i c v h2 b pa pb xa tb xb
              Hcm Hab Ha Hra Hsa Hia Hen Hvb Hb Hib Hib') as (old' & j' & Hh & _ & (x' & Hn' & Hw') & _ & _ & Hoth).
  destruct (Nat.eq_dec j j') as [->|Hne].
  - rewrite Hn in Hn'. injection Hn' as <-. rewrite Hw' in Hw. destruct Hw as [[= <- <-]|[]]. auto.
  - exfalso. specialize (Hoth j Hj Hne). unfold step_w in Hoth. rewrite Hn, N.eqb_refl in Hoth.
    rewrite Hoth in Hw. exact Hw.
Qed.

Theorem every_removed_value_returned_bound cf inits progs sched c t old new :
  let s0 := init_state inits progs in
  let St := fun k => run_state cf s0 (firstn k sched) in
  (forall p, In p progs -> forall g, ~ In (CSetGen g) p) ->
  (forall j, GenBound (St j)) -> NoFault (run_state cf s0 sched) ->
  In (t, old, new) (writes_of_trace c (snd (run cf s0 sched))) ->
  exists j x, nth_error sched j = Some (t, x) /\
    In (old, new) (writes_in c (snd (step cf (St j) t x))) /\
    forall i v h2 b pa pb, swap_call cf s0 sched t i c v h2 b pa pb -> (pa <= j <= pb)%nat ->
      new = b /\ hnd (St (S pb)) h2 = HOwned old.
Proof.
  intros s0 St0 Hp Hb Hnf. subst s0 St0. cbn beta.
  exact (every_removed_value_returned cf inits progs sched c t old new Hp (bound_calm cf inits progs sched Hp Hb) Hnf).
Qed.

Theorem every_removed_value_returned_runok cf inits progs sched c t old new :
  let s0 := init_state inits progs in
  let St := fun k => run_state cf s0 (firstn k sched) in
  RunOK cf inits progs sched ->
  (forall p, In p progs -> forall g, ~ In (CSetGen g) p) ->
  In (t, old, new) (writes_of_trace c (snd (run cf s0 sched))) ->
  exists j x, nth_error sched j = Some (t, x) /\
    In (old, new) (writes_in c (snd (step cf (St j) t x))) /\
    forall i v h2 b pa pb, swap_call cf s0 sched t i c v h2 b pa pb -> (pa <= j <= pb)%nat ->
      new = b /\ hnd (St (S pb)) h2 = HOwned old.
Proof.
  intros s0 St0 R Hp. subst s0 St0. cbn beta.
  apply (every_removed_value_returned_bound cf inits progs sched c t old new Hp).
  - intros j. exact (proj1 (ro_state _ _ _ _ R j)).
  - exact (proj1 (C01_no_use_after_free cf inits progs sched R)).
Qed.

Print Assumptions every_removed_value_returned.
Print Assumptions every_removed_value_returned_bound.
Print Assumptions every_removed_value_returned_runok.
