(** * ASModel.Local — local (one-step) facts about the read paths, the debt walk and guards.

    Each lemma describes one program point of [Step.exec] in every shared state and for every
    scheduler choice.  They are the step-level halves of C01/C02/C03/C10/C12; the invariants
    over whole runs are in [Inv*] / [Acc*]. *)
From Coq Require Import Lia.
From ASModel Require Import Base State Orderings_gen Step Run Progress Hist.

(** ** Reference counts *)
Lemma rc_dec_spec s a :
  match heap s a with
  | None => rc_dec s a = None                                     (* touching a destroyed value: a fault *)
  | Some oid =>
      exists s' evs, rc_dec s a = Some (s', evs) /\
        (forall b, b <> a -> heap s' b = heap s b /\ mem s' (LCount b) = mem s (LCount b)) /\
        if mem s (LCount a) =? 1
        then heap s' a = None /\ evs = [EvRc a false 1; EvDestroy a oid]    (* destroyed exactly here *)
        else heap s' a = Some oid /\ mem s' (LCount a) = mem s (LCount a) - 1 /\ evs = [EvRc a false (mem s (LCount a))]
  end.
Proof.
  unfold rc_dec. destruct (heap s a) as [oid|] eqn:Hh; [|reflexivity].
  destruct (mem s (LCount a) =? 1) eqn:Hc.
  - eexists _, _. split; [reflexivity|]. apply N.eqb_eq in Hc. split.
    + intros b Hb. cbn. unfold upd.
      destruct (decide (b = a)); [congruence|]. destruct (decide (LCount b = LCount a)); [congruence|]. auto.
    + cbn. rewrite upd_same, Hc. auto.
  - eexists _, _. split; [reflexivity|]. split.
    + intros b Hb. cbn. split; [reflexivity|]. unfold upd. destruct (decide (LCount b = LCount a)); [congruence|]. auto.
    + cbn. rewrite upd_same. auto.
Qed.

Lemma rc_inc_spec s a :
  match heap s a with
  | None => rc_inc s a = None
  | Some _ =>
      exists s', rc_inc s a = Some (s', [EvRc a true (mem s (LCount a))]) /\ heap s' = heap s /\
        mem s' (LCount a) = mem s (LCount a) + 1 /\ forall l, l <> LCount a -> mem s' l = mem s l
  end.
Proof.
  unfold rc_inc. destruct (heap s a); [|reflexivity]. eexists. split; [reflexivity|]. cbn.
  split; [reflexivity|]. split; [apply upd_same|].
  intros l0 Hl. unfold upd. destruct (decide (l0 = LCount a)); [congruence|reflexivity].
Qed.

(** ** Fast path: the guard is handed out only if the storage still holds the published pointer
    at the confirming read; that instant is the load's linearization point. *)
Lemma fast_confirm_step cf s l c v j x :
  let n := own_node l in
  exists e,
    if mem s (LStore c) =? v
    then exec cf s l (LA4 c v j) x = (s, fst (with_exit l (RGuard v (Some (n, j)))), [e], snd (with_exit l (RGuard v (Some (n, j)))))
    else exec cf s l (LA4 c v j) x = (s, l, [e], NGoto (LA5 c v j)).
Proof.
  cbn. eexists. destruct (mem s (LStore c) =? v); [|reflexivity].
  destruct (with_exit l (RGuard v (Some (own_node l, j)))); reflexivity.
Qed.

Lemma with_exit_value l r : match snd (with_exit l r) with NRet r' => r' = r | NPush _ (WExit r') => r' = r | _ => False end.
Proof. unfold with_exit. destruct (_ && _); cbn; [destruct (tl_node _); cbn|]; reflexivity. Qed.

(** Fallback: the candidate is what the storage holds at the read that follows the
    publication of the request. *)
Lemma fallback_candidate_step cf s l c gt x n0 :
  tl_node l = Some n0 ->
  exists e, exec cf s l (LH3 c gt) x =
            (s, l, [e], if cf_debug cf then NGoto (LH3d c gt (mem s (LStore c))) else NGoto (LH4 c gt (mem s (LStore c)))).
Proof. intros H. cbn. rewrite H. eauto. Qed.

(** Fallback: the candidate is kept iff the control word still carries this request's
    generation; otherwise the value comes from the envelope named by the control word. *)
Lemma fallback_confirm_step cf s l c gt v x s' l' evs nx :
  exec cf s l (LH5 c gt v) x = (s', l', evs, nx) ->
  mem s' (LCtrl (own_node l)) = IDLE /\
  if mem s (LCtrl (own_node l)) =? gt then nx = (if v =? 0 then NGoto (LH6b v) else NGoto (LH6a v))
  else (exists ps, nx = NPanic ps) \/
       nx = NGoto (LH7 v (env_of (mem s (LCtrl (own_node l)) - N.land (mem s (LCtrl (own_node l))) TAG_MASK))).
Proof.
  cbn. destruct (mem s (LCtrl (own_node l)) =? gt) eqn:Hg.
  - intros [= <- <- <- <-]. split; [cbn; apply upd_same|reflexivity].
  - destruct (cf_debug cf && _); intros [= <- <- <- <-]; (split; [cbn; apply upd_same|]); eauto.
Qed.

(** ** The writer's side *)
(** A writer helps a reader only if the reader announced this very storage. *)
Lemma help_only_matching_storage cf s l c old w ctl x s' l' evs nx :
  exec cf s l (PE2 c old w ctl) x = (s', l', evs, nx) ->
  s' = s /\
  if mem s (LAddr w) =? store_val c
  then (exists frames, nx = NPush (frames ++ [WLoadFull]) (WHelpRepl c old w ctl)) \/ (exists ps, nx = NPanic ps)
  else nx = NGoto (PE3 c old w ctl) /\ l' = l.
Proof.
  cbn. destruct (mem s (LAddr w) =? store_val c).
  - destruct (enter_load cf l c) as [[l2 fs]|ps]; intros [= <- <- <- <-]; eauto.
  - intros [= <- <- <- <-]. auto.
Qed.

(** Paying one slot: the only location written is that slot, it is written only if it holds
    exactly [old], and then exactly one increment of [old] follows. *)
Lemma pay_slot_step cf s l c old w j x :
  exists e,
    exec cf s l (PS c old w j) x =
      (if mem s (LSlot w j) =? old then m_set s (LSlot w j) NONE else s, l, [e],
       if (mem s (LSlot w j) =? old) && negb (old =? 0) then NGoto (PSi c old w j) else after_slot c old w j).
Proof.
  destruct (mem s (LSlot w j) =? old) eqn:H; eexists; cbn; unfold a_cas; cbn; rewrite H; reflexivity.
Qed.

Lemma pay_inc_step cf s l c old w j x :
  match heap s old with
  | None => exec cf s l (PSi c old w j) x = (s, l, [], NFault (FDeadInc old))
  | Some _ => exists s', rc_inc s old = Some (s', [EvRc old true (mem s (LCount old))]) /\
              exec cf s l (PSi c old w j) x = (s', l, [EvRc old true (mem s (LCount old))], after_slot c old w j)
  end.
Proof.
  pose proof (rc_inc_spec s old) as H. cbn. destruct (heap s old).
  - destruct H as (s' & H & _). exists s'. rewrite H. auto.
  - rewrite H. reflexivity.
Qed.

(** The walk visits every slot of a node (0..8 in this order) and every node below the head it read. *)
Lemma walk_next_slot c old w j : j <> HSLOT -> after_slot c old w j = NGoto (PS c old w (j + 1)).
Proof. unfold after_slot. intros H. apply N.eqb_neq in H. rewrite H. reflexivity. Qed.
Lemma walk_last_slot c old w : after_slot c old w HSLOT = NGoto (P5 c old w).
Proof. reflexivity. Qed.
Lemma walk_next_node cf s l c old w x : w <> 0 ->
  exists s' e, exec cf s l (P5 c old w) x = (s', l, [e], NGoto (P3 c old (w - 1))).
Proof. intros H. cbn. apply N.eqb_neq in H. rewrite H. eauto. Qed.

(** ** Guards *)
(** Dropping a guard: the debt is identified by (node, index, pointer value), not by the
    dropping thread; either the debt is still there and is removed (no count changes), or it
    was paid and the guard gives exactly one reference back. *)
Lemma guard_drop_step cf s l v sl x :
  exists e,
    exec cf s l (GD1 v sl) x =
      (if mem s (slot_loc sl) =? v then m_set s (slot_loc sl) NONE else s, l, [e],
       if mem s (slot_loc sl) =? v then NRet RUnit else dec_then v RUnit).
Proof.
  destruct (mem s (slot_loc sl) =? v) eqn:H; eexists; cbn; unfold a_cas; cbn; rewrite H; reflexivity.
Qed.

Lemma guard_drop_local cf s l l2 v sl x :
  fst (fst (fst (exec cf s l (GD1 v sl) x))) = fst (fst (fst (exec cf s l2 (GD1 v sl) x))) /\
  snd (exec cf s l (GD1 v sl) x) = snd (exec cf s l2 (GD1 v sl) x).
Proof. cbn. unfold a_cas. cbn. destruct (_ && _); auto. Qed.

(** Guard::into_inner: first take an own reference, then give the debt back (or, if it was
    paid meanwhile, give the extra reference back). *)
Lemma guard_into_step cf s l v sl x :
  (match heap s v with
   | None => exec cf s l (GI1 v sl) x = (s, l, [], NFault (FDeadInc v))
   | Some _ => exists s', rc_inc s v = Some (s', [EvRc v true (mem s (LCount v))]) /\
               exec cf s l (GI1 v sl) x = (s', l, [EvRc v true (mem s (LCount v))], NGoto (GI2 v sl))
   end) /\
  exists e,
    exec cf s l (GI2 v sl) x =
      (if mem s (slot_loc sl) =? v then m_set s (slot_loc sl) NONE else s, l, [e],
       if mem s (slot_loc sl) =? v then NRet (ROwned v) else dec_then v (ROwned v)).
Proof.
  split.
  - pose proof (rc_inc_spec s v) as H. cbn. destruct (heap s v).
    + destruct H as (s' & H & _). exists s'. rewrite H. auto.
    + rewrite H. reflexivity.
  - destruct (mem s (slot_loc sl) =? v) eqn:H; eexists; cbn; unfold a_cas; cbn; rewrite H; reflexivity.
Qed.

(** A step inside a command changes no handle, except the one step that completes the command
    (and stores its result). *)
Lemma step_handles cf s t x h :
  t_stack (thr s t) <> [] ->
  hnd (fst (step cf s t x)) h = hnd s h \/ t_stack (thr (fst (step cf s t x)) t) = [].
Proof.
  intros Hne. unfold step. destruct (t_status (thr s t)); try (left; reflexivity).
  destruct (t_stack (thr s t)) as [|p rest]; [congruence|].
  destruct (exec cf (sh s) (t_loc (thr s t)) p x) as [[[s1 l1] evs] nx].
  unfold finish. destruct nx; cbn; try (left; reflexivity).
  destruct (unwind cf l1 rest v); cbn; try (left; reflexivity); right; rewrite upd_same; reflexivity.
Qed.
