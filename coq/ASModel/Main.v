(** * ASModel.Main — the master invariant and the end-to-end theorems.

    [Master] collects the invariants of the development ([WF2], [Quiet], [GenInv], [EnvInv],
    [CtlFresh], [AccInv], [ProtInv'], [Typed], [ValOK]) with [NoFault].  Every step theorem of
    the individual invariants assumes that the NEXT state has no faulted thread; [step_NoFault]
    (Safe) proves that from the invariants of the CURRENT state, so [Master] is inductive
    under hypotheses that speak about the test program and the scheduler only:
    [GenBound] (no generation counter within one step of wrapping), [ProgOK] (the program
    does not use [CSetGen] or the [Cache] commands, does not overwrite a live handle and keeps
    the source handle of a [CClone] until the clone is done) and [alloc_ok] (the allocator offers a
    fresh valid address). *)
From Coq Require Import Lia.
From ASModel Require Import Base State Orderings_gen Step Run Progress Hist Inv InvTl InvProto InvStep Sum StepCases.
From ASModel Require Import GenDefs Gen1 Gen2 Gen EnvDefs Env4 Env.
From ASModel Require Import AccDefs Acc1 Acc2 Acc3 Acc4 Acc5 Acc6 Acc7 Acc.
From ASModel Require Import ProtDefs Prot1 Prot11 Prot16 Prot Typed LinDefs Lin2 Lin.
From ASModel Require Import Safe1 Safe2 Safe7 Safe8 Safe.

(** ** Hypotheses on the program *)
(** The handle that receives the result of a thread's current command is empty (or it is the
    handle that the command, not yet started, consumes). *)
Definition DstEmpty (s : state) : Prop :=
  forall t c h, t_status (thr s t) = Running ->
    nth_error (t_prog (thr s t)) (N.to_nat (t_cmdi (thr s t))) = Some c -> cmd_dst c = Some h ->
    hnd s h = HEmpty \/ (t_stack (thr s t) = [] /\ cmd_src c = Some h).

Definition ProgOK (s : state) : Prop :=
  NoSetGen s /\ NoCacheP s /\ DstEmpty s /\ CloneSrcCmd s.

Lemma DstEmpty_DestFree s : DstEmpty s -> DestFree s.
Proof.
  intros H t c h Hr Hc Hd. destruct (H t c h Hr Hc Hd) as [E|E]; [left; rewrite E; reflexivity|right; exact E].
Qed.

Lemma DstEmpty_DstFresh s : Quiet s -> ProtInv' s -> DstEmpty s -> DstFresh s.
Proof.
  intros Q PI H. split.
  - intros t h Hin.
    destruct (status_running_dec (t_status (thr s t))) as [Hr|Hr].
    2:{ destruct (q_stop _ Q t Hr) as [Hs _]. rewrite Hs in Hin. destruct Hin. }
    destruct (q_dst _ PI t (KDone (Some h)) h Hin eq_refl) as (c & Hc & Hd).
    destruct (H t c h Hr Hc Hd) as [E|[Hs _]]; [exact E|]. rewrite Hs in Hin. destruct Hin.
  - intros t c Hr Hs Hc _. destruct c; try exact I; cbn [cmd_dst_ok].
    + destruct (H t _ h2 Hr Hc eq_refl) as [E|[_ E]]; [left; exact E|discriminate E].
    + destruct (H t _ h2 Hr Hc eq_refl) as [E|[_ E]]; [left; exact E|]. injection E as ->. right. reflexivity.
    + destruct (H t _ h2 Hr Hc eq_refl) as [E|[_ E]]; [left; exact E|]. injection E as ->. right. reflexivity.
Qed.

(** ** The master invariant *)
Record Master (s : state) : Prop := {
  m_wf : WF2 s;
  m_quiet : Quiet s;
  m_gen : GenInv s;
  m_env : EnvInv s;
  m_ctl : CtlFresh s;
  m_acc : AccInv s;
  m_prot : ProtInv' s;
  m_typed : ASModel.Typed.Typed s;
  m_val : ValOK s;
  m_clone : CloneCmd s;
  m_nofault : NoFault s;
}.

Lemma Master_CloneSrc s : Master s -> ProgOK s -> CloneSrc s.
Proof. intros M (_ & _ & _ & CS). apply CloneSrcCmd_CloneSrc; [apply M|exact CS]. Qed.

Lemma Master_EnvInvQ s : Master s -> EnvInvQ s.
Proof. intros M. constructor; [constructor|..]; apply M. Qed.

Definition progs_ok (progs : list (list cmd)) : Prop :=
  (forall p, In p progs -> forall g, ~ In (CSetGen g) p) /\ progs_nocache progs.

Theorem Master_init inits progs : inits_ok inits -> progs_ok progs -> Master (init_state inits progs).
Proof.
  intros Hi [Hg Hc]. destruct (EnvInvQ_init inits progs Hg) as [[W Q GI] EI CF].
  constructor; try assumption.
  - apply AccInv_init'.
  - apply ProtInv'_init.
  - apply Typed_init.
  - apply ValOK_init. exact Hi.
  - apply CloneCmd_init.
  - intros t. cbn. destruct (init_threads_stack progs 0 (fun _ => no_thread) t) as (_ & _ & [-> | ->]); [cbn; auto|discriminate..].
Qed.

Theorem step_Master cf s t x :
  GenBound s -> ProgOK s -> alloc_ok s t x -> Master s -> Master (fst (step cf s t x)).
Proof.
  intros GB PO AO M. pose proof (Master_CloneSrc s M PO) as CS. destruct PO as (NS & NC & DE & _).
  pose proof (step_NoFault cf s t x (m_acc _ M) (m_prot _ M) (m_val _ M) (m_typed _ M) CS (m_nofault _ M) AO) as NF.
  assert (Hcalm : Calm s) by (apply Calm_split; split; assumption).
  pose proof (Master_EnvInvQ s M) as EQ.
  destruct (step_EnvInvQ cf s t x Hcalm EQ NF) as [[W' Q' GI'] EI' CF'].
  constructor; try assumption.
  - apply step_AccInv; [apply M|apply M|apply EnvInvQ_EnvFree; exact EQ|apply EnvInvQ_EnvA; exact EQ| |apply M|exact NF].
    split; [exact NC|]. apply DstEmpty_DstFresh; [apply M|apply M|exact DE].
  - apply step_ProtInv'; [apply M|apply M|apply DstEmpty_DestFree; exact DE|apply M|exact NF].
  - apply step_Typed0. apply M.
  - apply step_ValOK. apply M.
  - apply step_CloneCmd. apply M.
Qed.

(** ** Runs *)
Definition St (cf : config) (s0 : state) (sched : list (N * N)) (k : nat) : state :=
  run_state cf s0 (firstn k sched).

Lemma St_step cf s0 sched k t x :
  nth_error sched k = Some (t, x) -> St cf s0 sched (S k) = fst (step cf (St cf s0 sched k) t x).
Proof. intros H. unfold St. rewrite (firstn_succ_nth _ _ _ H), run_state_snoc. reflexivity. Qed.

Lemma St_end cf s0 sched k : nth_error sched k = None -> St cf s0 sched (S k) = St cf s0 sched k.
Proof.
  intros H. apply nth_error_None in H. unfold St. rewrite !firstn_all2 by lia. reflexivity.
Qed.

Lemma St_all cf s0 sched : St cf s0 sched (length sched) = run_state cf s0 sched.
Proof. unfold St. rewrite firstn_all. reflexivity. Qed.

Theorem run_Master cf s0 sched :
  Master s0 ->
  (forall k, GenBound (St cf s0 sched k) /\ ProgOK (St cf s0 sched k)) ->
  (forall k t x, nth_error sched k = Some (t, x) -> alloc_ok (St cf s0 sched k) t x) ->
  forall k, Master (St cf s0 sched k).
Proof.
  intros M0 Hh Ha. induction k as [|k IH]; [exact M0|].
  destruct (nth_error sched k) as [[t x]|] eqn:Hk.
  - rewrite (St_step _ _ _ _ _ _ Hk). destruct (Hh k) as [GB PO].
    apply step_Master; [exact GB|exact PO|exact (Ha k t x Hk)|exact IH].
  - rewrite (St_end _ _ _ _ Hk). exact IH.
Qed.

Corollary run_Master_end cf s0 sched :
  Master s0 ->
  (forall k, GenBound (St cf s0 sched k) /\ ProgOK (St cf s0 sched k)) ->
  (forall k t x, nth_error sched k = Some (t, x) -> alloc_ok (St cf s0 sched k) t x) ->
  Master (run_state cf s0 sched).
Proof. intros M0 Hh Ha. rewrite <- St_all. apply run_Master; assumption. Qed.

(** ** Runs from an initial state *)
Record RunOK (cf : config) (inits : list N) (progs : list (list cmd)) (sched : list (N * N)) : Prop := {
  ro_inits : inits_ok inits;
  ro_progs : progs_ok progs;
  ro_state : forall k, let s := St cf (init_state inits progs) sched k in
                       GenBound s /\ DstEmpty s /\ CloneSrcCmd s;
  ro_alloc : forall k t x, nth_error sched k = Some (t, x) ->
                           alloc_ok (St cf (init_state inits progs) sched k) t x;
}.

Lemma RunOK_ProgOK cf inits progs sched :
  RunOK cf inits progs sched -> forall k, ProgOK (St cf (init_state inits progs) sched k).
Proof.
  intros [Hi [Hg Hc] Hs _] k. destruct (Hs k) as (_ & DE & CS). split; [|split; [|split]]; try assumption.
  - apply NoSetGen_run. apply NoSetGen_init. exact Hg.
  - apply NoCacheP_run. apply NoCacheP_init. exact Hc.
Qed.

Theorem RunOK_Master cf inits progs sched :
  RunOK cf inits progs sched -> forall k, Master (St cf (init_state inits progs) sched k).
Proof.
  intros R. apply run_Master.
  - apply Master_init; apply R.
  - intros k. split; [apply (ro_state _ _ _ _ R k)|apply RunOK_ProgOK; exact R].
  - apply R.
Qed.

Corollary RunOK_Master_end cf inits progs sched :
  RunOK cf inits progs sched -> Master (run_state cf (init_state inits progs) sched).
Proof. intros R. rewrite <- St_all. apply RunOK_Master. exact R. Qed.

Lemma nth_error_firstn_some {A} (l : list A) : forall m k a,
  nth_error (firstn m l) k = Some a -> nth_error l k = Some a /\ (k < m)%nat.
Proof.
  induction l as [|b l IH]; intros [|m] [|k] a H; try discriminate H.
  - cbn in H. injection H as ->. split; [reflexivity|lia].
  - cbn in H. destruct (IH m k a H). split; [assumption|lia].
Qed.

Lemma RunOK_prefix cf inits progs sched m : RunOK cf inits progs sched -> RunOK cf inits progs (firstn m sched).
Proof.
  intros [Hi Hp Hs Ha]. constructor; [exact Hi|exact Hp| |].
  - intros k. unfold St. rewrite firstn_firstn. apply Hs.
  - intros k t x Hk. unfold St. rewrite firstn_firstn.
    destruct (nth_error_firstn_some _ _ _ _ Hk) as [Hk' Hlt]. rewrite Nat.min_l by lia. apply Ha. exact Hk'.
Qed.

(** * End-to-end corollaries *)

(** ** (a) C01: no use after free *)
Lemma step_fault_event cf s t x f :
  In (EvFault f) (snd (step cf s t x)) ->
  f = FBadChoice \/
  exists p rest s1 l1 evs,
    t_status (thr s t) = Running /\ t_stack (thr s t) = p :: rest /\
    exec cf (sh s) (t_loc (thr s t)) p x = (s1, l1, evs, NFault f).
Proof.
  unfold step. destruct (t_status (thr s t)) eqn:Hr; try (intros [[= <-]|[]]; left; reflexivity).
  destruct (t_stack (thr s t)) as [|p rest] eqn:Hst.
  - destruct (nth_error _ _) as [c|].
    + destruct (cmd_enabled s c); [|intros [[= <-]|[]]; left; reflexivity].
      destruct (cmd_start cf s (t_loc (thr s t)) c) as [[[[s' l'] stk] r]|ps].
      * destruct stk; cbn; intros Hin; intuition discriminate.
      * cbn. intros Hin; intuition discriminate.
    + destruct (tl_node _); cbn; intros Hin; intuition discriminate.
  - destruct (exec cf (sh s) (t_loc (thr s t)) p x) as [[[s1 l1] evs] nx] eqn:He.
    pose proof (exec_evs_plain _ _ _ _ _ _ _ _ _ He) as Hp.
    assert (Hevs : ~ In (EvFault f) evs).
    { intros Hin. exact (proj1 (Forall_forall _ _) Hp _ Hin). }
    unfold finish. destruct nx as [p'|fs w|v|ps|f']; cbn [snd]; try (intros Hin; elim (Hevs Hin)).
    + destruct (unwind cf l1 rest v) as [| | | |l2 f'] eqn:Hu; cbn [snd]; try (intros Hin; elim (Hevs Hin)).
      all: intros Hin; apply in_app_or in Hin as [Hin|[Hin|[]]]; try (elim (Hevs Hin)); try discriminate Hin.
      injection Hin as ->. left. eapply unwind_fault. exact Hu.
    + intros Hin; apply in_app_or in Hin as [Hin|[Hin|[]]]; [elim (Hevs Hin)|discriminate Hin].
    + intros Hin; apply in_app_or in Hin as [Hin|[Hin|[]]]; [elim (Hevs Hin)|].
      injection Hin as ->. right. exists p, rest, s1, l1, evs. auto.
Qed.

Definition dead_fault (f : fault) : Prop := exists a, f = FDeadInc a \/ f = FDeadDec a.

Theorem step_no_dead_event cf s t x f :
  Master s -> ProgOK s -> dead_fault f -> ~ In (EvFault f) (snd (step cf s t x)).
Proof.
  intros M PO (a & Hf) Hin. pose proof (Master_CloneSrc s M PO) as CS. destruct (step_fault_event _ _ _ _ _ Hin) as [->|(p & rest & s1 & l1 & evs & Hr & Hst & He)].
  - destruct Hf; discriminate.
  - destruct (no_dead_access cf s t x p rest s1 l1 evs _ (m_acc _ M) (m_prot _ M) (m_val _ M) CS Hr Hst He a) as [H1 H2].
    destruct Hf as [->| ->]; [apply H1|apply H2]; reflexivity.
Qed.

Lemma run_events cf (P : list event -> Prop) : forall sched s,
  (forall k t x, nth_error sched k = Some (t, x) -> P (snd (step cf (St cf s sched k) t x))) ->
  forall te, In te (snd (run cf s sched)) -> P (snd te).
Proof.
  induction sched as [|[t x] sched IH]; intros s H te; [intros []|].
  cbn [run]. pose proof (H 0%nat t x eq_refl) as H0. unfold St in H0. cbn in H0.
  destruct (step cf s t x) as [s1 evs] eqn:Hs. specialize (IH s1).
  destruct (run cf s1 sched) as [s2 tr]. cbn [snd] in *.
  intros [<-|Hin]; [exact H0|]. apply IH; [|exact Hin].
  intros k t' x' Hk. specialize (H (S k) t' x' Hk). unfold St in *. cbn [firstn] in H.
  rewrite run_state_cons, Hs in H. exact H.
Qed.

Theorem C01_no_use_after_free cf inits progs sched :
  RunOK cf inits progs sched ->
  NoFault (run_state cf (init_state inits progs) sched) /\
  forall te, In te (snd (run cf (init_state inits progs) sched)) ->
    forall a, ~ In (EvFault (FDeadInc a)) (snd te) /\ ~ In (EvFault (FDeadDec a)) (snd te).
Proof.
  intros R. split; [apply (RunOK_Master_end _ _ _ _ R)|].
  apply (run_events cf (fun evs => forall a, ~ In (EvFault (FDeadInc a)) evs /\ ~ In (EvFault (FDeadDec a)) evs)).
  intros k t x Hk a.
  pose proof (RunOK_Master _ _ _ _ R k) as M. pose proof (RunOK_ProgOK _ _ _ _ R k) as PO.
  split; apply step_no_dead_event; try assumption; exists a; auto.
Qed.

(** With a scheduler that only picks enabled threads, no step emits any fault event. *)
Theorem step_no_fault_event cf s t x f :
  Master s -> ProgOK s -> alloc_ok s t x -> enabled s t = true -> ~ In (EvFault f) (snd (step cf s t x)).
Proof.
  intros M PO AO Hen Hin.
  destruct (step_fault_event _ _ _ _ _ Hin) as [->|(p & rest & s1 & l1 & evs & Hr & Hst & He)].
  - exact (step_no_bad_choice cf s t x (m_typed _ M) Hen Hin).
  - destruct (exec_fault _ _ _ _ _ _ _ _ _ f He eq_refl) as [Hd|[(-> & Hp & Hnone)| ->]].
    + exact (step_no_dead_event cf s t x f M PO Hd Hin).
    + unfold alloc_ok in AO. rewrite Hst in AO.
      destruct Hp as [->|(c & m & v & d & ->)]; destruct AO as [A1 A2]; exact (rc_alloc_some _ _ A1 A2 Hnone).
    + exact (step_no_bad_choice cf s t x (m_typed _ M) Hen Hin).
Qed.

Theorem C01_no_fault_events cf inits progs sched :
  RunOK cf inits progs sched ->
  (forall k t x, nth_error sched k = Some (t, x) -> enabled (St cf (init_state inits progs) sched k) t = true) ->
  forall te, In te (snd (run cf (init_state inits progs) sched)) -> forall f, ~ In (EvFault f) (snd te).
Proof.
  intros R Hen. apply (run_events cf (fun evs => forall f, ~ In (EvFault f) evs)).
  intros k t x Hk f. apply step_no_fault_event.
  - apply (RunOK_Master _ _ _ _ R k).
  - apply (RunOK_ProgOK _ _ _ _ R k).
  - apply (ro_alloc _ _ _ _ R k t x Hk).
  - apply (Hen k t x Hk).
Qed.

(** ** (b) C02: exact accounting *)
Theorem C02_accounting cf inits progs sched :
  RunOK cf inits progs sched -> Acc (run_state cf (init_state inits progs) sched).
Proof. intros R. apply ai_acc. apply m_acc. apply RunOK_Master_end. exact R. Qed.

Theorem C02_quiescent_counts cf inits progs sched a :
  RunOK cf inits progs sched ->
  let s := run_state cf (init_state inits progs) sched in
  Quiescent s -> valid a ->
  exists nS nC nH,
    Total (fun ij : N * N => is a (mem (sh s) (LSlot (fst ij) (snd ij)))) nS /\
    Total (fun c : N => is a (mem (sh s) (LStore c))) nC /\
    Total (fun h : N => href a (hnd s h)) nH /\
    mem (sh s) (LCount a) + nS = nC + nH.
Proof.
  intros R s Hq Ha. pose proof (RunOK_Master_end _ _ _ _ R) as M.
  apply quiescent_counts; [apply M|apply M|apply M|exact Hq|exact Ha].
Qed.

Theorem C02_no_owner_destroyed cf inits progs sched a :
  RunOK cf inits progs sched ->
  let s := run_state cf (init_state inits progs) sched in
  Quiescent s -> valid a ->
  (forall c, mem (sh s) (LStore c) <> a) -> (forall h, href a (hnd s h) = 0) ->
  mem (sh s) (LCount a) = 0 /\ heap (sh s) a = None /\ forall n j, mem (sh s) (LSlot n j) <> a.
Proof.
  intros R s Hq Ha Hc Hh. pose proof (RunOK_Master_end _ _ _ _ R) as M.
  apply no_owner_destroyed; [apply M|apply M|apply M|exact Hq|exact Ha|exact Hc|exact Hh].
Qed.

(** ** (c) C10: a guard (or an owned pointer) keeps its value alive, and the value keeps its identity *)
Theorem C10_guard_keeps_value s h a :
  Master s -> (hnd s h = HOwned a \/ exists d, hnd s h = HGuard a d) -> valid a ->
  heap (sh s) a <> None.
Proof.
  intros M Hh Ha Hn. apply (ai_alive _ (m_acc _ M)) in Hn.
  enough (1 <= mem (sh s) (LCount a)) by lia.
  destruct Hh as [Hh|([[n j]|] & Hh)].
  - apply (owner_alive s (m_acc _ M) (m_prot _ M) a (IHandle h) Ha).
    cbn [Safe6.Ow]. unfold Safe4.Cw. cbn [Safe4.cls]. rewrite Hh. cbn. rewrite is_same. lia.
  - apply (claim_alive s (m_acc _ M) (m_prot _ M) a (IHandle h) n j Ha); [|discriminate].
    cbn [Safe4.cls]. rewrite Hh. left. reflexivity.
  - apply (owner_alive s (m_acc _ M) (m_prot _ M) a (IHandle h) Ha).
    cbn [Safe6.Ow]. unfold Safe4.Cw. cbn [Safe4.cls]. rewrite Hh. cbn. rewrite is_same. lia.
Qed.

(** An address keeps its object over a step unless the object is destroyed: no step replaces
    a live object by another one. *)
Definition heap_stable (s s' : shared) : Prop :=
  forall b o o', heap s b = Some o -> heap s' b = Some o' -> o = o'.

Lemma heap_stable_same s s' : heap s' = heap s -> heap_stable s s'.
Proof. intros E b o o' H1 H2. rewrite E in H2. congruence. Qed.

Lemma rc_inc_heap s a s' evs : rc_inc s a = Some (s', evs) -> heap_stable s s'.
Proof. unfold rc_inc. destruct (heap s a); [|discriminate]. intros [= <- _]. apply heap_stable_same. reflexivity. Qed.

Lemma rc_dec_heap s a s' evs : rc_dec s a = Some (s', evs) -> heap_stable s s'.
Proof.
  unfold rc_dec. destruct (heap s a); [|discriminate]. destruct (_ =? 1); intros [= <- _].
  - intros b o o' H1 H2. cbn in H2. unfold upd in H2. destruct (decide (b = a)); [discriminate|congruence].
  - apply heap_stable_same. reflexivity.
Qed.

Lemma rc_alloc_heap s a s' evs : rc_alloc s a = Some (s', evs) -> heap_stable s s'.
Proof.
  unfold rc_alloc. destruct (heap s a) eqn:Hh; [discriminate|]. destruct (valid_addr a); [|discriminate].
  intros [= <- _] b o o' H1 H2. cbn in H2. unfold upd in H2. destruct (decide (b = a)) as [->|]; congruence.
Qed.

Lemma exec_heap cf s l p x s' l' evs nx : exec cf s l p x = (s', l', evs, nx) -> heap_stable s s'.
Proof.
  intros He. destruct p; exec_norm He.
  all: try (apply heap_stable_same; reflexivity).
  all: first [eapply rc_inc_heap; eassumption | eapply rc_dec_heap; eassumption | eapply rc_alloc_heap; eassumption].
Qed.

Lemma step_heap cf s t x : heap_stable (sh s) (sh (fst (step cf s t x))).
Proof.
  destruct (step_cases cf s t x) as [E|c s1 l1 stk r Hr Hst Hc Hen Hcs E|n Hr Hst Hn E|Hr Hst Hn E|p rest s1 l1 evs nx Hr Hst He E];
    rewrite E; try (apply heap_stable_same; reflexivity).
  - apply heap_stable_same. cbn. eapply cmd_start_heap. exact Hcs.
  - cbn. eapply exec_heap. exact He.
Qed.

Theorem C10_guard_keeps_identity cf s t x h a :
  GenBound s -> ProgOK s -> alloc_ok s t x -> Master s ->
  (hnd s h = HOwned a \/ exists d, hnd s h = HGuard a d) -> valid a ->
  hnd (fst (step cf s t x)) h = hnd s h ->
  heap (sh (fst (step cf s t x))) a = heap (sh s) a /\ heap (sh s) a <> None.
Proof.
  intros GB PO AO M Hh Ha Hsame.
  pose proof (step_Master cf s t x GB PO AO M) as M'.
  pose proof (C10_guard_keeps_value s h a M Hh Ha) as H1.
  assert (Hh' : hnd (fst (step cf s t x)) h = HOwned a \/ exists d, hnd (fst (step cf s t x)) h = HGuard a d)
    by (rewrite Hsame; exact Hh).
  pose proof (C10_guard_keeps_value _ h a M' Hh' Ha) as H2.
  split; [|exact H1].
  destruct (heap (sh s) a) as [o|] eqn:E1; [|congruence].
  destruct (heap (sh (fst (step cf s t x))) a) as [o'|] eqn:E2; [|congruence].
  f_equal. symmetry. exact (step_heap cf s t x a o o' E1 E2).
Qed.

(** ** (d) C03: loads are linearizable *)
Section Loads.
Variables (cf : config) (inits : list N) (progs : list (list cmd)) (sched : list (N * N)).
Hypothesis R : RunOK cf inits progs sched.
Local Notation s0 := (init_state inits progs).

Lemma RunOK_Calm : prefix_ok Calm cf s0 sched.
Proof.
  intros k. apply Calm_split. split; [apply (ro_state _ _ _ _ R k)|apply (RunOK_ProgOK _ _ _ _ R k)].
Qed.

Lemma RunOK_EnvFree : prefix_ok EnvFree cf s0 sched.
Proof. intros k. apply EnvInvQ_EnvFree. apply Master_EnvInvQ. apply (RunOK_Master _ _ _ _ R k). Qed.

Lemma RunOK_EnvA : prefix_ok EnvA cf s0 sched.
Proof. intros k. apply EnvInvQ_EnvA. apply Master_EnvInvQ. apply (RunOK_Master _ _ _ _ R k). Qed.

(** Command number [i] of thread [t] is [load]/[load_full] of container [c] into handle [h];
    it starts with the step at position [pa] of the schedule and completes with the step at
    position [pb].  Then [h] holds a guard / an owned pointer on a value [v] that the
    container [c] stored in one of the states between the call and the return. *)
Theorem C03_load_linearizable t i cm c h pa pb xa tb xb :
  nth_error (t_prog (thr s0 t)) (N.to_nat i) = Some cm -> is_load_of cm c h ->
  (pa <= pb)%nat ->
  nth_error sched pa = Some (t, xa) ->
  t_status (thr (St cf s0 sched pa) t) = Running -> t_stack (thr (St cf s0 sched pa) t) = [] ->
  t_cmdi (thr (St cf s0 sched pa) t) = i ->
  nth_error sched pb = Some (tb, xb) ->
  t_cmdi (thr (St cf s0 sched pb) t) = i -> t_cmdi (thr (St cf s0 sched (S pb)) t) = i + 1 ->
  exists v, (match cm with
             | CLoad _ _ => exists d, hnd (St cf s0 sched (S pb)) h = HGuard v d
             | _ => hnd (St cf s0 sched (S pb)) h = HOwned v
             end) /\
    exists k, (pa + 1 <= k <= pb + 1)%nat /\ mem (sh (St cf s0 sched k)) (LStore c) = v.
Proof.
  unfold St. apply (load_linearizable_total cf inits progs (proj1 (ro_progs _ _ _ _ R)) sched
                      RunOK_Calm RunOK_EnvFree RunOK_EnvA (m_nofault _ (RunOK_Master_end _ _ _ _ R))).
Qed.

(** ** (e) C12: a load returns a value of ITS OWN container *)
Theorem C12_load_own_container t i c h full pa pb xa tb xb :
  nth_error (t_prog (thr s0 t)) (N.to_nat i) = Some (if full : bool then CLoadFull c h else CLoad c h) ->
  (pa <= pb)%nat ->
  nth_error sched pa = Some (t, xa) ->
  t_status (thr (St cf s0 sched pa) t) = Running -> t_stack (thr (St cf s0 sched pa) t) = [] ->
  t_cmdi (thr (St cf s0 sched pa) t) = i ->
  nth_error sched pb = Some (tb, xb) ->
  t_cmdi (thr (St cf s0 sched pb) t) = i -> t_cmdi (thr (St cf s0 sched (S pb)) t) = i + 1 ->
  exists v k, handle_ptr (hnd (St cf s0 sched (S pb)) h) = Some v /\
              (pa + 1 <= k <= pb + 1)%nat /\ mem (sh (St cf s0 sched k)) (LStore c) = v.
Proof.
  intros Hcm Hab Ha Hra Hsa Hia Hb Hib Hib'.
  assert (Hld : is_load_of (if full then CLoadFull c h else CLoad c h) c h) by (destruct full; [right|left]; reflexivity).
  destruct (C03_load_linearizable t i _ c h pa pb xa tb xb Hcm Hld Hab Ha Hra Hsa Hia Hb Hib Hib') as (v & Hh & k & Hk & Hm).
  exists v, k. split; [|split; assumption].
  destruct full; [rewrite Hh; reflexivity|destruct Hh as [d ->]; reflexivity].
Qed.
End Loads.

Print Assumptions Master_init.
Print Assumptions step_Master.
Print Assumptions run_Master.
Print Assumptions RunOK_Master.
Print Assumptions C01_no_use_after_free.
Print Assumptions C01_no_fault_events.
Print Assumptions C02_accounting.
Print Assumptions C02_quiescent_counts.
Print Assumptions C02_no_owner_destroyed.
Print Assumptions C10_guard_keeps_value.
Print Assumptions C10_guard_keeps_identity.
Print Assumptions C03_load_linearizable.
Print Assumptions C12_load_own_container.
