(** * ASModel.ProgWF — the program-side hypotheses of [RunOK] ([DstEmpty], [CloneSrcCmd]) follow
    from a STATIC well-formedness condition on the test programs ([progs_wf], ProgWF1); the
    headline theorems for [RunStatic] runs: hypotheses on the initial values, the program text,
    the length of the schedule and the allocator only. *)
From Coq Require Import Lia.
From ASModel Require Import Base State Orderings_gen Step Run Progress Hist Inv InvTl InvProto InvStep Sum StepCases.
From ASModel Require Import GenDefs Gen1 Gen2 Gen AccDefs Acc Prot11 Prot12 LinDefs Lin Safe2 Safe8 Safe Main GenLen RunOKEx.
From ASModel Require Import ProgWF1 ProgWF2 ProgWF3.

(** ** The hypotheses of [RunOK] from the invariant *)
Theorem PInv_DstEmpty progs s :
  (forall p, In p progs -> flow [] p) -> PInv progs s -> DstEmpty s.
Proof.
  intros HF PI t c h Hr Hc Hd.
  assert (Hfl : flow [] (t_prog (thr s t))).
  { rewrite (pi_prog _ _ PI). destruct (nth_in_or_default (N.to_nat t) progs []) as [H|H]; [apply HF; exact H|].
    rewrite H. exact I. }
  assert (Hin : In h (prog_handles (t_prog (thr s t)))).
  { eapply uses_in_prog; [exact Hc|]. apply dst_in_uses. exact Hd. }
  assert (Hcur : hnd s h <> HEmpty -> In h (cur_env (thr s t))) by (apply (pi_hnd _ _ PI); assumption).
  assert (Hdec : hnd s h = HEmpty \/ hnd s h <> HEmpty) by (destruct (hnd s h); auto; right; discriminate).
  destruct Hdec as [He|Hn]; [left; exact He|]. specialize (Hcur Hn). unfold cur_env in Hcur. rewrite Hc in Hcur.
  destruct (flow_at _ _ _ Hfl Hc h Hd) as [Hfree|Hsrc].
  - exfalso. apply Hfree. destruct (t_stack (thr s t)); [exact Hcur|]. apply remk_In in Hcur. apply Hcur.
  - destruct (t_stack (thr s t)); [right; split; [reflexivity|exact Hsrc]|].
    exfalso. apply remk_In in Hcur. apply (proj2 Hcur). apply src_in_kills. exact Hsrc.
Qed.

Theorem PInv_CloneSrcCmd progs s : PInv progs s -> CloneSrcCmd s.
Proof.
  intros PI t h h2 a rest Hr Hc Hst. apply (pi_clone _ _ PI t a h h2 Hr); [|exact Hc].
  rewrite Hst. left. reflexivity.
Qed.

(** ** The two program hypotheses hold in every state of every run *)
Theorem progs_wf_PInv progs : progs_wf progs ->
  forall cf inits sched, PInv progs (run_state cf (init_state inits progs) sched).
Proof. intros [HD _] cf inits sched. apply run_PInv; [exact HD|apply PInv_init]. Qed.

Theorem progs_wf_DstEmpty progs : progs_wf progs ->
  forall cf inits sched, DstEmpty (run_state cf (init_state inits progs) sched).
Proof.
  intros W cf inits sched. apply (PInv_DstEmpty progs); [apply W|apply progs_wf_PInv; exact W].
Qed.

Theorem progs_wf_CloneSrcCmd progs : progs_wf progs ->
  forall cf inits sched, CloneSrcCmd (run_state cf (init_state inits progs) sched).
Proof. intros W cf inits sched. apply (PInv_CloneSrcCmd progs). apply progs_wf_PInv. exact W. Qed.

(** ** Runs described by static hypotheses only *)
Record RunStatic (cf : config) (inits : list N) (progs : list (list cmd)) (sched : list (N * N)) : Prop := {
  rs_inits : inits_ok inits;
  rs_progs : progs_ok progs;
  rs_wf : progs_wf progs;
  rs_len : 4 * N.of_nat (length sched) + 4 < WORD;
  rs_alloc : forall k t x, nth_error sched k = Some (t, x) ->
                           alloc_ok (St cf (init_state inits progs) sched k) t x;
}.

Theorem RunStatic_RunOKLen cf inits progs sched :
  RunStatic cf inits progs sched -> RunOKLen cf inits progs sched.
Proof.
  intros [Hi Hp Hw Hl Ha]. constructor; try assumption.
  intros k. cbn zeta. unfold St. split; [apply progs_wf_DstEmpty|apply progs_wf_CloneSrcCmd]; exact Hw.
Qed.

Corollary RunStatic_RunOK cf inits progs sched :
  RunStatic cf inits progs sched -> RunOK cf inits progs sched.
Proof. intros R. apply RunOKLen_RunOK. apply RunStatic_RunOKLen. exact R. Qed.

Corollary RunStatic_Master cf inits progs sched :
  RunStatic cf inits progs sched -> forall k, Master (St cf (init_state inits progs) sched k).
Proof. intros R. apply RunOKLen_Master. apply RunStatic_RunOKLen. exact R. Qed.

(** ** The headline theorems *)
Theorem C01_no_use_after_free_static cf inits progs sched :
  RunStatic cf inits progs sched ->
  NoFault (run_state cf (init_state inits progs) sched) /\
  forall te, In te (snd (run cf (init_state inits progs) sched)) ->
    forall a, ~ In (EvFault (FDeadInc a)) (snd te) /\ ~ In (EvFault (FDeadDec a)) (snd te).
Proof. intros R. apply C01_no_use_after_free_len. apply RunStatic_RunOKLen. exact R. Qed.

Theorem C02_accounting_static cf inits progs sched :
  RunStatic cf inits progs sched -> Acc (run_state cf (init_state inits progs) sched).
Proof. intros R. apply C02_accounting_len. apply RunStatic_RunOKLen. exact R. Qed.

Theorem C03_load_linearizable_static cf inits progs sched :
  RunStatic cf inits progs sched ->
  let s0 := init_state inits progs in
  forall t i cm c h pa pb xa tb xb,
  nth_error (t_prog (thr s0 t)) (N.to_nat i) = Some cm -> is_load_of cm c h ->
  (pa <= pb)%nat ->
  nth_error sched pa = Some (t, xa) ->
  t_status (thr (St cf s0 sched pa) t) = Running -> t_stack (thr (St cf s0 sched pa) t) = [] ->
  t_cmdi (thr (St cf s0 sched pa) t) = i ->
  nth_error sched pb = Some (tb, xb) ->
  t_cmdi (thr (St cf s0 sched pb) t) = i -> t_cmdi (thr (St cf s0 sched (S pb)) t) = i + 1 ->
  exists v, (match cm with
             | CLoad _ _ => exists d, hnd (St cf s0 sched (S pb)) h = HGuard v d
             | _ => hnd (St cf s0 sched (S pb)) h = HOwned v
             end) /\
    exists k, (pa + 1 <= k <= pb + 1)%nat /\ mem (sh (St cf s0 sched k)) (LStore c) = v.
Proof.
  intros R s0. apply (C03_load_linearizable_len cf inits progs sched (RunStatic_RunOKLen _ _ _ _ R)).
Qed.

(** ** The boolean checker *)
Definition dst_free_b (E : list N) (c : cmd) : bool :=
  match cmd_dst c with
  | None => true
  | Some h => negb (memb h E) || match cmd_src c with Some h' => h' =? h | None => false end
  end.

Fixpoint flow_b (E : list N) (p : list cmd) : bool :=
  match p with
  | [] => true
  | c :: p' => dst_free_b E c && flow_b (post E c) p'
  end.

Fixpoint disj_b (ls : list (list N)) : bool :=
  match ls with
  | [] => true
  | l :: rest => forallb (fun h => forallb (fun l' => negb (memb h l')) rest) l && disj_b rest
  end.

Definition progs_wf_b (progs : list (list cmd)) : bool :=
  disj_b (map prog_handles progs) && forallb (flow_b []) progs.

Lemma dst_free_b_sound E c : dst_free_b E c = true -> dst_free E c.
Proof.
  intros H h Hd. unfold dst_free_b in H. rewrite Hd in H. apply orb_true_iff in H as [H|H].
  - left. intros Hin. apply memb_In in Hin. rewrite Hin in H. discriminate H.
  - right. destruct (cmd_src c) as [h'|]; [|discriminate H]. apply N.eqb_eq in H. subst h'. reflexivity.
Qed.

Lemma flow_b_sound : forall p E, flow_b E p = true -> flow E p.
Proof.
  induction p as [|c p IH]; intros E H; [exact I|].
  cbn [flow_b] in H. apply andb_true_iff in H as [H1 H2].
  split; [apply dst_free_b_sound; exact H1|apply IH; exact H2].
Qed.

Lemma disj_head l rest :
  forallb (fun h => forallb (fun l' => negb (memb h l')) rest) l = true ->
  forall j h, In h l -> In h (nth j rest []) -> False.
Proof.
  intros H j h Hl Hj. destruct (nth_in_or_default j rest []) as [Hin|Hd]; [|rewrite Hd in Hj; destruct Hj].
  pose proof (proj1 (forallb_forall _ _) H h Hl) as H1.
  pose proof (proj1 (forallb_forall _ _) H1 _ Hin) as H2.
  cbn beta in H2. apply memb_In in Hj. rewrite Hj in H2. discriminate H2.
Qed.

Lemma disj_b_sound : forall ls, disj_b ls = true ->
  forall i j h, i <> j -> In h (nth i ls []) -> In h (nth j ls []) -> False.
Proof.
  induction ls as [|l rest IH]; intros H i j h Hne Hi Hj.
  - destruct i; destruct Hi.
  - cbn [disj_b] in H. apply andb_true_iff in H as [H1 H2].
    destruct i as [|i], j as [|j]; cbn [nth] in Hi, Hj.
    + elim Hne. reflexivity.
    + exact (disj_head l rest H1 j h Hi Hj).
    + exact (disj_head l rest H1 i h Hj Hi).
    + apply (IH H2 i j h); [lia|exact Hi|exact Hj].
Qed.

Theorem progs_wf_b_sound progs : progs_wf_b progs = true -> progs_wf progs.
Proof.
  intros H. apply andb_true_iff in H as [H1 H2]. split.
  - intros t1 t2 h Hne Hi Hj.
    rewrite <- (map_nth prog_handles progs [] t1) in Hi. rewrite <- (map_nth prog_handles progs [] t2) in Hj.
    exact (disj_b_sound _ H1 t1 t2 h Hne Hi Hj).
  - intros p Hp. apply flow_b_sound. exact (proj1 (forallb_forall _ _) H2 p Hp).
Qed.

(** Single assignment is a special case: a program whose destinations are pairwise distinct
    passes the analysis. *)
Lemma flow_single_assignment : forall p E,
  List.NoDup (flat_map dst_hs p) -> (forall h, In h E -> ~ In h (flat_map dst_hs p)) -> flow E p.
Proof.
  induction p as [|c p IH]; intros E ND HE; [exact I|].
  cbn [flat_map] in ND, HE. split.
  - intros h Hd. left. intros Hin. apply (HE h Hin). apply in_or_app. left. unfold dst_hs. rewrite Hd. left. reflexivity.
  - assert (ND' : List.NoDup (flat_map dst_hs p) /\ forall h, In h (dst_hs c) -> ~ In h (flat_map dst_hs p)).
    { unfold dst_hs in *. destruct (cmd_dst c) as [h'|]; cbn in ND; [|split; [exact ND|intros h []]].
      inversion ND as [|? ? Hn ND1]. split; [exact ND1|]. intros h [<-|[]]. exact Hn. }
    destruct ND' as [ND1 ND2]. apply IH; [exact ND1|].
    intros h Hin Hp. unfold post in Hin. apply in_app_or in Hin as [Hin|Hin].
    + exact (ND2 h Hin Hp).
    + apply remk_In in Hin as [Hin _]. apply (HE h Hin). apply in_or_app. right. exact Hp.
Qed.

Corollary single_assignment_wf progs :
  handles_disjoint progs -> (forall p, In p progs -> List.NoDup (flat_map dst_hs p)) -> progs_wf progs.
Proof. intros HD H. split; [exact HD|]. intros p Hp. apply flow_single_assignment; [apply H; exact Hp|intros h []]. Qed.

(** The programs of the example run of RunOKEx are well-formed (by computation), and the run
    satisfies [RunStatic]. *)
Example ex_progs_wf_b : progs_wf_b ex_progs = true.
Proof. vm_compute. reflexivity. Qed.

Example ex_progs_wf : progs_wf ex_progs.
Proof. apply progs_wf_b_sound. exact ex_progs_wf_b. Qed.

Example ex_RunStatic : RunStatic ex_cf ex_inits ex_progs ex_sched.
Proof.
  constructor.
  - apply (ro_inits _ _ _ _ RunOK_example).
  - apply (ro_progs _ _ _ _ RunOK_example).
  - exact ex_progs_wf.
  - vm_compute. reflexivity.
  - apply (ro_alloc _ _ _ _ RunOK_example).
Qed.

(** A program with handle reuse and a command that consumes its own destination passes; a
    program that overwrites a live handle, or shares a handle between threads, does not. *)
Example wf_reuse : progs_wf_b [[CLoad 0 1; CGuardInto 1 1; CDrop 1; CNew 1; CStore 0 (SHandle 1); CLoadFull 0 1]] = true.
Proof. vm_compute. reflexivity. Qed.
Example wf_overwrite : progs_wf_b [[CNew 1; CNew 1]] = false.
Proof. vm_compute. reflexivity. Qed.
Example wf_shared : progs_wf_b [[CNew 1]; [CClone 1 2]] = false.
Proof. vm_compute. reflexivity. Qed.

Print Assumptions progs_wf_DstEmpty.
Print Assumptions progs_wf_CloneSrcCmd.
Print Assumptions progs_wf_b_sound.
Print Assumptions RunStatic_RunOKLen.
Print Assumptions C01_no_use_after_free_static.
Print Assumptions C02_accounting_static.
Print Assumptions C03_load_linearizable_static.
Print Assumptions ex_progs_wf.
Print Assumptions ex_RunStatic.
