(** * ASModel.ProgWF1 — a static well-formedness condition on test programs: definitions,
    facts about the program text, and the handle effects of [cmd_start].

    [progs_wf progs]:
    - every handle is used by the commands of ONE thread only ([handles_disjoint]);
    - along each program, a command never names as destination a handle that MAY be
      non-empty at that point, unless the command consumes that very handle itself
      ([flow]: a forward analysis with the set of possibly non-empty handles; the handles a
      command consumes leave the set, its destination enters it).
    Single assignment (every handle is the destination of at most one command, or of a command
    that consumes it) is the special case in which the set only grows. *)
From Coq Require Import Lia.
From ASModel Require Import Base State Orderings_gen Step Run Progress Hist Inv InvTl InvProto InvStep Sum StepCases.
From ASModel Require Import GenDefs Gen1 Gen2 Gen Prot11.

(** ** Handles named by a command *)
Definition sv_hs (v : src) : list N := match v with SNull => [] | SHandle h => [h] end.

(** Handles that the command empties when it starts. *)
Definition cmd_kills (c : cmd) : list N :=
  match c with
  | CDrop h | CGuardInto h _ | CMove h _ => [h]
  | CStore _ v | CSwap _ v _ => sv_hs v
  | CCas _ _ new _ => sv_hs new
  | _ => []
  end.

(** Handles that the command only borrows. *)
Definition cmd_reads (c : cmd) : list N :=
  match c with
  | CClone h _ => [h]
  | CCas _ cur _ _ => sv_hs cur
  | _ => []
  end.

Definition dst_hs (c : cmd) : list N := match cmd_dst c with Some h => [h] | None => [] end.

Definition cmd_uses (c : cmd) : list N := cmd_reads c ++ cmd_kills c ++ dst_hs c.
Definition prog_handles (p : list cmd) : list N := flat_map cmd_uses p.

(** ** The analysis *)
Definition memb (h : N) (l : list N) : bool := existsb (N.eqb h) l.

Lemma memb_In h l : memb h l = true <-> In h l.
Proof.
  unfold memb. rewrite existsb_exists. split.
  - intros (k & Hin & E). apply N.eqb_eq in E. subst k. exact Hin.
  - intros Hin. exists h. split; [exact Hin|apply N.eqb_refl].
Qed.

Definition remk (ks E : list N) : list N := List.filter (fun h => negb (memb h ks)) E.

Lemma remk_In h ks E : In h (remk ks E) <-> In h E /\ ~ In h ks.
Proof.
  unfold remk. rewrite List.filter_In, negb_true_iff. pose proof (memb_In h ks) as M.
  destruct (memb h ks); intuition congruence.
Qed.

Definition post (E : list N) (c : cmd) : list N := dst_hs c ++ remk (cmd_kills c) E.

Definition dst_free (E : list N) (c : cmd) : Prop :=
  forall h, cmd_dst c = Some h -> ~ In h E \/ cmd_src c = Some h.

Fixpoint flow (E : list N) (p : list cmd) : Prop :=
  match p with
  | [] => True
  | c :: p' => dst_free E c /\ flow (post E c) p'
  end.

Definition handles_disjoint (progs : list (list cmd)) : Prop :=
  forall t1 t2 h, t1 <> t2 ->
    In h (prog_handles (nth t1 progs [])) -> In h (prog_handles (nth t2 progs [])) -> False.

Definition progs_wf (progs : list (list cmd)) : Prop :=
  handles_disjoint progs /\ forall p, In p progs -> flow [] p.

(** ** The set of possibly non-empty handles before command [i] *)
Definition env_from (E : list N) (p : list cmd) (i : nat) : list N := fold_left post (firstn i p) E.
Definition env_at (p : list cmd) (i : nat) : list N := env_from [] p i.

Lemma env_from_succ : forall p i E,
  env_from E p (S i) = match nth_error p i with Some c => post (env_from E p i) c | None => env_from E p i end.
Proof.
  unfold env_from. induction p as [|a p IH]; intros [|i] E; try reflexivity.
  cbn [firstn fold_left nth_error]. apply IH.
Qed.

Lemma env_at_succ p i :
  env_at p (S i) = match nth_error p i with Some c => post (env_at p i) c | None => env_at p i end.
Proof. apply env_from_succ. Qed.

Lemma flow_from : forall p E i c, flow E p -> nth_error p i = Some c -> dst_free (env_from E p i) c.
Proof.
  unfold env_from. induction p as [|a p IH]; intros E [|i] c H Hc; try discriminate Hc.
  - injection Hc as <-. exact (proj1 H).
  - cbn [firstn fold_left]. apply IH; [exact (proj2 H)|exact Hc].
Qed.

Lemma flow_at p i c : flow [] p -> nth_error p i = Some c -> dst_free (env_at p i) c.
Proof. apply flow_from. Qed.

Lemma uses_in_prog p i c h : nth_error p i = Some c -> In h (cmd_uses c) -> In h (prog_handles p).
Proof.
  intros Hc Hin. unfold prog_handles. apply in_flat_map. exists c. split; [|exact Hin].
  eapply nth_error_In. exact Hc.
Qed.

Lemma dst_in_uses c h : cmd_dst c = Some h -> In h (cmd_uses c).
Proof.
  intros H. unfold cmd_uses, dst_hs. rewrite H. apply in_or_app. right. apply in_or_app. right. left. reflexivity.
Qed.

Lemma kills_in_uses c h : In h (cmd_kills c) -> In h (cmd_uses c).
Proof. intros H. unfold cmd_uses. apply in_or_app. right. apply in_or_app. left. exact H. Qed.

Lemma src_in_kills c h : cmd_src c = Some h -> In h (cmd_kills c).
Proof. destruct c; try discriminate; intros [= <-]; left; reflexivity. Qed.

Lemma post_dst E c h : cmd_dst c = Some h -> In h (post E c).
Proof. intros H. unfold post, dst_hs. rewrite H. left. reflexivity. Qed.

Lemma post_keep E c h : In h E -> ~ In h (cmd_kills c) -> In h (post E c).
Proof. intros H1 H2. unfold post. apply in_or_app. right. apply remk_In. split; assumption. Qed.

(** ** The handle effects of [cmd_start] *)
Ltac upd_cases H :=
  repeat match type of H with
         | context [upd _ ?h _ ?k] =>
             destruct (N.eq_dec k h) as [->|?]; [rewrite upd_same in H|rewrite upd_other in H by assumption]
         end.

Lemma cmd_start_hnd_other cf s l c s1 l1 stk r k :
  cmd_start cf s l c = inl (s1, l1, stk, r) -> ~ In k (cmd_uses c) -> hnd s1 k = hnd s k.
Proof.
  intros Hc Hk.
  destruct c; cbn in Hc; destr_in Hc; try discriminate Hc; injection Hc as <- <- <- <-; try reflexivity.
  all: unfold consume; cbn [hnd].
  all: repeat match goal with |- context [match ?v with SNull => _ | SHandle _ => _ end] => destruct v; cbn [hnd] end.
  all: try reflexivity.
  all: rewrite ?upd_other; try reflexivity.
  all: try (intros ->; apply Hk; cbn; tauto).
  intros ->. apply Hk. unfold cmd_uses. rewrite !in_app_iff. cbn. tauto.
Qed.

(** A handle that is non-empty after the start of an enabled command was non-empty before and
    is not consumed by the command, or it is the destination of a command that is complete. *)
Lemma cmd_start_hnd cf s l c s1 l1 stk r :
  cmd_enabled s c = true -> cmd_start cf s l c = inl (s1, l1, stk, r) ->
  forall q, hnd s1 q <> HEmpty ->
    (hnd s q <> HEmpty /\ ~ In q (cmd_kills c)) \/ (stk = [] /\ cmd_dst c = Some q).
Proof.
  intros Hen Hc.
  destruct c; cbn in Hc, Hen; destr_in Hc; try discriminate Hc; injection Hc as <- <- <- <-; intros q Hq.
  all: unfold consume, src_val in *; cbn [hnd cmd_kills cmd_dst sv_hs] in *.
  all: repeat match goal with v : src |- _ => destruct v end; cbn [hnd cmd_kills cmd_dst sv_hs] in *.
  all: try discriminate.
  all: repeat match goal with H : hnd _ ?h = _ |- _ => rewrite H in Hen end; try discriminate Hen.
  all: upd_cases Hq.
  all: try congruence.
  all: try (right; split; reflexivity).
  all: try (left; split; [assumption|cbn; intuition congruence]).
  all: exfalso; repeat match goal with H : context [match hnd ?s0 ?h0 with _ => _ end] |- _ => destruct (hnd s0 h0) end.
  all: cbn in *; try congruence.
Qed.

(** The frame [CloneInc a] is put on the stack by [CClone h h2] with [h] holding [a]. *)
Lemma cmd_start_clone_src cf s l h h2 s1 l1 stk r a :
  cmd_start cf s l (CClone h h2) = inl (s1, l1, stk, r) -> In (CloneInc a) stk ->
  hnd s1 h = HOwned a \/ exists d, hnd s1 h = HGuard a d.
Proof.
  intros Hc Hin. cbn in Hc. destr_in Hc; injection Hc as <- <- <- <-; try (destruct Hin; fail).
  all: destruct Hin as [[= <-]|[Hin|[]]]; try discriminate Hin; cbn [hnd]; eauto.
Qed.
