(** * ASModel.ProgWF2 — the invariant [PInv] that ties the handles to the program text, and
    its preservation by every step (no hypothesis on the state: threads that panic or fault
    simply stop being [Running], and [PInv] speaks about running threads only). *)
From Coq Require Import Lia.
From ASModel Require Import Base State Orderings_gen Step Run Progress Hist Inv InvTl InvProto InvStep Sum StepCases.
From ASModel Require Import GenDefs Gen1 Gen2 Gen Prot11 Prot12 Safe8 ProgWF1.

(** The possibly non-empty handles of a thread at its current point: before its current command,
    or, when the command has started, without the handles that the command consumed. *)
Definition cur_env (th : thread) : list N :=
  let E := env_at (t_prog th) (N.to_nat (t_cmdi th)) in
  match t_stack th with
  | [] => E
  | _ :: _ => match nth_error (t_prog th) (N.to_nat (t_cmdi th)) with
              | Some c => remk (cmd_kills c) E
              | None => E
              end
  end.

Record PInv (progs : list (list cmd)) (s : state) : Prop := {
  pi_prog : forall t, t_prog (thr s t) = nth (N.to_nat t) progs [];
  pi_dst : forall t, t_status (thr s t) = Running -> dst_ok (thr s t);
  pi_hnd : forall t h, t_status (thr s t) = Running -> In h (prog_handles (t_prog (thr s t))) ->
             hnd s h <> HEmpty -> In h (cur_env (thr s t));
  pi_clone : forall t a h h2, t_status (thr s t) = Running -> In (CloneInc a) (t_stack (thr s t)) ->
             nth_error (t_prog (thr s t)) (N.to_nat (t_cmdi (thr s t))) = Some (CClone h h2) ->
             hnd s h = HOwned a \/ exists d, hnd s h = HGuard a d;
}.

(** ** The initial state *)
Lemma nth_error_default {A} (d : A) : forall l n,
  match nth_error l n with Some p => p | None => d end = nth n l d.
Proof. induction l as [|a l IH]; intros [|n]; try reflexivity. apply IH. Qed.

Lemma init_threads_prog_nth : forall progs t0 f t,
  t_prog (init_threads progs t0 f t) =
    if t <? t0 then t_prog (f t)
    else match nth_error progs (N.to_nat (t - t0)) with Some p => p | None => t_prog (f t) end.
Proof.
  induction progs as [|p progs IH]; intros t0 f t.
  - cbn [init_threads]. destruct (t <? t0); [reflexivity|]. destruct (N.to_nat (t - t0)); reflexivity.
  - cbn [init_threads]. rewrite IH.
    destruct (N.ltb_spec t (t0 + 1)) as [H1|H1]; destruct (N.ltb_spec t t0) as [H2|H2]; try lia.
    + rewrite upd_other by lia. reflexivity.
    + assert (t = t0) by lia. subst t. rewrite upd_same, N.sub_diag. reflexivity.
    + replace (N.to_nat (t - t0)) with (S (N.to_nat (t - (t0 + 1)))) by lia. cbn [nth_error].
      rewrite upd_other by lia. reflexivity.
Qed.

Lemma init_state_prog inits progs t : t_prog (thr (init_state inits progs) t) = nth (N.to_nat t) progs [].
Proof.
  cbn [init_state thr]. rewrite init_threads_prog_nth. destruct (N.ltb_spec t 0) as [H|_]; [lia|].
  rewrite N.sub_0_r. apply (nth_error_default []).
Qed.

Theorem PInv_init inits progs : PInv progs (init_state inits progs).
Proof.
  assert (Hs : forall t, t_stack (thr (init_state inits progs) t) = []).
  { intros t. cbn. apply init_threads_stack. cbn. auto. }
  constructor.
  - apply init_state_prog.
  - intros t _ f h Hin. rewrite Hs in Hin. destruct Hin.
  - intros t h _ _ Hh. elim Hh. reflexivity.
  - intros t a h h2 _ Hin. rewrite Hs in Hin. destruct Hin.
Qed.

(** ** The acting thread after a frame step that leaves it running *)
Lemma thread_after_running cf th l1 rest nx :
  t_status (thread_after cf th l1 rest nx) = Running ->
  (forall ps, nx <> NPanic ps) /\ (forall f, nx <> NFault f) /\
  (forall v, nx = NRet v -> forall l2 ps, unwind cf l1 rest v <> UPanic l2 ps) /\
  (forall v, nx = NRet v -> forall l2 f, unwind cf l1 rest v <> UFault l2 f).
Proof.
  intros H. repeat split.
  - intros ps ->. discriminate H.
  - intros f ->. discriminate H.
  - intros v -> l2 ps Hu. unfold thread_after in H. rewrite Hu in H. discriminate H.
  - intros v -> l2 f Hu. unfold thread_after in H. rewrite Hu in H. discriminate H.
Qed.

Lemma thread_after_frames cf sh0 l p x s1 l1 evs nx th rest :
  exec cf sh0 l p x = (s1, l1, evs, nx) ->
  t_status (thread_after cf th l1 rest nx) = Running ->
  forall f, In f (t_stack (thread_after cf th l1 rest nx)) -> In f rest \/ plain f = true.
Proof.
  intros He Hr. destruct (thread_after_running _ _ _ _ _ Hr) as (Hp & Hf & Hup & Huf).
  pose proof (thread_after_settle cf th l1 rest nx Hp Hf Hup Huf) as Hset.
  apply (settle_frames _ _ _ _ _ _ _ Hset). eapply exec_plain; [exact He|].
  destruct nx; cbn; try tauto; intros _; [eapply Hp|eapply Hf]; reflexivity.
Qed.

Lemma thread_after_cmdi_cases cf th l1 rest nx :
  t_cmdi (thread_after cf th l1 rest nx) = t_cmdi th \/
  (t_cmdi (thread_after cf th l1 rest nx) = t_cmdi th + 1 /\ t_stack (thread_after cf th l1 rest nx) = []).
Proof.
  unfold thread_after. destruct nx; cbn; auto. destruct (unwind cf l1 rest v); cbn; auto.
Qed.

Lemma written_thread cf th l1 rest nx k hv :
  written cf l1 rest nx = Some (k, hv) ->
  t_stack (thread_after cf th l1 rest nx) = [] /\ t_cmdi (thread_after cf th l1 rest nx) = t_cmdi th + 1.
Proof.
  unfold written, thread_after. destruct nx; try discriminate.
  destruct (unwind cf l1 rest v) as [| l2 [[k' hv']|] v' | | |]; try discriminate. auto.
Qed.

(** The set of the acting thread only grows from "command started" to the next point. *)
Lemma cur_env_after th th' :
  t_prog th' = t_prog th -> t_stack th <> [] ->
  (t_cmdi th' = t_cmdi th \/ (t_cmdi th' = t_cmdi th + 1 /\ t_stack th' = [])) ->
  forall h, In h (cur_env th) -> In h (cur_env th').
Proof.
  intros Hp Hs Hc h. unfold cur_env. rewrite Hp.
  destruct (t_stack th) as [|f0 st0]; [contradiction|]. destruct Hc as [Hc|[Hc Hs']].
  - rewrite Hc. destruct (nth_error (t_prog th) (N.to_nat (t_cmdi th))) as [c|]; destruct (t_stack th'); auto.
    intros H. apply remk_In in H. apply H.
  - rewrite Hc, Hs'. replace (N.to_nat (t_cmdi th + 1)) with (S (N.to_nat (t_cmdi th))) by lia.
    rewrite env_at_succ. destruct (nth_error (t_prog th) (N.to_nat (t_cmdi th))) as [c|]; auto.
    intros H. unfold post. apply in_or_app. right. exact H.
Qed.

(** ** Bottom frames name the destination of the current command *)
Theorem step_dst_run cf s t x :
  (forall t', t_status (thr s t') = Running -> dst_ok (thr s t')) ->
  forall t', t_status (thr (fst (step cf s t x)) t') = Running -> dst_ok (thr (fst (step cf s t x)) t').
Proof.
  intros H t'.
  destruct (N.eq_dec t' t) as [->|Hne]; [|rewrite step_status_other by exact Hne; apply H].
  destruct (step_cases cf s t x) as [E|c s1 l1 stk r Hr Hs Hc Hen Hcs E|n Hr Hs Hn E|Hr Hs Hn E|p rest s1 l1 evs nx Hr Hs He E];
    rewrite E; try apply H.
  - intros _. cbn. rewrite upd_same.
    intros f h Hin Hb. unfold start_thread in *. destruct stk as [|p0 stk0]; [destruct Hin|]. cbn in *.
    exists c. split; [exact Hc|]. eapply cmd_start_dst; eassumption.
  - intros _. cbn. rewrite upd_same.
    intros f h Hin Hb. cbn in Hin. destruct Hin as [<-|[<-|[]]]; discriminate Hb.
  - cbn. rewrite upd_same. intros _ f h [].
  - cbn [thr]. rewrite upd_same. intros Hr' f h Hin Hb.
    destruct (thread_after_frames _ _ _ _ _ _ _ _ _ (thr s t) rest He Hr' f Hin) as [Hin'|Hpl].
    + rewrite thread_after_prog, thread_after_cmdi by (intros E0; rewrite E0 in Hin; destruct Hin).
      apply (H t Hr f h); [rewrite Hs; right; exact Hin'|exact Hb].
    + rewrite (plain_no_dst _ Hpl) in Hb. discriminate.
Qed.

(** ** A step of thread [t] writes handles of the program of [t] only *)
Lemma step_hnd_foreign cf s t x k :
  (t_status (thr s t) = Running -> dst_ok (thr s t)) ->
  ~ In k (prog_handles (t_prog (thr s t))) -> hnd (fst (step cf s t x)) k = hnd s k.
Proof.
  intros Hd Hk.
  destruct (step_cases cf s t x) as [E|c s1 l1 stk r Hr Hs Hc Hen Hcs E|n Hr Hs Hn E|Hr Hs Hn E|p rest s1 l1 evs nx Hr Hs He E];
    rewrite E; try reflexivity.
  - cbn [set_thread hnd]. eapply cmd_start_hnd_other; [exact Hcs|].
    intros Hin. apply Hk. eapply uses_in_prog; eassumption.
  - cbn [hnd]. rewrite hnd_after_written.
    destruct (written cf l1 rest nx) as [[k' hv]|] eqn:Hw; [|reflexivity].
    destruct (written_dst _ _ _ _ _ _ Hw) as (f & Hin & Hb).
    destruct (Hd Hr f k') as (c & Hc & Hdst); [rewrite Hs; right; exact Hin|exact Hb|].
    apply upd_other. intros ->. apply Hk. eapply uses_in_prog; [exact Hc|]. apply dst_in_uses. exact Hdst.
Qed.

(** ** [step_cases] with the fact that a thread exits only at the end of its program *)
Inductive step_shape2 (cf : config) (s : state) (t x : N) : Prop :=
| s2_none : fst (step cf s t x) = s -> step_shape2 cf s t x
| s2_cmd c s1 l1 stk r :
    t_status (thr s t) = Running -> t_stack (thr s t) = [] ->
    nth_error (t_prog (thr s t)) (N.to_nat (t_cmdi (thr s t))) = Some c ->
    cmd_enabled s c = true ->
    cmd_start cf s (t_loc (thr s t)) c = inl (s1, l1, stk, r) ->
    fst (step cf s t x) = set_thread s1 t (start_thread (thr s t) l1 stk) ->
    step_shape2 cf s t x
| s2_exit_node n :
    t_status (thr s t) = Running -> t_stack (thr s t) = [] ->
    nth_error (t_prog (thr s t)) (N.to_nat (t_cmdi (thr s t))) = None ->
    fst (step cf s t x) =
      set_thread s t (mkThread [C1 n; WThreadExit] (tl_set_node (t_loc (thr s t)) None)
                               (t_prog (thr s t)) (t_cmdi (thr s t)) Running) ->
    step_shape2 cf s t x
| s2_exit :
    t_status (thr s t) = Running -> t_stack (thr s t) = [] ->
    fst (step cf s t x) =
      set_thread s t (mkThread [] (t_loc (thr s t)) (t_prog (thr s t)) (t_cmdi (thr s t)) Exited) ->
    step_shape2 cf s t x
| s2_exec p rest s1 l1 evs nx :
    t_status (thr s t) = Running -> t_stack (thr s t) = p :: rest ->
    exec cf (sh s) (t_loc (thr s t)) p x = (s1, l1, evs, nx) ->
    fst (step cf s t x) =
      mkState s1 (upd (thr s) t (thread_after cf (thr s t) l1 rest nx)) (hnd_after cf (hnd s) l1 rest nx) ->
    step_shape2 cf s t x.

Lemma step_cases2 cf s t x : step_shape2 cf s t x.
Proof.
  destruct (t_status (thr s t)) eqn:Hr; try (apply s2_none; unfold step; rewrite Hr; reflexivity).
  destruct (t_stack (thr s t)) as [|p rest] eqn:Hs.
  - destruct (nth_error (t_prog (thr s t)) (N.to_nat (t_cmdi (thr s t)))) as [c|] eqn:Hc.
    + destruct (cmd_enabled s c) eqn:Hen; [|apply s2_none; unfold step; rewrite Hr, Hs, Hc, Hen; reflexivity].
      destruct (cmd_start_total cf s (t_loc (thr s t)) c) as [[[[s1 l1] stk] r] Hcs].
      eapply s2_cmd; eauto. unfold step. rewrite Hr, Hs, Hc, Hen, Hcs. unfold start_thread. destruct stk; reflexivity.
    + destruct (tl_node (t_loc (thr s t))) as [n|] eqn:Hn.
      * eapply s2_exit_node; eauto. unfold step. rewrite Hr, Hs, Hc, Hn. reflexivity.
      * eapply s2_exit; eauto. unfold step. rewrite Hr, Hs, Hc, Hn. reflexivity.
  - destruct (exec cf (sh s) (t_loc (thr s t)) p x) as [[[s1 l1] evs] nx] eqn:He.
    eapply s2_exec; eauto. eapply step_exec_eq; eauto.
Qed.
