(** * ASModel.ProgWF3 — [PInv] is preserved by every step. *)
From Coq Require Import Lia.
From ASModel Require Import Base State Orderings_gen Step Run Progress Hist Inv InvTl InvProto InvStep Sum StepCases.
From ASModel Require Import GenDefs Gen1 Gen2 Gen Prot11 Prot12 Safe8 ProgWF1 ProgWF2.

Lemma cmdi_succ (i : N) : N.to_nat (i + 1) = S (N.to_nat i).
Proof. lia. Qed.

(** ** The handles of the acting thread *)
Lemma step_hnd_self progs cf s t x :
  PInv progs s ->
  let s' := fst (step cf s t x) in
  t_status (thr s' t) = Running ->
  forall h, In h (prog_handles (t_prog (thr s' t))) -> hnd s' h <> HEmpty -> In h (cur_env (thr s' t)).
Proof.
  intros PI. cbn zeta.
  destruct (step_cases2 cf s t x) as [E|c s1 l1 stk r Hr Hs Hc Hen Hcs E|n Hr Hs Hn E|Hr Hs E|p rest s1 l1 evs nx Hr Hs He E];
    rewrite E.
  - intros Hr h. apply (pi_hnd _ _ PI t h Hr).
  - cbn [set_thread thr hnd]. rewrite upd_same. intros _ h Hin Hh.
    destruct (start_thread_fields (thr s t) l1 stk) as (_ & _ & _ & Fp). rewrite Fp in Hin.
    assert (IH : hnd s h <> HEmpty -> In h (env_at (t_prog (thr s t)) (N.to_nat (t_cmdi (thr s t))))).
    { intros Hold. pose proof (pi_hnd _ _ PI t h Hr Hin Hold) as H. unfold cur_env in H. rewrite Hs in H. exact H. }
    destruct (cmd_start_hnd _ _ _ _ _ _ _ _ Hen Hcs h Hh) as [[Hold Hnk]|[-> Hd]].
    + specialize (IH Hold). unfold start_thread, cur_env. destruct stk as [|f0 stk0]; cbn [t_stack t_prog t_cmdi].
      * rewrite cmdi_succ, env_at_succ, Hc. apply post_keep; assumption.
      * rewrite Hc. apply remk_In. split; assumption.
    + unfold start_thread, cur_env. cbn [t_stack t_prog t_cmdi].
      rewrite cmdi_succ, env_at_succ, Hc. apply post_dst. exact Hd.
  - cbn [set_thread thr hnd]. rewrite upd_same. cbn [t_prog]. intros _ h Hin Hh.
    pose proof (pi_hnd _ _ PI t h Hr Hin Hh) as H. unfold cur_env in *. rewrite Hs in H.
    cbn [t_stack t_prog t_cmdi]. rewrite Hn. exact H.
  - cbn [set_thread thr]. rewrite upd_same. intros H. discriminate H.
  - cbn [thr hnd]. rewrite upd_same. intros Hr' h Hin Hh. rewrite thread_after_prog in Hin.
    assert (Hne : t_stack (thr s t) <> []) by (rewrite Hs; discriminate).
    rewrite hnd_after_written in Hh.
    destruct (written cf l1 rest nx) as [[k hv]|] eqn:Hw.
    + destruct (written_thread cf (thr s t) _ _ _ _ _ Hw) as [Hst' Hci'].
      destruct (N.eq_dec h k) as [->|Hnk].
      * destruct (written_dst _ _ _ _ _ _ Hw) as (f & Hf & Hb).
        destruct (pi_dst _ _ PI t Hr f k) as (c & Hc & Hd); [rewrite Hs; right; exact Hf|exact Hb|].
        unfold cur_env. rewrite Hst', thread_after_prog, Hci', cmdi_succ, env_at_succ, Hc.
        apply post_dst. exact Hd.
      * rewrite upd_other in Hh by exact Hnk.
        apply (cur_env_after (thr s t)); [apply thread_after_prog|exact Hne|right; split; assumption|].
        apply (pi_hnd _ _ PI t h Hr Hin Hh).
    + apply (cur_env_after (thr s t)); [apply thread_after_prog|exact Hne|apply thread_after_cmdi_cases|].
      apply (pi_hnd _ _ PI t h Hr Hin Hh).
Qed.

(** ** The source of a running clone *)
Lemma thread_after_clone cf sh0 l p x s1 l1 evs nx th rest a :
  exec cf sh0 l p x = (s1, l1, evs, nx) ->
  In (CloneInc a) (t_stack (thread_after cf th l1 rest nx)) -> In (CloneInc a) rest.
Proof.
  intros He. pose proof (exec_nc _ _ _ _ _ _ _ _ _ He) as Hn.
  unfold thread_after. destruct nx as [p'|fs w|v|ps|f]; cbn [t_stack] in *.
  - intros [Hp|Hin]; [rewrite Hp in Hn; discriminate Hn|exact Hin].
  - apply andb_prop in Hn as [H1 H2]. intros Hin. apply in_app_or in Hin as [Hin|[Hw|Hin]].
    + rewrite forallb_forall in H1. specialize (H1 _ Hin). discriminate H1.
    + rewrite Hw in H2. discriminate H2.
    + exact Hin.
  - destruct (unwind cf l1 rest v) as [l2 stk| | | |] eqn:Hu; cbn [t_stack]; try (intros []; fail).
    intros Hin. eapply unwind_nc; eassumption.
  - auto.
  - auto.
Qed.

Lemma step_clone_self progs cf s t x :
  PInv progs s ->
  let s' := fst (step cf s t x) in
  forall a h h2, t_status (thr s' t) = Running -> In (CloneInc a) (t_stack (thr s' t)) ->
    nth_error (t_prog (thr s' t)) (N.to_nat (t_cmdi (thr s' t))) = Some (CClone h h2) ->
    hnd s' h = HOwned a \/ exists d, hnd s' h = HGuard a d.
Proof.
  intros PI. cbn zeta.
  destruct (step_cases2 cf s t x) as [E|c s1 l1 stk r Hr Hs Hc Hen Hcs E|n Hr Hs Hn E|Hr Hs E|p rest s1 l1 evs nx Hr Hs He E];
    rewrite E.
  - apply (pi_clone _ _ PI t).
  - cbn [set_thread thr hnd]. rewrite upd_same. intros a h h2 _ Hin Hcmd.
    unfold start_thread in Hin, Hcmd. destruct stk as [|f0 stk0]; [destruct Hin|]. cbn [t_stack t_prog t_cmdi] in *.
    rewrite Hc in Hcmd. injection Hcmd as ->. eapply cmd_start_clone_src; eassumption.
  - cbn [set_thread thr hnd]. rewrite upd_same. cbn [t_stack]. intros a h h2 _ [H|[H|[]]]; discriminate H.
  - cbn [set_thread thr]. rewrite upd_same. intros a h h2 H. discriminate H.
  - cbn [thr hnd]. rewrite upd_same. intros a h h2 Hr' Hin Hcmd.
    assert (Hne : t_stack (thread_after cf (thr s t) l1 rest nx) <> []) by (intros E0; rewrite E0 in Hin; destruct Hin).
    rewrite thread_after_prog, thread_after_cmdi in Hcmd by exact Hne.
    rewrite hnd_after_written.
    destruct (written cf l1 rest nx) as [[k hv]|] eqn:Hw.
    { elim Hne. eapply written_stack. exact Hw. }
    apply (pi_clone _ _ PI t a h h2 Hr); [|exact Hcmd].
    rewrite Hs. right. eapply thread_after_clone; eassumption.
Qed.

(** ** Preservation *)
Lemma foreign_handle progs s t t' h :
  handles_disjoint progs -> PInv progs s -> t' <> t ->
  In h (prog_handles (t_prog (thr s t'))) -> ~ In h (prog_handles (t_prog (thr s t))).
Proof.
  intros HD PI Hne Hin Hin'. rewrite (pi_prog _ _ PI) in Hin, Hin'.
  apply (HD (N.to_nat t') (N.to_nat t) h); [lia|exact Hin|exact Hin'].
Qed.

Theorem step_PInv progs cf s t x :
  handles_disjoint progs -> PInv progs s -> PInv progs (fst (step cf s t x)).
Proof.
  intros HD PI. constructor.
  - intros t'. rewrite step_prog. apply PI.
  - apply step_dst_run. apply PI.
  - intros t' h. destruct (N.eq_dec t' t) as [->|Hne]; [intros Hr; apply (step_hnd_self progs cf s t x PI Hr)|].
    rewrite step_status_other by exact Hne. intros Hr Hin.
    rewrite (step_hnd_foreign cf s t x h); [apply PI; assumption|apply PI|].
    eapply foreign_handle; eassumption.
  - intros t' a h h2. destruct (N.eq_dec t' t) as [->|Hne]; [apply (step_clone_self progs cf s t x PI)|].
    rewrite step_status_other by exact Hne. intros Hr Hin Hcmd.
    rewrite (step_hnd_foreign cf s t x h); [eapply PI; eassumption|apply PI|].
    eapply foreign_handle; try eassumption. eapply uses_in_prog; [exact Hcmd|]. left. reflexivity.
Qed.

Theorem run_PInv progs cf : forall sched s,
  handles_disjoint progs -> PInv progs s -> PInv progs (run_state cf s sched).
Proof.
  induction sched as [|[t x] sched IH]; intros s HD PI; [exact PI|].
  rewrite run_state_cons. apply IH; [exact HD|]. apply step_PInv; assumption.
Qed.
