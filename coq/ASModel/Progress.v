(** * ASModel.Progress — wait-freedom of [load] (C08).

    A measure on the program points of [HybridStrategy::load] that strictly decreases with
    every step of the loading thread, whatever the shared state is and whatever the
    scheduler's choice is.  Nothing about other threads enters: their steps do not touch
    this thread's stack ([step_other_stack]). *)
From Coq Require Import Lia.
From ASModel Require Import Base State Orderings_gen Step Run.

(** Remaining own steps (upper bound) of a load frame, including the three steps of the
    cooldown at the documented generation wrap. *)
Definition rem (p : pc) : option nat :=
  match p with
  | LH10 _ _ => Some 4%nat | LH9 _ _ => Some 5%nat | LH8 _ _ _ => Some 6%nat | LH7 _ _ => Some 7%nat
  | LH6c _ => Some 4%nat | LH6b _ => Some 5%nat | LH6a _ => Some 6%nat
  | LH5 _ _ _ => Some 8%nat | LH4 _ _ _ => Some 9%nat | LH3d _ _ _ => Some 10%nat | LH3 _ _ => Some 11%nat
  | LH2 _ _ => Some 12%nat | LH1 _ _ => Some 13%nat | LH0d _ => Some 14%nat
  | LA6 _ _ => Some 15%nat | LA5 _ _ _ => Some 16%nat | LA4 _ _ _ => Some 17%nat | LA3 _ _ _ => Some 18%nat
  | LAscan _ _ i => if i <=? 7 then Some (26 - N.to_nat i)%nat else None
  | LA1d _ _ => Some 27%nat | LA1 _ => Some 28%nat
  | _ => None
  end.

(** The bound of C08: own steps of one [load] on a thread that already has its node. *)
Definition K_load : nat := 28%nat.

Definition cool_rem (p : pc) : option nat :=
  match p with C1 _ => Some 3%nat | C2 _ => Some 2%nat | C3 _ => Some 1%nat | _ => None end.

(** [in_load rest stk m]: the thread's stack [stk] is a load frame (or the cooldown that
    ends it) on top of [rest], with at most [m] own steps to go. *)
Inductive in_load (rest : list pc) : list pc -> nat -> Prop :=
| il_frame p m : rem p = Some m -> in_load rest (p :: rest) m
| il_cool p m r : cool_rem p = Some m -> in_load rest (p :: WExit r :: rest) m.

Lemma fallback_entry_rem cf l c l' nx :
  fallback_entry cf l c = (l', nx) ->
  match nx with
  | NGoto p' => exists m, rem p' = Some m /\ (m <= 14)%nat
  | NPanic _ => True
  | _ => False
  end.
Proof.
  unfold fallback_entry. destruct (tl_node l); [|intros [= <- <-]; exact I].
  destruct (cf_debug cf); intros [= <- <-]; cbn; eauto.
Qed.

Lemma gen_step_rem cf l c l' nx :
  gen_step cf l c = (l', nx) ->
  match nx with
  | NGoto p' => exists m, rem p' = Some m /\ (m <= 13)%nat
  | NPanic _ => True
  | _ => False
  end.
Proof.
  unfold gen_step. destruct (_ && _); intros [= <- <-]; cbn; eauto.
Qed.

Lemma with_exit_shape l r l' nx :
  with_exit l r = (l', nx) ->
  nx = NRet r \/ exists n, nx = NPush [C1 n] (WExit r).
Proof.
  unfold with_exit. destruct (_ && _).
  - destruct (tl_node _); intros [= <- <-]; eauto.
  - intros [= <- <-]; eauto.
Qed.

(** What a load frame may do next: go to a load point with a smaller measure, return (or
    start the cooldown of the generation wrap and then return), or stop the thread. *)
Definition load_next_ok (m : nat) (nx : next) : Prop :=
  match nx with
  | NGoto p' => exists m', rem p' = Some m' /\ (m' < m)%nat
  | NRet v => exists q d, v = RGuard q d
  | NPush fs w => (exists n q d, fs = [C1 n] /\ w = WExit (RGuard q d)) /\ (3 < m)%nat
  | NPanic _ | NFault _ => True
  end.

Ltac case_if H :=
  match type of H with context [if ?b then _ else _] => destruct b eqn:? end.

Ltac solve_next :=
  cbn; repeat first
    [ progress cbn
    | lia
    | match goal with
      | |- exists m', Some ?x = Some m' /\ _ => exists x; split; [reflexivity|]
      | |- _ /\ _ => split
      | |- True => exact I
      end ].

Lemma exec_load_decreases cf s l p x m s' l' evs nx :
  rem p = Some m ->
  exec cf s l p x = (s', l', evs, nx) ->
  load_next_ok m nx.
Proof.
  intros Hm He.
  destruct p; cbn in Hm; try discriminate; unfold exec in He.
  (* LA1 *)
  - injection Hm as <-. destruct (tl_node l); [destruct (cf_debug cf)|]; injection He as <- <- <- <-; solve_next.
  (* LA1d *)
  - injection Hm as <-. cbn in He. destruct (_ =? NODE_USED); injection He as <- <- <- <-; solve_next.
  (* LAscan *)
  - destruct (i <=? 7) eqn:Hi; [|discriminate]. injection Hm as <-. apply N.leb_le in Hi.
    cbn in He. destruct (_ =? NONE).
    + injection He as <- <- <- <-. cbn. eexists; split; [reflexivity|lia].
    + destruct (i =? 7) eqn:Hi7.
      * destruct (fallback_entry cf l c) as [l2 nx2] eqn:Hf. injection He as <- <- <- <-.
        apply fallback_entry_rem in Hf. destruct nx2; try exact I; try contradiction.
        destruct Hf as (m' & Hr & Hle). cbn. exists m'. split; [exact Hr|]. apply N.eqb_eq in Hi7. subst i. cbn. lia.
      * injection He as <- <- <- <-. cbn. apply N.eqb_neq in Hi7.
        assert (i + 1 <=? 7 = true) as -> by (apply N.leb_le; lia).
        eexists; split; [reflexivity|]. lia.
  (* LA3 *)
  - injection Hm as <-. cbn in He. destruct (_ && _); injection He as <- <- <- <-; solve_next.
  (* LA4 *)
  - injection Hm as <-. cbn in He. case_if He.
    + destruct (with_exit l _) as [l2 nx2] eqn:Hw. injection He as <- <- <- <-.
      apply with_exit_shape in Hw as [->|[n ->]]; cbn; [eauto|]. split; [eauto|lia].
    + injection He as <- <- <- <-. solve_next.
  (* LA5 *)
  - injection Hm as <-. cbn in He.
    match type of He with context [if ?b then _ else _] => destruct b end.
    + destruct (fallback_entry cf l c) as [l2 nx2] eqn:Hf. injection He as <- <- <- <-.
      apply fallback_entry_rem in Hf. destruct nx2; try exact I; try contradiction.
      destruct Hf as (m' & Hr & Hle). cbn. exists m'. split; [exact Hr|lia].
    + injection He as <- <- <- <-. solve_next.
  (* LA6 *)
  - injection Hm as <-. destruct (rc_dec s _) as [[s2 evs2]|].
    + destruct (fallback_entry cf l c) as [l2 nx2] eqn:Hf. injection He as <- <- <- <-.
      apply fallback_entry_rem in Hf. destruct nx2; try exact I; try contradiction.
      destruct Hf as (m' & Hr & Hle). cbn. exists m'. split; [exact Hr|lia].
    + injection He as <- <- <- <-. exact I.
  (* LH0d *)
  - injection Hm as <-. cbn in He. destruct (_ =? NODE_USED).
    + destruct (gen_step cf l c) as [l2 nx2] eqn:Hf. injection He as <- <- <- <-.
      apply gen_step_rem in Hf. destruct nx2; try exact I; try contradiction.
      destruct Hf as (m' & Hr & Hle). cbn. exists m'. split; [exact Hr|lia].
    + injection He as <- <- <- <-. exact I.
  (* LH1 *)
  - injection Hm as <-. cbn in He. injection He as <- <- <- <-. solve_next.
  (* LH2 *)
  - injection Hm as <-. cbn in He. destruct (_ && _); injection He as <- <- <- <-; solve_next.
  (* LH3 *)
  - injection Hm as <-. cbn in He. destruct (tl_node l); [destruct (cf_debug cf)|]; injection He as <- <- <- <-; solve_next.
  (* LH3d *)
  - injection Hm as <-. cbn in He. destruct (_ =? NODE_USED); injection He as <- <- <- <-; solve_next.
  (* LH4 *)
  - injection Hm as <-. cbn in He. destruct (_ && _); injection He as <- <- <- <-; solve_next.
  (* LH5 *)
  - injection Hm as <-. cbn in He. case_if He.
    + case_if He; injection He as <- <- <- <-; solve_next.
    + case_if He; injection He as <- <- <- <-; solve_next.
  (* LH6a *)
  - injection Hm as <-. destruct (rc_inc s _) as [[s2 evs2]|]; injection He as <- <- <- <-; solve_next.
  (* LH6b *)
  - injection Hm as <-. cbn in He.
    match type of He with context [if ?b then _ else _] => destruct b end.
    + destruct (with_exit l _) as [l2 nx2] eqn:Hw. injection He as <- <- <- <-.
      apply with_exit_shape in Hw as [->|[n ->]]; cbn; [eauto|]. split; [eauto|lia].
    + injection He as <- <- <- <-. solve_next.
  (* LH6c *)
  - injection Hm as <-. destruct (rc_dec s _) as [[s2 evs2]|].
    + destruct (with_exit l _) as [l2 nx2] eqn:Hw. injection He as <- <- <- <-.
      apply with_exit_shape in Hw as [->|[n ->]]; cbn; [eauto|]. split; [eauto|lia].
    + injection He as <- <- <- <-. exact I.
  (* LH7 *)
  - injection Hm as <-. cbn in He. injection He as <- <- <- <-. solve_next.
  (* LH8 *)
  - injection Hm as <-. cbn in He. injection He as <- <- <- <-. solve_next.
  (* LH9 *)
  - injection Hm as <-. cbn in He.
    match type of He with context [if ?b then _ else _] => destruct b end.
    + destruct (with_exit l _) as [l2 nx2] eqn:Hw. injection He as <- <- <- <-.
      apply with_exit_shape in Hw as [->|[n ->]]; cbn; [eauto|]. split; [eauto|lia].
    + injection He as <- <- <- <-. solve_next.
  (* LH10 *)
  - injection Hm as <-. destruct (rc_dec s _) as [[s2 evs2]|].
    + destruct (with_exit l _) as [l2 nx2] eqn:Hw. injection He as <- <- <- <-.
      apply with_exit_shape in Hw as [->|[n ->]]; cbn; [eauto|]. split; [eauto|lia].
    + injection He as <- <- <- <-. exact I.
Qed.

(** ** From the frame to the thread: [load] and [load_full] as user commands. *)

(** Stacks of a thread that is executing a [load] ([CLoad]) or [load_full] ([CLoadFull])
    command, with a bound on its remaining own steps. *)
Inductive read_stack : list pc -> nat -> Prop :=
| rs_load p m d : rem p = Some m -> read_stack [p; KDone d] m
| rs_loadfull p m d : rem p = Some m -> read_stack [p; WLoadFull; KDone d] (m + 3)
| rs_cool p m q dq d : cool_rem p = Some m -> read_stack [p; WExit (RGuard q dq); KDone d] m
| rs_coolfull p m q dq d : cool_rem p = Some m -> read_stack [p; WExit (RGuard q dq); WLoadFull; KDone d] (m + 3)
| rs_gi1 a sl d : read_stack [GI1 a sl; KDone d] 3
| rs_gi2 a sl d : read_stack [GI2 a sl; KDone d] 2
| rs_dec a d : read_stack [PDec a (ROwned a); KDone d] 1.

(** The bound for [load_full]. *)
Definition K_load_full : nat := (K_load + 3)%nat.

Lemma read_stack_bound stk m : read_stack stk m -> (m <= K_load_full)%nat.
Proof.
  unfold K_load_full, K_load.
  destruct 1 as [p m d H|p m d H|p m q dq d H|p m q dq d H| | |];
    try (destruct p; cbn in H; try discriminate; try (injection H as <-; lia);
         match type of H with context [if ?b then _ else _] => destruct b; [injection H as <-; lia|discriminate] end);
    lia.
Qed.

Lemma rem_pos p m : rem p = Some m -> (0 < m)%nat.
Proof.
  destruct p; cbn; try discriminate; try (intros [= <-]; lia).
  destruct (_ <=? 7) eqn:Hb; [|discriminate]. intros [= <-]. apply N.leb_le in Hb. lia.
Qed.

Lemma read_stack_pos stk m : read_stack stk m -> (0 < m)%nat.
Proof.
  destruct 1 as [p m d H|p m d H|p m q dq d H|p m q dq d H| | |]; try lia.
  - eapply rem_pos; eauto.
  - destruct p; cbn in H; try discriminate; injection H as <-; lia.
Qed.

Lemma read_stack_entry_load cf l c l' fs d :
  enter_load cf l c = inl (l', fs) -> tl_node l <> None ->
  exists m, read_stack (fs ++ [KDone d]) m.
Proof.
  unfold enter_load. destruct (tl_node l) eqn:Hn; [|congruence]. intros H _.
  unfold load_body in H. destruct (cf_use_fast cf).
  - injection H as <- <-. eexists. cbn. apply rs_load. reflexivity.
  - destruct (fallback_entry cf _ c) as [l2 nx] eqn:Hf. pose proof (fallback_entry_rem _ _ _ _ _ Hf) as Hr.
    destruct nx; try discriminate. injection H as <- <-. destruct Hr as (m & Hm & _).
    exists m. cbn. apply rs_load. exact Hm.
Qed.

(** One own step of a reading thread: the command completes (its [EvRet] is emitted and the
    stack is empty again), or the thread stops (panic / fault, excluded by C13 / C01), or
    the measure strictly decreases.  The shared state [s] and the choice [x] are arbitrary:
    nothing another thread does can make a reader retry or wait. *)
Definition read_progress (cf : config) (s : state) (t x : N) (m : nat) : Prop :=
  let s' := fst (step cf s t x) in
  let evs := snd (step cf s t x) in
  (t_stack (thr s' t) = [] /\ t_status (thr s' t) = Running /\
     exists v, In (EvRet (t_cmdi (thr s t)) v) evs)
  \/ t_status (thr s' t) <> Running
  \/ exists m', read_stack (t_stack (thr s' t)) m' /\ t_status (thr s' t) = Running /\ (m' < m)%nat.

Lemma upd_same {A B} `{EqDecision A} (f : A -> B) k v : upd f k v k = v.
Proof. unfold upd. destruct (decide (k = k)); congruence. Qed.
Lemma upd_other {A B} `{EqDecision A} (f : A -> B) k k' v : k' <> k -> upd f k v k' = f k'.
Proof. unfold upd. destruct (decide (k' = k)); congruence. Qed.

Ltac ret_in :=
  eexists; first
    [ apply in_or_app; right; left; reflexivity
    | cbn; right; left; reflexivity
    | cbn; left; reflexivity
    | cbn; right; right; left; reflexivity ].

Ltac thr_simpl := cbn [thr sh hnd fst snd t_stack t_status t_loc t_cmdi t_prog]; rewrite ?upd_same.

Lemma finish_goto cf s t th s_sh l rest evs p :
  finish cf s t th s_sh l rest evs (NGoto p) =
  (mkState s_sh (upd (thr s) t (mkThread (p :: rest) l (t_prog th) (t_cmdi th) Running)) (hnd s), evs).
Proof. reflexivity. Qed.

Lemma read_step cf s t x stk m :
  t_status (thr s t) = Running ->
  t_stack (thr s t) = stk ->
  read_stack stk m ->
  read_progress cf s t x m.
Proof.
  intros Hrun Hstk Hrs. unfold read_progress, step. rewrite Hrun, Hstk.
  destruct Hrs as [p m d Hm|p m d Hm|p m q dq d Hm|p m q dq d Hm|a sl d|a sl d|a d].
  - (* load frame above KDone *)
    destruct (exec cf (sh s) (t_loc (thr s t)) p x) as [[[s_sh l] evs] nx] eqn:He.
    pose proof (exec_load_decreases _ _ _ _ _ _ _ _ _ _ Hm He) as Hok.
    destruct nx as [p'|fs w|v|ps|f]; cbn in Hok.
    + right; right. destruct Hok as (m' & Hm' & Hlt). exists m'. cbn. thr_simpl.
      split; [apply rs_load; exact Hm'|]. split; [reflexivity|exact Hlt].
    + right; right. destruct Hok as ((n & q & dq & -> & ->) & Hlt). exists 3%nat. cbn. thr_simpl.
      split; [apply rs_cool; reflexivity|]. split; [reflexivity|exact Hlt].
    + left. destruct Hok as (q & dq & ->). cbn. thr_simpl.
      split; [reflexivity|]. split; [reflexivity|]. ret_in.
    + right; left. cbn. thr_simpl. discriminate.
    + right; left. cbn. thr_simpl. discriminate.
  - (* load frame above WLoadFull *)
    destruct (exec cf (sh s) (t_loc (thr s t)) p x) as [[[s_sh l] evs] nx] eqn:He.
    pose proof (exec_load_decreases _ _ _ _ _ _ _ _ _ _ Hm He) as Hok.
    destruct nx as [p'|fs w|v|ps|f]; cbn in Hok.
    + right; right. destruct Hok as (m' & Hm' & Hlt). exists (m' + 3)%nat. cbn. thr_simpl.
      split; [apply rs_loadfull; exact Hm'|]. split; [reflexivity|lia].
    + right; right. destruct Hok as ((n & q & dq & -> & ->) & Hlt). exists (3 + 3)%nat. cbn. thr_simpl.
      split; [exact (rs_coolfull (C1 n) 3%nat q dq d eq_refl)|]. split; [reflexivity|lia].
    + destruct Hok as (q & dq & ->).
      assert (Hpos : (0 < m)%nat).
      { destruct p; cbn in Hm; try discriminate; try (injection Hm as <-; lia).
        match type of Hm with context [if ?b then _ else _] => destruct b eqn:Hb; [injection Hm as <-; apply N.leb_le in Hb; lia|discriminate] end. }
      cbn. destruct dq as [sl|]; cbn.
      * destruct (q =? 0); cbn; thr_simpl; right; right.
        -- exists 2%nat. split; [apply rs_gi2|]. split; [reflexivity|lia].
        -- exists 3%nat. split; [apply rs_gi1|]. split; [reflexivity|lia].
      * left. thr_simpl. split; [reflexivity|]. split; [reflexivity|]. ret_in.
    + right; left. cbn. thr_simpl. discriminate.
    + right; left. cbn. thr_simpl. discriminate.
  - (* cooldown, plain load *)
    destruct p; cbn in Hm; try discriminate; injection Hm as <-; cbn.
    + right; right. exists 2%nat. thr_simpl. split; [apply rs_cool; reflexivity|]. split; [reflexivity|lia].
    + destruct (_ =? NODE_USED); cbn; thr_simpl.
      * right; right. exists 1%nat. split; [apply rs_cool; reflexivity|]. split; [reflexivity|lia].
      * right; left. discriminate.
    + left. thr_simpl. split; [reflexivity|]. split; [reflexivity|]. ret_in.
  - (* cooldown, load_full *)
    destruct p; cbn in Hm; try discriminate; injection Hm as <-; cbn.
    + right; right. exists (2 + 3)%nat. thr_simpl. split; [exact (rs_coolfull (C2 _) 2%nat q dq d eq_refl)|]. split; [reflexivity|lia].
    + destruct (_ =? NODE_USED); cbn; thr_simpl.
      * right; right. exists (1 + 3)%nat. split; [exact (rs_coolfull (C3 _) 1%nat q dq d eq_refl)|]. split; [reflexivity|lia].
      * right; left. discriminate.
    + destruct dq as [sl|]; cbn.
      * destruct (q =? 0); cbn; thr_simpl; right; right.
        -- exists 2%nat. split; [apply rs_gi2|]. split; [reflexivity|lia].
        -- exists 3%nat. split; [apply rs_gi1|]. split; [reflexivity|lia].
      * left. thr_simpl. split; [reflexivity|]. split; [reflexivity|]. ret_in.
  - (* GI1 *)
    cbn. destruct (rc_inc (sh s) a) as [[s2 evs2]|]; cbn; thr_simpl.
    + right; right. exists 2%nat. split; [apply rs_gi2|]. split; [reflexivity|lia].
    + right; left. discriminate.
  - (* GI2 *)
    cbn. destruct (_ && _); cbn.
    + left. thr_simpl. split; [reflexivity|]. split; [reflexivity|]. ret_in.
    + unfold dec_then. destruct (a =? 0); cbn; thr_simpl.
      * left. split; [reflexivity|]. split; [reflexivity|]. ret_in.
      * right; right. exists 1%nat. split; [apply rs_dec|]. split; [reflexivity|lia].
  - (* PDec *)
    cbn. destruct (rc_dec (sh s) a) as [[s2 evs2]|]; cbn; thr_simpl.
    + left. split; [reflexivity|]. split; [reflexivity|]. ret_in.
    + right; left. discriminate.
Qed.

(** Steps of other threads never touch this thread's stack, status or locals. *)
Lemma step_other cf s t t' x : t' <> t -> thr (fst (step cf s t' x)) t = thr s t.
Proof.
  intros Hne. unfold step.
  destruct (t_status (thr s t')); try reflexivity.
  destruct (t_stack (thr s t')) as [|p rest].
  - destruct (nth_error _ _) as [c|].
    + destruct (cmd_enabled s c); [|reflexivity].
      destruct (cmd_start cf s (t_loc (thr s t')) c) as [[[[s' l'] stk] r]|ps] eqn:Hc.
      * assert (Hthr : thr s' = thr s).
        { clear -Hc. destruct c; cbn in Hc;
            repeat match type of Hc with
                   | context [match ?e with _ => _ end] => destruct e eqn:?
                   | context [if ?b then _ else _] => destruct b eqn:?
                   end; try discriminate; injection Hc as <- <- <- <-; try reflexivity;
            try (unfold consume; match goal with |- context [match ?v with _ => _ end] => destruct v end; reflexivity). }
        destruct stk; cbn; rewrite Hthr; apply upd_other; congruence.
      * cbn. apply upd_other; congruence.
    + destruct (tl_node _); cbn; apply upd_other; congruence.
  - destruct (exec cf (sh s) (t_loc (thr s t')) p x) as [[[s_sh l] evs] nx].
    unfold finish. destruct nx; cbn; try (apply upd_other; congruence).
    destruct (unwind cf l rest v); cbn; try (apply upd_other; congruence).
Qed.

(** ** The bound over arbitrary schedules.

    [own_steps_reading cf t sched s] counts the steps thread [t] takes in [sched], starting
    from [s], while it is (still) inside the read it was executing in [s]. *)
Fixpoint own_steps_reading (cf : config) (t : N) (sched : list (N * N)) (s : state) (fuel_reading : bool) : nat :=
  match sched with
  | [] => 0
  | (t', x) :: rest =>
      let s' := fst (step cf s t' x) in
      if negb fuel_reading then 0%nat
      else if N.eqb t' t then
        (* own step: still reading afterwards iff some read_stack measure applies *)
        S (own_steps_reading cf t rest s'
             (match t_stack (thr s' t), t_status (thr s' t) with
              | [], _ => false
              | _, Running => true
              | _, _ => false
              end))
      else own_steps_reading cf t rest s' fuel_reading
  end.

Theorem read_wait_free cf t :
  forall sched s m,
    t_status (thr s t) = Running ->
    read_stack (t_stack (thr s t)) m ->
    (own_steps_reading cf t sched s true <= m)%nat.
Proof.
  induction sched as [|[t' x] sched IH]; intros s m Hrun Hrs; [cbn; lia|].
  cbn [own_steps_reading negb]. destruct (N.eqb_spec t' t) as [->|Hne].
  - pose proof (read_stack_pos _ _ Hrs) as Hpos.
    pose proof (read_step cf s t x _ m Hrun eq_refl Hrs) as Hp. unfold read_progress in Hp.
    destruct Hp as [(Hnil & _ & _)|[Hstop|(m' & Hrs' & Hrun' & Hlt)]].
    + rewrite Hnil. destruct sched as [|[? ?] ?]; cbn; lia.
    + destruct (t_stack (thr (fst (step cf s t x)) t)); [destruct sched as [|[? ?] ?]; cbn; lia|].
      destruct (t_status (thr (fst (step cf s t x)) t)); try congruence; destruct sched as [|[? ?] ?]; cbn; lia.
    + specialize (IH (fst (step cf s t x)) m' Hrun' Hrs').
      destruct (t_stack (thr (fst (step cf s t x)) t)) eqn:Hst.
      * inversion Hrs'.
      * rewrite Hrun'. lia.
  - apply IH; rewrite (step_other cf s t t' x Hne); assumption.
Qed.
